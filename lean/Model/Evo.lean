/-
E2 / the evolution-level operators, line by line over the tree model of `Model/Fuzz.lean`:

* `evolution/crossover.py   SimpleSubtreeCrossover.crossover`
* `evolution/mutation.py    SimpleMutation.mutate`
* `evolution/population.py  PopulationManager.fix_individual` with the suggestion classes of
  `constraints/failing_tree.py` (`NopSuggestion`, `ApplyAllSuggestions`, `ApplyFirstSuggestion`) and
  `constraints/repetition_bounds.py  RepetitionBoundsSuggestion.get_replacements`
  (`_insert_repetitions` / `_delete_repetitions` / the full-delete branch).
  `EqualComparisonSuggestion` hands out what the parser delivered (`grammar.parse(value, start=symbol)`, C04)
  or a copy of a subtree: it is the leaf `given` (its pairs are inputs).

They call the operators already modelled — `replM` (`replace_multiple`), `splitEnd`, `fuzzStart`
(`Grammar.fuzz`), `insertFuzz` / `insertKids` / `deleteReps` — in the order and with the arguments the code
uses.  Random choices are explicit draws: the symbol and the two indices `random.choice` picks in `crossover`,
the two indices in `mutate`, and the typed tape of the `fuzz` calls.  Trees are `ATree` (read-only flags and
origin tags: the operators read them); generator-free grammars (`sources` stay empty), individuals are roots.
-/
import Model.Fuzz
namespace FV

namespace ATree

def isNT : ATree → Bool
  | mk (.nt _) _ _ _ _ _ => true
  | _ => false

/-- the symbol's name (only used for nonterminal nodes) -/
def name : ATree → String
  | mk (.nt n) _ _ _ _ _ => n
  | _ => "?"

mutual
/-- `DerivationTree.size()` -/
def size : ATree → Nat
  | mk _ _ _ _ _ ks => 1 + sizeL ks
def sizeL : List ATree → Nat
  | [] => 0
  | t :: ts => size t + sizeL ts
end

mutual
/-- `get_non_terminal_symbols()` (`exclude_read_only=True`), as a list -/
def ntSyms : ATree → List String
  | mk (.nt n) _ _ ro _ ks => (if ro then [] else [n]) ++ ntSymsL ks
  | mk _ _ _ _ _ ks => ntSymsL ks
def ntSymsL : List ATree → List String
  | [] => []
  | t :: ts => ntSyms t ++ ntSymsL ts
end

mutual
/-- `find_all_nodes(symbol)` (`exclude_read_only=True`): paths in pre-order; only nonterminal nodes are entered -/
def findAll (s : String) : ATree → List Nat → List (List Nat)
  | mk (.nt n) _ _ ro _ ks, p => (if n = s ∧ ro = false then [p] else []) ++ findAllL s ks p 0
  | mk _ _ _ _ _ _, _ => []
def findAllL (s : String) : List ATree → List Nat → Nat → List (List Nat)
  | [], _, _ => []
  | t :: ts, p, i => findAll s t (p ++ [i]) ++ findAllL s ts p (i + 1)
end

mutual
/-- `descendants()` = `flatten()[1:]`: paths in pre-order -/
def descPaths : ATree → List Nat → List (List Nat)
  | mk _ _ _ _ _ ks, p => descPathsL ks p 0
def descPathsL : List ATree → List Nat → Nat → List (List Nat)
  | [], _, _ => []
  | t :: ts, p, i => (p ++ [i]) :: (descPaths t (p ++ [i]) ++ descPathsL ts p (i + 1))
end

/-- `[n.symbol for n in node.get_path()]` for the node at `p`: the symbols from the root down to it -/
def pathSyms : ATree → List Nat → List String
  | t, [] => [t.name]
  | mk s a r ro o ks, i :: p =>
    (mk s a r ro o ks).name :: (match ks[i]? with
      | some k => pathSyms k p
      | none => [])

end ATree

/-! ## `SimpleSubtreeCrossover.crossover` -/

inductive XRes where
  /-- `return None`: the parents share no (writable) nonterminal symbol -/
  | nothing
  /-- the draws are not draws the code can make -/
  | stuck
  | ok (child1 child2 : ATree)

/-- `crossover(grammar, parent1, parent2)` with the draws `sym` (`random.choice(list(common_symbols))`),
    `k1`, `k2` (`random.choice(nodes1)`, `random.choice(nodes2)`); `fuel` bounds the two `replace` walks -/
def crossover (fuel : Nat) (p1 p2 : ATree) (sym : String) (k1 k2 : Nat) : XRes :=
  let symbols1 := p1.ntSyms
  let symbols2 := p2.ntSyms
  let common := symbols1.filter (fun s => symbols2.contains s)
  if common.isEmpty then .nothing
  else if !common.contains sym then .stuck
  else
    let nodes1 := p1.findAll sym []
    let nodes2 := p2.findAll sym []
    match nodes1[k1]?, nodes2[k2]? with
    | some q1, some q2 =>
      match p1.subAt q1, p2.subAt q2 with
      | some node1, some node2 =>
        -- child1 = parent1.replace(grammar, node1, node2); child2 = parent2.replace(grammar, node2, node1)
        match replM [(q1, node2)] fuel [] p1, replM [(q2, node1)] fuel [] p2 with
        | some c1, some c2 => .ok c1 c2
        | _, _ => .stuck
      | _, _ => .stuck
    | _, _ => .stuck

/-! ## `SimpleMutation.mutate` -/

/-- `(not x.read_only) and x.symbol.is_non_terminal` -/
def mutable (t : ATree) : Bool := !t.ro && t.isNT

/-- the failing subtrees (given by their paths in the individual) that may be mutated -/
def mutCands (ind : ATree) (failing : List (List Nat)) : List (List Nat) :=
  failing.filter (fun p => match ind.subAt p with
    | some u => mutable u
    | none => false)

/-- `[node_to_mutate] + [d for d in node_to_mutate.descendants() if mutable]` -/
def mutSubtrees (ind : ATree) (p : List Nat) : List (List Nat) :=
  match ind.subAt p with
  | some u => p :: (u.descPaths p).filter (fun q => match ind.subAt q with
      | some d => mutable d
      | none => false)
  | none => []

/-- the node picked by the two `random.choice` calls (`i` into the failing subtrees, `j` into its subtrees) -/
def mutPoint (ind : ATree) (failing : List (List Nat)) (i j : Nat) : Option (List Nat) :=
  match (mutCands ind failing)[i]? with
  | some p => (mutSubtrees ind p)[j]?
  | none => none

/-- arguments of the `grammar.fuzz` call: start symbol, the symbols on `prefix_node.get_path()`, `max_nodes`.
    `ctx_tree = node_to_mutate.split_end()`; `prefix_node = ctx_tree.parent` (its children are then overwritten
    with `ctx_tree.children[:-1]` — irrelevant here: `fuzz` only reads the path above the new node);
    without a parent `prefix_node = None` and `fuzz` makes its own root. -/
def mutFuzzArgs (ind : ATree) (q : List Nat) (node : ATree) (maxNodes : Int) : String × List String × Int :=
  let ctx := splitEnd ind q
  let path := if q.isEmpty then [node.name] else ctx.pathSyms q.dropLast
  (node.name, path, (node.size : Int) + (maxNodes - (ind.size : Int)))

inductive MRes where
  /-- `return individual`: nothing to mutate -/
  | same
  | stuck
  | ok (mutated : ATree) (rest : Tape)

/-- `mutate(individual, grammar, evaluate_func, max_nodes)`; `failing` = the trees of
    `evaluate_func(individual)`'s failing trees, as paths -/
def mutate (G : FGrammar) (fuelF fuelR : Nat) (ind : ATree) (failing : List (List Nat)) (maxNodes : Int)
    (i j : Nat) (tape : Tape) : MRes :=
  if (mutCands ind failing).isEmpty then .same
  else
    match mutPoint ind failing i j with
    | none => .stuck
    | some q =>
      match ind.subAt q with
      | none => .stuck
      | some node =>
        let args := mutFuzzArgs ind q node maxNodes
        match fuzzStart G fuelF args.1 args.2.1 args.2.2 tape with
        | none => .stuck
        | some (t, rest) =>
          -- mutated = individual.replace(grammar, node_to_mutate, new_subtree)
          match replM [(q, ATree.ofTree t)] fuelR [] ind with
          | some m => .ok m rest
          | none => .stuck

/-! ## suggestions and `PopulationManager.fix_individual` -/

inductive Sugg where
  | nop
  /-- pairs handed out by a suggestion that does not edit trees itself (`EqualComparisonSuggestion`) -/
  | given (repl : List (List Nat × ATree))
  | all (ss : List Sugg)
  | first (ss : List Sugg)
  /-- `RepetitionBoundsSuggestion`: paths of `_ending_rep_tree`, `_starting_rep_value`, `_ending_rep_value`;
      `_bound_len`, `_goal_len`, `_iter_id`, `_repetition_id`, `allow_repetition_full_delete`,
      `_repetition_node` -/
  | rep (ending startVal endVal : List Nat) (boundLen goalLen iter : Nat) (id : String) (allowFull : Bool)
      (node : FNode)

/-- `starting_rep`: one past the repetition index in the LAST matching tag of `_ending_rep_tree` -/
def startRep (id : String) (iter : Nat) (o : List Tag) : Nat :=
  o.foldl (fun acc x => if x.1 == id && x.2.1 == iter then x.2.2 + 1 else acc) 0

/-- common prefix of two paths (`_get_first_common_node`) -/
def commonPrefix : List Nat → List Nat → List Nat
  | a :: as, b :: bs => if a = b then a :: commonPrefix as bs else []
  | _, _ => []

/-- `sorted([a, b, c], key=len)[0]` (stable) -/
def shortest3 (a b c : List Nat) : List Nat :=
  let ab := if b.length < a.length then b else a
  if c.length < ab.length then c else ab

mutual
/-- `set_all_read_only(True)` -/
def markAll : ATree → ATree
  | .mk s a r _ o ks => .mk s a r true o (markAllL ks)
def markAllL : List ATree → List ATree
  | [] => []
  | t :: ts => markAll t :: markAllL ts
end

/-- walk down `p` from the node, setting `read_only` on every node entered (not on the start node); the
    node reached last gets `set_all_read_only(True)` when `all`; `none`: an index is out of range (IndexError) -/
def markPath (all : Bool) : ATree → List Nat → Bool → Option ATree
  | t, [], entered => some (if all then markAll t else (if entered then (match t with | .mk s a r _ o ks => .mk s a r true o ks) else t))
  | .mk s a r ro o ks, i :: p, entered =>
    match ks[i]? with
    | none => none
    | some k =>
      match markPath all k p true with
      | none => none
      | some k' => some (.mk s a r (if entered then true else ro) o (ks.take i ++ [k'] ++ ks.drop (i + 1)))

/-- `RepetitionBoundsSuggestion.get_replacements` -/
def repRepl (G : FGrammar) (fuel : Nat) (ind : ATree) (ending startVal endVal : List Nat)
    (boundLen goalLen iter : Nat) (id : String) (allowFull : Bool) (node : FNode) (tape : Tape) :
    Option (List (List Nat × ATree) × Tape) :=
  let parentPath := ending.dropLast
  match ind.subAt parentPath, ind.subAt ending, ending.getLast? with
  | some parent, some endTree, some idx =>
    if goalLen > boundLen then
      -- _insert_repetitions(nr_to_insert = goal - bound)
      match node with
      | .rep _ _ d body mn _ =>
        match insertFuzz G fuel body mn d (ind.pathSyms parentPath) (startRep id iter endTree.origin)
            (goalLen - boundLen) tape with
        | some (f, rest) => some ([(parentPath, insertKids id iter idx (ATree.ofTreeL f) parent)], rest)
        | none => none
      | _ => none
    else
      let goal := if goalLen = 0 ∧ allowFull = false then 1 else goalLen
      if goal = boundLen then some ([], tape)
      else
        let del := deleteReps id iter (boundLen - goal) parent
        if goal = 0 then
          let firstPath := shortest3 (commonPrefix parentPath startVal) (commonPrefix parentPath endVal)
            (commonPrefix startVal endVal)
          match ind.subAt firstPath with
          | none => none
          | some firstNode =>
            match replM [(parentPath, del)] fuel firstPath firstNode with
            | none => none
            | some r0 =>
              let k := firstPath.length
              match markPath false r0 (parentPath.drop k) false with
              | none => none
              | some r1 =>
                match markPath true r1 (startVal.drop k) false with
                | none => none
                | some r2 =>
                  match markPath true r2 (endVal.drop k) false with
                  | none => none
                  | some r3 => some ([(firstPath, r3)], tape)
        else some ([(parentPath, del)], tape)
  | _, _, _ => none

mutual
/-- `suggestion.get_replacements(individual, grammar)`; the tape is threaded through the `fuzz` calls -/
def getRepl (G : FGrammar) (fuel : Nat) (ind : ATree) : Sugg → Tape → Option (List (List Nat × ATree) × Tape)
  | .nop, tape => some ([], tape)
  | .given repl, tape => some (repl, tape)
  | .all ss, tape => getReplAll G fuel ind ss tape
  | .first ss, tape => getReplFirst G fuel ind ss tape
  | .rep e sv ev bl gl it id af node, tape => repRepl G fuel ind e sv ev bl gl it id af node tape
/-- `ApplyAllSuggestions`: the concatenation -/
def getReplAll (G : FGrammar) (fuel : Nat) (ind : ATree) : List Sugg → Tape → Option (List (List Nat × ATree) × Tape)
  | [], tape => some ([], tape)
  | s :: ss, tape =>
    match getRepl G fuel ind s tape with
    | none => none
    | some (r, tape') =>
      match getReplAll G fuel ind ss tape' with
      | none => none
      | some (rs, tape'') => some (r ++ rs, tape'')
/-- `ApplyFirstSuggestion`: the first non-empty list -/
def getReplFirst (G : FGrammar) (fuel : Nat) (ind : ATree) : List Sugg → Tape → Option (List (List Nat × ATree) × Tape)
  | [], tape => some ([], tape)
  | s :: ss, tape =>
    match getRepl G fuel ind s tape with
    | none => none
    | some (r, tape') => if r.isEmpty then getReplFirst G fuel ind ss tape' else some (r, tape')
end

/-- `fix_individual(individual, suggestion)`: `(individual, fixes_made)` -/
def fixIndividual (G : FGrammar) (fuel : Nat) (ind : ATree) (sugg : Option Sugg) (tape : Tape) :
    Option ((ATree × Nat) × Tape) :=
  match sugg with
  | none => some ((ind, 0), tape)
  | some s =>
    match getRepl G fuel ind s tape with
    | none => none
    | some (repl, tape') =>
      match replM repl fuel [] ind with
      | some ind' => some ((ind', repl.length), tape')
      | none => none

end FV
