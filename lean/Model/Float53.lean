/-
E4 / Float53 — a model of IEEE-754 binary64 arithmetic that is sufficient for the fitness
arithmetic of `Evaluator.evaluate_individual` (C03, C02).

* a finite double is `(-1)^neg * m * 2^e` with `m = 0` (then `neg = false`, `e = 0`) or
  `2^52 ≤ m < 2^53` — the canonical form, so structural equality is value equality;
* `rnd : Rat → F` is round-to-nearest, ties-to-even, to 53 significant bits;
* `fadd fsub fmul fdiv := rnd ∘ (exact rational operation)`; `ofNat := rnd ∘ cast` (what CPython does
  for `float * int`, `float / int`, `int / int`); comparisons compare the exact values.

NOT modelled: subnormals, overflow to infinity, NaN, the sign of zero (`-0.0` is `0.0`; CPython's
`==`, `>=` and `as_integer_ratio()` do not distinguish them either).  `rnd` is therefore only the
IEEE rounding for results whose magnitude lies in the normal range `2^-1022 ≤ |x| < 2^1024`
(`F.inRange`); every theorem about this model carries magnitude bounds that imply it (all values in
the C03 theorems are integers below 2^53 or quotients of such), and the correspondence check
(harness/props/c03.py) only draws operands/results inside that range and counts what it skipped.

Import-free (core `Rat`, `Nat.log2` only) and executable: `lean/Driver/Fit.lean` runs it.
-/
namespace FV

/-- a finite binary64 value `(-1)^neg * m * 2^e` -/
structure F where
  neg : Bool
  m : Nat
  e : Int
  deriving DecidableEq, Repr, Inhabited

namespace F

/-- the exact value -/
def toRat (f : F) : Rat :=
  (if f.neg then (-(f.m : Rat)) else (f.m : Rat)) * (2 : Rat) ^ f.e

/-- `⌊log2 a⌋` for a positive rational: with `p ∈ [2^lp, 2^(lp+1))`, `q ∈ [2^lq, 2^(lq+1))` the
    quotient lies in `(2^(lp-lq-1), 2^(lp-lq+1))`, so one comparison decides -/
def ilog2 (a : Rat) : Int :=
  let l0 : Int := (Nat.log2 a.num.natAbs : Int) - (Nat.log2 a.den : Int)
  if (2 : Rat) ^ l0 ≤ a then l0 else l0 - 1

/-- round a positive rational to 53 significant bits, nearest, ties to even:
    mantissa in `[2^52, 2^53)` and exponent -/
def rndPos (a : Rat) : Nat × Int :=
  let e : Int := ilog2 a - 52
  let s : Rat := a * (2 : Rat) ^ (-e)          -- 2^52 ≤ s < 2^53
  let n : Nat := s.floor.toNat
  let frac : Rat := s - (n : Rat)
  let up : Bool := decide ((1 : Rat) / 2 < frac) || (frac == (1 : Rat) / 2 && n % 2 == 1)
  let n' : Nat := if up then n + 1 else n
  if n' == 2 ^ 53 then (2 ^ 52, e + 1) else (n', e)

/-- round-to-nearest-even to binary64 (normal range only, see the header) -/
def rnd (x : Rat) : F :=
  if x == 0 then ⟨false, 0, 0⟩
  else if x < 0 then
    let r := rndPos (-x)
    ⟨true, r.1, r.2⟩
  else
    let r := rndPos x
    ⟨false, r.1, r.2⟩

/-- the magnitudes for which `rnd` is the IEEE rounding (normal numbers, no overflow) and zero -/
def inRange (x : Rat) : Bool :=
  x == 0 || (decide ((2 : Rat) ^ (-1022 : Int) ≤ (if x < 0 then -x else x)) &&
             decide ((if x < 0 then -x else x) < (2 : Rat) ^ (1024 : Int)))

def zero : F := ⟨false, 0, 0⟩
def one : F := ⟨false, 2 ^ 52, -52⟩

/-- `float(n)` for a Python int (correctly rounded; exact below 2^53) -/
def ofNat (n : Nat) : F := rnd (n : Rat)
def ofInt (i : Int) : F := rnd (i : Rat)

def fadd (a b : F) : F := rnd (a.toRat + b.toRat)
def fsub (a b : F) : F := rnd (a.toRat - b.toRat)
def fmul (a b : F) : F := rnd (a.toRat * b.toRat)
/-- division; the divisor must be non-zero (CPython raises ZeroDivisionError): callers guard -/
def fdiv (a b : F) : F := rnd (a.toRat / b.toRat)
def fneg (a : F) : F := if a.m == 0 then a else ⟨!a.neg, a.m, a.e⟩
def fabs (a : F) : F := ⟨false, a.m, a.e⟩

def fle (a b : F) : Bool := decide (a.toRat ≤ b.toRat)
def flt (a b : F) : Bool := decide (a.toRat < b.toRat)
def fge (a b : F) : Bool := fle b a
def fgt (a b : F) : Bool := flt b a
def feq (a b : F) : Bool := a.toRat == b.toRat
def fne (a b : F) : Bool := !(feq a b)

/-- canonical form -/
def canonical (f : F) : Bool :=
  (f.m == 0 && !f.neg && f.e == 0) || (decide (2 ^ 52 ≤ f.m) && decide (f.m < 2 ^ 53))

/-- a decimal literal `mant * 10^(-dec)` as the parser rounds it (`1.0`, `0.0`, `0.5` …) -/
def ofDecimal (mant : Nat) (dec : Nat) : F := rnd ((mant : Rat) / ((10 ^ dec : Nat) : Rat))

/-- `sum(values)` of CPython ≥ 3.12 for a list of floats with the int start value `0`: the first
    float is added to the int (exact), the remaining ones by Neumaier's compensated summation
    (`Python/bltinmodule.c`, `builtin_sum_impl`), the compensation is added at the end when it is
    non-zero. -/
def neumaierLoop : List F → F → F → F × F
  | [], s, c => (s, c)
  | x :: xs, s, c =>
    let t := fadd s x
    let c' := if fle (fabs x) (fabs s) then fadd c (fadd (fsub s t) x) else fadd c (fadd (fsub x t) s)
    neumaierLoop xs t c'

def pySum : List F → F
  | [] => zero
  | x :: xs =>
    let r := neumaierLoop xs (fadd zero x) zero
    if r.2.m != 0 then fadd r.1 r.2 else r.1

/-- the plain left fold `acc = acc + x` (what `fitness += result.fitness()` does) -/
def foldAdd (init : F) (xs : List F) : F := xs.foldl fadd init

def ones (n : Nat) : List F := List.replicate n one

/-- fold `step` over the per-constraint results, skipping those whose evaluation raised (`none`):
    the `try: … fitness += result.fitness() … except Exception: log` loop of `_evaluate_constraints` -/
def foldOk (step : F → F → F) (init : F) (fs : List (Option F)) : F :=
  fs.foldl (fun acc r => match r with
    | some x => step acc x
    | none => acc) init

end F
end FV
