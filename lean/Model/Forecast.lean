/-
E6 / protocol forecasting (C19).

Message-level grammar = the E2 grammar IR (`Model/IR.lean`) read at the level of *messages*:
an `nt name (some sender) recipient` node is a message atom (alphabet `Msg = (sender, recipient,
type)`), an `nt name none _` node is an ordinary nonterminal that is unfolded through the grammar.
`GM G n w` — "the message sequence `w` is one interaction described by node `n`" — is the
specification (it is `Matches` of `Model/IR.lean` over the message alphabet, plus unfolding; see
`Proofs/Forecast.lean: GM_iff_matches`).

Anchors in /repo:
  io/navigation/stategrammarconverter.py   messages abstracted to atoms                (the alphabet)
  io/navigation/packetforecaster.py        PacketForecaster.predict / PathFinder      (`codeNexts`)
  io/navigation/visitor/continuing_nodevisitor.py   the visitor                        (`walkNew`, `walkPos`)
  language/parse/slice_parties.py, node_visitors/packet_truncator.py                   (`sliceG`)

Two executable layers:
  * `nexts` / `complete`: Brzozowski derivatives with lazy unfolding of non-message nonterminals +
    an emptiness test.  These are the *verified* forecaster (Props/C19.lean).
  * `codeNexts` / `codeComplete`: what the code does — every partial derivation of the history
    (`positions`, the specification of the prefix parse; `codeNextsOn` takes them as an argument) is
    walked by a model of `ContinuingNodeVisitor` / `PathFinder` (`walkPos`/`walkNew`), line by line (the
    code as of /repo commits ebdb490d, 8757f904, fc0f6663: an unfinished last iteration stops the walk; the
    empty history is complete iff the parser accepts the empty word; 58f3e8e8: an exploring visit does not
    re-enter a nonterminal it is already exploring; 07eb1fdf: an open repetition bound is `math.inf`, not
    the generator's cap).  The two last shapes are pinned to the source by `harness/translate_proto.py`
    (`Generated/Proto.lean`, `CodeCfg`).
  * `sliceG`: `slice_parties` / `PacketTruncator` as of ed4e9a62, e74d4443 (children removed by
    position; an alternative that lost some of its children becomes optional).
-/
import Model.IR
namespace FV
namespace Fc

structure Msg where
  sender : String
  recipient : Option String
  type : String
  deriving DecidableEq, Repr

/-! ### specification -/

/-- the interactions (message sequences) a node describes.  The repetition rules mirror the shape of
    the derivative (`repNil` needs `min = 0`; `repCons` peels one iteration and decrements both
    bounds); `GM_rep_iff` shows this is "some `k` within the bounds, `k` iterations". -/
inductive GM (G : Grammar) : Node → List Msg → Prop
  | msg (name s r) : GM G (.nt name (some s) r) [⟨s, r, name⟩]
  | unfold (name r body w) : G.rule name = some body → GM G body w → GM G (.nt name none r) w
  | alt (id ns n w) : n ∈ ns → GM G n w → GM G (.alt id ns) w
  | catNil (id) : GM G (.cat id []) []
  | catCons (id n ns w1 w2) : GM G n w1 → GM G (.cat id ns) w2 → GM G (.cat id (n :: ns)) (w1 ++ w2)
  | repNil (id kind n max) : GM G (.rep id kind n 0 max) []
  | repCons (id kind n min max w1 w2) : max ≠ some 0 → GM G n w1 →
      GM G (.rep id kind n (min - 1) (predMax max)) w2 → GM G (.rep id kind n min max) (w1 ++ w2)

/-- the message-level language of the protocol -/
def LangMsg (G : Grammar) (start : Node) (w : List Msg) : Prop := GM G start w
/-- prefixes of interactions -/
def PrefixLang (G : Grammar) (start : Node) (h : List Msg) : Prop := ∃ w, GM G start (h ++ w)
/-- the messages that can follow history `h` -/
def Cont (G : Grammar) (start : Node) (h : List Msg) (m : Msg) : Prop := ∃ w, GM G start (h ++ m :: w)

/-! ### nullability, derivative, emptiness — with lazy unfolding

Unfolding a non-message nonterminal is done through *tables* indexed by fuel so that every
definition is structurally recursive: `nullWith ν` takes the nullability of nonterminals as a
parameter, `nullTab G f` is the table after `f` unfoldings.  Under `NoLeftRec G F` (Proofs) the
tables at fuel `F` are exact. -/

mutual
def nullWith (ν : String → Bool) : Node → Bool
  | .term _ => false
  | .nt name s _ => if s.isSome then false else ν name
  | .alt _ ns => nullAnyWith ν ns
  | .cat _ ns => nullAllWith ν ns
  | .rep _ _ n min max => boundsOk min max && (min == 0 || nullWith ν n)
def nullAnyWith (ν : String → Bool) : List Node → Bool
  | [] => false
  | n :: ns => nullWith ν n || nullAnyWith ν ns
def nullAllWith (ν : String → Bool) : List Node → Bool
  | [] => true
  | n :: ns => nullWith ν n && nullAllWith ν ns
end

def nullTab (G : Grammar) : Nat → String → Bool
  | 0, _ => false
  | f + 1, name =>
    match G.rule name with
    | some body => nullWith (nullTab G f) body
    | none => false

def isMsg (m : Msg) (name : String) (s : Option String) (r : Option String) : Bool :=
  decide (s = some m.sender) && decide (r = m.recipient) && decide (name = m.type)

mutual
/-- derivative w.r.t. one message; `δ name` is the derivative of nonterminal `name` -/
def derivWith (ν : String → Bool) (δ : String → Node) (m : Msg) : Node → Node
  | .term _ => Node.empty
  | .nt name s r =>
    if s.isSome then (if isMsg m name s r then Node.eps else Node.empty) else δ name
  | .alt id ns => .alt id (derivAltWith ν δ m ns)
  | .cat _ ns => derivCatWith ν δ m ns
  | .rep id kind n min max =>
    if boundsOk min max && (max != some 0) then
      .cat id [derivWith ν δ m n, .rep id kind n (min - 1) (predMax max)]
    else Node.empty
def derivAltWith (ν : String → Bool) (δ : String → Node) (m : Msg) : List Node → List Node
  | [] => []
  | n :: ns => derivWith ν δ m n :: derivAltWith ν δ m ns
def derivCatWith (ν : String → Bool) (δ : String → Node) (m : Msg) : List Node → Node
  | [] => Node.empty
  | n :: ns =>
    if nullWith ν n then .alt "" [.cat "" (derivWith ν δ m n :: ns), derivCatWith ν δ m ns]
    else .cat "" (derivWith ν δ m n :: ns)
end

def derivTab (G : Grammar) (F : Nat) (m : Msg) : Nat → String → Node
  | 0, _ => Node.empty
  | f + 1, name =>
    match G.rule name with
    | some body => derivWith (nullTab G F) (derivTab G F m f) m body
    | none => Node.empty

def nullG (G : Grammar) (F : Nat) (n : Node) : Bool := nullWith (nullTab G F) n
def derivG (G : Grammar) (F : Nat) (n : Node) (m : Msg) : Node :=
  derivWith (nullTab G F) (derivTab G F m F) m n
def derivs (G : Grammar) (F : Nat) (n : Node) (h : List Msg) : Node := h.foldl (derivG G F) n

mutual
/-- can the node produce any interaction at all?  `π name`: nonterminal `name` can. -/
def nonEmptyWith (π : String → Bool) : Node → Bool
  | .term _ => false
  | .nt name s _ => if s.isSome then true else π name
  | .alt _ ns => nonEmptyAnyWith π ns
  | .cat _ ns => nonEmptyAllWith π ns
  | .rep _ _ n min max => boundsOk min max && (min == 0 || nonEmptyWith π n)
def nonEmptyAnyWith (π : String → Bool) : List Node → Bool
  | [] => false
  | n :: ns => nonEmptyWith π n || nonEmptyAnyWith π ns
def nonEmptyAllWith (π : String → Bool) : List Node → Bool
  | [] => true
  | n :: ns => nonEmptyWith π n && nonEmptyAllWith π ns
end

/-- productivity table: `prodTab G f name` ⇒ `name` derives some interaction (sound for every `f`) -/
def prodTab (G : Grammar) : Nat → String → Bool
  | 0, _ => false
  | f + 1, name =>
    match G.rule name with
    | some body => nonEmptyWith (prodTab G f) body
    | none => false

/-- every rule of the grammar is productive (checked by the driver for every generated grammar) -/
def productiveB (G : Grammar) (F : Nat) : Bool := G.rules.all (fun p => prodTab G F p.1)

/-- emptiness test used by the forecaster: in a productive grammar a nonterminal is non-empty iff it
    has a rule -/
def nonEmpty (G : Grammar) (n : Node) : Bool := nonEmptyWith (fun name => (G.rule name).isSome) n

/-- is `m` offered after history `h`? -/
def isNext (G : Grammar) (F : Nat) (start : Node) (h : List Msg) (m : Msg) : Bool :=
  nonEmpty G (derivs G F start (h ++ [m]))
/-- is `h` a full interaction? -/
def complete (G : Grammar) (F : Nat) (start : Node) (h : List Msg) : Bool :=
  nullG G F (derivs G F start h)
/-- is `h` a prefix of an interaction? -/
def isPrefix (G : Grammar) (F : Nat) (start : Node) (h : List Msg) : Bool :=
  nonEmpty G (derivs G F start h)

mutual
/-- message atoms occurring in a node -/
def msgsOf : Node → List Msg
  | .term _ => []
  | .nt name s r => match s with | some s => [⟨s, r, name⟩] | none => []
  | .alt _ ns => msgsOfL ns
  | .cat _ ns => msgsOfL ns
  | .rep _ _ n _ _ => msgsOf n
def msgsOfL : List Node → List Msg
  | [] => []
  | n :: ns => msgsOf n ++ msgsOfL ns
end

def allMsgs (G : Grammar) (start : Node) : List Msg :=
  msgsOf start ++ G.rules.flatMap (fun p => msgsOf p.2)

/-- the forecast: every message of the grammar that is offered after `h` -/
def nexts (G : Grammar) (F : Nat) (start : Node) (h : List Msg) : List Msg :=
  (allMsgs G start).filter (isNext G F start h)

/-! ### open-ended repetitions and the generator's repetition cap

docs/Language.md: "Omitting `M` creates an infinite upper bound", and in a tip: "In Fandango, the number of
repetitions is limited. Use the `--max-repetitions M` flag to change the limit."  `Repetition.max` reads an open
upper bound (`*`, `+`, `{n,}`) as the grammar's cap (`open_max`, default `nodes.MAX_REPETITIONS`).  The cap limits
what is *generated*.  Neither the parser (b48dd899) nor - since /repo 07eb1fdf - the forecaster's visitor reads
an open bound through it: `visitRepetitionType` takes `rep_max = math.inf` when `node.internal_max is None`.
The model of the code below therefore has no cap parameter at all.

`oldRepMax` is the OLD reading (`rep_max = node.max`), kept only for the labelled witness
`C19_OLD_RULE_open_bound_is_cap` (finding F43, fixed). -/

/-- OLD (before /repo 07eb1fdf; NOT the code as it is): `rep_max = node.max`, an open bound read as the cap -/
def oldRepMax (cap : Nat) (max : Option Nat) : Option Nat := some (max.getD cap)

/-- the two shapes of the forecasting code that `harness/translate_proto.py` reads from the source on every run
    (`Generated/Proto.lean`); the model is written for `CodeCfg.modelled` (`C19_source_configuration`) -/
structure CodeCfg where
  /-- `visitRepetitionType`: `rep_max = node.max` also for an open bound (the code before 07eb1fdf) -/
  openBoundCapped : Bool
  /-- `PathFinder.onNonTerminalNodeVisit`: an exploring visit does not re-enter a nonterminal that is already
      being explored (58f3e8e8) -/
  reentryGuard : Bool
  deriving DecidableEq, Repr

/-- what `Model/Forecast.lean` models: no cap on open bounds, the re-entry guard is there -/
def CodeCfg.modelled : CodeCfg := ⟨false, true⟩

/-! ### no left recursion (hypothesis of the exactness theorems), as a checkable certificate -/

mutual
/-- syntactically certain to consume at least one message (no unfolding) -/
def consumes : Node → Bool
  | .term _ => true
  | .nt _ s _ => s.isSome
  | .alt _ ns => consumesAll ns
  | .cat _ ns => consumesAny ns
  | .rep _ _ n min _ => decide (1 ≤ min) && consumes n
def consumesAll : List Node → Bool
  | [] => true
  | n :: ns => consumes n && consumesAll ns
def consumesAny : List Node → Bool
  | [] => false
  | n :: ns => consumes n || consumesAny ns
end

mutual
/-- non-message nonterminals in head position (reachable before any message is consumed) -/
def heads : Node → List String
  | .term _ => []
  | .nt name s _ => if s.isSome then [] else [name]
  | .alt _ ns => headsAlt ns
  | .cat _ ns => headsCat ns
  | .rep _ _ n _ _ => heads n
def headsAlt : List Node → List String
  | [] => []
  | n :: ns => heads n ++ headsAlt ns
def headsCat : List Node → List String
  | [] => []
  | n :: ns => if consumes n then heads n else heads n ++ headsCat ns
end

/-- certificate check: `rank` strictly decreases along head positions and stays below `F` -/
def rankOk (G : Grammar) (rank : String → Nat) (F : Nat) : Bool :=
  G.rules.all (fun p => decide (rank p.1 < F) && (heads p.2).all (fun h => decide (rank h < rank p.1)))

mutual
/-- a node without terminals (`PathFinder.onTerminalNodeVisit` raises otherwise) -/
def msgOnly : Node → Bool
  | .term _ => false
  | .nt _ _ _ => true
  | .alt _ ns => msgOnlyL ns
  | .cat _ ns => msgOnlyL ns
  | .rep _ _ n _ _ => msgOnly n
def msgOnlyL : List Node → Bool
  | [] => true
  | n :: ns => msgOnly n && msgOnlyL ns
end

/-! ### what the code does: partial derivations and the visitor -/

/-- where the history ends inside a node: the path along the *last* child at every level of the
    partial derivation tree (with control-flow nodes) that the prefix parser returns -/
inductive Pos where
  | msg                          -- a message atom that is present
  | nt (p : Pos)                 -- inside the rule of a non-message nonterminal
  | alt (i : Nat) (p : Pos)      -- alternative `i` was taken
  | cat (i : Nat) (p : Pos)      -- children `0..i` are present, the last one at `p`
  | rep (k : Nat) (p : Pos)      -- `k+1` iterations are present, the last one at `p`
  | rep0                         -- a repetition node that is present without children (matched nothing)
  deriving Repr, DecidableEq

def dedupM (l : List Msg) : List Msg := l.eraseDups

/-- how many iterations the *parser* admits: `IterativeParser` compiles `*`, `+` and (since b48dd899) the
    open-ended `{n,}` to right-recursive rules - unbounded; `bound` is the number of iterations the input at
    hand can fill. -/
def parseMax (max : Option Nat) (bound : Nat) : Nat :=
  match max with
  | some m => m
  | none => bound

/-- repetition driver for `fullWith`: `k` iterations done so far, `inps` the remainders; collects the
    remainders for every admissible count.  `step` = one complete match of the body. -/
def iterRemAux (step : List Msg → List (List Msg)) (min maxv : Nat) :
    Nat → Nat → List (List Msg) → List (List Msg)
  | 0, _, _ => []
  | fuel + 1, k, inps =>
    (if min ≤ k ∧ k ≤ maxv then inps else []) ++
      (if k < maxv ∧ ¬ inps.isEmpty then
        iterRemAux step min maxv fuel (k + 1) (inps.flatMap step).eraseDups
       else [])

mutual
/-- complete matches: the remainders of `inp` after the node matched a prefix of it.
    `φ name`: the same for nonterminal `name`. -/
def fullWith (φ : String → List Msg → List (List Msg)) : Node → List Msg → List (List Msg)
  | .term _, _ => []
  | .nt name s r, inp =>
    if s.isSome then
      match inp with
      | m :: rest => if isMsg m name s r then [rest] else []
      | [] => []
    else φ name inp
  | .alt _ ns, inp => fullAltWith φ ns inp
  | .cat _ ns, inp => fullCatWith φ ns [inp]
  | .rep _ _ n min max, inp =>
    -- iterate at most `inp.length + min` times (a non-empty iteration consumes a message)
    iterRemAux (fullWith φ n) min (parseMax max (inp.length + min + 1)) (inp.length + min + 1) 0 [inp]
def fullAltWith (φ : String → List Msg → List (List Msg)) : List Node → List Msg → List (List Msg)
  | [], _ => []
  | n :: ns, inp => fullWith φ n inp ++ fullAltWith φ ns inp
def fullCatWith (φ : String → List Msg → List (List Msg)) : List Node → List (List Msg) → List (List Msg)
  | [], inps => inps
  | n :: ns, inps => fullCatWith φ ns (inps.flatMap (fullWith φ n)).eraseDups
end

def fullTab (G : Grammar) : Nat → String → List Msg → List (List Msg)
  | 0, _, _ => []
  | f + 1, name, inp =>
    match G.rule name with
    | some body => fullWith (fullTab G f) body inp
    | none => []

mutual
/-- ε-positions: the ways a node can be *present* in a partial tree although it has consumed no message.
    In `ParsingMode.INCOMPLETE` every Earley state of the last column that has at least one child is
    completed into its parent; children that matched nothing (an empty option, a nonterminal deriving ε)
    count, so after the last message the tree may already descend into the following nullable siblings. -/
def epsWith (φ : String → List Msg → List (List Msg)) (ε : String → List Pos) : Node → List Pos
  | .term _ => []
  | .nt name s _ => if s.isSome then [] else (ε name).map Pos.nt
  | .alt _ ns => epsAltWith φ ε ns 0
  | .cat _ ns => epsCatWith φ ε ns 0
  | .rep _ _ n min max =>
    (if min = 0 then [Pos.rep0] else []) ++ (epsWith φ ε n).map (Pos.rep 0) ++
      (if (fullWith φ n []).contains [] ∧ max ≠ some 1 then (epsWith φ ε n).map (Pos.rep 1) else [])
def epsAltWith (φ : String → List Msg → List (List Msg)) (ε : String → List Pos) :
    List Node → Nat → List Pos
  | [], _ => []
  | n :: ns, i => (epsWith φ ε n).map (Pos.alt i) ++ epsAltWith φ ε ns (i + 1)
def epsCatWith (φ : String → List Msg → List (List Msg)) (ε : String → List Pos) :
    List Node → Nat → List Pos
  | [], _ => []
  | n :: ns, i =>
    (epsWith φ ε n).map (Pos.cat i) ++
      (if (fullWith φ n []).contains [] then epsCatWith φ ε ns (i + 1) else [])
end

def epsTab (G : Grammar) (F : Nat) : Nat → String → List Pos
  | 0, _ => []
  | f + 1, name =>
    match G.rule name with
    | some body => epsWith (fullTab G F) (epsTab G F f) body
    | none => []

/-- repetition driver for `posWith`: positions inside iteration `k` (0-based), for every `k < maxv`;
    `eps`: the ε-positions of the body (a further iteration that is present but empty so far) -/
def posRepAux (step : List Msg → List (List Msg)) (pos : List Msg → List Pos) (eps : List Pos) (maxv : Nat) :
    Nat → Nat → List (List Msg) → List Pos
  | 0, _, _ => []
  | fuel + 1, k, inps =>
    if k < maxv then
      let next := (inps.flatMap step).eraseDups
      (inps.filter (fun r => ¬ r.isEmpty)).flatMap (fun r => (pos r).map (Pos.rep k))
        ++ (if next.contains [] ∧ k + 1 < maxv then eps.map (Pos.rep (k + 1)) else [])
        ++ posRepAux step pos eps maxv fuel (k + 1) (next.filter (fun r => ¬ r.isEmpty))
    else []

mutual
/-- positions: `inp` (non-empty) is consumed entirely, its last message is the rightmost present
    *message* of the node, everything to the left is completely matched; to the right only ε-positions -/
def posWith (φ : String → List Msg → List (List Msg)) (ψ : String → List Msg → List Pos)
    (ε : String → List Pos) : Node → List Msg → List Pos
  | .term _, _ => []
  | .nt name s r, inp =>
    if s.isSome then
      match inp with
      | [m] => if isMsg m name s r then [.msg] else []
      | _ => []
    else (ψ name inp).map Pos.nt
  | .alt _ ns, inp => posAltWith φ ψ ε ns 0 inp
  | .cat _ ns, inp => posCatWith φ ψ ε ns 0 [inp]
  | .rep _ _ n _ max, inp =>
    posRepAux (fullWith φ n) (posWith φ ψ ε n) (epsWith φ ε n)
      (parseMax max (inp.length + 1)) (inp.length + 1) 0 [inp]
def posAltWith (φ : String → List Msg → List (List Msg)) (ψ : String → List Msg → List Pos)
    (ε : String → List Pos) : List Node → Nat → List Msg → List Pos
  | [], _, _ => []
  | n :: ns, i, inp => (posWith φ ψ ε n inp).map (Pos.alt i) ++ posAltWith φ ψ ε ns (i + 1) inp
def posCatWith (φ : String → List Msg → List (List Msg)) (ψ : String → List Msg → List Pos)
    (ε : String → List Pos) : List Node → Nat → List (List Msg) → List Pos
  | [], _, _ => []
  | n :: ns, i, inps =>
    (inps.filter (fun r => ¬ r.isEmpty)).flatMap (fun r => (posWith φ ψ ε n r).map (Pos.cat i))
      ++ (if inps.contains [] then (epsWith φ ε n).map (Pos.cat i) else [])
      ++ posCatWith φ ψ ε ns (i + 1) (inps.flatMap (fullWith φ n)).eraseDups
end

def posTab (G : Grammar) (F : Nat) : Nat → String → List Msg → List Pos
  | 0, _, _ => []
  | f + 1, name, inp =>
    match G.rule name with
    | some body => posWith (fullTab G F) (posTab G F f) (epsTab G F F) body inp
    | none => []

/-- all partial derivations of history `h` (executable specification of the prefix parse; `PositionsExact` of
    `Proofs/ForecastPos.lean` is what the forecast needs of it) -/
def positions (G : Grammar) (F : Nat) (start : Node) (h : List Msg) : List Pos :=
  (posWith (fullTab G F) (posTab G F F) (epsTab G F F) start h).eraseDups

/-- result of a visit: the options collected, and `continue_exploring` -/
abbrev Walk := List Msg × Bool

/-- `tree_len < rep_max`, with `rep_max = math.inf` for an open bound (07eb1fdf) -/
def repHasRoom (max : Option Nat) (treeLen : Nat) : Bool :=
  match max with
  | none => true
  | some m => decide (treeLen < m)

/-- `visitRepetitionType`, given the visit of the last iteration `(o, c)` (`(∅, True)` when the
    repetition node has no children), `tree_len`, and the visit of a fresh iteration:
    ```
    if tree present and non-empty:  c = visit(last iteration);  if not c: return False
    rep_max = node.max;  if node.internal_max is None: rep_max = math.inf
    if c and tree_len < rep_max:    c2 = visit(fresh iteration); if c2: return True
    if tree_len >= rep_min: return True
    return c (or c2)
    ``` -/
def walkRepCore (min : Nat) (max : Option Nat) (treeLen : Nat) (last : Walk) (fresh : Walk) : Walk :=
  let (o, c) := last
  if !c then (o, false)                      -- the last iteration is unfinished
  else if repHasRoom max treeLen then
    let (o2, c2) := fresh
    if c2 then (o ++ o2, true)
    else if treeLen ≥ min then (o ++ o2, true)
    else (o ++ o2, false)
  else if treeLen ≥ min then (o, true)
  else (o, true)                             -- `return continue_exploring` (still True)

mutual
/-- `ContinuingNodeVisitor` in exploring mode (`current_tree[-1] is None`).
    `ω name`: the visit of the rule of nonterminal `name`. -/
def walkNewWith (ω : String → Walk) : Node → Walk
  | .term _ => ([], false)                 -- the code raises; msgOnly grammars never get here
  | .nt name s r =>
    match s with
    | some s => ([⟨s, r, name⟩], false)       -- PathFinder.onNonTerminalNodeVisit: add_option, stop
    | none => ω name
  | .alt _ ns => walkNewAlt ω ns
  | .cat _ ns => walkNewCat ω ns
  | .rep _ _ n min max =>
    -- visitRepetitionType with tree None: tree_len = 0, no last iteration
    walkRepCore min max 0 ([], true) (walkNewWith ω n)
def walkNewAlt (ω : String → Walk) : List Node → Walk
  | [] => ([], false)
  | n :: ns =>
    let (o1, c1) := walkNewWith ω n
    let (o2, c2) := walkNewAlt ω ns
    (o1 ++ o2, c1 || c2)
def walkNewCat (ω : String → Walk) : List Node → Walk
  | [] => ([], true)
  | n :: ns =>
    let (o1, c1) := walkNewWith ω n
    if c1 then
      let (o2, c2) := walkNewCat ω ns
      (o1 ++ o2, c2)
    else (o1, false)
end

/-- the exploring visit of a non-message nonterminal.  `seen`: the nonterminals whose exploring visit is open
    (the `(symbol, True)` entries of `current_path`): `PathFinder.onNonTerminalNodeVisit` (58f3e8e8) answers
    `(False, False)` - nothing offered, do not continue - for a nonterminal that is already being explored.
    Every nested visit adds a new name to `seen`, so fuel above the number of rules is never used up. -/
def walkNewTab (G : Grammar) : Nat → List String → String → Walk
  | 0, _, _ => ([], false)
  | f + 1, seen, name =>
    if seen.contains name then ([], false)
    else match G.rule name with
      | some body => walkNewWith (walkNewTab G f (name :: seen)) body
      | none => ([], false)                  -- KeyError in the code

/-- the visitor on a node whose (last) child is present at position `p` -/
def walkPosWith (ω : String → Walk) (G : Grammar) : Node → Pos → Walk
  | .nt _ (some _) _, .msg => ([], true)             -- a present message: continue
  | .nt name none _, .nt p =>
    match G.rule name with
    | some body => walkPosWith ω G body p
    | none => ([], false)
  | .alt _ ns, .alt i p =>
    match ns[i]? with
    | some n => walkPosWith ω G n p
    | none => ([], false)
  | .cat _ ns, .cat i p =>
    match ns[i]? with
    | some n =>
      let (o, c) := walkPosWith ω G n p
      if c then
        let (o2, c2) := walkNewCat ω (ns.drop (i + 1))
        (o ++ o2, c2)
      else (o, false)
    | none => ([], false)
  | .rep _ _ n min max, .rep k p =>
    walkRepCore min max (k + 1) (walkPosWith ω G n p) (walkNewWith ω n)
  | .rep _ _ n min max, .rep0 =>             -- `tree` is the empty list: tree_len = 0
    walkRepCore min max 0 ([], true) (walkNewWith ω n)
  | _, _ => ([], false)                      -- ill-typed position: GrammarKeyError in the code

/-! ### is a spine a message-level partial derivation of the history?  (decision procedure, verified in
`Proofs/ForecastPdB.lean`: `pdB = true ↔ PD`; the check runs it on the right spines of the partial trees the REAL
prefix parse yields - `PositionsExact.sound` observed per run) -/

/-- all ways to cut a history in two -/
def splits (h : List Msg) : List (List Msg × List Msg) :=
  (List.range (h.length + 1)).map (fun i => (h.take i, h.drop i))

/-- does node `n` derive exactly `u`?  (derivatives + nullability: the verified matcher) -/
def matchB (G : Grammar) (F : Nat) (n : Node) (u : List Msg) : Bool := nullG G F (derivs G F n u)

/-- `p` is the right spine of a partial derivation of `h` from `n`: everything left of the spine is a complete
    derivation, the spine itself fits the grammar, a repetition on it has room for its iterations -/
def pdB (G : Grammar) (F : Nat) : Node → List Msg → Pos → Bool
  | .nt name (some s) r, h, .msg => decide (h = [⟨s, r, name⟩])
  | .nt name none _, h, .nt p =>
    match G.rule name with
    | some body => pdB G F body h p
    | none => false
  | .alt _ ns, h, .alt i p =>
    match ns[i]? with
    | some n => pdB G F n h p
    | none => false
  | .cat id ns, h, .cat i p =>
    match ns[i]? with
    | some n => (splits h).any (fun s => matchB G F (.cat id (ns.take i)) s.1 && pdB G F n s.2 p)
    | none => false
  | .rep id kind n _ max, h, .rep k p =>
    (match max with
     | some mx => decide (k + 1 ≤ mx)
     | none => true) &&
    (splits h).any (fun s => matchB G F (.rep id kind n k (some k)) s.1 && pdB G F n s.2 p)
  | .rep _ _ _ _ _, h, .rep0 => h.isEmpty
  | _, _, _ => false

/-- `PacketForecaster.predict` for a non-empty history, given the partial trees the prefix parse yields
    (their right spines `ps`): the union of the visitor's options over them.  A fresh exploration starts
    whenever the visitor leaves the present part of the tree (`seen = []`: the entries of `current_path`
    above it are `(symbol, False)`). -/
def codeNextsOn (G : Grammar) (F : Nat) (start : Node) (ps : List Pos) : List Msg :=
  dedupM (ps.flatMap (fun p => (walkPosWith (walkNewTab G F []) G start p).1))

/-- `PacketForecaster.predict`: union over the partial derivations of the history -/
def codeNexts (G : Grammar) (F : Nat) (start : Node) (h : List Msg) : List Msg :=
  match h with
  | [] => dedupM (walkNewWith (walkNewTab G F []) start).1
  | _ => codeNextsOn G F start (positions G F start h)

/-- `complete_trees` is non-empty: the parser reported a complete parse (for the empty history the
    parser is asked in `ParsingMode.COMPLETE` whether the protocol allows the empty interaction) -/
def codeComplete (G : Grammar) (F : Nat) (start : Node) (h : List Msg) : Bool :=
  complete G F start h

/-! ### slicing to a set of parties (`slice_parties` / `PacketTruncator`) -/

/-- configuration of a slice: `keep_parties`, `ignore_receivers` -/
structure SliceCfg where
  keep : List String
  ignoreRecv : Bool

/-- `PacketTruncator.visitNonTerminalNode` -/
def truncMsg (cfg : SliceCfg) (deleted : List String) (name : String) (s r : Option String) : Bool :=
  if deleted.contains name then true
  else if cfg.ignoreRecv then
    match s with
    | some s => !(cfg.keep.contains s)
    | none => false
  else match s, r with
    | some s, some r => !(cfg.keep.contains s) && !(cfg.keep.contains r)
    | _, _ => false

/-- id of the `Option` node that `visitAlternative` creates: `f"{NodeType.OPTION}:{node.id}"` -/
def optId (id : String) : String := "option:" ++ id
/-- id of the `Alternative` of the remaining children: `f"{node.id}_visible"` -/
def visId (id : String) : String := id ++ "_visible"

/-- `rest` of `visitAlternative`: the only visible child, or a new alternative of the visible children -/
def altRest (id : String) (vis : List Node) : Node :=
  match vis with
  | [x] => x
  | _ => .alt (visId id) vis

/-- `PacketTruncator.visitAlternative`, given the number of children and the visible children after their
    own visits: all invisible - delete the node; all visible - keep them; otherwise the alternatives of
    invisible messages are "the empty way through": the rest becomes optional -/
def altResult (id : String) (n : Nat) (vis : List Node) : Option Node :=
  if vis.isEmpty then none
  else if vis.length = n then some (.alt id vis)
  else some (.alt id [.rep (optId id) .opt (altRest id vis) 0 (some 1)])

mutual
/-- one visit of `PacketTruncator`: `none` = "delete me" (the visitor returned True), `some n'` = the
    node after the in-place changes -/
def truncNode (cfg : SliceCfg) (deleted : List String) : Node → Option Node
  | .term t => some (.term t)
  | .nt name s r => if truncMsg cfg deleted name s r then none else some (.nt name s r)
  | .alt id ns => altResult id ns.length (truncKids cfg deleted ns)
  | .cat id ns =>
    let ks := truncKids cfg deleted ns
    if ks.isEmpty then none else some (.cat id ks)
  | .rep id kind n min max =>
    match truncNode cfg deleted n with
    | none => none
    | some n' => some (.rep id kind n' min max)
/-- `[child for child in children if not self.visit(child)]` (each child after its own visit) -/
def truncKids (cfg : SliceCfg) (deleted : List String) : List Node → List Node
  | [] => []
  | n :: ns =>
    match truncNode cfg deleted n with
    | none => truncKids cfg deleted ns
    | some n' => n' :: truncKids cfg deleted ns
end

/-- one round over all rules: (remaining rules, names deleted in this round) -/
def sliceRound (keep : SliceCfg) (deleted : List String) : List (String × Node) → List (String × Node) × List String
  | [] => ([], [])
  | (name, body) :: rest =>
    let (rs, ds) := sliceRound keep deleted rest
    match truncNode keep deleted body with
    | none => (rs, name :: ds)
    | some body' => ((name, body') :: rs, ds)

/-- `slice_parties`: rounds until no rule was deleted in the previous round -/
def sliceLoop (keep : SliceCfg) : Nat → List String → List (String × Node) → List (String × Node)
  | 0, _, rules => rules
  | fuel + 1, deleted, rules =>
    let (rs, ds) := sliceRound keep deleted rules
    if ds.isEmpty then rs else sliceLoop keep fuel ds rs

def sliceG (keep : SliceCfg) (G : Grammar) : Grammar :=
  { rules := sliceLoop keep (G.rules.length + 1) [] G.rules }

/-- is the message visible to the kept parties? -/
def visible (cfg : SliceCfg) (m : Msg) : Bool :=
  if cfg.ignoreRecv then cfg.keep.contains m.sender
  else match m.recipient with
    | some r => cfg.keep.contains m.sender || cfg.keep.contains r
    | none => true

/-- projection of an interaction onto the kept parties -/
def project (cfg : SliceCfg) (w : List Msg) : List Msg := w.filter (visible cfg)

/-! ### certificate for the slicing theorem (`C19_slice_commutes`) -/

mutual
/-- well-formed: an alternative has at least one child, repetition bounds are consistent (`min ≤ max`) -/
def wf : Node → Bool
  | .term _ => true
  | .nt _ _ _ => true
  | .alt _ ns => !ns.isEmpty && wfL ns
  | .cat _ ns => wfL ns
  | .rep _ _ n min max => boundsOk min max && wf n
def wfL : List Node → Bool
  | [] => true
  | n :: ns => wf n && wfL ns
end

def nodupB : List String → Bool
  | [] => true
  | x :: xs => !xs.contains x && nodupB xs

/-- hypotheses of the slicing theorem, checked by the driver for every sliced grammar: rule names are
    distinct (a `dict`), every rule body is well-formed, and no message type is also unfolded as a
    nonterminal of the protocol level (its content rule is not part of the message-level grammar) -/
def sliceCert (G : Grammar) : Bool :=
  nodupB (G.rules.map (·.1)) &&
    G.rules.all (fun p => wf p.2 && (msgsOf p.2).all (fun m => (G.rule m.type).isNone))

/-! ### certificate for the exploring walk (`C19_code_forecast_initial`) -/

mutual
/-- what the exploring visitor relies on: the children of a concatenation can all be completed (each derives
    some interaction), repetition bounds are consistent and `max > 0` (a constructor invariant of `Repetition`) -/
def walkOk (G : Grammar) : Node → Bool
  | .term _ => true
  | .nt _ _ _ => true
  | .alt _ ns => walkOkAlt G ns
  | .cat _ ns => walkOkCat G ns
  | .rep _ _ n min max => boundsOk min max && (max != some 0) && walkOk G n
def walkOkAlt (G : Grammar) : List Node → Bool
  | [] => true
  | n :: ns => walkOk G n && walkOkAlt G ns
def walkOkCat (G : Grammar) : List Node → Bool
  | [] => true
  | n :: ns => walkOk G n && nonEmpty G n && walkOkCat G ns
end

def walkCert (G : Grammar) : Bool := G.rules.all (fun p => walkOk G p.2)

end Fc
end FV
