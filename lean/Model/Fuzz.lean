/-
E2 / budgeted expansion (`Node.fuzz`) and the tree-editing search operators.

Mirrors (default settings only: every gmutator probability in `NODE_SETTINGS_DEFAULTS` is 0.0, so
the branches behind `random.random() < settings.get(…)` are never taken; they deliberately leave the
grammar and are NOT modelled):

* `nodes/alternative.py  Alternative.fuzz`     filter by `distance_to_completion < max_nodes`, fall back to
                                               the minimum distance with budget 0, `random.choice`
* `nodes/concatenation.py Concatenation.fuzz`  reserved distance (`dist_node == node` is Python `==`:
                                               by symbol for (non)terminal nodes, identity otherwise)
* `nodes/repetition.py   Repetition.fuzz`      `rep_goal = randint(min, max)`, early stop `rep >= self.min`,
                                               budget bookkeeping, the `override_*` arguments used by
                                               `_insert_repetitions`; `Star/Plus/Option` only add a coin
* `nodes/non_terminal.py NonTerminalNode.fuzz` rule lookup, sender/recipient assignment (`in_message`),
                                               generator branch (`is_use_generator`, dependencies first)
* `nodes/terminal.py     TerminalNode.fuzz`    literal leaf / regex instance
* `tree.py  replace_multiple` (generator-free part), `split_end`, `prefix`
* `constraints/repetition_bounds.py  _delete_repetitions`
* `parser/iterative_parser.py  collapse`

Random draws are a *typed tape*: `alt k` (index into the candidate list `random.choice` drew from),
`rep k` (the `randint(min, max)` goal), `regex id leaf` (what `exrex.getone` returned for regex terminal
#id), `gen tree` (what `Grammar.generate` returned: the generator's value parsed under the symbol).
`distance_to_completion` values are inputs (computed by the real `Grammar.prime()`), carried per node.
-/
import Model.IR
namespace FV

/-! ## grammar IR annotated with `distance_to_completion` -/

inductive FNode where
  /-- `key`: equivalence class of `TerminalNode.__eq__` (equal symbol values; computed with the real `==`) -/
  | term (t : Term) (d : Nat) (key : Nat)
  | nt (name : String) (sender recipient : Option String) (d : Nat)
  | alt (id : String) (d : Nat) (ns : List FNode)
  | cat (id : String) (d : Nat) (ns : List FNode)
  | rep (id : String) (kind : RepKind) (d : Nat) (n : FNode) (min : Nat) (max : Option Nat)
  deriving Repr

def FNode.dist : FNode → Nat
  | .term _ d _ => d
  | .nt _ _ _ d => d
  | .alt _ d _ => d
  | .cat _ d _ => d
  | .rep _ _ d _ _ _ => d

mutual
/-- forget the distances: the shared IR of `Model/IR.lean` -/
def FNode.erase : FNode → Node
  | .term t _ _ => .term t
  | .nt n s r _ => .nt n s r
  | .alt id _ ns => .alt id (FNode.eraseL ns)
  | .cat id _ ns => .cat id (FNode.eraseL ns)
  | .rep id k _ n mn mx => .rep id k n.erase mn mx
def FNode.eraseL : List FNode → List Node
  | [] => []
  | n :: ns => n.erase :: FNode.eraseL ns
end

/-- Python `dist_node == node` for two *different* list positions: `TerminalNode`/`NonTerminalNode`
    define `__eq__` by symbol, the control-flow classes inherit identity -/
def FNode.pyEq : FNode → FNode → Bool
  | .term _ _ k, .term _ _ k' => k == k'
  | .nt a _ _ _, .nt b _ _ _ => a == b
  | _, _ => false

structure FGrammar where
  rules : List (String × FNode)
  /-- symbols defined with a generator, with `generator_dependencies` in iteration order -/
  gens : List (String × List String)
  /-- the `max` of an open-ended repetition at the time of the call: the grammar's cap
      (`Grammar._max_repetition`, pushed to its nodes' `open_max`; default `nodes.MAX_REPETITIONS`) -/
  cap : Nat
  deriving Repr

def FGrammar.erase (G : FGrammar) : Grammar :=
  { rules := G.rules.map (fun p => (p.1, p.2.erase)) }

def FGrammar.rule (G : FGrammar) (s : String) : Option FNode :=
  match G.rules.find? (fun p => p.1 == s) with
  | some p => some p.2
  | none => none

def FGrammar.deps (G : FGrammar) (s : String) : Option (List String) :=
  match G.gens.find? (fun p => p.1 == s) with
  | some p => some p.2
  | none => none

/-- `Grammar.is_use_generator`: the symbol has a generator and none of its dependencies is on the
    path from the root to the node (the node's own symbol included) -/
def FGrammar.useGen (G : FGrammar) (path : List String) (s : String) : Option (List String) :=
  match G.deps s with
  | some ds => if ds.any (fun d => path.contains d) then none else some ds
  | none => none

/-! ## the typed tape -/

inductive Choice where
  | alt (k : Nat)
  | rep (k : Nat)
  | regex (id : Nat) (l : Leaf)
  | gen (t : Tree)
  deriving Repr

abbrev Tape := List Choice

/-- result of expanding a grammar node below a parent: the children appended, and the rest of the tape -/
abbrev Rec := FNode → List String → Bool → Int → Tape → Option (List Tree × Tape)

/-! ## one level of `Node.fuzz`, open recursion (`rec` = "fuzz a sub-node") -/

/-- `min(self.alternatives, key=distance)` -/
def minDist : List FNode → Nat
  | [] => 0
  | n :: ns => ns.foldl (fun m x => Nat.min m x.dist) n.dist

/-- `Alternative.fuzz`: candidate list and the budget handed down -/
def altCands (ns : List FNode) (b : Int) : List FNode × Int :=
  let inRange := ns.filter (fun x => (x.dist : Int) < b)
  if inRange.isEmpty then (ns.filter (fun x => x.dist ≤ minDist ns), 0) else (inRange, b)

/-- index at which the inner loop of `Concatenation.fuzz` breaks for the node at position `i` -/
def firstEq (all : List FNode) (i : Nat) (n : FNode) : Nat :=
  match (all.take i).findIdx? (fun m => m.pyEq n) with
  | some j => j
  | none => i

/-- `reserved_distance` for the node at position `i` -/
def reserved (all : List FNode) (d : Nat) (i : Nat) (n : FNode) : Int :=
  (d : Int) - (((all.take (firstEq all i n + 1)).map FNode.dist).foldl (· + ·) 0 : Nat)

/-- `Concatenation.fuzz` from position `i` on -/
def expandCat (rec : Rec) (all : List FNode) (d : Nat) (path : List String) (inMsg : Bool) :
    Nat → List FNode → Int → Tape → Option (List Tree × Tape)
  | _, [], _, tape => some ([], tape)
  | i, n :: rest, b, tape =>
    let bn : Int := if (n.dist : Int) ≥ b then 0 else b - reserved all d i n
    match rec n path inMsg bn tape with
    | none => none
    | some (f, tape') =>
      match expandCat rec all d path inMsg (i + 1) rest (b - (Tree.sizeL f : Nat)) tape' with
      | none => none
      | some (fs, tape'') => some (f ++ fs, tape'')

/-- the loop of `Repetition.fuzz`: `rep` iterations done, `rem` to go (`rep + rem = rep_goal`);
    `ovr` = `override_iterations_to_perform is not None` (no early stop) -/
def expandRep (rec : Rec) (n : FNode) (mn : Nat) (ovr : Bool) (path : List String) (inMsg : Bool) :
    Nat → Nat → Int → Int → Tape → Option (List Tree × Tape)
  | _, 0, _, _, tape => some ([], tape)
  | rep, rem + 1, resv, b, tape =>
    if (n.dist : Int) ≥ b then
      if rep ≥ mn && !ovr then some ([], tape)
      else
        match rec n path inMsg 0 tape with
        | none => none
        | some (f, tape') =>
          match expandRep rec n mn ovr path inMsg (rep + 1) rem resv (b - (Tree.sizeL f : Nat)) tape' with
          | none => none
          | some (fs, tape'') => some (f ++ fs, tape'')
    else
      let resv' : Int := resv - n.dist
      match rec n path inMsg (b - resv') tape with
      | none => none
      | some (f, tape') =>
        match expandRep rec n mn ovr path inMsg (rep + 1) rem resv' (b - (Tree.sizeL f : Nat)) tape' with
        | none => none
        | some (fs, tape'') => some (f ++ fs, tape'')

/-- the generator's dependencies are fuzzed first, each below the dummy node with budget `max_nodes - 1`;
    their trees become the generator's arguments and are not part of the result -/
def expandDeps (rec : Rec) (path : List String) (b : Int) : List String → Tape → Option Tape
  | [], tape => some tape
  | d :: ds, tape =>
    match rec (.nt d none none 0) path false b tape with
    | none => none
    | some (_, tape') => expandDeps rec path b ds tape'

/-- one `fuzz()` call of a grammar node: `path` = symbols from the root to the parent tree,
    `b` = `max_nodes` -/
def expandNode (G : FGrammar) (rec : Rec) : Rec
  | .term (.lit l) _ _, _, _, _, tape => some ([Tree.leaf l], tape)
  | .term (.regex id) _ _, _, _, _, tape =>
    match tape with
    | .regex id' l :: rest => if id' = id then some ([Tree.leaf l], rest) else none
    | _ => none
  | .nt name snd rcp _, path, inMsg, b, tape =>
    match G.rule name with
    | none => none                       -- FandangoValueError: symbol not found in grammar
    | some body =>
      let path' := path ++ [name]
      match G.useGen path' name with
      | some ds =>
        match expandDeps rec path' (b - 1) ds tape with
        | none => none
        | some tape' =>
          match tape' with
          | .gen (.mk (.nt g) _ _ kids) :: rest =>
            if g = name then some ([.mk (.nt name) snd rcp kids], rest) else none
          | _ => none
      | none =>
        let assign := !inMsg && snd.isSome
        let s := if assign then snd else none
        let r := if assign then rcp else none
        match rec body path' (inMsg || assign) (b - 1) tape with
        | none => none
        | some (kids, tape') => some ([.mk (.nt name) s r kids], tape')
  | .alt _ _ ns, path, inMsg, b, tape =>
    match tape with
    | .alt k :: rest =>
      match (altCands ns b).1[k]? with
      | some c => rec c path inMsg (altCands ns b).2 rest
      | none => none
    | _ => none
  | .cat _ d ns, path, inMsg, b, tape => expandCat rec ns d path inMsg 0 ns b tape
  | .rep _ _ d n mn mx, path, inMsg, b, tape =>
    match tape with
    | .rep goal :: rest =>
      -- `random.randint(self.min, self.max)`; `self.max` of an open repetition is the global cap
      if mn ≤ goal ∧ goal ≤ mx.getD G.cap then
        expandRep rec n mn false path inMsg 0 goal d b rest
      else none
    | _ => none

/-- `Node.fuzz` with a recursion bound (`none` also when the bound is hit: partial correctness only) -/
def expand (G : FGrammar) : Nat → Rec
  | 0 => fun _ _ _ _ _ => none
  | fuel + 1 => expandNode G (expand G fuel)

/-- `Grammar.fuzz(start, max_nodes, prefix_node)`: `path` = symbols on `prefix_node.get_path()`
    (just `[start]` for the dummy root) -/
def fuzzStart (G : FGrammar) (fuel : Nat) (start : String) (path : List String) (b : Int) (tape : Tape) :
    Option (Tree × Tape) :=
  match expand G fuel (.nt start none none 0) path false b tape with
  | some ([t], tape') => some (t, tape')
  | _ => none

/-- the fuzz call inside `RepetitionBoundsSuggestion._insert_repetitions`: `nr` more iterations of the
    repetition's body, no early stop, default budget 100; the goal drawn by `randint` is discarded -/
def insertFuzz (G : FGrammar) (fuel : Nat) (n : FNode) (mn d : Nat) (path : List String) (startRep nr : Nat)
    (tape : Tape) : Option (List Tree × Tape) :=
  match tape with
  | .rep _ :: rest => expandRep (expand G fuel) n mn true path false startRep nr d 100 rest
  | _ => none

/-! ## trees with the bookkeeping the search operators read -/

abbrev Tag := String × Nat × Nat

inductive ATree where
  | mk (sym : Sym) (sender recipient : Option String) (ro : Bool) (origin : List Tag) (kids : List ATree)
  deriving Repr

namespace ATree
def sym : ATree → Sym | mk s _ _ _ _ _ => s
def ro : ATree → Bool | mk _ _ _ r _ _ => r
def origin : ATree → List Tag | mk _ _ _ _ o _ => o
def kids : ATree → List ATree | mk _ _ _ _ _ k => k

mutual
def erase : ATree → Tree
  | mk s a r _ _ ks => .mk s a r (eraseL ks)
def eraseL : List ATree → List Tree
  | [] => []
  | t :: ts => erase t :: eraseL ts
end

mutual
/-- a freshly fuzzed / parsed tree: writable, no tags -/
def ofTree : Tree → ATree
  | .mk s a r ks => mk s a r false [] (ofTreeL ks)
def ofTreeL : List Tree → List ATree
  | [] => []
  | t :: ts => ofTree t :: ofTreeL ts
end

/-- subtree at a path of child indices -/
def subAt : ATree → List Nat → Option ATree
  | t, [] => some t
  | mk _ _ _ _ _ ks, i :: p =>
    match ks[i]? with
    | some k => subAt k p
    | none => none
end ATree

/-- `path_to_replacement`: a dict keyed by path, later entries overwrite earlier ones -/
def lookupRepl (repl : List (List Nat × ATree)) (p : List Nat) : Option ATree :=
  match repl.reverse.find? (fun e => e.1 == p) with
  | some e => some e.2
  | none => none

mutual
/-- `DerivationTree.replace_multiple` on a generator-free grammar (`sources` stay empty): a node whose
    path is a key is swapped for a copy of the replacement iff the symbols are equal and the node is
    not read-only; the copy keeps the node's `origin_repetitions`, and the walk continues *into the
    copy* with the same paths.  `fuel` bounds the walk (it may re-enter replacement trees). -/
def replM (repl : List (List Nat × ATree)) : Nat → List Nat → ATree → Option ATree
  | 0, _, _ => none
  | fuel + 1, cur, .mk s a r ro o ks =>
    match lookupRepl repl cur with
    | some (.mk s' a' r' ro' _ ks') =>
      if s = s' ∧ ro = false then
        match replL repl fuel cur 0 ks' with
        | some ks'' => some (.mk s' a' r' ro' o ks'')
        | none => none
      else
        match replL repl fuel cur 0 ks with
        | some ks'' => some (.mk s a r ro o ks'')
        | none => none
    | none =>
      match replL repl fuel cur 0 ks with
      | some ks'' => some (.mk s a r ro o ks'')
      | none => none
def replL (repl : List (List Nat × ATree)) : Nat → List Nat → Nat → List ATree → Option (List ATree)
  | 0, _, _, _ => none
  | _ + 1, _, _, [] => some []
  | fuel + 1, cur, i, t :: ts =>
    match replM repl fuel (cur ++ [i]) t, replL repl fuel cur (i + 1) ts with
    | some t', some ts' => some (t' :: ts')
    | _, _ => none
end

/-- the tag `(id, iter, _)` of a child, if any: `matching_o_nodes[0][2]` -/
def matchTag (id : String) (iter : Nat) (o : List Tag) : Option Nat :=
  match o.find? (fun x => x.1 == id && x.2.1 == iter) with
  | some x => some x.2.2
  | none => none

/-- the loop of `_delete_repetitions` over `children[::-1]` -/
def delLoop (id : String) (iter nr : Nat) : List ATree → Option Nat → Nat → List ATree → List ATree
  | [], _, _, acc => acc
  | c :: cs, curr, del, acc =>
    match matchTag id iter c.origin with
    | none => delLoop id iter nr cs curr del (c :: acc)
    | some r =>
      if curr != some r && decide (del ≥ nr) then delLoop id iter nr cs curr del (c :: acc)
      else delLoop id iter nr cs (some r) (del + 1) acc

/-- `RepetitionBoundsSuggestion._delete_repetitions`: the copy of the parent without the trailing
    iterations -/
def deleteReps (id : String) (iter nr : Nat) : ATree → ATree
  | .mk s a r ro o ks => .mk s a r ro o (delLoop id iter nr ks.reverse none 0 [])

/-- does the child carry a tag of the repetition execution `(id, iter)`? -/
def hasTag (id : String) (iter : Nat) (t : ATree) : Bool :=
  t.origin.any (fun x => x.1 == id && x.2.1 == iter)

/-- `insertion_index` of `_insert_repetitions`: behind `_ending_rep_tree` (at `idx`) and behind the following
    siblings that still belong to the same repetition execution (the rest of the last iteration) -/
def insertIdx (id : String) (iter : Nat) (ks : List ATree) (idx : Nat) : Nat :=
  idx + 1 + ((ks.drop (idx + 1)).takeWhile (hasTag id iter)).length

/-- `_insert_repetitions`: the copy of the parent with the new children spliced in -/
def insertKids (id : String) (iter : Nat) (idx : Nat) (new : List ATree) : ATree → ATree
  | .mk s a r ro o ks =>
    let pos := insertIdx id iter ks idx
    .mk s a r ro o (ks.take pos ++ new ++ ks.drop pos)

/-- `split_end` (on the copy): along the path keep the children up to and including the path's child;
    the result is shown from the root -/
def splitEnd : ATree → List Nat → ATree
  | t, [] => t
  | .mk s a r ro o ks, i :: p =>
    match ks[i]? with
    | some k => .mk s a r ro o (ks.take i ++ [splitEnd k p])
    | none => .mk s a r ro o ks

/-- `prefix`: `split_end`, then the node itself is dropped from its parent -/
def prefixOf : ATree → List Nat → ATree
  | t, [] => t
  | .mk s a r ro o ks, [i] => .mk s a r ro o (ks.take i)
  | .mk s a r ro o ks, i :: j :: p =>
    match ks[i]? with
    | some k => .mk s a r ro o (ks.take i ++ [prefixOf k (j :: p)])
    | none => .mk s a r ro o ks

mutual
/-- `IterativeParser._collapse`: control-flow nodes (`<__…>`) are spliced out -/
def collapse : Tree → List Tree
  | .mk (.nt n) a r ks => if n.startsWith "<__" then collapseL ks else [.mk (.nt n) a r (collapseL ks)]
  | .mk s a r ks => [.mk s a r (collapseL ks)]
def collapseL : List Tree → List Tree
  | [] => []
  | t :: ts => collapse t ++ collapseL ts
end

end FV
