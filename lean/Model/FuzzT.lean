/-
E2 / budgeted expansion with the reason for "no result" kept apart.

`expand` (`Model/Fuzz.lean`) returns `none` both when the recursion bound is hit and when the typed tape is
not a run of the code (wrong kind of draw, draw out of range, symbol without a rule).  For the termination
statements the two must be told apart: `expandF` is `expand` line for line, with the outcome
`ok | stuck | fuel`.  `Proofs/FuzzTerm.lean: expandF_toOption` proves `(expandF …).toOption = expand …`.
-/
import Model.Prime
namespace FV

inductive Out (α : Type) where
  | ok (a : α)
  /-- not a run of the code: the tape does not fit, or the code raises (symbol not in the grammar) -/
  | stuck
  /-- the recursion bound was hit: the real call would still be running -/
  | fuel
  deriving Repr

def Out.toOption {α : Type} : Out α → Option α
  | .ok a => some a
  | _ => none

abbrev RecF := FNode → List String → Bool → Int → Tape → Out (List Tree × Tape)

def expandCatF (rec : RecF) (all : List FNode) (d : Nat) (path : List String) (inMsg : Bool) :
    Nat → List FNode → Int → Tape → Out (List Tree × Tape)
  | _, [], _, tape => .ok ([], tape)
  | i, n :: rest, b, tape =>
    let bn : Int := if (n.dist : Int) ≥ b then 0 else b - reserved all d i n
    match rec n path inMsg bn tape with
    | .stuck => .stuck
    | .fuel => .fuel
    | .ok (f, tape') =>
      match expandCatF rec all d path inMsg (i + 1) rest (b - (Tree.sizeL f : Nat)) tape' with
      | .stuck => .stuck
      | .fuel => .fuel
      | .ok (fs, tape'') => .ok (f ++ fs, tape'')

def expandRepF (rec : RecF) (n : FNode) (mn : Nat) (ovr : Bool) (path : List String) (inMsg : Bool) :
    Nat → Nat → Int → Int → Tape → Out (List Tree × Tape)
  | _, 0, _, _, tape => .ok ([], tape)
  | rep, rem + 1, resv, b, tape =>
    if (n.dist : Int) ≥ b then
      if rep ≥ mn && !ovr then .ok ([], tape)
      else
        match rec n path inMsg 0 tape with
        | .stuck => .stuck
        | .fuel => .fuel
        | .ok (f, tape') =>
          match expandRepF rec n mn ovr path inMsg (rep + 1) rem resv (b - (Tree.sizeL f : Nat)) tape' with
          | .stuck => .stuck
          | .fuel => .fuel
          | .ok (fs, tape'') => .ok (f ++ fs, tape'')
    else
      let resv' : Int := resv - n.dist
      match rec n path inMsg (b - resv') tape with
      | .stuck => .stuck
      | .fuel => .fuel
      | .ok (f, tape') =>
        match expandRepF rec n mn ovr path inMsg (rep + 1) rem resv' (b - (Tree.sizeL f : Nat)) tape' with
        | .stuck => .stuck
        | .fuel => .fuel
        | .ok (fs, tape'') => .ok (f ++ fs, tape'')

def expandDepsF (rec : RecF) (path : List String) (b : Int) : List String → Tape → Out Tape
  | [], tape => .ok tape
  | d :: ds, tape =>
    match rec (.nt d none none 0) path false b tape with
    | .stuck => .stuck
    | .fuel => .fuel
    | .ok (_, tape') => expandDepsF rec path b ds tape'

def expandNodeF (G : FGrammar) (rec : RecF) : RecF
  | .term (.lit l) _ _, _, _, _, tape => .ok ([Tree.leaf l], tape)
  | .term (.regex id) _ _, _, _, _, tape =>
    match tape with
    | .regex id' l :: rest => if id' = id then .ok ([Tree.leaf l], rest) else .stuck
    | _ => .stuck
  | .nt name snd rcp _, path, inMsg, b, tape =>
    match G.rule name with
    | none => .stuck
    | some body =>
      let path' := path ++ [name]
      match G.useGen path' name with
      | some ds =>
        match expandDepsF rec path' (b - 1) ds tape with
        | .stuck => .stuck
        | .fuel => .fuel
        | .ok tape' =>
          match tape' with
          | .gen (.mk (.nt g) _ _ kids) :: rest =>
            if g = name then .ok ([.mk (.nt name) snd rcp kids], rest) else .stuck
          | _ => .stuck
      | none =>
        let assign := !inMsg && snd.isSome
        let s := if assign then snd else none
        let r := if assign then rcp else none
        match rec body path' (inMsg || assign) (b - 1) tape with
        | .stuck => .stuck
        | .fuel => .fuel
        | .ok (kids, tape') => .ok ([.mk (.nt name) s r kids], tape')
  | .alt _ _ ns, path, inMsg, b, tape =>
    match tape with
    | .alt k :: rest =>
      match (altCands ns b).1[k]? with
      | some c => rec c path inMsg (altCands ns b).2 rest
      | none => .stuck
    | _ => .stuck
  | .cat _ d ns, path, inMsg, b, tape => expandCatF rec ns d path inMsg 0 ns b tape
  | .rep _ _ d n mn mx, path, inMsg, b, tape =>
    match tape with
    | .rep goal :: rest =>
      if mn ≤ goal ∧ goal ≤ mx.getD G.cap then
        expandRepF rec n mn false path inMsg 0 goal d b rest
      else .stuck
    | _ => .stuck

def expandF (G : FGrammar) : Nat → RecF
  | 0 => fun _ _ _ _ _ => .fuel
  | fuel + 1 => expandNodeF G (expandF G fuel)

def fuzzStartF (G : FGrammar) (fuel : Nat) (start : String) (path : List String) (b : Int) (tape : Tape) :
    Out (Tree × Tape) :=
  match expandF G fuel (.nt start none none 0) path false b tape with
  | .ok ([t], tape') => .ok (t, tape')
  | .ok _ => .stuck
  | .stuck => .stuck
  | .fuel => .fuel

/-! ## the recursion bound that suffices (`Proofs/FuzzTerm.lean`) -/

mutual
def FNode.size : FNode → Nat
  | .term _ _ _ => 1
  | .nt _ _ _ _ => 1
  | .alt _ _ ns => 1 + FNode.sizeL ns
  | .cat _ _ ns => 1 + FNode.sizeL ns
  | .rep _ _ _ n _ _ => 1 + n.size
def FNode.sizeL : List FNode → Nat
  | [] => 0
  | n :: ns => n.size + FNode.sizeL ns
end

mutual
/-- the largest distance annotation in the node -/
def FNode.maxDist : FNode → Nat
  | .term _ d _ => d
  | .nt _ _ _ d => d
  | .alt _ d ns => Nat.max d (FNode.maxDistL ns)
  | .cat _ d ns => Nat.max d (FNode.maxDistL ns)
  | .rep _ _ d n _ _ => Nat.max d n.maxDist
def FNode.maxDistL : List FNode → Nat
  | [] => 0
  | n :: ns => Nat.max n.maxDist (FNode.maxDistL ns)
end

def maxOver (f : FNode → Nat) : List (String × FNode) → Nat
  | [] => 0
  | r :: rs => Nat.max (f r.2) (maxOver f rs)

/-- one more than the size of the largest rule -/
def FGrammar.width (G : FGrammar) : Nat := maxOver FNode.size G.rules + 1

/-- recursion depth that suffices once the budget is exhausted — a function of the grammar alone -/
def FGrammar.depthBound (G : FGrammar) : Nat := G.width * (maxOver FNode.maxDist G.rules + 1)

/-- recursion bound for `Grammar.fuzz` on a tape: every draw can re-open at most `depthBound` levels -/
def FGrammar.fuelFor (G : FGrammar) (tape : Tape) : Nat := (tape.length + 1) * G.depthBound + 2

end FV
