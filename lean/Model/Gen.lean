/-
E2 / generators (`:=`): trees with `sources` and read-only flags, the generator call, the invariant
"generated text is what the generator returned for the recorded arguments, and is owned by the generator".

Mirrors
* `grammar.py  Grammar.generate / generate_string`   evaluate the generator on the argument trees, parse the value
                                                     under the symbol, `None` → FandangoParseError
* `nodes/non_terminal.py  NonTerminalNode.fuzz`      generator branch: arguments fuzzed first, `generate`, children
                                                     `set_all_read_only(True)`
* `grammar.py  is_use_generator`                     generator used unless one of its parameters is on the path
* `tree.py  replace_multiple`                        `regen_children` branch: a node whose `sources` changed gets
                                                     `derive_generator_output` = the children of a fresh `generate`;
                                                     read-only nodes are not replaced
* `tree.py  set_all_read_only`                       self, children and sources

Generators are *parameters*: a call is recorded as a log entry `(symbol, argument values, returned value)`;
the parser is a parameter `parse : symbol → value → Option children` (its fit with the rule is C04/C05).
Text is a list of code units (`Val`); leaves carry text.
-/
namespace FV.Gen

abbrev Val := List Nat

inductive GTree where
  | leaf (v : Val) (ro : Bool)
  | node (sym : String) (ro : Bool) (kids : List GTree) (srcs : List GTree)
  deriving Repr

namespace GTree

mutual
/-- the text of a tree: its leaves, left to right (sources are not part of the text) -/
def text : GTree → Val
  | leaf v _ => v
  | node _ _ kids _ => textL kids
def textL : List GTree → Val
  | [] => []
  | t :: ts => text t ++ textL ts
end

def sym? : GTree → Option String
  | leaf _ _ => none
  | node s _ _ _ => some s

def ro : GTree → Bool
  | leaf _ r => r
  | node _ r _ _ => r

mutual
/-- `set_all_read_only(b)`: the node, its children and its sources -/
def setRO (b : Bool) : GTree → GTree
  | leaf v _ => leaf v b
  | node s _ kids srcs => node s b (setROL b kids) (setROL b srcs)
def setROL (b : Bool) : List GTree → List GTree
  | [] => []
  | t :: ts => setRO b t :: setROL b ts
end

mutual
/-- the node, all its descendants and all their sources are read-only -/
def allRO : GTree → Bool
  | leaf _ r => r
  | node _ r kids srcs => r && allROL kids && allROL srcs
def allROL : List GTree → Bool
  | [] => true
  | t :: ts => allRO t && allROL ts
end

end GTree

open GTree

structure LogEntry where
  sym : String
  args : List Val
  value : Val
  deriving DecidableEq, Repr

/-- every value a generator expression returned during the run, with the argument values it was called on -/
abbrev Log := List LogEntry

/-- which symbols are defined with a generator, and their parameter symbols (`generator_dependencies`) -/
structure Spec where
  gens : List (String × List String)
  /-- iteration order of the *set* `generator_dependencies(sym)` (used by `_topological_sort`); when a symbol has
      no entry the parameter list is used -/
  deps : List (String × List String) := []
  /-- the symbols that have a rule (`symbol in grammar.rules`) -/
  rules : List String := []
  deriving Repr

def Spec.params (S : Spec) (s : String) : Option (List String) :=
  match S.gens.find? (fun p => p.1 == s) with
  | some p => some p.2
  | none => none

/-- `Grammar.is_use_generator(tree)`; `path` = symbols from the root to the node, the node included -/
def Spec.useGen (S : Spec) (path : List String) (s : String) : Option (List String) :=
  match S.params s with
  | some ps => if ps.any (fun d => path.contains d) then none else some ps
  | none => none

/-- `sources_ = {tree.symbol: tree for tree in sources}`: the last source with the symbol -/
def findSrc (p : String) : List GTree → Option GTree
  | [] => none
  | t :: ts =>
    match findSrc p ts with
    | some u => some u
    | none => if t.sym? = some p then some t else none

/-- the argument values of a generator call: one per parameter; `none` = "missing generator parameter" -/
def argsOf : List String → List GTree → Option (List Val)
  | [], _ => some []
  | p :: ps, srcs =>
    match findSrc p srcs, argsOf ps srcs with
    | some t, some vs => some (t.text :: vs)
    | _, _ => none

inductive Err where
  | noGenerator | missingParam | parseError
  /-- the generator expression itself raised -/
  | genRaised
  /-- `derive_sources`: a parameter symbol has no generator of its own ("Missing converter") -/
  | missingConverter
  /-- `derive_sources`: a parameter symbol has no rule -/
  | undefinedSymbol
  /-- `_topological_sort` / `dependent_gens.remove`: `KeyError` / `ValueError` -/
  | topoError
  /-- `derive_sources` on a terminal -/
  | notNonterminal
  /-- the model ran out of fuel (the code would not have returned within that many calls) -/
  | fuel
  deriving DecidableEq, Repr

abbrev Parser := String → Val → Option (List GTree)

/-- `Grammar.generate(symbol, sources)` when the generator expression returned `v` -/
def generate (S : Spec) (parse : Parser) (s : String) (srcs : List GTree) (v : Val) :
    Except Err (GTree × LogEntry) :=
  match S.params s with
  | none => .error .noGenerator
  | some ps =>
    match argsOf ps srcs with
    | none => .error .missingParam
    | some args =>
      match parse s v with
      | none => .error .parseError          -- never a substitute value
      | some kids => .ok (.node s false kids srcs, ⟨s, args, v⟩)

/-- generator branch of `NonTerminalNode.fuzz`: `params` are the freshly fuzzed dependencies -/
def fuzzGen (S : Spec) (parse : Parser) (s : String) (params : List GTree) (v : Val) :
    Except Err (GTree × LogEntry) :=
  match generate S parse s params v with
  | .error e => .error e
  | .ok (.node s' r kids srcs, e) => .ok (.node s' r (setROL true kids) srcs, e)
  | .ok (t, e) => .ok (t, e)

/-- `regen_children` branch of `replace_multiple`: the node's sources have become `srcs'`; its children are
    replaced by those of a fresh `generate`.  `markRO` = whether the branch marks them read-only
    (`Generated/GenFlags.lean` says what the source does now). -/
def regen (markRO : Bool) (S : Spec) (parse : Parser) (s : String) (ro : Bool) (srcs' : List GTree) (v : Val) :
    Except Err (GTree × LogEntry) :=
  match generate S parse s srcs' v with
  | .error e => .error e
  | .ok (.node _ _ kids _, e) => .ok (.node s ro (if markRO then setROL true kids else kids) srcs', e)
  | .ok (t, e) => .ok (t, e)

/-! ### the invariant -/

mutual
/-- every node for which the grammar uses a generator carries a text that the generator returned for the
    values of the node's recorded arguments, and its children are read-only.  Generator output is not searched
    for further generator nodes (it is one parsed value); arguments are. -/
def GenInv (S : Spec) (log : Log) : List String → GTree → Prop
  | _, .leaf _ _ => True
  | path, .node s _ kids srcs =>
    match S.useGen (path ++ [s]) s with
    | some ps =>
      ((∃ args, argsOf ps srcs = some args ∧ (⟨s, args, textL kids⟩ : LogEntry) ∈ log) ∧ allROL kids = true)
        ∧ GenInvL S log (path ++ [s]) srcs
    | none => GenInvL S log (path ++ [s]) kids ∧ GenInvL S log (path ++ [s]) srcs
def GenInvL (S : Spec) (log : Log) : List String → List GTree → Prop
  | _, [] => True
  | path, t :: ts => GenInv S log path t ∧ GenInvL S log path ts
end

mutual
/-- the checker the harness runs on every real tree -/
def genInvB (S : Spec) (log : Log) : List String → GTree → Bool
  | _, .leaf _ _ => true
  | path, .node s _ kids srcs =>
    match S.useGen (path ++ [s]) s with
    | some ps =>
      ((match argsOf ps srcs with
        | some args => decide ((⟨s, args, textL kids⟩ : LogEntry) ∈ log)
        | none => false) && allROL kids)
        && genInvLB S log (path ++ [s]) srcs
    | none => genInvLB S log (path ++ [s]) kids && genInvLB S log (path ++ [s]) srcs
def genInvLB (S : Spec) (log : Log) : List String → List GTree → Bool
  | _, [] => true
  | path, t :: ts => genInvB S log path t && genInvLB S log path ts
end

/-- diagnosis for a failing tree: `0` fine, `1` text not a logged return value for the recorded arguments,
    `2` generated children writable, `3` an argument is missing -/
def nodeVerdict (S : Spec) (log : Log) (path : List String) : GTree → Nat
  | .leaf _ _ => 0
  | .node s _ kids srcs =>
    match S.useGen (path ++ [s]) s with
    | some ps =>
      match argsOf ps srcs with
      | none => 3
      | some args =>
        if decide ((⟨s, args, textL kids⟩ : LogEntry) ∈ log) then (if allROL kids then 0 else 2) else 1
    | none => 0

mutual
/-- first offending node: (path of steps: `2*i` = child i, `2*i+1` = source i, verdict) -/
def firstBad (S : Spec) (log : Log) : List String → GTree → Option (List Nat × Nat)
  | _, .leaf _ _ => none
  | path, .node s r kids srcs =>
    let v := nodeVerdict S log path (.node s r kids srcs)
    if v != 0 then some ([], v)
    else
      match S.useGen (path ++ [s]) s with
      | some _ => firstBadL S log (path ++ [s]) srcs 0 1
      | none =>
        match firstBadL S log (path ++ [s]) kids 0 0 with
        | some b => some b
        | none => firstBadL S log (path ++ [s]) srcs 0 1
def firstBadL (S : Spec) (log : Log) : List String → List GTree → Nat → Nat → Option (List Nat × Nat)
  | _, [], _, _ => none
  | path, t :: ts, i, par =>
    match firstBad S log path t with
    | some (p, v) => some ((2 * i + par) :: p, v)
    | none => firstBadL S log path ts (i + 1) par
end

/-! ### replacement at a child path (the part of `replace_multiple` that stays outside generated output) -/

/-- subtree at a path of child indices -/
def subAt : GTree → List Nat → Option GTree
  | t, [] => some t
  | .leaf _ _, _ :: _ => none
  | .node _ _ kids _, i :: p =>
    match kids[i]? with
    | some k => subAt k p
    | none => none

/-- put `u` at a path of child indices -/
def putAt : GTree → List Nat → GTree → GTree
  | _, [], u => u
  | .leaf v r, _ :: _, _ => .leaf v r
  | .node s r kids srcs, i :: p, u =>
    match kids[i]? with
    | some k => .node s r (kids.set i (putAt k p u)) srcs
    | none => .node s r kids srcs

/-- `self.symbol == replacement.symbol`: nonterminals by name, terminals by their value -/
def sameSym : GTree → GTree → Bool
  | .leaf v _, .leaf w _ => v == w
  | .node s _ _ _, .node s' _ _ _ => s == s'
  | _, _ => false

/-- `replace_multiple` for one pair: the node at the path is swapped iff it is writable and has the
    replacement's symbol -/
def replaceAt (t : GTree) (p : List Nat) (u : GTree) : GTree :=
  match subAt t p with
  | some x => if x.ro = false ∧ sameSym x u = true then putAt t p u else t
  | none => t

/-- symbols from the root down to (excluding) the node at the path -/
def pathAt : List String → GTree → List Nat → List String
  | path, _, [] => path
  | path, .leaf _ _, _ :: _ => path
  | path, .node s _ kids _, i :: p =>
    match kids[i]? with
    | some k => pathAt (path ++ [s]) k p
    | none => path

/-- no node strictly above the path's end is generator-defined: the path stays outside generated output -/
def NoGenOnPath (S : Spec) : List String → GTree → List Nat → Prop
  | _, _, [] => True
  | _, .leaf _ _, _ :: _ => True
  | path, .node s _ kids _, i :: p =>
    S.useGen (path ++ [s]) s = none ∧
      (match kids[i]? with
       | some k => NoGenOnPath S (path ++ [s]) k p
       | none => True)

end FV.Gen
