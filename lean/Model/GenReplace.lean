/-
E2 / generators: `DerivationTree.replace_multiple` AS ONE FUNCTION, line by line after tree.py, with everything it
calls in grammar.py:

* `tree.py  replace_multiple`            → `replaceG` / `replaceL`  (recursion over `sources`, then children; the
                                            replacement branch: copy without its own sources, recursion into the copy's
                                            children, `populate_sources`; `regen_children` / `regen_params`)
* `tree.py  __eq__` (`hash`)             → `beqShape`   (symbol and children; sources and flags do not count)
* the `self_is_generator_child` loop     → `isGenChild` (walk up the parents; membership in `sources` / `children`
                                            BY VALUE, as `in` on a list of trees is)
* `grammar.py  generate` (only `.children` of its result are ever used here) → `genKids`
* `grammar.py  derive_sources`, `_topological_sort` → `deriveSources` / `deriveLoop`, `topoSort`
* `grammar.py  populate_sources`, `_rec_remove_sources`, `_populate_sources` → `strip`, `populate` / `populateL`

Generators are a parameter `gen : call index → symbol → argument values → Option value` (`none` = the expression
raised); every call is logged `(symbol, argument values, value)`; the call index makes random generators expressible.
The parser is a parameter.  All recursion is on fuel (`replace_multiple` recurses into a *copy of the replacement*, and
`derive_sources` ↔ `populate_sources` are mutually recursive in the code with no structural bound).

Paths: one `Nat` per step, `2*i` = child `i` (`ChildStep`), `2*i+1` = source `i` (`SourceStep`).
-/
import Model.Gen
namespace FV.Gen
open GTree

mutual
/-- `DerivationTree.__eq__`: equal hashes of (symbol, children) -/
def beqShape : GTree → GTree → Bool
  | .leaf v _, .leaf w _ => v == w
  | .node s _ ks _, .node s' _ ks' _ => s == s' && beqShapeL ks ks'
  | _, _ => false
def beqShapeL : List GTree → List GTree → Bool
  | [], [] => true
  | a :: as, b :: bs => beqShape a b && beqShapeL as bs
  | _, _ => false
end

mutual
/-- exact equality of trees (symbols, texts, flags, sources) -/
def beqTree : GTree → GTree → Bool
  | .leaf v r, .leaf w r' => v == w && r == r'
  | .node s r ks ss, .node s' r' ks' ss' => s == s' && r == r' && beqTreeL ks ks' && beqTreeL ss ss'
  | _, _ => false
def beqTreeL : List GTree → List GTree → Bool
  | [], [] => true
  | a :: as, b :: bs => beqTree a b && beqTreeL as bs
  | _, _ => false
end

/-- an ancestor as the code sees it through `.parent`: symbol, `children`, `sources` -/
structure Frame where
  sym : String
  ro : Bool
  kids : List GTree
  srcs : List GTree
  deriving Repr

def Frame.tree (f : Frame) : GTree := .node f.sym f.ro f.kids f.srcs

/-- symbols from the root down to the nearest ancestor (`get_path`); the context is nearest-first -/
def ctxSyms (ctx : List Frame) : List String := (ctx.map (·.sym)).reverse

/-- the loop that computes `self_is_generator_child` -/
def isGenChild (S : Spec) : GTree → List Frame → Bool
  | _, [] => false
  | cur, f :: rest =>
    if f.srcs.any (beqShape cur) then false                      -- `current in current_parent.sources`: break
    else if f.kids.any (beqShape cur) && (S.useGen (ctxSyms rest ++ [f.sym]) f.sym).isSome then true
    else isGenChild S f.tree rest

structure Env where
  S : Spec
  parse : Parser
  gen : Nat → String → List Val → Option Val
  /-- does `derive_sources` mark the output of a parameter's own generator read-only (as `NonTerminalNode.fuzz`
      does)?  `Generated.deriveMarksParamReadOnly` says what the source does now -/
  markParam : Bool := false

/-- `generator_dependencies(sym)` in the iteration order of that set -/
def Spec.depsOf (S : Spec) (s : String) : List String :=
  match S.deps.find? (fun p => p.1 == s) with
  | some p => p.2
  | none => (S.params s).getD []

/-- `Grammar.generate(symbol, sources).children`, and the log with the call -/
def genKids (E : Env) (s : String) (srcs : List GTree) (log : Log) : Except Err (List GTree × Log) :=
  match E.S.params s with
  | none => .error .noGenerator
  | some ps =>
    match argsOf ps srcs with
    | none => .error .missingParam
    | some args =>
      match E.gen log.length s args with
      | none => .error .genRaised
      | some v =>
        match E.parse s v with
        | none => .error .parseError
        | some kids => .ok (kids, ⟨s, args, v⟩ :: log)

/-! ### `_topological_sort` -/

abbrev Graph := List (String × List String)

def Graph.get? (g : Graph) (k : String) : Option (List String) :=
  match g.find? (fun p => p.1 == k) with
  | some p => some p.2
  | none => none

/-- `d[k] = v` on a dict: an existing key keeps its place -/
def Graph.set : Graph → String → List String → Graph
  | [], k, v => [(k, v)]
  | (k', v') :: g, k, v => if k' == k then (k', v) :: g else (k', v') :: Graph.set g k v

abbrev Indeg := List (String × Int)

def Indeg.get (m : Indeg) (k : String) : Int :=
  match m.find? (fun p => p.1 == k) with
  | some p => p.2
  | none => 0

def Indeg.add : Indeg → String → Int → Indeg
  | [], k, d => [(k, d)]
  | (k', v') :: m, k, d => if k' == k then (k', v' + d) :: m else (k', v') :: Indeg.add m k d

def topoLoop (g : Graph) : Nat → List String → Indeg → List String → Except Err (List String)
  | 0, _, _, _ => .error .fuel
  | _ + 1, [], _, acc => .ok acc.reverse
  | f + 1, n :: q, ind, acc =>
    match g.get? n with
    | none => .error .topoError                                  -- `graph[node]`: KeyError
    | some nbrs =>
      let st := nbrs.foldl (fun (st : Indeg × List String) nb =>
        let ind' := st.1.add nb (-1)
        if ind'.get nb == 0 then (ind', st.2 ++ [nb]) else (ind', st.2)) (ind, q)
      topoLoop g f st.2 st.1 (n :: acc)

/-- `Grammar._topological_sort(graph)` (the reversed order it returns) -/
def topoSort (g : Graph) : Except Err (List String) :=
  let ind : Indeg := g.foldl (fun m p => p.2.foldl (fun m nb => m.add nb 1) m) []
  let q := (g.filter (fun p => ind.get p.1 == 0)).map (·.1)
  match topoLoop g (g.length + (g.map (·.2.length)).sum + 1) q ind [] with
  | .error e => .error e
  | .ok order => .ok order.reverse

/-- the loop over `self.generators[gen_symbol].nonterminals.values()` in `derive_sources` -/
def buildGraph (S : Spec) : List String → Graph → Except Err Graph
  | [], g => .ok g
  | v :: vs, g =>
    if !S.rules.contains v then .error .undefinedSymbol
    else if (S.params v).isNone then .error .missingConverter
    else buildGraph S vs (g.set v (S.depsOf v))

/-! ### `populate_sources` and `derive_sources` -/

mutual
/-- `_rec_remove_sources` -/
def strip : GTree → GTree
  | .leaf v r => .leaf v r
  | .node s r kids _ => .node s r (stripL kids) []
def stripL : List GTree → List GTree
  | [] => []
  | t :: ts => strip t :: stripL ts
end

mutual
/-- `derive_sources(tree)`; `path` = symbols above the tree -/
def deriveSources (E : Env) : Nat → List String → GTree → Log → Except Err (List GTree × Log)
  | 0, _, _, _ => .error .fuel
  | _ + 1, _, .leaf _ _, _ => .error .notNonterminal
  | f + 1, path, .node s r kids srcs, log =>
    match E.S.params s with
    | none => .error .noGenerator
    | some ps =>
      match E.S.useGen (path ++ [s]) s with
      | none => .ok ([], log)
      | some _ =>
        match buildGraph E.S ps [(s, [])] with
        | .error e => .error e
        | .ok g =>
          match topoSort g with
          | .error e => .error e
          | .ok order =>
            if !order.contains s then .error .topoError            -- `dependent_gens.remove(gen_symbol)`
            else deriveLoop E f (path ++ [s]) (order.erase s) [.node s r kids srcs] log
/-- `for symbol in dependent_gens: …`; `path` = symbols down to the tree (included); the first of `args` is the tree -/
def deriveLoop (E : Env) : Nat → List String → List String → List GTree → Log → Except Err (List GTree × Log)
  | 0, _, _, _, _ => .error .fuel
  | _ + 1, _, [], args, log => .ok (args.drop 1, log)
  | f + 1, path, sym :: rest, args, log =>
    match genKids E sym args log with
    | .error e => .error e
    | .ok (kids, log1) =>
      -- `generated_param.sources = []`, `populate_sources(child)` for every child
      match (if E.markParam && (E.S.useGen (path ++ [sym]) sym).isSome then .ok (setROL true kids, log1)
             else populateL E f (path ++ [sym]) (stripL kids) log1) with
      | .error e => .error e
      | .ok (kids', log2) => deriveLoop E f path rest (args ++ [.node sym false kids' []]) log2
/-- `_populate_sources(tree)`; `path` = symbols above the tree -/
def populate (E : Env) : Nat → List String → GTree → Log → Except Err (GTree × Log)
  | 0, _, _, _ => .error .fuel
  | _ + 1, _, .leaf v r, log => .ok (.leaf v r, log)
  | f + 1, path, .node s r kids srcs, log =>
    match E.S.useGen (path ++ [s]) s with
    | some _ =>
      match deriveSources E f path (.node s r kids srcs) log with
      | .error e => .error e
      | .ok (srcs', log') => .ok (.node s r (setROL true kids) srcs', log')
    | none =>
      match populateL E f (path ++ [s]) kids log with
      | .error e => .error e
      | .ok (kids', log') => .ok (.node s r kids' srcs, log')
def populateL (E : Env) : Nat → List String → List GTree → Log → Except Err (List GTree × Log)
  | 0, _, _, _ => .error .fuel
  | _ + 1, _, [], log => .ok ([], log)
  | f + 1, path, t :: ts, log =>
    match populate E f path t log with
    | .error e => .error e
    | .ok (t', log1) =>
      match populateL E f path ts log1 with
      | .error e => .error e
      | .ok (ts', log2) => .ok (t' :: ts', log2)
end

/-- `Grammar.populate_sources(tree)` -/
def populateSources (E : Env) (fuel : Nat) (path : List String) (t : GTree) (log : Log) :
    Except Err (GTree × Log) :=
  populate E fuel path (strip t) log

/-! ### `replace_multiple` -/

abbrev Repl := List (List Nat × GTree)

/-- `path_to_replacement[current_path]` (a dict: the last pair with the path counts) -/
def lookupRepl (p : List Nat) : Repl → Option GTree
  | [] => none
  | (q, r) :: rest =>
    match lookupRepl p rest with
    | some x => some x
    | none => if q == p then some r else none

/-- the test at the head of `replace_multiple`: a replacement is registered for this path, it has the node's symbol,
    and the node is not read-only -/
def target (repl : Repl) (path : List Nat) (t : GTree) : Option GTree :=
  match lookupRepl path repl with
  | some r => if sameSym t r && !t.ro then some r else none
  | none => none

/-- an installed copy, as `populate_sources` left it, with the symbols above it -/
abbrev Install := List String × GTree

structure Out where
  tree : GTree
  log : Log
  inst : List Install

structure OutL where
  trees : List GTree
  log : Log
  inst : List Install

mutual
/-- `self.replace_multiple(grammar, replacements, path_to_replacement, current_path)`;
    `ctx` = the ancestors as `self.parent…` shows them, nearest first -/
def replaceG (E : Env) (repl : Repl) : Nat → List Frame → List Nat → GTree → Log → Except Err Out
  | 0, _, _, _, _ => .error .fuel
  | f + 1, ctx, path, t, log =>
    match target repl path t with
    | some (.leaf v rr) =>
      -- the copy of a terminal: no children, `populate_sources` finds nothing
      .ok ⟨.leaf v rr, log, [(ctxSyms ctx, .leaf v rr)]⟩
    | some (.node s rr ks _) =>
      -- `deepcopy(copy_children=True, copy_params=False)`: the copy has no sources of its own, its children keep theirs
      match replaceL E repl f (⟨s, rr, ks, []⟩ :: ctx) path 0 0 ks log with
      | .error e => .error e
      | .ok o =>
        match populateSources E f (ctxSyms ctx) (.node s rr o.trees []) o.log with
        | .error e => .error e
        | .ok (u, log2) => .ok ⟨u, log2, [(ctxSyms ctx, u)]⟩
    | none =>
      match t with
      | .leaf v r => .ok ⟨.leaf v r, log, []⟩
      | .node s r kids srcs =>
        let fr : Frame := ⟨s, r, kids, srcs⟩
        match replaceL E repl f (fr :: ctx) path 1 0 srcs log with
        | .error e => .error e
        | .ok os =>
          match replaceL E repl f (fr :: ctx) path 0 0 kids os.log with
          | .error e => .error e
          | .ok ok =>
            let regenChildren := !beqShapeL os.trees srcs
            let regenParams := !beqShapeL ok.trees kids
            if (E.S.params s).isNone then
              .ok ⟨.node s r ok.trees [], ok.log, ok.inst⟩
            else if regenChildren then
              if isGenChild E.S (.node s r kids srcs) ctx then
                .ok ⟨.node s r ok.trees [], ok.log, ok.inst⟩
              else
                match genKids E s os.trees ok.log with
                | .error e => .error e
                | .ok (gk, log3) => .ok ⟨.node s r (setROL true gk) os.trees, log3, os.inst⟩
            else if regenParams then
              match deriveSources E f (ctxSyms ctx) (.node s r ok.trees os.trees) ok.log with
              | .error e => .error e
              | .ok (srcs2, log3) => .ok ⟨.node s r ok.trees srcs2, log3, ok.inst⟩
            else
              .ok ⟨.node s r ok.trees os.trees, ok.log, os.inst ++ ok.inst⟩
/-- the loops `for i, param in enumerate(self._sources)` (`par = 1`) and `for i, child in enumerate(children)`
    (`par = 0`) -/
def replaceL (E : Env) (repl : Repl) : Nat → List Frame → List Nat → Nat → Nat → List GTree → Log →
    Except Err OutL
  | 0, _, _, _, _, _, _ => .error .fuel
  | _ + 1, _, _, _, _, [], log => .ok ⟨[], log, []⟩
  | f + 1, ctx, path, par, i, t :: ts, log =>
    match replaceG E repl f ctx (path ++ [2 * i + par]) t log with
    | .error e => .error e
    | .ok o =>
      match replaceL E repl f ctx path par (i + 1) ts o.log with
      | .error e => .error e
      | .ok os => .ok ⟨o.tree :: os.trees, os.log, o.inst ++ os.inst⟩
end

/-- `root.replace_multiple(grammar, replacements)` -/
def replaceTop (E : Env) (repl : Repl) (fuel : Nat) (t : GTree) (log : Log) : Except Err Out :=
  replaceG E repl fuel [] [] t log

/-! ### sources only where a generator is used -/

mutual
/-- along the nodes `GenInv` looks at: a node the grammar uses no generator for has no sources (`replace_multiple`
    and `populate_sources` both clear them) -/
def srcOKB (S : Spec) : List String → GTree → Bool
  | _, .leaf _ _ => true
  | path, .node s _ kids srcs =>
    match S.useGen (path ++ [s]) s with
    | some _ => srcOKLB S (path ++ [s]) srcs
    | none => srcs.isEmpty && srcOKLB S (path ++ [s]) kids
def srcOKLB (S : Spec) : List String → List GTree → Bool
  | _, [] => true
  | path, t :: ts => srcOKB S path t && srcOKLB S path ts
end


mutual
/-- no node of the tree (through children) has a generator-defined symbol: what plain mutation / crossover
    material looks like -/
def genFreeB (S : Spec) : GTree → Bool
  | .leaf _ _ => true
  | .node s _ kids _ => (S.params s).isNone && genFreeLB S kids
def genFreeLB (S : Spec) : List GTree → Bool
  | [] => true
  | t :: ts => genFreeB S t && genFreeLB S ts
end

end FV.Gen
