/-
E7 / environment — process-wide state of a Python process that hosts several Fandango instances,
and the adaptive tuner that writes it.

What is modelled (read line by line from /repo/src/fandango):

* `evolution/adaptation.py  AdaptiveTuner.update_parameters`: the float arithmetic is modelled
  *exactly*: a non-negative binary64 value is a dyadic rational `Dy` (= `float.as_integer_ratio()`),
  `*`, `/`, `-` round the exact rational result to 53 significant bits, ties to even (`fl53`);
  `math.ceil`, `min`, `max`, `<` are exact.  Outside the model: negative inputs / rates, NaN, inf,
  subnormal results (the driver rejects what it cannot decode; fitnesses and rates are >= 0 here).
* `language/grammar/grammar.py  set_max_repetition / get_max_repetition`,
  `language/grammar/nodes/repetition.py  Repetition.max / Repetition.fuzz (iteration counter)`,
  `language/grammar/parser/iterative_parser.py  visitRepetition` (helper rules of an open upper bound:
  either unrolled up to the cap *at parser construction*, or a right-recursive tail — `Cfg.openParse`,
  read from the source by the translator),
  `evolution/algorithm.py  Fandango.__init__ / _generate_simple / _generate_io` (the glue between
  tuner and cap).

The place where the cap lives is a *parameter* (`CapLoc`); the translator
`harness/translate_env.py` reads it from the source and writes `Generated/Env.lean`.
No imports: the driver links this file.
-/
namespace FV.Env

/-! ## 1. exact binary64 arithmetic on non-negative values -/

/-- `num / 2^exp` — every finite non-negative binary64 value is of this form -/
structure Dy where
  num : Nat
  exp : Nat
  deriving Repr, DecidableEq, Inhabited

namespace Dy

def normAux : Nat → Nat → Nat → Dy
  | 0, n, e => ⟨n, e⟩
  | f + 1, n, e => if e > 0 && n % 2 == 0 then normAux f (n / 2) (e - 1) else ⟨n, e⟩

/-- canonical form: odd numerator or exponent 0 -/
def norm (d : Dy) : Dy := normAux d.exp d.num d.exp

def ofNat (n : Nat) : Dy := ⟨n, 0⟩
def zero : Dy := ⟨0, 0⟩

def lt (a b : Dy) : Bool := a.num * 2 ^ b.exp < b.num * 2 ^ a.exp
def le (a b : Dy) : Bool := a.num * 2 ^ b.exp ≤ b.num * 2 ^ a.exp
def dmin (a b : Dy) : Dy := if lt b a then b else a      -- Python `min(a, b)`: first unless b < a
def dmax (a b : Dy) : Dy := if lt a b then b else a      -- Python `max(a, b)`: first unless b > a

/-- `math.ceil` -/
def ceil (d : Dy) : Nat := (d.num + 2 ^ d.exp - 1) / 2 ^ d.exp

/-- round the rational `n / d` (`d > 0`) to the nearest value with 53 significant bits, ties to even
    (normal range of binary64; no overflow / subnormal handling) -/
def fl53 (n d : Nat) : Dy :=
  if n = 0 then zero else
  let ln := Nat.log2 n
  let ld := Nat.log2 d
  -- scale so that the quotient has 53 or 54 bits, then fix
  let t0 : Int := 52 - (Int.ofNat ln - Int.ofNat ld)
  let scaled (t : Int) : Nat × Nat :=
    if t ≥ 0 then (n * 2 ^ t.toNat, d) else (n, d * 2 ^ (-t).toNat)
  let q0 := (scaled t0).1 / (scaled t0).2
  let t : Int := if q0 < 2 ^ 52 then t0 + 1 else if q0 ≥ 2 ^ 53 then t0 - 1 else t0
  let N := (scaled t).1
  let D := (scaled t).2
  let q := N / D
  let r := N % D
  let q' := if 2 * r > D || (2 * r == D && q % 2 == 1) then q + 1 else q
  if t ≥ 0 then norm ⟨q', t.toNat⟩ else ⟨q' * 2 ^ (-t).toNat, 0⟩

/-- float `a * b` -/
def mul (a b : Dy) : Dy := fl53 (a.num * b.num) (2 ^ (a.exp + b.exp))
/-- float `a / b` (`b ≠ 0`) -/
def div (a b : Dy) : Dy := fl53 (a.num * 2 ^ b.exp) (b.num * 2 ^ a.exp)
/-- float `a - b` for `a ≥ b` -/
def sub (a b : Dy) : Dy := fl53 (a.num * 2 ^ b.exp - b.num * 2 ^ a.exp) (2 ^ (a.exp + b.exp))

/-- `sum(xs) / len(xs) if xs else 0` for lists whose partial sums are exactly representable
    (the harness generates multiples of 2^-10): exact sum, one rounding for the division -/
def avg (xs : List Dy) : Dy :=
  match xs with
  | [] => zero
  | _ =>
    let e := xs.foldl (fun m x => max m x.exp) 0
    let s := xs.foldl (fun acc x => acc + x.num * 2 ^ (e - x.exp)) 0
    fl53 s (2 ^ e * xs.length)

end Dy

/-! ## 2. the adaptive tuner -/

/-- how `IterativeParser.visitRepetition` compiles an open-ended `{n,}`:
    `cappedAtBuild` — unrolled up to the repetition cap read when the parser is built;
    `unbounded` — n iterations followed by a right-recursive tail, as `*` and `+` (since b48dd899) -/
inductive OpenParse where
  | cappedAtBuild
  | unbounded
  deriving Repr, DecidableEq

/-- constants of `update_parameters` / `AdaptiveTuner.__init__` (read from the source) -/
structure Cfg where
  openParse : OpenParse
  fitThr : Dy      -- fitness_improvement_threshold
  divThr : Dy      -- diversity_low_threshold
  mutUp : Dy       -- 1.1
  mutHi : Dy       -- 1.0
  mutDown : Dy     -- 0.95
  mutLo : Dy       -- 0.01
  crDown : Dy      -- 0.95
  crLo : Dy        -- 0.1
  crUp : Dy        -- 1.02
  crHi : Dy        -- 0.9
  minInc : Nat     -- max(1, increment)
  safeRep : Nat    -- max_safe_repetition
  safeNodes : Nat  -- max_safe_nodes
  deriving Repr, DecidableEq

/-- keyword settings of `Fandango.__init__` that reach the tuner -/
structure Settings where
  mutR : Dy
  crossR : Dy
  maxReps : Option Nat
  repRate : Dy
  maxNodes : Nat
  nodesRate : Dy
  deriving Repr, DecidableEq

structure Tuner where
  mutR : Dy
  crossR : Dy
  curRep : Nat
  curNodes : Nat
  initMut : Dy
  initCross : Dy
  initRep : Nat
  initNodes : Nat
  maxReps : Option Nat
  repRate : Dy
  maxNodes : Nat
  nodesRate : Dy
  deriving Repr, DecidableEq

/-- `AdaptiveTuner(mutation_rate, crossover_rate, grammar.get_max_repetition(), max_nodes,
    max_repetitions, max_repetition_rate, max_nodes, max_nodes_rate)` -/
def Tuner.create (s : Settings) (capNow : Nat) : Tuner :=
  { mutR := s.mutR, crossR := s.crossR, curRep := capNow, curNodes := s.maxNodes,
    initMut := s.mutR, initCross := s.crossR, initRep := capNow, initNodes := s.maxNodes,
    maxReps := s.maxReps, repRate := s.repRate, maxNodes := s.maxNodes, nodesRate := s.nodesRate }

def Tuner.reset (t : Tuner) : Tuner :=
  { t with mutR := t.initMut, crossR := t.initCross, curRep := t.initRep, curNodes := t.initNodes }

/-- the increment `max(1, math.ceil(rate * cur))` -/
def increment (minInc : Nat) (rate : Dy) (cur : Nat) : Nat :=
  max minInc (Dy.ceil (Dy.mul rate (Dy.ofNat cur)))

/-- one growth step given the increment function:
    `new = cur + inc; [new = min(new, cap1)]; new = min(new, cap2); if new > cur: cur = new` -/
def growWith (inc : Nat → Nat) (cap1 : Option Nat) (cap2 : Nat) (cur : Nat) : Nat :=
  let n := cur + inc cur
  let n := match cap1 with
    | some m => min n m
    | none => n
  let n := min n cap2
  if n > cur then n else cur

def grow (minInc : Nat) (rate : Dy) (cap1 : Option Nat) (cap2 : Nat) (cur : Nat) : Nat :=
  growWith (increment minInc rate) cap1 cap2 cur

/-- `fitness_improvement < fitness_improvement_threshold` with
    `fitness_improvement = (cur - prev) / prev if prev > 0 else cur` (a negative improvement is below
    the positive threshold) -/
def improvementLow (cfg : Cfg) (prev cur : Dy) : Bool :=
  if prev.num > 0 then
    if Dy.lt cur prev then Dy.lt Dy.zero cfg.fitThr
    else Dy.lt (Dy.div (Dy.sub cur prev) prev) cfg.fitThr
  else Dy.lt cur cfg.fitThr

def stagnating (cfg : Cfg) (prev cur avgDiv : Dy) : Bool :=
  improvementLow cfg prev cur || Dy.lt avgDiv cfg.divThr

/-- `AdaptiveTuner.update_parameters` (the `current_max_repetition` argument is unused by the code) -/
def Tuner.update (cfg : Cfg) (t : Tuner) (prev cur avgDiv : Dy) : Tuner :=
  let st := stagnating cfg prev cur avgDiv
  let lowDiv := Dy.lt avgDiv cfg.divThr
  let mut' := if st then Dy.dmin cfg.mutHi (Dy.mul t.mutR cfg.mutUp)
              else Dy.dmax cfg.mutLo (Dy.mul t.mutR cfg.mutDown)
  let cross' := if lowDiv then Dy.dmax cfg.crLo (Dy.mul t.crossR cfg.crDown)
                else Dy.dmin cfg.crHi (Dy.mul t.crossR cfg.crUp)
  let rep' := if st then grow cfg.minInc t.repRate t.maxReps cfg.safeRep t.curRep else t.curRep
  let nodes' := if st then grow cfg.minInc t.nodesRate (some t.maxNodes) cfg.safeNodes t.curNodes
                else t.curNodes
  { t with mutR := mut', crossR := cross', curRep := rep', curNodes := nodes' }

/-- `current_max_repetition` after `k` stagnating generations -/
def trajectory (minInc : Nat) (rate : Dy) (cap1 : Option Nat) (cap2 : Nat) (c0 : Nat) : Nat → Nat
  | 0 => c0
  | k + 1 => grow minInc rate cap1 cap2 (trajectory minInc rate cap1 cap2 c0 k)

/-! ## 3. several instances in one process -/

/-- where the cap for open-ended repetitions lives -/
inductive CapLoc where
  | moduleGlobal   -- `nodes.MAX_REPETITIONS`, written by `Grammar.set_max_repetition`
  | perGrammar     -- an attribute of the `Grammar` object; the module constant is never written
  deriving DecidableEq, Repr

/-- what one spec object owns -/
structure Inst where
  cap : Nat                 -- the grammar's own cap (`perGrammar` design); unused otherwise
  tuner : Option Tuner      -- `Fandango.adaptive_tuner` once a population was initialised
  iter : Nat                -- `Repetition.iteration` of the instance's open-ended repetition node
  parserCap : Nat           -- depth to which `{n,}` was unrolled when the parser was built
  deriving Repr, DecidableEq

structure World where
  gcap : Nat                -- the module global
  inst : Nat → Inst

inductive Act where
  | newInstance                          -- `Fandango(spec)`: fresh nodes, `Parser(rules)`
  | initPopulation (s : Settings)        -- `init_population(**settings)`: creates the tuner
  | generation (prev cur avgDiv : Dy)    -- tail of one `_generate_simple` iteration
  | resetTuner                           -- `_generate_io`: `reset_parameters(); set_max_repetition(..)`
  | fuzzOne                              -- `Repetition.fuzz`: `randint(min, self.max)`, iteration += 1
  | buildParser                          -- `Grammar.update_parser()` / `update()`
  | parse (n : Nat)                      -- `<x>{m,}` against `n ≥ m` items
  | getCap                               -- `grammar.get_max_repetition()`
  deriving Repr, DecidableEq

structure Op where
  inst : Nat
  act : Act
  deriving Repr, DecidableEq

/-- what an operation lets its caller see -/
inductive Out where
  | fuzz (hi tag : Nat)      -- upper end of the `randint` range; the iteration tag put on the children
  | parse (accepted : Bool)
  | cap (c : Nat)
  deriving Repr, DecidableEq

def rd (loc : CapLoc) (g : Nat) (s : Inst) : Nat :=
  match loc with
  | .moduleGlobal => g
  | .perGrammar => s.cap

def wr (loc : CapLoc) (g : Nat) (s : Inst) (c : Nat) : Nat × Inst :=
  match loc with
  | .moduleGlobal => (c, s)
  | .perGrammar => (g, { s with cap := c })

/-- `Fandango(spec)` starts from a fresh instance whose own cap is the library default -/
def prep (dflt : Nat) (s : Inst) : Act → Inst
  | .newInstance => { cap := dflt, tuner := none, iter := 0, parserCap := 0 }
  | _ => s

/-- does a parser that was built while the cap stood at `pc` accept `n` iterations under `{m,}` (`n ≥ m`)? -/
def accepts (cfg : Cfg) (pc n : Nat) : Bool :=
  match cfg.openParse with
  | .unbounded => true
  | .cappedAtBuild => decide (n ≤ pc)

/-- the effect of one operation on the instance's own state, given the cap `capNow` it reads:
    (new own state before any cap write, the value it passes to `set_max_repetition` if any, output) -/
def actLocal (cfg : Cfg) (dset : Settings) (capNow : Nat) (s : Inst) : Act → Inst × Option Nat × Option Out
  | .newInstance =>
    -- Parser(rules): the helper rules of `{n,}` are unrolled up to the cap that is read now
    ({ s with parserCap := capNow }, none, none)
  | .initPopulation st => ({ s with tuner := some (Tuner.create st capNow) }, none, none)
  | .generation prev cur avgDiv =>
    -- generate_solutions() initialises a population with default settings when there is none
    let t := match s.tuner with
      | some t => t
      | none => Tuner.create dset capNow
    -- current_max_repetitions = get_max_repetition(); update_parameters(..);
    -- if tuner.current_max_repetition > current_max_repetitions: set_max_repetition(..)
    let t' := t.update cfg prev cur avgDiv
    ({ s with tuner := some t' }, if t'.curRep > capNow then some t'.curRep else none, none)
  | .resetTuner =>
    match s.tuner with
    | none => (s, none, none)
    | some t => ({ s with tuner := some t.reset }, some t.reset.curRep, none)
  | .fuzzOne => ({ s with iter := s.iter + 1 }, none, some (.fuzz capNow (s.iter + 1)))
  | .buildParser => ({ s with parserCap := capNow }, none, none)
  | .parse n => (s, none, some (.parse (accepts cfg s.parserCap n)))
  | .getCap => (s, none, some (.cap capNow))

/-- one operation on one instance: (module global, the instance) ↦ (module global', instance', output) -/
def stepInst (loc : CapLoc) (cfg : Cfg) (dflt : Nat) (dset : Settings) (g : Nat) (s : Inst) (a : Act) :
    Nat × Inst × Option Out :=
  let s0 := prep dflt s a
  let r := actLocal cfg dset (rd loc g s0) s0 a
  match r.2.1 with
  | some c => ((wr loc g r.1 c).1, (wr loc g r.1 c).2, r.2.2)
  | none => (g, r.1, r.2.2)

def setInst (f : Nat → Inst) (i : Nat) (s : Inst) : Nat → Inst := fun j => if j = i then s else f j

def step (loc : CapLoc) (cfg : Cfg) (dflt : Nat) (dset : Settings) (w : World) (op : Op) :
    World × Option Out :=
  let r := stepInst loc cfg dflt dset w.gcap (w.inst op.inst) op.act
  ({ gcap := r.1, inst := setInst w.inst op.inst r.2.1 }, r.2.2)

/-- run a history; outputs are labelled with the instance that produced them -/
def run (loc : CapLoc) (cfg : Cfg) (dflt : Nat) (dset : Settings) :
    World → List Op → World × List (Nat × Out)
  | w, [] => (w, [])
  | w, op :: ops =>
    let r := step loc cfg dflt dset w op
    let rest := run loc cfg dflt dset r.1 ops
    (rest.1, match r.2 with
      | some o => (op.inst, o) :: rest.2
      | none => rest.2)

/-- everything instance `b` let its callers see -/
def obs (b : Nat) (outs : List (Nat × Out)) : List Out :=
  outs.filterMap (fun p => if p.1 = b then some p.2 else none)

/-- a fresh process: the module global holds the library default, no instance exists yet -/
def World.fresh (dflt : Nat) : World :=
  { gcap := dflt, inst := fun _ => { cap := dflt, tuner := none, iter := 0, parserCap := dflt } }

/-! ## 4. iteration tags -/

/-- what the code does with iteration tags (`group_by_repetition_id`, `_insert/_delete_repetitions`,
    `find_by_origin`): equality tests and grouping in order of first appearance.  The canonical form of
    a tag sequence under that use: every tag replaced by the position of its first occurrence. -/
def firstIdx (x : Nat) : List Nat → Nat
  | [] => 0
  | y :: ys => if y = x then 0 else firstIdx x ys + 1

def tagPattern (l : List Nat) : List Nat := l.map (fun x => firstIdx x l)

/-- the tags of `n` consecutive `fuzz` calls on a node whose counter stands at `c` -/
def tagsFrom (c : Nat) : Nat → List Nat
  | 0 => []
  | n + 1 => (c + 1) :: tagsFrom (c + 1) n

end FV.Env
