/-
E2 / grammar IR, the specification of "children spell out one expansion of the rule", and the
executable matcher (Brzozowski derivatives over the child-token alphabet).

Mirrors `src/fandango/language/grammar/nodes/*.py`: `Alternative`, `Concatenation`,
`Repetition` (+ `Star`, `Plus`, `Option`), `NonTerminalNode`, `TerminalNode`.
Control-flow nodes are *collapsed* in derivation trees: the children of a nonterminal node are the
flat sequence of terminal / nonterminal nodes produced by one expansion of its rule.

Regular expressions are an oracle parameter `R : Nat → Leaf → Bool` ("the leaf is a full match of
regex terminal #id"), supplied per run from CPython `re` and recorded in the trusted base.
-/
import Model.Tree
namespace FV

inductive Term where
  | lit (l : Leaf)
  | regex (id : Nat)
  deriving DecidableEq, Repr

/-- which concrete class a repetition is (only matters for printing) -/
inductive RepKind where
  | braces | star | plus | opt
  deriving DecidableEq, Repr

inductive Node where
  | term (t : Term)
  | nt (name : String) (sender recipient : Option String)
  | alt (id : String) (ns : List Node)
  | cat (id : String) (ns : List Node)
  /-- `max = none`: open-ended (`*`, `+`, `{n,}`) -/
  | rep (id : String) (kind : RepKind) (n : Node) (min : Nat) (max : Option Nat)
  deriving Repr

/-- child tokens: what a nonterminal's rule sees of a child node -/
inductive Tok where
  | leaf (l : Leaf)
  | ntk (name : String)
  deriving DecidableEq, Repr

abbrev RegexOracle := Nat → Leaf → Bool

def termOk (R : RegexOracle) : Term → Tok → Bool
  | .lit l, .leaf l' => decide (l = l')
  | .regex id, .leaf l' => R id l'
  | _, .ntk _ => false

/-- `min ≤ k ≤ max` with `none` = unbounded -/
def inBounds (min : Nat) (max : Option Nat) (k : Nat) : Prop :=
  min ≤ k ∧ ∀ mx, max = some mx → k ≤ mx

instance (min : Nat) (max : Option Nat) (k : Nat) : Decidable (inBounds min max k) := by
  unfold inBounds
  cases max with
  | none => exact decidable_of_iff (min ≤ k) (by simp)
  | some mx => exact decidable_of_iff (min ≤ k ∧ k ≤ mx) (by simp)

/-- `k` iterations of `P`, concatenated -/
def RepOf (P : List Tok → Prop) : Nat → List Tok → Prop
  | 0, w => w = []
  | k + 1, w => ∃ w1 w2, w = w1 ++ w2 ∧ P w1 ∧ RepOf P k w2

/-! ### specification: the token sequences an IR node expands to -/

mutual
def Matches (R : RegexOracle) : Node → List Tok → Prop
  | .term t, w => ∃ tok, w = [tok] ∧ termOk R t tok = true
  | .nt name _ _, w => w = [.ntk name]
  | .alt _ ns, w => MatchesAny R ns w
  | .cat _ ns, w => MatchesCat R ns w
  | .rep _ _ n min max, w => ∃ k, inBounds min max k ∧ RepOf (fun v => Matches R n v) k w
def MatchesAny (R : RegexOracle) : List Node → List Tok → Prop
  | [], _ => False
  | n :: ns, w => Matches R n w ∨ MatchesAny R ns w
def MatchesCat (R : RegexOracle) : List Node → List Tok → Prop
  | [], w => w = []
  | n :: ns, w => ∃ w1 w2, w = w1 ++ w2 ∧ Matches R n w1 ∧ MatchesCat R ns w2
end

/-! ### executable matcher -/

def Node.empty : Node := .alt "" []
def Node.eps : Node := .cat "" []

def boundsOk (min : Nat) : Option Nat → Bool
  | none => true
  | some mx => decide (min ≤ mx)

mutual
def nullable : Node → Bool
  | .term _ => false
  | .nt _ _ _ => false
  | .alt _ ns => nullableAny ns
  | .cat _ ns => nullableAll ns
  | .rep _ _ n min max => boundsOk min max && (min == 0 || nullable n)
def nullableAny : List Node → Bool
  | [] => false
  | n :: ns => nullable n || nullableAny ns
def nullableAll : List Node → Bool
  | [] => true
  | n :: ns => nullable n && nullableAll ns
end

def predMax : Option Nat → Option Nat
  | none => none
  | some mx => some (mx - 1)

mutual
/-- Brzozowski derivative with respect to one child token -/
def deriv (R : RegexOracle) : Node → Tok → Node
  | .term t, tok => if termOk R t tok then Node.eps else Node.empty
  | .nt name _ _, tok =>
    match tok with
    | .ntk n => if n = name then Node.eps else Node.empty
    | .leaf _ => Node.empty
  | .alt id ns, tok => .alt id (derivAlt R ns tok)
  | .cat _ ns, tok => derivCat R ns tok
  | .rep id kind n min max, tok =>
    if boundsOk min max && (max != some 0) then
      .cat id [deriv R n tok, .rep id kind n (min - 1) (predMax max)]
    else Node.empty
def derivAlt (R : RegexOracle) : List Node → Tok → List Node
  | [], _ => []
  | n :: ns, tok => deriv R n tok :: derivAlt R ns tok
def derivCat (R : RegexOracle) : List Node → Tok → Node
  | [], _ => Node.empty
  | n :: ns, tok =>
    if nullable n then .alt "" [.cat "" (deriv R n tok :: ns), derivCat R ns tok]
    else .cat "" (deriv R n tok :: ns)
end

/-- does the token sequence spell out one expansion of the node? -/
def matchIR (R : RegexOracle) (n : Node) (ts : List Tok) : Bool :=
  nullable (ts.foldl (deriv R) n)

/-! ### grammars and derivation trees -/

structure Grammar where
  rules : List (String × Node)
  deriving Repr

def Grammar.rule (G : Grammar) (s : String) : Option Node :=
  match G.rules.find? (fun p => p.1 == s) with
  | some p => some p.2
  | none => none

def tokOf : Tree → Option Tok
  | .mk (.term l) _ _ _ => some (.leaf l)
  | .mk (.nt n) _ _ _ => some (.ntk n)
  | .mk .slice _ _ _ => none

def toksOf : List Tree → Option (List Tok)
  | [] => some []
  | t :: ts =>
    match tokOf t, toksOf ts with
    | some a, some b => some (a :: b)
    | _, _ => none

mutual
/-- the tree is a derivation of the grammar: every inner node's children spell out one expansion
    of that node's rule (every repetition count within its declared bounds), leaves are childless -/
def Valid (G : Grammar) (R : RegexOracle) : Tree → Prop
  | .mk (.term _) _ _ kids => kids = []
  | .mk (.nt s) _ _ kids =>
    (∃ body toks, G.rule s = some body ∧ toksOf kids = some toks ∧ Matches R body toks)
      ∧ ValidL G R kids
  | .mk .slice _ _ _ => False
def ValidL (G : Grammar) (R : RegexOracle) : List Tree → Prop
  | [] => True
  | t :: ts => Valid G R t ∧ ValidL G R ts
end

mutual
/-- the verified derivation checker -/
def validB (G : Grammar) (R : RegexOracle) : Tree → Bool
  | .mk (.term _) _ _ kids => kids.isEmpty
  | .mk (.nt s) _ _ kids =>
    (match G.rule s, toksOf kids with
     | some body, some toks => matchIR R body toks
     | _, _ => false)
      && validLB G R kids
  | .mk .slice _ _ _ => false
def validLB (G : Grammar) (R : RegexOracle) : List Tree → Bool
  | [] => true
  | t :: ts => validB G R t && validLB G R ts
end

mutual
/-- path (child indices) to the first node whose children match no expansion of its rule -/
def firstBad (G : Grammar) (R : RegexOracle) : Tree → Option (List Nat)
  | .mk (.term _) _ _ kids => if kids.isEmpty then none else some []
  | .mk (.nt s) _ _ kids =>
    let here := match G.rule s, toksOf kids with
      | some body, some toks => matchIR R body toks
      | _, _ => false
    if here then firstBadL G R kids 0 else some []
  | .mk .slice _ _ _ => some []
def firstBadL (G : Grammar) (R : RegexOracle) : List Tree → Nat → Option (List Nat)
  | [], _ => none
  | t :: ts, i =>
    match firstBad G R t with
    | some p => some (i :: p)
    | none => firstBadL G R ts (i + 1)
end

/-- the language of a nonterminal, as serialised values of its derivation trees -/
def Lang (G : Grammar) (R : RegexOracle) (s : String) (v : TV) : Prop :=
  ∃ a r kids, Valid G R (.mk (.nt s) a r kids) ∧ (Tree.mk (.nt s) a r kids).value = .ok v

end FV
