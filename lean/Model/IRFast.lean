/-
E2 / a derivative matcher that keeps its derivatives in a normal form.

`Model/IR.lean`'s `matchIR` builds raw Brzozowski derivatives; on nested repetitions such as `("("+)+`
their size doubles with every child token (20 children: 8 s, 24: > 30 s), and generated trees routinely
have 20+ children per node.  Here every derivative is rebuilt with smart constructors (`mkAlt`: flatten,
drop duplicates; `mkCat`: flatten, drop ε, collapse on ∅) so that the standard finiteness argument for
derivatives modulo associativity / idempotence applies.  `Proofs/IRFast.lean` proves
`matchFast R n ts = true ↔ Matches R n ts` and `validFast G R t = true ↔ Valid G R t` — the same
specification as `matchIR` / `validB`.
-/
import Model.IR
namespace FV

mutual
/-- syntactic equality of IR nodes (sound: `true` only for equal nodes) -/
def Node.beq : Node → Node → Bool
  | .term t, .term t' => decide (t = t')
  | .nt a s r, .nt a' s' r' => decide (a = a') && decide (s = s') && decide (r = r')
  | .alt i ns, .alt i' ns' => decide (i = i') && Node.beqL ns ns'
  | .cat i ns, .cat i' ns' => decide (i = i') && Node.beqL ns ns'
  | .rep i k n mn mx, .rep i' k' n' mn' mx' =>
    decide (i = i') && decide (k = k') && Node.beq n n' && decide (mn = mn') && decide (mx = mx')
  | _, _ => false
def Node.beqL : List Node → List Node → Bool
  | [], [] => true
  | n :: ns, m :: ms => Node.beq n m && Node.beqL ns ms
  | _, _ => false
end

def dedupNodes : List Node → List Node
  | [] => []
  | n :: ns =>
    let rest := dedupNodes ns
    if rest.any (fun m => Node.beq n m) then rest else n :: rest

def altParts : Node → List Node
  | .alt _ ms => ms
  | m => [m]

def catParts : Node → List Node
  | .cat _ ms => ms
  | m => [m]

def isEmptyNode : Node → Bool
  | .alt _ [] => true
  | _ => false

/-- alternative of already normalised nodes: one level of flattening (∅ disappears), no duplicates -/
def mkAlt (ns : List Node) : Node :=
  match dedupNodes (ns.flatMap altParts) with
  | [n] => n
  | ms => .alt "" ms

/-- concatenation of already normalised nodes: one level of flattening (ε disappears), ∅ absorbs -/
def mkCat (ns : List Node) : Node :=
  let flat := ns.flatMap catParts
  if flat.any isEmptyNode then Node.empty
  else match flat with
    | [n] => n
    | ms => .cat "" ms

mutual
/-- Brzozowski derivative, normalised -/
def derivN (R : RegexOracle) : Node → Tok → Node
  | .term t, tok => if termOk R t tok then Node.eps else Node.empty
  | .nt name _ _, tok =>
    match tok with
    | .ntk n => if n = name then Node.eps else Node.empty
    | .leaf _ => Node.empty
  | .alt _ ns, tok => mkAlt (derivNAlt R ns tok)
  | .cat _ ns, tok => derivNCat R ns tok
  | .rep id kind n min max, tok =>
    if boundsOk min max && (max != some 0) then
      mkCat [derivN R n tok, .rep id kind n (min - 1) (predMax max)]
    else Node.empty
def derivNAlt (R : RegexOracle) : List Node → Tok → List Node
  | [], _ => []
  | n :: ns, tok => derivN R n tok :: derivNAlt R ns tok
def derivNCat (R : RegexOracle) : List Node → Tok → Node
  | [], _ => Node.empty
  | n :: ns, tok =>
    if nullable n then mkAlt [mkCat (derivN R n tok :: ns), derivNCat R ns tok]
    else mkCat (derivN R n tok :: ns)
end

/-- does the token sequence spell out one expansion of the node? (same specification as `matchIR`) -/
def matchFast (R : RegexOracle) (n : Node) (ts : List Tok) : Bool :=
  nullable (ts.foldl (derivN R) n)

mutual
/-- the derivation checker, on `matchFast` -/
def validFast (G : Grammar) (R : RegexOracle) : Tree → Bool
  | .mk (.term _) _ _ kids => kids.isEmpty
  | .mk (.nt s) _ _ kids =>
    (match G.rule s, toksOf kids with
     | some body, some toks => matchFast R body toks
     | _, _ => false)
      && validFastL G R kids
  | .mk .slice _ _ _ => false
def validFastL (G : Grammar) (R : RegexOracle) : List Tree → Bool
  | [] => true
  | t :: ts => validFast G R t && validFastL G R ts
end

mutual
/-- path to the first node whose children match no expansion of its rule -/
def firstBadFast (G : Grammar) (R : RegexOracle) : Tree → Option (List Nat)
  | .mk (.term _) _ _ kids => if kids.isEmpty then none else some []
  | .mk (.nt s) _ _ kids =>
    let here := match G.rule s, toksOf kids with
      | some body, some toks => matchFast R body toks
      | _, _ => false
    if here then firstBadFastL G R kids 0 else some []
  | .mk .slice _ _ _ => some []
def firstBadFastL (G : Grammar) (R : RegexOracle) : List Tree → Nat → Option (List Nat)
  | [], _ => none
  | t :: ts, i =>
    match firstBadFast G R t with
    | some p => some (i :: p)
    | none => firstBadFastL G R ts (i + 1)
end

end FV
