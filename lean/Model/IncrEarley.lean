/-
E3 / the incremental parser with the REAL predict / complete closure: `Incr.Engine` instantiated from the
Earley model (`Model/Earley.lean`, the line-by-line model of `IterativeParser.predict` / `complete` /
the pending completions that end `predict` / the covering cut / `place_repetition_shortcut`).

`Model/Incremental.lean` models the scanner layer of `IterativeParser._consume` over an abstract closure
`Engine.close : earlier columns → same-column scanner → seed → closed column`.  Here that closure is the
worklist pass `for state in table[k]` of the code as it is (`Variant.now`: admission by core item +
children, the covering cut of 73e5ffe3, the completing `predict` of 1d73281f), with the scanning branch
replaced by the same-column scanner the scanner layer hands in:

  * a column of the incremental model is a list of `Entry KI` (`KI` = core item + children); its
    ordinary entries are the `St`s of an `Earley.Col` (`toCol`: `states` in list order, `dots` = the
    unfinished ones, what `Column.add` keeps), the incomplete entries (`is_incomplete`) are kept beside
    it (`CM.incs`): they have a terminal after the dot, so `predict` / `complete` / `find_dot` never
    see them; they are only scanned
  * one step (`cstep`): a finished state or a state with a nonterminal after the dot, an active
    `complete` frame, a pending completion of `predict` → **`Earley.step` itself** (configuration
    `cfgAt`: policy and `predDone` of `Variant.now`, no scanner, the current column is the last one);
    a state with a terminal after the dot → the same-column scanner `f` on it, ordinary results are
    `Column.add`ed to the column (they inherit the covering of the scanned state, `state.next()`),
    incomplete results are parked; when the ordinary worklist is exhausted the next incomplete state is
    scanned (the code scans it where it stands in the column; what it adds to its own column is, for
    the scanners of the code, the state itself — `Proofs/Incremental.lean: epsScan_inc_self`)
  * when nothing is left, `place_repetition_shortcut` (`Earley.shortcut`) is applied to the column
  * covers (`ParseState._covering`) are labelled with the column they were computed in and only ever
    read with that label (`covering(k)`): they do not leave the pass (`KI` has no cover)
  * `can_continue`: the same pass without `predict` (no alternatives, no pending completions), without
    scanning and without the shortcut (`completeOnly`)

The pass is run with fuel; `CloseRes` records whether it came to its end (`halted`), whether the covering
cut fired (`cut`) and whether a `*` / `+` right-recursion state is alive in the closed column
(`beginners`: then `place_repetition_shortcut` may rewrite a state).  The laws the chunking theorems need
(`Proofs/IncrEarleyLaws.lean`) are proved for the passes with `halted ∧ ¬cut ∧ ¬beginners` (`closeOk`).
No Mathlib: linked into `drv_incr`.
-/
import Model.Earley
import Model.Incremental
namespace FV
namespace IncrE
open Earley Incr

/-- core item + children: what `ParseState.__hash__` / `__eq__` identify a state by -/
structure KI where
  item : Item
  kids : List PT

def KI.ofSt (s : St) : KI := ⟨s.item, s.kids⟩
def KI.toSt (i : KI) (cover : Option (Nat × List NT)) : St := { item := i.item, kids := i.kids, cover := cover }

def KI.beq (a b : KI) : Bool := decide (a.item = b.item) && PT.beqL a.kids b.kids

/-- same state as far as `Column.add` can tell (an incomplete state carries its partial terminal as last
    child: flag, index and prefix are part of its identity) -/
def entryBeq (a b : Entry KI) : Bool :=
  KI.beq a.item b.item && (a.inc == b.inc) && (a.idx == b.idx) && (a.pre == b.pre)

/-- a terminal of the compiled grammar as the scanners see it -/
def ttermOf : Term → TTerm
  | .lit (.text s) => .lit s
  | .lit (.bytes b) => .lit (b.map (·.val))
  | .lit (.bit b) => .bit b
  | .regex id => .regex id

/-- the terminal after the dot -/
def wantOf (i : KI) : Option TTerm :=
  match i.item.sym? with
  | some (.t tm) => some (ttermOf tm)
  | _ => none

/-- the ordinary entries of a column as an `Earley.Col` -/
def toCol (c : Incr.Col KI) : Earley.Col :=
  let sts := (c.filter (fun e => !e.inc)).map (fun e => e.item.toSt none)
  { states := sts, dots := sts.filter (fun s => s.item.sym?.isSome) }

/-- the machine of one column pass -/
structure CM where
  /-- `cols` = the earlier columns and the current one (`k` = its index); `idx` / `frame` / `pending` as in `Earley.M` -/
  m : M
  /-- the incomplete states of the column -/
  incs : List (Entry KI) := []
  /-- next incomplete state to scan -/
  iidx : Nat := 0
  /-- the covering cut fired (`if derivation in covering: return` of `complete`) -/
  cut : Bool := false

/-- the configuration `Earley.step` runs under inside a pass over column `k`: the code as it is
    (`Variant.now`), no scanner (terminals are intercepted), column `k` is the last one -/
def cfgAt (pred : Nat → NT → List (List ESym)) (predDone : Bool) (k : Nat) : Cfg :=
  { rules := [], pred := pred, scan := fun _ _ => none, ncols := k + 1, policy := Variant.now.policy,
    start := "", predDone := predDone && Variant.now.predDone }

def addInc (incs : List (Entry KI)) (e : Entry KI) : List (Entry KI) :=
  if incs.any (fun x => entryBeq x e) then incs else incs ++ [e]

/-- `table[k + 0].add(…)` for everything the scanner adds to the column that is being processed -/
def addOuts (p : Policy) (cover : Option (Nat × List NT)) (x : CM) (outs : List (Entry KI)) : CM :=
  outs.foldl (fun x o =>
    if o.inc then { x with incs := addInc x.incs o }
    else { x with m := { x.m with cols := addAt p x.m.cols x.m.k (o.item.toSt cover) } }) x

/-- does the step `Earley.step c m` take the `return` of the covering cut? -/
def cutNow (c : Cfg) (m : M) : Bool :=
  match m.frame with
  | some _ => false
  | none =>
    match m.pending with
    | t :: _ => cyclicAt c.policy m.k t
    | [] =>
      match (colAt m.cols m.k).states[m.idx]? with
      | some s => s.item.finished && cyclicAt c.policy m.k s
      | none => false

def wantsTerminal (s : St) : Bool :=
  !s.item.finished && (match s.item.sym? with | some (.t _) => true | _ => false)

/-- one step of the pass; `none` = nothing left to do -/
def cstep (c : Cfg) (f : Entry KI → List (Entry KI)) (x : CM) : Option CM :=
  let m := x.m
  let delegate : Option CM :=
    match step c m with
    | .next m' => some { x with m := m', cut := x.cut || cutNow c m }
    | _ => none
  match m.frame, m.pending with
  | none, [] =>
    match (colAt m.cols m.k).states[m.idx]? with
    | none =>
      match x.incs[x.iidx]? with
      | none => none
      | some e => some (addOuts c.policy none { x with iidx := x.iidx + 1 } (f e))
    | some s =>
      if wantsTerminal s then
        some (addOuts c.policy s.cover { x with m := { m with idx := m.idx + 1 } } (f (Entry.fresh (KI.ofSt s))))
      else delegate
  | _, _ => delegate

/-- run the pass; the flag says whether it came to its end within the fuel -/
def crun (c : Cfg) (f : Entry KI → List (Entry KI)) : Nat → CM → CM × Bool
  | 0, x => (x, (cstep c f x).isNone)
  | n + 1, x =>
    match cstep c f x with
    | some x' => crun c f n x'
    | none => (x, true)

/-- the start of a pass: the earlier columns, the ordinary seeds `Column.add`ed one by one, the
    incomplete seeds beside them -/
def cinit (p : Policy) (d : List (Incr.Col KI)) (seed : Incr.Col KI) : CM :=
  let k := d.length
  let cur : Earley.Col := (seed.filter (fun e => !e.inc)).foldl (fun col e => Col.add p col (e.item.toSt none)) {}
  { m := { cols := d.map toCol ++ [cur], k := k },
    incs := (seed.filter (fun e => e.inc)).foldl addInc [] }

structure CloseRes where
  col : Incr.Col KI
  halted : Bool
  cut : Bool
  beginners : Bool

def colOut (col : Earley.Col) (incs : List (Entry KI)) : Incr.Col KI :=
  col.states.map (fun s => Entry.fresh (KI.ofSt s)) ++ incs

/-- the whole pass over one column -/
def closeRun (pred : Nat → NT → List (List ESym)) (full : Bool) (fuel : Nat) (d : List (Incr.Col KI))
    (f : Entry KI → List (Entry KI)) (seed : Incr.Col KI) : CloseRes :=
  let c := cfgAt pred full d.length
  let r := crun c f fuel (cinit c.policy d seed)
  let x := r.1
  let k := d.length
  let cols := if full then shortcut x.m.cols k else x.m.cols
  { col := colOut (colAt cols k) x.incs, halted := r.2, cut := x.cut,
    beginners := full && !(beginnersOf (colAt x.m.cols k)).isEmpty }

def CloseRes.ok (r : CloseRes) : Bool := r.halted && !r.cut && !r.beginners

/-- children of the finished `<*start*>` states, collapsed (`to_derivation_tree` + `collapse`) -/
def treesOf (c : Incr.Col KI) : List Tree :=
  (c.filter (fun e => !e.inc && e.item.item.finished && decide (e.item.item.lhs = NT.start))).flatMap
    (fun e => e.item.kids.flatMap collapse)

/-- **the engine of the real closure** (prediction order `pred`, `fuel` steps per column pass) -/
def earleyEngine (pred : Nat → NT → List (List ESym)) (fuel : Nat) : Engine KI where
  close := fun d f s => (closeRun pred true fuel d f s).col
  want := wantOf
  adv := fun i l => ⟨i.item.next, i.kids ++ [PT.leaf l]⟩
  finished := fun i => i.item.finished
  trees := treesOf
  completeOnly := fun d s => (closeRun (fun _ _ => []) false fuel d (fun _ => []) s).col

/-- `new_parse(start)` followed by the start state of the first `consume` -/
def startState (start : String) : PState KI := Incr.start ⟨startItem start, []⟩

/-! ### the passes of a run, and whether the laws apply to them -/

section runs
variable (pred : Nat → NT → List (List ESym)) (fuel : Nat) (R : ROracle) (md : Mode)

/-- the pass of `procCol` -/
def procRes (word : Units) (w : Nat) (s : PState KI) : CloseRes :=
  closeRun pred true fuel s.done
    (epsScan (earleyEngine pred fuel) R md s.done.length (word.drop w) w word.length) (seedAt s.pend s.done.length)

/-- the pass of `lastCol` -/
def lastRes (s : PState KI) : CloseRes :=
  closeRun pred true fuel s.done (epsScan (earleyEngine pred fuel) R md s.done.length [] 0 0)
    (seedAt s.pend s.done.length)

/-- every pass of `feedFrom` is one the laws apply to -/
def feedFromOkB (word : Units) : Nat → Nat → PState KI → Bool
  | _, 0, _ => true
  | i, n + 1, s =>
    (procRes pred fuel R md word (i / 8) s).ok &&
      feedFromOkB word (i + 1) n (procCol (earleyEngine pred fuel) R md word (i / 8) s)

/-- every pass of `consume(word)` (its columns and the scan of the exhausted fragment) -/
def feedOkB (s : PState KI) (word : Units) : Bool :=
  feedFromOkB pred fuel R md word 0 (8 * word.length) s &&
    (lastRes pred fuel R md (feed (earleyEngine pred fuel) R md s word)).ok

/-- every pass of the runs the chunking theorem compares (`rs` = the pieces in reverse order; mirrors
    `Proofs/Incremental.lean: chunkOK`) -/
def chunkOkB (s : PState KI) : List Units → Bool
  | [] => true
  | p :: rs =>
    chunkOkB s rs && feedOkB pred fuel R md s rs.reverse.flatten &&
      feedOkB pred fuel R md s (rs.reverse.flatten ++ p) &&
      feedOkB pred fuel R md (feed (earleyEngine pred fuel) R md s rs.reverse.flatten) p &&
      feedOkB pred fuel R md (rs.reverse.foldl (feed (earleyEngine pred fuel) R md) s) p

/-- the two passes the `can_continue` theorem looks at: the first column of the continuation `v`, and the
    completion-only pass of `can_continue` itself -/
def ccOkB (s : PState KI) (v : Units) : Bool :=
  (procRes pred fuel R md v 0 s).ok &&
    (closeRun (fun _ _ => []) false fuel s.done (fun _ => []) (seedAt s.pend s.done.length)).ok

end runs

end IncrE
end FV
