/-
E3 / incremental parsing (`IterativeParser.new_parse` / `consume` / `can_continue`): the *scanner layer*.

What is modelled line by line (src/fandango/language/grammar/parser/iterative_parser.py):
  * `scan_bytes`  → `scanLit`    whole-literal scan when the literal fits into the fragment; otherwise an
                                 *incomplete* state (`is_incomplete`, `incomplete_idx`, matched prefix =
                                 `children[-1]`) parked in the last column of the fragment and re-scanned
                                 with `prefix ++ next fragment`
  * `scan_regex`  → `scanRegex`  one greedy `re.match` length (oracle `full`), the `regex` module's partial
                                 match (oracle `part`); for an INCOMPLETE state "a match that does not get
                                 past the remembered prefix is no match" (`state.is_incomplete and match and
                                 match_length <= prev_match_length`, 179bde08) — for a fresh state a match of
                                 length 0 IS a match, and its state goes to the column being processed
  * `scan_bit`    → `scanBit`    bit `7 - k % 8` of the current unit, next column `k + 1`; a unit above 0xFF
                                 (a character beyond Latin-1) has no bits (1ef12755)
  * table offsets: 8 columns per input unit (`table_idx_multiplier`), `(match_length - incomplete_idx) * 8`
  * `_consume`    → `scanEntry` / `procCol` / `feedFrom` / `feed`: a bit terminal is scanned in every column;
                    text, bytes and regex terminals only in columns `k % 8 == 0` (a33087ac: "in the middle of a
                    byte, only bits can follow"); columns are processed left to right, the word index is
                    `i / 8` for the `i`-th column of the fragment; what a scan adds to the column that is being
                    processed (empty literal, empty regex match, at the end of the fragment the parked state of
                    an empty partial match) is processed in the same pass (`epsScan`, handed to the closure);
                    the last column of a fragment is kept *unprocessed* (`self._table[-1] = deepcopy(table[-1])`),
                    processed once with the fragment exhausted (`at_end`, `lastCol`: the complete parses that
                    `consume` yields) and processed again from the unprocessed copy by the next `consume`
  * `can_continue` → `canContinue`

What is abstract: the predict/complete closure of one column (`complete`, `predict` incl. the completion of
already finished empty derivations of 1d73281f, the `covering` bookkeeping of 73e5ffe3, `predict_ctx_rule`,
`place_repetition_shortcut`; the rule sets incl. the right-recursive tail of `{n,}` of b48dd899) is the parameter
`Engine.close : earlier closed columns → same-column scanner → seed → closed column` (the worklist loop
`for state in table[k]` calls the scanner on every state it visits and visits what the scanner adds to `table[k]`),
together with `want` (terminal after the dot), `adv` (move the dot over a scanned leaf), `trees` (children of
finished `<*start*>` items) and `completeOnly` (the completion-only closure `can_continue` runs).  The laws the
theorems need of it are `Engine.LawfulOn` (Proofs/Incremental.lean).  `linEngine` is a concrete lawful instance
(grammars that are finite unions of terminal sequences); **`Model/IncrEarley.lean: earleyEngine` is the closure of the
parser as it is** (built from `Earley.step`; the laws are proved for the passes that end, without the covering cut
firing and without a live `*` / `+` state: `Proofs/IncrEarleyLaws.lean`); the driver runs both against the real parser.

Relation to `Model/Scan.lean` (C05): that file models ONE scan of a fresh state on a whole word (no incomplete
states, oracle indexed by word position) — the same three scanners restricted to `inc = false`, `rest` = the rest
of the whole word.  The guards are the same (`p % 8 = 0`, `cell ≤ 255`, empty match is a match); the types differ
(this file carries the remembered prefix and the parked states, which C05 does not need), so it is not imported.

Input units: code points of a `str` fragment or byte values of a `bytes` fragment (`Terminal.check` compares a
text literal with `bytes` input through Latin-1, i.e. unit by unit).  Only `starter_bit = -1` (the default of
`new_parse`) is modelled.  Column deduplication (`Column.add`) is modelled by reading columns as sets.
No imports beyond the tree model: this file is linked into the driver executable.
-/
import Model.Tree
namespace FV
namespace Incr

abbrev Units := List Nat

/-- the type of the fragments fed to `consume` (decides the kind of the leaves that are built:
    `Terminal(check_word[:match_length])`) -/
inductive Mode where
  | text | bytes
  deriving DecidableEq, Repr

def mkLeaf : Mode → Units → Leaf
  | .text, u => .text u
  | .bytes, u => .bytes (u.map mkByte)

/-- a terminal as the scanners see it -/
inductive TTerm where
  /-- text or bytes literal, as the unit sequence `Terminal.check` compares -/
  | lit (units : Units)
  | regex (id : Nat)
  | bit (b : Bool)
  deriving DecidableEq, Repr

/-- the regular-expression oracle: `full r w` = `Terminal.check(w)` (length of `re.match(r, w).group(0)`),
    `part r w` = `Terminal.check(w, incomplete=True)` (the `regex` module with `partial=True`) -/
structure ROracle where
  full : Nat → Units → Option Nat
  part : Nat → Units → Option Nat

/-- a parse state as far as scanning is concerned: the Earley item (abstract), `is_incomplete`,
    `incomplete_idx`, and the value of the partially matched terminal (`children[-1]` of an incomplete state) -/
structure Entry (ι : Type) where
  item : ι
  inc : Bool
  idx : Nat
  pre : Units
  deriving DecidableEq, Repr

def Entry.fresh {ι : Type} (i : ι) : Entry ι := ⟨i, false, 0, []⟩

/-- the code shapes of the scanners that `harness/translate_incr.py` reads from the source on every run
    (`Generated/Incr.lean`); the definitions below are written for `ScanCfg.modelled` -/
structure ScanCfg where
  /-- `scan_regex`: `match_length <= prev_match_length` discards a match of an incomplete state only (179bde08) -/
  emptyMatchIsMatch : Bool
  /-- `_consume`: text, bytes and regex terminals are scanned in columns `k % 8 == 0` only (a33087ac) -/
  byteBoundaryGuard : Bool
  /-- `scan_bit`: a unit above 0xFF has no bits (1ef12755) -/
  bitRefusesWide : Bool
  deriving DecidableEq, Repr

def ScanCfg.modelled : ScanCfg := ⟨true, true, true⟩

section scanners
variable {ι : Type}

/-- `check_word`: the rest of the fragment, preceded by the remembered prefix of an incomplete state -/
def checkWord (e : Entry ι) (rest : Units) : Units :=
  if e.inc then e.pre ++ rest else rest

/-- `scan_bytes(state, word, table, k, w)`; `rest = word[w:]`, `len = len(word)`.
    Result: (target column, new state) pairs. -/
def scanLit (adv : ι → Leaf → ι) (md : Mode) (lit : Units) (k : Nat) (e : Entry ι)
    (rest : Units) (w len : Nat) : List (Nat × Entry ι) :=
  let cw := checkWord e rest
  if lit <+: cw then
    -- full match: `state.next()`, flags reset, leaf = `check_word[:match_length]`
    [(k + (lit.length - e.idx) * 8, ⟨adv e.item (mkLeaf md (cw.take lit.length)), false, 0, []⟩)]
  else if w + lit.length - e.idx < len then []
  else if cw <+: lit ∧ cw.length ≠ 0 then
    -- `check(check_word, incomplete=True)`: the available input is a prefix of the literal
    [(k + (cw.length - e.idx) * 8, ⟨e.item, true, cw.length, cw.take cw.length⟩)]
  else []

/-- `scan_regex(state, word, table, k, w, mode)` -/
def scanRegex (R : ROracle) (adv : ι → Leaf → ι) (md : Mode) (r : Nat) (k : Nat) (e : Entry ι)
    (rest : Units) (w len : Nat) : List (Nat × Entry ι) :=
  let cw := checkWord e rest
  let prevLen := if e.inc then e.pre.length else 0
  let fm := R.full r cw
  let tableOffset := fm.getD 0
  -- `if state.is_incomplete and match and match_length <= prev_match_length: match = False`
  let mtch : Option Nat := match fm with
    | some m => if e.inc && decide (m ≤ prevLen) then none else some m
    | none => none
  let pm := R.part r cw
  if mtch.isNone && (pm.isNone || decide (pm.getD 0 + w < len)) then []
  else
    (match mtch with
     | some m => [(k + (tableOffset - e.idx) * 8, ⟨adv e.item (mkLeaf md (cw.take m)), false, 0, []⟩)]
     | none => []) ++
    (match pm with
     | some q => [(k + (q - e.idx) * 8, ⟨e.item, true, q, cw.take q⟩)]
     | none => [])

/-- `scan_bit(state, word, table, k, w, bit_count)` with `bit_count = 7 - k % 8`;
    `if byte > 0xFF: return False`; `state.next()` keeps the flags of the state -/
def scanBit (adv : ι → Leaf → ι) (b : Bool) (k : Nat) (e : Entry ι) (rest : Units) :
    List (Nat × Entry ι) :=
  match rest.head? with
  | none => []
  | some unit =>
    if unit > 255 then []
    else
      let bit := (unit >>> (7 - k % 8)) % 2 == 1
      if bit == b then [(k + 1, ⟨adv e.item (.bit bit), e.inc, e.idx, e.pre⟩)] else []

end scanners

/-! ### the abstract chart engine -/

abbrev Col (ι : Type) := List (Entry ι)

structure Engine (ι : Type) where
  /-- the worklist pass over one column: earlier (closed) columns, what scanning a state adds to THIS column,
      seed ↦ closed column (closed under predict, complete and the same-column scanner) -/
  close : List (Col ι) → (Entry ι → List (Entry ι)) → Col ι → Col ι
  /-- the terminal after the dot, if the next symbol is a terminal -/
  want : ι → Option TTerm
  /-- move the dot over a scanned leaf -/
  adv : ι → Leaf → ι
  /-- `finished()` of the item (dot at the end) -/
  finished : ι → Bool
  /-- the complete parses a closed column holds (children of finished `<*start*>` items) -/
  trees : Col ι → List Tree
  /-- what `can_continue` computes on a copy of the last column: completion only, no prediction -/
  completeOnly : List (Col ι) → Col ι → Col ι

/-- parser state between two `consume` calls: the processed columns `0 … k-1` and everything scheduled for
    columns `≥ k`; after a `consume` all scheduled states sit in column `k` (the deep-copied last column) -/
structure PState (ι : Type) where
  done : List (Col ι)
  pend : List (Nat × Entry ι)

section run
variable {ι : Type} (eng : Engine ι) (R : ROracle) (md : Mode)

/-- the scanning branch of `_consume` for one state in column `k`: bits in every column,
    `elif curr_table_idx % 8 != 0: match = False`, else `scan_regex` / `scan_bytes` -/
def scanEntry (k : Nat) (e : Entry ι) (rest : Units) (w len : Nat) : List (Nat × Entry ι) :=
  match eng.want e.item with
  | none => []
  | some (.bit b) => scanBit eng.adv b k e rest
  | some (.regex r) => if k % 8 ≠ 0 then [] else scanRegex R eng.adv md r k e rest w len
  | some (.lit l) => if k % 8 ≠ 0 then [] else scanLit eng.adv md l k e rest w len

def scanCol (col : Col ι) (k : Nat) (word : Units) (w : Nat) : List (Nat × Entry ι) :=
  col.flatMap (fun e => scanEntry eng R md k e (word.drop w) w word.length)

/-- the states among `outs` that were added to column `k` itself -/
def sameCol (k : Nat) (outs : List (Nat × Entry ι)) : List (Entry ι) :=
  (outs.filter (fun p => p.1 == k)).map (·.2)

/-- what scanning `e` in column `k` adds to column `k`: `table[k + 0 * 8].add(next_state)` for a match of
    length 0 (and, with the fragment exhausted, for a partial match that adds nothing to the remembered prefix) -/
def epsScan (k : Nat) (rest : Units) (w len : Nat) (e : Entry ι) : List (Entry ι) :=
  sameCol k (scanEntry eng R md k e rest w len)

def seedAt (pend : List (Nat × Entry ι)) (k : Nat) : Col ι :=
  (pend.filter (fun p => p.1 == k)).map (·.2)

/-- process column `k = done.length` with the word index `w` -/
def procCol (word : Units) (w : Nat) (s : PState ι) : PState ι :=
  let k := s.done.length
  let col := eng.close s.done (epsScan eng R md k (word.drop w) w word.length) (seedAt s.pend k)
  ⟨s.done ++ [col], s.pend ++ scanCol eng R md col k word w⟩

/-- process `n` columns, the first of which is the `i`-th column of the fragment -/
def feedFrom (word : Units) : Nat → Nat → PState ι → PState ι
  | _, 0, s => s
  | i, n + 1, s => feedFrom word (i + 1) n (procCol eng R md word (i / 8) s)

/-- `consume(word)`: `8 * len(word)` columns are processed; the last column stays scheduled -/
def feed (s : PState ι) (word : Units) : PState ι :=
  feedFrom eng R md word 0 (8 * word.length) s

/-- the last column as `consume` processes it when the fragment is exhausted (`at_end`: nothing is left of the
    fragment, `w = len(word)`; the scanners only compare `w` with `len`, so `0 0` stands for `len len` —
    `Proofs/Incremental.lean: scanEntry_atEnd`) -/
def lastCol (s : PState ι) : Col ι :=
  eng.close s.done (epsScan eng R md s.done.length [] 0 0) (seedAt s.pend s.done.length)

/-- the complete parses `consume` yields for the last fragment -/
def completeParses (s : PState ι) : List Tree :=
  eng.trees (lastCol eng R md s)

/-- the resumable (incomplete-terminal) states waiting in the last column -/
def resumable (s : PState ι) : Col ι :=
  (seedAt s.pend s.done.length).filter (·.inc)

/-- `can_continue()` -/
def canContinue (s : PState ι) : Bool :=
  if s.done.isEmpty then true
  else (eng.completeOnly s.done (seedAt s.pend s.done.length)).any
    (fun e => e.inc || !eng.finished e.item)

/-- `new_parse()` followed by the start state the first `consume` adds -/
def start (i : ι) : PState ι := ⟨[], [(0, Entry.fresh i)]⟩

end run

/-! ### a concrete engine: finite unions of terminal sequences -/

structure LinItem where
  rest : List TTerm
  kids : List Leaf
  deriving DecidableEq, Repr

/-- strictly decreasing along every chain of same-column scans: an advanced item has a shorter rest, a parked
    state keeps the item and sets the flag -/
def linMeasure (e : Entry LinItem) : Nat := 2 * e.item.rest.length + (if e.inc then 0 else 1)

/-- everything the same-column scanner `f` reaches from `e` (fuel = `linMeasure e` is never exhausted) -/
def linReach (f : Entry LinItem → List (Entry LinItem)) : Nat → Entry LinItem → List (Entry LinItem)
  | 0, e => [e]
  | n + 1, e => e :: ((f e).filter (fun x => linMeasure x < linMeasure e)).flatMap (linReach f n)

def linEngine : Engine LinItem where
  close := fun _ f s => s.flatMap (fun e => linReach f (linMeasure e) e)
  want := fun i => i.rest.head?
  adv := fun i l => ⟨i.rest.tail, i.kids ++ [l]⟩
  finished := fun i => i.rest.isEmpty
  trees := fun c => (c.filter (fun e => !e.inc && e.item.rest.isEmpty)).map
    (fun e => Tree.node "<start>" (e.item.kids.map Tree.leaf))
  completeOnly := fun _ s => s

/-- `new_parse` for a union of terminal sequences -/
def linStart (alts : List (List TTerm)) : PState LinItem :=
  ⟨[], alts.map (fun a => (0, Entry.fresh ⟨a, []⟩))⟩

end Incr
end FV
