/-
E6 / C20 — the protocol run (`Fandango._generate_io`, `parse_next_remote_packet`, `FandangoIO`) as a
labelled transition system.  Import-free.

The model follows /repo AFTER the repairs 8c7aa85d ("remote data is selected, read and cleared by sender
and recipient") and bd6395f0 ("only a tree that extends the recorded interaction by one message is sent").
Which rule the source has at each of the four places those commits touched is a parameter (`Variant`);
harness/translate_iorun.py reads it off the current source and writes `Generated/IoRun.lean`; the theorems of
Props/C20.lean are stated for that generated variant.  `Variant.old` is the rule BEFORE the repairs; it is
kept only for the labelled OLD-RULE witnesses.

What is mirrored (src/fandango/…):
  io/__init__.py   FandangoIO.receive            `buffer : List Frag` — one entry per character/byte;
                   add_receive(sender, receiver, message) appends one fragment per character      (`addReceive`)
                   clear_by_party(party, to_idx, recipient=None): drop entries with
                   `sender == party and (recipient is None or receiver == recipient) and idx <= to_idx` (`clearByParty`)
                   transmit(sender, recipient, msg) → parties[sender].send(msg, recipient)          (`outbox`)
  io/packetparser.py
                   _find_next_fragment(sender, msgs, start, recipient=None): first index ≥ start with
                   `sender == role_sender and (role_recipient is None or recipient == role_recipient)` (`findNext`)
                   parse_next_remote_packet: wait until a buffered fragment's sender is in the forecast
                   (10 s → FandangoValueError "Unexpected party"); take the first such fragment's SENDER AND
                   RECIPIENT (msg_sender, msg_recipient);
                   available types = the forecast types of that sender whose packet names no recipient or
                   msg_recipient (`typesFor`; may be EMPTY — data delivered to a party the spec does not expect
                   it at); one IterativeParser per available type; `continue_parse = True` (`Ex.go`), then loop:
                   feed the next fragment OF THAT (sender, recipient) to every still-available type; a complete
                   parse is remembered with the fragment index; a type that cannot continue is dropped;
                   `continue_parse = len(available) > 0`; no further fragment within 1 s → stop (no complete
                   parse yet → FandangoFailedError); nothing complete → FandangoFailedError;
                   the parse with the largest fragment index wins (first in dict order on ties);
                   clear_by_party(msg_sender, that index, msg_recipient); the message carries the forecast
                   packet's sender and recipient
  evolution/algorithm.py _generate_io
                   fuzzer turn only when the selector offers a fuzzer-side packet and the buffer is empty; a
                   tree is generated; dropped if something was received meanwhile; dropped (`continue`) unless
                   `_extends_history(history_tree, next_tree)` — its protocol messages are those of the history
                   plus exactly one (`extendsB`); the new message is handed to party.send unless the recipient is
                   fuzzer-controlled, then the tree is the history;
                   otherwise wait for data (15 s → FandangoFailedError), extract, mount at a forecast path and
                   evaluate the constraints on the extended history: fitness ≠ 1 → FandangoParseError;
                   FandangoFailedError ends the run (the history so far is yielded), any other error
                   propagates out of the generator.
  navigation/packetforecaster.py ForecastingNonTerminals.add_packet: one packet per (sender, message type) —
                   the FIRST one added keeps `node` (later ones only add paths)                    (`optFor`)

What is abstract (oracles of `Spec`):
  forecast / done   PacketForecaster.predict on the history (C19 relates it to the grammar's continuations)
  complete / cont   the incremental parser of one message type after consuming a word:
                    "the first parse it yields is complete" / `can_continue()`.  That these are functions of
                    the CONCATENATED word — not of how it was cut into `consume` calls — is C13's statement.
  ok                the constraint verdict (fitness = 1.0) on history ++ [m]          (C02/C07)
  fuzzer            FandangoParty.is_fuzzer_controlled
  (of the fuzzer's turn) that the generated tree's new message comes from a fuzzer-controlled party, is offered
  by the forecast and satisfies the constraints is the generator's contract (C01/C02): `fuzzerTurn` is only
  enabled for such a candidate; that the tree EXTENDS the history is NOT assumed — the code checks it.

Not in the model: threads, sockets, wall-clock.  A time-out is an *event* (`silence`, `unexpected`,
`noMessage`) that the environment may fire whenever the code would be waiting.
-/
namespace FV
namespace Io

abbrev Party := String
abbrev Ty := String

/-- one entry of `FandangoIO.receive`: (sender, receiver, one character / byte) -/
structure Frag where
  sender : Party
  recipient : Party
  data : Nat
  deriving DecidableEq, Repr

/-- a protocol message of the history tree -/
structure Msg where
  sender : Party
  recipient : Option Party
  type : Ty
  payload : List Nat
  remote : Bool          -- parsed from remote data (true) / generated by Fandango (false)
  deriving DecidableEq, Repr

/-- one forecast option (`ForecastingPacket.node`) -/
structure Opt where
  sender : Party
  recipient : Option Party
  type : Ty
  deriving DecidableEq, Repr

def Msg.opt (m : Msg) : Opt := ⟨m.sender, m.recipient, m.type⟩

structure Spec where
  forecast : List Msg → List Opt
  done : List Msg → Bool
  fuzzer : Party → Bool
  complete : Ty → List Nat → Bool
  cont : Ty → List Nat → Bool
  ok : List Msg → Msg → Bool

/-- which rule the source has at the four places touched by 8c7aa85d / bd6395f0 -/
structure Variant where
  /-- `_find_next_fragment` compares the recipient and `parse_next_remote_packet` passes `msg_recipient` -/
  findByRecipient : Bool
  /-- `clear_by_party` compares the recipient and `parse_next_remote_packet` passes `msg_recipient` -/
  clearByRecipient : Bool
  /-- only message types addressed to `msg_recipient` (or to nobody in particular) are tried -/
  typesByRecipient : Bool
  /-- the fuzzer branch skips a tree that does not extend the history by exactly one message -/
  extendsGuard : Bool
  deriving DecidableEq, Repr

/-- the code as it is now -/
def Variant.current : Variant := ⟨true, true, true, true⟩
/-- the code BEFORE 8c7aa85d / bd6395f0 (sender-only filtering, unguarded send) -/
def Variant.old : Variant := ⟨false, false, false, false⟩

inductive Err where
  | noParse            -- FandangoFailedError "Could not parse received message fragments…"
  | timeoutFragment    -- FandangoFailedError "Timeout while waiting for next message fragment"
  | noMessage          -- FandangoFailedError "Timed out while waiting for message from remote party"
  | unexpectedParty    -- FandangoValueError  "Unexpected party sent message"
  | constraint         -- FandangoParseError  "Remote response does not match constraints"
  deriving DecidableEq, Repr

/-- the local state of one `parse_next_remote_packet` call -/
structure Ex where
  sender : Party                        -- msg_sender
  recipient : Party                     -- msg_recipient
  avail : List Ty                       -- available_non_terminals
  compl : List (Ty × Nat × List Nat)    -- complete_parses: type ↦ (fragment index, the parsed word)
  pos : Nat                             -- current_fragment_idx + 1
  word : List Nat                       -- what the parsers have consumed
  opts : List Opt                       -- the forecast the call was given (packet_selector.forecasting_result)
  go : Bool                             -- continue_parse
  deriving DecidableEq, Repr

structure State where
  history : List Msg
  buffer : List Frag
  outbox : List (Party × Option Party × Ty × List Nat)    -- calls party[sender].send(msg, recipient)
  failed : Option Err
  finished : Bool
  ex : Option Ex
  -- ghost state (not in the code): everything ever received, and what each extraction removed
  recvd : List Frag
  used : List (List Frag)
  rejected : Option Msg      -- the parsed remote message the constraints turned down (its data is consumed)
  deriving DecidableEq, Repr

def init : State := ⟨[], [], [], none, false, none, [], [], none⟩

/-! ### buffer operations -/

/-- `add_receive`: one fragment per character -/
def addReceive (s r : Party) (msg : List Nat) (buf : List Frag) : List Frag :=
  buf ++ msg.map (fun d => ⟨s, r, d⟩)

/-- the filter of `_find_next_fragment` and `clear_by_party`:
    `sender == party and (recipient is None or receiver == recipient)` -/
def sel (p : Party) (r : Option Party) (f : Frag) : Bool :=
  f.sender == p && (match r with | none => true | some q => f.recipient == q)

/-- the `recipient` argument a call site passes: `msg_recipient`, or nothing (the parameter's default `None`) -/
def rcp (b : Bool) (r : Party) : Option Party := if b then some r else none

/-- `_find_next_fragment`'s loop from index `i` over the remaining entries -/
def findGo (k : Frag → Bool) : Nat → List Frag → Option (Nat × Nat)
  | _, [] => none
  | i, f :: fs => if k f then some (i, f.data) else findGo k (i + 1) fs

def findNext (p : Party) (r : Option Party) (buf : List Frag) (start : Nat) : Option (Nat × Nat) :=
  findGo (sel p r) start (buf.drop start)

/-- `clear_by_party` (enumerate from `i`): what stays … -/
def clearGo (k : Frag → Bool) (to : Nat) : Nat → List Frag → List Frag
  | _, [] => []
  | i, f :: fs =>
    if k f = true ∧ i ≤ to then clearGo k to (i + 1) fs else f :: clearGo k to (i + 1) fs

/-- … and what is removed -/
def removedGo (k : Frag → Bool) (to : Nat) : Nat → List Frag → List Frag
  | _, [] => []
  | i, f :: fs =>
    if k f = true ∧ i ≤ to then f :: removedGo k to (i + 1) fs else removedGo k to (i + 1) fs

def clearByParty (p : Party) (to : Nat) (r : Option Party) (buf : List Frag) : List Frag :=
  clearGo (sel p r) to 0 buf
def removedByParty (p : Party) (to : Nat) (r : Option Party) (buf : List Frag) : List Frag :=
  removedGo (sel p r) to 0 buf

/-- the data of the selected fragments, in order -/
def streamBy (k : Frag → Bool) (l : List Frag) : List Nat := (l.filter k).map (·.data)

/-- the data a party has in a fragment list, in order (all recipients merged) -/
def streamOf (p : Party) (l : List Frag) : List Nat := streamBy (sel p none) l

/-- the data of one (sender, recipient) channel, in order -/
def chan (p q : Party) (l : List Frag) : List Nat := streamBy (sel p (some q)) l

/-! ### extraction -/

def partiesOf (opts : List Opt) : List Party := opts.map (·.sender)

/-- the first buffered fragment whose sender is in the forecast: its sender and its recipient -/
def pickFrag (opts : List Opt) (buf : List Frag) : Option (Party × Party) :=
  (buf.find? (fun f => (partiesOf opts).contains f.sender)).map (fun f => (f.sender, f.recipient))

/-- `forecast[sender][t]`: the first packet added for (sender, type) -/
def optFor (opts : List Opt) (p : Party) (t : Ty) : Option Opt :=
  opts.find? (fun o => o.sender = p ∧ o.type = t)

/-- `forecast_non_terminals[nt].node.recipient in (None, msg_recipient)` -/
def addressedTo (opts : List Opt) (p r : Party) (t : Ty) : Bool :=
  match optFor opts p t with
  | some o => o.recipient == none || o.recipient == some r
  | none => false

/-- available_non_terminals at the start of the call -/
def typesFor (V : Variant) (opts : List Opt) (p r : Party) : List Ty :=
  let ts := ((opts.filter (fun o => o.sender = p)).map (·.type)).eraseDups
  if V.typesByRecipient then ts.filter (addressedTo opts p r) else ts

/-- `complete_parses[t] = (idx, tree)` — dict semantics: update in place, else append -/
def setCompl (t : Ty) (i : Nat) (w : List Nat) : List (Ty × Nat × List Nat) → List (Ty × Nat × List Nat)
  | [] => [(t, i, w)]
  | e :: es => if e.1 = t then (t, i, w) :: es else e :: setCompl t i w es

/-- the `for non_terminal in set(available_non_terminals)` loop body after consuming up to word `w`
    (fragment index `i`), over the types still available -/
def feedTypes (S : Spec) (i : Nat) (w : List Nat) :
    List Ty → List (Ty × Nat × List Nat) → List Ty × List (Ty × Nat × List Nat)
  | [], compl => ([], compl)
  | t :: ts, compl =>
    let compl' := if S.complete t w then setCompl t i w compl else compl
    let r := feedTypes S i w ts compl'
    (if S.cont t w then t :: r.1 else r.1, r.2)

/-- the parse with the largest fragment index, the first one on ties -/
def bestOf : List (Ty × Nat × List Nat) → Option (Ty × Nat × List Nat)
  | [] => none
  | e :: es =>
    match bestOf es with
    | none => some e
    | some b => if e.2.1 < b.2.1 then some b else some e

/-- end of `parse_next_remote_packet` + the hook-in / constraint check of `_generate_io` -/
def finish (V : Variant) (S : Spec) (s : State) (e : Ex) : State :=
  match bestOf e.compl with
  | none => { s with ex := none, failed := some .noParse }
  | some (t, i, w) =>
    match optFor e.opts e.sender t with
    | none => { s with ex := none, failed := some .noParse }     -- unreachable (invariant)
    | some o =>
      let m : Msg := ⟨o.sender, o.recipient, t, w, true⟩
      let r := rcp V.clearByRecipient e.recipient
      let s' := { s with ex := none
                         buffer := clearByParty e.sender i r s.buffer
                         used := s.used ++ [removedByParty e.sender i r s.buffer] }
      if S.ok s.history m then { s' with history := s.history ++ [m] }
      else { s' with failed := some .constraint, rejected := some m }

/-! ### the fuzzer's turn -/

/-- `a.sender == b.sender and a.recipient == b.recipient and a.msg == b.msg` -/
def sameMsg (a b : Msg) : Bool :=
  a.sender == b.sender && a.recipient == b.recipient && a.type == b.type && a.payload == b.payload

/-- `Fandango._extends_history(history_tree, candidate)`:
    `len(new) == len(old) + 1 and all(… for a, b in zip(old, new))` -/
def extendsB (h cand : List Msg) : Bool :=
  cand.length == h.length + 1 && (h.zip cand).all (fun ab => sameMsg ab.1 ab.2)

/-- is `party.send` called: `new_packet.recipient is None or not parties[recipient].is_fuzzer_controlled()` -/
def transmits (S : Spec) (m : Msg) : Bool :=
  match m.recipient with
  | none => true
  | some r => !S.fuzzer r

/-! ### events -/

inductive Event where
  | recv (f : Frag)                 -- an external party's data reaches `add_receive` (one character)
  | fuzzerTurn (cand : List Msg)    -- the fuzzer branch came back with a tree whose protocol messages are `cand`
  | exStart                         -- `parse_next_remote_packet` is entered and picks a sender and recipient
  | exStep                          -- the next fragment of that sender to that recipient is fed to the parsers
  | exFinish                        -- no message type is left that could continue
  | silence                         -- 1 s without a further fragment of that sender to that recipient
  | unexpected                      -- 10 s without a fragment of a forecast party
  | noMessage                       -- 15 s without any data
  | finishRun                       -- the interaction is complete and the run ends
  deriving Repr

def live (s : State) : Bool := s.failed.isNone && !s.finished

/-- `step V S s ev = none`: the event is not enabled in `s`.  Every event except `recv` needs a live run. -/
def step (V : Variant) (S : Spec) (s : State) : Event → Option State
  | .recv f =>
    -- the reader threads append whenever data comes in — also after the run has failed or finished (e.g. while
    -- the error message is being put together); a dead run merely does not react to it any more
    if S.fuzzer f.sender = false then
      some { s with buffer := s.buffer ++ [f], recvd := s.recvd ++ [f] }
    else none
  | .fuzzerTurn cand =>
    if live s ∧ s.ex.isNone ∧ s.buffer = [] then
      if V.extendsGuard then
        if extendsB s.history cand then
          match cand.getLast? with
          | some m0 =>
            let m : Msg := { m0 with remote := false }
            if S.fuzzer m.sender = true ∧ m.opt ∈ S.forecast s.history ∧ S.ok s.history m = true then
              some { s with history := s.history ++ [m]
                            outbox := if transmits S m then s.outbox ++ [(m.sender, m.recipient, m.type, m.payload)]
                                      else s.outbox }
            else none
          | none => none
        else some s                -- `continue`: nothing is sent, nothing is recorded
      else
        -- OLD rule (before bd6395f0): whatever tree came back becomes the history and its last message is sent
        match cand.getLast? with
        | some m =>
          some { s with history := cand
                        outbox := if transmits S m then s.outbox ++ [(m.sender, m.recipient, m.type, m.payload)]
                                  else s.outbox }
        | none => none             -- (`protocol_msgs()[-1]` of an empty list: IndexError — not modelled)
    else none
  | .exStart =>
    if live s ∧ s.ex.isNone then
      match pickFrag (S.forecast s.history) s.buffer with
      | some (p, r) =>
        some { s with ex := some ⟨p, r, typesFor V (S.forecast s.history) p r, [], 0, [], S.forecast s.history, true⟩ }
      | none => none
    else none
  | .exStep =>
    match s.ex with
    | some e =>
      if live s ∧ e.go = true then
        match findNext e.sender (rcp V.findByRecipient e.recipient) s.buffer e.pos with
        | some (i, d) =>
          let w := e.word ++ [d]
          let r := feedTypes S i w e.avail e.compl
          some { s with ex := some { e with avail := r.1, compl := r.2, pos := i + 1, word := w,
                                            go := !r.1.isEmpty } }
        | none => none
      else none
    | none => none
  | .exFinish =>
    match s.ex with
    | some e => if live s ∧ e.go = false then some (finish V S s e) else none
    | none => none
  | .silence =>
    match s.ex with
    | some e =>
      if live s ∧ e.go = true ∧ findNext e.sender (rcp V.findByRecipient e.recipient) s.buffer e.pos = none then
        (if e.compl = [] then some { s with ex := none, failed := some .timeoutFragment }
         else some (finish V S s e))
      else none
    | none => none
  | .unexpected =>
    if live s ∧ s.ex.isNone ∧ s.buffer ≠ [] ∧ pickFrag (S.forecast s.history) s.buffer = none then
      some { s with failed := some .unexpectedParty }
    else none
  | .noMessage =>
    if live s ∧ s.ex.isNone ∧ s.buffer = [] then some { s with failed := some .noMessage } else none
  | .finishRun =>
    if live s ∧ s.ex.isNone ∧ S.done s.history = true then some { s with finished := true } else none

/-- run a schedule; `none` as soon as an event is not enabled -/
def runEvents (V : Variant) (S : Spec) : State → List Event → Option State
  | s, [] => some s
  | s, ev :: evs => match step V S s ev with
    | some s' => runEvents V S s' evs
    | none => none

/-- states some schedule leads to -/
inductive Reachable (V : Variant) (S : Spec) : State → Prop
  | init : Reachable V S init
  | step (s s' ev) : Reachable V S s → step V S s ev = some s' → Reachable V S s'

/-! ### big-step extraction (what one `parse_next_remote_packet` call does when nothing arrives
meanwhile): `exStart`, then `exStep` while possible, then `exFinish` or `silence` -/

def exLoop (V : Variant) (S : Spec) : Nat → State → Option State
  | 0, _ => none
  | fuel + 1, s =>
    match step V S s .exStep with
    | some s' => exLoop V S fuel s'
    | none =>
      match step V S s .exFinish with
      | some s' => some s'
      | none => step V S s .silence

def extractNow (V : Variant) (S : Spec) (s : State) : Option State :=
  match step V S s .exStart with
  | some s' => exLoop V S (s.buffer.length + 2) s'
  | none => none

/-- a remote party's `receive(data)` call: one `recv` per character -/
def recvChunk (s r : Party) (data : List Nat) : List Event := data.map (fun d => .recv ⟨s, r, d⟩)

end Io
end FV
