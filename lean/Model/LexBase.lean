/-
E5 / the two hand-written lexer bases (C14).

Models of
  * `src/fandango/language/parser/FandangoLexerBase.py`   (`pyNext`, `pyRaw`)
  * `src/fandango/language/cpp_parser/FandangoLexerBase.cpp` (`cppNext`, `cppRaw`)
as token-queue machines over an abstract stream of raw-lexer events.  What the generated ATN lexer
does is abstracted into the event list; what the bases add is modelled line by line:

  emitToken            Python: overrides `Lexer.emitToken` — EVERY token the raw lexer emits (also EOF) is
                       appended to `self.tokens`;  C++: a separate `emitToken` that pushes onto `tokens`,
                       `Lexer::emit` is not overridden
  nextToken            Python: EOF-dedent check, then ALWAYS `super().nextToken()`, then `tokens.pop(0)`
                       C++:    EOF-dedent check, then `Lexer::nextToken()` ONLY IF the deque is empty
                               (its result is dropped when `skipLexer > 0`, else pushed), then pop_front
  on_newline           skip inside brackets or before a blank/comment line; otherwise NEWLINE and
                       nothing / INDENT / DEDENTs according to the indentation stack
  `skip()`             the raw lexer continues with the next token inside the same `nextToken()`

An event is what one raw token does to the base:
  tok ty        any token without an action that touches the indentation machinery (also hidden ones)
  opn ty / cls ty   an opening / closing bracket token (`open_brace()` / `close_brace()`, then the token)
  nl ws la      the NEWLINE rule matched; `ws` = the blanks after the line break (true = TAB),
                `la` = (LA(2) ≠ EOF ∧ LA(1) ∈ {'\n', '\r', '#'})
`LA(1) == EOF` at the start of `nextToken` is "no raw event left".

Tied to /repo by `harness/props/c14.py` (event streams recorded from the real Python lexer; the C++
token stream is observable through the bridge only as the leaves of the parse tree of accepted texts).
No imports: linked into `drv_lex`.
-/
namespace FV.Lex

inductive Tok where
  | eof | newline | indent | dedent | raw (ty : Nat)
  deriving DecidableEq, Repr, Inhabited

inductive Ev where
  | tok (ty : Nat) | opn (ty : Nat) | cls (ty : Nat) | nl (ws : List Bool) (la : Bool)
  deriving DecidableEq, Repr, Inhabited

/-- `get_indentation_count` / `getIndentationCount`: a TAB advances to the next multiple of 8 -/
def indentCountFrom (count : Nat) : List Bool → Nat
  | [] => count
  | true :: r => indentCountFrom (count + (8 - count % 8)) r
  | false :: r => indentCountFrom (count + 1) r
def indentCount (ws : List Bool) : Nat := indentCountFrom 0 ws

/-- `while indents and indents[-1] > indent: emit DEDENT; pop` (stack top = list head):
    the remaining stack and the number of DEDENTs -/
def popWhile (n : Nat) : List Nat → List Nat × Nat
  | [] => ([], 0)
  | t :: r => if t > n then ((popWhile n r).1, (popWhile n r).2 + 1) else (t :: r, 0)

/-- what `on_newline` decides -/
inductive NL where
  | silent                              -- `skip()` without emitting anything
  | same                                -- NEWLINE, then `skip()`
  | indent (n : Nat)                    -- NEWLINE INDENT, push n
  | dedent (k : Nat) (rest : List Nat)  -- NEWLINE DEDENT^k
  deriving Repr

def onNewline (ws : List Bool) (la : Bool) (ind : List Nat) (op : Int) : NL :=
  if op > 0 || la then .silent
  else
    let n := indentCount ws
    let prev := ind.headD 0
    if n == prev then .same
    else if n > prev then .indent n
    else .dedent (popWhile n ind).2 (popWhile n ind).1

/-! ## one call of the raw lexer's `nextToken()` -/

/-- Python: everything that call appends to `self.tokens` -/
structure Raw where
  em : List Tok
  rest : List Ev
  ind : List Nat
  op : Int
  deriving Repr

def pyRaw : List Ev → List Nat → Int → Raw
  | [], ind, op => ⟨[.eof], [], ind, op⟩                    -- `_hitEOF`: emitEOF() → emitToken
  | .tok ty :: r, ind, op => ⟨[.raw ty], r, ind, op⟩
  | .opn ty :: r, ind, op => ⟨[.raw ty], r, ind, op + 1⟩
  | .cls ty :: r, ind, op => ⟨[.raw ty], r, ind, op - 1⟩
  | .nl ws la :: r, ind, op =>
    match onNewline ws la ind op with
    | .silent => pyRaw r ind op
    | .same => { pyRaw r ind op with em := .newline :: (pyRaw r ind op).em }
    | .indent n => ⟨[.newline, .indent], r, n :: ind, op⟩     -- `_token` is set: the raw NEWLINE is not emitted
    | .dedent k rest => ⟨.newline :: List.replicate k .dedent, r, rest, op⟩

/-- C++: what `on_newline` pushed during the call, the token the call returns, and how often
    `skipLexer` was incremented -/
structure CRaw where
  pushed : List Tok
  ret : Tok
  skipInc : Nat
  rest : List Ev
  ind : List Nat
  op : Int
  deriving Repr

def cppRaw : List Ev → List Nat → Int → CRaw
  | [], ind, op => ⟨[], .eof, 0, [], ind, op⟩
  | .tok ty :: r, ind, op => ⟨[], .raw ty, 0, r, ind, op⟩
  | .opn ty :: r, ind, op => ⟨[], .raw ty, 0, r, ind, op + 1⟩
  | .cls ty :: r, ind, op => ⟨[], .raw ty, 0, r, ind, op - 1⟩
  | .nl ws la :: r, ind, op =>
    match onNewline ws la ind op with
    | .silent => cppRaw r ind op
    | .same => { cppRaw r ind op with pushed := .newline :: (cppRaw r ind op).pushed }
    | .indent n => ⟨[.newline, .indent], .newline, 1, r, n :: ind, op⟩      -- the raw NEWLINE is returned …
    | .dedent k rest => ⟨.newline :: List.replicate k .dedent, .newline, 1, r, rest, op⟩  -- … `skipLexer++`

/-! ## `nextToken()` -/

/-- "Check if the end-of-file is ahead and there are still some DEDENTS expected" (both bases) -/
def eofCheck (evs : List Ev) (queue : List Tok) (ind : List Nat) : List Tok × List Nat :=
  if evs.isEmpty && !ind.isEmpty then
    (queue.filter (· != .eof) ++ [.newline] ++ List.replicate ind.length .dedent ++ [.eof], [])
  else (queue, ind)

structure PySt where
  evs : List Ev
  queue : List Tok
  ind : List Nat
  op : Int
  deriving Repr

structure CppSt where
  evs : List Ev
  queue : List Tok
  ind : List Nat
  op : Int
  skipLexer : Nat
  deriving Repr

def pyInit (evs : List Ev) : PySt := ⟨evs, [], [], 0⟩
def cppInit (evs : List Ev) : CppSt := ⟨evs, [], [], 0, 0⟩

/-- `token = next_ if len(self.tokens) == 0 else self.tokens.pop(0)`; the queue cannot be empty
    there (`pyRaw_em_ne_nil`), `headD` only totalises -/
def pyNext (s : PySt) : Tok × PySt :=
  let c := eofCheck s.evs s.queue s.ind
  let r := pyRaw s.evs c.2 s.op
  let q := c.1 ++ r.em
  (q.headD .eof, ⟨r.rest, q.tail, r.ind, r.op⟩)

def cppNext (s : CppSt) : Tok × CppSt :=
  let c := eofCheck s.evs s.queue s.ind
  if c.1.isEmpty then
    let r := cppRaw s.evs c.2 s.op
    let sk := s.skipLexer + r.skipInc
    -- "After emitting an INDENT or DEDENT, we may have to skip the lexer token"
    let q := if sk > 0 then r.pushed else r.pushed ++ [r.ret]
    (q.headD .eof, ⟨r.rest, q.tail, r.ind, r.op, if sk > 0 then sk - 1 else sk⟩)
  else
    (c.1.headD .eof, ⟨s.evs, c.1.tail, c.2, s.op, s.skipLexer⟩)

/-- the C++ base with the fix of /var/tmp/fixes/C14-eof-after-skipped-newline (`recheck = true`): right
    after the raw lexer was consulted, `if (LA(1) == EOF && !indents.empty()) return nextToken();` —
    the check at the top runs again and finds the deque non-empty.  `recheck = false` is the base as
    found (`cppNext`). -/
def cppNextR (recheck : Bool) (s : CppSt) : Tok × CppSt :=
  let c := eofCheck s.evs s.queue s.ind
  if c.1.isEmpty then
    let r := cppRaw s.evs c.2 s.op
    let sk := s.skipLexer + r.skipInc
    let q := if sk > 0 then r.pushed else r.pushed ++ [r.ret]
    let sk' := if sk > 0 then sk - 1 else sk
    if recheck && r.rest.isEmpty && !r.ind.isEmpty then
      let c2 := eofCheck r.rest q r.ind
      (c2.1.headD .eof, ⟨r.rest, c2.1.tail, c2.2, r.op, sk'⟩)
    else
      (q.headD .eof, ⟨r.rest, q.tail, r.ind, r.op, sk'⟩)
  else
    (c.1.headD .eof, ⟨s.evs, c.1.tail, c.2, s.op, s.skipLexer⟩)

def cppPullsR (recheck : Bool) : Nat → CppSt → List Tok
  | 0, _ => []
  | n + 1, s => (cppNextR recheck s).1 :: cppPullsR recheck n (cppNextR recheck s).2

def pyPulls : Nat → PySt → List Tok
  | 0, _ => []
  | n + 1, s => (pyNext s).1 :: pyPulls n (pyNext s).2

def cppPulls : Nat → CppSt → List Tok
  | 0, _ => []
  | n + 1, s => (cppNext s).1 :: cppPulls n (cppNext s).2

/-! ## the intended token stream -/

/-- tokens the events stand for, followed by the closing NEWLINE DEDENT* when blocks are still open -/
def spec : List Ev → List Nat → Int → List Tok
  | [], ind, _ => if ind.isEmpty then [] else .newline :: List.replicate ind.length .dedent
  | .tok ty :: r, ind, op => .raw ty :: spec r ind op
  | .opn ty :: r, ind, op => .raw ty :: spec r ind (op + 1)
  | .cls ty :: r, ind, op => .raw ty :: spec r ind (op - 1)
  | .nl ws la :: r, ind, op =>
    match onNewline ws la ind op with
    | .silent => spec r ind op
    | .same => .newline :: spec r ind op
    | .indent n => .newline :: .indent :: spec r (n :: ind) op
    | .dedent k rest => .newline :: (List.replicate k .dedent ++ spec r rest op)

/-- the stream does not END with a newline that is skipped silently (inside brackets, or before a
    blank / comment line): the guard under which the two bases agree -/
def loudEnd : List Ev → Int → Bool
  | [], _ => true
  | [.nl _ la], op => !(decide (op > 0) || la)
  | .tok _ :: r, op => loudEnd r op
  | .opn _ :: r, op => loudEnd r (op + 1)
  | .cls _ :: r, op => loudEnd r (op - 1)
  | .nl _ _ :: r, op => loudEnd r op

def countTok (t : Tok) (l : List Tok) : Nat := (l.filter (· == t)).length

end FV.Lex
