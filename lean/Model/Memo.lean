/-
E4 / Memo.  The caches in front of constraint evaluation:

* every `Constraint` object has `self.cache: dict[int, ConstraintFitness]`, keyed by
  `GeneticBase.get_hash(tree, scope, local_variables) = hash((tree.get_root(), tree, tuple(scope.items()),
  tuple(local_variables.items())))`; `fitness()` starts with `if tree_hash in self.cache: return
  copy(self.cache[tree_hash])` and ends with `self.cache[tree_hash] = fitness`;
* `Evaluator._fitness_cache`, keyed by `hash((individual.get_root(), individual))`, in front of
  `evaluate_individual` (which calls the constraints' `fitness()`, i.e. goes through their caches).

Model: a *memo layer* `Layer` in front of an arbitrary state-passing inner evaluator; layers nest (the
inner evaluator of a conjunction runs its children's layers; the evaluator's inner evaluator runs the
constraints' layers).  `K` (the key type) and `key` are abstract — Python's `hash` is not modelled; the
theorems say exactly which property of the key function they need.

`Tagged` is a tree together with what `RepetitionBoundsConstraint.fitness` reads *besides* the
structure: the `origin_repetitions` tags (as the repetition groups they induce).  `DerivationTree.__hash__`
covers symbol, sender, recipient and the children's hashes — not the tags.
-/
import Model.EmitExact
namespace FV
namespace Memo

abbrev Table (K R : Type) := List (K × R)

def lookup {K R : Type} [DecidableEq K] (k : K) : Table K R → Option R
  | [] => none
  | (k', r) :: rest => if k' = k then some r else lookup k rest

/-- a cache in front of an inner evaluator with its own state `S` -/
structure Layer (I K R S : Type) where
  key : I → K
  inner : S → I → R × S

/-- one call of `fitness()` / `evaluate_individual()` -/
def Layer.step {I K R S : Type} [DecidableEq K] (L : Layer I K R S) (st : Table K R × S) (i : I) :
    R × (Table K R × S) :=
  match lookup (L.key i) st.1 with
  | some r => (r, st)
  | none =>
    let out := L.inner st.2 i
    (out.1, ((L.key i, out.1) :: st.1, out.2))

/-- the state after a history of calls -/
def Layer.replay {I K R S : Type} [DecidableEq K] (L : Layer I K R S) (st : Table K R × S) :
    List I → Table K R × S
  | [] => st
  | i :: rest => L.replay (L.step st i).2 rest

/-- running a list of evaluators (the constraints of one class, the operands of a conjunction) one
    after the other on the same input, each with its own state -/
def runAll {I R S : Type} : List (S → I → R × S) → List S → I → List R × List S
  | run :: runs, s :: ss, i =>
    let a := run s i
    let b := runAll runs ss i
    (a.1 :: b.1, a.2 :: b.2)
  | _, _, _ => ([], [])

/-- `run` (with state invariant `Inv`) always answers what the state-free `fresh` answers, on the
    inputs in `D` -/
def Refines {I R S : Type} (run : S → I → R × S) (Inv : S → Prop) (fresh : I → R) (D : I → Prop) : Prop :=
  ∀ s i, Inv s → D i → (run s i).1 = fresh i ∧ Inv (run s i).2

/-- the table holds only results of fresh evaluations of inputs of `D` -/
def TableOk {I K R : Type} (key : I → K) (fresh : I → R) (D : I → Prop) (tbl : Table K R) : Prop :=
  ∀ k r, (k, r) ∈ tbl → ∃ j, D j ∧ key j = k ∧ fresh j = r

/-- what a key function must satisfy on the inputs that occur: equal keys ⇒ equal fresh results.
    Implied by: `key = H ∘ view`, `fresh` factors through `view` (*the key covers everything the
    evaluation reads*), and `H` is injective on the views that occur (*no hash collision*). -/
def KeyDetermines {I K R : Type} (key : I → K) (fresh : I → R) (D : I → Prop) : Prop :=
  ∀ a b, D a → D b → key a = key b → fresh a = fresh b

/-! ### what repetition-bounds fitness reads -/

/-- a tree as `RepetitionBoundsConstraint.fitness` sees it: the structure (what the hash covers) and
    the repetition groups induced by the `origin_repetitions` tags (what it does not) -/
structure Tagged where
  tree : Tree
  groups : List RepGroup

/-- the view the cache key is computed from -/
def Tagged.view (x : Tagged) : Tree := x.tree

def repFresh (x : Tagged) : Fit := repFit x.groups

end Memo
end FV
