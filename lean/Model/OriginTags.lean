/-
E3 / origin tags — `origin_repetitions` and the `Repetition.iteration` counters that live on the
shared grammar nodes (`nodes/repetition.py`, `iterative_parser.py::_rec_to_derivation_tree`).

`conv` is `_rec_to_derivation_tree` line by line: a repetition control-flow node increments the
counter of its grammar node and tags its j-th child with `(node.id, iteration, j)` appended to the
tags it received itself; other control-flow nodes pass their tags on; ordinary nodes start their
children with no tags.  The counters are never reset, so the absolute iteration ids in a tree depend
on everything that was parsed (or fuzzed) before.  `normalize` is the canonical form the harness
compares: every (rep id, iteration id) pair is replaced by the position of its first occurrence in
the pre-order tag list of the tree.
-/
namespace FV.PC

structure Tag where
  rep : String
  iter : Nat
  idx : Nat
  deriving DecidableEq, Repr

inductive OTree where
  | mk (label : String) (tags : List Tag) (kids : List OTree)
  deriving Repr

abbrev Renaming := String → Nat → Nat

def Tag.rename (ρ : Renaming) (t : Tag) : Tag := ⟨t.rep, ρ t.rep t.iter, t.idx⟩
def Tag.key (t : Tag) : String × Nat := (t.rep, t.iter)

mutual
def OTree.rename (ρ : Renaming) : OTree → OTree
  | .mk l tags kids => .mk l (tags.map (Tag.rename ρ)) (OTree.renameL ρ kids)
def OTree.renameL (ρ : Renaming) : List OTree → List OTree
  | [] => []
  | t :: ts => OTree.rename ρ t :: OTree.renameL ρ ts
end

mutual
/-- all (rep id, iteration id) pairs of the tree's tags, in pre-order -/
def OTree.keys : OTree → List (String × Nat)
  | .mk _ tags kids => tags.map Tag.key ++ OTree.keysL kids
def OTree.keysL : List OTree → List (String × Nat)
  | [] => []
  | t :: ts => OTree.keys t ++ OTree.keysL ts
end

/-- canonical form modulo a consistent renaming of iteration ids -/
def OTree.normalize (t : OTree) : OTree :=
  t.rename (fun r n => (t.keys).idxOf (r, n))

/-! ### the conversion with shared counters -/

inductive Kind where
  | plain
  /-- alternative / concatenation helper node -/
  | cf
  /-- repetition / star / plus / option helper node of the grammar node `id` -/
  | rep (id : String)
  deriving DecidableEq, Repr

inductive PTree where
  | mk (label : String) (kind : Kind) (kids : List PTree)
  deriving Repr

abbrev Counter := String → Nat

def bump (c : Counter) (id : String) : Counter := fun r => if r = id then c r + 1 else c r

mutual
def conv (c : Counter) (origin : List Tag) : PTree → OTree × Counter
  | .mk l .plain kids =>
    let r := convL c (fun _ => []) 0 kids
    (.mk l origin r.1, r.2)
  | .mk l .cf kids =>
    let r := convL c (fun _ => origin) 0 kids
    (.mk l origin r.1, r.2)
  | .mk l (.rep id) kids =>
    let r := convL (bump c id) (fun j => origin ++ [⟨id, bump c id id, j⟩]) 0 kids
    (.mk l origin r.1, r.2)
def convL (c : Counter) (mk : Nat → List Tag) (j : Nat) : List PTree → List OTree × Counter
  | [] => ([], c)
  | t :: ts =>
    let a := conv c (mk j) t
    let b := convL a.2 mk (j + 1) ts
    (a.1 :: b.1, b.2)
end

/-- `Parser.parse_forest` converts every tree twice (`IterativeParser.consume` and then
    `to_derivation_tree` again on the result); the second pass starts from the counters the first
    one left and discards the first pass's tags -/
def convTwice (c : Counter) (t : PTree) : OTree × Counter :=
  conv (conv c [] t).2 [] t

def Counter.add (c δ : Counter) : Counter := fun r => c r + δ r
def shiftBy (δ : Counter) : Renaming := fun r n => n + δ r

end FV.PC
