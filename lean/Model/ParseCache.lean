/-
E3 / ParseCache — `Parser._cache` and the generators of `Parser.parse_forest` as a state machine
(`/repo/src/fandango/language/grammar/parser/parser.py`, `iterative_parser.py`).

What is modelled, line by line against `Parser.parse_forest`:

* a request (`Req`) = word × starter bit × start × hook-in parent × mode (× `include_controlflow`);
  `keyOf` is the tuple the source uses as `cache_key` (a `Config` says which components it has);
* `parse_forest` is a *generator function*: calling it runs nothing (`Op.start`); the first `next()`
  looks the key up (`begin`): a hit iterates the cached list (`Gen.hit`, deep copies when
  `hitCopies`), a miss calls `IterativeParser.new_parse` — which overwrites the registers of the ONE
  `IterativeParser` a `Parser` owns (`_parsing_mode`, `_incomplete`; `regMode`, `regInc` here) — and
  then pulls trees one at a time (`Gen.miss`);
* `IterativeParser._consume` at its last column: first the complete trees (`Phase.one`), then — when
  the *register* `_parsing_mode` is INCOMPLETE at that moment — the candidates of the incomplete
  phase that are not yet in the *register* `_incomplete` (`Phase.two`, `nextNew`);
* both insertion policies: `storeWhenExhausted` (`self._cache[key] = forest` after the loop; a
  generator that is abandoned stores nothing) and `appendWhileYielding` (the code before 4ee03385);
* a hit with `include_controlflow=True` runs the loop without yielding anything (`hitYieldsCf`);
* what a handed-out object shares with the object kept for the cache (`Share`): on the uncached
  path `collapse(tree)` builds new nodes but passes `tree.origin_repetitions` / `tree.sources` — the
  same list objects — on (`Share.lists`), and with `include_controlflow=True` the very object is
  yielded (`Share.whole`); `Op.mutate` applies a caller's edit and propagates it through the alias;
* `Op.drop` = the generator is closed / garbage collected (GeneratorExit at the `yield`: nothing after
  the loop runs).

The fresh parser is abstract (`Oracle`): `complete`, `partialRaw` are what the Earley run produces
for a request core, `view` is `collapse` (or the identity with `include_controlflow`), `apply` is a
family of edits.  Two ghost fields (`owner`, `tainted`) record whether a history left the envelope
in which the current source is proved correct (a miss generator resumed after another request
re-initialised the shared parser; an edit that went through an alias).

Not modelled: the registers `_hookin_parent` and `_tmp_rules` (computed repetitions), `_max_position`.
-/
namespace FV.PC

inductive Mode where
  | complete | incomplete
  deriving DecidableEq, Repr, Inhabited

inductive Policy where
  | storeWhenExhausted | appendWhileYielding
  deriving DecidableEq, Repr

/-- what a handed-out tree shares with the parser-side object that is (or will be) in the cache -/
inductive Share where
  | none | lists | whole
  deriving DecidableEq, Repr

inductive EditKind where
  /-- `set_children`, `symbol = …`, `sender = …`, `sources = […]` (setter: rebinding) -/
  | node
  /-- in-place edit of an `origin_repetitions` / `sources` list object -/
  | list
  deriving DecidableEq, Repr

/-- everything the real parse depends on, except the mode -/
structure Core where
  word : Nat
  /-- `starter_bit + 1` of a `DerivationTree` word that contains bits; 0 = none -/
  sbit : Nat
  start : Nat
  /-- 0 = `None`; otherwise the hook-in parent up to `DerivationTree.__eq__` -/
  hook : Nat
  deriving DecidableEq, Repr

structure Req where
  core : Core
  mode : Mode
  /-- `include_controlflow` -/
  cf : Bool
  deriving DecidableEq, Repr

structure Config where
  policy : Policy
  /-- hits are served as `deepcopy(tree)` -/
  hitCopies : Bool
  /-- the hit loop also yields when `include_controlflow=True` (today it only has the
      `if not include_controlflow:` branch: such a hit yields nothing at all) -/
  hitYieldsCf : Bool
  /-- uncached path, `include_controlflow=False` -/
  missShare : Share
  /-- uncached path, `include_controlflow=True` -/
  missShareCf : Share
  keySbit : Bool
  keyStart : Bool
  keyHook : Bool
  keyMode : Bool
  /-- one `IterativeParser` (mode / `_incomplete` registers) shared by all generators of a `Parser` -/
  sharedRegs : Bool
  deriving DecidableEq, Repr

structure Key where
  word : Nat
  sbit : Nat
  start : Nat
  hook : Nat
  mode : Mode
  deriving DecidableEq, Repr

def keyOf (cfg : Config) (r : Req) : Key :=
  { word := r.core.word
    sbit := if cfg.keySbit then r.core.sbit else 0
    start := if cfg.keyStart then r.core.start else 0
    hook := if cfg.keyHook then r.core.hook else 0
    mode := if cfg.keyMode then r.mode else .complete }

def Key.core (k : Key) : Core := ⟨k.word, k.sbit, k.start, k.hook⟩

/-- all components of a request that the parse depends on are in the key -/
def Config.keyComplete (cfg : Config) : Bool :=
  cfg.keySbit && cfg.keyStart && cfg.keyHook && cfg.keyMode

/-- handed-out trees never share storage with the cache -/
def Config.copies (cfg : Config) : Bool :=
  cfg.hitCopies && decide (cfg.missShare = .none) && decide (cfg.missShareCf = .none)

/-- the fresh parser, abstractly -/
structure Oracle (T : Type) where
  /-- parser-side trees of the complete parses, in the order the Earley run yields them -/
  complete : Core → List T
  /-- candidates of the incomplete phase, in order, before the `_incomplete` filter -/
  partialRaw : Core → List T
  /-- `collapse` (false) / identity (true) -/
  view : Bool → T → T
  /-- a caller's edit number `n` -/
  apply : Nat → T → T

section
variable {T : Type} [DecidableEq T]

/-- `if child not in self._incomplete: self._incomplete.add(child); yield child` over a candidate list -/
def dedupFrom (inc : List T) : List T → List T
  | [] => []
  | x :: xs => if x ∈ inc then dedupFrom inc xs else x :: dedupFrom (x :: inc) xs

/-- the next candidate that is not in `inc`, and the candidates after it -/
def nextNew (inc : List T) : List T → Option (T × List T)
  | [] => none
  | x :: xs => if x ∈ inc then nextNew inc xs else some (x, xs)

/-- parser-side forest of a request on a fresh grammar object -/
def freshFull (O : Oracle T) (c : Core) (m : Mode) : List T :=
  O.complete c ++ (match m with
    | .complete => []
    | .incomplete => dedupFrom [] (O.partialRaw c))

/-- **the specification**: what a fresh `Grammar` object answers -/
def parseFresh (O : Oracle T) (r : Req) : List T :=
  (freshFull O r.core r.mode).map (O.view r.cf)

inductive Phase where
  | one | two
  deriving DecidableEq, Repr

inductive Gen (T : Type) where
  /-- `parse_forest(...)` was called, `next()` not yet -/
  | unstarted (r : Req)
  /-- iterating the list object found in the cache (`storeWhenExhausted`: never mutated in place) -/
  | hit (r : Req) (rest : List Nat)
  /-- iterating the list object of the cache entry, which `appendWhileYielding` grows in place -/
  | hitLive (r : Req) (pos : Nat)
  /-- uncached: pulling from the parser.  `rest`: candidates still to come in this phase, `inc`: this
      generator's own view of `_incomplete`, `acc`: the local `forest` list (object ids) -/
  | miss (r : Req) (ph : Phase) (rest : List T) (inc : List T) (acc : List Nat)
  | done

/-- an object in the caller's hands -/
structure Out (T : Type) where
  val : T
  alias : Option Nat
  share : Share

structure State (T : Type) where
  /-- parser-side tree objects (what the cache holds and serves), by object id -/
  heap : Nat → Option T
  nHeap : Nat
  cache : Key → Option (List Nat)
  gens : Nat → Option (Gen T)
  nGens : Nat
  outs : Nat → Option (Out T)
  nOuts : Nat
  /-- `IterativeParser._parsing_mode` -/
  regMode : Mode
  /-- `IterativeParser._incomplete` -/
  regInc : List T
  /-- ghost: the generator whose `new_parse` wrote the registers last -/
  owner : Option Nat
  /-- ghost: a miss generator was resumed although it no longer owns the shared registers, or an
      edit reached a parser-side object through an alias -/
  tainted : Bool

def State.init : State T :=
  { heap := fun _ => none, nHeap := 0, cache := fun _ => none, gens := fun _ => none, nGens := 0,
    outs := fun _ => none, nOuts := 0, regMode := .complete, regInc := [], owner := none,
    tainted := false }

def upd {α β : Type} [DecidableEq α] (f : α → β) (a : α) (b : β) : α → β :=
  fun x => if x = a then b else f x

inductive Op where
  | start (r : Req)
  | pull (g : Nat)
  | drop (g : Nat)
  | mutate (o : Nat) (kind : EditKind) (fn : Nat)
  deriving DecidableEq, Repr

variable (cfg : Config) (O : Oracle T)

/-- first `next()`: cache lookup; on a miss `new_parse` re-initialises the shared registers -/
def begin (s : State T) (g : Nat) (r : Req) : State T :=
  match s.cache (keyOf cfg r) with
  | some ids =>
    if r.cf && !cfg.hitYieldsCf then
      -- the loop deep-copies every cached tree and yields none of them
      { s with gens := upd s.gens g (some (.hit r [])) }
    else
    match cfg.policy with
    | .storeWhenExhausted => { s with gens := upd s.gens g (some (.hit r ids)) }
    | .appendWhileYielding => { s with gens := upd s.gens g (some (.hitLive r 0)) }
  | none =>
    { s with gens := upd s.gens g (some (.miss r .one (O.complete r.core) [] []))
             regMode := r.mode, regInc := [], owner := some g }

def hitOut (r : Req) (id : Nat) (v : T) : Out T :=
  if cfg.hitCopies then ⟨O.view r.cf v, none, .none⟩
  else ⟨O.view r.cf v, some id, if r.cf then .whole else .lists⟩

def handOut (s : State T) (o : Out T) : State T :=
  { s with outs := upd s.outs s.nOuts (some o), nOuts := s.nOuts + 1 }

/-- the uncached loop body: convert, `forest.append(tree)` (or append to the cache entry), yield -/
def yieldMiss (s : State T) (g : Nat) (r : Req) (ph : Phase) (rest inc : List T) (acc : List Nat)
    (t : T) : State T × Option T :=
  let id := s.nHeap
  let sh := if r.cf then cfg.missShareCf else cfg.missShare
  let out : Out T := ⟨O.view r.cf t, if sh = .none then none else some id, sh⟩
  let cache := match cfg.policy with
    | .storeWhenExhausted => s.cache
    | .appendWhileYielding => upd s.cache (keyOf cfg r) (some ((s.cache (keyOf cfg r)).getD [] ++ [id]))
  (handOut { s with heap := upd s.heap id (some t), nHeap := id + 1, cache := cache
                    gens := upd s.gens g (some (.miss r ph rest inc (acc ++ [id]))) } out,
   some (O.view r.cf t))

/-- the generator runs off the end of the loop -/
def finishMiss (s : State T) (g : Nat) (r : Req) (acc : List Nat) : State T × Option T :=
  let cache := match cfg.policy with
    | .storeWhenExhausted => upd s.cache (keyOf cfg r) (some acc)
    | .appendWhileYielding => s.cache
  ({ s with cache := cache, gens := upd s.gens g (some .done) }, none)

/-- incomplete phase: skip what the (effective) `_incomplete` set already has -/
def scanMiss (s : State T) (g : Nat) (r : Req) (cands incNow : List T) (acc : List Nat) :
    State T × Option T :=
  match nextNew incNow cands with
  | none => finishMiss cfg s g r acc
  | some (x, rest') =>
    let s' := if cfg.sharedRegs then { s with regInc := x :: incNow } else s
    yieldMiss cfg O s' g r .two rest' (x :: incNow) acc x

/-- ghost bookkeeping: a miss generator is resumed although another request has re-initialised the
    shared parser registers since it started -/
def markResume (s : State T) (g : Nat) : State T :=
  if cfg.sharedRegs && decide (s.owner ≠ some g) then { s with tainted := true } else s

/-- `next()` on an uncached generator: `_consume` continues at its last column and reads the parser
    registers *as they are now* -/
def pullMiss (s : State T) (g : Nat) (r : Req) (ph : Phase) (rest inc : List T) (acc : List Nat) :
    State T × Option T :=
  let modeNow := if cfg.sharedRegs then s.regMode else r.mode
  let incNow := if cfg.sharedRegs then s.regInc else inc
  match ph with
  | .one =>
    match rest with
    | t :: rest' => yieldMiss cfg O s g r .one rest' inc acc t
    | [] =>
      match modeNow with
      | .incomplete => scanMiss cfg O s g r (O.partialRaw r.core) incNow acc
      | .complete => finishMiss cfg s g r acc
  | .two => scanMiss cfg O s g r rest incNow acc

def stopGen (s : State T) (g : Nat) : State T × Option T :=
  ({ s with gens := upd s.gens g (some .done) }, none)

/-- `next()` on a generator that has started -/
def pullStarted (s : State T) (g : Nat) : State T × Option T :=
  match s.gens g with
  | some (.hit r (id :: rest)) =>
    match s.heap id with
    | some v =>
      (handOut { s with gens := upd s.gens g (some (.hit r rest)) } (hitOut cfg O r id v),
       some (O.view r.cf v))
    | none => stopGen s g
  | some (.hit _ []) => stopGen s g
  | some (.hitLive r pos) =>
    match s.cache (keyOf cfg r) with
    | some ids =>
      match ids[pos]? with
      | some id =>
        match s.heap id with
        | some v =>
          (handOut { s with gens := upd s.gens g (some (.hitLive r (pos + 1))) } (hitOut cfg O r id v),
           some (O.view r.cf v))
        | none => stopGen s g
      | none => stopGen s g
    | none => stopGen s g
  | some (.miss r ph rest inc acc) => pullMiss cfg O (markResume cfg s g) g r ph rest inc acc
  | _ => (s, none)

def pull (s : State T) (g : Nat) : State T × Option T :=
  match s.gens g with
  | some (.unstarted r) => pullStarted cfg O (begin cfg O s g r) g
  | _ => pullStarted cfg O s g

def propagates : Share → EditKind → Bool
  | .whole, _ => true
  | .lists, .list => true
  | _, _ => false

def mutate (s : State T) (o : Nat) (kind : EditKind) (fn : Nat) : State T :=
  match s.outs o with
  | none => s
  | some out =>
    let s := { s with outs := upd s.outs o (some { out with val := O.apply fn out.val }) }
    match out.alias with
    | some i =>
      if propagates out.share kind then
        match s.heap i with
        | some v => { s with heap := upd s.heap i (some (O.apply fn v)), tainted := true }
        | none => s
      else s
    | none => s

def step (s : State T) : Op → State T × Option T
  | .start r => ({ s with gens := upd s.gens s.nGens (some (.unstarted r)), nGens := s.nGens + 1 }, none)
  | .pull g => pull cfg O s g
  | .drop g =>
    match s.gens g with
    | some _ => ({ s with gens := upd s.gens g (some .done) }, none)
    | none => (s, none)
  | .mutate o kind fn => (mutate O s o kind fn, none)

def replayFrom (s : State T) : List Op → State T
  | [] => s
  | op :: ops => replayFrom (step cfg O s op).1 ops

def replay (h : List Op) : State T := replayFrom cfg O State.init h

/-- the trace of yields, one entry per op (`none`: nothing yielded / StopIteration) -/
def traceFrom (s : State T) : List Op → List (Option T)
  | [] => []
  | op :: ops => (step cfg O s op).2 :: traceFrom (step cfg O s op).1 ops

/-- pull generator `g` until it stops (at most `fuel` pulls) -/
def drain : Nat → State T → Nat → State T × List T
  | 0, s, _ => (s, [])
  | n + 1, s, g =>
    match pull cfg O s g with
    | (s', some t) => ((drain n s' g).1, t :: (drain n s' g).2)
    | (s', none) => (s', [])

def answerFuel (s : State T) (r : Req) : Nat :=
  (match s.cache (keyOf cfg r) with
   | some ids => ids.length
   | none => (O.complete r.core).length + (O.partialRaw r.core).length) + 1

/-- **the answer** the machine gives to a new request that is enumerated to its end -/
def answer (s : State T) (r : Req) : List T :=
  (drain cfg O (answerFuel cfg O s r) (step cfg O s (.start r)).1 s.nGens).2

/-- `Grammar.parse`: first tree only, generator abandoned -/
def parseFirstOps (r : Req) (g : Nat) : List Op := [.start r, .pull g, .drop g]

end

/-! ### named configurations -/

/-- /repo after 4ee03385 and before the fixes b339574e / 91610c1b / 7afb3369 / 13d797aa -/
def Config.afterFix : Config :=
  { policy := .storeWhenExhausted, hitCopies := true, hitYieldsCf := false, missShare := .lists,
    missShareCf := .whole, keySbit := false, keyStart := true, keyHook := true, keyMode := true, sharedRegs := true }

/-- /repo before 4ee03385 -/
def Config.preFix : Config := { Config.afterFix with policy := .appendWhileYielding }

/-- complete key, copies everywhere, per-request parser state (what `harness/translate_cache.py`
    reads off the source today) -/
def Config.isolated : Config :=
  { policy := .storeWhenExhausted, hitCopies := true, hitYieldsCf := true, missShare := .none,
    missShareCf := .none, keySbit := true, keyStart := true, keyHook := true, keyMode := true, sharedRegs := false }

end FV.PC
