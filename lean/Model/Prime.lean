/-
E2 / `Grammar.prime()` — the worklist iteration that computes `distance_to_completion`.

Mirrors `src/fandango/language/grammar/grammar.py  Grammar.prime` line by line:

    nodes = sum([self.visit(self.rules[symbol]) for symbol in self.rules], [])   -- post-order, terminals left out
    while nodes:
        node = nodes.pop(0)
        TerminalNode     : continue
        NonTerminalNode  : symbol not in rules -> raise; rules[symbol].d == inf -> nodes.append(node)
                           else node.d = rules[symbol].d + 1
        Alternative      : node.d = min(alternatives' d) + 1; if node.d == inf: nodes.append(node)
        Concatenation    : any child inf -> nodes.append(node) else node.d = sum(children's d) + 1
        Repetition       : node.node.d == inf -> nodes.append(node) else node.d = node.node.d * node.min + 1

and the constructor defaults (`nodes/*.py __init__`): `TerminalNode` 1.0, `Star` / `Option` 0.0, everything
else `float("inf")`.  `prime()` does NOT reset the values: it starts from whatever the objects carry.

The loop is written once over an abstract node graph (`kind : α → PKind α`, the state is the map
`α → Dist`); `α := Pos` (rule index, child path) is the instance for a grammar of `Model/IR.lean`.
`Dist = Option Nat`, `none` = `float("inf")`.
-/
import Model.Fuzz
namespace FV

/-- `distance_to_completion`; `none` = `float("inf")` -/
abbrev Dist := Option Nat

/-- what `prime()` reads of a grammar node: its class and the nodes it refers to -/
inductive PKind (α : Type) where
  | term
  /-- `root`: the node `self.rules[node.symbol]`, `none` when the symbol has no rule (the code raises) -/
  | nt (root : Option α)
  | alt (kids : List α)
  | cat (kids : List α)
  | rep (kid : α) (min : Nat)

/-- `min(a, b)` on floats with `inf` -/
def minD : Dist → Dist → Dist
  | none, b => b
  | some a, none => some a
  | some a, some b => some (Nat.min a b)

/-- `min([...])` of a non-empty list (`inf` is the unit; the empty list raises and is handled by the caller) -/
def minList : List Dist → Dist
  | [] => none
  | d :: ds => minD d (minList ds)

/-- `sum([...])`, `inf` if any summand is (the code tests `any(… == inf)` first) -/
def sumList : List Dist → Dist
  | [] => some 0
  | d :: ds =>
    match d, sumList ds with
    | some a, some b => some (a + b)
    | _, _ => none

def upd {α : Type} [DecidableEq α] (s : α → Dist) (i : α) (v : Dist) : α → Dist :=
  fun a => if a = i then v else s a

/-- the value the update rule computes for node `i` from the state `s` (`none`: not yet — the node is
    appended to the worklist again; for an `Alternative` the value `inf` IS assigned) -/
def ruleVal {α : Type} (kind : α → PKind α) (s : α → Dist) (i : α) : Dist :=
  match kind i with
  | .term => s i
  | .nt none => none
  | .nt (some r) => (s r).map (· + 1)
  | .alt ks => (minList (ks.map s)).map (· + 1)
  | .cat ks => (sumList (ks.map s)).map (· + 1)
  | .rep k mn => (s k).map (fun d => d * mn + 1)

/-- one iteration of the `while` loop for the popped node -/
inductive StepRes (α : Type) where
  /-- `FandangoValueError` (symbol not found) / `ValueError` (`min([])`) -/
  | raised
  /-- the node was appended to the worklist again -/
  | again (s : α → Dist)
  /-- the node is done -/
  | fin (s : α → Dist)

def primeStep {α : Type} [DecidableEq α] (kind : α → PKind α) (s : α → Dist) (i : α) : StepRes α :=
  match kind i with
  | .term => .fin s
  | .nt none => .raised
  | .nt (some r) =>
    match s r with
    | none => .again s
    | some d => .fin (upd s i (some (d + 1)))
  | .alt [] => .raised
  | .alt (k :: ks) =>
    match minList ((k :: ks).map s) with
    | none => .again (upd s i none)
    | some d => .fin (upd s i (some (d + 1)))
  | .cat ks =>
    match sumList (ks.map s) with
    | none => .again s
    | some d => .fin (upd s i (some (d + 1)))
  | .rep k mn =>
    match s k with
    | none => .again s
    | some d => .fin (upd s i (some (d * mn + 1)))

inductive PRes (α : Type) where
  | done (s : α → Dist)
  | raised
  /-- the iteration bound was hit (the real loop would still be running) -/
  | fuel

/-- `Grammar.prime()`: the `while nodes:` loop with an iteration bound -/
def primeLoop {α : Type} [DecidableEq α] (kind : α → PKind α) : Nat → (α → Dist) → List α → PRes α
  | _, s, [] => .done s
  | 0, _, _ :: _ => .fuel
  | fuel + 1, s, i :: wl =>
    match primeStep kind s i with
    | .raised => .raised
    | .again s' => primeLoop kind fuel s' (wl ++ [i])
    | .fin s' => primeLoop kind fuel s' wl

/-- the iteration bound that suffices when `prime()` returns at all (`Proofs/Prime.lean`):
    `n + (n-1) + … + 1` for `n` worklist entries -/
def primeBound : Nat → Nat
  | 0 => 0
  | n + 1 => primeBound n + (n + 1)

/-! ## the instance for a grammar: nodes are positions (rule index, path of child indices) -/

abbrev Pos := Nat × List Nat

def Node.kids : Node → List Node
  | .term _ => []
  | .nt _ _ _ => []
  | .alt _ ns => ns
  | .cat _ ns => ns
  | .rep _ _ n _ _ => [n]

def Node.sub : Node → List Nat → Option Node
  | n, [] => some n
  | n, i :: p =>
    match n.kids[i]? with
    | some c => c.sub p
    | none => none

def Grammar.nodeAt (G : Grammar) (p : Pos) : Option Node :=
  match G.rules[p.1]? with
  | some r => r.2.sub p.2
  | none => none

/-- `self.rules[symbol]` (a dict: the first entry with the key) -/
def Grammar.ruleIdx (G : Grammar) (s : String) : Option Nat :=
  G.rules.findIdx? (fun p => p.1 == s)

def kidPos (p : Pos) (n : Nat) : List Pos :=
  (List.range n).map (fun j => (p.1, p.2 ++ [j]))

def kindAt (G : Grammar) (p : Pos) : PKind Pos :=
  match G.nodeAt p with
  | none => .term
  | some (.term _) => .term
  | some (.nt name _ _) => .nt ((G.ruleIdx name).map (fun k => (k, [])))
  | some (.alt _ ns) => .alt (kidPos p ns.length)
  | some (.cat _ ns) => .cat (kidPos p ns.length)
  | some (.rep _ _ _ mn _) => .rep (p.1, p.2 ++ [0]) mn

/-- constructor defaults of `distance_to_completion` -/
def initOf : Node → Dist
  | .term _ => some 1
  | .rep _ .star _ _ _ => some 0
  | .rep _ .opt _ _ _ => some 0
  | _ => none

/-- positions outside the grammar count as terminals (`kindAt`); nothing refers to them -/
def initAt (G : Grammar) (p : Pos) : Dist :=
  match G.nodeAt p with
  | some n => initOf n
  | none => some 1

mutual
/-- `Grammar.visit`: children first, then the node; terminals contribute nothing -/
def postOrder : Node → List Nat → List (List Nat)
  | .term _, _ => []
  | .nt _ _ _, p => [p]
  | .alt _ ns, p => postOrderL ns p 0 ++ [p]
  | .cat _ ns, p => postOrderL ns p 0 ++ [p]
  | .rep _ _ n _ _, p => postOrder n (p ++ [0]) ++ [p]
def postOrderL : List Node → List Nat → Nat → List (List Nat)
  | [], _, _ => []
  | n :: ns, p, i => postOrder n (p ++ [i]) ++ postOrderL ns p (i + 1)
end

def worklistFrom : List (String × Node) → Nat → List Pos
  | [], _ => []
  | r :: rs, k => (postOrder r.2 []).map (fun p => (k, p)) ++ worklistFrom rs (k + 1)

/-- the initial worklist: the rules in dict order, each in post-order -/
def worklist (G : Grammar) : List Pos := worklistFrom G.rules 0

/-- `prime()` on freshly constructed nodes -/
def primeFresh (G : Grammar) (fuel : Nat) : PRes Pos :=
  primeLoop (kindAt G) fuel (initAt G) (worklist G)

mutual
/-- `Star` and `Option` have `min = 0` (their constructors pass `min_=0`) -/
def Node.repWF : Node → Bool
  | .term _ => true
  | .nt _ _ _ => true
  | .alt _ ns => Node.repWFL ns
  | .cat _ ns => Node.repWFL ns
  | .rep _ k n mn _ => (k == .braces || k == .plus || mn == 0) && n.repWF
def Node.repWFL : List Node → Bool
  | [] => true
  | n :: ns => n.repWF && Node.repWFL ns
end

def Grammar.repWF (G : Grammar) : Bool := G.rules.all (fun r => r.2.repWF)

/-! ## annotated grammars: are the annotations what `prime()` computes? -/

def FNode.kids : FNode → List FNode
  | .term _ _ _ => []
  | .nt _ _ _ _ => []
  | .alt _ _ ns => ns
  | .cat _ _ ns => ns
  | .rep _ _ _ n _ _ => [n]

def FNode.sub : FNode → List Nat → Option FNode
  | n, [] => some n
  | n, i :: p =>
    match n.kids[i]? with
    | some c => c.sub p
    | none => none

def FGrammar.nodeAt (G : FGrammar) (p : Pos) : Option FNode :=
  match G.rules[p.1]? with
  | some r => r.2.sub p.2
  | none => none

mutual
/-- do the annotations of the node (at position `(k, p)`) agree with the state? -/
def agreesN (s : Pos → Dist) (k : Nat) : FNode → List Nat → Bool
  | .term _ d _, p => s (k, p) == some d
  | .nt _ _ _ d, p => s (k, p) == some d
  | .alt _ d ns, p => s (k, p) == some d && agreesL s k ns p 0
  | .cat _ d ns, p => s (k, p) == some d && agreesL s k ns p 0
  | .rep _ _ d n _ _, p => s (k, p) == some d && agreesN s k n (p ++ [0])
def agreesL (s : Pos → Dist) (k : Nat) : List FNode → List Nat → Nat → Bool
  | [], _, _ => true
  | n :: ns, p, i => agreesN s k n (p ++ [i]) && agreesL s k ns p (i + 1)
end

def agreesFrom (s : Pos → Dist) : List (String × FNode) → Nat → Bool
  | [], _ => true
  | r :: rs, k => agreesN s k r.2 [] && agreesFrom s rs (k + 1)

/-- **the annotated grammar carries exactly the distances `prime()` computes on fresh nodes**
    (executable: the harness evaluates it on every real grammar) -/
def primedB (G : FGrammar) : Bool :=
  G.erase.repWF &&
  match primeFresh G.erase (primeBound (worklist G.erase).length) with
  | .done s => agreesFrom s G.rules 0
  | _ => false

/-! ## what budgeted expansion needs of the distances -/

/-- a repetition with `min = 0`: with an exhausted budget `Repetition.fuzz` stops before the first iteration -/
def FNode.isSink : FNode → Bool
  | .rep _ _ _ _ 0 _ => true
  | _ => false

mutual
/-- the distances decrease along the edges budgeted expansion follows once the budget is exhausted:
    strictly from a symbol to its rule (unless the rule is a `min = 0` repetition, which then produces
    nothing), weakly from a concatenation / repetition to its parts and from an alternative to its
    minimum-distance branches -/
def WD (G : FGrammar) : FNode → Prop
  | .term _ _ _ => True
  | .nt name _ _ d => 1 ≤ d ∧ ∃ body, G.rule name = some body ∧ (body.isSink = true ∨ body.dist < d)
  | .alt _ d ns => ns ≠ [] ∧ minDist ns ≤ d ∧ WDL G ns
  | .cat _ d ns => (∀ c ∈ ns, c.dist ≤ d) ∧ WDL G ns
  | .rep _ _ d n mn _ => (1 ≤ mn → n.dist ≤ d) ∧ WD G n
def WDL (G : FGrammar) : List FNode → Prop
  | [] => True
  | n :: ns => WD G n ∧ WDL G ns
end

def WellDist (G : FGrammar) : Prop := ∀ r ∈ G.rules, WD G r.2

end FV
