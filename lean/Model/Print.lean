/-
E5 / spec text of the production sub-grammar: the printer `format_as_spec` of the grammar nodes and
the reader (ANTLR rules `alternative > concatenation > operator > symbol` of `FandangoParser.g4`
plus `GrammarProcessor.visitAlternative/visitConcatenation/visitKleene/visitPlus/visitOption/
visitRepeat/visitSymbol` of `language/parse/convert.py`).

Printer (what the code does now):
* `Alternative.format_as_spec`     `"(" + " | ".join(children) + ")"`      — always parenthesised
* `Concatenation.format_as_spec`   `" ".join(children)`                     — bare
* `Repetition._format_operand`     parenthesised iff the operand is a Concatenation / Repetition
* `Repetition.format_as_spec`      `{min,}` if `_max is None`, `{min}` if `min == max`, else `{min,max}`
* `Star/Plus/Option`               operand + `*` / `+` / `?`
* `NonTerminalNode.format_as_spec` `<name>`, `<sender:name>`, `<sender:recipient:name>`; a recipient
                                    without a sender is *not* printed
The choices that commit ec9ecf03 (F5) introduced are parameters (`PrintCfg`), extracted from the
source by `harness/translate_print.py` into `Generated/Print.lean`.

Tokens: one token per lexical unit; a brace group `{n}`, `{n,m}`, `{n,}` is one token (its bounds
are plain numbers here — computed bounds `{int(<n>)}` are outside this model, see C15 notes);
literal tokens carry the terminal's leaf, regex tokens the regex id (literal quoting is modelled
separately in `Model/PyLit.lean`).
-/
import Model.IR
namespace FV

inductive PTok where
  | lp | rp | bar
  | star | plus | quest
  /-- `{n}` -/
  | repN (n : Nat)
  /-- `{n,m}` -/
  | repNM (n m : Nat)
  /-- `{n,}` -/
  | repOpen (n : Nat)
  | nt (name : String) (sender recipient : Option String)
  | lit (l : Leaf)
  | re (id : Nat)
  deriving DecidableEq, Repr

/-- what `format_as_spec` parenthesises / how it prints an open bound (extracted from the source) -/
structure PrintCfg where
  /-- `Alternative.format_as_spec` wraps itself in `( … )` -/
  altParens : Bool
  /-- operand of a postfix operator is wrapped when it is a `Concatenation` -/
  parenCat : Bool
  /-- … when it is a `Repetition` (incl. `Star`, `Plus`, `Option`) -/
  parenRep : Bool
  /-- … when it is an `Alternative` (on top of the alternative's own parentheses) -/
  parenAlt : Bool
  /-- `_max is None` prints `{min,}`; otherwise the current cap is printed as the upper bound -/
  openBound : Bool
  /-- `nodes.MAX_REPETITIONS` (what `Repetition.max` returns for an open bound) -/
  cap : Nat
  /-- the operator characters `Star/Plus/Option.format_as_spec` append -/
  starTok : PTok
  plusTok : PTok
  optTok : PTok
  deriving DecidableEq, Repr

/-- the printer of the current code (after ec9ecf03) -/
def PrintCfg.fixed (cap : Nat) : PrintCfg :=
  { altParens := true, parenCat := true, parenRep := true, parenAlt := false, openBound := true, cap := cap,
    starTok := .star, plusTok := .plus, optTok := .quest }

/-- the printer before ec9ecf03: operands never parenthesised, open bounds printed with the cap -/
def PrintCfg.preFix (cap : Nat) : PrintCfg :=
  { altParens := true, parenCat := false, parenRep := false, parenAlt := false, openBound := false, cap := cap,
    starTok := .star, plusTok := .plus, optTok := .quest }

/-- the choices under which `read ∘ print` is the identity up to `norm` -/
def PrintCfg.Sound (c : PrintCfg) : Prop :=
  c.altParens = true ∧ c.parenCat = true ∧ c.parenRep = true ∧ c.parenAlt = false ∧ c.openBound = true
    ∧ c.starTok = .star ∧ c.plusTok = .plus ∧ c.optTok = .quest

instance (c : PrintCfg) : Decidable c.Sound := by unfold PrintCfg.Sound; exact inferInstance

def needsParen (c : PrintCfg) : Node → Bool
  | .cat _ _ => c.parenCat
  | .rep _ _ _ _ _ => c.parenRep
  | .alt _ _ => c.parenAlt
  | .term _ => false
  | .nt _ _ _ => false

/-- the postfix token of a repetition -/
def suffixTok (c : PrintCfg) (k : RepKind) (mn : Nat) (mx : Option Nat) : PTok :=
  match k with
  | .star => c.starTok
  | .plus => c.plusTok
  | .opt => c.optTok
  | .braces =>
    match mx with
    | none =>
      if c.openBound then .repOpen mn
      else if mn = c.cap then .repN mn else .repNM mn c.cap
    | some m => if mn = m then .repN mn else .repNM mn m

/-- the annotation `NonTerminalNode.format_as_spec` prints: a recipient only together with a sender -/
def printedRecipient (sender recipient : Option String) : Option String :=
  match sender with
  | none => none
  | some _ => recipient

mutual
/-- `node.format_as_spec()` as a token list -/
def print (c : PrintCfg) : Node → List PTok
  | .term (.lit l) => [.lit l]
  | .term (.regex i) => [.re i]
  | .nt n s r => [.nt n s (printedRecipient s r)]
  | .alt _ ns => if c.altParens then .lp :: (printAlts c ns ++ [.rp]) else printAlts c ns
  | .cat _ ns => printCat c ns
  | .rep _ k n mn mx =>
    (if needsParen c n then .lp :: (print c n ++ [.rp]) else print c n) ++ [suffixTok c k mn mx]
/-- `" | ".join(…)` -/
def printAlts (c : PrintCfg) : List Node → List PTok
  | [] => []
  | n :: ns => print c n ++ printAltsTail c ns
def printAltsTail (c : PrintCfg) : List Node → List PTok
  | [] => []
  | n :: ns => .bar :: (print c n ++ printAltsTail c ns)
/-- `" ".join(…)` -/
def printCat (c : PrintCfg) : List Node → List PTok
  | [] => []
  | n :: ns => print c n ++ printCat c ns
end

/-! ### the nodes the spec language can express (what the constructors in `/repo` accept) -/

/-- `Repetition.__init__`: `min ≥ 0`, `max > 0`, `max ≥ min` with `max = cap` when open; `Star`,
    `Plus`, `Option` fix their bounds -/
def kindOk (cap : Nat) (k : RepKind) (mn : Nat) (mx : Option Nat) : Bool :=
  match k, mx with
  | .star, none => mn == 0 && decide (0 < cap)
  | .plus, none => mn == 1 && decide (0 < cap)
  | .opt, some m => mn == 0 && m == 1
  | .braces, none => decide (0 < cap) && decide (mn ≤ cap)
  | .braces, some m => decide (0 < m) && decide (mn ≤ m)
  | _, _ => false

mutual
/-- expressible: no empty alternative / concatenation (the first is asserted by `Alternative`, the
    second prints as the empty string), legal repetition bounds, no recipient without a sender -/
def wf (cap : Nat) : Node → Bool
  | .term _ => true
  | .nt _ s r => s.isSome || r.isNone
  | .alt _ ns => !ns.isEmpty && wfL cap ns
  | .cat _ ns => !ns.isEmpty && wfL cap ns
  | .rep _ k n mn mx => wf cap n && kindOk cap k mn mx
def wfL (cap : Nat) : List Node → Bool
  | [] => true
  | n :: ns => wf cap n && wfL cap ns
end

mutual
/-- the shapes the front end itself builds: every alternative and every sequence has at least two
    members (`visitAlternative` / `visitConcatenation` return a single member as it is) -/
def shaped : Node → Bool
  | .term _ => true
  | .nt _ _ _ => true
  | .alt _ ns => decide (2 ≤ ns.length) && shapedL ns
  | .cat _ ns => decide (2 ≤ ns.length) && shapedL ns
  | .rep _ _ n _ _ => shaped n
def shapedL : List Node → Bool
  | [] => true
  | n :: ns => shaped n && shapedL ns
end

/-! ### what reading back produces: ids erased, singletons collapsed, directly nested sequences spliced -/

/-- `visitAlternative`: a single branch is returned as it is -/
def mkAlt : List Node → Node
  | [x] => x
  | xs => .alt "" xs

/-- `visitConcatenation`: a single operator is returned as it is -/
def mkCat : List Node → Node
  | [x] => x
  | xs => .cat "" xs

mutual
/-- the node `read (print n)` yields -/
def norm : Node → Node
  | .term t => .term t
  | .nt n s r => .nt n s (printedRecipient s r)
  | .alt _ ns => mkAlt (normL ns)
  | .cat _ ns => mkCat (itemsL ns)
  | .rep _ k n mn mx => .rep "" k (norm n) mn mx
def normL : List Node → List Node
  | [] => []
  | n :: ns => norm n :: normL ns
/-- the operator-level items a node contributes to an enclosing sequence: a `Concatenation` is
    printed bare, so its items splice into the parent's -/
def items : Node → List Node
  | .term t => [.term t]
  | .nt n s r => [.nt n s (printedRecipient s r)]
  | .alt _ ns => [mkAlt (normL ns)]
  | .cat _ ns => itemsL ns
  | .rep _ k n mn mx => [.rep "" k (norm n) mn mx]
def itemsL : List Node → List Node
  | [] => []
  | n :: ns => items n ++ itemsL ns
end

/-! ### the reader: one pass over the tokens with an explicit stack of open groups

`alternative: concatenation ('|' concatenation)*; concatenation: operator+;
 operator: symbol | symbol '*' | symbol '+' | symbol '?' | symbol '{…}';
 symbol: nonterminal_right | string | NUMBER | '(' alternative ')'`
(LL(1); the recursion of a recursive-descent parser is the explicit `List Frame` here, so that the
function is a fold over the tokens). -/

structure Frame where
  /-- finished branches of the group, latest first -/
  alts : List Node
  /-- operators of the current branch, latest first -/
  items : List Node
  /-- the latest operator is a bare symbol (may still take one postfix operator) -/
  sym : Bool
  deriving Repr

def Frame.empty : Frame := ⟨[], [], false⟩
def Frame.push (f : Frame) (n : Node) : Frame := { f with items := n :: f.items, sym := true }

/-- the branches of a group in source order -/
def Frame.branches (f : Frame) : List Node := (mkCat f.items.reverse :: f.alts).reverse

/-- end of a group / of the input: `visitAlternative` over the branches -/
def closeFrame (f : Frame) : Option Node :=
  match f.items with
  | [] => none
  | _ :: _ => some (mkAlt f.branches)

/-- `visitKleene/visitPlus/visitOption/visitRepeat`; `none` where `Repetition.__init__` raises -/
def mkRep (cap : Nat) (t : PTok) (n : Node) : Option Node :=
  match t with
  | .star => if 0 < cap then some (.rep "" .star n 0 none) else none
  | .plus => if 0 < cap then some (.rep "" .plus n 1 none) else none
  | .quest => some (.rep "" .opt n 0 (some 1))
  | .repN k => if 0 < k then some (.rep "" .braces n k (some k)) else none
  | .repNM a b => if 0 < b ∧ a ≤ b then some (.rep "" .braces n a (some b)) else none
  | .repOpen a => if 0 < cap ∧ a ≤ cap then some (.rep "" .braces n a none) else none
  | _ => none

abbrev RState := Frame × List Frame

def step (cap : Nat) (st : RState) (t : PTok) : Option RState :=
  match t with
  | .lit l => some (st.1.push (.term (.lit l)), st.2)
  | .re i => some (st.1.push (.term (.regex i)), st.2)
  | .nt n s r =>
    -- `<recipient-only>` cannot be written
    if s.isSome || r.isNone then some (st.1.push (.nt n s r), st.2) else none
  | .lp => some (Frame.empty, st.1 :: st.2)
  | .rp =>
    match st.2 with
    | [] => none
    | g :: rest =>
      match closeFrame st.1 with
      | none => none
      | some n => some (g.push n, rest)
  | .bar =>
    match st.1.items with
    | [] => none
    | _ :: _ => some (⟨mkCat st.1.items.reverse :: st.1.alts, [], false⟩, st.2)
  | op =>
    match st.1.items, st.1.sym with
    | x :: xs, true =>
      match mkRep cap op x with
      | some r => some ({ st.1 with items := r :: xs, sym := false }, st.2)
      | none => none
    | _, _ => none

def run (cap : Nat) : RState → List PTok → Option RState
  | st, [] => some st
  | st, t :: ts =>
    match step cap st t with
    | some st' => run cap st' ts
    | none => none

/-- the right-hand side of a production, read back; `none` = the front end rejects the text -/
def read (cap : Nat) (ts : List PTok) : Option Node :=
  match run cap (Frame.empty, []) ts with
  | some (f, []) => closeFrame f
  | _ => none

/-! ### layout of the printed text (where `format_as_spec` puts blanks) -/

def PTok.isPostfix : PTok → Bool
  | .star | .plus | .quest | .repN _ | .repNM _ _ | .repOpen _ => true
  | _ => false

/-- tokens after which a postfix operator is legal: an atom or a closing parenthesis -/
def PTok.endsSymbol : PTok → Bool
  | .rp | .nt _ _ _ | .lit _ | .re _ => true
  | _ => false

/-- every postfix operator directly follows an atom or a parenthesised group (`prev` = the token
    before the list) -/
def postfixOk : Option PTok → List PTok → Bool
  | _, [] => true
  | prev, t :: ts =>
    (if t.isPostfix then (match prev with | some p => p.endsSymbol | none => false) else true)
      && postfixOk (some t) ts

end FV
