/-
E5 / spec text of the production sub-grammar: the printer `format_as_spec` of the grammar nodes and
the reader (ANTLR rules `alternative > concatenation > operator > symbol` of `FandangoParser.g4`
plus `GrammarProcessor.visitAlternative/visitConcatenation/visitKleene/visitPlus/visitOption/
visitRepeat/visitSymbol` of `language/parse/convert.py`).

Printer (what the code does now):
* `Alternative.format_as_spec`     `"(" + " | ".join(children) + ")"`      — always parenthesised
* `Concatenation.format_as_spec`   `" ".join(children)`                     — bare
* `Repetition._format_operand`     parenthesised iff the operand is a Concatenation / Repetition
* `Repetition.format_as_spec`      `{min,}` if `_max is None`, `{min}` if `min == max`, else `{min,max}`
* `Star/Plus/Option`               operand + `*` / `+` / `?`
* `NonTerminalNode.format_as_spec` `<name>`, `<sender:name>`, `<sender:recipient:name>`; a recipient
                                    without a sender is *not* printed
The choices that commit ec9ecf03 (F5) introduced are parameters (`PrintCfg`), extracted from the
source by `harness/translate_print.py` into `Generated/Print.lean`.

Tokens: one token per lexical unit; a brace group `{n}`, `{n,m}`, `{n,}` is one token; a brace group
with a *computed* bound (`{int(<n>)}`, `{1,int(<n>)}`, `{int(<n>),}`) is the token `repC`, which
carries the flat lexical form of its bound expressions; literal tokens carry the terminal's leaf,
regex tokens the regex id (literal / regex quoting is modelled separately in `Model/PyLit.lean`).

Expressions (computed bounds, generators `:= f(<a>)`): `Repetition.bounds_constraint.expr_data_min/max`
and `LiteralGenerator.call` are Python text (`ast.unparse`) in which every selector occurrence is an
internal placeholder name, plus a map from the placeholders to the searches.  The model keeps the
structure and drops the names: `Expr = List Seg`, a segment being a chunk of Python text carried
verbatim (`code`, opaque) or a selector occurrence (`sel`, a `PS.Top`).  `format_as_spec` substitutes
each placeholder by its search's `format_as_spec()` (`RepetitionBoundsConstraint._format_bound`,
`LiteralGenerator.format_as_spec`): `printE`.  Reading back, `SearchProcessor` gives every selector
occurrence a fresh placeholder and records the search it reads: `readE` (a maximal run of selector
tokens is one occurrence, read by `PS.readTop`).  WHERE a selector occurrence starts and ends inside
Python text is decided by the ANTLR expression grammar, which is not modelled: the segmentation is
taken from the real front end by the correspondence check.

Nodes: `ENode` = the IR `Node` of `Model/IR.lean` + `crep`, a repetition with computed bounds.  Its
language over child tokens is that of its static approximation (`erase`): the `min`/`max` the
`Repetition` node is built with in `visitRepeat`.
-/
import Model.IR
import Model.PrintSearch
namespace FV

/-! ### expressions with embedded selectors -/

inductive Seg where
  /-- Python text, verbatim -/
  | code (text : String)
  /-- a selector occurrence (a placeholder and its search) -/
  | sel (t : PS.Top)
  deriving DecidableEq, Repr

abbrev Expr := List Seg

/-- flat lexical form of an expression -/
inductive ETok where
  | code (text : String)
  | s (t : PS.STok)
  deriving DecidableEq, Repr

/-- placeholders substituted by `search.format_as_spec()`; `pb`: the base of a `[…]` / `{…}` group is
    parenthesised unless it is a plain non-terminal (`format_as_base`, fix 9a10ad80) -/
def printE (pb : Bool) : Expr → List ETok
  | [] => []
  | .code c :: r => .code c :: printE pb r
  | .sel t :: r => (PS.printTop pb t).map .s ++ printE pb r

/-- end of a run of selector tokens -/
def flushE (cur : List PS.STok) : Option Expr :=
  if cur.isEmpty then some [] else (PS.readTop cur).map (fun t => [.sel t])

/-- `SearchProcessor` over the expression: every maximal run of selector tokens is one occurrence -/
def readEAux : List PS.STok → List ETok → Option Expr
  | cur, [] => flushE cur
  | cur, .s t :: r => readEAux (cur ++ [t]) r
  | cur, .code c :: r =>
    match flushE cur, readEAux [] r with
    | some a, some b => some (a ++ .code c :: b)
    | _, _ => none

def readE (ts : List ETok) : Option Expr := readEAux [] ts

/-- expressible: every selector is, and no two selector occurrences are adjacent -/
def wfE : Expr → Bool
  | [] => true
  | .code _ :: r => wfE r
  | [.sel t] => PS.wfTop t
  | .sel t :: .code c :: r => PS.wfTop t && wfE (.code c :: r)
  | .sel _ :: .sel _ :: _ => false

def normE : Expr → Expr
  | [] => []
  | .code c :: r => .code c :: normE r
  | .sel t :: r => .sel (PS.normTop t) :: normE r

/-- a bound of a computed repetition: `expr_data_min` / `expr_data_max` (`text.isdigit()` or not) -/
inductive Bound where
  | num (n : Nat)
  | expr (e : Expr)
  deriving DecidableEq, Repr

/-- the bounds a `RepetitionBoundsConstraint` holds -/
inductive CB where
  /-- `{e}`: `expr_data_max is expr_data_min` -/
  | single (e : Expr)
  /-- `{lo,hi}`; `hi = none`: no upper bound was written (`expr_data_max` is the default cap) -/
  | range (lo : Bound) (hi : Option Bound)
  deriving DecidableEq, Repr

inductive BoundT where
  | num (n : Nat)
  | expr (ts : List ETok)
  deriving DecidableEq, Repr

/-- the brace group of a computed repetition as written: `{e}` or `{lo?,hi?}` -/
inductive CBT where
  | single (ts : List ETok)
  | range (lo hi : Option BoundT)
  deriving DecidableEq, Repr

def printB (pb : Bool) : Bound → BoundT
  | .num n => .num n
  | .expr e => .expr (printE pb e)

/-- `RepetitionBoundsConstraint.format_bounds_as_spec` -/
def printCB (pb : Bool) : CB → CBT
  | .single e => .single (printE pb e)
  | .range lo hi => .range (some (printB pb lo)) (hi.map (printB pb))

def readB : BoundT → Option Bound
  | .num n => some (.num n)
  | .expr ts => (readE ts).map .expr

def Bound.isExpr : Bound → Bool
  | .expr _ => true
  | .num _ => false

/-- `min_` of the `Repetition` built for a computed repetition: `1` for `{e}`; for `{lo,hi}` the
    literal lower bound, `0` (then `1`: "if min_arg == 0: min_arg = 1") otherwise -/
def cbMin : CB → Nat
  | .single _ => 1
  | .range (.num k) _ => if k = 0 then 1 else k
  | .range (.expr _) _ => 1

/-- `max_`: a literal upper bound, raised to the minimum; else open -/
def cbMax : CB → Option Nat
  | .single _ => none
  | .range lo (some (.num m)) => some (max m (cbMin (.range lo none)))
  | .range _ _ => none

def wfB : Bound → Bool
  | .num _ => true
  | .expr e => wfE e

def normB : Bound → Bound
  | .num n => .num n
  | .expr e => .expr (normE e)

def normCB : CB → CB
  | .single e => .single (normE e)
  | .range lo hi => .range (normB lo) (hi.map normB)

/-- the IR of `Model/IR.lean` plus repetitions with computed bounds -/
inductive ENode where
  | term (t : Term)
  | nt (name : String) (sender recipient : Option String)
  | alt (id : String) (ns : List ENode)
  | cat (id : String) (ns : List ENode)
  | rep (id : String) (kind : RepKind) (n : ENode) (min : Nat) (max : Option Nat)
  /-- `Repetition` with a `bounds_constraint` -/
  | crep (id : String) (n : ENode) (b : CB)
  deriving Repr

mutual
/-- the grammar node alone: a computed repetition as the static `min`/`max` it is built with -/
def erase : ENode → Node
  | .term t => .term t
  | .nt n s r => .nt n s r
  | .alt id ns => .alt id (eraseL ns)
  | .cat id ns => .cat id (eraseL ns)
  | .rep id k n mn mx => .rep id k (erase n) mn mx
  | .crep id n b => .rep id .braces (erase n) (cbMin b) (cbMax b)
def eraseL : List ENode → List Node
  | [] => []
  | n :: ns => erase n :: eraseL ns
end

mutual
/-- a plain IR node as an `ENode` -/
def embed : Node → ENode
  | .term t => .term t
  | .nt n s r => .nt n s r
  | .alt id ns => .alt id (embedL ns)
  | .cat id ns => .cat id (embedL ns)
  | .rep id k n mn mx => .rep id k (embed n) mn mx
def embedL : List Node → List ENode
  | [] => []
  | n :: ns => embed n :: embedL ns
end

inductive PTok where
  | lp | rp | bar
  | star | plus | quest
  /-- `{n}` -/
  | repN (n : Nat)
  /-- `{n,m}` -/
  | repNM (n m : Nat)
  /-- `{n,}` -/
  | repOpen (n : Nat)
  /-- a brace group with a computed bound -/
  | repC (b : CBT)
  | nt (name : String) (sender recipient : Option String)
  | lit (l : Leaf)
  | re (id : Nat)
  deriving DecidableEq, Repr

/-- what `format_as_spec` parenthesises / how it prints an open bound (extracted from the source) -/
structure PrintCfg where
  /-- `Alternative.format_as_spec` wraps itself in `( … )` -/
  altParens : Bool
  /-- operand of a postfix operator is wrapped when it is a `Concatenation` -/
  parenCat : Bool
  /-- … when it is a `Repetition` (incl. `Star`, `Plus`, `Option`) -/
  parenRep : Bool
  /-- … when it is an `Alternative` (on top of the alternative's own parentheses) -/
  parenAlt : Bool
  /-- `_max is None` prints `{min,}`; otherwise the current cap is printed as the upper bound -/
  openBound : Bool
  /-- `nodes.MAX_REPETITIONS` (what `Repetition.max` returns for an open bound) -/
  cap : Nat
  /-- the operator characters `Star/Plus/Option.format_as_spec` append -/
  starTok : PTok
  plusTok : PTok
  optTok : PTok
  /-- selectors: `ItemSearch` / `SelectiveSearch.format_as_spec` print their base through
      `format_as_base` (in parentheses unless it is a plain non-terminal; fix 9a10ad80) -/
  parenSelBase : Bool
  deriving DecidableEq, Repr

/-- the printer of the current code (after ec9ecf03) -/
def PrintCfg.fixed (cap : Nat) : PrintCfg :=
  { altParens := true, parenCat := true, parenRep := true, parenAlt := false, openBound := true, cap := cap,
    starTok := .star, plusTok := .plus, optTok := .quest, parenSelBase := true }

/-- the printer before ec9ecf03: operands never parenthesised, open bounds printed with the cap -/
def PrintCfg.preFix (cap : Nat) : PrintCfg :=
  { altParens := true, parenCat := false, parenRep := false, parenAlt := false, openBound := false, cap := cap,
    starTok := .star, plusTok := .plus, optTok := .quest, parenSelBase := false }

/-- the choices under which `read ∘ print` is the identity up to `norm` -/
def PrintCfg.Sound (c : PrintCfg) : Prop :=
  c.altParens = true ∧ c.parenCat = true ∧ c.parenRep = true ∧ c.parenAlt = false ∧ c.openBound = true
    ∧ c.starTok = .star ∧ c.plusTok = .plus ∧ c.optTok = .quest ∧ c.parenSelBase = true

instance (c : PrintCfg) : Decidable c.Sound := by unfold PrintCfg.Sound; exact inferInstance

def needsParen (c : PrintCfg) : ENode → Bool
  | .cat _ _ => c.parenCat
  | .rep _ _ _ _ _ => c.parenRep
  | .crep _ _ _ => c.parenRep
  | .alt _ _ => c.parenAlt
  | .term _ => false
  | .nt _ _ _ => false

/-- the postfix token of a repetition -/
def suffixTok (c : PrintCfg) (k : RepKind) (mn : Nat) (mx : Option Nat) : PTok :=
  match k with
  | .star => c.starTok
  | .plus => c.plusTok
  | .opt => c.optTok
  | .braces =>
    match mx with
    | none =>
      if c.openBound then .repOpen mn
      else if mn = c.cap then .repN mn else .repNM mn c.cap
    | some m => if mn = m then .repN mn else .repNM mn m

/-- the annotation `NonTerminalNode.format_as_spec` prints: a recipient only together with a sender -/
def printedRecipient (sender recipient : Option String) : Option String :=
  match sender with
  | none => none
  | some _ => recipient

mutual
/-- `node.format_as_spec()` as a token list -/
def print (c : PrintCfg) : ENode → List PTok
  | .term (.lit l) => [.lit l]
  | .term (.regex i) => [.re i]
  | .nt n s r => [.nt n s (printedRecipient s r)]
  | .alt _ ns => if c.altParens then .lp :: (printAlts c ns ++ [.rp]) else printAlts c ns
  | .cat _ ns => printCat c ns
  | .rep _ k n mn mx =>
    (if needsParen c n then .lp :: (print c n ++ [.rp]) else print c n) ++ [suffixTok c k mn mx]
  | .crep _ n b =>
    (if needsParen c n then .lp :: (print c n ++ [.rp]) else print c n) ++ [.repC (printCB c.parenSelBase b)]
/-- `" | ".join(…)` -/
def printAlts (c : PrintCfg) : List ENode → List PTok
  | [] => []
  | n :: ns => print c n ++ printAltsTail c ns
def printAltsTail (c : PrintCfg) : List ENode → List PTok
  | [] => []
  | n :: ns => .bar :: (print c n ++ printAltsTail c ns)
/-- `" ".join(…)` -/
def printCat (c : PrintCfg) : List ENode → List PTok
  | [] => []
  | n :: ns => print c n ++ printCat c ns
end

/-! ### the nodes the spec language can express (what the constructors in `/repo` accept) -/

/-- `Repetition.__init__`: `min ≥ 0`, `max > 0`, `max ≥ min` with `max = cap` when open; `Star`,
    `Plus`, `Option` fix their bounds -/
def kindOk (cap : Nat) (k : RepKind) (mn : Nat) (mx : Option Nat) : Bool :=
  match k, mx with
  | .star, none => mn == 0 && decide (0 < cap)
  | .plus, none => mn == 1 && decide (0 < cap)
  | .opt, some m => mn == 0 && m == 1
  | .braces, none => decide (0 < cap) && decide (mn ≤ cap)
  | .braces, some m => decide (0 < m) && decide (mn ≤ m)
  | _, _ => false

/-- computed bounds the front end builds: at least one bound is an expression (else the repetition
    is a plain one), the expressions are expressible, the static bounds are accepted by
    `Repetition.__init__` -/
def wfCB (cap : Nat) (b : CB) : Bool :=
  (match b with
   | .single e => wfE e
   | .range lo none => lo.isExpr && wfB lo
   | .range lo (some hi) => (lo.isExpr || hi.isExpr) && wfB lo && wfB hi)
  && kindOk cap .braces (cbMin b) (cbMax b)

mutual
/-- expressible: no empty alternative / concatenation (the first is asserted by `Alternative`, the
    second prints as the empty string), legal repetition bounds, no recipient without a sender -/
def wf (cap : Nat) : ENode → Bool
  | .term _ => true
  | .nt _ s r => s.isSome || r.isNone
  | .alt _ ns => !ns.isEmpty && wfL cap ns
  | .cat _ ns => !ns.isEmpty && wfL cap ns
  | .rep _ k n mn mx => wf cap n && kindOk cap k mn mx
  | .crep _ n b => wf cap n && wfCB cap b
def wfL (cap : Nat) : List ENode → Bool
  | [] => true
  | n :: ns => wf cap n && wfL cap ns
end

mutual
/-- the shapes the front end itself builds: every alternative and every sequence has at least two
    members (`visitAlternative` / `visitConcatenation` return a single member as it is) -/
def shaped : ENode → Bool
  | .term _ => true
  | .nt _ _ _ => true
  | .alt _ ns => decide (2 ≤ ns.length) && shapedL ns
  | .cat _ ns => decide (2 ≤ ns.length) && shapedL ns
  | .rep _ _ n _ _ => shaped n
  | .crep _ n _ => shaped n
def shapedL : List ENode → Bool
  | [] => true
  | n :: ns => shaped n && shapedL ns
end

/-! ### what reading back produces: ids erased, singletons collapsed, directly nested sequences spliced -/

/-- `visitAlternative`: a single branch is returned as it is -/
def mkAlt : List ENode → ENode
  | [x] => x
  | xs => .alt "" xs

/-- `visitConcatenation`: a single operator is returned as it is -/
def mkCat : List ENode → ENode
  | [x] => x
  | xs => .cat "" xs

mutual
/-- the node `read (print n)` yields -/
def norm : ENode → ENode
  | .term t => .term t
  | .nt n s r => .nt n s (printedRecipient s r)
  | .alt _ ns => mkAlt (normL ns)
  | .cat _ ns => mkCat (itemsL ns)
  | .rep _ k n mn mx => .rep "" k (norm n) mn mx
  | .crep _ n b => .crep "" (norm n) (normCB b)
def normL : List ENode → List ENode
  | [] => []
  | n :: ns => norm n :: normL ns
/-- the operator-level items a node contributes to an enclosing sequence: a `Concatenation` is
    printed bare, so its items splice into the parent's -/
def items : ENode → List ENode
  | .term t => [.term t]
  | .nt n s r => [.nt n s (printedRecipient s r)]
  | .alt _ ns => [mkAlt (normL ns)]
  | .cat _ ns => itemsL ns
  | .rep _ k n mn mx => [.rep "" k (norm n) mn mx]
  | .crep _ n b => [.crep "" (norm n) (normCB b)]
def itemsL : List ENode → List ENode
  | [] => []
  | n :: ns => items n ++ itemsL ns
end

/-! ### the reader: one pass over the tokens with an explicit stack of open groups

`alternative: concatenation ('|' concatenation)*; concatenation: operator+;
 operator: symbol | symbol '*' | symbol '+' | symbol '?' | symbol '{…}';
 symbol: nonterminal_right | string | NUMBER | '(' alternative ')'`
(LL(1); the recursion of a recursive-descent parser is the explicit `List Frame` here, so that the
function is a fold over the tokens). -/

structure Frame where
  /-- finished branches of the group, latest first -/
  alts : List ENode
  /-- operators of the current branch, latest first -/
  items : List ENode
  /-- the latest operator is a bare symbol (may still take one postfix operator) -/
  sym : Bool
  deriving Repr

def Frame.empty : Frame := ⟨[], [], false⟩
def Frame.push (f : Frame) (n : ENode) : Frame := { f with items := n :: f.items, sym := true }

/-- the branches of a group in source order -/
def Frame.branches (f : Frame) : List ENode := (mkCat f.items.reverse :: f.alts).reverse

/-- end of a group / of the input: `visitAlternative` over the branches -/
def closeFrame (f : Frame) : Option ENode :=
  match f.items with
  | [] => none
  | _ :: _ => some (mkAlt f.branches)

/-- `visitRepeat` for a brace group with a comma, after the bounds have been read: literal bounds only
    → a plain repetition; else a computed one (an omitted lower bound is `0`) -/
def mkRange (cap : Nat) (n : ENode) (lo hi : Option Bound) : Option ENode :=
  let computed := (match lo with | some b => b.isExpr | none => false) ||
                  (match hi with | some b => b.isExpr | none => false)
  if computed then
    let b := CB.range (lo.getD (.num 0)) hi
    if kindOk cap .braces (cbMin b) (cbMax b) then some (.crep "" n b) else none
  else
    let mn := match lo with | some (.num k) => k | _ => 0
    let mx := match hi with | some (.num m) => some m | _ => none
    if kindOk cap .braces mn mx then some (.rep "" .braces n mn mx) else none

def readOptB : Option BoundT → Option (Option Bound)
  | none => some none
  | some b => (readB b).map some

/-- `visitKleene/visitPlus/visitOption/visitRepeat`; `none` where `Repetition.__init__` raises -/
def mkRep (cap : Nat) (t : PTok) (n : ENode) : Option ENode :=
  match t with
  | .repC (.single ts) =>
    match readE ts with
    | some e => if kindOk cap .braces 1 none then some (.crep "" n (.single e)) else none
    | none => none
  | .repC (.range lo hi) =>
    match readOptB lo, readOptB hi with
    | some l, some h => mkRange cap n l h
    | _, _ => none
  | .star => if 0 < cap then some (.rep "" .star n 0 none) else none
  | .plus => if 0 < cap then some (.rep "" .plus n 1 none) else none
  | .quest => some (.rep "" .opt n 0 (some 1))
  | .repN k => if 0 < k then some (.rep "" .braces n k (some k)) else none
  | .repNM a b => if 0 < b ∧ a ≤ b then some (.rep "" .braces n a (some b)) else none
  | .repOpen a => if 0 < cap ∧ a ≤ cap then some (.rep "" .braces n a none) else none
  | _ => none

abbrev RState := Frame × List Frame

def step (cap : Nat) (st : RState) (t : PTok) : Option RState :=
  match t with
  | .lit l => some (st.1.push (.term (.lit l)), st.2)
  | .re i => some (st.1.push (.term (.regex i)), st.2)
  | .nt n s r =>
    -- `<recipient-only>` cannot be written
    if s.isSome || r.isNone then some (st.1.push (.nt n s r), st.2) else none
  | .lp => some (Frame.empty, st.1 :: st.2)
  | .rp =>
    match st.2 with
    | [] => none
    | g :: rest =>
      match closeFrame st.1 with
      | none => none
      | some n => some (g.push n, rest)
  | .bar =>
    match st.1.items with
    | [] => none
    | _ :: _ => some (⟨mkCat st.1.items.reverse :: st.1.alts, [], false⟩, st.2)
  | op =>
    match st.1.items, st.1.sym with
    | x :: xs, true =>
      match mkRep cap op x with
      | some r => some ({ st.1 with items := r :: xs, sym := false }, st.2)
      | none => none
    | _, _ => none

def run (cap : Nat) : RState → List PTok → Option RState
  | st, [] => some st
  | st, t :: ts =>
    match step cap st t with
    | some st' => run cap st' ts
    | none => none

/-- the right-hand side of a production, read back; `none` = the front end rejects the text -/
def read (cap : Nat) (ts : List PTok) : Option ENode :=
  match run cap (Frame.empty, []) ts with
  | some (f, []) => closeFrame f
  | _ => none

/-! ### layout of the printed text (where `format_as_spec` puts blanks) -/

def PTok.isPostfix : PTok → Bool
  | .star | .plus | .quest | .repN _ | .repNM _ _ | .repOpen _ | .repC _ => true
  | _ => false

/-- tokens after which a postfix operator is legal: an atom or a closing parenthesis -/
def PTok.endsSymbol : PTok → Bool
  | .rp | .nt _ _ _ | .lit _ | .re _ => true
  | _ => false

/-- every postfix operator directly follows an atom or a parenthesised group (`prev` = the token
    before the list) -/
def postfixOk : Option PTok → List PTok → Bool
  | _, [] => true
  | prev, t :: ts =>
    (if t.isPostfix then (match prev with | some p => p.endsSymbol | none => false) else true)
      && postfixOk (some t) ts

/-! ### productions and grammars: `Grammar.__repr__` / `get_repr_for_rule`,
`production: nonterminal '::=' alternative (':=' expression)?`, `GrammarProcessor.get_grammar` -/

structure Rule where
  name : String
  rhs : ENode
  /-- `LiteralGenerator`: the generator expression with its symbol arguments -/
  gen : Option Expr
  deriving Repr

/-- one printed production, as the parser splits it -/
structure RuleText where
  name : String
  rhs : List PTok
  /-- the expression behind `:=` -/
  gen : Option (List ETok)
  deriving Repr

def printRule (c : PrintCfg) (r : Rule) : RuleText :=
  ⟨r.name, print c r.rhs, r.gen.map (printE c.parenSelBase)⟩

def readRule (cap : Nat) (t : RuleText) : Option Rule :=
  match read cap t.rhs, (match t.gen with | none => some none | some g => (readE g).map some) with
  | some n, some g => some ⟨t.name, n, g⟩
  | _, _ => none

def wfRule (cap : Nat) (r : Rule) : Bool :=
  wf cap r.rhs && (match r.gen with | none => true | some g => wfE g)

def normRule (r : Rule) : Rule := ⟨r.name, norm r.rhs, r.gen.map normE⟩

/-- `"\n".join(…)` over the rules -/
def printG (c : PrintCfg) : List Rule → List RuleText
  | [] => []
  | r :: rs => printRule c r :: printG c rs

/-- a later production of a symbol replaces the earlier one and its generator, at the earlier one's
    place (`grammar[symbol] = …`, `remove_generator`, then `set_generator`) -/
def setRule (r : Rule) : List Rule → List Rule
  | [] => [r]
  | x :: xs => if x.name = r.name then r :: xs else x :: setRule r xs

def readGAux (cap : Nat) (acc : List Rule) : List RuleText → Option (List Rule)
  | [] => some acc
  | t :: ts =>
    match readRule cap t with
    | some r => readGAux cap (setRule r acc) ts
    | none => none

def readG (cap : Nat) (ts : List RuleText) : Option (List Rule) := readGAux cap [] ts

def wfG (cap : Nat) : List Rule → Bool
  | [] => true
  | r :: rs => wfRule cap r && rs.all (fun x => x.name != r.name) && wfG cap rs

def normG : List Rule → List Rule
  | [] => []
  | r :: rs => normRule r :: normG rs

end FV
