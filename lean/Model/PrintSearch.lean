/-
E5 / spec text of the selector sub-grammar (C15, constraint side): the printer `format_as_spec` of the
search classes of `language/search.py` and the reader (ANTLR rules `selector_length`,
`star_selection`, `dot_selection`, `selection`, `base_selection`, `rs_pairs`, `rs_pair`, `rs_slices`,
`rs_slice` of `FandangoParser.g4` + `SearchProcessor.visitSelector_length / visitStar_selection /
get_attribute_searches / transform_selection / visitBase_selection / visitRs_pairs / visitRs_pair /
visitRs_slices / visitRs_slice` of `language/parse/convert.py`).

Printer (what the code does now):
* `RuleSearch`                 `<name>`
* `AttributeSearch`            `base.attribute`            (no parentheses, whatever the operands are)
* `DescendantAttributeSearch`  `base..attribute`
* `ItemSearch`                 `base[s1, s2, …]`; a slice prints `start:stop` / `start:stop:step` with
                               omitted bounds left out (`:`, `:2`, `2:`, `::2`), an index as the number
* `SelectiveSearch`            `base{*<x>, *<y>: 0:2}` (`: ` before the index / slice; without the `*`
                               when the entry is `direct` — which the grammar cannot express: `rs_pair`
                               requires the `*`)
* `StarSearch`                 `*base`
* `LengthSearch`               `len(*base)` over a star search (fix 630e7747), else `|base|`
* `AnnotatedSearch`            its inner search (transparent, not modelled)

* the base of a `[…]` / `{…}` group (`NonTerminalSearch.format_as_base`, fix 9a10ad80): bare when it is
  a plain non-terminal, in parentheses otherwise.  `pb = false` is the printer before that fix (every base
  bare), kept for the witness `C15_search_parens_matter`.

Reader: `dot_selection` is left-recursive — `a.b.c` is `(a.b).c` — and a selection is a non-terminal
or a parenthesised `dot_selection`, optionally followed by ONE `[…]` or `{…}` group.  The printer writes
no parentheses around the attribute of a dot, so `<a>.(<b>.<c>)` is read back as `(<a>.<b>).<c>`:
`normSel` (dots nested to the left, everywhere; which finds the same trees in the same order).

Numbers are `NUMBER` tokens read with `int(…)`: naturals (a negative index is Python's unary minus and
never reaches `rs_slice`).

Tokens: one per lexical unit.  Import-free: linked into `drv_print`.
-/
namespace FV.PS

inductive Slice where
  /-- `[i]` -/
  | idx (n : Nat)
  /-- `[a:b]` / `[a:b:c]`, each bound optional (`slice(a, b, c)`) -/
  | rng (start stop step : Option Nat)
  deriving DecidableEq, Repr

/-- one entry `*<sym>: items` of a `{…}` selector -/
structure Pair where
  sym : String
  /-- `(symbol, is_direct)`: the grammar always writes `*`, i.e. `direct = false` -/
  direct : Bool
  items : Option Slice
  deriving DecidableEq, Repr

inductive Sel where
  | rule (nt : String)
  | attr (base a : Sel)
  | desc (base a : Sel)
  | item (base : Sel) (sl : List Slice)
  | sel (base : Sel) (ps : List Pair)
  deriving DecidableEq, Repr

/-- what a selector placeholder stands for: `selector_length` -/
inductive Top where
  | plain (s : Sel)
  /-- `StarSearch` -/
  | star (s : Sel)
  /-- `LengthSearch` over a plain search: `|s|` -/
  | lenBar (s : Sel)
  /-- `LengthSearch(StarSearch s)`: `len(*s)` -/
  | lenStar (s : Sel)
  deriving DecidableEq, Repr

inductive STok where
  | nt (name : String)
  | dot | dotdot
  | lbr | rbr | lbrace | rbrace
  | comma | colon | star
  | num (n : Nat)
  | lp | rp | bar | len
  deriving DecidableEq, Repr

/-! ### printer -/

def optNum : Option Nat → List STok
  | none => []
  | some n => [.num n]

/-- `repr(start) ":" repr(stop) [":" repr(step)]`, or `repr(index)` -/
def printSlice : Slice → List STok
  | .idx n => [.num n]
  | .rng a b c => optNum a ++ .colon :: (optNum b ++ (match c with | none => [] | some k => [.colon, .num k]))

/-- `", ".join(…)` -/
def printSlices : List Slice → List STok
  | [] => []
  | [s] => printSlice s
  | s :: ss => printSlice s ++ .comma :: printSlices ss

def printPair (p : Pair) : List STok :=
  (if p.direct then [] else [.star]) ++ .nt p.sym ::
    (match p.items with | none => [] | some sl => .colon :: printSlice sl)

def printPairs : List Pair → List STok
  | [] => []
  | [p] => printPair p
  | p :: ps => printPair p ++ .comma :: printPairs ps

/-- `base.format_as_base()`; `pb = false`: the base printed bare (before 9a10ad80) -/
def printBase (pb : Bool) (b : Sel) (inner : List STok) : List STok :=
  match b with
  | .rule _ => inner
  | _ => if pb then .lp :: (inner ++ [.rp]) else inner

/-- `search.format_as_spec()` -/
def printSel (pb : Bool) : Sel → List STok
  | .rule n => [.nt n]
  | .attr b a => printSel pb b ++ .dot :: printSel pb a
  | .desc b a => printSel pb b ++ .dotdot :: printSel pb a
  | .item b sl => printBase pb b (printSel pb b) ++ .lbr :: (printSlices sl ++ [.rbr])
  | .sel b ps => printBase pb b (printSel pb b) ++ .lbrace :: (printPairs ps ++ [.rbrace])

def printTop (pb : Bool) : Top → List STok
  | .plain s => printSel pb s
  | .star s => .star :: printSel pb s
  | .lenBar s => .bar :: (printSel pb s ++ [.bar])
  | .lenStar s => .len :: .lp :: .star :: (printSel pb s ++ [.rp])

/-! ### reader: one pass over the tokens, explicit stack of open parentheses -/

/-- the numbers of one `rs_slice`, placed by the colons around them -/
structure SliceAcc where
  a : Option Nat
  b : Option Nat
  c : Option Nat
  /-- colons seen -/
  pos : Nat
  /-- something seen -/
  any : Bool
  deriving DecidableEq, Repr

def SliceAcc.fresh : SliceAcc := ⟨none, none, none, 0, false⟩

/-- a `NUMBER` or a `:` inside an `rs_slice` -/
def accStep (acc : SliceAcc) : STok → Option SliceAcc
  | .num n =>
    match acc.pos with
    | 0 => if acc.a.isNone then some { acc with a := some n, any := true } else none
    | 1 => if acc.b.isNone then some { acc with b := some n, any := true } else none
    | 2 => if acc.c.isNone then some { acc with c := some n, any := true } else none
    | _ => none
  | .colon => if acc.pos < 2 then some { acc with pos := acc.pos + 1, any := true } else none
  | _ => none

/-- `visitRs_slice`: no colon → `int(NUMBER)`; else `slice(*parts)` -/
def SliceAcc.finish (acc : SliceAcc) : Option Slice :=
  if acc.any = false then none
  else if acc.pos = 0 then acc.a.map .idx
  else some (.rng acc.a acc.b acc.c)

/-- where we are inside `{ rs_pair, … }` -/
inductive PStage where
  /-- before the `*` of an entry (or the closing brace after a trailing comma) -/
  | star
  | nt
  /-- after the non-terminal: `:`, `,` or `}` -/
  | after (n : String)
  | inSlice (n : String) (acc : SliceAcc)
  deriving DecidableEq, Repr

inductive Mode where
  | chain
  | slices (done : List Slice) (acc : SliceAcc)
  | pairs (done : List Pair) (st : PStage)
  deriving DecidableEq, Repr

structure SFrame where
  /-- the `dot_selection` to the left and the operator after it (`true` = `..`) -/
  left : Option (Sel × Bool)
  /-- the selection being read; `true`: it may still take a `[…]` / `{…}` group -/
  cur : Option (Sel × Bool)
  mode : Mode
  deriving DecidableEq, Repr

def SFrame.empty : SFrame := ⟨none, none, .chain⟩

/-- `get_attribute_searches`: `AttributeSearch(left, s)` / `DescendantAttributeSearch(left, s)` -/
def comb (left : Option (Sel × Bool)) (s : Sel) : Sel :=
  match left with
  | none => s
  | some (l, false) => .attr l s
  | some (l, true) => .desc l s

abbrev SState := SFrame × List SFrame

/-- the slices at a closing `]` / the last entry's slice: a fresh accumulator is a trailing comma -/
def closeSlices (done : List Slice) (acc : SliceAcc) : Option (List Slice) :=
  if acc.any then acc.finish.map (fun sl => done ++ [sl])
  else if done.isEmpty then none else some done

def stepS (st : SState) (t : STok) : Option SState :=
  let f := st.1
  match f.mode with
  | .chain =>
    match t with
    | .nt n => if f.cur.isNone then some ({ f with cur := some (.rule n, true) }, st.2) else none
    | .dot =>
      match f.cur with
      | some (s, _) => some ({ f with left := some (comb f.left s, false), cur := none }, st.2)
      | none => none
    | .dotdot =>
      match f.cur with
      | some (s, _) => some ({ f with left := some (comb f.left s, true), cur := none }, st.2)
      | none => none
    | .lp => if f.cur.isNone then some (SFrame.empty, f :: st.2) else none
    | .rp =>
      match f.cur, st.2 with
      | some (s, _), g :: rest => some ({ g with cur := some (comb f.left s, true) }, rest)
      | _, _ => none
    | .lbr =>
      match f.cur with
      | some (_, true) => some ({ f with mode := .slices [] SliceAcc.fresh }, st.2)
      | _ => none
    | .lbrace =>
      match f.cur with
      | some (_, true) => some ({ f with mode := .pairs [] .star }, st.2)
      | _ => none
    | _ => none
  | .slices done acc =>
    match t with
    | .comma =>
      match acc.finish with
      | some sl => some ({ f with mode := .slices (done ++ [sl]) SliceAcc.fresh }, st.2)
      | none => none
    | .rbr =>
      match closeSlices done acc, f.cur with
      | some sls, some (s, _) => some ({ f with cur := some (.item s sls, false), mode := .chain }, st.2)
      | _, _ => none
    | t =>
      match accStep acc t with
      | some acc' => some ({ f with mode := .slices done acc' }, st.2)
      | none => none
  | .pairs done ps =>
    match ps, t with
    | .star, .star => some ({ f with mode := .pairs done .nt }, st.2)
    | .star, .rbrace =>
      -- `rs_pairs: rs_pair (',' rs_pair)* ','?`
      match done.isEmpty, f.cur with
      | false, some (s, _) => some ({ f with cur := some (.sel s done, false), mode := .chain }, st.2)
      | _, _ => none
    | .nt, .nt n => some ({ f with mode := .pairs done (.after n) }, st.2)
    | .after n, .colon => some ({ f with mode := .pairs done (.inSlice n SliceAcc.fresh) }, st.2)
    | .after n, .comma => some ({ f with mode := .pairs (done ++ [⟨n, false, none⟩]) .star }, st.2)
    | .after n, .rbrace =>
      match f.cur with
      | some (s, _) =>
        some ({ f with cur := some (.sel s (done ++ [⟨n, false, none⟩]), false), mode := .chain }, st.2)
      | none => none
    | .inSlice n acc, .comma =>
      match acc.finish with
      | some sl => some ({ f with mode := .pairs (done ++ [⟨n, false, some sl⟩]) .star }, st.2)
      | none => none
    | .inSlice n acc, .rbrace =>
      match acc.finish, f.cur with
      | some sl, some (s, _) =>
        some ({ f with cur := some (.sel s (done ++ [⟨n, false, some sl⟩]), false), mode := .chain }, st.2)
      | _, _ => none
    | .inSlice n acc, t =>
      match accStep acc t with
      | some acc' => some ({ f with mode := .pairs done (.inSlice n acc') }, st.2)
      | none => none
    | _, _ => none

def runS : SState → List STok → Option SState
  | st, [] => some st
  | st, t :: ts =>
    match stepS st t with
    | some st' => runS st' ts
    | none => none

/-- a `dot_selection`, read back; `none` = the front end rejects the text (as a selector) -/
def readSel (ts : List STok) : Option Sel :=
  match runS (SFrame.empty, []) ts with
  | some (⟨left, some (s, _), .chain⟩, []) => some (comb left s)
  | _ => none

/-- `selector_length`: `'|' dot_selection '|'`, `'len' '(' '*' dot_selection ')'`, `'*' dot_selection`,
    `dot_selection` -/
def readTop : List STok → Option Top
  | .bar :: rest =>
    match rest.getLast? with
    | some .bar => (readSel rest.dropLast).map .lenBar
    | _ => none
  | .len :: .lp :: .star :: rest =>
    match rest.getLast? with
    | some .rp => (readSel rest.dropLast).map .lenStar
    | _ => none
  | .star :: rest => (readSel rest).map .star
  | ts => (readSel ts).map .plain

/-! ### the searches the spec language can express, and what the printed text denotes -/

def pairsOk : List Pair → Bool
  | [] => true
  | p :: ps => !p.direct && pairsOk ps

/-- printable as a selector: non-empty groups, `*` entries only -/
def wfSel : Sel → Bool
  | .rule _ => true
  | .attr b a => wfSel b && wfSel a
  | .desc b a => wfSel b && wfSel a
  | .item b sl => wfSel b && !sl.isEmpty
  | .sel b ps => wfSel b && !ps.isEmpty && pairsOk ps

def wfTop : Top → Bool
  | .plain s => wfSel s
  | .star s => wfSel s
  | .lenBar s => wfSel s
  | .lenStar s => wfSel s

/-- reading `printSel true s` behind `left`: the new left part and the selection in progress.  The
    base of a group is read inside its own parentheses (or is a plain non-terminal): its reading is
    `comb` of its own `feed` from nothing. -/
def feed : Sel → Option (Sel × Bool) → Option (Sel × Bool) × (Sel × Bool)
  | .rule n, left => (left, (.rule n, true))
  | .attr b a, left =>
    let r := feed b left
    feed a (some (comb r.1 r.2.1, false))
  | .desc b a, left =>
    let r := feed b left
    feed a (some (comb r.1 r.2.1, true))
  | .item b sl, left =>
    let r := feed b none
    (left, (.item (comb r.1 r.2.1) sl, false))
  | .sel b ps, left =>
    let r := feed b none
    (left, (.sel (comb r.1 r.2.1) ps, false))

/-- what the printed form of a search is read back as: dots nested to the left, everywhere -/
def normSel (s : Sel) : Sel :=
  let r := feed s none
  comb r.1 r.2.1

def normTop : Top → Top
  | .plain s => .plain (normSel s)
  | .star s => .star (normSel s)
  | .lenBar s => .lenBar (normSel s)
  | .lenStar s => .lenStar (normSel s)

mutual
/-- the shape the front end builds from a text without redundant parentheses: dots nested to the
    left, every attribute of a dot a selection -/
def isNorm : Sel → Bool
  | .attr b a => isNorm b && isSelection a
  | .desc b a => isNorm b && isSelection a
  | .rule _ => true
  | .item b _ => isNorm b
  | .sel b _ => isNorm b
/-- a non-terminal, or a group on a base in normal form -/
def isSelection : Sel → Bool
  | .rule _ => true
  | .item b _ => isNorm b
  | .sel b _ => isNorm b
  | .attr _ _ => false
  | .desc _ _ => false
end

end FV.PS
