/-
E5 / Python expression core (C08).

Hand-written executable model of the part of `src/fandango/language/parse/convert.py` that rebuilds
`ast.*` nodes for Python *expressions* from the ANTLR parse tree (`SearchProcessor.visitExpression`,
`visitDisjunction`, `visitConjunction`, `visitInversion`, `visitComparison` + the ten
`visit*_bitwise_or`, `visitBitwise_or/xor/and`, `visitShift_expr`, `visitSum`, `visitTerm`,
`visitFactor`, `visitPower`, `visitAwait_primary`, `visitPrimary` (attribute / call / subscript),
`_process_slices`, `visitSlice`, `visitArgs`/`visitKwargs`/`visitKwarg_or_*`, `visitAtom`
(name, True/False/None, NUMBER, one STRING, `...`), `visitGroup`, `visitTuple`, `visitList`).

* `PT`   : parse trees mirroring `language/FandangoParser.g4` (one constructor per alternative; the
           unit productions `sum: term` etc. are constructors too, as in the real tree)
* `Ast`  : the `ast.*` nodes those visitors build
* `visit`: the visitor, parameterised by `Tables` = the operator tables / operand positions that the
           translator `harness/translate_pyexpr.py` reads out of convert.py (`Generated/PyExpr.lean`)
* `evalAst`: CPython's meaning of the rebuilt `ast` (BoolOp over a value list, Compare over
           ops/comparators, IfExp(test, body, orelse), Call(args, keywords) …)
* `evalPT` : grammar-directed reference meaning of the *text* (language reference §6: binary `or` /
           `and` left-nested and short-circuiting, chained comparisons evaluate middle operands once,
           `body if test else orelse` evaluates `test` first, right-associative `**`, arguments:
           positional and `*` in order, then keywords)
  both over ints / bools / str / None / tuples / lists with Python's exceptions as an error value
  and a log of the names read (so that evaluation order is observable).

Tied to /repo by `harness/props/c08.py`: (a) `visit` on the REAL ANTLR tree vs the REAL rebuilt ast;
(b) `evalPT` on the real tree and (c) `evalAst` on CPython's own ast vs CPython's `eval`.
No imports: linked into `drv_pyexpr`.
-/
namespace FV.Py

/-! ## syntax -/

/-- operator tokens of FandangoLexer.g4 that the modelled visitors test for, per grammar level
    (`shift_expr`, `sum`, `term`, `factor`): the parse tree cannot hold another token there -/
inductive ShiftTok where | LEFT_SHIFT | RIGHT_SHIFT deriving DecidableEq, Repr, Inhabited
inductive SumTok where | ADD | MINUS deriving DecidableEq, Repr, Inhabited
inductive TermTok where | STAR | DIV | IDIV | MOD | AT deriving DecidableEq, Repr, Inhabited
inductive FactorTok where | ADD | MINUS | NOT_OP deriving DecidableEq, Repr, Inhabited

/-- kinds of call arguments (`arg`: expression | starred_expression; `kwarg_or_starred`,
    `kwarg_or_double_starred`) -/
inductive ArgKind where
  | pos | star | kw (name : String) | dstar
  deriving DecidableEq, Repr, Inhabited

/-- the ten `compare_op_bitwise_or_pair` alternatives (dispatch is by rule, not by token) -/
inductive CmpRule where
  | eq | noteq | lte | lt | gte | gt | notin | in_ | isnot | is_
  deriving DecidableEq, Repr, Inhabited

inductive BoolOpK where | And | Or deriving DecidableEq, Repr, Inhabited
inductive UnOpK where | Not | UAdd | USub | Invert deriving DecidableEq, Repr, Inhabited
inductive BinOpK where
  | Add | Sub | Mult | Div | FloorDiv | Mod | MatMult | Pow | LShift | RShift | BitOr | BitXor | BitAnd
  deriving DecidableEq, Repr, Inhabited
inductive CmpOpK where
  | Eq | NotEq | Lt | LtE | Gt | GtE | Is | IsNot | In | NotIn
  deriving DecidableEq, Repr, Inhabited

/-- which sub-tree of `disjunction 'if' disjunction 'else' expression` a field is taken from -/
inductive Slot where | d0 | d1 | e deriving DecidableEq, Repr, Inhabited

/-- parse trees of the expression core (`absent` marks a missing optional part of a slice) -/
inductive PT where
  | ternary (d0 d1 e : PT)              -- expression: disjunction 'if' disjunction 'else' expression
  | exprD (d : PT)                      -- expression: disjunction
  | disj (cs : List PT)                 -- disjunction: conjunction ('or' conjunction)*
  | conj (is : List PT)                 -- conjunction: inversion ('and' inversion)*
  | invNot (i : PT)                     -- inversion: 'not' inversion
  | invC (c : PT)                       -- inversion: comparison
  | cmp (first : PT) (rules : List CmpRule) (operands : List PT)
                                        -- comparison: bitwise_or compare_op_bitwise_or_pair*  (pair i =
                                        -- rule `rules[i]` with operand `operands[i]`)
  | bor (l r : PT) | borT (x : PT)
  | bxor (l r : PT) | bxorT (x : PT)
  | band (l r : PT) | bandT (x : PT)
  | shift (l : PT) (t : ShiftTok) (r : PT) | shiftT (x : PT)
  | sum (l : PT) (t : SumTok) (r : PT) | sumT (x : PT)
  | term (l : PT) (t : TermTok) (r : PT) | termT (x : PT)
  | factor (t : FactorTok) (x : PT) | factorT (p : PT)
  | power (b e : PT) | powerT (x : PT)  -- power: await_primary '**' factor | await_primary
  | awaitP (p : PT) | awaitT (p : PT)   -- await_primary: 'await' primary | primary
  | attr (p : PT) (name : String)       -- primary '.' identifier
  | call (p : PT) (kinds : List ArgKind) (args : List PT)
                                        -- primary '(' arguments? ')'  (argument i = kind, expression)
  | subscr (p : PT) (slices : List PT) (trailingComma : Bool)
                                        -- primary '[' slices ']' ; slices: s (',' s)* ','?
  | primA (a : PT)                      -- primary: atom
  | slice (lo hi step : PT) | sliceE (e : PT) | absent
  | name (s : String) | true_ | false_ | none_ | ellipsis
  | num (n : Int)                       -- NUMBER (an int literal; value as CPython reads the token)
  | str (s : List Nat)                  -- one STRING token (value as CPython reads the token)
  | group (e : PT)                      -- '(' named_expression ')'
  | tuple (xs : List PT)                -- '(' … ',' … ')'
  | list (xs : List PT)
  deriving Repr, Inhabited

/-- the `ast.*` nodes built for that fragment -/
inductive Ast where
  | name (s : String) | constInt (n : Int) | constBool (b : Bool) | constNone | constStr (s : List Nat)
  | constEllipsis
  | boolOp (op : BoolOpK) (values : List Ast)
  | unaryOp (op : UnOpK) (operand : Ast)
  | binOp (l : Ast) (op : BinOpK) (r : Ast)
  | compare (left : Ast) (ops : List CmpOpK) (comparators : List Ast)
  | ifExp (test body orelse : Ast)
  | await (v : Ast)
  | attribute (v : Ast) (attr : String)
  | call (f : Ast) (args : List Ast) (keywords : List Ast)
  | keyword (arg : Option String) (value : Ast)
  | starred (v : Ast)
  | subscript (v : Ast) (slice : Ast)
  | slice (lo hi step : Ast)
  | absent
  | tuple (elts : List Ast) | list (elts : List Ast)
  | invalid                              -- the real visitor would crash / mis-assemble here
  deriving Repr, Inhabited

/-- what the translator reads out of convert.py -/
structure Tables where
  disjOp : BoolOpK
  conjOp : BoolOpK
  notOp : UnOpK
  cmp : List (CmpRule × CmpOpK)
  borOp : BinOpK
  bxorOp : BinOpK
  bandOp : BinOpK
  shift : List (ShiftTok × BinOpK)
  sum : List (SumTok × BinOpK)
  term : List (TermTok × BinOpK)
  factor : List (FactorTok × UnOpK)
  powOp : BinOpK
  binLeft : Nat        -- `_visit_bin_op`: left=trees[binLeft]
  binRight : Nat       -- right=trees[binRight]
  unOperand : Nat      -- `_visit_unary_op`: operand=trees[unOperand]
  ifTest : Slot        -- `visitExpression`: ast.IfExp(test=…, body=…, orelse=…)
  ifBody : Slot
  ifOrelse : Slot
  slicesCommaAware : Bool   -- `_process_slices`: does a single slice with a trailing comma become a Tuple?
  deriving DecidableEq, Repr

def lookup {α β} [DecidableEq α] (k : α) : List (α × β) → Option β
  | [] => none
  | (a, b) :: r => if a = k then some b else lookup k r

/-! ## the visitor -/

def pickSlot (s : Slot) (d0 d1 e : Ast) : Ast :=
  match s with | .d0 => d0 | .d1 => d1 | .e => e

/-- `_visit_bin_op`: `trees = visitChildren(ctx)`; BinOp(left=trees[i], op, right=trees[j]) -/
def mkBin (T : Tables) (l : Ast) (op : BinOpK) (r : Ast) : Ast :=
  .binOp ([l, r].getD T.binLeft .invalid) op ([l, r].getD T.binRight .invalid)

def mkUn (T : Tables) (op : UnOpK) (x : Ast) : Ast :=
  .unaryOp op ([x].getD T.unOperand .invalid)

/-- `if ctx.OR(): BoolOp(op, values=trees)` else delegate to the only child -/
def boolOf (op : BoolOpK) : List Ast → Ast
  | [] => .invalid
  | [a] => a
  | as => .boolOp op as

/-- `_process_slices`: one slice stays (in the source as found: even with a trailing comma),
    several become a Tuple -/
def slicesOf (commaAware trailing : Bool) : List Ast → Ast
  | [a] => if commaAware && trailing then .tuple [a] else a
  | as => .tuple as

def isKeyword : Ast → Bool
  | .keyword _ _ => true
  | _ => false

def isStarred : Ast → Bool
  | .starred _ => true
  | _ => false

/-- what `visitArg` / `visitKwarg_or_starred` / `visitKwarg_or_double_starred` wrap around the value -/
def mkArg : ArgKind → Ast → Ast
  | .pos, a => a
  | .star, a => .starred a
  | .kw n, a => .keyword (some n) a
  | .dstar, a => .keyword none a

def zipArgs : List ArgKind → List Ast → List Ast
  | k :: ks, a :: as => mkArg k a :: zipArgs ks as
  | _, _ => []

/-- the operator classes of a chain; `none` when a rule has no visitor (the real code then fails to
    unpack `visitChildren`'s result) -/
def cmpOps (T : Tables) : List CmpRule → Option (List CmpOpK)
  | [] => some []
  | r :: rs =>
    match lookup r T.cmp, cmpOps T rs with
    | some o, some os => some (o :: os)
    | _, _ => none

mutual
def visit (T : Tables) : PT → Ast
  | .ternary d0 d1 e =>
    .ifExp (pickSlot T.ifTest (visit T d0) (visit T d1) (visit T e))
           (pickSlot T.ifBody (visit T d0) (visit T d1) (visit T e))
           (pickSlot T.ifOrelse (visit T d0) (visit T d1) (visit T e))
  | .exprD d => visit T d
  | .disj cs => boolOf T.disjOp (visitL T cs)
  | .conj is => boolOf T.conjOp (visitL T is)
  | .invNot i => mkUn T T.notOp (visit T i)
  | .invC c => visit T c
  | .cmp first rules operands =>
    match rules with
    | [] => visit T first               -- `if ctx.compare_op_bitwise_or_pair()` is false
    | _ :: _ =>
      match cmpOps T rules with
      | some ops => .compare (visit T first) ops (visitL T operands)
      | none => .invalid
  | .bor l r => mkBin T (visit T l) T.borOp (visit T r)
  | .borT x => visit T x
  | .bxor l r => mkBin T (visit T l) T.bxorOp (visit T r)
  | .bxorT x => visit T x
  | .band l r => mkBin T (visit T l) T.bandOp (visit T r)
  | .bandT x => visit T x
  | .shift l t r => match lookup t T.shift with
      | some op => mkBin T (visit T l) op (visit T r)
      | none => visit T r               -- falls through to `visitSum(ctx.sum_())`: the right operand
  | .shiftT x => visit T x
  | .sum l t r => match lookup t T.sum with
      | some op => mkBin T (visit T l) op (visit T r)
      | none => visit T r
  | .sumT x => visit T x
  | .term l t r => match lookup t T.term with
      | some op => mkBin T (visit T l) op (visit T r)
      | none => visit T r
  | .termT x => visit T x
  | .factor t x => match lookup t T.factor with
      | some op => mkUn T op (visit T x)
      | none => .invalid                -- `visitPower(None)` raises
  | .factorT p => visit T p
  | .power b e => mkBin T (visit T b) T.powOp (visit T e)
  | .powerT x => visit T x
  | .awaitP p => .await (visit T p)
  | .awaitT p => visit T p
  | .attr p n => .attribute (visit T p) n
  | .call p kinds args =>
    .call (visit T p) ((zipArgs kinds (visitL T args)).filter (fun a => !isKeyword a))
          ((zipArgs kinds (visitL T args)).filter isKeyword)
  | .subscr p ss tc => .subscript (visit T p) (slicesOf T.slicesCommaAware tc (visitL T ss))
  | .primA a => visit T a
  | .slice lo hi st => .slice (visit T lo) (visit T hi) (visit T st)
  | .sliceE e => visit T e
  | .absent => .absent
  | .name s => .name s
  | .true_ => .constBool true
  | .false_ => .constBool false
  | .none_ => .constNone
  | .ellipsis => .constEllipsis
  | .num n => .constInt n
  | .str s => .constStr s
  | .group e => visit T e
  | .tuple xs => .tuple (visitL T xs)
  | .list xs => .list (visitL T xs)
def visitL (T : Tables) : List PT → List Ast
  | [] => []
  | x :: xs => visit T x :: visitL T xs
end

/-! ### the guard: no `a[s,]` (one slice + trailing comma) unless the source handles it -/

mutual
/-- `cf b pt`: `b` (the source is comma-aware) or `pt` has no single slice with a trailing comma -/
def cf (b : Bool) : PT → Bool
  | .ternary d0 d1 e => cf b d0 && cf b d1 && cf b e
  | .exprD d => cf b d
  | .disj cs => cfL b cs
  | .conj cs => cfL b cs
  | .invNot i => cf b i
  | .invC c => cf b c
  | .cmp f _ xs => cf b f && cfL b xs
  | .bor l r => cf b l && cf b r
  | .borT x => cf b x
  | .bxor l r => cf b l && cf b r
  | .bxorT x => cf b x
  | .band l r => cf b l && cf b r
  | .bandT x => cf b x
  | .shift l _ r => cf b l && cf b r
  | .shiftT x => cf b x
  | .sum l _ r => cf b l && cf b r
  | .sumT x => cf b x
  | .term l _ r => cf b l && cf b r
  | .termT x => cf b x
  | .factor _ x => cf b x
  | .factorT x => cf b x
  | .power x e => cf b x && cf b e
  | .powerT x => cf b x
  | .awaitP p => cf b p
  | .awaitT p => cf b p
  | .attr p _ => cf b p
  | .call p _ args => cf b p && cfL b args
  | .subscr p ss tc => cf b p && cfL b ss && (b || !(tc && ss.length == 1))
  | .primA a => cf b a
  | .slice lo hi st => cf b lo && cf b hi && cf b st
  | .sliceE e => cf b e
  | .absent => true
  | .name _ => true
  | .true_ => true
  | .false_ => true
  | .none_ => true
  | .ellipsis => true
  | .num _ => true
  | .str _ => true
  | .group e => cf b e
  | .tuple xs => cfL b xs
  | .list xs => cfL b xs
def cfL (b : Bool) : List PT → Bool
  | [] => true
  | x :: xs => cf b x && cfL b xs
end

/-! ## values and Python's operators on them -/

inductive Err where
  | zeroDiv | typeErr | nameErr (n : String) | valueErr | indexErr | attrErr
  | unsupported      -- outside the modelled value domain (floats, big shifts, identity of non-singletons …)
  | invalid          -- ill-formed tree
  deriving DecidableEq, Repr, Inhabited

inductive Val where
  | int (n : Int) | bool (b : Bool) | str (s : List Nat) | none | ellipsis
  | tuple (xs : List Val) | list (xs : List Val)
  | quot (n d : Int)                       -- result of `/` (a float in CPython): opaque
  | slice (lo hi step : Val)
  | fn (name : String)
  deriving Repr, Inhabited

abbrev Env := String → Option Val

def intLike : Val → Option Int
  | .int n => some n
  | .bool b => some (if b then 1 else 0)
  | _ => Option.none

def truthy : Val → Bool
  | .int n => n != 0
  | .bool b => b
  | .str s => !s.isEmpty
  | .none => false
  | .tuple xs => !xs.isEmpty
  | .list xs => !xs.isEmpty
  | .quot n _ => n != 0
  | _ => true

def isQuot : Val → Bool
  | .quot _ _ => true
  | _ => false

mutual
/-- Python `==` on the modelled values (`none` = outside the model) -/
def pyEq : Val → Val → Option Bool
  | .int a, .int b => some (a == b)
  | .int a, .bool b => some (a == (if b then 1 else 0))
  | .bool a, .int b => some ((if a then 1 else 0) == b)
  | .bool a, .bool b => some (a == b)
  | .str a, .str b => some (a == b)
  | .none, .none => some true
  | .ellipsis, .ellipsis => some true
  | .tuple a, .tuple b => pyEqL a b
  | .list a, .list b => pyEqL a b
  | .fn a, .fn b => some (a == b)
  | .quot _ _, _ => Option.none
  | _, .quot _ _ => Option.none
  | .slice _ _ _, _ => Option.none
  | _, .slice _ _ _ => Option.none
  | _, _ => some false
def pyEqL : List Val → List Val → Option Bool
  | [], [] => some true
  | a :: as, b :: bs =>
    match pyEq a b with
    | some true => pyEqL as bs
    | some false => some false
    | Option.none => Option.none
  | _, _ => some false
end

def strLt : List Nat → List Nat → Bool
  | [], [] => false
  | [], _ :: _ => true
  | _ :: _, [] => false
  | a :: as, b :: bs => if a < b then true else if b < a then false else strLt as bs

mutual
/-- Python `<` -/
def pyLt : Val → Val → Except Err Bool
  | .tuple a, .tuple b => pyLtL a b
  | .list a, .list b => pyLtL a b
  | .str a, .str b => .ok (strLt a b)
  | a, b =>
    if isQuot a || isQuot b then .error .unsupported else
    match intLike a, intLike b with
    | some x, some y => .ok (decide (x < y))
    | _, _ => .error .typeErr
/-- sequences: first position where the elements differ decides -/
def pyLtL : List Val → List Val → Except Err Bool
  | [], [] => .ok false
  | [], _ :: _ => .ok true
  | _ :: _, [] => .ok false
  | a :: as, b :: bs =>
    match pyEq a b with
    | some true => pyLtL as bs
    | some false => pyLt a b
    | Option.none => .error .unsupported
end

def eqE (a b : Val) : Except Err Bool :=
  match pyEq a b with
  | some r => .ok r
  | Option.none => .error .unsupported

/-- `a <= b`: for numbers and strings `<` or `==`; sequences: lexicographic -/
def pyLe (a b : Val) : Except Err Bool := do
  -- type errors first (as `<` reports them), then equality
  let lt ← pyLt a b
  if lt then return true
  let e ← eqE a b
  return e

def isSubstr (needle : List Nat) : List Nat → Bool
  | [] => needle.isEmpty
  | c :: cs => needle.isPrefixOf (c :: cs) || isSubstr needle cs

def memE (x : Val) : List Val → Except Err Bool
  | [] => .ok false
  | y :: ys => do
    let e ← eqE y x
    if e then return true else memE x ys

def pyIn (x c : Val) : Except Err Bool :=
  match c with
  | .str s => match x with
    | .str n => .ok (isSubstr n s)
    | _ => .error .typeErr
  | .tuple ys => memE x ys
  | .list ys => memE x ys
  | .quot _ _ => .error .unsupported
  | _ => .error .typeErr

def isSingleton : Val → Bool
  | .none => true
  | .bool _ => true
  | .ellipsis => true
  | _ => false

/-- identity: decided only when a singleton is involved -/
def pyIs (a b : Val) : Except Err Bool :=
  match a, b with
  | .none, .none => .ok true
  | .ellipsis, .ellipsis => .ok true
  | .bool x, .bool y => .ok (x == y)
  | a, b => if isSingleton a || isSingleton b then .ok false else .error .unsupported

def boolV (b : Bool) : Val := .bool b

/-- the ten comparison operators -/
def cmpSem (o : CmpOpK) (a b : Val) : Except Err Bool :=
  match o with
  | .Eq => eqE a b
  | .NotEq => do let e ← eqE a b; return !e
  | .Lt => pyLt a b
  | .LtE => pyLe a b
  | .Gt => pyLt b a
  | .GtE => pyLe b a
  | .Is => pyIs a b
  | .IsNot => do let e ← pyIs a b; return !e
  | .In => pyIn a b
  | .NotIn => do let e ← pyIn a b; return !e

def repeatL {α} (xs : List α) : Nat → List α
  | 0 => []
  | n + 1 => xs ++ repeatL xs n

def bothBool : Val → Val → Option (Bool × Bool)
  | .bool a, .bool b => some (a, b)
  | _, _ => Option.none

/-- two's complement `&`, `|`, `^` on Int from the Nat operations -/
def intAnd (a b : Int) : Int :=
  match a, b with
  | .ofNat x, .ofNat y => Int.ofNat (x &&& y)
  | .ofNat x, .negSucc m => Int.ofNat (x - (x &&& m))
  | .negSucc m, .ofNat y => Int.ofNat (y - (y &&& m))
  | .negSucc m, .negSucc n => Int.negSucc (m ||| n)
def intOr (a b : Int) : Int :=
  match a, b with
  | .ofNat x, .ofNat y => Int.ofNat (x ||| y)
  | .ofNat x, .negSucc m => Int.negSucc (m - (m &&& x))
  | .negSucc m, .ofNat y => Int.negSucc (m - (m &&& y))
  | .negSucc m, .negSucc n => Int.negSucc (m &&& n)
def intXor (a b : Int) : Int :=
  match a, b with
  | .ofNat x, .ofNat y => Int.ofNat (x ^^^ y)
  | .ofNat x, .negSucc m => Int.negSucc (x ^^^ m)
  | .negSucc m, .ofNat y => Int.negSucc (m ^^^ y)
  | .negSucc m, .negSucc n => Int.ofNat (m ^^^ n)

def seqMul (mk : List Val → Val) (xs : List Val) (n : Int) : Except Err Val :=
  if n.toNat * xs.length > 4096 then .error .unsupported else .ok (mk (repeatL xs n.toNat))

def binSem (o : BinOpK) (a b : Val) : Except Err Val :=
  if isQuot a || isQuot b then (match o with | .MatMult => .error .typeErr | _ => .error .unsupported) else
  match o with
  | .Add => match a, b with
    | .str x, .str y => .ok (.str (x ++ y))
    | .tuple x, .tuple y => .ok (.tuple (x ++ y))
    | .list x, .list y => .ok (.list (x ++ y))
    | a, b => match intLike a, intLike b with
      | some x, some y => .ok (.int (x + y))
      | _, _ => .error .typeErr
  | .Sub => match intLike a, intLike b with
    | some x, some y => .ok (.int (x - y))
    | _, _ => .error .typeErr
  | .Mult => match a, b with
    | .str x, b => (match intLike b with
      | some n => if n.toNat * x.length > 4096 then .error .unsupported else .ok (.str (repeatL x n.toNat))
      | Option.none => .error .typeErr)
    | .tuple x, b => (match intLike b with | some n => seqMul .tuple x n | Option.none => .error .typeErr)
    | .list x, b => (match intLike b with | some n => seqMul .list x n | Option.none => .error .typeErr)
    | a, .str y => (match intLike a with
      | some n => if n.toNat * y.length > 4096 then .error .unsupported else .ok (.str (repeatL y n.toNat))
      | Option.none => .error .typeErr)
    | a, .tuple y => (match intLike a with | some n => seqMul .tuple y n | Option.none => .error .typeErr)
    | a, .list y => (match intLike a with | some n => seqMul .list y n | Option.none => .error .typeErr)
    | a, b => match intLike a, intLike b with
      | some x, some y => .ok (.int (x * y))
      | _, _ => .error .typeErr
  | .Div => match intLike a, intLike b with
    | some x, some y => if y = 0 then .error .zeroDiv else .ok (.quot x y)
    | _, _ => .error .typeErr
  | .FloorDiv => match intLike a, intLike b with
    | some x, some y => if y = 0 then .error .zeroDiv else .ok (.int (Int.fdiv x y))
    | _, _ => .error .typeErr
  | .Mod => match a with
    | .str _ => .error .unsupported          -- printf-style formatting
    | a => match intLike a, intLike b with
      | some x, some y => if y = 0 then .error .zeroDiv else .ok (.int (Int.fmod x y))
      | _, _ => .error .typeErr
  | .MatMult => .error .typeErr
  | .Pow => match intLike a, intLike b with
    | some x, some y =>
      if y < 0 then (if x = 0 then .error .zeroDiv else .error .unsupported)
      else if y > 64 then .error .unsupported else .ok (.int (x ^ y.toNat))
    | _, _ => .error .typeErr
  | .LShift => match intLike a, intLike b with
    | some x, some y =>
      if y < 0 then .error .valueErr else if y > 256 then .error .unsupported
      else .ok (.int (x * 2 ^ y.toNat))
    | _, _ => .error .typeErr
  | .RShift => match intLike a, intLike b with
    | some x, some y =>
      if y < 0 then .error .valueErr else if y > 4096 then .error .unsupported
      else .ok (.int (Int.shiftRight x y.toNat))
    | _, _ => .error .typeErr
  | .BitOr => match bothBool a b with
    | some (x, y) => .ok (.bool (x || y))
    | Option.none => match intLike a, intLike b with
      | some x, some y => .ok (.int (intOr x y))
      | _, _ => .error .typeErr
  | .BitXor => match bothBool a b with
    | some (x, y) => .ok (.bool (x != y))
    | Option.none => match intLike a, intLike b with
      | some x, some y => .ok (.int (intXor x y))
      | _, _ => .error .typeErr
  | .BitAnd => match bothBool a b with
    | some (x, y) => .ok (.bool (x && y))
    | Option.none => match intLike a, intLike b with
      | some x, some y => .ok (.int (intAnd x y))
      | _, _ => .error .typeErr

def unSem (o : UnOpK) (a : Val) : Except Err Val :=
  match o with
  | .Not => .ok (.bool (!truthy a))
  | .UAdd => if isQuot a then .error .unsupported else
    match intLike a with | some x => .ok (.int x) | Option.none => .error .typeErr
  | .USub => if isQuot a then .error .unsupported else
    match intLike a with | some x => .ok (.int (-x)) | Option.none => .error .typeErr
  | .Invert => if isQuot a then .error .typeErr else
    match intLike a with | some x => .ok (.int (-x - 1)) | Option.none => .error .typeErr

/-- attributes: the numeric tower's four data attributes on ints/bools; `zz` exists nowhere -/
def attrSem (v : Val) (n : String) : Except Err Val :=
  if n = "zz" then .error .attrErr else
  match intLike v with
  | some x =>
    if n = "real" || n = "numerator" then .ok (.int x)
    else if n = "imag" then .ok (.int 0)
    else if n = "denominator" then .ok (.int 1)
    else .error .unsupported
  | Option.none => .error .unsupported

/-- `operator.index` of a slice part (None = default) -/
def slicePart (v : Val) : Except Err (Option Int) :=
  match v with
  | .none => .ok Option.none
  | v => match intLike v with
    | some x => .ok (some x)
    | Option.none => if isQuot v then .error .unsupported else .error .typeErr

/-- `PySlice_AdjustIndices` + the element positions -/
def sliceIdx (len : Nat) (lo hi : Option Int) (step : Int) : List Nat :=
  let n : Int := len
  let clampLo (x : Int) : Int :=
    if step > 0 then (if x < 0 then (if x + n < 0 then 0 else x + n) else if x > n then n else x)
    else (if x < 0 then (if x + n < 0 then -1 else x + n) else if x ≥ n then n - 1 else x)
  let start := match lo with | some x => clampLo x | Option.none => if step > 0 then 0 else n - 1
  let stop := match hi with | some x => clampLo x | Option.none => if step > 0 then n else -1
  let count : Nat :=
    if step > 0 then (if start < stop then ((stop - start - 1) / step + 1).toNat else 0)
    else (if stop < start then ((start - stop - 1) / (-step) + 1).toNat else 0)
  (List.range count).map (fun (i : Nat) => (start + (i : Int) * step).toNat)

def takeIdx {α} (xs : List α) (idx : List Nat) : List α := idx.filterMap (fun i => xs[i]?)

def seqItem {α} (xs : List α) (i : Int) : Except Err α :=
  let n : Int := xs.length
  let j := if i < 0 then i + n else i
  if j < 0 || j ≥ n then .error .indexErr else
  match xs[j.toNat]? with
  | some x => .ok x
  | Option.none => .error .indexErr

def subscrSem (v i : Val) : Except Err Val :=
  let seq (mk : List Val → Val) (xs : List Val) : Except Err Val :=
    match i with
    | .slice lo hi st => do
      -- CPython converts step, then start, then stop
      let s ← slicePart st
      let step := s.getD 1
      if step = 0 then .error .valueErr else do
      let l ← slicePart lo
      let h ← slicePart hi
      .ok (mk (takeIdx xs (sliceIdx xs.length l h step)))
    | i => match intLike i with
      | some k => seqItem xs k
      | Option.none => if isQuot i then .error .typeErr else .error .typeErr
  match v with
  | .tuple xs => seq .tuple xs
  | .list xs => seq .list xs
  | .str s =>
    (match i with
    | .slice lo hi st => do
      let st' ← slicePart st
      let step := st'.getD 1
      if step = 0 then .error .valueErr else do
      let l ← slicePart lo
      let h ← slicePart hi
      .ok (.str (takeIdx s (sliceIdx s.length l h step)))
    | i => match intLike i with
      | some k => do let c ← seqItem s k; return .str [c]
      | Option.none => .error .typeErr)
  | .quot _ _ => .error .typeErr
  | _ => .error .typeErr

/-- `*x` in a call / display: the elements -/
def iterate (v : Val) : Except Err (List Val) :=
  match v with
  | .tuple xs => .ok xs
  | .list xs => .ok xs
  | .str s => .ok (s.map (fun c => .str [c]))
  | .fn _ => .error .typeErr
  | _ => .error .typeErr

/-- the environment's functions: `pack(*a, **k)` returns `(a, ((name, value), …))`; `len`; `abs` -/
def callSem (f : Val) (args : List Val) (kws : List (String × Val)) : Except Err Val :=
  match f with
  | .fn "pack" => .ok (.tuple [.tuple args, .tuple (kws.map (fun kv => .tuple [.str (kv.1.toList.map Char.toNat), kv.2]))])
  | .fn "len" =>
    if !kws.isEmpty then .error .typeErr else
    (match args with
    | [.str s] => .ok (.int s.length)
    | [.tuple xs] => .ok (.int xs.length)
    | [.list xs] => .ok (.int xs.length)
    | [.fn _] => .error .typeErr
    | [_] => .error .typeErr
    | _ => .error .typeErr)
  | .fn "abs" =>
    if !kws.isEmpty then .error .typeErr else
    (match args with
    | [v] => if isQuot v then .error .unsupported else
      (match intLike v with | some x => .ok (.int x.natAbs) | Option.none => .error .typeErr)
    | _ => .error .typeErr)
  | .fn _ => .error .unsupported
  | _ => .error .typeErr

/-! ## evaluation: state = log of the names read so far -/

abbrev M := StateT (List String) (Except Err)

def readName (ρ : Env) (n : String) : M Val := fun log =>
  match ρ n with
  | some v => .ok (v, log ++ [n])
  | Option.none => .error (.nameErr n)

def liftE {α} (e : Except Err α) : M α := fun log =>
  match e with
  | .ok a => .ok (a, log)
  | .error x => .error x

/-- accumulated call arguments -/
structure CallAcc where
  pos : List Val := []
  kws : List (String × Val) := []

/-! ### meaning of the rebuilt `ast` (CPython's compiler order) -/

mutual
def evalAst (ρ : Env) : Ast → M Val
  | .name s => readName ρ s
  | .constInt n => pure (.int n)
  | .constBool b => pure (.bool b)
  | .constNone => pure .none
  | .constStr s => pure (.str s)
  | .constEllipsis => pure .ellipsis
  | .boolOp op vs => evalBoolOp ρ op vs
  | .unaryOp op x => do let v ← evalAst ρ x; liftE (unSem op v)
  | .binOp l op r => do let a ← evalAst ρ l; let b ← evalAst ρ r; liftE (binSem op a b)
  | .compare left ops cs => do let a ← evalAst ρ left; evalCompare ρ a ops cs
  | .ifExp t b e => do
    let c ← evalAst ρ t
    if truthy c then evalAst ρ b else evalAst ρ e
  | .await _ => liftE (.error .unsupported)
  | .attribute v n => do let x ← evalAst ρ v; liftE (attrSem x n)
  | .call f args kws => do
    let fv ← evalAst ρ f
    let pos ← evalArgs ρ args []
    let ks ← evalKws ρ kws []
    liftE (callSem fv pos ks)
  | .keyword _ _ => liftE (.error .invalid)
  | .starred _ => liftE (.error .invalid)
  | .subscript v s => do let x ← evalAst ρ v; let i ← evalAst ρ s; liftE (subscrSem x i)
  | .slice lo hi st => do
    let a ← evalAst ρ lo; let b ← evalAst ρ hi; let c ← evalAst ρ st
    pure (.slice a b c)
  | .absent => pure .none
  | .tuple es => do let vs ← evalArgs ρ es []; pure (.tuple vs)
  | .list es => do let vs ← evalArgs ρ es []; pure (.list vs)
  | .invalid => liftE (.error .invalid)
/-- BoolOp(op, values): evaluate in order; `or` stops at the first true value, `and` at the first
    false one; the last value is returned as is -/
def evalBoolOp (ρ : Env) (op : BoolOpK) : List Ast → M Val
  | [] => liftE (.error .invalid)
  | [x] => evalAst ρ x
  | x :: y :: r => do
    let v ← evalAst ρ x
    match op with
    | .Or => if truthy v then pure v else evalBoolOp ρ op (y :: r)
    | .And => if truthy v then evalBoolOp ρ op (y :: r) else pure v
/-- Compare(left, ops, comparators): the left value is carried; stops at the first false link -/
def evalCompare (ρ : Env) (a : Val) : List CmpOpK → List Ast → M Val
  | [o], c :: _ => do let b ← evalAst ρ c; let r ← liftE (cmpSem o a b); pure (.bool r)
  | o :: os, c :: cs => do
    let b ← evalAst ρ c
    let r ← liftE (cmpSem o a b)
    if r then evalCompare ρ b os cs else pure (.bool false)
  | _, _ => liftE (.error .invalid)
/-- positional arguments / display elements, `*x` expanded where it stands -/
def evalArgs (ρ : Env) : List Ast → List Val → M (List Val)
  | [], acc => pure acc
  | .starred x :: r, acc => do
    let v ← evalAst ρ x
    let xs ← liftE (iterate v)
    evalArgs ρ r (acc ++ xs)
  | x :: r, acc => do
    let v ← evalAst ρ x
    evalArgs ρ r (acc ++ [v])
/-- keywords; `**x` needs a mapping, which the value domain does not have -/
def evalKws (ρ : Env) : List Ast → List (String × Val) → M (List (String × Val))
  | [], acc => pure acc
  | .keyword (some n) x :: r, acc => do
    let v ← evalAst ρ x
    evalKws ρ r (acc ++ [(n, v)])
  | .keyword Option.none x :: _, _ => do
    let _ ← evalAst ρ x
    liftE (.error .typeErr)
  | _ :: _, _ => liftE (.error .invalid)
end

/-! ### grammar-directed reference meaning of the text (language reference §6) -/

/-- §6.7–6.9: the operator tokens of each level -/
def shiftTok : ShiftTok → BinOpK
  | .LEFT_SHIFT => .LShift | .RIGHT_SHIFT => .RShift
def sumTok : SumTok → BinOpK
  | .ADD => .Add | .MINUS => .Sub
def termTok : TermTok → BinOpK
  | .STAR => .Mult | .DIV => .Div | .IDIV => .FloorDiv | .MOD => .Mod | .AT => .MatMult
def factorTok : FactorTok → UnOpK
  | .ADD => .UAdd | .MINUS => .USub | .NOT_OP => .Invert
/-- §6.10: `==` `!=`/`<>` `<=` `<` `>=` `>` `not in` `in` `is not` `is` -/
def ruleCmp : CmpRule → CmpOpK
  | .eq => .Eq | .noteq => .NotEq | .lte => .LtE | .lt => .Lt | .gte => .GtE | .gt => .Gt
  | .notin => .NotIn | .in_ => .In | .isnot => .IsNot | .is_ => .Is

/-- `a[s]` (one slice, no trailing comma) → the slice itself; `a[s,]`, `a[s1, s2]` → a tuple of them -/
def slicesVal (single : Bool) (vs : List Val) : Val :=
  if single then vs.headD .none else .tuple vs

mutual
def evalPT (ρ : Env) : PT → M Val
  | .ternary d0 d1 e => do            -- §6.13: `x if C else y` first evaluates C
    let c ← evalPT ρ d1
    if truthy c then evalPT ρ d0 else evalPT ρ e
  | .exprD d => evalPT ρ d
  | .disj cs => evalDisj ρ cs
  | .conj cs => evalConj ρ cs
  | .invNot i => do let v ← evalPT ρ i; pure (.bool (!truthy v))
  | .invC c => evalPT ρ c
  | .cmp first rules operands =>
    match rules with
    | [] => evalPT ρ first
    | _ :: _ => do                    -- §6.10: a op1 b op2 c ≡ a op1 b and b op2 c, b evaluated once
      let a ← evalPT ρ first
      evalChain ρ a rules operands
  | .bor l r => do let a ← evalPT ρ l; let b ← evalPT ρ r; liftE (binSem .BitOr a b)
  | .borT x => evalPT ρ x
  | .bxor l r => do let a ← evalPT ρ l; let b ← evalPT ρ r; liftE (binSem .BitXor a b)
  | .bxorT x => evalPT ρ x
  | .band l r => do let a ← evalPT ρ l; let b ← evalPT ρ r; liftE (binSem .BitAnd a b)
  | .bandT x => evalPT ρ x
  | .shift l t r => do let a ← evalPT ρ l; let b ← evalPT ρ r; liftE (binSem (shiftTok t) a b)
  | .shiftT x => evalPT ρ x
  | .sum l t r => do let a ← evalPT ρ l; let b ← evalPT ρ r; liftE (binSem (sumTok t) a b)
  | .sumT x => evalPT ρ x
  | .term l t r => do let a ← evalPT ρ l; let b ← evalPT ρ r; liftE (binSem (termTok t) a b)
  | .termT x => evalPT ρ x
  | .factor t x => do let v ← evalPT ρ x; liftE (unSem (factorTok t) v)
  | .factorT p => evalPT ρ p
  | .power b e => do let a ← evalPT ρ b; let x ← evalPT ρ e; liftE (binSem .Pow a x)
  | .powerT x => evalPT ρ x
  | .awaitP _ => liftE (.error .unsupported)
  | .awaitT p => evalPT ρ p
  | .attr p n => do let x ← evalPT ρ p; liftE (attrSem x n)
  | .call p kinds args => do          -- §6.3.4: positional and `*` arguments first, then keywords
    let fv ← evalPT ρ p
    let pos ← evalPosArgs ρ kinds args []
    let ks ← evalKwArgs ρ kinds args []
    liftE (callSem fv pos ks)
  | .subscr p ss tc => do
    let x ← evalPT ρ p
    let vs ← evalElems ρ ss []
    liftE (subscrSem x (slicesVal (ss.length == 1 && !tc) vs))
  | .primA a => evalPT ρ a
  | .slice lo hi st => do
    let a ← evalPT ρ lo; let b ← evalPT ρ hi; let c ← evalPT ρ st
    pure (.slice a b c)
  | .sliceE e => evalPT ρ e
  | .absent => pure .none
  | .name s => readName ρ s
  | .true_ => pure (.bool true)
  | .false_ => pure (.bool false)
  | .none_ => pure .none
  | .ellipsis => pure .ellipsis
  | .num n => pure (.int n)
  | .str s => pure (.str s)
  | .group e => evalPT ρ e
  | .tuple xs => do let vs ← evalElems ρ xs []; pure (.tuple vs)
  | .list xs => do let vs ← evalElems ρ xs []; pure (.list vs)
/-- §6.11 `or_test ::= and_test | or_test "or" and_test`: ((c0 or c1) or c2) … -/
def evalDisj (ρ : Env) : List PT → M Val
  | [] => liftE (.error .invalid)
  | c :: cs => do
    let v ← evalPT ρ c
    evalOrs ρ v cs
def evalConj (ρ : Env) : List PT → M Val
  | [] => liftE (.error .invalid)
  | c :: cs => do
    let v ← evalPT ρ c
    evalAnds ρ v cs
/-- `v or c1 or c2 …` with `v` the value of everything to the left: "if x is true, its value is
    returned; otherwise y is evaluated and the resulting value is returned" -/
def evalOrs (ρ : Env) (v : Val) : List PT → M Val
  | [] => pure v
  | c :: cs =>
    if truthy v then pure v           -- (v or c) = v, and (v or …) stays v
    else do
      let w ← evalPT ρ c
      evalOrs ρ w cs
def evalAnds (ρ : Env) (v : Val) : List PT → M Val
  | [] => pure v
  | c :: cs =>
    if truthy v then do
      let w ← evalPT ρ c
      evalAnds ρ w cs
    else pure v
/-- the remaining links of a comparison chain, `a` = value of the operand to the left -/
def evalChain (ρ : Env) (a : Val) : List CmpRule → List PT → M Val
  | [r], x :: _ => do
    let b ← evalPT ρ x
    let res ← liftE (cmpSem (ruleCmp r) a b)
    pure (.bool res)
  | r :: rs, x :: xs => do
    let b ← evalPT ρ x
    let res ← liftE (cmpSem (ruleCmp r) a b)
    if res then evalChain ρ b rs xs else pure (.bool false)
  | _, _ => liftE (.error .invalid)
/-- positional arguments (and `*x`) in source order, keyword arguments skipped -/
def evalPosArgs (ρ : Env) : List ArgKind → List PT → List Val → M (List Val)
  | .pos :: ks, e :: r, acc => do
    let v ← evalPT ρ e
    evalPosArgs ρ ks r (acc ++ [v])
  | .star :: ks, e :: r, acc => do
    let v ← evalPT ρ e
    let xs ← liftE (iterate v)
    evalPosArgs ρ ks r (acc ++ xs)
  | .kw _ :: ks, _ :: r, acc => evalPosArgs ρ ks r acc
  | .dstar :: ks, _ :: r, acc => evalPosArgs ρ ks r acc
  | _, _, acc => pure acc
/-- then the keyword arguments in source order; `**x` needs a mapping -/
def evalKwArgs (ρ : Env) : List ArgKind → List PT → List (String × Val) → M (List (String × Val))
  | .kw n :: ks, e :: r, acc => do
    let v ← evalPT ρ e
    evalKwArgs ρ ks r (acc ++ [(n, v)])
  | .dstar :: _, e :: _, _ => do
    let _ ← evalPT ρ e
    liftE (.error .typeErr)
  | .pos :: ks, _ :: r, acc => evalKwArgs ρ ks r acc
  | .star :: ks, _ :: r, acc => evalKwArgs ρ ks r acc
  | _, _, acc => pure acc
/-- display elements / several slices, in order -/
def evalElems (ρ : Env) : List PT → List Val → M (List Val)
  | [], acc => pure acc
  | x :: r, acc => do
    let v ← evalPT ρ x
    evalElems ρ r (acc ++ [v])
end

/-- run from an empty log -/
def runM {α} (m : M α) : Except Err (α × List String) := m []

end FV.Py
