/-
E5 / Python literal quoting: a model of CPython's `repr()` of `str` and `bytes` (what
`Terminal.format_as_spec` prints for a non-regex terminal: `repr(self._value)` →
`TreeValue.__repr__` → `repr(str | bytes)`) and of the evaluation of the string literals `repr`
produces (what `Terminal.clean` does with the token text: `eval(symbol)`).

Strings are lists of code points (`Str = List Nat`, so lone surrogates are values like in Python);
bytes are `List Byte`.  `P : Nat → Bool` is CPython's `Py_UNICODE_ISPRINTABLE` for code points
≥ 0x80 — an oracle; the round-trip theorem holds for every `P`.

`unicode_repr` (Objects/unicodeobject.c): quote `'` unless the string has a `'` and no `"`;
`\` and the quote are backslash-escaped; `\t \n \r`; `< 0x20` and `0x7f` as `\xNN`; other ASCII
verbatim; non-ASCII verbatim when printable, else `\xNN` / `\uNNNN` / `\UNNNNNNNN`.
`bytes_repr` (Objects/bytesobject.c): prefix `b`, same quote rule, `\t \n \r`, `< 0x20` and
`≥ 0x7f` as `\xNN`.

The evaluator covers exactly the escapes `repr` emits (`\\ \' \" \n \r \t \xNN \uNNNN \UNNNNNNNN`);
any other escape is *not modelled* (`none`), as are raw / triple-quoted / f-string literals.
-/
import Model.Value
namespace FV.PyLit

def hexDigit (d : Nat) : Nat := if d < 10 then 48 + d else 87 + d

def hexVal (c : Nat) : Option Nat :=
  if 48 ≤ c ∧ c ≤ 57 then some (c - 48)
  else if 97 ≤ c ∧ c ≤ 102 then some (c - 87)
  else if 65 ≤ c ∧ c ≤ 70 then some (c - 55)
  else none

def hex2 (n : Nat) : List Nat := [hexDigit (n / 16 % 16), hexDigit (n % 16)]
def hex4 (n : Nat) : List Nat :=
  [hexDigit (n / 4096 % 16), hexDigit (n / 256 % 16), hexDigit (n / 16 % 16), hexDigit (n % 16)]
def hex8 (n : Nat) : List Nat :=
  [hexDigit (n / 268435456 % 16), hexDigit (n / 16777216 % 16), hexDigit (n / 1048576 % 16),
   hexDigit (n / 65536 % 16), hexDigit (n / 4096 % 16), hexDigit (n / 256 % 16),
   hexDigit (n / 16 % 16), hexDigit (n % 16)]

/-! ### repr -/

/-- the quote character `repr` chooses: `"` iff the value has a `'` and no `"` -/
def quoteFor (s : List Nat) : Nat := if s.contains 39 && !s.contains 34 then 34 else 39

/-- one character of `repr(str)` -/
def escStr (P : Nat → Bool) (q c : Nat) : List Nat :=
  if c = q ∨ c = 92 then [92, c]
  else if c = 9 then [92, 116]
  else if c = 10 then [92, 110]
  else if c = 13 then [92, 114]
  else if c < 32 ∨ c = 127 then 92 :: 120 :: hex2 c
  else if c < 127 then [c]
  else if P c then [c]
  else if c < 256 then 92 :: 120 :: hex2 c
  else if c < 65536 then 92 :: 117 :: hex4 c
  else 92 :: 85 :: hex8 c

def escAll (f : Nat → List Nat) : List Nat → List Nat
  | [] => []
  | c :: cs => f c ++ escAll f cs

/-- `repr(s)` for a `str` -/
def reprStr (P : Nat → Bool) (s : List Nat) : List Nat :=
  let q := quoteFor s
  q :: (escAll (escStr P q) s ++ [q])

/-- one byte of `repr(bytes)` -/
def escBytes (q c : Nat) : List Nat :=
  if c = q ∨ c = 92 then [92, c]
  else if c = 9 then [92, 116]
  else if c = 10 then [92, 110]
  else if c = 13 then [92, 114]
  else if c < 32 ∨ 127 ≤ c then 92 :: 120 :: hex2 c
  else [c]

/-- `repr(b)` for a `bytes` -/
def reprBytes (b : List Nat) : List Nat :=
  let q := quoteFor b
  98 :: q :: (escAll (escBytes q) b ++ [q])

/-! ### evaluation of a (non-raw, single-quoted) literal, as a fold over its characters -/

inductive Mode where
  | normal
  | esc
  /-- inside `\x`/`\u`/`\U`: digits still to read, value so far -/
  | hex (remaining : Nat) (acc : Nat)
  | closed
  deriving Repr, DecidableEq

structure St where
  mode : Mode
  /-- characters read so far, latest first -/
  out : List Nat
  deriving Repr

/-- `isBytes`: only `\x` escapes, only ASCII source characters, values < 256 -/
def stepE (isBytes : Bool) (q : Nat) (st : St) (c : Nat) : Option St :=
  match st.mode with
  | .closed => none
  | .normal =>
    if c = q then some { st with mode := .closed }
    else if c = 92 then some { st with mode := .esc }
    else if c = 10 then none
    else if isBytes && decide (128 ≤ c) then none
    else some { st with out := c :: st.out }
  | .esc =>
    if c = 92 ∨ c = 39 ∨ c = 34 then some ⟨.normal, c :: st.out⟩
    else if c = 110 then some ⟨.normal, 10 :: st.out⟩
    else if c = 114 then some ⟨.normal, 13 :: st.out⟩
    else if c = 116 then some ⟨.normal, 9 :: st.out⟩
    else if c = 120 then some ⟨.hex 2 0, st.out⟩
    else if c = 117 ∧ isBytes = false then some ⟨.hex 4 0, st.out⟩
    else if c = 85 ∧ isBytes = false then some ⟨.hex 8 0, st.out⟩
    else none
  | .hex 0 _ => none
  | .hex (k + 1) acc =>
    match hexVal c with
    | none => none
    | some d =>
      let v := acc * 16 + d
      if k = 0 then (if v < 1114112 then some ⟨.normal, v :: st.out⟩ else none)
      else some ⟨.hex k v, st.out⟩

def runE (isBytes : Bool) (q : Nat) : St → List Nat → Option St
  | st, [] => some st
  | st, c :: cs =>
    match stepE isBytes q st c with
    | some st' => runE isBytes q st' cs
    | none => none

def finish : Option St → Option (List Nat)
  | some ⟨.closed, out⟩ => some out.reverse
  | _ => none

/-- value of a `str` literal `'…'` / `"…"` -/
def evalStr : List Nat → Option (List Nat)
  | q :: rest => if q = 39 ∨ q = 34 then finish (runE false q ⟨.normal, []⟩ rest) else none
  | [] => none

/-- value of a `bytes` literal `b'…'` / `b"…"` -/
def evalBytes : List Nat → Option (List Nat)
  | 98 :: q :: rest => if q = 39 ∨ q = 34 then finish (runE true q ⟨.normal, []⟩ rest) else none
  | _ => none

end FV.PyLit
