/-
E5 / Python literal quoting: a model of CPython's `repr()` of `str` and `bytes` (what
`Terminal.format_as_spec` prints for a non-regex terminal: `repr(self._value)` →
`TreeValue.__repr__` → `repr(str | bytes)`) and of the evaluation of the string literals `repr`
produces (what `Terminal.clean` does with the token text: `eval(symbol)`).

Strings are lists of code points (`Str = List Nat`, so lone surrogates are values like in Python);
bytes are `List Byte`.  `P : Nat → Bool` is CPython's `Py_UNICODE_ISPRINTABLE` for code points
≥ 0x80 — an oracle; the round-trip theorem holds for every `P`.

`unicode_repr` (Objects/unicodeobject.c): quote `'` unless the string has a `'` and no `"`;
`\` and the quote are backslash-escaped; `\t \n \r`; `< 0x20` and `0x7f` as `\xNN`; other ASCII
verbatim; non-ASCII verbatim when printable, else `\xNN` / `\uNNNN` / `\UNNNNNNNN`.
`bytes_repr` (Objects/bytesobject.c): prefix `b`, same quote rule, `\t \n \r`, `< 0x20` and
`≥ 0x7f` as `\xNN`.

The evaluator covers exactly the escapes `repr` emits (`\\ \' \" \n \r \t \xNN \uNNNN \UNNNNNNNN`);
any other escape is *not modelled* (`none`), as are raw / triple-quoted / f-string literals.
-/
import Model.Value
namespace FV.PyLit

def hexDigit (d : Nat) : Nat := if d < 10 then 48 + d else 87 + d

def hexVal (c : Nat) : Option Nat :=
  if 48 ≤ c ∧ c ≤ 57 then some (c - 48)
  else if 97 ≤ c ∧ c ≤ 102 then some (c - 87)
  else if 65 ≤ c ∧ c ≤ 70 then some (c - 55)
  else none

def hex2 (n : Nat) : List Nat := [hexDigit (n / 16 % 16), hexDigit (n % 16)]
def hex4 (n : Nat) : List Nat :=
  [hexDigit (n / 4096 % 16), hexDigit (n / 256 % 16), hexDigit (n / 16 % 16), hexDigit (n % 16)]
def hex8 (n : Nat) : List Nat :=
  [hexDigit (n / 268435456 % 16), hexDigit (n / 16777216 % 16), hexDigit (n / 1048576 % 16),
   hexDigit (n / 65536 % 16), hexDigit (n / 4096 % 16), hexDigit (n / 256 % 16),
   hexDigit (n / 16 % 16), hexDigit (n % 16)]

/-! ### repr -/

/-- the quote character `repr` chooses: `"` iff the value has a `'` and no `"` -/
def quoteFor (s : List Nat) : Nat := if s.contains 39 && !s.contains 34 then 34 else 39

/-- one character of `repr(str)` -/
def escStr (P : Nat → Bool) (q c : Nat) : List Nat :=
  if c = q ∨ c = 92 then [92, c]
  else if c = 9 then [92, 116]
  else if c = 10 then [92, 110]
  else if c = 13 then [92, 114]
  else if c < 32 ∨ c = 127 then 92 :: 120 :: hex2 c
  else if c < 127 then [c]
  else if P c then [c]
  else if c < 256 then 92 :: 120 :: hex2 c
  else if c < 65536 then 92 :: 117 :: hex4 c
  else 92 :: 85 :: hex8 c

def escAll (f : Nat → List Nat) : List Nat → List Nat
  | [] => []
  | c :: cs => f c ++ escAll f cs

/-- `repr(s)` for a `str` -/
def reprStr (P : Nat → Bool) (s : List Nat) : List Nat :=
  let q := quoteFor s
  q :: (escAll (escStr P q) s ++ [q])

/-- one byte of `repr(bytes)` -/
def escBytes (q c : Nat) : List Nat :=
  if c = q ∨ c = 92 then [92, c]
  else if c = 9 then [92, 116]
  else if c = 10 then [92, 110]
  else if c = 13 then [92, 114]
  else if c < 32 ∨ 127 ≤ c then 92 :: 120 :: hex2 c
  else [c]

/-- `repr(b)` for a `bytes` -/
def reprBytes (b : List Nat) : List Nat :=
  let q := quoteFor b
  98 :: q :: (escAll (escBytes q) b ++ [q])

/-! ### evaluation of a (non-raw, single-quoted) literal, as a fold over its characters -/

inductive Mode where
  | normal
  | esc
  /-- inside `\x`/`\u`/`\U`: digits still to read, value so far -/
  | hex (remaining : Nat) (acc : Nat)
  | closed
  deriving Repr, DecidableEq

structure St where
  mode : Mode
  /-- characters read so far, latest first -/
  out : List Nat
  deriving Repr

/-- `isBytes`: only `\x` escapes, only ASCII source characters, values < 256 -/
def stepE (isBytes : Bool) (q : Nat) (st : St) (c : Nat) : Option St :=
  match st.mode with
  | .closed => none
  | .normal =>
    if c = q then some { st with mode := .closed }
    else if c = 92 then some { st with mode := .esc }
    else if c = 10 then none
    else if isBytes && decide (128 ≤ c) then none
    else some { st with out := c :: st.out }
  | .esc =>
    if c = 92 ∨ c = 39 ∨ c = 34 then some ⟨.normal, c :: st.out⟩
    else if c = 110 then some ⟨.normal, 10 :: st.out⟩
    else if c = 114 then some ⟨.normal, 13 :: st.out⟩
    else if c = 116 then some ⟨.normal, 9 :: st.out⟩
    else if c = 120 then some ⟨.hex 2 0, st.out⟩
    else if c = 117 ∧ isBytes = false then some ⟨.hex 4 0, st.out⟩
    else if c = 85 ∧ isBytes = false then some ⟨.hex 8 0, st.out⟩
    else none
  | .hex 0 _ => none
  | .hex (k + 1) acc =>
    match hexVal c with
    | none => none
    | some d =>
      let v := acc * 16 + d
      if k = 0 then (if v < 1114112 then some ⟨.normal, v :: st.out⟩ else none)
      else some ⟨.hex k v, st.out⟩

def runE (isBytes : Bool) (q : Nat) : St → List Nat → Option St
  | st, [] => some st
  | st, c :: cs =>
    match stepE isBytes q st c with
    | some st' => runE isBytes q st' cs
    | none => none

def finish : Option St → Option (List Nat)
  | some ⟨.closed, out⟩ => some out.reverse
  | _ => none

/-- value of a `str` literal `'…'` / `"…"` -/
def evalStr : List Nat → Option (List Nat)
  | q :: rest => if q = 39 ∨ q = 34 then finish (runE false q ⟨.normal, []⟩ rest) else none
  | [] => none

/-- value of a `bytes` literal `b'…'` / `b"…"` -/
def evalBytes : List Nat → Option (List Nat)
  | 98 :: q :: rest => if q = 39 ∨ q = 34 then finish (runE true q ⟨.normal, []⟩ rest) else none
  | _ => none

/-! ### regex terminals: `Terminal.format_as_spec` for `is_regex`, `Terminal._spell_regex`

A regex terminal is printed as a one-line *raw* literal `r'…'` / `r"…"` (`rb'…'` / `rb"…"` for a
bytes pattern, whose text is the Latin-1 decoding of the bytes).  Raw literals have no escapes of
their own, so whatever cannot stand in the literal is written as a *regex* escape `\xNN`:
the delimiting quote when the pattern holds both quote kinds, `\n` / `\r`, and — for bytes —
everything outside printable ASCII.  A backslash pairs with the character after it; when that
character has to be spelled the pair `\c` is replaced as a whole.  -/

/-- `spell(char) is not None` in `_spell_regex`: `quote` is `None` or the delimiter -/
def needsSpell (quote : Option Nat) (asciiOnly : Bool) (c : Nat) : Bool :=
  quote == some c || c == 10 || c == 13 || (asciiOnly && !(decide (32 ≤ c) && decide (c ≤ 126)))

/-- `f"\\x{ord(char):02x}"` (exact for `c < 256`, the only values `spell` is asked for: the quote,
    `\n`, `\r`, and Latin-1 decoded bytes) -/
def hexEsc (c : Nat) : List Nat := 92 :: 120 :: hex2 c

/-- `Terminal._spell_regex(pattern, quote, ascii_only)` -/
def spellRegex (quote : Option Nat) (asciiOnly : Bool) : List Nat → List Nat
  | [] => []
  | [c] => if needsSpell quote asciiOnly c then hexEsc c else [c]
  | b :: c :: rest =>
    if b = 92 then
      (if needsSpell quote asciiOnly c then hexEsc c else [92, c]) ++ spellRegex quote asciiOnly rest
    else
      (if needsSpell quote asciiOnly b then hexEsc b else [b]) ++ spellRegex quote asciiOnly (c :: rest)

/-- the delimiter `format_as_spec` chooses and the quote it spells: `'` (nothing spelled) without a
    `'`; else `"` (nothing spelled) without a `"`; else `'` with every `'` spelled `\x27` -/
def regexQuote (pat : List Nat) : Nat × Option Nat :=
  if !pat.contains 39 then (39, none)
  else if !pat.contains 34 then (34, none)
  else (39, some 39)

/-- the pattern text that stands between the quotes -/
def spelled (isBytes : Bool) (pat : List Nat) : List Nat :=
  spellRegex (regexQuote pat).2 isBytes pat

/-- `Terminal.format_as_spec()` of a regex terminal (str: `isBytes = false`; bytes: the Latin-1
    decoded pattern, `isBytes = true`) -/
def printRegex (isBytes : Bool) (pat : List Nat) : List Nat :=
  let q := (regexQuote pat).1
  (if isBytes then [114, 98] else [114]) ++ q :: (spelled isBytes pat ++ [q])

/-! ### reading a one-line raw literal back: the lexer (`SHORT_STRING` / `SHORT_BYTES` of
`FandangoLexer.g4` behind a prefix with an `r`) and CPython's evaluation of it (`Terminal.clean`:
`eval(text)`).

In a raw literal a backslash keeps itself *and* the character after it (so `\'` does not end the
literal and both characters are part of the value); there are no other escapes.  Rejected:
a line break (`\n`, `\r`; the lexer also excludes `\f` from a one-line *str* literal), NUL (CPython:
"source code string cannot contain null bytes"), a lone surrogate (the text is not UTF-8 encodable),
a non-ASCII character in a bytes literal, anything after the closing quote, a missing closing quote.
Backslash followed by a line break / NUL is *not modelled* (answered `none`; the printer never
writes it). -/

def isSurrogate (c : Nat) : Bool := decide (55296 ≤ c) && decide (c ≤ 57343)

/-- a character that may stand for itself in the body -/
def rawCharOk (isBytes : Bool) (c : Nat) : Bool :=
  c != 0 && c != 10 && c != 13 &&
  (if isBytes then decide (c < 128) else c != 12 && decide (c < 1114112) && !isSurrogate c)

/-- a character that may follow a backslash -/
def rawEscOk (isBytes : Bool) (c : Nat) : Bool :=
  c != 0 && c != 10 && c != 13 &&
  (if isBytes then decide (c < 128) else decide (c < 1114112) && !isSurrogate c)

inductive RMode where
  | normal | esc | closed
  deriving Repr, DecidableEq

structure RSt where
  mode : RMode
  /-- characters of the value so far, latest first -/
  out : List Nat
  deriving Repr

def stepR (isBytes : Bool) (q : Nat) (st : RSt) (c : Nat) : Option RSt :=
  match st.mode with
  | .closed => none
  | .normal =>
    if c = q then some { st with mode := .closed }
    else if c = 92 then some { st with mode := .esc }
    else if rawCharOk isBytes c then some { st with out := c :: st.out }
    else none
  | .esc => if rawEscOk isBytes c then some ⟨.normal, c :: 92 :: st.out⟩ else none

def runR (isBytes : Bool) (q : Nat) : RSt → List Nat → Option RSt
  | st, [] => some st
  | st, c :: cs =>
    match stepR isBytes q st c with
    | some st' => runR isBytes q st' cs
    | none => none

def finishR : Option RSt → Option (List Nat)
  | some ⟨.closed, out⟩ => some out.reverse
  | _ => none

/-- `Terminal.from_symbol`: a regex iff the prefix holds a lower-case `r` (`R'…'` is a raw, plain literal) -/
def isR (c : Nat) : Bool := c == 114
def isB (c : Nat) : Bool := c == 98 || c == 66
def isQuote (c : Nat) : Bool := c == 39 || c == 34

/-- value of a one-line raw literal: `(is_bytes, pattern)`; `none` = rejected (or not a one-line raw
    literal, or not a *regex* literal).  Prefixes: `r` (str), `rb rB br Br` (bytes). -/
def evalRaw : List Nat → Option (Bool × List Nat)
  | a :: b :: rest =>
    if isR a && isQuote b then
      (finishR (runR false b ⟨.normal, []⟩ rest)).map (fun v => (false, v))
    else
      match rest with
      | q :: body =>
        if ((isR a && isB b) || (isB a && isR b)) && isQuote q then
          (finishR (runR true q ⟨.normal, []⟩ body)).map (fun v => (true, v))
        else none
      | [] => none
  | _ => none

/-! ### the patterns the spec language can express, and "same regex"

A pattern read from a spec file is the value of a raw literal, one-line or triple-quoted: backslashes
pair up with the character after them (no lone backslash at the end), no NUL, no lone surrogate, no
`\r` (CPython's tokenizer turns `\r` and `\r\n` into `\n` inside a triple-quoted literal); a bytes
pattern holds bytes. -/

def patCharOk (isBytes : Bool) (c : Nat) : Bool :=
  if isBytes then decide (c < 256) else c != 0 && c != 13 && decide (c < 1114112) && !isSurrogate c

/-- expressible as a raw literal; `bare` additionally asks that no *unescaped* form feed occurs in a
    str pattern (see `C15_regex_formfeed_rejected`) -/
def regexWf (isBytes : Bool) : List Nat → Bool
  | [] => true
  | [c] => c != 92 && patCharOk isBytes c
  | b :: c :: rest =>
    if b = 92 then patCharOk isBytes c && regexWf isBytes rest
    else patCharOk isBytes b && regexWf isBytes (c :: rest)

/-- no unescaped form feed (only asked of str patterns) -/
def noBareFF : List Nat → Bool
  | [] => true
  | [c] => c != 12
  | b :: c :: rest => if b = 92 then noBareFF rest else b != 12 && noBareFF (c :: rest)

/-- the text consists of whole units (a character, or a backslash with the character after it) -/
def atBoundary : List Nat → Bool
  | [] => true
  | [c] => c != 92
  | b :: c :: rest => if b = 92 then atBoundary rest else atBoundary (c :: rest)

/-- **Oracle assumption about `re`** (checked per case by the harness against CPython): wherever a
    unit stands — `pre` consists of whole units — a character `c` that `_spell_regex` spells, written
    as itself or as `\c`, means what `\xNN` means.  `D` is "what the pattern denotes"
    (the harness: the compile error, or the verdicts of `re.fullmatch` on the candidate set). -/
def HexEscapeSound {α : Type} (D : List Nat → α) (needs : Nat → Bool) : Prop :=
  ∀ (pre post : List Nat) (c : Nat), atBoundary pre = true → c < 256 → needs c = true →
    D (pre ++ c :: post) = D (pre ++ (hexEsc c ++ post)) ∧
    D (pre ++ 92 :: c :: post) = D (pre ++ (hexEsc c ++ post))

/-- does the printer rewrite anything in this pattern? -/
def rewrites (quote : Option Nat) (asciiOnly : Bool) (pat : List Nat) : Bool :=
  pat.any (needsSpell quote asciiOnly)

/-- the instances `(before, after)` of `HexEscapeSound` that carry a pattern to its spelled form, one
    rewriting at a time, left to right (the harness checks each pair against CPython `re`) -/
def spellSteps (quote : Option Nat) (asciiOnly : Bool) : List Nat → List Nat → List (List Nat × List Nat)
  | _, [] => []
  | pre, [c] => if needsSpell quote asciiOnly c then [(pre ++ [c], pre ++ hexEsc c)] else []
  | pre, b :: c :: rest =>
    if b = 92 then
      if needsSpell quote asciiOnly c then
        (pre ++ 92 :: c :: rest, pre ++ (hexEsc c ++ rest)) :: spellSteps quote asciiOnly (pre ++ hexEsc c) rest
      else spellSteps quote asciiOnly (pre ++ [92, c]) rest
    else
      if needsSpell quote asciiOnly b then
        (pre ++ b :: c :: rest, pre ++ (hexEsc b ++ c :: rest))
          :: spellSteps quote asciiOnly (pre ++ hexEsc b) (c :: rest)
      else spellSteps quote asciiOnly (pre ++ [b]) (c :: rest)

end FV.PyLit
