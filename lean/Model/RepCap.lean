/-
E2 / repetition caps, for C05.

Fandango has ONE number, the grammar's repetition cap (`Grammar.get_max_repetition`, 20 by default, raised by the
adaptive tuner through `Grammar.set_max_repetition`).  It limits what is GENERATED:

  * the generator: `Repetition.fuzz` draws `randint(min, self.max)` and `self.max` is the cap for every
    open-ended repetition — `*`, `+` and `{n,}` alike                                   → `capGrammar selAll c`
  * the parser (since b48dd899): `IterativeParser.visitRepetition` compiles an open-ended `{n,}` to `n` iterations
    followed by a right-recursive tail, `visitStar` / `visitPlus` to a right-recursive rule — no bound: the parser
    is compiled for the IR itself, the documented language (docs/Language.md: "Omitting M creates an infinite
    upper bound")                                                                        → `capGrammar selNone _` = `G`

`capNode sel c` puts the upper bound `c` on the open-ended repetitions of the kinds selected by `sel`.
`selBraces` describes the parser BEFORE b48dd899 (`{n,}` compiled to `cap - n` nested helper rules with the cap
read when the parser was built: finding F38, fixed); it is kept for the monotonicity lemmas of
`Proofs/RepCap.lean` only and no property theorem is about it.
No imports beyond the IR.
-/
import Model.IR
namespace FV
namespace RepCap

/-- which kinds of open-ended repetition get the cap -/
abbrev Sel := RepKind → Bool

/-- the generator caps every open-ended repetition -/
def selAll : Sel := fun _ => true
/-- `{n,}` only: the parser before b48dd899 (old rule, see the header) -/
def selBraces : Sel := fun k => decide (k = RepKind.braces)
/-- nothing is capped -/
def selNone : Sel := fun _ => false

/-- the upper bound after capping -/
def capMax (sel : Sel) (c : Nat) (kind : RepKind) : Option Nat → Option Nat
  | some m => some m
  | none => if sel kind then some c else none

mutual
def capNode (sel : Sel) (c : Nat) : Node → Node
  | .term t => .term t
  | .nt n a r => .nt n a r
  | .alt id ns => .alt id (capList sel c ns)
  | .cat id ns => .cat id (capList sel c ns)
  | .rep id kind n min max => .rep id kind (capNode sel c n) min (capMax sel c kind max)
def capList (sel : Sel) (c : Nat) : List Node → List Node
  | [] => []
  | n :: ns => capNode sel c n :: capList sel c ns
end

def capRules (sel : Sel) (c : Nat) : List (String × Node) → List (String × Node)
  | [] => []
  | p :: ps => (p.1, capNode sel c p.2) :: capRules sel c ps

def capGrammar (sel : Sel) (c : Nat) (G : Grammar) : Grammar := ⟨capRules sel c G.rules⟩

end RepCap
end FV
