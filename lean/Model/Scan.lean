/-
E3 / the *language* of the parser for a one-shot complete parse, for C05: the scanners of
`src/fandango/language/grammar/parser/iterative_parser.py` (as of 1ef12755) plus a recogniser that follows
nothing but the grammar IR and these scanners.

What is modelled line by line — what ONE scan of a terminal at table column `p` (8 columns per input unit,
`w = p / 8`) can add to the table in COMPLETE mode on a whole word:

  * `scan_bit`    : `w < len(word)`, the unit is `≤ 0xFF` (1ef12755), bit `7 - p % 8` of it equals the terminal's
                    bit → column `p + 1`
  * `_consume`    : text, bytes and regex terminals are only scanned when `p % 8 = 0` (a33087ac)
  * `scan_bytes`  : `Terminal.check(word[w:])` = `startswith` on the units (a text literal is compared with
                    `bytes` input through Latin-1, i.e. unit by unit — a literal `"é"` is the ONE unit E9) →
                    column `p + 8 * len(literal)`; the empty literal `""` matches with length 0
  * `scan_regex`  : ONE length, that of `re.match(pattern, word[w:]).group(0)` (oracle `Inp.rlen id w`); since
                    179bde08 a match of length 0 is a match → column `p + 8 * length`
  * incomplete states (literal / regex that reaches the end of the word) are parked in the last column and
    never advance in a one-shot parse: not modelled.

`endsNT G inp c d s p` = the columns at which a derivation of `<s>` that starts in column `p` can end, when every
terminal is read by these scanners (derivations of nesting depth `≤ d`, repetition counts `≤ c`).  The Earley
machinery (predict / complete / column bookkeeping, `Model/Earley.lean`) is NOT modelled here: `endsNT` is the
language the chart parser is supposed to compute, stated over the grammar IR.  `Proofs/Scan.lean` proves it sound
and complete for the declarative relation `ExpNT` ("the grammar expands `<s>` to this terminal sequence") +
`scanAll` ("the scanners read this terminal sequence from column `p` to column `q`").

`firstFail` is the decidable side condition of C05 on a witness (leaves + regex tags): every leaf is exactly
what the scanner reads at the column where the serialised leaf starts.  It fails at a regex leaf when the
regex terminal could be split differently from what `re.match` prefers (outside the class C05 covers), at a
literal leaf when the parser does not read back what the generator wrote (inside the class: a defect).

No imports beyond the IR and the enumerator's tag conventions.
-/
import Model.Enum
namespace FV
namespace Scan
open Enum

/-- the word as the scanners see it -/
structure Inp where
  /-- code points of a `str` / byte values of a `bytes` input -/
  cells : List Nat
  /-- `rlen id w` = `len(re.match(regex #id, word[w:]).group(0))` asked the way `Terminal.check` asks, `none` =
      no match (oracle: CPython `re`) -/
  rlen : Nat → Nat → Option Nat

def Inp.ncols (inp : Inp) : Nat := 8 * inp.cells.length

def startsWith : List Nat → List Nat → Bool
  | _, [] => true
  | [], _ :: _ => false
  | a :: as, b :: bs => a == b && startsWith as bs

/-- one scan of a terminal in column `p`: the column the advanced state is added to -/
def scanT (inp : Inp) : Term → Nat → Option Nat
  | .lit (.bit b), p =>
    match inp.cells[p / 8]? with
    | none => none
    | some cell =>
      if cell ≤ 255 && (((cell >>> (7 - p % 8)) % 2 == 1) == b) then some (p + 1) else none
  | .lit (.text s), p =>
    if p % 8 == 0 && startsWith (inp.cells.drop (p / 8)) s then some (p + 8 * s.length) else none
  | .lit (.bytes b), p =>
    if p % 8 == 0 && startsWith (inp.cells.drop (p / 8)) (b.map (·.val)) then some (p + 8 * b.length) else none
  | .regex r, p =>
    if p % 8 == 0 then
      match inp.rlen r (p / 8) with
      | some m => some (p + 8 * m)
      | none => none
    else none

/-- the scanners read the terminal sequence from column `p` on; the column they end in -/
def scanAll (inp : Inp) : List Term → Nat → Option Nat
  | [], p => some p
  | t :: ts, p =>
    match scanT inp t p with
    | none => none
    | some q => scanAll inp ts q

/-! ### the recogniser -/

def dedup : List Nat → List Nat
  | [] => []
  | x :: xs => if x ∈ dedup xs then dedup xs else x :: dedup xs

/-- one more iteration from every column of `cur` -/
def stepAll (f : Nat → List Nat) (cur : List Nat) : List Nat := dedup (cur.flatMap f)

/-- columns after exactly `k` iterations -/
def iter (f : Nat → List Nat) : Nat → List Nat → List Nat
  | 0, cur => cur
  | k + 1, cur => iter f k (stepAll f cur)

/-- `cur` = the columns after exactly `k` iterations; the columns after `k, k+1, …, k+r` iterations whose count
    is within the bounds -/
def repFrom (f : Nat → List Nat) (min : Nat) (max : Option Nat) : Nat → Nat → List Nat → List Nat
  | 0, k, cur => if inBounds min max k then cur else []
  | r + 1, k, cur =>
    (if inBounds min max k then cur else []) ++ repFrom f min max r (k + 1) (stepAll f cur)

mutual
/-- end columns of one IR node started in column `p`, given the end columns of the non-terminals -/
def endsWith (inp : Inp) (c : Nat) (ntf : String → Nat → List Nat) : Node → Nat → List Nat
  | .term t, p => (scanT inp t p).toList
  | .nt name _ _, p => ntf name p
  | .alt _ ns, p => dedup (endsAny inp c ntf ns p)
  | .cat _ ns, p => endsCat inp c ntf ns p
  | .rep _ _ n min max, p => dedup (repFrom (fun q => endsWith inp c ntf n q) min max c 0 [p])
def endsAny (inp : Inp) (c : Nat) (ntf : String → Nat → List Nat) : List Node → Nat → List Nat
  | [], _ => []
  | n :: ns, p => endsWith inp c ntf n p ++ endsAny inp c ntf ns p
def endsCat (inp : Inp) (c : Nat) (ntf : String → Nat → List Nat) : List Node → Nat → List Nat
  | [], p => [p]
  | n :: ns, p => dedup ((endsWith inp c ntf n p).flatMap (fun q => endsCat inp c ntf ns q))
end

/-- end columns of the non-terminal `s` started in column `p`: nesting depth `≤ d`, repetition counts `≤ c` -/
def endsNT (G : Grammar) (inp : Inp) (c : Nat) : Nat → String → Nat → List Nat
  | 0, _, _ => []
  | d + 1, s, p =>
    match G.rule s with
    | none => []
    | some body => endsWith inp c (endsNT G inp c d) body p

/-- the whole word is a word of `<s>` as the scanners read it -/
def accepts (G : Grammar) (inp : Inp) (c d : Nat) (s : String) : Bool :=
  (endsNT G inp c d s 0).contains inp.ncols

/-! ### what the recogniser is meant to compute: expansions to terminal sequences, declaratively -/

/-- `k`-fold concatenation of sequences satisfying `P` -/
def PowE (P : List Term → Prop) : Nat → List Term → Prop
  | 0, w => w = []
  | k + 1, w => ∃ a b, P a ∧ PowE P k b ∧ w = a ++ b

mutual
/-- the node expands to the terminal sequence `w` (repetition counts `≤ c`, non-terminals according to `ntP`) -/
def ExpWith (c : Nat) (ntP : String → List Term → Prop) : Node → List Term → Prop
  | .term t, w => w = [t]
  | .nt name _ _, w => ntP name w
  | .alt _ ns, w => ExpAny c ntP ns w
  | .cat _ ns, w => ExpCat c ntP ns w
  | .rep _ _ n min max, w => ∃ k, k ≤ c ∧ inBounds min max k ∧ PowE (fun v => ExpWith c ntP n v) k w
def ExpAny (c : Nat) (ntP : String → List Term → Prop) : List Node → List Term → Prop
  | [], _ => False
  | n :: ns, w => ExpWith c ntP n w ∨ ExpAny c ntP ns w
def ExpCat (c : Nat) (ntP : String → List Term → Prop) : List Node → List Term → Prop
  | [], w => w = []
  | n :: ns, w => ∃ a b, ExpWith c ntP n a ∧ ExpCat c ntP ns b ∧ w = a ++ b
end

/-- `<s>` expands to the terminal sequence `w` with nesting depth `≤ d` -/
def ExpNT (G : Grammar) (c : Nat) : Nat → String → List Term → Prop
  | 0, _, _ => False
  | d + 1, s, w => ∃ body, G.rule s = some body ∧ ExpWith c (ExpNT G c d) body w

/-! ### the side condition of C05 on a witness -/

/-- the terminal a leaf instantiates: the regex its tag names, or the literal itself -/
def termOfLeaf (l : Leaf) : Option (Option Nat) → Term
  | some (some r) => .regex r
  | _ => .lit l

/-- the terminal sequence of a tagged witness (a missing tag reads as "literal") -/
def termsOf : List Leaf → List (Option Nat) → List Term
  | [], _ => []
  | l :: ls, tags => termOfLeaf l tags.head? :: termsOf ls tags.tail

def isRegexTag : Option (Option Nat) → Bool
  | some (some _) => true
  | _ => false

/-- Walk the leaves of a witness over the serialised word (`binary`: text is written as UTF-8): every leaf must
    be exactly what ONE scan of its terminal reads in the column where the serialised leaf starts.
    `none` = every leaf is; `some (i, isRegex)` = the first leaf that is not, and whether it instantiates a
    regex terminal (the regex could be split differently) or is a literal. -/
def firstFail (inp : Inp) (binary : Bool) : List Leaf → List (Option Nat) → Nat → Nat → Option (Nat × Bool)
  | [], _, _, _ => none
  | l :: ls, tags, p, i =>
    match leafLen8 binary l with
    | none => some (i, isRegexTag tags.head?)
    | some n8 =>
      if scanT inp (termOfLeaf l tags.head?) p == some (p + n8) then firstFail inp binary ls tags.tail (p + n8) (i + 1)
      else some (i, isRegexTag tags.head?)

/-- serialised length of the leaves, in eighths of a unit -/
def lenSum (binary : Bool) : List Leaf → Option Nat
  | [] => some 0
  | l :: ls =>
    match leafLen8 binary l, lenSum binary ls with
    | some a, some b => some (a + b)
    | _, _ => none

/-- THE SIDE CONDITION: the witness is what the scanners read, leaf by leaf, and it covers the whole word -/
def inClass (inp : Inp) (binary : Bool) (leaves : List Leaf) (tags : List (Option Nat)) : Bool :=
  (firstFail inp binary leaves tags 0 0).isNone && lenSum binary leaves == some inp.ncols

/-- The same walk for a witness WITHOUT tags (trees of the real generator do not say which terminal a leaf came
    from), conservatively: `full id l` = "regex #id matches the leaf as a whole" (`re.fullmatch`).  A leaf some
    regex matches as a whole must be what that regex reads at its column, for every such regex, AND what the
    literal reads; any other leaf must be what the literal reads.  `some (i, true)`: leaf `i` may instantiate a
    regex that reads something else there; `some (i, false)`: leaf `i` can only be a literal, and is not read. -/
def firstFailU (inp : Inp) (binary : Bool) (full : Nat → Leaf → Bool) (ids : List Nat) :
    List Leaf → Nat → Nat → Option (Nat × Bool)
  | [], _, _ => none
  | l :: ls, p, i =>
    let cands := ids.filter (fun r => full r l)
    match leafLen8 binary l with
    | none => some (i, !cands.isEmpty)
    | some n8 =>
      if cands.all (fun r => scanT inp (.regex r) p == some (p + n8)) && scanT inp (.lit l) p == some (p + n8)
      then firstFailU inp binary full ids ls (p + n8) (i + 1)
      else some (i, !cands.isEmpty)

end Scan
end FV
