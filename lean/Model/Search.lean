/-
E4 / selectors.  Hand-written executable model of `src/fandango/language/search.py`
(`RuleSearch` incl. the scope lookup, `AttributeSearch` `.`, `DescendantAttributeSearch` `..`,
`ItemSearch` `[i]` / `[a:b]` / `[a:b:s]` incl. negative indices, `StarSearch` `*`, `LengthSearch`
`|…|` / `len(*…)`, `find`, `find_direct`, `quantify`) and of the three `DerivationTree` methods they
call (`find_all_trees`, `find_direct_trees`, `__getitem__`).

`SelectiveSearch` (`{*<x>, *<y>: 0:2}`) is modelled as the code reads after fix 0d18e90f (before it every
such selector raised ValueError, finding F12).  Not modelled: generator
`sources` (trees are the trees of grammars without generators; `sources = []`), the `population`
argument (population-wide `**` selectors are rejected by the front end).

Exceptions that *escape* a search (IndexError of `<a>[7]`, TypeError of `<a>[0, 1]`) are modelled:
`find` is in `Except SErr`.

Tied to /repo by `harness/props/c07.py` (match lists compared as child-index paths).
No imports besides the shared tree model: this file is linked into `drv_cons`.
-/
import Model.Tree
namespace FV

/-- exceptions escaping `NonTerminalSearch.find` -/
inductive SErr where
  | index     -- IndexError  (`list index out of range`)
  | type      -- TypeError   (`list indices must be integers or slices, not list`), ill-typed bound value
  | value     -- ValueError  (`slice step cannot be zero`)
  deriving DecidableEq, Repr, Inhabited

/-- one element of `ItemSearch.slices` -/
inductive Slc where
  | idx (i : Int)
  | slice (start stop : Option Int) (step : Option Nat)
  deriving DecidableEq, Repr

namespace Tree

def isNT : Tree → Bool
  | mk (.nt _) _ _ _ => true
  | _ => false

mutual
/-- `DerivationTree.find_all_trees(symbol)`: post-order, descending only into children whose symbol is a
    non-terminal; the node itself last. -/
def findAll (s : String) : Tree → List Tree
  | mk sym a r kids => findAllL s kids ++ (if sym = .nt s then [mk sym a r kids] else [])
def findAllL (s : String) : List Tree → List Tree
  | [] => []
  | k :: ks => (if k.isNT then findAll s k else []) ++ findAllL s ks
end

/-- `DerivationTree.find_direct_trees(symbol)` -/
def findDirect (s : String) (t : Tree) : List Tree :=
  t.kids.filter (fun k => k.sym = .nt s)

/-- Python's `list[i]` -/
def pyIndex (l : List Tree) (i : Int) : Except SErr Tree :=
  let n : Int := l.length
  let j := if i < 0 then i + n else i
  if j < 0 then .error .index
  else match l[j.toNat]? with
    | some x => .ok x
    | none => .error .index

/-- clamp of a slice bound for a positive step (`PySlice_AdjustIndices`) -/
def clampIdx (n : Nat) (dflt : Nat) : Option Int → Nat
  | none => dflt
  | some s =>
    if s < 0 then (s + (n : Int)).toNat      -- `toNat` of a negative number is 0
    else min s.toNat n

/-- every `k`-th element, starting with the first (`k ≥ 1`) -/
def everyNth (k : Nat) (l : List Tree) : List Tree :=
  (List.range l.length).filterMap (fun i => if i % k = 0 then l[i]? else none)

/-- Python's `list[a:b:s]` for `s > 0` -/
def pySlice (l : List Tree) (start stop : Option Int) (step : Option Nat) : Except SErr (List Tree) :=
  let n := l.length
  let a := clampIdx n 0 start
  let b := clampIdx n n stop
  let seg := (l.drop a).take (b - a)
  match step with
  | none => .ok seg
  | some 0 => .error .value
  | some 1 => .ok seg
  | some k => .ok (everyNth k seg)

/-- `DerivationTree.__getitem__(item)` as `ItemSearch._find` calls it: `item` is the *list* of
    slices; a one-element list is unwrapped, anything else reaches `list.__getitem__` and raises
    TypeError.  A slice yields a `SliceTree` over the selected children. -/
def getItem (t : Tree) : List Slc → Except SErr Tree
  | [.idx i] => pyIndex t.kids i
  | [.slice a b s] =>
    match pySlice t.kids a b s with
    | .error e => .error e
    | .ok ks => .ok (mk .slice none none ks)
  | _ => .error .type

end Tree

/-- `scope: dict[NonTerminal, DerivationTree]` -/
abbrev Scope := List (String × Tree)

/-- `search.Container` -/
inductive Cont where
  | tree (t : Tree)          -- `Tree`
  | list (ts : List Tree)    -- `TreeList`  (star searches)
  | len (ts : List Tree)     -- `Length`
  deriving Repr

/-- `Container.get_trees()` -/
def Cont.trees : Cont → List Tree
  | .tree t => [t]
  | .list ts => ts
  | .len ts => ts

/-- one `*<x>: items` entry of a `{…}` selector: the symbol, whether only direct children are looked at
    (the grammar always writes `*`, i.e. `direct = false`), and the optional index / slice applied to the
    list of matches below each base tree -/
structure SelPair where
  sym : String
  direct : Bool
  items : Option Slc
  deriving Repr

inductive Search where
  | rule (s : String)
  | attr (base attrib : Search)
  | desc (base attrib : Search)
  | item (base : Search) (sl : List Slc)
  | star (base : Search)
  | len (base : Search)
  | sel (base : Search) (pairs : List SelPair)
  deriving Repr

/-- sequential `extend` over a list, stopping at the first exception -/
def flatMapE {α β ε : Type} (f : α → Except ε (List β)) : List α → Except ε (List β)
  | [] => .ok []
  | x :: xs =>
    match f x with
    | .error e => .error e
    | .ok ys =>
      match flatMapE f xs with
      | .error e => .error e
      | .ok zs => .ok (ys ++ zs)

def mapE {α β ε : Type} (f : α → Except ε β) : List α → Except ε (List β)
  | [] => .ok []
  | x :: xs =>
    match f x with
    | .error e => .error e
    | .ok y =>
      match mapE f xs with
      | .error e => .error e
      | .ok ys => .ok (y :: ys)

def allTrees (cs : List Cont) : List Tree := cs.flatMap Cont.trees

/-- `child.__getitem__(items)` on the *list* of matches below one base tree (`SelectiveSearch._find`):
    an index picks one match, a slice a sub-list -/
def selItems (l : List Tree) : Option Slc → Except SErr (List Tree)
  | none => .ok l
  | some (.idx i) => match Tree.pyIndex l i with
    | .error e => .error e
    | .ok x => .ok [x]
  | some (.slice a b st) => Tree.pySlice l a b st

/-- one entry of a `{…}` selector over all base trees -/
def selPair (ts : List Tree) (p : SelPair) : Except SErr (List Tree) :=
  flatMapE (fun t => selItems (if p.direct then t.findDirect p.sym else t.findAll p.sym) p.items) ts

namespace Search

/-- `find` (`direct = false`) and `find_direct` (`direct = true`) of every search class.
    `RuleSearch`: `if scope and self.symbol in scope: return [Tree(scope[self.symbol])]`. -/
def findG : Bool → Search → Tree → Scope → Except SErr (List Cont)
  | direct, rule s, t, σ =>
    match σ.lookup s with
    | some v => .ok [.tree v]
    | none => .ok ((if direct then t.findDirect s else t.findAll s).map .tree)
  | direct, attr b a, t, σ =>
    match findG direct b t σ with
    | .error e => .error e
    | .ok bs => flatMapE (fun u => findG true a u σ) (allTrees bs)
  | direct, desc b a, t, σ =>
    match findG direct b t σ with
    | .error e => .error e
    | .ok bs => flatMapE (fun u => findG false a u σ) (allTrees bs)
  | direct, item b sl, t, σ =>
    match findG direct b t σ with
    | .error e => .error e
    | .ok bs => mapE (fun u => match u.getItem sl with
                               | .error e => .error e
                               | .ok x => .ok (Cont.tree x)) (allTrees bs)
  | direct, star b, t, σ =>
    match findG direct b t σ with
    | .error e => .error e
    | .ok bs => .ok [.list (allTrees bs)]
  | direct, len b, t, σ =>
    match findG direct b t σ with
    | .error e => .error e
    | .ok bs => .ok [.len (allTrees bs)]
  | direct, sel b ps, t, σ =>
    match findG direct b t σ with
    | .error e => .error e
    | .ok bs =>
      match flatMapE (selPair (allTrees bs)) ps with
      | .error e => .error e
      | .ok ts => .ok (ts.map .tree)

def find (s : Search) (t : Tree) (σ : Scope) : Except SErr (List Cont) := findG false s t σ
def findDirect (s : Search) (t : Tree) (σ : Scope) : Except SErr (List Cont) := findG true s t σ

/-- does `find` yield `Tree` containers only?  (what a quantifier may bind) -/
def yieldsTrees : Search → Bool
  | rule _ => true
  | attr _ a => a.yieldsTrees
  | desc _ a => a.yieldsTrees
  | item _ _ => true
  | star _ => false
  | len _ => false
  | sel _ _ => true

/-- `[c.evaluate() for c in search.quantify(tree, scope)]` for the searches a quantifier can be given:
    a star search binds each matching tree in turn (`StarSearch.quantify`), every other search binds
    the trees its `find` returns.  Binding a list or a number (a `TreeList`/`Length` container: not
    expressible in a spec) is answered with `.type`. -/
def quantify : Search → Tree → Scope → Except SErr (List Tree)
  | star b, t, σ =>
    match find b t σ with
    | .error e => .error e
    | .ok bs => .ok (allTrees bs)
  | s, t, σ =>
    match find s t σ with
    | .error e => .error e
    | .ok cs => mapE (fun c => match c with
                               | .tree u => .ok u
                               | _ => .error .type) cs

end Search
end FV
