/-
E1 / pure derivation trees.  Model of the *structure* of `DerivationTree`
(`symbol`, `sender`, `recipient`, `_children`) and of `DerivationTree.value()`.
Bookkeeping (`_size`, `hash_cache`, `_parent`, read-only flags, sources) lives in `Model/Arena.lean`.
-/
import Model.Value
namespace FV

inductive Sym where
  | nt (name : String)
  | term (l : Leaf)
  | slice
  deriving DecidableEq, Repr

inductive Tree where
  | mk (sym : Sym) (sender recipient : Option String) (kids : List Tree)
  deriving Repr

namespace Tree

def sym : Tree → Sym | mk s _ _ _ => s
def sender : Tree → Option String | mk _ s _ _ => s
def recipient : Tree → Option String | mk _ _ r _ => r
def kids : Tree → List Tree | mk _ _ _ k => k

def leaf (l : Leaf) : Tree := .mk (.term l) none none []
def node (name : String) (kids : List Tree) : Tree := .mk (.nt name) none none kids

mutual
/-- number of nodes (`DerivationTree.size()` recomputed from scratch) -/
def size : Tree → Nat
  | mk _ _ _ kids => 1 + sizeL kids
def sizeL : List Tree → Nat
  | [] => 0
  | t :: ts => size t + sizeL ts
end

mutual
/-- terminal leaves, left to right.  A node whose symbol is a terminal is a leaf whatever is below
    it, exactly like `value()`'s `if self.symbol.is_terminal`. -/
def leaves : Tree → List Leaf
  | mk (.term l) _ _ _ => [l]
  | mk (.nt _) _ _ kids => leavesL kids
  | mk .slice _ _ kids => leavesL kids
def leavesL : List Tree → List Leaf
  | [] => []
  | t :: ts => leaves t ++ leavesL ts
end

mutual
/-- `DerivationTree._append_value_to(aggregate)`: append the terminal leaves below the node to
    `aggregate`, left to right. -/
def valueInto (acc : TV) : Tree → Except Err TV
  | mk (.term l) _ _ _ => acc.append l.tv
  | mk (.nt _) _ _ kids => valueIntoL acc kids
  | mk .slice _ _ kids => valueIntoL acc kids
def valueIntoL (acc : TV) : List Tree → Except Err TV
  | [] => .ok acc
  | t :: ts =>
    match valueInto acc t with
    | .error x => .error x
    | .ok acc' => valueIntoL acc' ts
end

/-- `DerivationTree.value()`: a terminal returns its symbol's value, an inner node folds its leaves
    into `TreeValue.empty()`. -/
def value : Tree → Except Err TV
  | mk (.term l) _ _ _ => .ok l.tv
  | mk (.nt _) _ _ kids => valueIntoL TV.empty kids
  | mk .slice _ _ kids => valueIntoL TV.empty kids

mutual
/-- the fold `value()` used before the fix "value(): fold over the leaves": every inner node first
    computed its own value.  Kept only for `Props/C09.lean: nested_fold_depends_on_nesting`. -/
def valueNested : Tree → Except Err TV
  | mk (.term l) _ _ _ => .ok l.tv
  | mk (.nt _) _ _ kids => valueNestedL TV.empty kids
  | mk .slice _ _ kids => valueNestedL TV.empty kids
def valueNestedL (acc : TV) : List Tree → Except Err TV
  | [] => .ok acc
  | t :: ts =>
    match valueNested t with
    | .error x => .error x
    | .ok v =>
      match acc.append v with
      | .error x => .error x
      | .ok acc' => valueNestedL acc' ts
end

mutual
def beq : Tree → Tree → Bool
  | mk s1 a1 r1 k1, mk s2 a2 r2 k2 => s1 == s2 && a1 == a2 && r1 == r2 && beqL k1 k2
def beqL : List Tree → List Tree → Bool
  | [], [] => true
  | t :: ts, u :: us => beq t u && beqL ts us
  | _, _ => false
end

instance : BEq Tree := ⟨beq⟩

end Tree

/-- the fold `value()` performs, on a flat list of values -/
def foldAppend (acc : TV) : List TV → Except Err TV
  | [] => .ok acc
  | v :: vs =>
    match acc.append v with
    | .error x => .error x
    | .ok acc' => foldAppend acc' vs

end FV
