/-
E1 / values.  Hand-written executable model of `src/fandango/language/tree_value.py`
(`TreeValue`: `_value`, `_trailing_bits`, `append`, `_reduce_trailing_bits`, `to_string`,
`to_bytes`, `to_bits`, `to_int`, `type_`) and of the terminal leaves of a derivation tree.

Tied to /repo by `harness/props/c09.py` (correspondence on generated leaf sequences,
nestings and observer orders).  No imports: this file is linked into the driver executable.
-/
namespace FV

/-- error classes of the real code, canonicalised -/
inductive Err where
  | conv      -- FandangoConversionError
  | value     -- FandangoValueError  ("should not happen")
  | pyValue   -- bare Python ValueError (`int("x")` on a text value)
  deriving DecidableEq, Repr, Inhabited

/-- a Python `str` as its list of code points -/
abbrev Str := List Nat
abbrev Byte := Fin 256
abbrev Bytes := List Byte
abbrev Bits := List Bool

deriving instance DecidableEq for Except

inductive Enc where
  | utf8 | latin1
  deriving DecidableEq, Repr

/-! ### `str.encode` -/

def mkByte (n : Nat) : Byte := Fin.ofNat 256 n

/-- UTF-8 encoding of one code point; CPython refuses lone surrogates. -/
def utf8Char (c : Nat) : Except Err Bytes :=
  if c < 0x80 then .ok [mkByte c]
  else if c < 0x800 then .ok [mkByte (0xC0 + c / 64), mkByte (0x80 + c % 64)]
  else if 0xD800 ≤ c ∧ c < 0xE000 then .error .conv
  else if c < 0x10000 then
    .ok [mkByte (0xE0 + c / 4096), mkByte (0x80 + c / 64 % 64), mkByte (0x80 + c % 64)]
  else if c < 0x110000 then
    .ok [mkByte (0xF0 + c / 262144), mkByte (0x80 + c / 4096 % 64),
         mkByte (0x80 + c / 64 % 64), mkByte (0x80 + c % 64)]
  else .error .conv

/-- Latin-1 encoding of one code point; fails from U+0100 on. -/
def latin1Char (c : Nat) : Except Err Bytes :=
  if c < 256 then .ok [mkByte c] else .error .conv

def encChar : Enc → Nat → Except Err Bytes
  | .utf8, c => utf8Char c
  | .latin1, c => latin1Char c

/-- `_str_to_bytes(value, encoding)` -/
def encode (e : Enc) : Str → Except Err Bytes
  | [] => .ok []
  | c :: cs =>
    match encChar e c with
    | .error x => .error x
    | .ok a =>
      match encode e cs with
      | .error x => .error x
      | .ok b => .ok (a ++ b)

/-- `bytes.decode("latin-1")` (total) -/
def latin1Decode (b : Bytes) : Str := b.map (·.val)

/-! ### bits and bytes -/

def bitVal (b : Bool) : Nat := if b then 1 else 0

/-- `trailing_bits_to_int`: big-endian -/
def bitsToNat (bs : Bits) : Nat := bs.foldl (fun acc b => 2 * acc + bitVal b) 0

/-- `num.to_bytes(len // 8)` for a bit list whose length is a multiple of eight:
    eight bits per byte, most significant first.  (A tail shorter than 8 is dropped; every caller
    guards with `length % 8 = 0`.) -/
def pack : Bits → Bytes
  | b0 :: b1 :: b2 :: b3 :: b4 :: b5 :: b6 :: b7 :: rest =>
    mkByte (bitsToNat [b0, b1, b2, b3, b4, b5, b6, b7]) :: pack rest
  | _ => []

/-- `f"{byte:08b}"` -/
def byteBits (b : Byte) : Bits :=
  [b.val / 128 % 2 == 1, b.val / 64 % 2 == 1, b.val / 32 % 2 == 1, b.val / 16 % 2 == 1,
   b.val / 8 % 2 == 1, b.val / 4 % 2 == 1, b.val / 2 % 2 == 1, b.val % 2 == 1]

def unpack (bs : Bytes) : Bits := bs.flatMap byteBits

/-! ### TreeValue -/

/-- `TreeValue._value` -/
inductive Val where
  | none
  | text (s : Str)
  | bytes (b : Bytes)
  deriving DecidableEq, Repr

/-- `TreeValue` = `(_value, _trailing_bits)` -/
structure TV where
  val : Val
  bits : Bits
  deriving DecidableEq, Repr

inductive TVType where
  | string | bytes | trailing | empty
  deriving DecidableEq, Repr

namespace TV

def empty : TV := ⟨.none, []⟩

/-- `TreeValue.type_` -/
def type (v : TV) : TVType :=
  match v.val with
  | .none => if v.bits.isEmpty then .empty else .trailing
  | .text _ => if v.bits.isEmpty then .string else .bytes
  | .bytes _ => .bytes

/-- `_reduce_trailing_bits(enc)`: returns the receiver after the in-place update. -/
def reduce (e : Enc) (v : TV) : Except Err TV :=
  if v.bits.isEmpty then .ok v
  else if v.bits.length % 8 ≠ 0 then .error .conv
  else
    let bs := pack v.bits
    match v.val with
    | .none => .ok ⟨.bytes bs, []⟩
    | .bytes b => .ok ⟨.bytes (b ++ bs), []⟩
    | .text s =>
      match encode e s with
      | .error x => .error x
      | .ok b => .ok ⟨.bytes (b ++ bs), []⟩

/-- `TreeValue.append(other)` with the default `utf-8` string-to-bytes encoding: the returned value.
    (The receiver is also flushed in place; see `appendS`.) -/
def append (a b : TV) : Except Err TV :=
  if a.type = .empty then .ok b
  else
    match b.val with
    | .none => .ok ⟨a.val, a.bits ++ b.bits⟩
    | .text t =>
      match reduce .utf8 a with
      | .error x => .error x
      | .ok a' =>
        match a'.val with
        | .text s => .ok ⟨.text (s ++ t), b.bits⟩
        | .bytes s =>
          (match encode .utf8 t with
           | .error x => .error x
           | .ok tb => .ok ⟨.bytes (s ++ tb), b.bits⟩)
        | .none => .error .value
    | .bytes t =>
      match reduce .utf8 a with
      | .error x => .error x
      | .ok a' =>
        match a'.val with
        | .text s =>
          (match encode .utf8 s with
           | .error x => .error x
           | .ok sb => .ok ⟨.bytes (sb ++ t), b.bits⟩)
        | .bytes s => .ok ⟨.bytes (s ++ t), b.bits⟩
        | .none => .error .value

/-- state-passing version of `append`: (result, receiver afterwards).  The receiver is flushed
    exactly when the code reaches `self._reduce_trailing_bits(...)`. -/
def appendS (a b : TV) : Except Err (TV × TV) :=
  if a.type = .empty then .ok (b, a)
  else
    match b.val with
    | .none => .ok (⟨a.val, a.bits ++ b.bits⟩, a)
    | _ =>
      match reduce .utf8 a with
      | .error x => .error x
      | .ok a' =>
        match append a b with
        | .error x => .error x
        | .ok r => .ok (r, a')

/-- which encoding `to_string` uses to flush pending bits into a text value.
    `Generated/Constants.lean` records what the source says today; the model takes it as a
    parameter so that both variants can be stated. -/
def toStrWith (flush : Enc) (v : TV) : Except Err Str :=
  if v.type = .empty then .ok []
  else
    match reduce flush v with
    | .error x => .error x
    | .ok v' =>
      match v'.val with
      | .text s => .ok s
      | .bytes b => .ok (latin1Decode b)
      | .none => .error .value

/-- `to_bytes()` -/
def toBytes (v : TV) : Except Err Bytes :=
  if v.type = .empty then .ok []
  else
    match reduce .utf8 v with
    | .error x => .error x
    | .ok v' =>
      match v'.val with
      | .bytes b => .ok b
      | .text s => encode .utf8 s
      | .none => .error .value

/-- `to_bits()` as a list of bits (the code returns a string of '0'/'1') -/
def toBits (v : TV) : Except Err Bits :=
  match v.val with
  | .none => .ok v.bits
  | .bytes b => .ok (unpack b ++ v.bits)
  | .text s =>
    match encode .utf8 s with
    | .error x => .error x
    | .ok b => .ok (unpack b ++ v.bits)

end TV

/-! ### `int(str)` for ASCII text.  `none` = "not modelled" (non-ASCII input: CPython also accepts
Unicode digits and spaces there); the correspondence skips those cases. -/

/-- what `int()` strips from an ASCII string: C `isspace` (space, \t \n \v \f \r).  The separators
    U+001C..U+001F are whitespace for `str.isspace()` but are NOT stripped by `int()` when the whole
    string is ASCII (CPython only maps Unicode spaces to ' ' on its non-ASCII path). -/
def isAsciiSpace (c : Nat) : Bool :=
  c == 32 || (9 ≤ c && c ≤ 13)

def isDigit (c : Nat) : Bool := 48 ≤ c && c ≤ 57

/-- digits with single underscores between digits -/
def digitsVal : Str → Bool → Nat → Option Nat   -- rest, lastWasDigit, acc
  | [], lastDigit, acc => if lastDigit then some acc else none
  | c :: cs, lastDigit, acc =>
    if isDigit c then digitsVal cs true (10 * acc + (c - 48))
    else if c == 95 && lastDigit then
      (match cs with
       | d :: _ => if isDigit d then digitsVal cs false acc else none
       | [] => none)
    else none

def stripSpaces (s : Str) : Str :=
  ((s.dropWhile isAsciiSpace).reverse.dropWhile isAsciiSpace).reverse

inductive IntRes where
  | ok (i : Int) | bad | unknown
  deriving DecidableEq, Repr

def pyInt (s : Str) : IntRes :=
  if s.any (fun c => c ≥ 128) then .unknown
  else
    let t := stripSpaces s
    let (neg, body) := match t with
      | 45 :: r => (true, r)
      | 43 :: r => (false, r)
      | r => (false, r)
    match body with
    | [] => .bad
    | c :: _ =>
      if !isDigit c then .bad
      else match digitsVal body false 0 with
        | some n => .ok (if neg then - (Int.ofNat n) else Int.ofNat n)
        | none => .bad

namespace TV

inductive IntOut where
  | ok (i : Int) | err (e : Err) | unknown
  deriving DecidableEq, Repr

/-- `to_int()` -/
def toInt (flush : Enc) (v : TV) : IntOut :=
  match v.val with
  | .none => .ok (Int.ofNat (bitsToNat v.bits))
  | _ =>
    match reduce .utf8 v with
    | .error x => .err x
    | .ok v' =>
      match v'.val with
      | .text s =>
        (match pyInt s with
         | .ok i => .ok i | .bad => .err .pyValue | .unknown => .unknown)
      | .bytes _ =>
        (match toStrWith flush v' with
         | .error x => .err x
         | .ok s =>
           match pyInt s with
           | .ok i => .ok i | .bad => .err .conv | .unknown => .unknown)
      | .none => .err .value

end TV

/-! ### terminal leaves -/

inductive Leaf where
  | text (s : Str)
  | bytes (b : Bytes)
  | bit (b : Bool)
  deriving DecidableEq, Repr

/-- `Terminal(x)._value` -/
def Leaf.tv : Leaf → TV
  | .text s => ⟨.text s, []⟩
  | .bytes b => ⟨.bytes b, []⟩
  | .bit b => ⟨.none, [b]⟩

/-- the bits a leaf contributes to the serialised output -/
def Leaf.bitsE : Leaf → Except Err Bits
  | .text s => match encode .utf8 s with
    | .error x => .error x
    | .ok b => .ok (unpack b)
  | .bytes b => .ok (unpack b)
  | .bit b => .ok [b]

end FV
