/-
E7 / worklists and hash-ordered containers (C17).

"Same inputs ⇒ same output" is trivially true of any Lean function, so it says nothing about C17.
What *is* logic in C17 is the following, and only that is modelled here:

1. `Runs` — the worklist closures the code computes over Python `set`s whose pop / iteration order is
   not under the program's control:
     `Grammar.get_protocol_messages`      work.pop(); for node in current.descendents(): if node not in seen: seen.add; work.add
     `StateGrammarConverter.process`       diff_keys.pop(); visit → seen_keys grows; until seen - processed = ∅
     `parse/io.py is_party_reachable`      nt_node_queue.pop(); …
     `slice_parties`                       for nt in set(rules.keys()) …  (a fixpoint of deletions)
   `set.pop()` is modelled as an arbitrary choice (a relation, not an oracle function: the choice may
   depend on hashes, addresses, the phase of the moon).
2. `tableOrder` — where the code turns a set into an ORDER (`list(set(new_population))` in
   `_generate_simple`, dict insertion in `StateGrammarConverter._reduced`): an open-addressing hash
   table with an arbitrary probe function; iteration order = slot order.
3. `Expr` — constraint expressions whose placeholder names embed `id(self)`
   (`___fandango_<id>_<n>___`, `SearchProcessor.get_new_identifier`), evaluated against a dict of
   bindings (`local_vars.update(combination)`; `eval(expression, globals, local_vars)`).
No imports.
-/
namespace FV.Wl

/-! ## 1. worklist closure with an arbitrary pop order -/

section closure
variable {α : Type} [DecidableEq α]

/-- `if n in seen: continue; seen.add(n); work.add(n)` on the pair (work, seen) -/
def addNew (st : List α × List α) (n : α) : List α × List α :=
  if n ∈ st.2 then st else (n :: st.1, n :: st.2)

/-- the inner `for node in current.descendents(self)` loop -/
def expand (succ : α → List α) (cur : α) (work seen : List α) : List α × List α :=
  (succ cur).foldl addNew (work, seen)

/-- all executions of the loop `while work: cur = work.pop(); expand`: `Runs succ work seen result`
    — SOME sequence of pops from the state (work, seen) ends with `seen = result`.  `pop` removes an
    arbitrary element `cur` of `work`; `rest` is `work` without it (as sets). -/
inductive Runs (succ : α → List α) : List α → List α → List α → Prop where
  | done (seen : List α) : Runs succ [] seen seen
  | pop (work seen rest result : List α) (cur : α) :
      cur ∈ work → (∀ x, x ∈ rest ↔ (x ∈ work ∧ x ≠ cur)) →
      Runs succ (expand succ cur rest seen).1 (expand succ cur rest seen).2 result →
      Runs succ work seen result

/-- reachable from `start` in one or more `succ` steps -/
inductive ReachPlus (succ : α → List α) (start : α) : α → Prop where
  | base (y : α) : y ∈ succ start → ReachPlus succ start y
  | step (x y : α) : ReachPlus succ start x → y ∈ succ x → ReachPlus succ start y

end closure

/-! ## 2. the order in which a hash table hands its elements back -/

section table
variable {α : Type} [DecidableEq α]

/-- probe for `x` with hash `h`: the first slot of the probe sequence `probe h 0, probe h 1, …`
    (mod table size) that is empty or already holds `x` -/
def findSlot (probe : Nat → Nat → Nat) (h : Nat) (x : α) (slots : List (Option α)) : Nat → Nat → Option Nat
  | 0, _ => none
  | fuel + 1, k =>
    let i := probe h k % slots.length
    match slots[i]? with
    | some none => some i
    | some (some y) => if y = x then some i else findSlot probe h x slots fuel (k + 1)
    | none => none

/-- `s.add(x)`; a full probe sequence spills to an overflow area at the end (keeps the model total) -/
def insert1 (probe : Nat → Nat → Nat) (hash : α → Nat) (slots : List (Option α)) (x : α) : List (Option α) :=
  match findSlot probe (hash x) x slots slots.length 0 with
  | some i => slots.set i (some x)
  | none => if some x ∈ slots then slots else slots ++ [some x]

/-- `list(set(xs))` for a table of `n` slots: insert in the given order, read the slots in order -/
def tableOrder (probe : Nat → Nat → Nat) (hash : α → Nat) (n : Nat) (xs : List α) : List α :=
  (xs.foldl (insert1 probe hash) (List.replicate n none)).filterMap id

end table

/-! ## 3. placeholder names -/

/-- a Python name in a constraint expression: a generated placeholder (`___fandango_<id>_<n>___`,
    abstracted to the number pair encoded as one `Nat`) or any other name -/
inductive Name where
  | ph (n : Nat)
  | other (s : String)
  deriving DecidableEq, Repr

/-- expressions over values of type `β`; `op`s are interpreted by an arbitrary function of the
    argument VALUES (whatever Python does with them, it does not see the names) -/
inductive Expr (β : Type) where
  | var (n : Name)
  | lit (v : β)
  | app1 (op : Nat) (e : Expr β)
  | app2 (op : Nat) (e₁ e₂ : Expr β)

def Name.rename (f : Nat → Nat) : Name → Name
  | .ph n => .ph (f n)
  | .other s => .other s

def Expr.rename {β : Type} (f : Nat → Nat) : Expr β → Expr β
  | .var n => .var (n.rename f)
  | .lit v => .lit v
  | .app1 op e => .app1 op (e.rename f)
  | .app2 op a b => .app2 op (a.rename f) (b.rename f)

/-- `dict` lookup in the bindings (`NameError` = none) -/
def lookup {β : Type} (n : Name) : List (Name × β) → Option β
  | [] => none
  | (k, v) :: rest => if k = n then some v else lookup n rest

def Expr.eval {β : Type} (i1 : Nat → β → Option β) (i2 : Nat → β → β → Option β) (env : List (Name × β)) :
    Expr β → Option β
  | .var n => lookup n env
  | .lit v => some v
  | .app1 op e => (e.eval i1 i2 env).bind (i1 op)
  | .app2 op a b => (a.eval i1 i2 env).bind (fun x => (b.eval i1 i2 env).bind (i2 op x))

def renameEnv {β : Type} (f : Nat → Nat) (env : List (Name × β)) : List (Name × β) :=
  env.map (fun p => (p.1.rename f, p.2))

end FV.Wl
