/-
Helper lemmas for `Props/C10.lean` (E1 arena): abstraction relation, reachability, frames.
No Mathlib.
-/
import Model.ArenaStep
namespace FV
open Store
variable {α : Type}

/-! ### the structural hash of a pure tree -/
mutual
def hashT (Hc : Sym → Option String → Option String → List α → α) : Tree → α
  | .mk s a r ks => Hc s a r (hashTL Hc ks)
def hashTL (Hc : Sym → Option String → Option String → List α → α) : List Tree → List α
  | [] => []
  | t :: ts => hashT Hc t :: hashTL Hc ts
end

/-- the combiner is injective (no collisions): hypothesis of the equality theorem -/
def HcInjective (Hc : Sym → Option String → Option String → List α → α) : Prop :=
  ∀ s a r hs s' a' r' hs', Hc s a r hs = Hc s' a' r' hs' → s = s' ∧ a = a' ∧ r = r' ∧ hs = hs'

mutual
theorem hashT_inj {Hc : Sym → Option String → Option String → List α → α} (hH : HcInjective Hc) :
    ∀ (t t' : Tree), hashT Hc t = hashT Hc t' → t = t'
  | .mk s a r ks, .mk s' a' r' ks', h => by
    simp only [hashT] at h
    obtain ⟨h1, h2, h3, h4⟩ := hH _ _ _ _ _ _ _ _ h
    rw [h1, h2, h3, hashTL_inj hH ks ks' h4]
theorem hashTL_inj {Hc : Sym → Option String → Option String → List α → α} (hH : HcInjective Hc) :
    ∀ (ts ts' : List Tree), hashTL Hc ts = hashTL Hc ts' → ts = ts'
  | [], [], _ => rfl
  | [], _ :: _, h => by simp [hashTL] at h
  | _ :: _, [], h => by simp [hashTL] at h
  | t :: ts, t' :: ts', h => by
    simp only [hashTL, List.cons.injEq] at h
    rw [hashT_inj hH t t' h.1, hashTL_inj hH ts ts' h.2]
end

/-! ### abstraction relation: `Abs σ i t` — node `i` currently denotes the pure tree `t` -/
mutual
def Abs (σ : Store α) : Nat → Tree → Prop
  | i, .mk s a r ts =>
    ∃ rec, σ[i]? = some rec ∧ rec.sym = s ∧ rec.sender = a ∧ rec.recipient = r ∧ AbsL σ rec.kids ts
def AbsL (σ : Store α) : List Nat → List Tree → Prop
  | [], [] => True
  | k :: ks, t :: ts => Abs σ k t ∧ AbsL σ ks ts
  | _, _ => False
end

mutual
theorem Abs.det {σ : Store α} : ∀ (t t' : Tree) (i : Nat), Abs σ i t → Abs σ i t' → t = t'
  | .mk s a r ts, .mk s' a' r' ts', i, h, h' => by
    simp only [Abs] at h h'
    obtain ⟨rec, h1, h2, h3, h4, h5⟩ := h
    obtain ⟨rec', h1', h2', h3', h4', h5'⟩ := h'
    rw [h1] at h1'; cases h1'
    have := AbsL.det ts ts' _ h5 h5'
    subst h2 h3 h4 h2' h3' h4' this; rfl
theorem AbsL.det {σ : Store α} :
    ∀ (ts ts' : List Tree) (ks : List Nat), AbsL σ ks ts → AbsL σ ks ts' → ts = ts'
  | [], [], _, _, _ => rfl
  | [], _ :: _, ks, h, h' => by cases ks <;> simp [AbsL] at h h'
  | _ :: _, [], ks, h, h' => by cases ks <;> simp [AbsL] at h h'
  | t :: ts, t' :: ts', ks, h, h' => by
    cases ks with
    | nil => simp [AbsL] at h
    | cons k ks =>
      simp only [AbsL] at h h'
      rw [Abs.det t t' k h.1 h'.1, AbsL.det ts ts' ks h.2 h'.2]
end

/-- two records agree on what the abstraction reads -/
def SameCore (r r' : NodeRec α) : Prop :=
  r.sym = r'.sym ∧ r.sender = r'.sender ∧ r.recipient = r'.recipient ∧ r.kids = r'.kids

theorem SameCore.rfl' (r : NodeRec α) : SameCore r r := ⟨rfl, rfl, rfl, rfl⟩

/-- `j` is `i` or a descendant of `i` through child lists -/
inductive Reach (σ : Store α) : Nat → Nat → Prop
  | refl (i : Nat) : Reach σ i i
  | step {i k j : Nat} {r : NodeRec α} : σ[i]? = some r → k ∈ r.kids → Reach σ k j → Reach σ i j

theorem Reach.trans {σ : Store α} {a b c : Nat} (h1 : Reach σ a b) (h2 : Reach σ b c) : Reach σ a c := by
  induction h1 with
  | refl => exact h2
  | step hr hk _ ih => exact .step hr hk (ih h2)

theorem Reach.snoc {σ : Store α} {a b c : Nat} {r : NodeRec α} (h1 : Reach σ a b)
    (hr : σ[b]? = some r) (hk : c ∈ r.kids) : Reach σ a c :=
  h1.trans (.step hr hk (.refl c))

theorem AbsL.mem {σ : Store α} : ∀ (ks : List Nat) (ts : List Tree), AbsL σ ks ts →
    ∀ k ∈ ks, ∃ t, t ∈ ts ∧ Abs σ k t
  | [], [], _, k, hk => by simp at hk
  | [], _ :: _, h, _, _ => by simp [AbsL] at h
  | _ :: _, [], h, _, _ => by simp [AbsL] at h
  | k0 :: ks, t0 :: ts, h, k, hk => by
    simp only [AbsL] at h
    rcases List.mem_cons.mp hk with rfl | hk
    · exact ⟨t0, List.mem_cons_self, h.1⟩
    · obtain ⟨t, ht, ha⟩ := AbsL.mem ks ts h.2 k hk
      exact ⟨t, List.mem_cons_of_mem _ ht, ha⟩

theorem sizeL_mem : ∀ (ts : List Tree) (t : Tree), t ∈ ts → t.size ≤ Tree.sizeL ts
  | [], _, h => by simp at h
  | t0 :: ts, t, h => by
    simp only [Tree.sizeL]
    rcases List.mem_cons.mp h with rfl | h
    · omega
    · have := sizeL_mem ts t h; omega

/-- a node's abstraction is strictly larger than that of anything below one of its children -/
theorem Reach.size_le {σ : Store α} {i j : Nat} (h : Reach σ i j) :
    ∀ t, Abs σ i t → ∃ tj, Abs σ j tj ∧ tj.size ≤ t.size := by
  induction h with
  | refl i => exact fun t ht => ⟨t, ht, Nat.le_refl _⟩
  | @step i k j r hr hk _ ih =>
    intro t ht
    cases t with
    | mk s a rr ts =>
      simp only [Abs] at ht
      obtain ⟨rec, h1, _, _, _, h5⟩ := ht
      rw [hr] at h1; cases h1
      obtain ⟨tk, htk, hak⟩ := AbsL.mem _ _ h5 k hk
      obtain ⟨tj, hj, hle⟩ := ih tk hak
      refine ⟨tj, hj, ?_⟩
      have := sizeL_mem ts tk htk
      simp only [Tree.size]; omega

theorem Reach.size_lt {σ : Store α} {i k j : Nat} {r : NodeRec α} (hr : σ[i]? = some r)
    (hk : k ∈ r.kids) (h : Reach σ k j) (t : Tree) (ht : Abs σ i t) :
    ∃ tj, Abs σ j tj ∧ tj.size < t.size := by
  cases t with
  | mk s a rr ts =>
    simp only [Abs] at ht
    obtain ⟨rec, h1, _, _, _, h5⟩ := ht
    rw [hr] at h1; cases h1
    obtain ⟨tk, htk, hak⟩ := AbsL.mem _ _ h5 k hk
    obtain ⟨tj, hj, hle⟩ := h.size_le tk hak
    refine ⟨tj, hj, ?_⟩
    have := sizeL_mem ts tk htk
    simp only [Tree.size]; omega

/-- no node with an abstraction lies below one of its own children (acyclicity) -/
theorem not_reach_of_kid {σ : Store α} {i k : Nat} {r : NodeRec α} {t : Tree} (hr : σ[i]? = some r)
    (hk : k ∈ r.kids) (ht : Abs σ i t) : ¬ Reach σ k i := by
  intro h
  obtain ⟨tj, hj, hlt⟩ := h.size_lt hr hk t ht
  have := Abs.det _ _ _ hj ht
  subst this; omega

/-! ### frames -/

mutual
/-- the abstraction only reads the cores of the nodes below -/
theorem Abs.frame {σ σ' : Store α} : ∀ (t : Tree) (i : Nat), Abs σ i t →
    (∀ j, Reach σ i j → ∀ r, σ[j]? = some r → ∃ r', σ'[j]? = some r' ∧ SameCore r r') → Abs σ' i t
  | .mk s a rr ts, i, h, hf => by
    simp only [Abs] at h ⊢
    obtain ⟨rec, h1, h2, h3, h4, h5⟩ := h
    obtain ⟨r', hr', hc⟩ := hf i (.refl i) rec h1
    refine ⟨r', hr', hc.1 ▸ h2, hc.2.1 ▸ h3, hc.2.2.1 ▸ h4, ?_⟩
    rw [← hc.2.2.2]
    exact AbsL.frame ts rec.kids h5 (fun k hk j hj => hf j (.step h1 hk hj))
theorem AbsL.frame {σ σ' : Store α} : ∀ (ts : List Tree) (ks : List Nat), AbsL σ ks ts →
    (∀ k ∈ ks, ∀ j, Reach σ k j → ∀ r, σ[j]? = some r → ∃ r', σ'[j]? = some r' ∧ SameCore r r') →
    AbsL σ' ks ts
  | [], [], _, _ => by simp [AbsL]
  | [], _ :: _, h, _ => by simp [AbsL] at h
  | _ :: _, [], h, _ => by simp [AbsL] at h
  | t :: ts, k :: ks, h, hf => by
    simp only [AbsL] at h ⊢
    exact ⟨Abs.frame t k h.1 (hf k List.mem_cons_self),
           AbsL.frame ts ks h.2 (fun k' hk' => hf k' (List.mem_cons_of_mem _ hk'))⟩
end

/-- stores that agree on every core have the same abstractions -/
theorem Abs.congr {σ σ' : Store α}
    (h : ∀ (j : Nat) (r : NodeRec α), σ[j]? = some r → ∃ r', σ'[j]? = some r' ∧ SameCore r r') {i : Nat} {t : Tree}
    (ha : Abs σ i t) : Abs σ' i t :=
  Abs.frame t i ha (fun j _ r hr => h j r hr)

theorem Reach.congr {σ σ' : Store α}
    (h : ∀ (j : Nat) (r : NodeRec α), σ[j]? = some r → ∃ r', σ'[j]? = some r' ∧ SameCore r r') {i j : Nat}
    (hr : Reach σ i j) : Reach σ' i j := by
  induction hr with
  | refl => exact .refl _
  | step hr hk _ ih =>
    obtain ⟨r', hr', hc⟩ := h _ _ hr
    exact .step hr' (hc.2.2.2 ▸ hk) ih

end FV
