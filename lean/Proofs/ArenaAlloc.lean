/-
Allocation: the constructor (`mkNode`) and `SliceTree` (`mkSlice`, `getSlice`).
-/
import Proofs.ArenaCore
namespace FV
open Store
variable {α : Type} {Hc : Sym → Option String → Option String → List α → α}

theorem get_append_old {σ : Store α} (l : Store α) {a : Nat} (h : a < σ.length) : (σ ++ l)[a]? = σ[a]? :=
  List.getElem?_append_left h

theorem get_append_new (σ : Store α) (x : NodeRec α) : (σ ++ [x])[σ.length]? = some x := by
  simp

theorem Abs.mono {σ : Store α} (l : Store α) {a : Nat} {t : Tree} (h : Abs σ a t) : Abs (σ ++ l) a t :=
  Abs.congr (fun j r hr => ⟨r, by rw [get_append_old l (lt_of_get_some hr)]; exact hr, SameCore.rfl' r⟩) h

theorem Abs.old {σ : Store α} (hwf : ∀ i, i < σ.length → ∃ t, Abs σ i t) (l : Store α) {a : Nat} {t : Tree}
    (ha : a < σ.length) (h : Abs (σ ++ l) a t) : Abs σ a t := by
  obtain ⟨t0, ht0⟩ := hwf a ha
  have := Abs.det _ _ _ (ht0.mono l) h
  subst this; exact ht0

theorem lt_or_eq_of_get_append {σ : Store α} {x r : NodeRec α} {a : Nat} (h : (σ ++ [x])[a]? = some r) :
    (a < σ.length ∧ σ[a]? = some r) ∨ (a = σ.length ∧ r = x) := by
  have hlt := lt_of_get_some h
  simp only [List.length_append, List.length_singleton] at hlt
  by_cases ha : a < σ.length
  · left; exact ⟨ha, by rw [get_append_old _ ha] at h; exact h⟩
  · right
    have : a = σ.length := by omega
    subst this
    rw [get_append_new] at h; cases h; exact ⟨rfl, rfl⟩

/-- a freshly allocated leaf record: nothing reaches it, so only its own cached fields are stale -/
theorem alloc_pre {σ : Store α} (hI : Inv Hc σ) (x : NodeRec α) (hk : x.kids = [])
    (hpx : ∀ p, x.parent = some p → p < σ.length) : Pre Hc (σ ++ [x]) σ.length := by
  refine ⟨?_, ?_, ?_, ?_, ?_⟩
  · intro a ha
    simp only [List.length_append, List.length_singleton] at ha
    by_cases h : a < σ.length
    · obtain ⟨t, ht⟩ := hI.wf a h; exact ⟨t, ht.mono _⟩
    · have : a = σ.length := by omega
      subst this
      exact abs_of_kids (get_append_new σ x) (by rw [hk]; intro k hk'; simp at hk')
  · intro a r p hr hp
    simp only [List.length_append, List.length_singleton]
    rcases lt_or_eq_of_get_append hr with ⟨_, h⟩ | ⟨_, h⟩
    · have := hI.parIn a r p h hp; omega
    · subst h; have := hpx p hp; omega
  · intro a r t hr hv ha hn
    rcases lt_or_eq_of_get_append hr with ⟨hlt, h⟩ | ⟨h, _⟩
    · exact hI.size a r t h hv (Abs.old hI.wf _ hlt ha)
    · exact absurd (h ▸ Reach.refl _) hn
  · intro a r t x' hr hv ha hn hh
    rcases lt_or_eq_of_get_append hr with ⟨hlt, h⟩ | ⟨h, _⟩
    · exact hI.hash a r t x' h hv (Abs.old hI.wf _ hlt ha) hh
    · exact absurd (h ▸ Reach.refl _) hn
  · intro a r c hr hv hc
    rcases lt_or_eq_of_get_append hr with ⟨_, h⟩ | ⟨_, h⟩
    · obtain ⟨rc, hrc, hpc, hvc⟩ := hI.par a r c h hv hc
      exact ⟨rc, by rw [get_append_old _ (lt_of_get_some hrc)]; exact hrc, hpc, hvc⟩
    · subst h; rw [hk] at hc; simp at hc

/-- a node without parent that is not a view -/
def DetachedRoot (σ : Store α) (c : Nat) : Prop :=
  ∃ rc, σ[c]? = some rc ∧ rc.parent = none ∧ rc.view = false

/-- **constructor**: `DerivationTree(sym, kids, …)` over detached roots -/
theorem mkNode_inv {σ σ' : Store α} {sym : Sym} {a r : Option String} {kids : List Nat} {ro : Bool}
    {i : Nat} (fuel : Nat) (hI : Inv Hc σ) (hk : ∀ c ∈ kids, DetachedRoot σ c)
    (h : mkNode fuel σ sym a r kids none ro = .ok (σ', i)) : Inv Hc σ' ∧ i = σ.length := by
  simp only [mkNode] at h
  split at h
  · cases h
  · rename_i σ'' hs
    cases h
    refine ⟨?_, rfl⟩
    have hp : Pre Hc (σ ++ [freshRec sym a r none ro false]) σ.length :=
      alloc_pre hI _ rfl (fun p hp => by simp [freshRec] at hp)
    refine setChildren_pre fuel hp ⟨_, get_append_new σ _, rfl, fun c hc => .inr ?_⟩ hs
    obtain ⟨rc, hrc, hpc, hvc⟩ := hk c hc
    have hlt := lt_of_get_some hrc
    refine ⟨rc, by rw [get_append_old _ hlt]; exact hrc, hpc, hvc, fun hup => ?_⟩
    cases hup with
    | refl => omega
    | step hr hp' _ =>
      rw [get_append_new] at hr; cases hr
      simp [freshRec] at hp'

/-! ### views -/

theorem inv_append_view {σ : Store α} (hI : Inv Hc σ) (x : NodeRec α) (hv : x.view = true)
    (hk : ∀ k ∈ x.kids, k < σ.length) (hp : x.parent = none) : Inv Hc (σ ++ [x]) := by
  refine ⟨?_, ?_, ?_, ?_, ?_⟩
  · intro a ha
    simp only [List.length_append, List.length_singleton] at ha
    by_cases h : a < σ.length
    · obtain ⟨t, ht⟩ := hI.wf a h; exact ⟨t, ht.mono _⟩
    · have : a = σ.length := by omega
      subst this
      refine abs_of_kids (get_append_new σ x) (fun k hk' => ?_)
      obtain ⟨t, ht⟩ := hI.wf k (hk k hk'); exact ⟨t, ht.mono _⟩
  · intro a r p hr hpp
    simp only [List.length_append, List.length_singleton]
    rcases lt_or_eq_of_get_append hr with ⟨_, h⟩ | ⟨_, h⟩
    · have := hI.parIn a r p h hpp; omega
    · subst h; rw [hp] at hpp; cases hpp
  · intro a r t hr hv' ha
    rcases lt_or_eq_of_get_append hr with ⟨hlt, h⟩ | ⟨_, h⟩
    · exact hI.size a r t h hv' (Abs.old hI.wf _ hlt ha)
    · subst h; rw [hv] at hv'; cases hv'
  · intro a r t x' hr hv' ha hh
    rcases lt_or_eq_of_get_append hr with ⟨hlt, h⟩ | ⟨_, h⟩
    · exact hI.hash a r t x' h hv' (Abs.old hI.wf _ hlt ha) hh
    · subst h; rw [hv] at hv'; cases hv'
  · intro a r c hr hv' hc
    rcases lt_or_eq_of_get_append hr with ⟨_, h⟩ | ⟨_, h⟩
    · obtain ⟨rc, hrc, hpc, hvc⟩ := hI.par a r c h hv' hc
      exact ⟨rc, by rw [get_append_old _ (lt_of_get_some hrc)]; exact hrc, hpc, hvc⟩
    · subst h; rw [hv] at hv'; cases hv'

theorem upd_append_last (σ : Store α) (x : NodeRec α) (f : NodeRec α → NodeRec α) :
    upd (σ ++ [x]) σ.length f = σ ++ [f x] := by
  unfold upd
  rw [get_append_new]
  simp

theorem invalidate_root {σ : Store α} {i : Nat} {r : NodeRec α} (hr : σ[i]? = some r)
    (hp : r.parent = none) (n : Nat) :
    invalidate (n + 1) σ i = .ok (σ.set i { r with hashC := none, sizeC := 1 + sumSizes σ r.kids }) := by
  simp [invalidate, hr, hp]

theorem set_append_last (σ : Store α) (x y : NodeRec α) : (σ ++ [x]).set σ.length y = σ ++ [y] := by
  simp

/-- the record of a new `SliceTree` over `ks` -/
def sliceRec (σ : Store α) (ks : List Nat) : NodeRec α :=
  { sym := .slice, sender := none, recipient := none, kids := ks, parent := none,
    sizeC := 1 + sumSizes (σ ++ [{ (freshRec .slice none none none false true : NodeRec α) with sizeC := 1, kids := ks }]) ks,
    hashC := none, readOnly := false, view := true }

/-- `SliceTree(children)` allocates exactly one record and touches nothing else -/
theorem mkSlice_eq (σ : Store α) (ks : List Nat) (n : Nat) :
    mkSlice (n + 1) σ ks = .ok (σ ++ [sliceRec σ ks], σ.length) := by
  unfold mkSlice setChildren
  simp only [reparent]
  rw [upd_append_last]
  rw [invalidate_root (get_append_new σ _) rfl, set_append_last]
  simp only []
  rw [upd_append_last]
  rw [invalidate_root (get_append_new σ _) rfl, set_append_last]
  simp [sliceRec, freshRec, sumSizes]

end FV
