/-
`append(hookin_path, tree)`: a composition of constructor calls and `add_child` down the chain of last
children; keeps `Inv` when `tree` is a detached root that is not the root of the receiving tree.
-/
import Proofs.ArenaCheck
namespace FV
open Store
variable {α : Type} {Hc : Sym → Option String → Option String → List α → α}

/-- closed form of the constructor without children and without parent -/
theorem mkNode_leaf_eq (σ : Store α) (sym : Sym) (a r : Option String) (ro : Bool) (m : Nat) :
    mkNode (m + 1) σ sym a r [] none ro =
      .ok (σ ++ [{ (freshRec sym a r none ro false : NodeRec α) with sizeC := 1 }], σ.length) := by
  simp only [mkNode, setChildren, reparent]
  rw [upd_append_last, invalidate_root (get_append_new σ _) rfl, set_append_last]
  simp [freshRec, sumSizes]

theorem mkNode_zero (σ : Store α) (sym : Sym) (a r : Option String) (ks : List Nat) (p : Option Nat) (ro : Bool) :
    mkNode 0 σ sym a r ks p ro = .error .recursion := by
  simp [mkNode, setChildren, invalidate]

theorem upd_get_some {σ : Store α} {i a : Nat} {r : NodeRec α} (f : NodeRec α → NodeRec α)
    (hr : σ[a]? = some r) : (upd σ i f)[a]? = some (if a = i then f r else r) := by
  rw [upd_get, hr]; by_cases h : a = i <;> simp [h]

/-- what `add_child` does to the flags and parent links -/
theorem addChild_frame {σ σ' : Store α} {p c : Nat} (fuel : Nat) (h : addChild fuel σ p c = .ok σ') :
    σ'.length = σ.length ∧ ∀ (a : Nat) (r : NodeRec α), σ[a]? = some r → ∃ r', σ'[a]? = some r' ∧ r'.view = r.view ∧
      r'.parent = if a = c then some p else r.parent := by
  unfold addChild at h
  have s := invalidate_sho fuel _ p σ' h
  refine ⟨by rw [s.1, upd_length, upd_length], fun a r hr => ?_⟩
  have h1 := upd_get_some (i := c) (fun r => { r with parent := some p })
    (upd_get_some (i := p) (fun r => { r with kids := r.kids ++ [c] }) hr)
  obtain ⟨r', hr', _, hp', hv', _⟩ := s.2 a _ h1
  refine ⟨r', hr', ?_, ?_⟩
  · rw [hv']
    by_cases hac : a = c
    · subst hac
      by_cases hap : a = p
      · subst hap; simp
      · simp [hap]
    · by_cases hap : a = p
      · subst hap; simp [hac]
      · simp [hac, hap]
  · rw [hp']
    by_cases hac : a = c
    · subst hac
      by_cases hap : a = p
      · subst hap; simp
      · simp [hap]
    · by_cases hap : a = p
      · subst hap; simp [hac]
      · simp [hac, hap]

/-- the preconditions of `node.append(path, t)` -/
def AppendOk (σ : Store α) (i t : Nat) : Prop :=
  (∃ ri, σ[i]? = some ri ∧ ri.view = false) ∧
  ∃ rt, σ[t]? = some rt ∧ rt.parent = none ∧ rt.view = false ∧ ¬ Up σ i t

/-- going down to a listed child keeps the precondition -/
theorem appendOk_down {σ : Store α} (hI : Inv Hc σ) {i l t : Nat} {ri : NodeRec α} (hri : σ[i]? = some ri)
    (hl : l ∈ ri.kids) (hok : AppendOk σ i t) : AppendOk σ l t := by
  obtain ⟨⟨ri', hri', hvi⟩, rt, hrt, hpt, hvt, hup⟩ := hok
  rw [hri] at hri'; cases hri'
  obtain ⟨rl, hrl, hpl, hvl⟩ := hI.par i ri l hri hvi hl
  refine ⟨⟨rl, hrl, hvl⟩, rt, hrt, hpt, hvt, fun h => ?_⟩
  cases h with
  | refl => rw [hrl] at hrt; cases hrt; rw [hpl] at hpt; cases hpt
  | step hr hp hrest =>
    rw [hrl] at hr; cases hr
    rw [hpl] at hp; cases hp
    exact hup hrest

/-- parent chains agree when parent links agree along them -/
theorem Up.transfer {σ σ' : Store α} {n : Nat}
    (hpar : ∀ (a : Nat) (r' : NodeRec α), a < n → σ'[a]? = some r' → ∃ r, σ[a]? = some r ∧ r.parent = r'.parent)
    (hin : ∀ (a : Nat) (r : NodeRec α) (p : Nat), σ[a]? = some r → r.parent = some p → p < n)
    {i x : Nat} (h : Up σ' i x) (hi : i < n) : Up σ i x := by
  induction h with
  | refl => exact .refl _
  | @step i p x r' hr' hp' _ ih =>
    obtain ⟨r, hr, hpr⟩ := hpar i r' hi hr'
    have hp : r.parent = some p := hpr.trans hp'
    exact .step hr hp (ih (hin i r p hr hp))

theorem getLast?_mem {β : Type} {l : List β} {x : β} (h : l.getLast? = some x) : x ∈ l :=
  List.mem_of_getLast? h

theorem Up.lt {σ : Store α} (hI : Inv Hc σ) {i x : Nat} (h : Up σ i x) : i < σ.length → x < σ.length := by
  induction h with
  | refl => exact id
  | step hr hp _ ih => exact fun _ => ih (hI.parIn _ _ _ hr hp)

theorem appendStep1_spec {σ σ1 : Store α} {i t : Nat} {nt : String} {addNew : Bool} {oe : Option AErr} (fuel : Nat)
    (hI : Inv Hc σ) (hok : AppendOk σ i t) (h : appendStep1 fuel σ i nt addNew = (σ1, oe)) :
    Inv Hc σ1 ∧ (oe = none → AppendOk σ1 i t) := by
  obtain ⟨⟨ri, hri, hvi⟩, rt, hrt, hpt, hvt, hup⟩ := hok
  have hok' : AppendOk σ i t := ⟨⟨ri, hri, hvi⟩, rt, hrt, hpt, hvt, hup⟩
  unfold appendStep1 at h
  by_cases hnew : addNew = true
  · rw [if_pos hnew] at h
    cases fuel with
    | zero =>
      rw [mkNode_zero] at h
      cases h
      exact ⟨hI, fun hh => by cases hh⟩
    | succ m =>
      rw [mkNode_leaf_eq] at h
      simp only [] at h
      have hI1 : Inv Hc (σ ++ [{ (freshRec (.nt nt) none none none false false : NodeRec α) with sizeC := 1 }]) :=
        (mkNode_inv (Hc := Hc) (m + 1) hI (kids := []) (fun c hc => by simp at hc)
          (mkNode_leaf_eq σ (.nt nt) none none false m)).1
      have hilt := lt_of_get_some hri
      have hri1 : (σ ++ [{ (freshRec (.nt nt) none none none false false : NodeRec α) with sizeC := 1 }])[i]? = some ri := by
        rw [get_append_old _ hilt]; exact hri
      have hupold : ∀ x, Up (σ ++ [{ (freshRec (.nt nt) none none none false false : NodeRec α) with sizeC := 1 }]) i x →
          Up σ i x := fun x hx =>
        Up.transfer (n := σ.length)
          (fun a r' ha hr' => ⟨r', by rw [get_append_old _ ha] at hr'; exact hr', rfl⟩)
          (fun a r p hr hp => hI.parIn a r p hr hp) hx hilt
      have hupc : ¬ Up (σ ++ [{ (freshRec (.nt nt) none none none false false : NodeRec α) with sizeC := 1 }]) i σ.length :=
        fun h => absurd ((hupold _ h).lt hI hilt) (Nat.lt_irrefl _)
      split at h
      · cases h
        exact ⟨hI, fun hh => by cases hh⟩
      · rename_i σ2 e2
        cases h
        have hI2 : Inv Hc σ1 := addChild_inv (m + 1) hI1 hri1 hvi
          ⟨_, get_append_new σ _, rfl, rfl, hupc⟩ e2
        obtain ⟨hlen2, hfr⟩ := addChild_frame (m + 1) e2
        refine ⟨hI2, fun _ => ?_⟩
        obtain ⟨ri2, hri2, hvi2, _⟩ := hfr i ri hri1
        have htlt := lt_of_get_some hrt
        obtain ⟨rt2, hrt2, hvt2, hpt2⟩ := hfr t rt (by rw [get_append_old _ htlt]; exact hrt)
        have htc : t ≠ σ.length := by omega
        rw [if_neg htc] at hpt2
        refine ⟨⟨ri2, hri2, hvi2 ▸ hvi⟩, rt2, hrt2, hpt2.trans hpt, hvt2.trans hvt, fun h => ?_⟩
        refine hup (Up.transfer (n := σ.length) ?_ (fun a r p hr hp => hI.parIn a r p hr hp) h hilt)
        intro a r' ha hr'
        obtain ⟨r0, hr0⟩ := get_some_of_lt (σ := σ) ha
        obtain ⟨r2, hr2, _, hp2⟩ := hfr a r0 (by rw [get_append_old _ ha]; exact hr0)
        rw [hr'] at hr2; cases hr2
        have hac : a ≠ σ.length := by omega
        rw [if_neg hac] at hp2
        exact ⟨r0, hr0, hp2.symm⟩
  · rw [if_neg hnew] at h
    have : σ1 = σ := by
      repeat' split at h
      all_goals (cases h; rfl)
    subst this
    exact ⟨hI, fun _ => hok'⟩

theorem appendOp_inv : ∀ (path : List (String × Bool)) (fuel : Nat) (σ : Store α) (i t : Nat), Inv Hc σ →
    AppendOk σ i t → Inv Hc (appendOp fuel σ i path t).1
  | [], fuel, σ, i, t, hI, hok => by
    simp only [appendOp]
    split
    · exact hI
    · rename_i σ1 e
      obtain ⟨⟨ri, hri, hvi⟩, rt, hrt, hpt, hvt, hup⟩ := hok
      exact addChild_inv fuel hI hri hvi ⟨rt, hrt, hpt, hvt, hup⟩ e
  | (nt, addNew) :: rest, fuel, σ, i, t, hI, hok => by
    simp only [appendOp]
    split
    · rename_i σ1 e hs
      exact (appendStep1_spec fuel hI hok hs).1
    · rename_i σ1 hs
      obtain ⟨hI1, hok1⟩ := appendStep1_spec fuel hI hok hs
      have hok1 := hok1 rfl
      split
      · exact hI1
      · rename_i r1 hr1
        split
        · exact hI1
        · rename_i l hl
          exact appendOp_inv rest fuel σ1 l t hI1 (appendOk_down hI1 hr1 (getLast?_mem hl) hok1)

end FV
