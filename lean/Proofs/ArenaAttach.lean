/-
`add_child` / `set_children` / the constructor: attaching detached roots (or re-listing own children)
below a node keeps the loop invariant; with `invalidate_inv` this gives `Inv` preservation.
-/
import Proofs.ArenaMut
namespace FV
open Store
variable {α : Type} {Hc : Sym → Option String → Option String → List α → α}

/-- `a` lies on the parent chain of `i` (`i` included): `a in i.get_path()` -/
inductive Up (σ : Store α) : Nat → Nat → Prop
  | refl (i : Nat) : Up σ i i
  | step {i p a : Nat} {r : NodeRec α} : σ[i]? = some r → r.parent = some p → Up σ p a → Up σ i a

theorem Up.snoc {σ : Store α} {i k c : Nat} {rk : NodeRec α} (h : Up σ i k) (hk : σ[k]? = some rk)
    (hp : rk.parent = some c) : Up σ i c := by
  induction h with
  | refl => exact .step hk hp (.refl _)
  | step hr hpp _ ih => exact .step hr hpp (ih hk)

/-- below a non-view node, "descendant" implies "on my parent chain" (single ownership) -/
theorem Reach.up {σ : Store α}
    (hpar : ∀ (i : Nat) (r : NodeRec α) (c : Nat), σ[i]? = some r → r.view = false → c ∈ r.kids →
      ∃ rc, σ[c]? = some rc ∧ rc.parent = some i ∧ rc.view = false)
    {c i : Nat} (h : Reach σ c i) : ∀ rc, σ[c]? = some rc → rc.view = false → Up σ i c := by
  induction h with
  | refl => intro _ _ _; exact .refl _
  | @step c k i r hr hk _ ih =>
    intro rc hrc hv
    rw [hr] at hrc; cases hrc
    obtain ⟨rk, hrk, hpk, hvk⟩ := hpar c r k hr hv hk
    exact (ih rk hrk hvk).snoc hrk hpk

theorem reparent_length (σ : Store α) (p : Nat) : ∀ cs, (reparent σ p cs).length = σ.length
  | [] => rfl
  | c :: cs => by simp only [reparent]; rw [reparent_length _ p cs, upd_length]

theorem reparent_get (p : Nat) : ∀ (cs : List Nat) (σ : Store α) (a : Nat),
    (reparent σ p cs)[a]? = (σ[a]?).map (fun r => if a ∈ cs then { r with parent := some p } else r)
  | [], σ, a => by simp [reparent]
  | c :: cs, σ, a => by
    simp only [reparent]
    rw [reparent_get p cs, upd_get]
    by_cases hac : a = c
    · subst hac
      cases h : σ[a]? with
      | none => simp
      | some r => by_cases hm : a ∈ cs <;> simp [hm]
    · cases h : σ[a]? with
      | none => simp [hac]
      | some r => by_cases hm : a ∈ cs <;> simp [hac, hm]

/-- `c` is a detached root that may be attached below `p`: no parent, not a view, not the top of `p`'s chain -/
def Detached (σ : Store α) (p c : Nat) : Prop :=
  ∃ rc, σ[c]? = some rc ∧ rc.parent = none ∧ rc.view = false ∧ ¬ Up σ p c

/-- `c` may be attached below `p`: not a view, listed by no (non-view) node other than `p`, not on `p`'s
parent chain.  (Weaker than `Detached`: the parent field may hold anything.) -/
def Loose (σ : Store α) (p c : Nat) : Prop :=
  ∃ rc, σ[c]? = some rc ∧ rc.view = false ∧
    (∀ (a : Nat) (ra : NodeRec α), σ[a]? = some ra → ra.view = false → c ∈ ra.kids → a = p) ∧ ¬ Up σ p c

theorem Detached.loose {σ : Store α} {p c : Nat}
    (hpar : ∀ (i : Nat) (r : NodeRec α) (c : Nat), σ[i]? = some r → r.view = false → c ∈ r.kids →
      ∃ rc, σ[c]? = some rc ∧ rc.parent = some i ∧ rc.view = false)
    (h : Detached σ p c) : Loose σ p c := by
  obtain ⟨rc, hrc, hpn, hvc, hup⟩ := h
  refine ⟨rc, hrc, hvc, fun a ra hra hva hc => ?_, hup⟩
  obtain ⟨rc', hrc', hpc, _⟩ := hpar a ra c hra hva hc
  rw [hrc] at hrc'; cases hrc'
  rw [hpn] at hpc; cases hpc

/-- the store after `self._children = ks; for c in cs: c._parent = self` -/
def attachRaw (σ : Store α) (p : Nat) (ks cs : List Nat) : Store α :=
  reparent (upd σ p (fun r => { r with kids := ks })) p cs

/-- what `attachRaw` does to the record of node `a` -/
def attachRec (p : Nat) (ks cs : List Nat) (a : Nat) (r : NodeRec α) : NodeRec α :=
  { r with kids := if a = p then ks else r.kids, parent := if a ∈ cs then some p else r.parent }

theorem attachRaw_get (σ : Store α) (p : Nat) (ks cs : List Nat) (a : Nat) :
    (attachRaw σ p ks cs)[a]? = (σ[a]?).map (attachRec p ks cs a) := by
  unfold attachRaw
  rw [reparent_get, upd_get]
  by_cases hap : a = p
  · subst hap; cases σ[a]? with
    | none => simp
    | some r => by_cases hm : a ∈ cs <;> simp [attachRec, hm]
  · cases σ[a]? with
    | none => simp [hap]
    | some r => by_cases hm : a ∈ cs <;> simp [attachRec, hap, hm]

theorem pre_attach {σ : Store α} {p : Nat} {rp : NodeRec α} {ks cs : List Nat}
    (hp : Pre Hc σ p) (hrp : σ[p]? = some rp) (hvp : rp.view = false)
    (hsub : ∀ c ∈ cs, c ∈ ks)
    (hks : ∀ k ∈ ks, k ∈ rp.kids ∨ (k ∈ cs ∧ Loose σ p k)) :
    Pre Hc (attachRaw σ p ks cs) p := by
  obtain ⟨tp, htp⟩ := hp.wf p (lt_of_get_some hrp)
  have hlen : (attachRaw σ p ks cs).length = σ.length := by
    unfold attachRaw; rw [reparent_length, upd_length]
  -- facts about the new children
  have hkfacts : ∀ k ∈ ks, ∃ rk, σ[k]? = some rk ∧ rk.view = false ∧ ¬ Reach σ k p ∧
      (k ∈ rp.kids → rk.parent = some p) := by
    intro k hk
    rcases hks k hk with hown | ⟨_, rk, hrk, hvk, _, hup⟩
    · obtain ⟨rk, hrk, hpk, hvk⟩ := hp.par p rp k hrp hvp hown
      exact ⟨rk, hrk, hvk, not_reach_of_kid hrp hown htp, fun _ => hpk⟩
    · refine ⟨rk, hrk, hvk, fun hr => hup (hr.up hp.par rk hrk hvk), fun hown => ?_⟩
      obtain ⟨rk', hrk', hpk, _⟩ := hp.par p rp k hrp hvp hown
      rw [hrk] at hrk'; cases hrk'
      exact hpk
  have hpne : ∀ k ∈ ks, k ≠ p := by
    intro k hk hkp
    obtain ⟨_, _, _, hn, _⟩ := hkfacts k hk
    exact hn (hkp ▸ .refl _)
  have hip : (attachRaw σ p ks cs)[p]? = some (attachRec p ks cs p rp) := by
    rw [attachRaw_get, hrp]; rfl
  have hipk : (attachRec p ks cs p rp).kids = ks := by simp [attachRec]
  refine pre_of_mut hp hlen ?_ hip ?_ ?_ ?_
  · intro a r hap hr
    refine ⟨attachRec p ks cs a r, by rw [attachRaw_get, hr]; rfl, ⟨rfl, rfl, rfl, ?_⟩, rfl, rfl, rfl⟩
    simp [attachRec, hap]
  · intro k hk
    rw [hipk] at hk
    obtain ⟨rk, hrk, _, hn, _⟩ := hkfacts k hk
    exact ⟨lt_of_get_some hrk, hn⟩
  · intro a r q hr hq
    rw [hlen]
    rw [attachRaw_get] at hr
    cases hra : σ[a]? with
    | none => rw [hra] at hr; simp at hr
    | some ra =>
      rw [hra] at hr
      simp only [Option.map_some, Option.some.injEq] at hr
      subst hr
      by_cases hm : a ∈ cs
      · simp [attachRec, hm] at hq; subst hq
        exact lt_of_get_some hrp
      · simp [attachRec, hm] at hq
        exact hp.parIn a ra q hra hq
  · intro a r c hr hv hc
    rw [attachRaw_get] at hr
    cases hra : σ[a]? with
    | none => rw [hra] at hr; simp at hr
    | some ra =>
      rw [hra] at hr
      simp only [Option.map_some, Option.some.injEq] at hr
      subst hr
      have hv' : ra.view = false := hv
      by_cases hap : a = p
      · -- the edited node: its children are `ks`
        subst hap
        rw [hra] at hrp; cases hrp
        have hc' : c ∈ ks := by simpa [attachRec] using hc
        obtain ⟨rc, hrc, hvc, _, hown⟩ := hkfacts c hc'
        refine ⟨attachRec a ks cs c rc, by rw [attachRaw_get, hrc]; rfl, ?_, hvc⟩
        by_cases hm : c ∈ cs
        · simp [attachRec, hm]
        · have hcown : c ∈ rp.kids := by
            rcases hks c hc' with h | ⟨h, _⟩
            · exact h
            · exact absurd h hm
          simp [attachRec, hm]; exact hown hcown
      · have hc' : c ∈ ra.kids := by simpa [attachRec, hap] using hc
        obtain ⟨rc, hrc, hpc, hvc⟩ := hp.par a ra c hra hv' hc'
        have hm : c ∉ cs := by
          intro hm
          rcases hks c (hsub c hm) with hown | ⟨_, rk, _, _, hun, _⟩
          · obtain ⟨rc', hrc', hpc', _⟩ := hp.par p rp c hrp hvp hown
            rw [hrc] at hrc'; cases hrc'
            rw [hpc] at hpc'; cases hpc'
            exact hap rfl
          · exact hap (hun a ra hra hv' hc')
        refine ⟨attachRec p ks cs c rc, by rw [attachRaw_get, hrc]; rfl, ?_, hvc⟩
        simp [attachRec, hm]; exact hpc

end FV
