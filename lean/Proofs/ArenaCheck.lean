/- soundness of the executable invariant checker -/
import Proofs.ArenaReplace
import Model.ArenaCheck
namespace FV
open Store
variable {α : Type} [DecidableEq α] {Hc : Sym → Option String → Option String → List α → α}

mutual
theorem hashTree_eq : ∀ t : Tree, hashTree Hc t = hashT Hc t
  | .mk s a r ks => by simp only [hashTree, hashT]; rw [hashTrees_eq ks]
theorem hashTrees_eq : ∀ ts : List Tree, hashTree.hashTrees Hc ts = hashTL Hc ts
  | [] => by simp [hashTree.hashTrees, hashTL]
  | t :: ts => by simp only [hashTree.hashTrees, hashTL]; rw [hashTree_eq t, hashTrees_eq ts]
end

theorem invB_sound {fuel : Nat} {σ : Store α} (h : invB Hc fuel σ = true) : Inv Hc σ := by
  have hall : ∀ i r, σ[i]? = some r → nodeOk Hc fuel σ i r = true := by
    intro i r hr
    have := (List.all_eq_true.mp h) i (List.mem_range.mpr (lt_of_get_some hr))
    simpa [hr] using this
  have hnode : ∀ i r, σ[i]? = some r → ∃ t, Abs σ i t ∧
      (∀ p, r.parent = some p → p < σ.length) ∧
      (r.view = false → r.sizeC = t.size ∧ (∀ x, r.hashC = some x → x = hashT Hc t) ∧
        ∀ c ∈ r.kids, kidOk σ i c = true) := by
    intro i r hr
    have hn := hall i r hr
    unfold nodeOk at hn
    split at hn
    · cases hn
    · rename_i t ht
      refine ⟨t, absF_sound fuel σ i t ht, ?_, ?_⟩
      · intro p hp
        simp only [hp, Bool.and_eq_true, decide_eq_true_eq] at hn
        exact hn.1
      · intro hv
        simp only [hv, Bool.false_or, Bool.and_eq_true, decide_eq_true_eq] at hn
        obtain ⟨_, ⟨h1, h2⟩, h3⟩ := hn
        refine ⟨h1, ?_, fun c hc => (List.all_eq_true.mp h3) c hc⟩
        intro x hx
        rw [hx] at h2
        simp only [decide_eq_true_eq] at h2
        rw [h2, hashTree_eq]
  refine ⟨?_, ?_, ?_, ?_, ?_⟩
  · intro i hi
    obtain ⟨r, hr⟩ := get_some_of_lt hi
    obtain ⟨t, ht, _⟩ := hnode i r hr
    exact ⟨t, ht⟩
  · intro i r p hr hp
    obtain ⟨_, _, h2, _⟩ := hnode i r hr
    exact h2 p hp
  · intro i r t hr hv ha
    obtain ⟨t0, ht0, _, h3⟩ := hnode i r hr
    rw [Abs.det _ _ _ ha ht0]
    exact (h3 hv).1
  · intro i r t x hr hv ha hx
    obtain ⟨t0, ht0, _, h3⟩ := hnode i r hr
    rw [Abs.det _ _ _ ha ht0]
    exact (h3 hv).2.1 x hx
  · intro i r c hr hv hc
    obtain ⟨_, _, _, h3⟩ := hnode i r hr
    have hk := (h3 hv).2.2 c hc
    unfold kidOk at hk
    split at hk
    · rename_i rc hrc
      simp only [Bool.and_eq_true, decide_eq_true_eq, Bool.not_eq_true'] at hk
      exact ⟨rc, hrc, hk.1, hk.2⟩
    · cases hk

end FV
