/-
`__deepcopy__` never writes to a pre-existing node: every record that existed before the call is
*identical* afterwards (all flags, any memo contents pointing to fresh nodes), and the copy is fresh.
No invariant is needed for this.
-/
import Proofs.ArenaStep
namespace FV
open Store
variable {α : Type}

/-- `σ'` agrees exactly with `σ` on all indices below `n` -/
def AgreeBelow (n : Nat) (σ σ' : Store α) : Prop :=
  σ.length ≤ σ'.length ∧ ∀ a, a < n → σ'[a]? = σ[a]?

theorem AgreeBelow.refl (n : Nat) (σ : Store α) : AgreeBelow n σ σ := ⟨Nat.le_refl _, fun _ _ => rfl⟩

theorem AgreeBelow.trans {n : Nat} {σ σ' σ'' : Store α} (h1 : AgreeBelow n σ σ') (h2 : AgreeBelow n σ' σ'') :
    AgreeBelow n σ σ'' :=
  ⟨Nat.le_trans h1.1 h2.1, fun a ha => (h2.2 a ha).trans (h1.2 a ha)⟩

/-- fresh nodes (index ≥ n) have fresh parents and fresh children -/
def FreshClosed (n : Nat) (σ : Store α) : Prop :=
  ∀ (a : Nat) (r : NodeRec α), n ≤ a → σ[a]? = some r →
    (∀ p, r.parent = some p → n ≤ p) ∧ (∀ k ∈ r.kids, n ≤ k)

theorem invalidate_fresh {n : Nat} : ∀ (fuel : Nat) (σ : Store α) (j : Nat) (σ' : Store α), FreshClosed n σ → n ≤ j →
    invalidate fuel σ j = .ok σ' → AgreeBelow n σ σ' ∧ FreshClosed n σ' ∧ σ'.length = σ.length
  | 0, _, _, _, _, _, h => by simp [invalidate] at h
  | fuel + 1, σ, j, σ', hf, hj, h => by
    simp only [invalidate] at h
    split at h
    · cases h
    · rename_i r hr
      have hlen : (σ.set j { r with hashC := none, sizeC := 1 + sumSizes σ r.kids }).length = σ.length :=
        List.length_set
      have hag : AgreeBelow n σ (σ.set j { r with hashC := none, sizeC := 1 + sumSizes σ r.kids }) :=
        ⟨by rw [hlen]; exact Nat.le_refl _, fun a ha => by rw [List.getElem?_set_ne (by omega)]⟩
      have hfc : FreshClosed n (σ.set j { r with hashC := none, sizeC := 1 + sumSizes σ r.kids }) := by
        intro a ra ha hra
        by_cases haj : j = a
        · subst haj
          rw [List.getElem?_set_self (lt_of_get_some hr)] at hra
          cases hra
          exact hf j r hj hr
        · rw [List.getElem?_set_ne haj] at hra
          exact hf a ra ha hra
      split at h
      · cases h; exact ⟨hag, hfc, hlen⟩
      · rename_i p hp
        have hpn : n ≤ p := (hf j r hj hr).1 p hp
        obtain ⟨h1, h2, h3⟩ := invalidate_fresh fuel _ p σ' hfc hpn h
        exact ⟨hag.trans h1, h2, h3.trans hlen⟩

theorem upd_fresh {n : Nat} {σ : Store α} {c : Nat} (f : NodeRec α → NodeRec α) (hc : n ≤ c) :
    AgreeBelow n σ (upd σ c f) :=
  ⟨by rw [upd_length]; exact Nat.le_refl _, fun a ha => upd_get_ne _ _ (by omega)⟩

theorem reparent_fresh {n : Nat} (p : Nat) : ∀ (cs : List Nat) (σ : Store α), (∀ c ∈ cs, n ≤ c) →
    AgreeBelow n σ (reparent σ p cs)
  | [], σ, _ => AgreeBelow.refl n σ
  | c :: cs, σ, h => by
    simp only [reparent]
    exact (upd_fresh _ (h c List.mem_cons_self)).trans
      (reparent_fresh p cs _ (fun c' hc' => h c' (List.mem_cons_of_mem _ hc')))

/-- `set_children` of a fresh node over fresh children touches fresh nodes only -/
theorem setChildren_fresh {n : Nat} {σ σ' : Store α} {c : Nat} {ks : List Nat} (fuel : Nat)
    (hf : FreshClosed n σ) (hc : n ≤ c) (hks : ∀ k ∈ ks, n ≤ k)
    (h : setChildren fuel σ c ks = .ok σ') : AgreeBelow n σ σ' ∧ FreshClosed n σ' ∧ σ'.length = σ.length := by
  unfold setChildren at h
  have hag : AgreeBelow n σ (attachRaw σ c ks ks) :=
    (upd_fresh _ hc).trans (reparent_fresh c ks _ hks)
  have hlen : (attachRaw σ c ks ks).length = σ.length := by
    unfold attachRaw; rw [reparent_length, upd_length]
  have hfc : FreshClosed n (attachRaw σ c ks ks) := by
    intro a ra ha hra
    rw [attachRaw_get] at hra
    cases hsa : σ[a]? with
    | none => rw [hsa] at hra; simp at hra
    | some r0 =>
      rw [hsa] at hra
      simp only [Option.map_some, Option.some.injEq] at hra
      subst hra
      obtain ⟨h1, h2⟩ := hf a r0 ha hsa
      constructor
      · intro p hp
        by_cases hm : a ∈ ks
        · simp [attachRec, hm] at hp; omega
        · simp [attachRec, hm] at hp; exact h1 p hp
      · intro k hk
        by_cases hac : a = c
        · simp [attachRec, hac] at hk; exact hks k hk
        · simp [attachRec, hac] at hk; exact h2 k hk
  obtain ⟨h1, h2, h3⟩ := invalidate_fresh fuel _ c σ' hfc hc h
  exact ⟨hag.trans h1, h2, h3.trans hlen⟩

theorem append_agree (n : Nat) (σ : Store α) (x : NodeRec α) (hn : n ≤ σ.length) : AgreeBelow n σ (σ ++ [x]) :=
  ⟨by simp, fun a ha => get_append_old _ (by omega)⟩

theorem freshClosed_append {n : Nat} {σ : Store α} {x : NodeRec α} (hf : FreshClosed n σ)
    (hp : ∀ p, x.parent = some p → n ≤ p) (hk : ∀ k ∈ x.kids, n ≤ k) : FreshClosed n (σ ++ [x]) := by
  intro a r ha hr
  rcases lt_or_eq_of_get_append hr with ⟨_, h⟩ | ⟨_, h⟩
  · exact hf a r ha h
  · subst h; exact ⟨hp, hk⟩

/-- a fresh leaf from the constructor -/
theorem mkNode_leaf_fresh {n : Nat} {σ σ' : Store α} {sym : Sym} {a r : Option String} {ro : Bool} {c : Nat}
    (fuel : Nat) (hf : FreshClosed n σ) (hn : n ≤ σ.length)
    (h : mkNode fuel σ sym a r [] none ro = .ok (σ', c)) :
    AgreeBelow n σ σ' ∧ FreshClosed n σ' ∧ c = σ.length ∧ σ'.length = σ.length + 1 := by
  simp only [mkNode] at h
  split at h
  · cases h
  · rename_i σ'' hs
    cases h
    have hfc : FreshClosed n (σ ++ [freshRec sym a r none ro false]) :=
      freshClosed_append hf (fun p hp => by simp [freshRec] at hp) (fun k hk => by simp [freshRec] at hk)
    obtain ⟨h1, h2, h3⟩ := setChildren_fresh fuel hfc hn (fun k hk => by simp at hk) hs
    exact ⟨(append_agree n σ _ hn).trans h1, h2, rfl, by rw [h3]; simp⟩

/-- memo values are fresh -/
def MemoFresh (n : Nat) (memo : List (Nat × Nat)) : Prop := ∀ k v, memoGet memo k = some v → n ≤ v

theorem MemoFresh.cons {n : Nat} {memo : List (Nat × Nat)} (h : MemoFresh n memo) (i c : Nat) (hc : n ≤ c) :
    MemoFresh n ((i, c) :: memo) := by
  intro k v hk
  simp only [memoGet] at hk
  split at hk
  · cases hk; exact hc
  · exact h k v hk

/-- specification of one `__deepcopy__` call, as a frame -/
def CopyFrame (n : Nat) (σ : Store α) (memo : List (Nat × Nat)) (σ' : Store α) (memo' : List (Nat × Nat))
    (c : Nat) : Prop :=
  AgreeBelow n σ σ' ∧ FreshClosed n σ' ∧ MemoFresh n memo' ∧ n ≤ c

theorem listM_copy {n : Nat}
    {f : Store α × List (Nat × Nat) → Nat → Except AErr ((Store α × List (Nat × Nat)) × Nat)}
    (hf : ∀ σ memo k res, FreshClosed n σ → MemoFresh n memo → n ≤ σ.length →
      f (σ, memo) k = .ok res → CopyFrame n σ memo res.1.1 res.1.2 res.2) :
    ∀ (ks : List Nat) (σ : Store α) (memo : List (Nat × Nat)) (res : (Store α × List (Nat × Nat)) × List Nat),
      FreshClosed n σ → MemoFresh n memo → n ≤ σ.length →
      listM f (σ, memo) ks = .ok res →
      AgreeBelow n σ res.1.1 ∧ FreshClosed n res.1.1 ∧ MemoFresh n res.1.2 ∧ ∀ c ∈ res.2, n ≤ c
  | [], σ, memo, res, h1, h2, _, h => by
    simp only [listM] at h
    cases h
    exact ⟨AgreeBelow.refl n σ, h1, h2, fun c hc => by simp at hc⟩
  | k :: ks, σ, memo, res, h1, h2, h3, h => by
    simp only [listM] at h
    split at h
    · cases h
    · rename_i st1 c1 e1
      split at h
      · cases h
      · rename_i st2 cs2 e2
        cases h
        obtain ⟨a1, a2, a3, a4⟩ := hf σ memo k _ h1 h2 h3 e1
        obtain ⟨b1, b2, b3, b4⟩ := listM_copy hf ks st1.1 st1.2 _ a2 a3 (Nat.le_trans h3 a1.1) e2
        refine ⟨a1.trans b1, b2, b3, fun c hc => ?_⟩
        rcases List.mem_cons.mp hc with rfl | hc
        · exact a4
        · exact b4 c hc

theorem freshClosed_upd_parent {n : Nat} {σ : Store α} {c : Nat} {q : Option Nat} (hf : FreshClosed n σ)
    (hq : ∀ p, q = some p → n ≤ p) : FreshClosed n (upd σ c (fun x => { x with parent := q })) := by
  intro a ra ha hra
  rw [upd_get] at hra
  by_cases hac : a = c
  · rw [if_pos hac] at hra
    cases hsa : σ[a]? with
    | none => rw [hsa] at hra; simp at hra
    | some r0 =>
      rw [hsa] at hra
      simp only [Option.map_some, Option.some.injEq] at hra
      subst hra
      exact ⟨hq, (hf a r0 ha hsa).2⟩
  · rw [if_neg hac] at hra
    exact hf a ra ha hra

theorem deepcopyF_frame {n : Nat} : ∀ (fuel : Nat) (σ : Store α) (memo : List (Nat × Nat)) (i : Nat) (cc cp : Bool)
    (res : Store α × List (Nat × Nat) × Nat), FreshClosed n σ → MemoFresh n memo → n ≤ σ.length →
    deepcopyF fuel σ memo i cc cp = .ok res → CopyFrame n σ memo res.1 res.2.1 res.2.2
  | 0, _, _, _, _, _, _, _, _, _, h => by simp [deepcopyF] at h
  | fuel + 1, σ, memo, i, cc, cp, res, hfc, hm, hn, h => by
    simp only [deepcopyF] at h
    split at h
    · rename_i v hv
      cases h
      exact ⟨AgreeBelow.refl n σ, hfc, hm, hm i v hv⟩
    · split at h
      · cases h
      · rename_i r hr
        split at h
        · cases h
        · rename_i σ1 c1 e1
          obtain ⟨a1, a2, a3, a4⟩ := mkNode_leaf_fresh (fuel + 1) hfc hn e1
          have hc1 : n ≤ c1 := a3 ▸ hn
          have hn1 : n ≤ σ1.length := by omega
          have hm1 := hm.cons i c1 hc1
          -- the children
          have kidsStep : ∀ out : Store α × List (Nat × Nat), (if cc = true then
                (match listM (kidStep (deepcopyF fuel)) (σ1, (i, c1) :: memo) r.kids with
                 | .error e => .error e
                 | .ok ((σ2, memo2), ks) =>
                   match setChildren (fuel + 1) σ2 c1 ks with
                   | .error e => .error e
                   | .ok σ3 => .ok (σ3, memo2))
              else (.ok (σ1, (i, c1) :: memo) : Except AErr (Store α × List (Nat × Nat)))) = .ok out →
              AgreeBelow n σ1 out.1 ∧ FreshClosed n out.1 ∧ MemoFresh n out.2 := by
            intro out e
            split at e
            · split at e
              · cases e
              · rename_i σ2 memo2 ks e2
                split at e
                · cases e
                · rename_i σ3' e3
                  cases e
                  obtain ⟨b1, b2, b3, b4⟩ := listM_copy (n := n) (fun σa ma k rr h1 h2 h3 hh => by
                    unfold kidStep at hh
                    split at hh
                    · cases hh
                    · rename_i σx mx kx ex
                      cases hh
                      exact deepcopyF_frame fuel σa ma k true true _ h1 h2 h3 ex) r.kids σ1 _ _ a2 hm1 hn1 e2
                  obtain ⟨d1, d2, _⟩ := setChildren_fresh (fuel + 1) b2 hc1 b4 e3
                  exact ⟨b1.trans d1, d2, b3⟩
            · cases e
              exact ⟨AgreeBelow.refl n σ1, a2, hm1⟩
          split at h
          · cases h
          · rename_i σ3 memo3 e3
            obtain ⟨b1, b2, b3⟩ := kidsStep _ e3
            have hn3 : n ≤ σ3.length := Nat.le_trans hn1 b1.1
            split at h
            · split at h
              · cases h
                exact ⟨a1.trans (b1.trans (upd_fresh _ hc1)),
                  freshClosed_upd_parent b2 (fun p hp => by cases hp), b3, hc1⟩
              · rename_i p hp
                split at h
                · cases h
                · rename_i σ4 memo4 p' e4
                  cases h
                  obtain ⟨d1, d2, d3, d4⟩ := deepcopyF_frame fuel σ3 memo3 p true true _ b2 b3 hn3 e4
                  exact ⟨a1.trans (b1.trans (d1.trans (upd_fresh _ hc1))),
                    freshClosed_upd_parent d2 (fun q hq => by cases hq; exact d4), d3, hc1⟩
            · cases h
              exact ⟨a1.trans b1, b2, b3, hc1⟩

/-- **`deepcopy` / `copy.deepcopy` never touch their input**: every pre-existing record is identical
afterwards, the returned node is new, and everything below / above it is new. -/
theorem deepcopy_frame {σ σ' : Store α} {i c : Nat} {cc cp : Bool} (fuel : Nat)
    (h : deepcopy fuel σ i cc cp = .ok (σ', c)) :
    σ.length ≤ σ'.length ∧ (∀ a, a < σ.length → σ'[a]? = σ[a]?) ∧ σ.length ≤ c ∧ FreshClosed σ.length σ' := by
  unfold deepcopy at h
  split at h
  · cases h
  · rename_i σ2 m2 c2 e
    cases h
    have hfc : FreshClosed σ.length σ := fun a r ha hr => absurd (lt_of_get_some hr) (by omega)
    obtain ⟨h1, h2, _, h4⟩ := deepcopyF_frame (n := σ.length) fuel σ [] i cc cp _ hfc
      (fun k v hk => by simp [memoGet] at hk) (Nat.le_refl _) e
    exact ⟨h1.1, h1.2, h4, h2⟩

end FV
