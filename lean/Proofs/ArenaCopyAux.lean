/-
Facts about the memo of `__deepcopy__` that need no invariant (all flag combinations): memo values are
new live nodes, different originals have different copies, all nodes allocated by the copy are plain nodes
(not views), the memo only grows and new entries point to nodes allocated after the call started.
-/
import Proofs.ArenaReplInv
namespace FV
open Store
variable {α : Type}

/-- memo / store facts that hold during any `__deepcopy__` started on a store of length `n` -/
structure Aux (n : Nat) (σ : Store α) (memo : List (Nat × Nat)) : Prop where
  len : n ≤ σ.length
  bound : ∀ k v, memoGet memo k = some v → n ≤ v ∧ v < σ.length
  inj : ∀ k k' v, memoGet memo k = some v → memoGet memo k' = some v → k = k'
  nv : ∀ (a : Nat) (r : NodeRec α), n ≤ a → σ[a]? = some r → r.view = false

/-- what one `__deepcopy__` call does to store length and memo -/
def AuxStep (σ : Store α) (memo : List (Nat × Nat)) (σ' : Store α) (memo' : List (Nat × Nat)) : Prop :=
  σ.length ≤ σ'.length ∧ (∀ y v, memoGet memo y = some v → memoGet memo' y = some v) ∧
  (∀ y v, memoGet memo' y = some v → memoGet memo y = some v ∨ σ.length ≤ v)

theorem AuxStep.refl (σ : Store α) (memo : List (Nat × Nat)) : AuxStep σ memo σ memo :=
  ⟨Nat.le_refl _, fun _ _ h => h, fun _ _ h => .inl h⟩

theorem AuxStep.trans {σ σ' σ'' : Store α} {m m' m'' : List (Nat × Nat)} (h1 : AuxStep σ m σ' m')
    (h2 : AuxStep σ' m' σ'' m'') : AuxStep σ m σ'' m'' := by
  refine ⟨Nat.le_trans h1.1 h2.1, fun y v h => h2.2.1 y v (h1.2.1 y v h), fun y v h => ?_⟩
  rcases h2.2.2 y v h with h | h
  · exact h1.2.2 y v h
  · exact .inr (Nat.le_trans h1.1 h)

theorem AuxStep.none {σ σ' : Store α} {m m' : List (Nat × Nat)} (h : AuxStep σ m σ' m') {y : Nat}
    (hy : memoGet m' y = none) : memoGet m y = none := by
  cases hm : memoGet m y with
  | none => rfl
  | some v => rw [h.2.1 y v hm] at hy; cases hy

/-- a store change that keeps length and view flags keeps `Aux` -/
theorem Aux.of_views {n : Nat} {σ σ' : Store α} {memo : List (Nat × Nat)} (h : Aux n σ memo)
    (hlen : σ'.length = σ.length)
    (hv : ∀ (a : Nat) (r : NodeRec α), σ[a]? = some r → ∃ r', σ'[a]? = some r' ∧ r'.view = r.view) :
    Aux n σ' memo := by
  refine ⟨by rw [hlen]; exact h.len, fun k v hk => by rw [hlen]; exact h.bound k v hk, h.inj, ?_⟩
  intro a r' ha hr'
  obtain ⟨r, hr⟩ := get_some_of_lt (σ := σ) (hlen ▸ lt_of_get_some hr')
  obtain ⟨r'', hr'', hvv⟩ := hv a r hr
  rw [hr'] at hr''; cases hr''
  rw [hvv]; exact h.nv a r ha hr

theorem Aux.upd_parent {n : Nat} {σ : Store α} {memo : List (Nat × Nat)} (h : Aux n σ memo) (c : Nat)
    (q : Option Nat) : Aux n (upd σ c (fun x => { x with parent := q })) memo := by
  refine h.of_views (upd_length _ _ _) (fun a r hr => ?_)
  rw [upd_get]
  by_cases hac : a = c
  · rw [if_pos hac, hr]; exact ⟨_, rfl, rfl⟩
  · rw [if_neg hac]; exact ⟨r, hr, rfl⟩

theorem Aux.setChildren {n : Nat} {σ σ' : Store α} {memo : List (Nat × Nat)} (h : Aux n σ memo) {fuel p : Nat}
    {ks : List Nat} (e : setChildren fuel σ p ks = .ok σ') : Aux n σ' memo := by
  obtain ⟨hlen, hs⟩ := setChildren_shape fuel e
  exact h.of_views hlen (fun a r hr => let ⟨r', h1, h2, _⟩ := hs a r hr; ⟨r', h1, h2⟩)

theorem listM_aux {n : Nat}
    {f : Store α × List (Nat × Nat) → Nat → Except AErr ((Store α × List (Nat × Nat)) × Nat)}
    (hf : ∀ σ memo k res, Aux n σ memo → f (σ, memo) k = .ok res →
      Aux n res.1.1 res.1.2 ∧ AuxStep σ memo res.1.1 res.1.2) :
    ∀ (ks : List Nat) (σ : Store α) (memo : List (Nat × Nat)) (res : (Store α × List (Nat × Nat)) × List Nat),
      Aux n σ memo → listM f (σ, memo) ks = .ok res → Aux n res.1.1 res.1.2 ∧ AuxStep σ memo res.1.1 res.1.2
  | [], σ, memo, res, h1, h => by
    simp only [listM] at h
    cases h
    exact ⟨h1, AuxStep.refl _ _⟩
  | k :: ks, σ, memo, res, h1, h => by
    simp only [listM] at h
    split at h
    · cases h
    · rename_i st1 c1 e1
      split at h
      · cases h
      · rename_i st2 cs2 e2
        cases h
        obtain ⟨a1, a2⟩ := hf σ memo k _ h1 e1
        obtain ⟨b1, b2⟩ := listM_aux hf ks st1.1 st1.2 _ a1 e2
        exact ⟨b1, a2.trans b2⟩

/-- the fresh leaf `__deepcopy__` starts with -/
theorem aux_alloc {n : Nat} {σ : Store α} {memo : List (Nat × Nat)} (h : Aux n σ memo) {i : Nat}
    (hi : memoGet memo i = none) (x : NodeRec α) (hx : x.view = false) :
    Aux n (σ ++ [x]) ((i, σ.length) :: memo) ∧ AuxStep σ memo (σ ++ [x]) ((i, σ.length) :: memo) := by
  have hl : (σ ++ [x]).length = σ.length + 1 := by simp
  refine ⟨⟨by rw [hl]; have := h.len; omega, ?_, ?_, ?_⟩, by rw [hl]; omega, ?_, ?_⟩
  · intro k v hk
    rw [memoGet_cons] at hk
    rw [hl]
    split at hk
    · cases hk; have := h.len; omega
    · have := h.bound k v hk; omega
  · intro k k' v hk hk'
    rw [memoGet_cons] at hk hk'
    split at hk
    · cases hk
      split at hk'
      · rename_i h1 h2; exact h1.symm.trans h2
      · have := (h.bound k' _ hk').2; omega
    · split at hk'
      · cases hk'; have := (h.bound k _ hk).2; omega
      · exact h.inj k k' v hk hk'
  · intro a r ha hr
    rcases lt_or_eq_of_get_append hr with ⟨_, h1⟩ | ⟨_, h1⟩
    · exact h.nv a r ha h1
    · subst h1; exact hx
  · intro y v hy
    rw [memoGet_cons]
    split
    · rename_i hiy; subst hiy; rw [hi] at hy; cases hy
    · exact hy
  · intro y v hy
    rw [memoGet_cons] at hy
    split at hy
    · cases hy; exact .inr (Nat.le_refl _)
    · exact .inl hy

/-- **memo facts of `__deepcopy__`** (any flags, no invariant) -/
theorem deepcopyF_aux {n : Nat} : ∀ (fuel : Nat) (σ : Store α) (memo : List (Nat × Nat)) (i : Nat) (cc cp : Bool)
    (res : Store α × List (Nat × Nat) × Nat), Aux n σ memo →
    deepcopyF fuel σ memo i cc cp = .ok res →
    Aux n res.1 res.2.1 ∧ AuxStep σ memo res.1 res.2.1 ∧ memoGet res.2.1 i = some res.2.2
  | 0, _, _, _, _, _, _, _, h => by simp [deepcopyF] at h
  | fuel + 1, σ, memo, i, cc, cp, res, hA, h => by
    simp only [deepcopyF] at h
    split at h
    · rename_i v hv
      cases h
      exact ⟨hA, AuxStep.refl _ _, hv⟩
    · rename_i hmi
      split at h
      · cases h
      · rename_i r hr
        rw [mkNode_leaf_eq] at h
        simp only [] at h
        obtain ⟨hA1, hS1⟩ := aux_alloc hA hmi
          ({ (freshRec r.sym r.sender r.recipient none r.readOnly false : NodeRec α) with sizeC := 1 }) rfl
        have kids : ∀ out : Store α × List (Nat × Nat), (if cc = true then
              (match listM (kidStep (deepcopyF fuel))
                  (σ ++ [{ (freshRec r.sym r.sender r.recipient none r.readOnly false : NodeRec α) with sizeC := 1 }],
                    (i, σ.length) :: memo) r.kids with
               | .error e => .error e
               | .ok ((σ2, memo2), ks) =>
                 match setChildren (fuel + 1) σ2 σ.length ks with
                 | .error e => .error e
                 | .ok σ3 => .ok (σ3, memo2))
            else (.ok (σ ++ [{ (freshRec r.sym r.sender r.recipient none r.readOnly false : NodeRec α) with sizeC := 1 }],
                    (i, σ.length) :: memo) : Except AErr (Store α × List (Nat × Nat)))) = .ok out →
            Aux n out.1 out.2 ∧ AuxStep σ memo out.1 out.2 ∧ memoGet out.2 i = some σ.length := by
          intro out e
          split at e
          · split at e
            · cases e
            · rename_i σ2 memo2 ks e2
              split at e
              · cases e
              · rename_i σ3 e3
                cases e
                obtain ⟨b1, b2⟩ := listM_aux (n := n) (fun σa ma k rr h1 hh => by
                  unfold kidStep at hh
                  split at hh
                  · cases hh
                  · rename_i σx mx kx ex
                    cases hh
                    obtain ⟨x1, x2, _⟩ := deepcopyF_aux fuel σa ma k true true _ h1 ex
                    exact ⟨x1, x2⟩) r.kids _ _ _ hA1 e2
                have hl3 := (setChildren_shape (fuel + 1) e3).1
                refine ⟨b1.setChildren e3, hS1.trans ⟨by rw [hl3]; exact b2.1, b2.2.1, b2.2.2⟩, ?_⟩
                exact b2.2.1 i σ.length (by rw [memoGet_cons, if_pos rfl])
          · cases e
            exact ⟨hA1, hS1, by rw [memoGet_cons, if_pos rfl]⟩
        split at h
        · cases h
        · rename_i σ3 memo3 e3
          obtain ⟨b1, b2, b3⟩ := kids _ e3
          split at h
          · split at h
            · cases h
              exact ⟨b1.upd_parent _ _, ⟨by rw [upd_length]; exact b2.1, b2.2.1, b2.2.2⟩, b3⟩
            · rename_i p hp
              split at h
              · cases h
              · rename_i σ4 memo4 p' e4
                cases h
                obtain ⟨d1, d2, _⟩ := deepcopyF_aux fuel σ3 memo3 p true true _ b1 e4
                have d3 := b2.trans d2
                exact ⟨d1.upd_parent _ _, ⟨by rw [upd_length]; exact d3.1, d3.2.1, d3.2.2⟩, d2.2.1 _ _ b3⟩
          · cases h
            exact ⟨b1, b2, b3⟩

theorem aux_init (σ : Store α) : Aux σ.length σ [] :=
  ⟨Nat.le_refl _, fun k v h => by simp [memoGet] at h, fun k k' v h => by simp [memoGet] at h,
   fun a r ha hr => absurd (lt_of_get_some hr) (by omega)⟩

end FV
