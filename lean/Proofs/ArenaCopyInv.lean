/-
`__deepcopy__` of a subtree (copy_parent=False, or a node without parent, or — inside the recursion — a
node whose parent's copy is already in the memo) keeps `Inv`.
-/
import Proofs.ArenaTree
namespace FV
open Store
variable {α : Type} {Hc : Sym → Option String → Option String → List α → α}

theorem AgreeBelow.mono {n m : Nat} {σ σ' : Store α} (h : AgreeBelow n σ σ') (hmn : m ≤ n) : AgreeBelow m σ σ' :=
  ⟨h.1, fun a ha => h.2 a (by omega)⟩

/-- nothing below `z` has been copied yet -/
def Free (σ0 : Store α) (memo : List (Nat × Nat)) (z : Nat) : Prop :=
  ∀ y, Reach σ0 z y → memoGet memo y = none

/-- a finished copy that nobody lists yet, waiting to be listed by the copy `c1` of its parent -/
def Good (σ : Store α) (c1 v : Nat) : Prop :=
  v ≠ c1 ∧ ∃ rv, σ[v]? = some rv ∧ rv.view = false ∧ Unlisted σ v

/-- new records list only indices above the old length -/
def NewKids (n : Nat) (σ' : Store α) : Prop :=
  ∀ (a : Nat) (ra : NodeRec α), n ≤ a → σ'[a]? = some ra → ∀ z ∈ ra.kids, n < z

theorem unlisted_of_new {σ σ' : Store α} (hI : Inv Hc σ) (ha : AgreeBelow σ.length σ σ') (hn : NewKids σ.length σ')
    {v : Nat} (hv : v ≤ σ.length) (hu : v < σ.length → Unlisted σ v) : Unlisted σ' v := by
  intro a ra hra hz
  by_cases hlt : a < σ.length
  · rw [ha.2 a hlt] at hra
    by_cases hvl : v < σ.length
    · exact hu hvl a ra hra hz
    · have := kid_lt hI hra hz; omega
  · have := hn a ra (by omega) hra v hz; omega

theorem good_mono {σ σ' : Store α} {c1 v : Nat} (hI : Inv Hc σ) (ha : AgreeBelow σ.length σ σ')
    (hn : NewKids σ.length σ') (hg : Good σ c1 v) : Good σ' c1 v := by
  obtain ⟨h1, rv, hrv, h2, h4⟩ := hg
  have hvl := lt_of_get_some hrv
  exact ⟨h1, rv, by rw [ha.2 v hvl]; exact hrv, h2,
    unlisted_of_new hI ha hn (Nat.le_of_lt hvl) (fun _ => h4)⟩

theorem attachRec_id {p : Nat} {ks cs : List Nat} {a : Nat} (r : NodeRec α) (h1 : a ≠ p) (h2 : a ∉ cs) :
    attachRec p ks cs a r = r := by
  cases r; simp [attachRec, h1, h2]

/-- `set_children` on a node without parent: closed form -/
theorem setChildren_root {σ : Store α} {c : Nat} {rc : NodeRec α} {ks : List Nat} (hrc : σ[c]? = some rc)
    (hp : rc.parent = none) (hc : c ∉ ks) (m : Nat) :
    setChildren (m + 1) σ c ks = .ok ((attachRaw σ c ks ks).set c
      { (attachRec c ks ks c rc) with
        hashC := none
        sizeC := 1 + sumSizes (attachRaw σ c ks ks) (attachRec c ks ks c rc).kids }) := by
  have h1 : (attachRaw σ c ks ks)[c]? = some (attachRec c ks ks c rc) := by rw [attachRaw_get, hrc]; rfl
  have h2 : (attachRec c ks ks c rc).parent = none := by simp [attachRec, hc, hp]
  exact invalidate_root h1 h2 m

theorem setChildren_root_get {σ σ' : Store α} {c : Nat} {rc : NodeRec α} {ks : List Nat} (hrc : σ[c]? = some rc)
    (hp : rc.parent = none) (hc : c ∉ ks) (m : Nat) (h : setChildren (m + 1) σ c ks = .ok σ') :
    σ'.length = σ.length ∧
    (∃ rc', σ'[c]? = some rc' ∧ rc'.kids = ks ∧ rc'.parent = none ∧ rc'.view = rc.view) ∧
    (∀ a, a ≠ c → a ∉ ks → σ'[a]? = σ[a]?) ∧
    (∀ a ra, a ∈ ks → σ[a]? = some ra → ∃ ra', σ'[a]? = some ra' ∧ ra'.kids = ra.kids ∧ ra'.parent = some c ∧
      ra'.view = ra.view) := by
  rw [setChildren_root hrc hp hc m] at h
  cases h
  have hlen : (attachRaw σ c ks ks).length = σ.length := by unfold attachRaw; rw [reparent_length, upd_length]
  have hclt : c < (attachRaw σ c ks ks).length := by rw [hlen]; exact lt_of_get_some hrc
  refine ⟨by rw [List.length_set, hlen], ⟨_, List.getElem?_set_self hclt, ?_, ?_, ?_⟩, ?_, ?_⟩
  · simp [attachRec]
  · simp [attachRec, hc, hp]
  · simp [attachRec]
  · intro a hac hak
    rw [List.getElem?_set_ne (Ne.symm hac), attachRaw_get]
    cases h : σ[a]? with
    | none => rfl
    | some r => simp [attachRec_id r hac hak]
  · intro a ra hak hra
    have hac : a ≠ c := fun h => hc (h ▸ hak)
    refine ⟨attachRec c ks ks a ra, by rw [List.getElem?_set_ne (Ne.symm hac), attachRaw_get, hra]; rfl, ?_, ?_, ?_⟩
    · simp [attachRec, hac]
    · simp [attachRec, hak]
    · simp [attachRec]

theorem NewKids.trans {n : Nat} {σ1 σ2 : Store α} (h1 : NewKids n σ1) (ha : AgreeBelow σ1.length σ1 σ2)
    (h2 : NewKids σ1.length σ2) (hn : n ≤ σ1.length) : NewKids n σ2 := by
  intro a ra hna hra z hz
  by_cases hlt : a < σ1.length
  · rw [ha.2 a hlt] at hra; exact h1 a ra hna hra z hz
  · have := h2 a ra (by omega) hra z hz; omega

theorem newKids_refl (σ : Store α) : NewKids σ.length σ :=
  fun a _ ha hra => absurd (lt_of_get_some hra) (by omega)

/-- which parent link the copy gets -/
def ParSpec (memo : List (Nat × Nat)) (σ : Store α) (rk : NodeRec α) (cp : Bool) (par : Option Nat) : Prop :=
  (cp = false ∧ par = none) ∨
  (cp = true ∧ rk.parent = none ∧ par = none) ∨
  (cp = true ∧ ∃ x q, rk.parent = some x ∧ memoGet memo x = some q ∧ q < σ.length ∧ par = some q)

structure CopyPost (Hc : Sym → Option String → Option String → List α → α) (σ0 σ : Store α)
    (memo : List (Nat × Nat)) (k : Nat) (cc : Bool) (par : Option Nat) (res : Store α × List (Nat × Nat) × Nat) :
    Prop where
  inv : Inv Hc res.1
  agree : AgreeBelow σ.length σ res.1
  cnew : res.2.2 = σ.length
  crec : ∃ rc, res.1[σ.length]? = some rc ∧ rc.view = false ∧ rc.parent = par
  newkids : NewKids σ.length res.1
  memoK : memoGet res.2.1 k = some σ.length
  memoO : ∀ y, ¬ Reach σ0 k y → memoGet res.2.1 y = memoGet memo y
  /-- with `copy_children` the whole subtree is in the memo afterwards -/
  memoC : cc = true → ∀ y, Reach σ0 k y → memoGet res.2.1 y ≠ none

def CopySpec (Hc : Sym → Option String → Option String → List α → α) (σ0 : Store α) (fuel : Nat) : Prop :=
  ∀ (σ : Store α) (memo : List (Nat × Nat)) (k : Nat) (cc cp : Bool) (par : Option Nat) (rk : NodeRec α)
    (res : Store α × List (Nat × Nat) × Nat),
    Inv Hc σ → AgreeBelow σ0.length σ0 σ → σ0[k]? = some rk → rk.view = false →
    (∀ y, Reach σ0 k y → memoGet memo y = none) → ParSpec memo σ rk cp par →
    deepcopyF fuel σ memo k cc cp = .ok res → CopyPost Hc σ0 σ memo k cc par res

/-- the function `listM` runs over the children in `__deepcopy__` -/
abbrev kidCopy (fuel : Nat) : Store α × List (Nat × Nat) → Nat → Except AErr ((Store α × List (Nat × Nat)) × Nat) :=
  kidStep (deepcopyF fuel)

theorem copy_kids {σ0 : Store α} {k c1 fuel : Nat} {rk : NodeRec α} (hI0 : Inv Hc σ0) (hrk : σ0[k]? = some rk)
    (hvk : rk.view = false) (hspec : CopySpec Hc σ0 fuel) :
    ∀ (ks : List Nat) (σa : Store α) (ma : List (Nat × Nat)) (out : (Store α × List (Nat × Nat)) × List Nat),
      Inv Hc σa → AgreeBelow σ0.length σ0 σa → c1 < σa.length → memoGet ma k = some c1 →
      (∀ z ∈ ks, z ∈ rk.kids) →
      (∀ z ∈ ks, Free σ0 ma z ∨ (∃ v, memoGet ma z = some v ∧ Good σa c1 v)) →
      listM (kidCopy fuel) (σa, ma) ks = .ok out →
      Inv Hc out.1.1 ∧ AgreeBelow σa.length σa out.1.1 ∧ NewKids σa.length out.1.1 ∧
      (∀ v ∈ out.2, Good out.1.1 c1 v) ∧
      (∀ v ∈ out.2, σa.length ≤ v ∨ ∃ z ∈ ks, memoGet ma z = some v) ∧
      memoGet out.1.2 k = some c1 ∧
      (∀ y, (∀ z ∈ ks, Free σ0 ma z → ¬ Reach σ0 z y) → memoGet out.1.2 y = memoGet ma y) ∧
      (∀ z ∈ ks, Free σ0 ma z → ∀ y, Reach σ0 z y → memoGet out.1.2 y ≠ none) ∧
      (∀ y w, memoGet ma y = some w → memoGet out.1.2 y = some w) ∧
      (∀ z ∈ ks, ∃ v ∈ out.2, memoGet out.1.2 z = some v)
  | [], σa, ma, out, hIa, _, _, hmk, _, _, h => by
    simp only [listM] at h
    cases h
    exact ⟨hIa, AgreeBelow.refl _ _, newKids_refl σa,
      fun v hv => by simp at hv, fun v hv => by simp at hv, hmk, fun _ _ => rfl,
      fun z hz => by simp at hz, fun _ _ h => h, fun z hz => by simp at hz⟩
  | z :: ks, σa, ma, out, hIa, hag, hc1, hmk, hsub, hst, h => by
    simp only [listM] at h
    split at h
    · cases h
    · rename_i st1 v e1
      split at h
      · cases h
      · rename_i st2 vs e2
        cases h
        have hz : z ∈ rk.kids := hsub z List.mem_cons_self
        obtain ⟨rz, hrz, hpz, hvz⟩ := hI0.par k rk z hrk hvk hz
        -- the head call
        have head : Inv Hc st1.1 ∧ AgreeBelow σa.length σa st1.1 ∧ NewKids σa.length st1.1 ∧ Good st1.1 c1 v ∧
            memoGet st1.2 z = some v ∧
            (∀ y, (Free σ0 ma z → ¬ Reach σ0 z y) → memoGet st1.2 y = memoGet ma y) ∧
            (Free σ0 ma z → ∀ y, Reach σ0 z y → memoGet st1.2 y ≠ none) ∧
            (σa.length ≤ v ∨ memoGet ma z = some v) ∧
            (∀ y w, memoGet ma y = some w → memoGet st1.2 y = some w) := by
          unfold kidCopy kidStep at e1
          split at e1
          · cases e1
          · rename_i σx mx kx ex
            cases e1
            rcases hst z List.mem_cons_self with hun | ⟨v0, hv0, hg0⟩
            · have post := hspec σa ma z true true (some c1) rz _ hIa hag hrz hvz hun
                (.inr (.inr ⟨rfl, k, c1, hpz, hmk, hc1, rfl⟩)) ex
              have hcn : v = σa.length := post.cnew
              subst hcn
              obtain ⟨rc, hrc, hvc, hpc⟩ := post.crec
              refine ⟨post.inv, post.agree, post.newkids, ⟨by omega, rc, hrc, hvc, ?_⟩, post.memoK,
                fun y hy => post.memoO y (hy hun), fun _ => post.memoC rfl, .inl (Nat.le_refl _), ?_⟩
              · exact unlisted_of_new hIa post.agree post.newkids (Nat.le_refl _) (fun h => absurd h (Nat.lt_irrefl _))
              · intro y w hyw
                by_cases hr : Reach σ0 z y
                · rw [hun y hr] at hyw; cases hyw
                · rw [post.memoO y hr]; exact hyw
            · -- a child that is in the memo already: the memo answers
              cases fuel with
              | zero => simp [deepcopyF] at ex
              | succ f =>
                simp only [deepcopyF, hv0] at ex
                cases ex
                refine ⟨hIa, AgreeBelow.refl _ _, newKids_refl σa, hg0, hv0, fun _ _ => rfl, fun hfr => ?_,
                  .inr hv0, fun _ _ h => h⟩
                have := hfr z (.refl z)
                rw [hv0] at this; cases this
        obtain ⟨hI1, hag1, hnk1, hgood1, hmz1, hmo1, hcov1, hfrom1, hmono1⟩ := head
        have hlen1 : σa.length ≤ st1.1.length := hag1.1
        have hnr : ¬ Reach σ0 z k := by
          obtain ⟨t, ht⟩ := hI0.wf k (lt_of_get_some hrk)
          exact not_reach_of_kid hrk hz ht
        have hmk1 : memoGet st1.2 k = some c1 := hmono1 k c1 hmk
        -- `Free` goes back along the monotone memo
        have hfree_back : ∀ z', Free σ0 st1.2 z' → Free σ0 ma z' := by
          intro z' hf y hy
          cases hm : memoGet ma y with
          | none => rfl
          | some w => have h1 := hf y hy; rw [hmono1 y w hm] at h1; cases h1
        have hfree_fwd : ∀ z' ∈ ks, z' ≠ z → Free σ0 ma z' → Free σ0 st1.2 z' := by
          intro z' hz' hzz hf y hy
          have hz'k : z' ∈ rk.kids := hsub z' (List.mem_cons_of_mem _ hz')
          rw [hmo1 y (fun _ hzy => kids_disjoint hI0 hrk hvk hz hz'k (Ne.symm hzz) hzy hy)]
          exact hf y hy
        have hst1 : ∀ z' ∈ ks, Free σ0 st1.2 z' ∨ (∃ v', memoGet st1.2 z' = some v' ∧ Good st1.1 c1 v') := by
          intro z' hz'
          by_cases hzz : z' = z
          · subst hzz; exact .inr ⟨v, hmz1, hgood1⟩
          · rcases hst z' (List.mem_cons_of_mem _ hz') with hun | ⟨v', hv', hg'⟩
            · exact .inl (hfree_fwd z' hz' hzz hun)
            · exact .inr ⟨v', hmono1 z' v' hv', good_mono hIa hag1 hnk1 hg'⟩
        obtain ⟨hI2, hag2, hnk2, hgood2, hfrom2, hmk2, hmo2, hcov2, hmono2, hall2⟩ :=
          copy_kids hI0 hrk hvk hspec ks st1.1 st1.2 _ hI1
          (hag.trans (hag1.mono (by have := hag.1; omega))) (by omega) hmk1
          (fun z' hz' => hsub z' (List.mem_cons_of_mem _ hz')) hst1 e2
        refine ⟨hI2, hag1.trans (hag2.mono hlen1), hnk1.trans hag2 hnk2 hlen1, ?_, ?_, hmk2, ?_, ?_, ?_, ?_⟩
        · intro v' hv'
          rcases List.mem_cons.mp hv' with rfl | hv'
          · exact good_mono hI1 hag2 hnk2 hgood1
          · exact hgood2 v' hv'
        · intro v' hv'
          rcases List.mem_cons.mp hv' with rfl | hv'
          · rcases hfrom1 with h | h
            · exact .inl h
            · exact .inr ⟨z, List.mem_cons_self, h⟩
          · rcases hfrom2 v' hv' with h | ⟨z', hz', hm'⟩
            · exact .inl (by omega)
            · by_cases hzz : z' = z
              · subst hzz
                rw [hmz1] at hm'; cases hm'
                rcases hfrom1 with h | h
                · exact .inl h
                · exact .inr ⟨z', List.mem_cons_self, h⟩
              · cases hm0 : memoGet ma z' with
                | some w =>
                  rw [hmono1 z' w hm0] at hm'; cases hm'
                  exact .inr ⟨z', List.mem_cons_of_mem _ hz', hm0⟩
                | none =>
                  exfalso
                  have hz'k : z' ∈ rk.kids := hsub z' (List.mem_cons_of_mem _ hz')
                  have := hmo1 z' (fun _ hzy => kids_disjoint hI0 hrk hvk hz hz'k (Ne.symm hzz) hzy (.refl _))
                  rw [hm', hm0] at this; cases this
        · intro y hy
          rw [hmo2 y (fun z' hz' hf => hy z' (List.mem_cons_of_mem _ hz') (hfree_back z' hf)),
            hmo1 y (hy z List.mem_cons_self)]
        · intro z' hz' hf y hy
          by_cases hzz : z' = z
          · subst hzz
            have := hcov1 hf y hy
            cases hm : memoGet st1.2 y with
            | none => exact absurd hm this
            | some w => rw [hmono2 y w hm]; simp
          · rcases List.mem_cons.mp hz' with h | h
            · exact absurd h hzz
            · exact hcov2 z' h (hfree_fwd z' h hzz hf) y hy
        · intro y w hyw
          exact hmono2 y w (hmono1 y w hyw)
        · intro z' hz'
          rcases List.mem_cons.mp hz' with rfl | hz'
          · exact ⟨v, List.mem_cons_self, hmono2 _ v hmz1⟩
          · obtain ⟨v', hv', hm'⟩ := hall2 z' hz'
            exact ⟨v', List.mem_cons_of_mem _ hv', hm'⟩

theorem copyPost_finish {σ0 σ σ3 : Store α} {memo memo3 : List (Nat × Nat)} {k : Nat} {cc : Bool} (hI : Inv Hc σ)
    (h1 : Inv Hc σ3) (h2 : AgreeBelow σ.length σ σ3)
    (h3 : ∃ rc, σ3[σ.length]? = some rc ∧ rc.view = false ∧ rc.parent = none)
    (h4 : NewKids σ.length σ3) (h5 : memoGet memo3 k = some σ.length)
    (h6 : ∀ y, ¬ Reach σ0 k y → memoGet memo3 y = memoGet memo y)
    (h7 : cc = true → ∀ y, Reach σ0 k y → memoGet memo3 y ≠ none)
    (par : Option Nat) (hp : ∀ q, par = some q → q < σ.length) :
    CopyPost Hc σ0 σ memo k cc par (upd σ3 σ.length (fun x => { x with parent := par }), memo3, σ.length) := by
  obtain ⟨rc, hrc, hvc, _⟩ := h3
  have hu : Unlisted σ3 σ.length :=
    unlisted_of_new hI h2 h4 (Nat.le_refl _) (fun h => absurd h (Nat.lt_irrefl _))
  refine ⟨inv_set_parent h1 hu (fun q hq => Nat.lt_of_lt_of_le (hp q hq) h2.1),
    h2.trans (upd_fresh _ (Nat.le_refl _)), rfl, ⟨{ rc with parent := par }, ?_, hvc, rfl⟩, ?_, h5, h6, h7⟩
  · show (upd σ3 σ.length (fun x => { x with parent := par }))[σ.length]? = _
    rw [upd_get_self, hrc]; rfl
  · intro a ra ha hra z hz
    show σ.length < z
    have hra' : (upd σ3 σ.length (fun x => { x with parent := par }))[a]? = some ra := hra
    rw [upd_get] at hra'
    by_cases hac : a = σ.length
    · rw [if_pos hac] at hra'
      cases hsa : σ3[a]? with
      | none => rw [hsa] at hra'; simp at hra'
      | some r0 =>
        rw [hsa] at hra'; simp only [Option.map_some, Option.some.injEq] at hra'
        subst hra'
        exact h4 a r0 ha hsa z hz
    · rw [if_neg hac] at hra'
      exact h4 a ra ha hra' z hz

theorem memoGet_cons (memo : List (Nat × Nat)) (k c y : Nat) :
    memoGet ((k, c) :: memo) y = if k = y then some c else memoGet memo y := by
  simp [memoGet]

/-- **subtree copies keep the invariant** -/
theorem copySpec_all {σ0 : Store α} (hI0 : Inv Hc σ0) : ∀ fuel, CopySpec Hc σ0 fuel
  | 0 => by
    intro σ memo k cc cp par rk res _ _ _ _ _ _ h
    simp [deepcopyF] at h
  | fuel + 1 => by
    intro σ memo k cc cp par rk res hI hag hrk hvk hun hps h
    have hspec := copySpec_all hI0 fuel
    have hmk0 : memoGet memo k = none := hun k (.refl k)
    have hklt : k < σ0.length := lt_of_get_some hrk
    have hσk : σ[k]? = some rk := by rw [hag.2 k hklt]; exact hrk
    obtain ⟨tk, htk⟩ := hI0.wf k hklt
    simp only [deepcopyF, hmk0, hσk] at h
    rw [mkNode_leaf_eq] at h
    simp only [] at h
    have hI1 : Inv Hc (σ ++ [{ (freshRec rk.sym rk.sender rk.recipient none rk.readOnly false : NodeRec α) with sizeC := 1 }]) :=
      (mkNode_inv (Hc := Hc) (fuel + 1) hI (kids := []) (fun c hc => by simp at hc)
        (mkNode_leaf_eq σ rk.sym rk.sender rk.recipient rk.readOnly fuel)).1
    have hag1 : AgreeBelow σ.length σ (σ ++ [{ (freshRec rk.sym rk.sender rk.recipient none rk.readOnly false : NodeRec α) with sizeC := 1 }]) :=
      append_agree _ σ _ (Nat.le_refl _)
    have hlen1 : (σ ++ [{ (freshRec rk.sym rk.sender rk.recipient none rk.readOnly false : NodeRec α) with sizeC := 1 }]).length = σ.length + 1 := by simp
    have hmemo1 : ∀ y, ¬ Reach σ0 k y →
        memoGet ((k, σ.length) :: memo) y = memoGet memo y := by
      intro y hy
      rw [memoGet_cons, if_neg (fun (hky : k = y) => hy (by subst hky; exact .refl _))]
    -- after the children
    have AK : ∀ out : Store α × List (Nat × Nat),
        (if cc = true then
          (match listM (kidStep (deepcopyF fuel))
              (σ ++ [{ (freshRec rk.sym rk.sender rk.recipient none rk.readOnly false : NodeRec α) with sizeC := 1 }],
                (k, σ.length) :: memo) rk.kids with
           | .error e => .error e
           | .ok ((σ2, memo2), ks) =>
             match setChildren (fuel + 1) σ2 σ.length ks with
             | .error e => .error e
             | .ok σ3 => .ok (σ3, memo2))
         else (.ok (σ ++ [{ (freshRec rk.sym rk.sender rk.recipient none rk.readOnly false : NodeRec α) with sizeC := 1 }],
                (k, σ.length) :: memo) : Except AErr (Store α × List (Nat × Nat)))) = .ok out →
        Inv Hc out.1 ∧ AgreeBelow σ.length σ out.1 ∧
        (∃ rc, out.1[σ.length]? = some rc ∧ rc.view = false ∧ rc.parent = none) ∧
        NewKids σ.length out.1 ∧ memoGet out.2 k = some σ.length ∧
        (∀ y, ¬ Reach σ0 k y → memoGet out.2 y = memoGet memo y) ∧
        (cc = true → ∀ y, Reach σ0 k y → memoGet out.2 y ≠ none) := by
      intro out e
      split at e
      · split at e
        · cases e
        · rename_i σ2 memo2 ks e2
          split at e
          · cases e
          · rename_i σ3 e3
            cases e
            have hfree : ∀ z ∈ rk.kids, Free σ0 ((k, σ.length) :: memo) z := fun z hz y hy => by
              rw [memoGet_cons, if_neg (fun (hky : k = y) => not_reach_of_kid hrk hz htk (by subst hky; exact hy))]
              exact hun y (.step hrk hz hy)
            obtain ⟨hI2, hag2, hnk2, hgood, hfrom, hmk2, hmo2, hcov2, _, _⟩ := copy_kids (c1 := σ.length) hI0 hrk hvk hspec rk.kids _ _ _ hI1
              (hag.trans (hag1.mono (by have := hag.1; omega))) (by rw [hlen1]; omega)
              (by rw [memoGet_cons, if_pos rfl]) (fun z hz => hz)
              (fun z hz => .inl (hfree z hz)) e2
            have hks_new : ∀ v ∈ ks, σ.length + 1 ≤ v := by
              intro v hv
              rcases hfrom v hv with h | ⟨z, hz, hm⟩
              · rw [hlen1] at h; exact h
              · rw [hfree z hz z (.refl z)] at hm; cases hm
            have hl2 : σ.length + 1 ≤ σ2.length := by
              have h21 := hag2.1
              rw [hlen1] at h21
              exact h21
            have hX2 : σ2[σ.length]? = some { (freshRec rk.sym rk.sender rk.recipient none rk.readOnly false : NodeRec α) with sizeC := 1 } := by
              rw [hag2.2 σ.length (by rw [hlen1]; omega)]; exact get_append_new σ _
            have hnotin : σ.length ∉ ks := fun hm => by
              have := hks_new _ hm; omega
            obtain ⟨g1, ⟨rc', g2, g3, g4, g5⟩, g6, g7⟩ := setChildren_root_get hX2 rfl hnotin fuel e3
            have hI3 : Inv Hc σ3 := by
              refine setChildren_pre' (fuel + 1) (hI2.pre _) ⟨_, hX2, rfl, fun v hv => .inr ?_⟩ e3
              obtain ⟨hne, rv, hrv, hvv, huv⟩ := hgood v hv
              refine ⟨rv, hrv, hvv, fun a ra hra _ hc => absurd hc (huv a ra hra), fun hup => ?_⟩
              cases hup with
              | refl => exact hne rfl
              | step hr hp _ => rw [hX2] at hr; cases hr; simp [freshRec] at hp
            have hag3 : AgreeBelow σ.length σ σ3 := by
              refine ⟨by rw [g1]; omega, fun a ha => ?_⟩
              rw [g6 a (by omega) (fun hm => by have := hks_new _ hm; omega),
                hag2.2 a (by rw [hlen1]; omega), hag1.2 a ha]
            have hnk3 : NewKids σ.length σ3 := by
              intro a ra ha hra z hz
              by_cases hac : a = σ.length
              · subst hac
                rw [g2] at hra; cases hra
                rw [g3] at hz
                exact hks_new z hz
              · have ha1 : (σ ++ [{ (freshRec rk.sym rk.sender rk.recipient none rk.readOnly false : NodeRec α) with sizeC := 1 }]).length ≤ a := by
                  rw [hlen1]; omega
                by_cases hak : a ∈ ks
                · obtain ⟨_, rv, hrv, _⟩ := hgood a hak
                  obtain ⟨ra', hra', hk', _⟩ := g7 a rv hak hrv
                  rw [hra] at hra'; cases hra'
                  have := hnk2 a rv ha1 hrv z (hk' ▸ hz)
                  rw [hlen1] at this; omega
                · rw [g6 a hac hak] at hra
                  have := hnk2 a ra ha1 hra z hz
                  rw [hlen1] at this; omega
            refine ⟨hI3, hag3, ⟨rc', g2, g5, g4⟩, hnk3, hmk2, fun y hy => ?_, fun _ y hy => ?_⟩
            · rw [hmo2 y (fun z hz _ hzy => hy (.step hrk hz hzy)), hmemo1 y hy]
            · cases hy with
              | refl => rw [hmk2]; simp
              | step hr hz hzy =>
                rw [hrk] at hr; cases hr
                exact hcov2 _ hz (hfree _ hz) y hzy
      · cases e
        rename_i hcc
        refine ⟨hI1, hag1, ⟨_, get_append_new σ _, rfl, rfl⟩, ?_, by rw [memoGet_cons, if_pos rfl], hmemo1,
          fun h => absurd h hcc⟩
        intro a ra ha hra z hz
        rcases lt_or_eq_of_get_append hra with ⟨hlt, _⟩ | ⟨_, hx⟩
        · omega
        · subst hx; simp [freshRec] at hz
    -- the parent link
    split at h
    · cases h
    · rename_i σ3 memo3 e3
      obtain ⟨k1, k2, k3, k4, k5, k6, k7⟩ := AK _ e3
      rcases hps with ⟨hcp, hpar⟩ | ⟨hcp, hpn, hpar⟩ | ⟨hcp, x, q, hpx, hmx, hql, hpar⟩
      · subst hcp hpar
        simp only [Bool.false_eq_true, if_false] at h
        cases h
        exact ⟨k1, k2, rfl, k3, k4, k5, k6, k7⟩
      · subst hcp hpar
        simp only [if_true, hpn] at h
        cases h
        exact copyPost_finish hI k1 k2 k3 k4 k5 k6 k7 none (fun q hq => by cases hq)
      · subst hcp hpar
        simp only [if_true, hpx] at h
        have hmx3 : memoGet memo3 x = some q := by
          rw [k6 x (fun hr => by rw [hun x hr] at hmx; cases hmx)]; exact hmx
        cases fuel with
        | zero => simp [deepcopyF] at h
        | succ f =>
          simp only [deepcopyF, hmx3] at h
          cases h
          exact copyPost_finish hI k1 k2 k3 k4 k5 k6 k7 (some q) (fun q' hq' => by cases hq'; exact hql)

end FV
