/-
The *upward* whole-tree copy: `__deepcopy__` with `copy_parent=True` on a node that has a parent
(`copy.deepcopy(inner_node)`, the first step of `split_end(copy_tree=True)` / `prefix()`).  After the node
and (with `copy_children`) its subtree have been copied, the parent is copied with the memo answering for
the child that is already there, then the grandparent, and so on.  The parent links followed may be stale
(a node keeps its `_parent` when its lister drops it): the proof does not assume that a parent lists the node.

`UpSpec`: such a call keeps `Inv`.  Memo invariant `MI`; helper facts `Aux` (Proofs/ArenaCopyAux.lean).
-/
import Proofs.ArenaCopyAux
namespace FV
open Store
variable {α : Type} {Hc : Sym → Option String → Option String → List α → α}

/-! ### small facts -/

/-- the non-view ancestors of a node form a chain -/
theorem reach_linear {σ : Store α} (hI : Inv Hc σ) {a b y : Nat} {ra rb : NodeRec α}
    (hra : σ[a]? = some ra) (hva : ra.view = false) (hrb : σ[b]? = some rb) (hvb : rb.view = false)
    (h1 : Reach σ a y) (h2 : Reach σ b y) : Reach σ a b ∨ Reach σ b a := by
  have key : ∀ y, ReachR σ a y → Reach σ b y → Reach σ a b ∨ Reach σ b a := by
    intro y hy
    induction hy with
    | refl => exact fun h => .inr h
    | @snoc m y r hm hr hy ih =>
      intro h2
      by_cases hby : b = y
      · subst hby; exact .inl (hm.toReach.snoc hr hy)
      · obtain ⟨rm, hrm, hvm⟩ := hm.toReach.nonview hI ra hra hva
        rw [hr] at hrm; cases hrm
        obtain ⟨ry, hry, hpy, _⟩ := hI.par m r y hr hvm hy
        obtain ⟨m', rm', hm1, hm2, hm3, hm4⟩ := h2.last_lister hI.par hby rb hrb hvb
        obtain ⟨ry', hry', hpy', _⟩ := hI.par m' rm' y hm2 hm3 hm4
        rw [hry] at hry'; cases hry'
        rw [hpy] at hpy'; cases hpy'
        exact ih hm1
  exact key y h1.toR h2

/-- a non-view node strictly above `k` is above the parent of `k` -/
theorem reach_parent {σ : Store α} (hI : Inv Hc σ) {a k : Nat} {ra rk : NodeRec α}
    (hra : σ[a]? = some ra) (hva : ra.view = false) (hrk : σ[k]? = some rk) (h : Reach σ a k) (hne : a ≠ k) :
    ∃ x, rk.parent = some x ∧ Reach σ a x := by
  obtain ⟨m, rm, hm1, hm2, hm3, hm4⟩ := h.last_lister hI.par hne ra hra hva
  obtain ⟨rk', hrk', hpk, _⟩ := hI.par m rm k hm2 hm3 hm4
  rw [hrk] at hrk'; cases hrk'
  exact ⟨m, hpk, hm1⟩

theorem unlisted_append_leaf {σ : Store α} {v : Nat} (h : Unlisted σ v) (x : NodeRec α) (hx : x.kids = []) :
    Unlisted (σ ++ [x]) v := by
  intro a ra hra hz
  rcases lt_or_eq_of_get_append hra with ⟨_, h1⟩ | ⟨_, h1⟩
  · exact h a ra h1 hz
  · subst h1; rw [hx] at hz; simp at hz

theorem upd_id {σ : Store α} {i : Nat} {r : NodeRec α} {f : NodeRec α → NodeRec α} (hr : σ[i]? = some r)
    (hf : f r = r) : upd σ i f = σ := by
  unfold upd
  rw [hr]
  simp only [hf]
  apply List.ext_getElem?
  intro n
  by_cases hn : i = n
  · subst hn; rw [List.getElem?_set_self (lt_of_get_some hr)]; exact hr.symm
  · rw [List.getElem?_set_ne hn]

/-- records after `x._parent = q` -/
theorem upd_parent_back {σ : Store α} {c a : Nat} {q : Option Nat} {ra : NodeRec α}
    (h : (upd σ c (fun x => { x with parent := q }))[a]? = some ra) :
    ∃ r0, σ[a]? = some r0 ∧ ra.kids = r0.kids ∧ ra.view = r0.view ∧ (a ≠ c → ra = r0) := by
  rw [upd_get] at h
  by_cases hac : a = c
  · rw [if_pos hac] at h
    cases hsa : σ[a]? with
    | none => rw [hsa] at h; simp at h
    | some r0 =>
      rw [hsa] at h; simp only [Option.map_some, Option.some.injEq] at h
      subst h
      exact ⟨r0, rfl, rfl, rfl, fun hne => absurd hac hne⟩
  · rw [if_neg hac] at h
    exact ⟨ra, h, rfl, rfl, fun _ => rfl⟩

theorem upd_parent_fwd {σ : Store α} {c a : Nat} (q : Option Nat) {r0 : NodeRec α} (h : σ[a]? = some r0) :
    ∃ ra, (upd σ c (fun x => { x with parent := q }))[a]? = some ra ∧ ra.kids = r0.kids ∧ (a ≠ c → ra = r0) := by
  rw [upd_get]
  by_cases hac : a = c
  · rw [if_pos hac, h]; exact ⟨_, rfl, rfl, fun hne => absurd hac hne⟩
  · rw [if_neg hac]; exact ⟨r0, h, rfl, fun _ => rfl⟩

/-! ### specification of the upward call -/

/-- `v` is the copy of a node that still has a (non-view) lister in the original store that has not been
copied: only such copies are touched again (listed and re-parented by the copy of that lister) -/
def Exposed (σ0 : Store α) (memo : List (Nat × Nat)) (v : Nat) : Prop :=
  ∃ z w rw, memoGet memo z = some v ∧ σ0[w]? = some rw ∧ rw.view = false ∧ z ∈ rw.kids ∧ memoGet memo w = none

/-- the memo when `__deepcopy__` is entered for a node `k` that is not in it -/
structure MI (σ0 σ : Store α) (memo : List (Nat × Nat)) (k : Nat) : Prop where
  /-- non-view ancestors of copied nodes are copied, or they are `k` or above `k` -/
  anc : ∀ y, memoGet memo y ≠ none → ∀ a ra, σ0[a]? = some ra → ra.view = false → Reach σ0 a y →
    memoGet memo a ≠ none ∨ Reach σ0 a k
  /-- a copy is listed by nobody as long as a lister of its original is still to be copied -/
  unl : ∀ z v, memoGet memo z = some v →
    Unlisted σ v ∨ ∀ w rw, σ0[w]? = some rw → rw.view = false → z ∈ rw.kids → memoGet memo w ≠ none

structure UpPost (Hc : Sym → Option String → Option String → List α → α) (σ0 σ : Store α)
    (memo : List (Nat × Nat)) (k : Nat) (res : Store α × List (Nat × Nat) × Nat) : Prop where
  inv : Inv Hc res.1
  cnew : res.2.2 = σ.length
  /-- older records keep their child lists, and are untouched unless `Exposed` -/
  old : ∀ a ra, a < σ.length → σ[a]? = some ra →
    ∃ ra', res.1[a]? = some ra' ∧ ra'.kids = ra.kids ∧ (ra' = ra ∨ Exposed σ0 memo a)
  /-- new records list new records or exposed copies -/
  newk : ∀ a ra, σ.length ≤ a → res.1[a]? = some ra → ∀ v ∈ ra.kids, σ.length ≤ v ∨ Exposed σ0 memo v
  /-- the caller's `copied._parent = <result>` keeps the invariant -/
  pend : ∀ j cj rj, σ0[j]? = some rj → rj.parent = some k → memoGet memo j = some cj → Unlisted σ cj →
    Inv Hc (upd res.1 cj (fun x => { x with parent := some σ.length }))

/-- no node on the parent chain of `i` (`i` included) is a view (`SliceTree`s are never parents as long as
they are not edited: `SliceTree(children)` does not re-parent) -/
def NoViewUp (σ : Store α) (i : Nat) : Prop :=
  ∀ a, Up σ i a → ∃ ra, σ[a]? = some ra ∧ ra.view = false

theorem NoViewUp.parent {σ : Store α} {i p : Nat} {r : NodeRec α} (h : NoViewUp σ i) (hr : σ[i]? = some r)
    (hp : r.parent = some p) : NoViewUp σ p :=
  fun a ha => h a (.step hr hp ha)

def UpSpec (Hc : Sym → Option String → Option String → List α → α) (σ0 : Store α) (fuel : Nat) : Prop :=
  ∀ (σ : Store α) (memo : List (Nat × Nat)) (k : Nat) (cc : Bool) (rk : NodeRec α)
    (res : Store α × List (Nat × Nat) × Nat),
    Inv Hc σ → AgreeBelow σ0.length σ0 σ → Aux σ0.length σ memo → σ0[k]? = some rk → NoViewUp σ0 k →
    memoGet memo k = none → MI σ0 σ memo k →
    deepcopyF fuel σ memo k cc true = .ok res → UpPost Hc σ0 σ memo k res

/-- an old copy that is not exposed stays unlisted -/
theorem unlisted_of_post {σ0 σ σ' : Store α} {memo : List (Nat × Nat)}
    (hold : ∀ a ra, a < σ.length → σ[a]? = some ra →
      ∃ ra', σ'[a]? = some ra' ∧ ra'.kids = ra.kids ∧ (ra' = ra ∨ Exposed σ0 memo a))
    (hnew : ∀ a ra, σ.length ≤ a → σ'[a]? = some ra → ∀ v ∈ ra.kids, σ.length ≤ v ∨ Exposed σ0 memo v)
    {v : Nat} (hv : v < σ.length) (hu : Unlisted σ v) (he : ¬ Exposed σ0 memo v) : Unlisted σ' v := by
  intro a ra hra hz
  by_cases hal : a < σ.length
  · obtain ⟨r0, hr0⟩ := get_some_of_lt hal
    obtain ⟨ra', hra', hk, _⟩ := hold a r0 hal hr0
    rw [hra] at hra'; cases hra'
    exact hu a r0 hr0 (hk ▸ hz)
  · rcases hnew a ra (by omega) hra v hz with h | h
    · omega
    · exact he h

/-- an exposed copy of the later memo that is old was exposed before -/
theorem exposed_back {σ0 σ σ' : Store α} {m m' : List (Nat × Nat)} (hs : AuxStep σ m σ' m') {v : Nat}
    (hv : v < σ.length) (h : Exposed σ0 m' v) : Exposed σ0 m v := by
  obtain ⟨z, w, rw, h1, h2, h3, h4, h5⟩ := h
  refine ⟨z, w, rw, ?_, h2, h3, h4, hs.none h5⟩
  rcases hs.2.2 z v h1 with h | h
  · exact h
  · omega

end FV
