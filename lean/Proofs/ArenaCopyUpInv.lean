/-
`upSpec_all`: `__deepcopy__(copy_parent=True)` keeps `Inv` also when the node has a parent that is not in
the memo (the upward whole-tree copy), and `deepcopy_inv_full`: every `deepcopy` / `copy.deepcopy` of a node
that is not a view keeps `Inv`.
-/
import Proofs.ArenaCopyUp
namespace FV
open Store
variable {α : Type} {Hc : Sym → Option String → Option String → List α → α}

/-- the leaf `__deepcopy__` allocates for the copy of `r` -/
@[reducible] def leafOf (r : NodeRec α) : NodeRec α :=
  { (freshRec r.sym r.sender r.recipient none r.readOnly false : NodeRec α) with sizeC := 1 }

/-- the state after `__deepcopy__` has allocated the copy `σ.length` of `k` and (with `copy_children`) has
copied and attached the children -/
structure AfterKids (Hc : Sym → Option String → Option String → List α → α) (σ0 σ : Store α)
    (memo : List (Nat × Nat)) (k : Nat) (rk : NodeRec α) (cc : Bool) (σ3 : Store α) (memo3 : List (Nat × Nat)) :
    Prop where
  inv : Inv Hc σ3
  aux : Aux σ0.length σ3 memo3
  step : AuxStep σ memo σ3 memo3
  len : σ.length < σ3.length
  old : ∀ a ra, a < σ.length → σ[a]? = some ra → ∃ ra', σ3[a]? = some ra' ∧ ra'.kids = ra.kids ∧
    (ra' = ra ∨ ∃ z ∈ rk.kids, memoGet memo z = some a) ∧
    (cc = true → (∃ z ∈ rk.kids, memoGet memo z = some a) → ra'.parent = some σ.length)
  newk : ∀ a ra, σ.length ≤ a → σ3[a]? = some ra → ∀ v ∈ ra.kids,
    σ.length < v ∨ (cc = true ∧ ∃ z ∈ rk.kids, memoGet memo z = some v)
  root : ∃ rc, σ3[σ.length]? = some rc ∧ rc.view = false ∧ rc.parent = none
  memoK : memoGet memo3 k = some σ.length
  memoN : ∀ y, memoGet memo3 y ≠ none →
    memoGet memo y ≠ none ∨ y = k ∨ (cc = true ∧ ∃ z ∈ rk.kids, Free σ0 memo z ∧ Reach σ0 z y)
  memoC : cc = true → ∀ z ∈ rk.kids, Free σ0 memo z → ∀ y, Reach σ0 z y → memoGet memo3 y ≠ none

theorem after_kids {σ0 σ : Store α} {memo : List (Nat × Nat)} {k fuel : Nat} {cc : Bool} {rk : NodeRec α}
    (hI0 : Inv Hc σ0) (hI : Inv Hc σ) (hag : AgreeBelow σ0.length σ0 σ) (hA : Aux σ0.length σ memo)
    (hrk : σ0[k]? = some rk) (hvk : rk.view = false) (hmk0 : memoGet memo k = none) (hM : MI σ0 σ memo k)
    (out : Store α × List (Nat × Nat))
    (e : (if cc = true then
          (match listM (kidStep (deepcopyF fuel)) (σ ++ [leafOf rk], (k, σ.length) :: memo) rk.kids with
           | .error e => .error e
           | .ok ((σ2, memo2), ks) =>
             match setChildren (fuel + 1) σ2 σ.length ks with
             | .error e => .error e
             | .ok σ3 => .ok (σ3, memo2))
         else (.ok (σ ++ [leafOf rk], (k, σ.length) :: memo) : Except AErr (Store α × List (Nat × Nat)))) = .ok out) :
    AfterKids Hc σ0 σ memo k rk cc out.1 out.2 := by
  have hklt : k < σ0.length := lt_of_get_some hrk
  obtain ⟨tk, htk⟩ := hI0.wf k hklt
  have hI1 : Inv Hc (σ ++ [leafOf rk]) :=
    (mkNode_inv (Hc := Hc) (fuel + 1) hI (kids := []) (fun c hc => by simp at hc)
      (mkNode_leaf_eq σ rk.sym rk.sender rk.recipient rk.readOnly fuel)).1
  have hag1 : AgreeBelow σ.length σ (σ ++ [leafOf rk]) := append_agree _ σ _ (Nat.le_refl _)
  have hlen1 : (σ ++ [leafOf rk]).length = σ.length + 1 := by simp
  obtain ⟨hA1, hS1⟩ := aux_alloc hA hmk0 (leafOf rk) rfl
  have hknk : ∀ z ∈ rk.kids, k ≠ z := fun z hz hkz =>
    not_reach_of_kid hrk hz htk (hkz ▸ Reach.refl k)
  have hroot1 : (σ ++ [leafOf rk])[σ.length]? = some (leafOf rk) := get_append_new σ _
  split at e
  · rename_i hcc
    split at e
    · cases e
    · rename_i σ2 memo2 ks e2
      split at e
      · cases e
      · rename_i σ3 e3
        cases e
        have hmemo1 : ∀ y, k ≠ y → memoGet ((k, σ.length) :: memo) y = memoGet memo y := fun y hky => by
          rw [memoGet_cons, if_neg hky]
        have hfree1 : ∀ z ∈ rk.kids, Free σ0 memo z → Free σ0 ((k, σ.length) :: memo) z := fun z hz hf y hy => by
          rw [hmemo1 y (fun hky => not_reach_of_kid hrk hz htk (hky ▸ hy))]
          exact hf y hy
        have hfree1' : ∀ z, Free σ0 ((k, σ.length) :: memo) z → Free σ0 memo z := fun z hf y hy =>
          hS1.none (hf y hy)
        -- every child is untouched so far, or its copy waits in the memo
        have hst : ∀ z ∈ rk.kids, Free σ0 ((k, σ.length) :: memo) z ∨
            (∃ v, memoGet ((k, σ.length) :: memo) z = some v ∧ Good (σ ++ [leafOf rk]) σ.length v) := by
          intro z hz
          by_cases hfz : Free σ0 memo z
          · exact .inl (hfree1 z hz hfz)
          · right
            obtain ⟨rz, hrz, hpz, hvz⟩ := hI0.par k rk z hrk hvk hz
            have hex : ∃ y, Reach σ0 z y ∧ memoGet memo y ≠ none := by
              apply Classical.byContradiction
              intro hne
              apply hfz
              intro y hy
              cases hm : memoGet memo y with
              | none => rfl
              | some w => exact absurd ⟨y, hy, by rw [hm]; simp⟩ hne
            obtain ⟨y, hzy, hmy⟩ := hex
            have hmz : memoGet memo z ≠ none := by
              rcases hM.anc y hmy z rz hrz hvz hzy with h | h
              · exact h
              · exact absurd h (not_reach_of_kid hrk hz htk)
            cases hv : memoGet memo z with
            | none => exact absurd hv hmz
            | some v =>
              have hvb := hA.bound z v hv
              have hun : Unlisted σ v := by
                rcases hM.unl z v hv with h | h
                · exact h
                · exact absurd hmk0 (h k rk hrk hvk hz)
              obtain ⟨rv, hrv⟩ := get_some_of_lt hvb.2
              refine ⟨v, by rw [hmemo1 z (hknk z hz)]; exact hv, by omega, rv, ?_, hA.nv v rv hvb.1 hrv,
                unlisted_append_leaf hun _ rfl⟩
              rw [get_append_old _ hvb.2]; exact hrv
        obtain ⟨hI2, hag2, hnk2, hgood, hfrom, hmk2, hmo2, hcov2, hmono2, hall2⟩ :=
          copy_kids (c1 := σ.length) hI0 hrk hvk (copySpec_all hI0 fuel) rk.kids _ _ _ hI1
            (hag.trans (hag1.mono (by have := hag.1; omega))) (by rw [hlen1]; omega)
            (by rw [memoGet_cons, if_pos rfl]) (fun z hz => hz) hst e2
        obtain ⟨b1, b2⟩ := listM_aux (n := σ0.length) (fun σa ma k' rr h1 hh => by
          unfold kidStep at hh
          split at hh
          · cases hh
          · rename_i σx mx kx ex
            cases hh
            obtain ⟨x1, x2, _⟩ := deepcopyF_aux fuel σa ma k' true true _ h1 ex
            exact ⟨x1, x2⟩) rk.kids _ _ _ hA1 e2
        have hl2 : σ.length + 1 ≤ σ2.length := by
          have h21 := hag2.1
          rw [hlen1] at h21
          exact h21
        have hX2 : σ2[σ.length]? = some (leafOf rk) := by
          rw [hag2.2 σ.length (by rw [hlen1]; omega)]; exact hroot1
        have hnotin : σ.length ∉ ks := fun hm => (hgood _ hm).1 rfl
        obtain ⟨g1, ⟨rc', g2, g3, g4, g5⟩, g6, g7⟩ := setChildren_root_get hX2 rfl hnotin fuel e3
        have hI3 : Inv Hc σ3 := by
          refine setChildren_pre' (fuel + 1) (hI2.pre _) ⟨_, hX2, rfl, fun v hv => .inr ?_⟩ e3
          obtain ⟨hne, rv, hrv, hvv, huv⟩ := hgood v hv
          refine ⟨rv, hrv, hvv, fun a ra hra _ hc => absurd hc (huv a ra hra), fun hup => ?_⟩
          cases hup with
          | refl => exact hne rfl
          | step hr hp _ => rw [hX2] at hr; cases hr; simp [freshRec] at hp
        -- where the listed copies come from
        have hks : ∀ v ∈ ks, σ.length < v ∨ ∃ z ∈ rk.kids, memoGet memo z = some v := by
          intro v hv
          rcases hfrom v hv with h | ⟨z, hz, hm⟩
          · rw [hlen1] at h; exact .inl (by omega)
          · rw [hmemo1 z (hknk z hz)] at hm; exact .inr ⟨z, hz, hm⟩
        have hks' : ∀ z ∈ rk.kids, ∀ v, memoGet memo z = some v → v ∈ ks := by
          intro z hz v hm
          obtain ⟨v', hv', hm'⟩ := hall2 z hz
          rw [hmono2 z v (hS1.2.1 z v hm)] at hm'
          cases hm'
          exact hv'
        have hS3 : AuxStep σ memo σ3 memo2 := hS1.trans ⟨by rw [g1]; exact b2.1, b2.2.1, b2.2.2⟩
        refine ⟨hI3, b1.setChildren e3, hS3, by rw [g1]; omega, ?_, ?_, ⟨rc', g2, g5, g4⟩, hmk2, ?_, ?_⟩
        · -- old records
          intro a ra ha hra
          have h2a : σ2[a]? = some ra := by
            rw [hag2.2 a (by rw [hlen1]; omega), hag1.2 a ha]; exact hra
          by_cases hak : a ∈ ks
          · obtain ⟨ra', hra', hk', hp', _⟩ := g7 a ra hak h2a
            have hz : ∃ z ∈ rk.kids, memoGet memo z = some a := by
              rcases hks a hak with h | h
              · omega
              · exact h
            exact ⟨ra', hra', hk', .inr hz, fun _ _ => hp'⟩
          · refine ⟨ra, by rw [g6 a (by omega) hak]; exact h2a, rfl, .inl rfl, fun _ hz => ?_⟩
            -- a memo'd copy of a child is in `ks`: contradiction
            obtain ⟨z, hz, hm⟩ := hz
            exact absurd (hks' z hz a hm) hak
        · -- new records
          intro a ra ha hra v hv
          by_cases hac : a = σ.length
          · subst hac
            rw [g2] at hra; cases hra
            rw [g3] at hv
            rcases hks v hv with h | h
            · exact .inl h
            · exact .inr ⟨hcc, h⟩
          · have ha1 : (σ ++ [leafOf rk]).length ≤ a := by rw [hlen1]; omega
            left
            by_cases hak : a ∈ ks
            · obtain ⟨_, rv, hrv, _⟩ := hgood a hak
              obtain ⟨ra', hra', hk', _⟩ := g7 a rv hak hrv
              rw [hra] at hra'; cases hra'
              have := hnk2 a rv ha1 hrv v (hk' ▸ hv)
              rw [hlen1] at this; omega
            · rw [g6 a hac hak] at hra
              have := hnk2 a ra ha1 hra v hv
              rw [hlen1] at this; omega
        · -- new memo entries
          intro y hy
          by_cases hex : ∃ z ∈ rk.kids, Free σ0 ((k, σ.length) :: memo) z ∧ Reach σ0 z y
          · obtain ⟨z, hz, hf, hzy⟩ := hex
            exact .inr (.inr ⟨hcc, z, hz, hfree1' z hf, hzy⟩)
          · rw [hmo2 y (fun z hz hf hzy => hex ⟨z, hz, hf, hzy⟩), memoGet_cons] at hy
            by_cases hky : k = y
            · exact .inr (.inl hky.symm)
            · rw [if_neg hky] at hy; exact .inl hy
        · intro _ z hz hf y hy
          exact hcov2 z hz (hfree1 z hz hf) y hy
  · rename_i hcc
    cases e
    refine ⟨hI1, hA1, hS1, by rw [hlen1]; omega, ?_, ?_, ⟨leafOf rk, hroot1, rfl, rfl⟩,
      by rw [memoGet_cons, if_pos rfl], ?_, fun h => absurd h hcc⟩
    · intro a ra ha hra
      exact ⟨ra, by rw [hag1.2 a ha]; exact hra, rfl, .inl rfl, fun h => absurd h hcc⟩
    · intro a ra ha hra v hv
      rcases lt_or_eq_of_get_append hra with ⟨hlt, _⟩ | ⟨_, hx⟩
      · omega
      · subst hx; simp [freshRec] at hv
    · intro y hy
      rw [memoGet_cons] at hy
      by_cases hky : k = y
      · exact .inr (.inl hky.symm)
      · rw [if_neg hky] at hy; exact .inl hy

namespace AfterKids
variable {σ0 σ σ3 : Store α} {memo memo3 : List (Nat × Nat)} {k : Nat} {rk : NodeRec α} {cc : Bool}

/-- the new copy is listed by nobody yet -/
theorem unl_root (h : AfterKids Hc σ0 σ memo k rk cc σ3 memo3) (hI : Inv Hc σ) (hA : Aux σ0.length σ memo) :
    Unlisted σ3 σ.length := by
  intro a ra hra hz
  by_cases hal : a < σ.length
  · obtain ⟨r0, hr0⟩ := get_some_of_lt hal
    obtain ⟨ra', hra', hk, _⟩ := h.old a r0 hal hr0
    rw [hra] at hra'; cases hra'
    have := kid_lt hI hr0 (hk ▸ hz); omega
  · rcases h.newk a ra (by omega) hra _ hz with h1 | ⟨_, z, _, hm⟩
    · omega
    · have := (hA.bound z _ hm).2; omega

/-- an older unlisted node stays unlisted, or it is the copy of a child and has just been attached -/
theorem unl_or_par (h : AfterKids Hc σ0 σ memo k rk cc σ3 memo3) {v : Nat} (hv : v < σ.length)
    (hu : Unlisted σ v) :
    Unlisted σ3 v ∨ (cc = true ∧ (∃ z ∈ rk.kids, memoGet memo z = some v) ∧
      ∃ r, σ3[v]? = some r ∧ r.parent = some σ.length) := by
  by_cases hex : cc = true ∧ ∃ z ∈ rk.kids, memoGet memo z = some v
  · right
    obtain ⟨r0, hr0⟩ := get_some_of_lt hv
    obtain ⟨ra', hra', _, _, hp⟩ := h.old v r0 hv hr0
    exact ⟨hex.1, hex.2, ra', hra', hp hex.1 hex.2⟩
  · left
    intro a ra hra hz
    by_cases hal : a < σ.length
    · obtain ⟨r0, hr0⟩ := get_some_of_lt hal
      obtain ⟨ra', hra', hk, _⟩ := h.old a r0 hal hr0
      rw [hra] at hra'; cases hra'
      exact hu a r0 hr0 (hk ▸ hz)
    · rcases h.newk a ra (by omega) hra v hz with h1 | h1
      · omega
      · exact hex h1

end AfterKids

/-- `x with parent := some c` is `x` when that is its parent already -/
theorem rec_parent_id {r : NodeRec α} {c : Nat} (h : r.parent = some c) :
    ({ r with parent := some c } : NodeRec α) = r := by
  cases r
  simp only at h
  subst h
  rfl

/-- the memo invariant for the call on the parent `x` of `k`, after `k` (and its children) have been copied -/
theorem mi_up {σ0 σ σ3 : Store α} {memo memo3 : List (Nat × Nat)} {k x : Nat} {rk : NodeRec α} {cc : Bool}
    (hI0 : Inv Hc σ0) (hI : Inv Hc σ) (hA : Aux σ0.length σ memo) (hrk : σ0[k]? = some rk)
    (hvk : rk.view = false) (hM : MI σ0 σ memo k) (h : AfterKids Hc σ0 σ memo k rk cc σ3 memo3)
    (hpx : rk.parent = some x) : MI σ0 σ3 memo3 x := by
  have mono_ne : ∀ y, memoGet memo y ≠ none → memoGet memo3 y ≠ none := by
    intro y hy
    cases hm : memoGet memo y with
    | none => exact absurd hm hy
    | some w => rw [h.step.2.1 y w hm]; simp
  have hk3 : memoGet memo3 k ≠ none := by rw [h.memoK]; simp
  have above_k : ∀ a ra, σ0[a]? = some ra → ra.view = false → Reach σ0 a k →
      memoGet memo3 a ≠ none ∨ Reach σ0 a x := by
    intro a ra hra hva hak
    by_cases hne : a = k
    · subst hne; exact .inl hk3
    · obtain ⟨x', hx', hax'⟩ := reach_parent hI0 hra hva hrk hak hne
      rw [hpx] at hx'; cases hx'
      exact .inr hax'
  have lister_k : ∀ z ∈ rk.kids, ∀ w rw, σ0[w]? = some rw → rw.view = false → z ∈ rw.kids → w = k := by
    intro z hz w rw hrw hvw hzw
    obtain ⟨rz, hrz, hpz, _⟩ := hI0.par k rk z hrk hvk hz
    obtain ⟨rz', hrz', hpz', _⟩ := hI0.par w rw z hrw hvw hzw
    rw [hrz] at hrz'; cases hrz'
    rw [hpz] at hpz'; cases hpz'; rfl
  constructor
  · intro y hy a ra hra hva hay
    rcases h.memoN y hy with h1 | h1 | ⟨hcc, z, hz, hf, hzy⟩
    · rcases hM.anc y h1 a ra hra hva hay with h2 | h2
      · exact .inl (mono_ne a h2)
      · exact above_k a ra hra hva h2
    · subst h1; exact above_k a ra hra hva hay
    · obtain ⟨rz, hrz, hpz, hvz⟩ := hI0.par k rk z hrk hvk hz
      rcases reach_linear hI0 hra hva hrz hvz hay hzy with h2 | h2
      · by_cases haz : a = z
        · subst haz; exact .inl (h.memoC hcc a hz hf a (.refl a))
        · obtain ⟨x', hx', hax'⟩ := reach_parent hI0 hra hva hrz h2 haz
          rw [hpz] at hx'; cases hx'
          exact above_k a ra hra hva hax'
      · exact .inl (h.memoC hcc z hz hf a h2)
  · intro z v hzv
    cases hmz : memoGet memo z with
    | some v0 =>
      have : v0 = v := by
        have := h.step.2.1 z v0 hmz
        rw [hzv] at this; cases this; rfl
      subst this
      rcases hM.unl z v0 hmz with h1 | h1
      · rcases h.unl_or_par (hA.bound z v0 hmz).2 h1 with h2 | ⟨_, ⟨z', hz', hm'⟩, _⟩
        · exact .inl h2
        · right
          have hzz : z' = z := hA.inj z' z v0 hm' hmz
          subst hzz
          intro w rw hrw hvw hzw
          rw [lister_k z' hz' w rw hrw hvw hzw]; exact hk3
      · exact .inr (fun w rw a b c => mono_ne w (h1 w rw a b c))
    | none =>
      rcases h.memoN z (by rw [hzv]; simp) with h1 | h1 | ⟨hcc, z0, hz0, hf, hz0z⟩
      · exact absurd hmz h1
      · subst h1
        rw [h.memoK] at hzv; cases hzv
        exact .inl (h.unl_root hI hA)
      · right
        intro w rw hrw hvw hzw
        by_cases hzz : z0 = z
        · subst hzz
          rw [lister_k z0 hz0 w rw hrw hvw hzw]; exact hk3
        · obtain ⟨rz0, hrz0, _, hvz0⟩ := hI0.par k rk z0 hrk hvk hz0
          obtain ⟨m, rm, hm1, hm2, hm3, hm4⟩ := hz0z.last_lister hI0.par hzz rz0 hrz0 hvz0
          obtain ⟨rz, hrz, hpz, _⟩ := hI0.par m rm z hm2 hm3 hm4
          obtain ⟨rz', hrz', hpz', _⟩ := hI0.par w rw z hrw hvw hzw
          rw [hrz] at hrz'; cases hrz'
          have hmw : m = w := Option.some.inj (hpz.symm.trans hpz')
          rw [← hmw]
          exact h.memoC hcc z0 hz0 hf m hm1

/-- the call ends by setting `copied._parent` to nothing or to a node the memo answered with -/
theorem up_finish {σ0 σ σ3 : Store α} {memo memo3 : List (Nat × Nat)} {k : Nat} {rk : NodeRec α} {cc : Bool}
    (hI : Inv Hc σ) (hA : Aux σ0.length σ memo) (hrk : σ0[k]? = some rk) (hvk : rk.view = false)
    (hmk0 : memoGet memo k = none) (h : AfterKids Hc σ0 σ memo k rk cc σ3 memo3) (par : Option Nat)
    (hp : ∀ q, par = some q → q < σ3.length) :
    UpPost Hc σ0 σ memo k (upd σ3 σ.length (fun x => { x with parent := par }), memo3, σ.length) := by
  have hI5 : Inv Hc (upd σ3 σ.length (fun x => { x with parent := par })) :=
    inv_set_parent h.inv (h.unl_root hI hA) hp
  refine ⟨hI5, rfl, ?_, ?_, ?_⟩
  · intro a ra ha hra
    obtain ⟨ra3, hra3, hk3, hor3, _⟩ := h.old a ra ha hra
    obtain ⟨ra5, hra5, hk5, he5⟩ := upd_parent_fwd (c := σ.length) par hra3
    refine ⟨ra5, hra5, hk5.trans hk3, ?_⟩
    rcases hor3 with h3 | ⟨z, hz, hm⟩
    · exact .inl ((he5 (by omega)).trans h3)
    · exact .inr ⟨z, k, rk, hm, hrk, hvk, hz, hmk0⟩
  · intro a ra ha hra v hv
    obtain ⟨r3, hr3, hk, _, _⟩ := upd_parent_back hra
    rcases h.newk a r3 ha hr3 v (hk ▸ hv) with h1 | ⟨_, z, hz, hm⟩
    · exact .inl (by omega)
    · exact .inr ⟨z, k, rk, hm, hrk, hvk, hz, hmk0⟩
  · intro j cj rj hrj hpj hmj huj
    have hcj := (hA.bound j cj hmj).2
    rcases h.unl_or_par hcj huj with h3 | ⟨_, _, r, hr, hpr⟩
    · exact inv_set_parent hI5 (unlisted_upd_parent h3)
        (fun q hq => by cases hq; rw [upd_length]; exact h.len)
    · have : (upd σ3 σ.length (fun x => { x with parent := par }))[cj]? = some r := by
        rw [upd_get_ne _ _ (by omega)]; exact hr
      rw [upd_id this (rec_parent_id hpr)]
      exact hI5

/-- **the upward whole-tree copy keeps the invariant** -/
theorem upSpec_all {σ0 : Store α} (hI0 : Inv Hc σ0) : ∀ fuel, UpSpec Hc σ0 fuel
  | 0 => by
    intro σ memo k cc rk res _ _ _ _ _ _ _ h
    simp [deepcopyF] at h
  | fuel + 1 => by
    intro σ memo k cc rk res hI hag hA hrk hNV hmk0 hM h
    have hvk : rk.view = false := by
      obtain ⟨rk', hrk', hv⟩ := hNV k (.refl k)
      rw [hrk] at hrk'; cases hrk'; exact hv
    have hσk : σ[k]? = some rk := by rw [hag.2 k (lt_of_get_some hrk)]; exact hrk
    simp only [deepcopyF, hmk0, hσk] at h
    rw [mkNode_leaf_eq] at h
    simp only [] at h
    split at h
    · cases h
    · rename_i σ3 memo3 e3
      have hK : AfterKids Hc σ0 σ memo k rk cc σ3 memo3 :=
        after_kids hI0 hI hag hA hrk hvk hmk0 hM (σ3, memo3) e3
      simp only [if_true] at h
      split at h
      · cases h
        exact up_finish hI hA hrk hvk hmk0 hK none (fun q hq => by cases hq)
      · rename_i x hpx
        split at h
        · cases h
        · rename_i σ4 memo4 x' e4
          cases h
          cases hmx : memoGet memo3 x with
          | some q =>
            cases fuel with
            | zero => simp [deepcopyF] at e4
            | succ f =>
              have hq := (hK.aux.bound x q hmx).2
              simp only [deepcopyF, hmx] at e4
              cases e4
              exact up_finish hI hA hrk hvk hmk0 hK (some _)
                (fun q' hq' => by cases hq'; exact hq)
          | none =>
            have hM3 := mi_up hI0 hI hA hrk hvk hM hK hpx
            have hNVx : NoViewUp σ0 x := hNV.parent hrk hpx
            obtain ⟨rx, hrx, _⟩ := hNVx x (.refl x)
            have hag3 : AgreeBelow σ0.length σ0 σ3 := by
              refine ⟨Nat.le_trans hag.1 (Nat.le_of_lt hK.len), fun a ha => ?_⟩
              obtain ⟨r0, hr0⟩ := get_some_of_lt ha
              have hσa : σ[a]? = some r0 := by rw [hag.2 a ha]; exact hr0
              obtain ⟨ra', hra', _, hor, _⟩ := hK.old a r0 (Nat.lt_of_lt_of_le ha hag.1) hσa
              rcases hor with h1 | ⟨z, _, hm⟩
              · rw [hra', h1, hr0]
              · have := (hA.bound z a hm).1; omega
            have post := upSpec_all hI0 fuel σ3 memo3 x true rx _ hK.inv hag3 hK.aux hrx hNVx hmx hM3 e4
            have hx' : x' = σ3.length := post.cnew
            subst hx'
            have hstep4 := (deepcopyF_aux fuel σ3 memo3 x true true _ hK.aux e4).2.1
            have hI5 : Inv Hc (upd σ4 σ.length (fun x => { x with parent := some σ3.length })) :=
              post.pend k σ.length rk hrk hpx hK.memoK (hK.unl_root hI hA)
            refine ⟨hI5, rfl, ?_, ?_, ?_⟩
            · intro a ra ha hra
              obtain ⟨ra3, hra3, hk3, hor3, _⟩ := hK.old a ra ha hra
              obtain ⟨ra4, hra4, hk4, hor4⟩ := post.old a ra3 (Nat.lt_trans ha hK.len) hra3
              obtain ⟨ra5, hra5, hk5, he5⟩ := upd_parent_fwd (c := σ.length) (some σ3.length) hra4
              refine ⟨ra5, hra5, (hk5.trans hk4).trans hk3, ?_⟩
              rcases hor4 with h4 | h4
              · rcases hor3 with h3 | ⟨z, hz, hm⟩
                · exact .inl (((he5 (by omega)).trans h4).trans h3)
                · exact .inr ⟨z, k, rk, hm, hrk, hvk, hz, hmk0⟩
              · exact .inr (exposed_back hK.step ha h4)
            · intro a ra ha hra v hv
              obtain ⟨r4, hr4, hk, _, _⟩ := upd_parent_back hra
              have hv' : v ∈ r4.kids := hk ▸ hv
              by_cases hal : a < σ3.length
              · obtain ⟨r3, hr3⟩ := get_some_of_lt hal
                obtain ⟨ra4, hra4, hk4, _⟩ := post.old a r3 hal hr3
                rw [hr4] at hra4; cases hra4
                rcases hK.newk a r3 ha hr3 v (hk4 ▸ hv') with h1 | ⟨_, z, hz, hm⟩
                · exact .inl (by omega)
                · exact .inr ⟨z, k, rk, hm, hrk, hvk, hz, hmk0⟩
              · rcases post.newk a r4 (by omega) hr4 v hv' with h1 | h1
                · exact .inl (by have := hK.len; omega)
                · by_cases hvl : v < σ.length
                  · exact .inr (exposed_back hK.step hvl h1)
                  · exact .inl (by omega)
            · intro j cj rj hrj hpj hmj huj
              have hcj := (hA.bound j cj hmj).2
              have hmj3 : memoGet memo3 j = some cj := hK.step.2.1 j cj hmj
              have hne3 : ¬ Exposed σ0 memo3 cj := by
                rintro ⟨z, w, rw, h1, h2, h3, h4, h5⟩
                have hzj : z = j := hK.aux.inj z j cj h1 hmj3
                subst hzj
                obtain ⟨rj', hrj', hpj', _⟩ := hI0.par w rw z h2 h3 h4
                rw [hrj] at hrj'; cases hrj'
                rw [hpj] at hpj'; cases hpj'
                rw [hK.memoK] at h5; cases h5
              rcases hK.unl_or_par hcj huj with h3 | ⟨_, _, r, hr, hpr⟩
              · have hu4 : Unlisted σ4 cj :=
                  unlisted_of_post post.old post.newk (Nat.lt_trans hcj hK.len) h3 hne3
                exact inv_set_parent hI5 (unlisted_upd_parent hu4)
                  (fun q hq => by
                    cases hq; rw [upd_length]
                    exact Nat.lt_of_lt_of_le hK.len hstep4.1)
              · obtain ⟨r4, hr4, _, hor⟩ := post.old cj r (Nat.lt_trans hcj hK.len) hr
                have hr4' : σ4[cj]? = some r := by
                  rcases hor with h1 | h1
                  · rw [hr4, h1]
                  · exact absurd h1 hne3
                have : (upd σ4 σ.length (fun x => { x with parent := some σ3.length }))[cj]? = some r := by
                  rw [upd_get_ne _ _ (by omega)]; exact hr4'
                rw [upd_id this (rec_parent_id hpr)]
                exact hI5

end FV
