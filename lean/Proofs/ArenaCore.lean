/-
`Inv` preservation for the mutating core of the API: setters, `add_child`, `set_children`, constructor.
-/
import Proofs.ArenaAttach
namespace FV
open Store
variable {α : Type} {Hc : Sym → Option String → Option String → List α → α}

theorem upd_congr {σ : Store α} {i : Nat} {r : NodeRec α} {f g : NodeRec α → NodeRec α}
    (hr : σ[i]? = some r) (h : f r = g r) : upd σ i f = upd σ i g := by
  unfold upd; rw [hr]; simp [h]

theorem invalidate_dangling {σ : Store α} {i : Nat} (h : σ[i]? = none) (fuel : Nat) (σ' : Store α) :
    invalidate fuel σ i ≠ .ok σ' := by
  cases fuel with
  | zero => simp [invalidate]
  | succ n => simp [invalidate, h]

/-! ### setters -/

/-- a record update that touches only symbol / sender / recipient -/
def FieldOnly (f : NodeRec α → NodeRec α) : Prop :=
  ∀ r, (f r).kids = r.kids ∧ (f r).parent = r.parent ∧ (f r).view = r.view

theorem pre_upd_field {σ : Store α} {i : Nat} {ri : NodeRec α} {f : NodeRec α → NodeRec α}
    (hp : Pre Hc σ i) (hri : σ[i]? = some ri) (hf : FieldOnly f) : Pre Hc (upd σ i f) i := by
  obtain ⟨ti, hti⟩ := hp.wf i (lt_of_get_some hri)
  have hget : ∀ a, (upd σ i f)[a]? = (σ[a]?).map (fun r => if a = i then f r else r) := by
    intro a; rw [upd_get]; by_cases h : a = i <;> cases σ[a]? <;> simp [h]
  refine pre_of_mut hp (upd_length _ _ _) ?_ (by rw [upd_get_self, hri]; rfl) ?_ ?_ ?_
  · intro a r hai hr
    exact ⟨r, by rw [upd_get_ne _ _ hai]; exact hr, SameCore.rfl' r, rfl, rfl, rfl⟩
  · intro k hk
    rw [(hf ri).1] at hk
    cases ti with
    | mk s x y ts =>
      have h := hti
      simp only [Abs] at h
      obtain ⟨rec, h1, _, _, _, h5⟩ := h
      rw [hri] at h1; cases h1
      obtain ⟨tk, _, hak⟩ := AbsL.mem _ _ h5 k hk
      cases tk with
      | mk _ _ _ _ =>
        simp only [Abs] at hak
        obtain ⟨rk, hrk, _⟩ := hak
        exact ⟨lt_of_get_some hrk, not_reach_of_kid hri hk hti⟩
  · intro a r q hr hq
    rw [upd_length]
    rw [hget] at hr
    cases hra : σ[a]? with
    | none => rw [hra] at hr; simp at hr
    | some ra =>
      rw [hra] at hr; simp only [Option.map_some, Option.some.injEq] at hr
      subst hr
      by_cases hai : a = i
      · simp only [hai, if_true] at hq
        rw [(hf ra).2.1] at hq
        exact hp.parIn a ra q hra hq
      · simp only [hai, if_false] at hq
        exact hp.parIn a ra q hra hq
  · intro a r c hr hv hc
    rw [hget] at hr
    cases hra : σ[a]? with
    | none => rw [hra] at hr; simp at hr
    | some ra =>
      rw [hra] at hr; simp only [Option.map_some, Option.some.injEq] at hr
      subst hr
      have hv' : ra.view = false := by
        by_cases hai : a = i
        · simp only [hai, if_true] at hv; rw [(hf ra).2.2] at hv; exact hv
        · simpa [hai] using hv
      have hc' : c ∈ ra.kids := by
        by_cases hai : a = i
        · simp only [hai, if_true] at hc; rw [(hf ra).1] at hc; exact hc
        · simpa [hai] using hc
      obtain ⟨rc, hrc, hpc, hvc⟩ := hp.par a ra c hra hv' hc'
      refine ⟨if c = i then f rc else rc, by rw [hget, hrc]; rfl, ?_, ?_⟩
      · by_cases hci : c = i
        · simp only [hci, if_true]; rw [(hf rc).2.1]; exact hpc
        · simpa [hci] using hpc
      · by_cases hci : c = i
        · simp only [hci, if_true]; rw [(hf rc).2.2]; exact hvc
        · simpa [hci] using hvc

theorem setField_inv {σ σ' : Store α} {i : Nat} {f : NodeRec α → NodeRec α} (fuel : Nat)
    (hI : Inv Hc σ) (hf : FieldOnly f) (h : invalidate fuel (upd σ i f) i = .ok σ') : Inv Hc σ' := by
  cases hri : σ[i]? with
  | none =>
    have : (upd σ i f)[i]? = none := by rw [upd_get_self, hri]; rfl
    exact absurd h (invalidate_dangling this fuel σ')
  | some ri => exact (invalidate_inv fuel _ i σ' (pre_upd_field (hI.pre i) hri hf) h).1

theorem setSym_inv {σ σ' : Store α} {i : Nat} {s : Sym} (fuel : Nat) (hI : Inv Hc σ)
    (h : setSym fuel σ i s = .ok σ') : Inv Hc σ' :=
  setField_inv (f := fun r => { r with sym := s }) fuel hI (fun _ => ⟨rfl, rfl, rfl⟩) h

theorem setSender_inv {σ σ' : Store α} {i : Nat} {s : Option String} (fuel : Nat) (hI : Inv Hc σ)
    (h : setSender fuel σ i s = .ok σ') : Inv Hc σ' :=
  setField_inv (f := fun r => { r with sender := s }) fuel hI (fun _ => ⟨rfl, rfl, rfl⟩) h

theorem setRecipient_inv {σ σ' : Store α} {i : Nat} {s : Option String} (fuel : Nat) (hI : Inv Hc σ)
    (h : setRecipient fuel σ i s = .ok σ') : Inv Hc σ' :=
  setField_inv (f := fun r => { r with recipient := s }) fuel hI (fun _ => ⟨rfl, rfl, rfl⟩) h

/-! ### `add_child`, `set_children` -/

/-- every element of `cs` is one of `p`'s own children or a detached root -/
def OwnOrDetached (σ : Store α) (p : Nat) (cs : List Nat) : Prop :=
  ∃ rp, σ[p]? = some rp ∧ rp.view = false ∧ ∀ c ∈ cs, c ∈ rp.kids ∨ Detached σ p c

/-- every element of `cs` is one of `p`'s own children or attachable (`Loose`) -/
def OwnOrLoose (σ : Store α) (p : Nat) (cs : List Nat) : Prop :=
  ∃ rp, σ[p]? = some rp ∧ rp.view = false ∧ ∀ c ∈ cs, c ∈ rp.kids ∨ Loose σ p c

theorem setChildren_pre' {σ σ' : Store α} {p : Nat} {cs : List Nat} (fuel : Nat) (hp : Pre Hc σ p)
    (hd : OwnOrLoose σ p cs) (h : setChildren fuel σ p cs = .ok σ') : Inv Hc σ' := by
  obtain ⟨rp, hrp, hvp, hcs⟩ := hd
  refine (invalidate_inv fuel _ p σ' ?_ h).1
  exact pre_attach (ks := cs) (cs := cs) hp hrp hvp (fun c hc => hc) (fun k hk => by
    rcases hcs k hk with h | h
    · exact .inl h
    · exact .inr ⟨hk, h⟩)

theorem setChildren_pre {σ σ' : Store α} {p : Nat} {cs : List Nat} (fuel : Nat) (hp : Pre Hc σ p)
    (hd : OwnOrDetached σ p cs) (h : setChildren fuel σ p cs = .ok σ') : Inv Hc σ' := by
  obtain ⟨rp, hrp, hvp, hcs⟩ := hd
  exact setChildren_pre' fuel hp ⟨rp, hrp, hvp, fun c hc => (hcs c hc).imp id (Detached.loose hp.par)⟩ h

theorem setChildren_inv {σ σ' : Store α} {p : Nat} {cs : List Nat} (fuel : Nat) (hI : Inv Hc σ)
    (hd : OwnOrDetached σ p cs) (h : setChildren fuel σ p cs = .ok σ') : Inv Hc σ' :=
  setChildren_pre fuel (hI.pre p) hd h

theorem addChild_inv {σ σ' : Store α} {p c : Nat} {rp : NodeRec α} (fuel : Nat) (hI : Inv Hc σ)
    (hrp : σ[p]? = some rp) (hvp : rp.view = false) (hd : Detached σ p c)
    (h : addChild fuel σ p c = .ok σ') : Inv Hc σ' := by
  refine (invalidate_inv fuel _ p σ' ?_ h).1
  have : upd (upd σ p (fun r => { r with kids := r.kids ++ [c] })) c (fun r => { r with parent := some p })
      = attachRaw σ p (rp.kids ++ [c]) [c] := by
    unfold attachRaw
    rw [upd_congr (g := fun r => { r with kids := rp.kids ++ [c] }) hrp rfl]
    rfl
  rw [this]
  exact pre_attach (hI.pre p) hrp hvp (fun x hx => by simp at hx; simp [hx]) (fun k hk => by
    rcases List.mem_append.mp hk with h | h
    · exact .inl h
    · simp at h; subst h; exact .inr ⟨by simp, hd.loose hI.par⟩)

end FV
