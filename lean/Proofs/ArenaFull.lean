/-
The full discipline (`Op.okFull`): every operation of the language, including `split_end`, `prefix` and
`deepcopy` with any flags, keeps `Inv`; histories.
-/
import Proofs.ArenaHist
import Proofs.ArenaSplit
namespace FV
open Store
variable {α : Type} {Hc : Sym → Option String → Option String → List α → α}

/-- The full discipline: as `Op.ok`, and `deepcopy` (any flags), `split_end`, `prefix` (any flag) are applied
to a node that is not a view; when the operation walks up the parent chain (`copy_parent=True`, `split_end`,
`prefix`) no node on that chain is a view (`NoViewUp`; `NoViewUp σ i` contains "`i` is not a view").  In
histories that respect the discipline no parent link ever points to a view (`ParNV`, Proofs/ArenaNVP.lean),
so there the second condition follows from the first. -/
def Op.okFull (σ : Store α) : Op → Prop
  | .deepcopy i _ cp => (∃ r, σ[i]? = some r ∧ r.view = false) ∧ (cp = true → NoViewUp σ i)
  | .splitEnd i _ | .prefix i _ => NoViewUp σ i
  | op => Op.ok σ op

/-- `Op.ok` is the special case -/
theorem Op.ok.full {σ : Store α} (hI : Inv Hc σ) {op : Op} (h : Op.ok σ op) : Op.okFull σ op := by
  cases op <;> try exact h
  · rename_i i cc cp
    obtain ⟨r, hr, hv, hcp⟩ := h
    refine ⟨⟨r, hr, hv⟩, fun hc => ?_⟩
    rcases hcp with h1 | h1
    · rw [h1] at hc; cases hc
    · intro a ha
      cases ha with
      | refl => exact ⟨r, hr, hv⟩
      | step hr' hp _ => rw [hr] at hr'; cases hr'; rw [h1] at hp; cases hp
  · exact absurd h id
  · exact absurd h id

/-- **one operation of the full discipline keeps the invariant** -/
theorem step_inv_full [DecidableEq α] {σ : Store α} (fuel : Nat) (hI : Inv Hc σ) (op : Op)
    (hok : Op.okFull σ op) : Inv Hc (step Hc fuel σ op).1 := by
  cases op with
  | deepcopy i cc cp =>
    obtain ⟨⟨r, hr, hv⟩, hNV⟩ := hok
    simp only [step, liftN]
    split
    · exact hI
    · rename_i σ' n e
      exact (deepcopy_inv_full fuel hI hr hv hNV e).1
  | splitEnd i c =>
    simp only [step, liftN]
    split
    · exact hI
    · rename_i σ' n e
      exact (splitEnd_inv fuel hI hok e).1
  | «prefix» i c =>
    simp only [step, liftN]
    split
    · exact hI
    · rename_i σ' n e
      exact prefixOp_inv fuel hI hok e
  | mk sym a r kids ro => exact step_inv fuel hI _ hok
  | addChild p c => exact step_inv fuel hI _ hok
  | setChildren p cs => exact step_inv fuel hI _ hok
  | setSym i s => exact step_inv fuel hI _ hok
  | setSender i s => exact step_inv fuel hI _ hok
  | setRecipient i s => exact step_inv fuel hI _ hok
  | hash i => exact step_inv fuel hI _ hok
  | eq i j => exact step_inv fuel hI _ hok
  | getItem i k => exact step_inv fuel hI _ hok
  | getSlice i a b => exact step_inv fuel hI _ hok
  | replace i reps => exact step_inv fuel hI _ hok
  | append i path t => exact step_inv fuel hI _ hok
  | size i => exact step_inv fuel hI _ hok
  | parent i => exact step_inv fuel hI _ hok
  | getPath i => exact step_inv fuel hI _ hok
  | flatten i => exact step_inv fuel hI _ hok
  | findAll i n => exact step_inv fuel hI _ hok
  | findDirect i n => exact step_inv fuel hI _ hok
  | choicesPath i => exact step_inv fuel hI _ hok
  | value i => exact step_inv fuel hI _ hok

/-- a history all of whose operations respect the full discipline in the state they are applied to -/
def OkHistFull [DecidableEq α] (Hc : Sym → Option String → Option String → List α → α) (fuel : Nat) :
    Store α → List Op → Prop
  | _, [] => True
  | σ, op :: ops => Op.okFull σ op ∧ OkHistFull Hc fuel (step Hc fuel σ op).1 ops

theorem runOps_inv_full [DecidableEq α] (fuel : Nat) : ∀ (ops : List Op) (σ : Store α), Inv Hc σ →
    OkHistFull Hc fuel σ ops → Inv Hc (runOps Hc fuel σ ops)
  | [], _, hI, _ => hI
  | op :: ops, σ, hI, h => runOps_inv_full fuel ops _ (step_inv_full fuel hI op h.1) h.2

end FV
