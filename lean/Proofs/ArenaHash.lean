/-
`__hash__` / `__eq__`: under `Inv` the returned hash is the structural hash of the abstraction, the
caches that get filled are right, nothing else changes.
-/
import Proofs.ArenaAlloc
namespace FV
open Store
variable {α : Type} {Hc : Sym → Option String → Option String → List α → α}

/-- the store changed at most in `hash_cache` fields -/
def HashOnly (σ σ' : Store α) : Prop :=
  SizeHashOnly σ σ' ∧ ∀ (j : Nat) (r r' : NodeRec α), σ[j]? = some r → σ'[j]? = some r' → r'.sizeC = r.sizeC

theorem HashOnly.refl (σ : Store α) : HashOnly σ σ :=
  ⟨SizeHashOnly.refl σ, fun _ r r' h h' => by rw [h] at h'; cases h'; rfl⟩

theorem HashOnly.trans {σ σ' σ'' : Store α} (h1 : HashOnly σ σ') (h2 : HashOnly σ' σ'') : HashOnly σ σ'' := by
  refine ⟨h1.1.trans h2.1, fun j r r'' hr hr'' => ?_⟩
  obtain ⟨r', hr', _⟩ := h1.1.2 j r hr
  rw [h2.2 j r' r'' hr' hr'', h1.2 j r r' hr hr']

/-- transfer of the structural clauses along a change of cached fields -/
theorem inv_of_sho {σ σ' : Store α} (hI : Inv Hc σ) (sho : SizeHashOnly σ σ')
    (hsize : ∀ (i : Nat) (r : NodeRec α) (t : Tree), σ'[i]? = some r → r.view = false → Abs σ' i t → r.sizeC = t.size)
    (hhash : ∀ (i : Nat) (r : NodeRec α) (t : Tree) (h : α), σ'[i]? = some r → r.view = false → Abs σ' i t →
      r.hashC = some h → h = hashT Hc t) : Inv Hc σ' := by
  refine ⟨?_, ?_, hsize, hhash, ?_⟩
  · intro i hi
    obtain ⟨t, ht⟩ := hI.wf i (sho.1 ▸ hi)
    exact ⟨t, sho.abs.mp ht⟩
  · intro i ri p hri hpp
    obtain ⟨r0, hr0, _, hp0, _, _⟩ := sho.symm.2 i ri hri
    rw [sho.1]; exact hI.parIn i r0 p hr0 (hp0 ▸ hpp)
  · intro i ri c hri hv hc
    obtain ⟨r0, hr0, hc0, _, hv0, _⟩ := sho.symm.2 i ri hri
    obtain ⟨rc, hrc, hpc, hvc⟩ := hI.par i r0 c hr0 (hv0 ▸ hv) (hc0.2.2.2 ▸ hc)
    obtain ⟨rc', hrc', _, hpc', hvc', _⟩ := sho.2 c rc hrc
    exact ⟨rc', hrc', hpc' ▸ hpc, hvc' ▸ hvc⟩

theorem hashOnly_upd {σ : Store α} {i : Nat} {r : NodeRec α} (hr : σ[i]? = some r) (h : Option α) :
    HashOnly σ (upd σ i (fun x => { x with hashC := h })) := by
  have e : upd σ i (fun x => { x with hashC := h }) = σ.set i { r with hashC := h, sizeC := r.sizeC } := by
    unfold upd; rw [hr]
  rw [e]
  refine ⟨sho_set hr _ _, fun j r0 r' h0 h' => ?_⟩
  by_cases hji : i = j
  · subst hji
    rw [List.getElem?_set_self (lt_of_get_some hr)] at h'
    rw [hr] at h0; cases h0; cases h'; rfl
  · rw [List.getElem?_set_ne hji] at h'
    rw [h0] at h'; cases h'; rfl

/-- filling one correct cache entry keeps `Inv` -/
theorem inv_set_hash {σ : Store α} {i : Nat} {r : NodeRec α} {h : α} (hI : Inv Hc σ) (hr : σ[i]? = some r)
    (hh : r.view = false → ∀ t, Abs σ i t → h = hashT Hc t) :
    Inv Hc (upd σ i (fun x => { x with hashC := some h })) := by
  have ho := hashOnly_upd hr (some h)
  refine inv_of_sho hI ho.1 ?_ ?_
  · intro a ra t hra hv ha
    obtain ⟨r0, hr0, _, _, hv0, _⟩ := ho.1.symm.2 a ra hra
    rw [ho.2 a r0 ra hr0 hra]
    exact hI.size a r0 t hr0 (hv0 ▸ hv) (ho.1.abs.mpr ha)
  · intro a ra t x hra hv ha hx
    have ha0 := ho.1.abs.mpr ha
    by_cases hai : a = i
    · subst hai
      rw [upd_get_self, hr] at hra
      simp only [Option.map_some, Option.some.injEq] at hra
      subst hra
      simp only [Option.some.injEq] at hx
      subst hx
      exact hh hv t ha0
    · rw [upd_get_ne _ _ hai] at hra
      exact hI.hash a ra t x hra hv ha0 hx

/-- specification of one `hash(node)` call -/
def HashSpec (Hc : Sym → Option String → Option String → List α → α) (σ : Store α) (i : Nat)
    (σ' : Store α) (h : α) : Prop :=
  Inv Hc σ' ∧ HashOnly σ σ' ∧ ∀ r t, σ[i]? = some r → r.view = false → Abs σ i t → h = hashT Hc t

theorem listM_hash {f : Store α → Nat → Except AErr (Store α × α)}
    (hf : ∀ σ i σ' h, Inv Hc σ → f σ i = .ok (σ', h) → HashSpec Hc σ i σ' h) :
    ∀ (ks : List Nat) (σ σ' : Store α) (hs : List α), Inv Hc σ → listM f σ ks = .ok (σ', hs) →
      Inv Hc σ' ∧ HashOnly σ σ' ∧
      ∀ ts, (∀ k ∈ ks, ∃ rk, σ[k]? = some rk ∧ rk.view = false) → AbsL σ ks ts → hs = hashTL Hc ts
  | [], σ, σ', hs, hI, h => by
    simp only [listM] at h
    cases h
    refine ⟨hI, HashOnly.refl σ, fun ts _ ha => ?_⟩
    cases ts with
    | nil => rfl
    | cons _ _ => simp [AbsL] at ha
  | k :: ks, σ, σ', hs, hI, h => by
    simp only [listM] at h
    split at h
    · cases h
    · rename_i σ1 h1 e1
      split at h
      · cases h
      · rename_i σ2 hs' e2
        cases h
        obtain ⟨hI1, ho1, hv1⟩ := hf σ k σ1 h1 hI e1
        obtain ⟨hI2, ho2, hv2⟩ := listM_hash hf ks σ1 _ _ hI1 e2
        refine ⟨hI2, ho1.trans ho2, fun ts hnv ha => ?_⟩
        cases ts with
        | nil => simp [AbsL] at ha
        | cons t ts =>
          simp only [AbsL] at ha
          obtain ⟨rk, hrk, hvk⟩ := hnv k List.mem_cons_self
          simp only [hashTL]
          rw [hv1 rk t hrk hvk ha.1]
          congr 1
          apply hv2 ts
          · intro k' hk'
            obtain ⟨rk', hrk', hvk'⟩ := hnv k' (List.mem_cons_of_mem _ hk')
            obtain ⟨r', hr', _, _, hv', _⟩ := ho1.1.2 k' rk' hrk'
            exact ⟨r', hr', hv' ▸ hvk'⟩
          · exact AbsL.frame ts ks ha.2 (fun k' _ j _ r hr => ho1.1.cores j r hr)

theorem hashNode_spec : ∀ (fuel : Nat) (σ : Store α) (i : Nat) (σ' : Store α) (h : α), Inv Hc σ →
    hashNode Hc fuel σ i = .ok (σ', h) → HashSpec Hc σ i σ' h
  | 0, _, _, _, _, _, e => by simp [hashNode] at e
  | fuel + 1, σ, i, σ', h, hI, e => by
    simp only [hashNode] at e
    split at e
    · cases e
    · rename_i r hr
      split at e
      · rename_i hc hhc
        cases e
        exact ⟨hI, HashOnly.refl σ, fun r' t hr' hv ha => by
          rw [hr] at hr'; cases hr'; exact hI.hash i r t h hr hv ha hhc⟩
      · rename_i hnone
        split at e
        · cases e
        · rename_i σ1 hs e1
          cases e
          obtain ⟨hI1, ho1, hv1⟩ := listM_hash (hashNode_spec fuel) r.kids σ σ1 hs hI e1
          obtain ⟨r1, hr1, hc1, _, hvw1, _⟩ := ho1.1.2 i r hr
          have hval : r.view = false → ∀ t, Abs σ i t → Hc r.sym r.sender r.recipient hs = hashT Hc t := by
            intro hv t ha
            cases t with
            | mk s x y ts =>
              simp only [Abs] at ha
              obtain ⟨rec, h1, h2, h3, h4, h5⟩ := ha
              rw [hr] at h1; cases h1
              subst h2 h3 h4
              simp only [hashT]
              congr 1
              apply hv1 ts _ h5
              intro k hk
              obtain ⟨rk, hrk, _, hvk⟩ := hI.par i _ k hr hv hk
              exact ⟨rk, hrk, hvk⟩
          refine ⟨inv_set_hash hI1 hr1 (fun hv t ha => hval (hvw1 ▸ hv) t (ho1.1.abs.mpr ha)),
            ho1.trans (hashOnly_upd hr1 _), fun r' t hr' hv ha => ?_⟩
          rw [hr] at hr'; cases hr'
          exact hval hv t ha

theorem eqNode_spec [DecidableEq α] {σ σ' : Store α} {i j : Nat} {b : Bool} (fuel : Nat) (hI : Inv Hc σ)
    (e : eqNode Hc fuel σ i j = .ok (σ', b)) :
    Inv Hc σ' ∧ HashOnly σ σ' ∧
    ∀ ri rj ti tj, σ[i]? = some ri → ri.view = false → σ[j]? = some rj → rj.view = false →
      Abs σ i ti → Abs σ j tj → (b = true ↔ hashT Hc ti = hashT Hc tj) := by
  simp only [eqNode] at e
  split at e
  · cases e
  · rename_i σ1 h1 e1
    split at e
    · cases e
    · rename_i σ2 h2 e2
      cases e
      obtain ⟨hI1, ho1, hv1⟩ := hashNode_spec fuel σ i σ1 h1 hI e1
      obtain ⟨hI2, ho2, hv2⟩ := hashNode_spec fuel σ1 j _ _ hI1 e2
      refine ⟨hI2, ho1.trans ho2, fun ri rj ti tj hri hvi hrj hvj hti htj => ?_⟩
      obtain ⟨rj1, hrj1, _, _, hvj1, _⟩ := ho1.1.2 j rj hrj
      rw [hv1 ri ti hri hvi hti, hv2 rj1 tj hrj1 (hvj1 ▸ hvj) (ho1.1.abs.mp htj)]
      simp

end FV
