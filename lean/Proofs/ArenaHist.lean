/-
Discipline (`Op.ok`), `step` preserves `Inv`, histories.
-/
import Proofs.ArenaReplInv
namespace FV
open Store
variable {α : Type} {Hc : Sym → Option String → Option String → List α → α}

/-! ### ownership discipline -/

/-- The histories the property quantifies over: every child handed to a node is a detached root (no
parent, not a view, not the root of the receiving node's own tree) or — for `set_children` — one of the
node's current children; views (`SliceTree`s) are not edited structurally.  Everything else is free.
`deepcopy` is covered for subtree copies (`copy_parent=False`, or a node without parent, e.g.
`copy.deepcopy(root)`) and `replace_multiple` when no view is involved.  `split_end`, `prefix` (and the
upward whole-tree copy `copy.deepcopy(inner_node)` they start with) are excluded here (`False`); they are
covered by the full discipline `Op.okFull` / `Op.okS` (Proofs/ArenaFull.lean, Proofs/ArenaNVP.lean), of which
this one is a special case (`Op.ok.full`). -/
def Op.ok (σ : Store α) : Op → Prop
  | .mk _ _ _ kids _ => ∀ c ∈ kids, DetachedRoot σ c
  | .addChild p c => ∃ rp, σ[p]? = some rp ∧ rp.view = false ∧ Detached σ p c
  | .setChildren p cs => OwnOrDetached σ p cs
  | .setSym .. | .setSender .. | .setRecipient .. | .hash .. | .eq .. => True
  | .getItem .. | .getSlice .. | .size .. | .parent .. | .getPath .. | .flatten .. | .findAll ..
  | .findDirect .. | .choicesPath .. | .value .. => True
  | .append i _ t => AppendOk σ i t
  | .deepcopy i _ cp => ∃ r, σ[i]? = some r ∧ r.view = false ∧ (cp = false ∨ r.parent = none)
  | .replace i reps => (∃ r, σ[i]? = some r ∧ r.view = false) ∧
      ∀ a b, (a, b) ∈ reps → ∃ rb, σ[b]? = some rb ∧ rb.view = false
  | .splitEnd .. | .prefix .. => False

/-- one disciplined operation keeps the invariant -/
theorem step_inv [DecidableEq α] {σ : Store α} (fuel : Nat) (hI : Inv Hc σ) (op : Op) (hok : Op.ok σ op) :
    Inv Hc (step Hc fuel σ op).1 := by
  cases op with
  | mk sym a r kids ro =>
    simp only [step, liftN]
    split
    · exact hI
    · rename_i σ' n e
      exact (mkNode_inv fuel hI hok e).1
  | addChild p c =>
    obtain ⟨rp, hrp, hvp, hd⟩ := hok
    simp only [step, liftS]
    split
    · exact hI
    · rename_i σ' e
      exact addChild_inv fuel hI hrp hvp hd e
  | setChildren p cs =>
    simp only [step, liftS]
    split
    · exact hI
    · rename_i σ' e
      exact setChildren_inv fuel hI hok e
  | setSym i s =>
    simp only [step, liftS]
    split
    · exact hI
    · rename_i σ' e; exact setSym_inv fuel hI e
  | setSender i s =>
    simp only [step, liftS]
    split
    · exact hI
    · rename_i σ' e; exact setSender_inv fuel hI e
  | setRecipient i s =>
    simp only [step, liftS]
    split
    · exact hI
    · rename_i σ' e; exact setRecipient_inv fuel hI e
  | hash i =>
    simp only [step]
    split
    · exact hI
    · rename_i σ' h e; exact (hashNode_spec fuel σ i σ' h hI e).1
  | eq i j =>
    simp only [step]
    split
    · exact hI
    · rename_i σ' b e; exact (eqNode_spec fuel hI e).1
  | getSlice i a b =>
    simp only [step, liftN]
    split
    · exact hI
    · rename_i σ' n e; exact (getSlice_inv fuel hI e).1
  | getItem i k => simp only [step, liftR_fst]; exact hI
  | size i => simp only [step, liftR_fst]; exact hI
  | parent i => simp only [step, liftR_fst]; exact hI
  | getPath i => simp only [step, liftR_fst]; exact hI
  | flatten i => simp only [step, liftR_fst]; exact hI
  | findAll i n => simp only [step, liftR_fst]; exact hI
  | findDirect i n => simp only [step, liftR_fst]; exact hI
  | choicesPath i => simp only [step, liftR_fst]; exact hI
  | value i => simp only [step]; exact hI
  | deepcopy i cc cp =>
    obtain ⟨r, hr, hv, hcp⟩ := hok
    simp only [step, liftN]
    split
    · exact hI
    · rename_i σ' n e
      exact (deepcopy_inv fuel hI hr hv hcp e).1
  | splitEnd i c => exact absurd hok id
  | «prefix» i c => exact absurd hok id
  | replace i reps =>
    obtain ⟨⟨r, hr, hv⟩, hreps⟩ := hok
    simp only [step, liftN]
    split
    · exact hI
    · rename_i σ' n e
      exact replaceMultiple_inv fuel hI hr hv hreps e
  | append i path t =>
    simp only [step]
    split <;> (rename_i hs; have := appendOp_inv (Hc := Hc) path fuel σ i t hI hok; rw [hs] at this; exact this)

/-- a history all of whose operations respect the discipline in the state they are applied to -/
def OkHist [DecidableEq α] (Hc : Sym → Option String → Option String → List α → α) (fuel : Nat) :
    Store α → List Op → Prop
  | _, [] => True
  | σ, op :: ops => Op.ok σ op ∧ OkHist Hc fuel (step Hc fuel σ op).1 ops

theorem runOps_inv [DecidableEq α] (fuel : Nat) : ∀ (ops : List Op) (σ : Store α), Inv Hc σ →
    OkHist Hc fuel σ ops → Inv Hc (runOps Hc fuel σ ops)
  | [], _, hI, _ => hI
  | op :: ops, σ, hI, h => runOps_inv fuel ops _ (step_inv fuel hI op h.1) h.2

end FV
