/-
The bookkeeping invariant `Inv`, the loop invariant `Pre` of `invalidate_hash`, and the central
lemma: the parent-chain walk re-establishes `Inv`.
-/
import Proofs.Arena
namespace FV
open Store
variable {α : Type}

/-- The bookkeeping invariant.  *Views* (`SliceTree`s) list children they do not own: the clauses
about cached size / hash and parent links are stated for the nodes that are not views. -/
structure Inv (Hc : Sym → Option String → Option String → List α → α) (σ : Store α) : Prop where
  /-- wellformed and acyclic: every node denotes a finite tree (so all child indices are live) -/
  wf : ∀ i, i < σ.length → ∃ t, Abs σ i t
  parIn : ∀ (i : Nat) (r : NodeRec α) (p : Nat), σ[i]? = some r → r.parent = some p → p < σ.length
  /-- `_size` = number of nodes of the tree recomputed from the current structure -/
  size : ∀ (i : Nat) (r : NodeRec α) (t : Tree), σ[i]? = some r → r.view = false → Abs σ i t → r.sizeC = t.size
  /-- `hash_cache`, when filled, = the hash recomputed from the current structure -/
  hash : ∀ (i : Nat) (r : NodeRec α) (t : Tree) (h : α), σ[i]? = some r → r.view = false → Abs σ i t →
    r.hashC = some h → h = hashT Hc t
  /-- every child listed by a (non-view) node points back to it, and is not a view -/
  par : ∀ (i : Nat) (r : NodeRec α) (c : Nat), σ[i]? = some r → r.view = false → c ∈ r.kids →
    ∃ rc, σ[c]? = some rc ∧ rc.parent = some i ∧ rc.view = false

/-- `Inv` except that the cached size / hash of the nodes *above* `j` (those that reach `j`) may be
out of date: the state in the middle of an edit, before `invalidate_hash` has walked up from `j`. -/
structure Pre (Hc : Sym → Option String → Option String → List α → α) (σ : Store α) (j : Nat) : Prop where
  wf : ∀ i, i < σ.length → ∃ t, Abs σ i t
  parIn : ∀ (i : Nat) (r : NodeRec α) (p : Nat), σ[i]? = some r → r.parent = some p → p < σ.length
  size : ∀ (i : Nat) (r : NodeRec α) (t : Tree), σ[i]? = some r → r.view = false → Abs σ i t →
    ¬ Reach σ i j → r.sizeC = t.size
  hash : ∀ (i : Nat) (r : NodeRec α) (t : Tree) (h : α), σ[i]? = some r → r.view = false → Abs σ i t →
    ¬ Reach σ i j → r.hashC = some h → h = hashT Hc t
  par : ∀ (i : Nat) (r : NodeRec α) (c : Nat), σ[i]? = some r → r.view = false → c ∈ r.kids →
    ∃ rc, σ[c]? = some rc ∧ rc.parent = some i ∧ rc.view = false

variable {Hc : Sym → Option String → Option String → List α → α}

theorem Inv.pre {σ : Store α} (h : Inv Hc σ) (j : Nat) : Pre Hc σ j :=
  ⟨h.wf, h.parIn, fun i r t hr hv ha _ => h.size i r t hr hv ha,
   fun i r t x hr hv ha _ hx => h.hash i r t x hr hv ha hx, h.par⟩

/-- the store changed at most in cached sizes / hashes -/
def SizeHashOnly (σ σ' : Store α) : Prop :=
  σ'.length = σ.length ∧ ∀ (j : Nat) (r : NodeRec α), σ[j]? = some r →
    ∃ r', σ'[j]? = some r' ∧ SameCore r r' ∧ r'.parent = r.parent ∧ r'.view = r.view ∧ r'.readOnly = r.readOnly

theorem SizeHashOnly.refl (σ : Store α) : SizeHashOnly σ σ :=
  ⟨rfl, fun _ r hr => ⟨r, hr, SameCore.rfl' r, rfl, rfl, rfl⟩⟩

theorem SizeHashOnly.trans {σ σ' σ'' : Store α} (h1 : SizeHashOnly σ σ') (h2 : SizeHashOnly σ' σ'') :
    SizeHashOnly σ σ'' := by
  refine ⟨h2.1.trans h1.1, fun j r hr => ?_⟩
  obtain ⟨r', hr', hc, hp, hv, ho⟩ := h1.2 j r hr
  obtain ⟨r'', hr'', hc', hp', hv', ho'⟩ := h2.2 j r' hr'
  exact ⟨r'', hr'', ⟨hc.1.trans hc'.1, hc.2.1.trans hc'.2.1, hc.2.2.1.trans hc'.2.2.1, hc.2.2.2.trans hc'.2.2.2⟩,
    hp'.trans hp, hv'.trans hv, ho'.trans ho⟩

theorem SizeHashOnly.symm {σ σ' : Store α} (h : SizeHashOnly σ σ') : SizeHashOnly σ' σ := by
  refine ⟨h.1.symm, fun j r' hr' => ?_⟩
  have hj : j < σ.length := by
    have h1 := (List.getElem?_eq_some_iff.mp hr').1
    have h2 := h.1
    omega
  obtain ⟨r, hr⟩ : ∃ r, σ[j]? = some r := ⟨σ[j], List.getElem?_eq_getElem hj⟩
  obtain ⟨r2, hr2, hc, hp, hv, ho⟩ := h.2 j r hr
  rw [hr'] at hr2; cases hr2
  exact ⟨r, hr, ⟨hc.1.symm, hc.2.1.symm, hc.2.2.1.symm, hc.2.2.2.symm⟩, hp.symm, hv.symm, ho.symm⟩

theorem SizeHashOnly.cores {σ σ' : Store α} (h : SizeHashOnly σ σ') :
    ∀ (j : Nat) (r : NodeRec α), σ[j]? = some r → ∃ r', σ'[j]? = some r' ∧ SameCore r r' :=
  fun j r hr => let ⟨r', a, b, _⟩ := h.2 j r hr; ⟨r', a, b⟩

theorem SizeHashOnly.abs {σ σ' : Store α} (h : SizeHashOnly σ σ') {i : Nat} {t : Tree} :
    Abs σ i t ↔ Abs σ' i t :=
  ⟨Abs.congr h.cores, Abs.congr h.symm.cores⟩

theorem SizeHashOnly.reach {σ σ' : Store α} (h : SizeHashOnly σ σ') {i j : Nat} :
    Reach σ i j ↔ Reach σ' i j :=
  ⟨Reach.congr h.cores, Reach.congr h.symm.cores⟩

/-- from a non-view node, every strict descendant is listed by a non-view node on the way -/
theorem Reach.last_lister {σ : Store α}
    (hpar : ∀ (i : Nat) (r : NodeRec α) (c : Nat), σ[i]? = some r → r.view = false → c ∈ r.kids →
      ∃ rc, σ[c]? = some rc ∧ rc.parent = some i ∧ rc.view = false)
    {i j : Nat} (h : Reach σ i j) : i ≠ j → ∀ ri, σ[i]? = some ri → ri.view = false →
    ∃ m rm, Reach σ i m ∧ σ[m]? = some rm ∧ rm.view = false ∧ j ∈ rm.kids := by
  induction h with
  | refl => intro h; exact absurd rfl h
  | @step i k j r hr hk hkj ih =>
    intro _ ri hri hv
    rw [hr] at hri; cases hri
    by_cases hkj' : k = j
    · subst hkj'; exact ⟨i, r, .refl i, hr, hv, hk⟩
    · obtain ⟨rc, hrc, _, hvc⟩ := hpar i r k hr hv hk
      obtain ⟨m, rm, h1, h2, h3, h4⟩ := ih hkj' rc hrc hvc
      exact ⟨m, rm, .step hr hk h1, h2, h3, h4⟩

theorem sumSizes_eq {σ : Store α} : ∀ (ks : List Nat) (ts : List Tree), AbsL σ ks ts →
    (∀ k ∈ ks, ∀ tk, Abs σ k tk → sizeOf σ k = tk.size) → sumSizes σ ks = Tree.sizeL ts
  | [], [], _, _ => rfl
  | [], _ :: _, h, _ => by simp [AbsL] at h
  | _ :: _, [], h, _ => by simp [AbsL] at h
  | k :: ks, t :: ts, h, hs => by
    simp only [AbsL] at h
    simp only [sumSizes, Tree.sizeL]
    rw [hs k List.mem_cons_self t h.1, sumSizes_eq ks ts h.2 (fun k' hk' => hs k' (List.mem_cons_of_mem _ hk'))]

end FV
