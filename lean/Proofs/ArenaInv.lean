/-
The bookkeeping invariant `Inv`, the loop invariant `Pre` of `invalidate_hash`, and the central
lemma: the parent-chain walk re-establishes `Inv`.
-/
import Proofs.Arena
namespace FV
open Store
variable {α : Type}

/-- The bookkeeping invariant.  *Views* (`SliceTree`s) list children they do not own: the clauses
about cached size / hash and parent links are stated for the nodes that are not views. -/
structure Inv (Hc : Sym → Option String → Option String → List α → α) (σ : Store α) : Prop where
  /-- wellformed and acyclic: every node denotes a finite tree (so all child indices are live) -/
  wf : ∀ i, i < σ.length → ∃ t, Abs σ i t
  parIn : ∀ (i : Nat) (r : NodeRec α) (p : Nat), σ[i]? = some r → r.parent = some p → p < σ.length
  /-- `_size` = number of nodes of the tree recomputed from the current structure -/
  size : ∀ (i : Nat) (r : NodeRec α) (t : Tree), σ[i]? = some r → r.view = false → Abs σ i t → r.sizeC = t.size
  /-- `hash_cache`, when filled, = the hash recomputed from the current structure -/
  hash : ∀ (i : Nat) (r : NodeRec α) (t : Tree) (h : α), σ[i]? = some r → r.view = false → Abs σ i t →
    r.hashC = some h → h = hashT Hc t
  /-- every child listed by a (non-view) node points back to it, and is not a view -/
  par : ∀ (i : Nat) (r : NodeRec α) (c : Nat), σ[i]? = some r → r.view = false → c ∈ r.kids →
    ∃ rc, σ[c]? = some rc ∧ rc.parent = some i ∧ rc.view = false

/-- `Inv` except that the cached size / hash of the nodes *above* `j` (those that reach `j`) may be
out of date: the state in the middle of an edit, before `invalidate_hash` has walked up from `j`. -/
structure Pre (Hc : Sym → Option String → Option String → List α → α) (σ : Store α) (j : Nat) : Prop where
  wf : ∀ i, i < σ.length → ∃ t, Abs σ i t
  parIn : ∀ (i : Nat) (r : NodeRec α) (p : Nat), σ[i]? = some r → r.parent = some p → p < σ.length
  size : ∀ (i : Nat) (r : NodeRec α) (t : Tree), σ[i]? = some r → r.view = false → Abs σ i t →
    ¬ Reach σ i j → r.sizeC = t.size
  hash : ∀ (i : Nat) (r : NodeRec α) (t : Tree) (h : α), σ[i]? = some r → r.view = false → Abs σ i t →
    ¬ Reach σ i j → r.hashC = some h → h = hashT Hc t
  par : ∀ (i : Nat) (r : NodeRec α) (c : Nat), σ[i]? = some r → r.view = false → c ∈ r.kids →
    ∃ rc, σ[c]? = some rc ∧ rc.parent = some i ∧ rc.view = false

variable {Hc : Sym → Option String → Option String → List α → α}

theorem Inv.pre {σ : Store α} (h : Inv Hc σ) (j : Nat) : Pre Hc σ j :=
  ⟨h.wf, h.parIn, fun i r t hr hv ha _ => h.size i r t hr hv ha,
   fun i r t x hr hv ha _ hx => h.hash i r t x hr hv ha hx, h.par⟩

/-- the store changed at most in cached sizes / hashes -/
def SizeHashOnly (σ σ' : Store α) : Prop :=
  σ'.length = σ.length ∧ ∀ (j : Nat) (r : NodeRec α), σ[j]? = some r →
    ∃ r', σ'[j]? = some r' ∧ SameCore r r' ∧ r'.parent = r.parent ∧ r'.view = r.view ∧ r'.readOnly = r.readOnly

theorem SizeHashOnly.refl (σ : Store α) : SizeHashOnly σ σ :=
  ⟨rfl, fun _ r hr => ⟨r, hr, SameCore.rfl' r, rfl, rfl, rfl⟩⟩

theorem SizeHashOnly.trans {σ σ' σ'' : Store α} (h1 : SizeHashOnly σ σ') (h2 : SizeHashOnly σ' σ'') :
    SizeHashOnly σ σ'' := by
  refine ⟨h2.1.trans h1.1, fun j r hr => ?_⟩
  obtain ⟨r', hr', hc, hp, hv, ho⟩ := h1.2 j r hr
  obtain ⟨r'', hr'', hc', hp', hv', ho'⟩ := h2.2 j r' hr'
  exact ⟨r'', hr'', ⟨hc.1.trans hc'.1, hc.2.1.trans hc'.2.1, hc.2.2.1.trans hc'.2.2.1, hc.2.2.2.trans hc'.2.2.2⟩,
    hp'.trans hp, hv'.trans hv, ho'.trans ho⟩

theorem SizeHashOnly.symm {σ σ' : Store α} (h : SizeHashOnly σ σ') : SizeHashOnly σ' σ := by
  refine ⟨h.1.symm, fun j r' hr' => ?_⟩
  have hj : j < σ.length := by
    have h1 := (List.getElem?_eq_some_iff.mp hr').1
    have h2 := h.1
    omega
  obtain ⟨r, hr⟩ : ∃ r, σ[j]? = some r := ⟨σ[j], List.getElem?_eq_getElem hj⟩
  obtain ⟨r2, hr2, hc, hp, hv, ho⟩ := h.2 j r hr
  rw [hr'] at hr2; cases hr2
  exact ⟨r, hr, ⟨hc.1.symm, hc.2.1.symm, hc.2.2.1.symm, hc.2.2.2.symm⟩, hp.symm, hv.symm, ho.symm⟩

theorem SizeHashOnly.cores {σ σ' : Store α} (h : SizeHashOnly σ σ') :
    ∀ (j : Nat) (r : NodeRec α), σ[j]? = some r → ∃ r', σ'[j]? = some r' ∧ SameCore r r' :=
  fun j r hr => let ⟨r', a, b, _⟩ := h.2 j r hr; ⟨r', a, b⟩

theorem SizeHashOnly.abs {σ σ' : Store α} (h : SizeHashOnly σ σ') {i : Nat} {t : Tree} :
    Abs σ i t ↔ Abs σ' i t :=
  ⟨Abs.congr h.cores, Abs.congr h.symm.cores⟩

theorem SizeHashOnly.reach {σ σ' : Store α} (h : SizeHashOnly σ σ') {i j : Nat} :
    Reach σ i j ↔ Reach σ' i j :=
  ⟨Reach.congr h.cores, Reach.congr h.symm.cores⟩

/-- from a non-view node, every strict descendant is listed by a non-view node on the way -/
theorem Reach.last_lister {σ : Store α}
    (hpar : ∀ (i : Nat) (r : NodeRec α) (c : Nat), σ[i]? = some r → r.view = false → c ∈ r.kids →
      ∃ rc, σ[c]? = some rc ∧ rc.parent = some i ∧ rc.view = false)
    {i j : Nat} (h : Reach σ i j) : i ≠ j → ∀ ri, σ[i]? = some ri → ri.view = false →
    ∃ m rm, Reach σ i m ∧ σ[m]? = some rm ∧ rm.view = false ∧ j ∈ rm.kids := by
  induction h with
  | refl => intro h; exact absurd rfl h
  | @step i k j r hr hk hkj ih =>
    intro _ ri hri hv
    rw [hr] at hri; cases hri
    by_cases hkj' : k = j
    · subst hkj'; exact ⟨i, r, .refl i, hr, hv, hk⟩
    · obtain ⟨rc, hrc, _, hvc⟩ := hpar i r k hr hv hk
      obtain ⟨m, rm, h1, h2, h3, h4⟩ := ih hkj' rc hrc hvc
      exact ⟨m, rm, .step hr hk h1, h2, h3, h4⟩

theorem sumSizes_eq {σ : Store α} : ∀ (ks : List Nat) (ts : List Tree), AbsL σ ks ts →
    (∀ k ∈ ks, ∀ tk, Abs σ k tk → Store.sizeOf σ k = tk.size) → sumSizes σ ks = Tree.sizeL ts
  | [], [], _, _ => rfl
  | [], _ :: _, h, _ => by simp [AbsL] at h
  | _ :: _, [], h, _ => by simp [AbsL] at h
  | k :: ks, t :: ts, h, hs => by
    simp only [AbsL] at h
    simp only [sumSizes, Tree.sizeL]
    rw [hs k List.mem_cons_self t h.1, sumSizes_eq ks ts h.2 (fun k' hk' => hs k' (List.mem_cons_of_mem _ hk'))]

end FV

namespace FV
open Store
variable {α : Type} {Hc : Sym → Option String → Option String → List α → α}

theorem sho_set {σ : Store α} {j : Nat} {r : NodeRec α} (hr : σ[j]? = some r) (n : Nat) (h : Option α) :
    SizeHashOnly σ (σ.set j { r with hashC := h, sizeC := n }) := by
  refine ⟨List.length_set, fun a r0 hr0 => ?_⟩
  by_cases hja : j = a
  · subst hja
    rw [hr] at hr0; cases hr0
    have hlt := (List.getElem?_eq_some_iff.mp hr).1
    exact ⟨{ r with hashC := h, sizeC := n }, by rw [List.getElem?_set_self hlt], ⟨rfl, rfl, rfl, rfl⟩, rfl, rfl, rfl⟩
  · exact ⟨r0, by rw [List.getElem?_set_ne hja]; exact hr0, SameCore.rfl' r0, rfl, rfl, rfl⟩

/-- one iteration of `invalidate_hash` at `j` repairs `j` and leaves every node that does not reach `j` alone -/
theorem pre_step_good {σ : Store α} {j : Nat} {r : NodeRec α} (hp : Pre Hc σ j) (hr : σ[j]? = some r)
    (i : Nat) (ri : NodeRec α) (t : Tree)
    (hri : (σ.set j { r with hashC := none, sizeC := 1 + sumSizes σ r.kids })[i]? = some ri)
    (hv : ri.view = false)
    (ha : Abs (σ.set j { r with hashC := none, sizeC := 1 + sumSizes σ r.kids }) i t)
    (hg : i = j ∨ ¬ Reach σ i j) :
    ri.sizeC = t.size ∧ ∀ h, ri.hashC = some h → h = hashT Hc t := by
  have sho := sho_set hr (1 + sumSizes σ r.kids) none
  have ha' : Abs σ i t := sho.abs.mpr ha
  by_cases hij : i = j
  · subst hij
    have hlt := (List.getElem?_eq_some_iff.mp hr).1
    rw [List.getElem?_set_self hlt] at hri
    cases hri
    refine ⟨?_, fun h hh => by simp at hh⟩
    cases t with
    | mk s a rr ts =>
      have ha'' := ha'
      simp only [Abs] at ha''
      obtain ⟨rec, h1, _, _, _, h5⟩ := ha''
      rw [hr] at h1; cases h1
      simp only [Tree.size]
      congr 1
      apply sumSizes_eq _ _ h5
      intro k hk tk htk
      obtain ⟨rc, hrc, _, hvc⟩ := hp.par i _ k hr hv hk
      have hnr : ¬ Reach σ k i := not_reach_of_kid hr hk ha'
      have := hp.size k rc tk hrc hvc htk hnr
      simp only [Store.sizeOf, hrc]; exact this
  · have hnr : ¬ Reach σ i j := by
      rcases hg with h | h
      · exact absurd h hij
      · exact h
    rw [List.getElem?_set_ne (Ne.symm hij)] at hri
    exact ⟨hp.size i ri t hri hv ha' hnr, fun h hh => hp.hash i ri t h hri hv ha' hnr hh⟩

theorem pre_step {σ : Store α} {j : Nat} {r : NodeRec α} (hp : Pre Hc σ j) (hr : σ[j]? = some r) :
    (r.parent = none → Inv Hc (σ.set j { r with hashC := none, sizeC := 1 + sumSizes σ r.kids })) ∧
    (∀ p, r.parent = some p →
      Pre Hc (σ.set j { r with hashC := none, sizeC := 1 + sumSizes σ r.kids }) p) := by
  have sho := sho_set hr (1 + sumSizes σ r.kids) none
  have hlen : (σ.set j { r with hashC := none, sizeC := 1 + sumSizes σ r.kids }).length = σ.length := sho.1
  have hwf : ∀ i, i < (σ.set j { r with hashC := none, sizeC := 1 + sumSizes σ r.kids }).length →
      ∃ t, Abs (σ.set j { r with hashC := none, sizeC := 1 + sumSizes σ r.kids }) i t := by
    intro i hi
    obtain ⟨t, ht⟩ := hp.wf i (hlen ▸ hi)
    exact ⟨t, sho.abs.mp ht⟩
  have hparIn : ∀ (i : Nat) (ri : NodeRec α) (p : Nat),
      (σ.set j { r with hashC := none, sizeC := 1 + sumSizes σ r.kids })[i]? = some ri →
      ri.parent = some p → p < (σ.set j { r with hashC := none, sizeC := 1 + sumSizes σ r.kids }).length := by
    intro i ri p hri hpp
    obtain ⟨r0, hr0, _, hp0, _, _⟩ := sho.symm.2 i ri hri
    rw [hlen]; exact hp.parIn i r0 p hr0 (hp0 ▸ hpp)
  have hpar : ∀ (i : Nat) (ri : NodeRec α) (c : Nat),
      (σ.set j { r with hashC := none, sizeC := 1 + sumSizes σ r.kids })[i]? = some ri →
      ri.view = false → c ∈ ri.kids →
      ∃ rc, (σ.set j { r with hashC := none, sizeC := 1 + sumSizes σ r.kids })[c]? = some rc ∧
        rc.parent = some i ∧ rc.view = false := by
    intro i ri c hri hv hc
    obtain ⟨r0, hr0, hc0, _, hv0, _⟩ := sho.symm.2 i ri hri
    obtain ⟨rc, hrc, hpc, hvc⟩ := hp.par i r0 c hr0 (hv0 ▸ hv) (hc0.2.2.2 ▸ hc)
    obtain ⟨rc', hrc', _, hpc', hvc', _⟩ := sho.2 c rc hrc
    exact ⟨rc', hrc', hpc' ▸ hpc, hvc' ▸ hvc⟩
  -- a non-view node that reaches `j` from strictly above is listed … by the parent of `j`
  have hlister : ∀ (i : Nat) (ri : NodeRec α),
      (σ.set j { r with hashC := none, sizeC := 1 + sumSizes σ r.kids })[i]? = some ri →
      ri.view = false → i ≠ j → Reach σ i j → ∃ m, r.parent = some m ∧ Reach σ i m := by
    intro i ri hri hv hij hreach
    obtain ⟨r0, hr0, _, _, hv0, _⟩ := sho.symm.2 i ri hri
    obtain ⟨m, rm, h1, h2, h3, h4⟩ := hreach.last_lister hp.par hij r0 hr0 (hv0 ▸ hv)
    obtain ⟨rc, hrc, hpc, _⟩ := hp.par m rm j h2 h3 h4
    rw [hr] at hrc; cases hrc
    exact ⟨m, hpc, h1⟩
  constructor
  · intro hnone
    refine ⟨hwf, hparIn, ?_, ?_, hpar⟩
    · intro i ri t hri hv ha
      refine (pre_step_good hp hr i ri t hri hv ha ?_).1
      by_cases hij : i = j
      · exact .inl hij
      · refine .inr (fun hreach => ?_)
        obtain ⟨m, hm, _⟩ := hlister i ri hri hv hij hreach
        rw [hnone] at hm; cases hm
    · intro i ri t h hri hv ha hh
      refine (pre_step_good hp hr i ri t hri hv ha ?_).2 h hh
      by_cases hij : i = j
      · exact .inl hij
      · refine .inr (fun hreach => ?_)
        obtain ⟨m, hm, _⟩ := hlister i ri hri hv hij hreach
        rw [hnone] at hm; cases hm
  · intro p hpp
    refine ⟨hwf, hparIn, ?_, ?_, hpar⟩
    · intro i ri t hri hv ha hnr
      refine (pre_step_good hp hr i ri t hri hv ha ?_).1
      by_cases hij : i = j
      · exact .inl hij
      · refine .inr (fun hreach => ?_)
        obtain ⟨m, hm, hrm⟩ := hlister i ri hri hv hij hreach
        rw [hpp] at hm; cases hm
        exact hnr (sho.reach.mp hrm)
    · intro i ri t h hri hv ha hnr hh
      refine (pre_step_good hp hr i ri t hri hv ha ?_).2 h hh
      by_cases hij : i = j
      · exact .inl hij
      · refine .inr (fun hreach => ?_)
        obtain ⟨m, hm, hrm⟩ := hlister i ri hri hv hij hreach
        rw [hpp] at hm; cases hm
        exact hnr (sho.reach.mp hrm)

/-- **`invalidate_hash` re-establishes the invariant**: started at the edited node `j` in a state where
only the nodes above `j` are stale, the walk up the parent chain ends in an `Inv` state and changes
nothing but cached sizes / hashes. -/
theorem invalidate_inv : ∀ (fuel : Nat) (σ : Store α) (j : Nat) (σ' : Store α), Pre Hc σ j →
    invalidate fuel σ j = .ok σ' → Inv Hc σ' ∧ SizeHashOnly σ σ'
  | 0, _, _, _, _, h => by simp [invalidate] at h
  | fuel + 1, σ, j, σ', hp, h => by
    simp only [invalidate] at h
    split at h
    · cases h
    · rename_i r hr
      have hs := pre_step hp hr
      have sho := sho_set hr (1 + sumSizes σ r.kids) none
      split at h
      · rename_i hpn
        cases h
        exact ⟨hs.1 hpn, sho⟩
      · rename_i p hpp
        obtain ⟨hi, hsho⟩ := invalidate_inv fuel _ p σ' (hs.2 p hpp) h
        exact ⟨hi, sho.trans hsho⟩

end FV
