/-
Raw mutations (before `invalidate_hash` has run): the store after an edit of node `i` satisfies
the loop invariant `Pre … i`.
-/
import Proofs.ArenaInv
namespace FV
open Store
variable {α : Type} {Hc : Sym → Option String → Option String → List α → α}

theorem upd_length (σ : Store α) (i : Nat) (f : NodeRec α → NodeRec α) : (upd σ i f).length = σ.length := by
  unfold upd; split <;> simp

theorem upd_get (σ : Store α) (i a : Nat) (f : NodeRec α → NodeRec α) :
    (upd σ i f)[a]? = if a = i then (σ[a]?).map f else σ[a]? := by
  unfold upd
  split
  · rename_i r hr
    by_cases h : a = i
    · subst h
      have hlt := (List.getElem?_eq_some_iff.mp hr).1
      simp [List.getElem?_set_self hlt, hr]
    · simp [h, List.getElem?_set_ne (Ne.symm h)]
  · rename_i hr
    by_cases h : a = i
    · subst h; simp [hr]
    · simp [h]

theorem upd_get_ne (σ : Store α) {i a : Nat} (f : NodeRec α → NodeRec α) (h : a ≠ i) :
    (upd σ i f)[a]? = σ[a]? := by rw [upd_get]; simp [h]

theorem upd_get_self (σ : Store α) (i : Nat) (f : NodeRec α → NodeRec α) :
    (upd σ i f)[i]? = (σ[i]?).map f := by rw [upd_get]; simp

theorem get_some_of_lt {σ : Store α} {a : Nat} (h : a < σ.length) : ∃ r, σ[a]? = some r :=
  ⟨σ[a], List.getElem?_eq_getElem h⟩

theorem lt_of_get_some {σ : Store α} {a : Nat} {r : NodeRec α} (h : σ[a]? = some r) : a < σ.length :=
  (List.getElem?_eq_some_iff.mp h).1

theorem absL_of_forall {σ : Store α} : ∀ ks : List Nat, (∀ k ∈ ks, ∃ t, Abs σ k t) → ∃ ts, AbsL σ ks ts
  | [], _ => ⟨[], by simp [AbsL]⟩
  | k :: ks, h => by
    obtain ⟨t, ht⟩ := h k List.mem_cons_self
    obtain ⟨ts, hts⟩ := absL_of_forall ks (fun k' hk' => h k' (List.mem_cons_of_mem _ hk'))
    exact ⟨t :: ts, by simp only [AbsL]; exact ⟨ht, hts⟩⟩

theorem abs_of_kids {σ : Store α} {i : Nat} {r : NodeRec α} (hr : σ[i]? = some r)
    (h : ∀ k ∈ r.kids, ∃ t, Abs σ k t) : ∃ t, Abs σ i t := by
  obtain ⟨ts, hts⟩ := absL_of_forall r.kids h
  exact ⟨.mk r.sym r.sender r.recipient ts, by simp only [Abs]; exact ⟨r, hr, rfl, rfl, rfl, hts⟩⟩

/-- reachability survives a change of node `i` up to the first visit of `i` -/
theorem Reach.transfer {σ σ1 : Store α} {i : Nat}
    (hcore : ∀ (a : Nat) (r : NodeRec α), a ≠ i → σ[a]? = some r → ∃ r', σ1[a]? = some r' ∧ SameCore r r')
    {a b : Nat} (h : Reach σ a b) : Reach σ1 a b ∨ Reach σ1 a i := by
  induction h with
  | refl => exact .inl (.refl _)
  | @step a k b r hr hk _ ih =>
    by_cases hai : a = i
    · subst hai; exact .inr (.refl _)
    · obtain ⟨r', hr', hc⟩ := hcore a r hai hr
      rcases ih with h | h
      · exact .inl (.step hr' (hc.2.2.2 ▸ hk) h)
      · exact .inr (.step hr' (hc.2.2.2 ▸ hk) h)

/-- a subtree that does not contain `i` denotes the same tree after a change of node `i` -/
theorem Abs.frame_off {σ σ1 : Store α} {i : Nat}
    (hcore : ∀ (a : Nat) (r : NodeRec α), a ≠ i → σ[a]? = some r → ∃ r', σ1[a]? = some r' ∧ SameCore r r')
    {a : Nat} {t : Tree} (ha : Abs σ a t) (hn : ¬ Reach σ a i) : Abs σ1 a t :=
  Abs.frame t a ha (fun j hj r hr => hcore j r (fun hji => hn (hji ▸ hj)) hr)

theorem wf_rebuild {σ σ1 : Store α} {i : Nat} {ri1 : NodeRec α}
    (hlen : σ1.length = σ.length)
    (hwf : ∀ a, a < σ.length → ∃ t, Abs σ a t)
    (hcore : ∀ (a : Nat) (r : NodeRec α), a ≠ i → σ[a]? = some r → ∃ r', σ1[a]? = some r' ∧ SameCore r r')
    (hi : σ1[i]? = some ri1)
    (hkids : ∀ k ∈ ri1.kids, k < σ.length ∧ ¬ Reach σ k i) :
    ∀ a, a < σ1.length → ∃ t, Abs σ1 a t := by
  have hI : ∃ t, Abs σ1 i t := by
    apply abs_of_kids hi
    intro k hk
    obtain ⟨hlt, hn⟩ := hkids k hk
    obtain ⟨t, ht⟩ := hwf k hlt
    exact ⟨t, ht.frame_off hcore hn⟩
  have key : ∀ (n : Nat) (a : Nat) (t : Tree), Abs σ a t → t.size ≤ n → ∃ t', Abs σ1 a t' := by
    intro n
    induction n with
    | zero =>
      intro a t _ hs
      cases t with
      | mk s x y ts => simp [Tree.size] at hs
    | succ n ih =>
      intro a t ha hs
      by_cases hai : a = i
      · subst hai; exact hI
      · cases t with
        | mk s x y ts =>
          have ha' := ha
          simp only [Abs] at ha'
          obtain ⟨rec, h1, _, _, _, h5⟩ := ha'
          obtain ⟨r', hr', hc⟩ := hcore a rec hai h1
          apply abs_of_kids hr'
          intro k hk
          rw [← hc.2.2.2] at hk
          obtain ⟨tk, htk, hak⟩ := AbsL.mem _ _ h5 k hk
          have := sizeL_mem ts tk htk
          simp only [Tree.size] at hs
          exact ih k tk hak (by omega)
  intro a ha
  obtain ⟨t, ht⟩ := hwf a (hlen ▸ ha)
  exact key t.size a t ht (Nat.le_refl _)

/-- **raw mutation lemma**: change node `i` (core and anything else), keep the other nodes' cores,
cached sizes / hashes and view flags; if the new children of `i` do not contain `i` and the
parent-link clauses hold in the new store, the new store is `Pre … i`. -/
theorem pre_of_mut {σ σ1 : Store α} {i : Nat} {ri1 : NodeRec α}
    (hp : Pre Hc σ i)
    (hlen : σ1.length = σ.length)
    (hsame : ∀ (a : Nat) (r : NodeRec α), a ≠ i → σ[a]? = some r →
      ∃ r', σ1[a]? = some r' ∧ SameCore r r' ∧ r'.sizeC = r.sizeC ∧ r'.hashC = r.hashC ∧ r'.view = r.view)
    (hi : σ1[i]? = some ri1)
    (hkids : ∀ k ∈ ri1.kids, k < σ.length ∧ ¬ Reach σ k i)
    (hparIn : ∀ (a : Nat) (r : NodeRec α) (p : Nat), σ1[a]? = some r → r.parent = some p → p < σ1.length)
    (hpar : ∀ (a : Nat) (r : NodeRec α) (c : Nat), σ1[a]? = some r → r.view = false → c ∈ r.kids →
      ∃ rc, σ1[c]? = some rc ∧ rc.parent = some a ∧ rc.view = false) :
    Pre Hc σ1 i := by
  have hcore : ∀ (a : Nat) (r : NodeRec α), a ≠ i → σ[a]? = some r → ∃ r', σ1[a]? = some r' ∧ SameCore r r' :=
    fun a r h1 h2 => let ⟨r', x, y, _⟩ := hsame a r h1 h2; ⟨r', x, y⟩
  have back : ∀ (a : Nat) (ra1 : NodeRec α) (t : Tree), σ1[a]? = some ra1 → Abs σ1 a t → ¬ Reach σ1 a i →
      ∃ ra, σ[a]? = some ra ∧ ra.sizeC = ra1.sizeC ∧ ra.hashC = ra1.hashC ∧ ra.view = ra1.view ∧
        Abs σ a t ∧ ¬ Reach σ a i := by
    intro a ra1 t hra1 ha hn
    have hai : a ≠ i := fun h => hn (h ▸ .refl _)
    obtain ⟨ra, hra⟩ := get_some_of_lt (hlen ▸ lt_of_get_some hra1)
    obtain ⟨r', hr', _, hs, hh, hv⟩ := hsame a ra hai hra
    rw [hra1] at hr'; cases hr'
    have hn0 : ¬ Reach σ a i := fun h => by
      rcases h.transfer hcore with h | h <;> exact hn h
    obtain ⟨t0, ht0⟩ := hp.wf a (lt_of_get_some hra)
    have := Abs.det _ _ _ (ht0.frame_off hcore hn0) ha
    subst this
    exact ⟨ra, hra, hs.symm, hh.symm, hv.symm, ht0, hn0⟩
  refine ⟨wf_rebuild hlen hp.wf hcore hi hkids, hparIn, ?_, ?_, hpar⟩
  · intro a ra1 t hra1 hv ha hn
    obtain ⟨ra, hra, hs, _, hvv, ha0, hn0⟩ := back a ra1 t hra1 ha hn
    rw [← hs]; exact hp.size a ra t hra (hvv ▸ hv) ha0 hn0
  · intro a ra1 t h hra1 hv ha hn hh
    obtain ⟨ra, hra, _, hhh, hvv, ha0, hn0⟩ := back a ra1 t hra1 ha hn
    exact hp.hash a ra t h hra (hvv ▸ hv) ha0 hn0 (hhh ▸ hh)

end FV
