/-
`ParNV`: no parent link points to a view (`SliceTree`).  It holds initially and is kept by every operation
of the discipline (views are never edited, `SliceTree(children)` does not re-parent, copies are plain
nodes), so along disciplined histories "the node is not a view" is all `split_end` / `prefix` /
`deepcopy(copy_parent=True)` need (`NoViewUp` follows).
-/
import Proofs.ArenaFull
namespace FV
open Store
variable {α : Type} {Hc : Sym → Option String → Option String → List α → α}

/-- no parent link points to a view -/
def ParNV (σ : Store α) : Prop :=
  ∀ (i : Nat) (r : NodeRec α) (p : Nat), σ[i]? = some r → r.parent = some p →
    ∃ rp, σ[p]? = some rp ∧ rp.view = false

theorem parNV_nil : ParNV ([] : Store α) := fun i r p h => by simp at h

theorem ParNV.noViewUp {σ : Store α} (h : ParNV σ) {i : Nat} {r : NodeRec α} (hr : σ[i]? = some r)
    (hv : r.view = false) : NoViewUp σ i := by
  intro a ha
  have key : ∀ i a, Up σ i a → (∃ r : NodeRec α, σ[i]? = some r ∧ r.view = false) →
      ∃ ra, σ[a]? = some ra ∧ ra.view = false := by
    intro i a hu
    induction hu with
    | refl => exact id
    | step hr hp _ ih => exact fun _ => ih (h _ _ _ hr hp)
  exact key i a ha ⟨r, hr, hv⟩

/-- a store change that keeps view flags and introduces only parent links to plain nodes -/
def PV (σ σ' : Store α) : Prop :=
  (∀ (a : Nat) (r : NodeRec α), σ[a]? = some r → ∃ r', σ'[a]? = some r' ∧ r'.view = r.view) ∧
  (∀ (a : Nat) (r' : NodeRec α) (p : Nat), σ'[a]? = some r' → r'.parent = some p →
    (∃ (b : Nat) (r : NodeRec α), σ[b]? = some r ∧ r.parent = some p) ∨ ∃ rp, σ'[p]? = some rp ∧ rp.view = false)

theorem PV.refl (σ : Store α) : PV σ σ :=
  ⟨fun _ r hr => ⟨r, hr, rfl⟩, fun a r' p hr hp => .inl ⟨a, r', hr, hp⟩⟩

theorem PV.trans {σ σ' σ'' : Store α} (h1 : PV σ σ') (h2 : PV σ' σ'') : PV σ σ'' := by
  refine ⟨fun a r hr => ?_, fun a r'' p hr hp => ?_⟩
  · obtain ⟨r', hr', hv'⟩ := h1.1 a r hr
    obtain ⟨r'', hr'', hv''⟩ := h2.1 a r' hr'
    exact ⟨r'', hr'', hv''.trans hv'⟩
  · rcases h2.2 a r'' p hr hp with ⟨b, r', hb, hbp⟩ | h
    · rcases h1.2 b r' p hb hbp with h | ⟨rp, hrp, hvp⟩
      · exact .inl h
      · obtain ⟨rp'', hrp'', hv''⟩ := h2.1 p rp hrp
        exact .inr ⟨rp'', hrp'', hv''.trans hvp⟩
    · exact .inr h

theorem PV.parNV {σ σ' : Store α} (h : PV σ σ') (hp : ParNV σ) : ParNV σ' := by
  intro i r' p hr hpp
  rcases h.2 i r' p hr hpp with ⟨b, r, hb, hbp⟩ | h2
  · obtain ⟨rp, hrp, hvp⟩ := hp b r p hb hbp
    obtain ⟨rp', hrp', hv'⟩ := h.1 p rp hrp
    exact ⟨rp', hrp', hv'.trans hvp⟩
  · exact h2

/-- a change that keeps the length and every record's parent link and view flag -/
theorem PV.of_same {σ σ' : Store α} (hlen : σ'.length = σ.length)
    (h : ∀ (a : Nat) (r : NodeRec α), σ[a]? = some r → ∃ r', σ'[a]? = some r' ∧ r'.parent = r.parent ∧ r'.view = r.view) :
    PV σ σ' := by
  refine ⟨fun a r hr => let ⟨r', h1, _, h3⟩ := h a r hr; ⟨r', h1, h3⟩, fun a r' p hr' hp => ?_⟩
  obtain ⟨r, hr⟩ := get_some_of_lt (σ := σ) (hlen ▸ lt_of_get_some hr')
  obtain ⟨r'', hr'', hp'', _⟩ := h a r hr
  rw [hr'] at hr''; cases hr''
  exact .inl ⟨a, r, hr, hp''.symm.trans hp⟩

theorem PV.of_sho {σ σ' : Store α} (h : SizeHashOnly σ σ') : PV σ σ' :=
  PV.of_same h.1 (fun a r hr => let ⟨r', h1, _, h3, h4, _⟩ := h.2 a r hr; ⟨r', h1, h3, h4⟩)

theorem PV.of_cut {σ σ' : Store α} {i : Nat} (h : CutAbove σ σ' i) : PV σ σ' :=
  PV.of_same h.1 (fun a r hr => let ⟨r', h1, _, _, _, h5, h6, _⟩ := h.2 a r hr; ⟨r', h1, h5, h6⟩)

/-- `set_children` on a plain node -/
theorem pv_setChildren {σ σ' : Store α} {p : Nat} {ks : List Nat} {rp : NodeRec α} (fuel : Nat)
    (hrp : σ[p]? = some rp) (hvp : rp.view = false) (h : setChildren fuel σ p ks = .ok σ') : PV σ σ' := by
  obtain ⟨hlen, hf⟩ := setChildren_fields fuel h
  refine ⟨fun a r hr => let ⟨r', h1, _, _, _, h5, _⟩ := hf a r hr; ⟨r', h1, h5⟩, fun a r' q hr' hq => ?_⟩
  obtain ⟨r, hr⟩ := get_some_of_lt (σ := σ) (hlen ▸ lt_of_get_some hr')
  obtain ⟨r'', hr'', _, _, _, _, _, _, hp''⟩ := hf a r hr
  rw [hr'] at hr''; cases hr''
  rw [hq] at hp''
  split at hp''
  · cases hp''
    obtain ⟨rp', hrp', _, _, _, hv', _⟩ := hf p rp hrp
    exact .inr ⟨rp', hrp', hv'.trans hvp⟩
  · exact .inl ⟨a, r, hr, hp''.symm⟩

/-- `add_child` on a plain node -/
theorem pv_addChild {σ σ' : Store α} {p c : Nat} {rp : NodeRec α} (fuel : Nat)
    (hrp : σ[p]? = some rp) (hvp : rp.view = false) (h : addChild fuel σ p c = .ok σ') : PV σ σ' := by
  obtain ⟨hlen, hf⟩ := addChild_frame fuel h
  refine ⟨fun a r hr => let ⟨r', h1, h2, _⟩ := hf a r hr; ⟨r', h1, h2⟩, fun a r' q hr' hq => ?_⟩
  obtain ⟨r, hr⟩ := get_some_of_lt (σ := σ) (hlen ▸ lt_of_get_some hr')
  obtain ⟨r'', hr'', _, hp''⟩ := hf a r hr
  rw [hr'] at hr''; cases hr''
  rw [hq] at hp''
  split at hp''
  · cases hp''
    obtain ⟨rp', hrp', hv', _⟩ := hf p rp hrp
    exact .inr ⟨rp', hrp', hv'.trans hvp⟩
  · exact .inl ⟨a, r, hr, hp''.symm⟩

/-- allocation of a record without parent -/
theorem pv_append (σ : Store α) (x : NodeRec α) (hx : x.parent = none) : PV σ (σ ++ [x]) := by
  refine ⟨fun a r hr => ⟨r, by rw [get_append_old _ (lt_of_get_some hr)]; exact hr, rfl⟩, fun a r' p hr' hp => ?_⟩
  rcases lt_or_eq_of_get_append hr' with ⟨_, h⟩ | ⟨_, h⟩
  · exact .inl ⟨a, r', h, hp⟩
  · subst h; rw [hx] at hp; cases hp

/-- the constructor without parent argument -/
theorem pv_mkNode {σ σ' : Store α} {sym : Sym} {a r : Option String} {kids : List Nat} {ro : Bool} {x : Nat}
    (fuel : Nat) (h : mkNode fuel σ sym a r kids none ro = .ok (σ', x)) : PV σ σ' := by
  simp only [mkNode] at h
  split at h
  · cases h
  · rename_i σ'' hs
    cases h
    exact (pv_append σ _ rfl).trans (pv_setChildren fuel (get_append_new σ _) rfl hs)

/-- a setter -/
theorem pv_setField {σ σ' : Store α} {i : Nat} {f : NodeRec α → NodeRec α} (fuel : Nat)
    (hf : ∀ r, (f r).parent = r.parent ∧ (f r).view = r.view) (h : invalidate fuel (upd σ i f) i = .ok σ') :
    PV σ σ' := by
  refine (PV.of_same (upd_length _ _ _) (fun a r hr => ?_)).trans (PV.of_sho (invalidate_sho fuel _ _ _ h))
  rw [upd_get]
  by_cases hai : a = i
  · rw [if_pos hai, hr]; exact ⟨_, rfl, (hf r).1, (hf r).2⟩
  · rw [if_neg hai]; exact ⟨r, hr, rfl, rfl⟩

/-! ### nodes allocated by an operation: plain nodes whose parents are new or are old parent links -/

def NewOK (n : Nat) (σ : Store α) : Prop :=
  (∀ (a : Nat) (r : NodeRec α), n ≤ a → σ[a]? = some r → r.view = false) ∧
  (∀ (a : Nat) (r : NodeRec α) (p : Nat), n ≤ a → σ[a]? = some r → r.parent = some p →
    n ≤ p ∨ ∃ b r0, b < n ∧ σ[b]? = some r0 ∧ r0.parent = some p)

/-- a parent value that a new node may get -/
def ParCond (n : Nat) (σ : Store α) (q : Option Nat) : Prop :=
  ∀ p, q = some p → n ≤ p ∨ ∃ b r0, b < n ∧ σ[b]? = some r0 ∧ r0.parent = some p

theorem NewOK.parCond {n : Nat} {σ : Store α} (h : NewOK n σ) {i : Nat} {r : NodeRec α} (hr : σ[i]? = some r) :
    ParCond n σ r.parent := by
  intro p hp
  by_cases hi : i < n
  · exact .inr ⟨i, r, hi, hr, hp⟩
  · exact h.2 i r p (by omega) hr hp

theorem ParCond.keeps {n : Nat} {σ σ' : Store α} {q : Option Nat} (h : ParCond n σ q) (hk : Keeps n σ σ') :
    ParCond n σ' q := by
  intro p hp
  rcases h p hp with h1 | ⟨b, r0, hb, hr0, hp0⟩
  · exact .inl h1
  · obtain ⟨r', hr', _, hp', _⟩ := hk.2 b r0 hb hr0
    exact .inr ⟨b, r', hb, hr', hp'.trans hp0⟩

/-- all records keep parent link and view flag -/
theorem NewOK.of_same {n : Nat} {σ σ' : Store α} (h : NewOK n σ) (hlen : σ'.length = σ.length)
    (hs : ∀ (a : Nat) (r : NodeRec α), σ[a]? = some r → ∃ r', σ'[a]? = some r' ∧ r'.parent = r.parent ∧ r'.view = r.view) :
    NewOK n σ' := by
  have back : ∀ (a : Nat) (r' : NodeRec α), σ'[a]? = some r' →
      ∃ r, σ[a]? = some r ∧ r'.parent = r.parent ∧ r'.view = r.view := by
    intro a r' hr'
    obtain ⟨r, hr⟩ := get_some_of_lt (σ := σ) (hlen ▸ lt_of_get_some hr')
    obtain ⟨r'', hr'', h1, h2⟩ := hs a r hr
    rw [hr'] at hr''; cases hr''
    exact ⟨r, hr, h1, h2⟩
  refine ⟨fun a r' ha hr' => ?_, fun a r' p ha hr' hp => ?_⟩
  · obtain ⟨r, hr, _, hv⟩ := back a r' hr'
    rw [hv]; exact h.1 a r ha hr
  · obtain ⟨r, hr, hpp, _⟩ := back a r' hr'
    rcases h.2 a r p ha hr (hpp.symm.trans hp) with h1 | ⟨b, r0, hb, hr0, hp0⟩
    · exact .inl h1
    · obtain ⟨r0', hr0', hp0', _⟩ := hs b r0 hr0
      exact .inr ⟨b, r0', hb, hr0', hp0'.trans hp0⟩

theorem NewOK.of_sho {n : Nat} {σ σ' : Store α} (h : NewOK n σ) (hs : SizeHashOnly σ σ') : NewOK n σ' :=
  h.of_same hs.1 (fun a r hr => let ⟨r', h1, _, h3, h4, _⟩ := hs.2 a r hr; ⟨r', h1, h3, h4⟩)

/-- after a `deepcopy` -/
theorem NewOK.copy {n : Nat} {σ σ1 : Store α} (h : NewOK n σ) (hn : n ≤ σ.length)
    (ha : ∀ a, a < σ.length → σ1[a]? = σ[a]?) (hc : FreshClosed σ.length σ1)
    (hnv : ∀ (a : Nat) (r : NodeRec α), σ.length ≤ a → σ1[a]? = some r → r.view = false) : NewOK n σ1 := by
  refine ⟨fun a r hna hr => ?_, fun a r p hna hr hp => ?_⟩
  · by_cases hlt : a < σ.length
    · rw [ha a hlt] at hr; exact h.1 a r hna hr
    · exact hnv a r (by omega) hr
  · by_cases hlt : a < σ.length
    · rw [ha a hlt] at hr
      rcases h.2 a r p hna hr hp with h1 | ⟨b, r0, hb, hr0, hp0⟩
      · exact .inl h1
      · exact .inr ⟨b, r0, hb, by rw [ha b (by omega)]; exact hr0, hp0⟩
    · have := (hc a r (by omega) hr).1 p hp
      exact .inl (by omega)

theorem NewOK.upd_parent {n : Nat} {σ : Store α} (h : NewOK n σ) {c : Nat} (hc : n ≤ c) {q : Option Nat}
    (hq : ParCond n σ q) : NewOK n (upd σ c (fun x => { x with parent := q })) := by
  refine ⟨fun a r ha hr => ?_, fun a r p ha hr hp => ?_⟩
  · obtain ⟨r0, hr0, _, hv, _⟩ := upd_parent_back hr
    rw [hv]; exact h.1 a r0 ha hr0
  · have tr : ∀ p, (n ≤ p ∨ ∃ b r0, b < n ∧ σ[b]? = some r0 ∧ r0.parent = some p) →
        n ≤ p ∨ ∃ b r0, b < n ∧ (upd σ c (fun x => { x with parent := q }))[b]? = some r0 ∧ r0.parent = some p := by
      intro p hp
      rcases hp with h1 | ⟨b, r0, hb, hr0, hp0⟩
      · exact .inl h1
      · exact .inr ⟨b, r0, hb, by rw [upd_get_ne _ _ (by omega)]; exact hr0, hp0⟩
    by_cases hac : a = c
    · rw [upd_get, if_pos hac] at hr
      cases hsa : σ[a]? with
      | none => rw [hsa] at hr; simp at hr
      | some r0 =>
        rw [hsa] at hr; simp only [Option.map_some, Option.some.injEq] at hr
        subst hr
        exact tr p (hq p hp)
    · rw [upd_get_ne _ _ hac] at hr
      exact tr p (h.2 a r p ha hr hp)

theorem NewOK.setChildren {n : Nat} {σ σ' : Store α} (h : NewOK n σ) {c : Nat} {ks : List Nat} (fuel : Nat)
    (hc : n ≤ c) (hks : ∀ k ∈ ks, n ≤ k) (e : setChildren fuel σ c ks = .ok σ') : NewOK n σ' := by
  obtain ⟨hlen, hf⟩ := setChildren_fields fuel e
  have back : ∀ (a : Nat) (r' : NodeRec α), σ'[a]? = some r' → ∃ r, σ[a]? = some r ∧ r'.view = r.view ∧
      r'.parent = (if a ∈ ks then some c else r.parent) := by
    intro a r' hr'
    obtain ⟨r, hr⟩ := get_some_of_lt (σ := σ) (hlen ▸ lt_of_get_some hr')
    obtain ⟨r'', hr'', _, _, _, hv, _, _, hp⟩ := hf a r hr
    rw [hr'] at hr''; cases hr''
    exact ⟨r, hr, hv, hp⟩
  refine ⟨fun a r' ha hr' => ?_, fun a r' p ha hr' hp => ?_⟩
  · obtain ⟨r, hr, hv, _⟩ := back a r' hr'
    rw [hv]; exact h.1 a r ha hr
  · obtain ⟨r, hr, _, hpp⟩ := back a r' hr'
    rw [hp] at hpp
    split at hpp
    · cases hpp; exact .inl hc
    · rcases h.2 a r p ha hr hpp.symm with h1 | ⟨b, r0, hb, hr0, hp0⟩
      · exact .inl h1
      · obtain ⟨r0', hr0', _, _, _, _, _, _, hp0'⟩ := hf b r0 hr0
        have hbk : b ∉ ks := fun hm => by have := hks b hm; omega
        rw [if_neg hbk] at hp0'
        exact .inr ⟨b, r0', hb, hr0', hp0'.trans hp0⟩

theorem NewOK.append {n : Nat} {σ : Store α} (h : NewOK n σ) (hn : n ≤ σ.length) (x : NodeRec α)
    (hv : x.view = false) (hq : ParCond n σ x.parent) : NewOK n (σ ++ [x]) := by
  refine ⟨fun a r ha hr => ?_, fun a r p ha hr hp => ?_⟩
  · rcases lt_or_eq_of_get_append hr with ⟨_, h1⟩ | ⟨_, h1⟩
    · exact h.1 a r ha h1
    · subst h1; exact hv
  · have tr : ∀ p, (n ≤ p ∨ ∃ b r0, b < n ∧ σ[b]? = some r0 ∧ r0.parent = some p) →
        n ≤ p ∨ ∃ b r0, b < n ∧ (σ ++ [x])[b]? = some r0 ∧ r0.parent = some p := by
      intro p hp
      rcases hp with h1 | ⟨b, r0, hb, hr0, hp0⟩
      · exact .inl h1
      · exact .inr ⟨b, r0, hb, by rw [get_append_old _ (by omega)]; exact hr0, hp0⟩
    rcases lt_or_eq_of_get_append hr with ⟨_, h1⟩ | ⟨_, h1⟩
    · exact tr p (h.2 a r p ha h1 hp)
    · subst h1; exact tr p (hq p hp)

theorem NewOK.mkNode {n : Nat} {σ : Store α} (h : NewOK n σ) (hn : n ≤ σ.length) {sym : Sym} {a r : Option String}
    {ks : List Nat} {par : Option Nat} {ro : Bool} {res : Store α × Nat} (fuel : Nat) (hks : ∀ k ∈ ks, n ≤ k)
    (hq : ParCond n σ par) (e : mkNode fuel σ sym a r ks par ro = .ok res) : NewOK n res.1 := by
  simp only [FV.mkNode] at e
  split at e
  · cases e
  · rename_i σ'' hs
    cases e
    exact (h.append hn _ rfl hq).setChildren fuel hn hks hs

theorem newOK_init (σ : Store α) : NewOK σ.length σ :=
  ⟨fun a r ha hr => absurd (lt_of_get_some hr) (by omega), fun a r p ha hr => absurd (lt_of_get_some hr) (by omega)⟩

/-- from the frame facts of an allocating operation to `PV` -/
theorem pv_of_new {σ σ' : Store α} (hk : Keeps σ.length σ σ') (hn : NewOK σ.length σ')
    (hin : ∀ (a : Nat) (r : NodeRec α) (p : Nat), σ'[a]? = some r → r.parent = some p → p < σ'.length) : PV σ σ' := by
  have back : ∀ (b : Nat) (r' : NodeRec α), b < σ.length → σ'[b]? = some r' → ∃ r, σ[b]? = some r ∧ r'.parent = r.parent := by
    intro b r' hb hr'
    obtain ⟨r, hr⟩ := get_some_of_lt hb
    obtain ⟨r'', hr'', _, hp, _⟩ := hk.2 b r hb hr
    rw [hr'] at hr''; cases hr''
    exact ⟨r, hr, hp⟩
  refine ⟨fun a r hr => ?_, fun a r' p hr' hp => ?_⟩
  · obtain ⟨r', hr', _, _, hv, _⟩ := hk.2 a r (lt_of_get_some hr) hr
    exact ⟨r', hr', hv⟩
  · by_cases ha : a < σ.length
    · obtain ⟨r, hr, hpp⟩ := back a r' ha hr'
      exact .inl ⟨a, r, hr, hpp.symm.trans hp⟩
    · rcases hn.2 a r' p (by omega) hr' hp with h1 | ⟨b, r0, hb, hr0, hp0⟩
      · obtain ⟨rp, hrp⟩ := get_some_of_lt (hin a r' p hr' hp)
        exact .inr ⟨rp, hrp, hn.1 p rp h1 hrp⟩
      · obtain ⟨r, hr, hpp⟩ := back b r0 hb hr0
        exact .inl ⟨b, r, hr, hpp.symm.trans hp0⟩

/-- any `deepcopy` -/
theorem pv_deepcopy {σ σ' : Store α} {i c : Nat} {cc cp : Bool} (fuel : Nat) (hI' : Inv Hc σ')
    (h : deepcopy fuel σ i cc cp = .ok (σ', c)) : PV σ σ' := by
  obtain ⟨d0, d1, _, d3⟩ := deepcopy_frame fuel h
  unfold deepcopy at h
  split at h
  · cases h
  · rename_i σ2 m2 c2 e
    cases h
    obtain ⟨hA, _, _⟩ := deepcopyF_aux fuel σ [] i cc cp _ (aux_init σ) e
    exact pv_of_new (Keeps.of_agree ⟨d0, d1⟩ (Nat.le_refl _))
      ((newOK_init σ).copy (Nat.le_refl _) d1 d3 hA.nv) hI'.parIn

/-! ### `replace_multiple` -/

theorem listM_new {n : Nat} {A : Type} {f : Store α → A → Except AErr (Store α × Nat)}
    (hf : ∀ σ x res, FreshKids n σ → n ≤ σ.length → NewOK n σ → f σ x = .ok res →
      ReplFrame n σ res ∧ NewOK n res.1) :
    ∀ (xs : List A) (σ : Store α) (res : Store α × List Nat), FreshKids n σ → n ≤ σ.length → NewOK n σ →
      listM f σ xs = .ok res → NewOK n res.1
  | [], σ, res, _, _, h3, h => by
    simp only [listM] at h; cases h
    exact h3
  | x :: xs, σ, res, h1, h2, h3, h => by
    simp only [listM] at h
    split at h
    · cases h
    · rename_i σ1 c1 e1
      split at h
      · cases h
      · rename_i σ2 cs e2
        cases h
        obtain ⟨⟨a1, a2, _⟩, a4⟩ := hf σ x _ h1 h2 h3 e1
        exact listM_new hf xs σ1 (σ2, cs) a2 (Nat.le_trans h2 a1.1) a4 e2

theorem replaceF_new {n : Nat} (F : Nat) (tbl : List (List Nat × Nat)) : ∀ (fuel : Nat) (σ : Store α) (i : Nat)
    (path : List Nat) (res : Store α × Nat), FreshKids n σ → n ≤ σ.length → NewOK n σ →
    replaceF Hc F fuel σ tbl i path = .ok res → NewOK n res.1
  | 0, _, _, _, _, _, _, _, h => by simp [replaceF] at h
  | fuel + 1, σ, i, path, res, hfk, hn, hok, h => by
    simp only [replaceF] at h
    split at h
    · cases h
    · rename_i r hr
      have hq : ParCond n σ r.parent := hok.parCond hr
      split at h
      · rename_i rep hhit
        split at h
        · cases h
        · rename_i σ1 c e1
          obtain ⟨d0, d1, d2, d3⟩ := deepcopy_frame (fuel + 1) e1
          have hc : n ≤ c := by omega
          have hk1 : Keeps n σ σ1 := Keeps.of_agree ⟨d0, d1⟩ hn
          have hf1 : FreshKids n σ1 := freshKids_of_copy hfk hn d1 d3
          have hf2 := freshKids_upd_parent (c := c) (q := r.parent) hf1
          have hn2 : n ≤ (upd σ1 c (fun x => { x with parent := r.parent })).length := by
            rw [upd_length]; exact Nat.le_trans hn hk1.1
          have hnv1 : ∀ (a : Nat) (ra : NodeRec α), σ.length ≤ a → σ1[a]? = some ra → ra.view = false := by
            unfold deepcopy at e1
            split at e1
            · cases e1
            · rename_i σ2 m2 c2 e
              cases e1
              exact (deepcopyF_aux (fuel + 1) σ [] rep true false _ (aux_init σ) e).1.nv
          have hok1 : NewOK n σ1 := hok.copy hn d1 d3 hnv1
          have hok2 := hok1.upd_parent hc (hq.keeps hk1)
          split at h
          · cases h
          · rename_i rc hrc
            split at h
            · cases h
            · rename_i σ3 ks e3
              split at h
              · cases h
              · rename_i σ4 e4
                cases h
                have hstep : ∀ σa (x : Nat × Nat) rr, FreshKids n σa → n ≤ σa.length → NewOK n σa →
                    replaceF Hc F fuel σa tbl x.1 (path ++ [x.2]) = .ok rr → ReplFrame n σa rr ∧ NewOK n rr.1 :=
                  fun σa x rr h1 h2 h3 hh =>
                    ⟨replaceF_frame F tbl fuel σa x.1 _ rr h1 h2 hh, replaceF_new F tbl fuel σa x.1 _ rr h1 h2 h3 hh⟩
                obtain ⟨b1, b2, b3⟩ := listM_repl (n := n) (fun σa x rr h1 h2 hh =>
                  replaceF_frame F tbl fuel σa x.1 _ rr h1 h2 hh) _ _ _ hf2 hn2 e3
                have hok3 := listM_new (n := n) hstep _ _ _ hf2 hn2 hok2 e3
                exact hok3.setChildren (fuel + 1) hc b3 e4
      · split at h
        · cases h
        · rename_i σ1 ks e1
          have hstep : ∀ σa (x : Nat × Nat) rr, FreshKids n σa → n ≤ σa.length → NewOK n σa →
              (match replaceF Hc F fuel σa tbl x.1 (path ++ [x.2]) with
                | .error e => Except.error e
                | .ok (st1, k') => neProbe Hc F st1 k' x.1) = .ok rr → ReplFrame n σa rr ∧ NewOK n rr.1 := by
            intro σa x rr h1 h2 h3 hh
            split at hh
            · cases hh
            · rename_i st1 k' ex
              obtain ⟨q1, q2, q3⟩ := replaceF_frame F tbl fuel σa x.1 _ _ h1 h2 ex
              have q4 := replaceF_new F tbl fuel σa x.1 _ _ h1 h2 h3 ex
              obtain ⟨s1, s2⟩ := neProbe_sho hh
              exact ⟨⟨q1.trans (Keeps.of_sho s1), q2.of_sho s1, s2 ▸ q3⟩, q4.of_sho s1⟩
          obtain ⟨b1, b2, b3⟩ := listM_repl (n := n) (fun σa x rr h1 h2 hh => by
            split at hh
            · cases hh
            · rename_i st1 k' ex
              obtain ⟨q1, q2, q3⟩ := replaceF_frame F tbl fuel σa x.1 _ _ h1 h2 ex
              obtain ⟨s1, s2⟩ := neProbe_sho hh
              exact ⟨q1.trans (Keeps.of_sho s1), q2.of_sho s1, s2 ▸ q3⟩) _ _ _ hfk hn e1
          have hok1 := listM_new (n := n) hstep _ _ _ hfk hn hok e1
          exact hok1.mkNode (Nat.le_trans hn b1.1) (fuel + 1) b3 (hq.keeps b1) h

theorem pv_replace {σ σ' : Store α} {i c : Nat} {reps : List (Nat × Nat)} (fuel : Nat) (hI' : Inv Hc σ')
    (h : replaceMultiple Hc fuel σ i reps = .ok (σ', c)) : PV σ σ' := by
  obtain ⟨hk, _, _⟩ := replaceMultiple_frame fuel h
  unfold replaceMultiple at h
  cases hT : pathTable fuel σ reps with
  | error e => rw [hT] at h; cases h
  | ok tbl =>
    rw [hT] at h
    simp only at h
    cases hP : choicesPath fuel σ i with
    | error e => rw [hP] at h; cases h
    | ok p =>
      rw [hP] at h
      simp only at h
      have hfk : FreshKids σ.length σ := fun a r ha hr => absurd (lt_of_get_some hr) (by omega)
      have hn := replaceF_new (n := σ.length) fuel tbl fuel σ i p _ hfk (Nat.le_refl _) (newOK_init σ) h
      exact pv_of_new hk hn hI'.parIn

/-! ### `append` -/

theorem appendStep1_pv {σ σ1 : Store α} {i t : Nat} {nt : String} {addNew : Bool} {oe : Option AErr} (fuel : Nat)
    (hok : AppendOk σ i t) (h : appendStep1 fuel σ i nt addNew = (σ1, oe)) : PV σ σ1 := by
  obtain ⟨⟨ri, hri, hvi⟩, _⟩ := hok
  unfold appendStep1 at h
  by_cases hnew : addNew = true
  · rw [if_pos hnew] at h
    split at h
    · cases h; exact PV.refl σ
    · rename_i σa c e1
      split at h
      · cases h; exact PV.refl σ
      · rename_i σ2 e2
        cases h
        have h1 := pv_mkNode fuel e1
        obtain ⟨ri', hri', hvi'⟩ := h1.1 i ri hri
        exact h1.trans (pv_addChild fuel hri' (hvi'.trans hvi) e2)
  · rw [if_neg hnew] at h
    have : σ1 = σ := by
      repeat' split at h
      all_goals (cases h; rfl)
    subst this
    exact PV.refl _

theorem appendOp_pv : ∀ (path : List (String × Bool)) (fuel : Nat) (σ : Store α) (i t : Nat), Inv Hc σ →
    AppendOk σ i t → PV σ (appendOp fuel σ i path t).1
  | [], fuel, σ, i, t, _, hok => by
    simp only [appendOp]
    split
    · exact PV.refl σ
    · rename_i σ1 e
      obtain ⟨⟨ri, hri, hvi⟩, _⟩ := hok
      exact pv_addChild fuel hri hvi e
  | (nt, addNew) :: rest, fuel, σ, i, t, hI, hok => by
    simp only [appendOp]
    split
    · rename_i σ1 e hs
      exact appendStep1_pv fuel hok hs
    · rename_i σ1 hs
      obtain ⟨hI1, hok1⟩ := appendStep1_spec fuel hI hok hs
      have hok1 := hok1 rfl
      have hpv1 := appendStep1_pv fuel hok hs
      split
      · exact hpv1
      · rename_i r1 hr1
        split
        · exact hpv1
        · rename_i l hl
          exact hpv1.trans (appendOp_pv rest fuel σ1 l t hI1 (appendOk_down hI1 hr1 (getLast?_mem hl) hok1))

/-! ### `split_end`, `prefix` -/

theorem splitEnd_pv {σ σ' : Store α} {i c : Nat} {copy : Bool} (fuel : Nat) (hI : Inv Hc σ)
    (hNV : NoViewUp σ i) (h : splitEnd fuel σ i copy = .ok (σ', c)) : PV σ σ' := by
  obtain ⟨ri, hri, hvi⟩ := hNV i (.refl i)
  unfold splitEnd at h
  split at h
  · split at h
    · cases h
    · rename_i σ1 c1 e1
      split at h
      · cases h
      · rename_i σ2 e2
        simp only [Except.ok.injEq, Prod.mk.injEq] at h
        obtain ⟨h1, h2⟩ := h
        subst h1 h2
        obtain ⟨hI1, _⟩ := deepcopy_inv_full fuel hI hri hvi (fun _ => hNV) e1
        obtain ⟨hNV1, _⟩ := deepcopy_noViewUp fuel hI1 e1
        obtain ⟨_, hcut⟩ := splitEndF_inv fuel σ1 c1 σ2 hI1 hNV1 e2
        exact (pv_deepcopy fuel hI1 e1).trans (PV.of_cut hcut)
  · split at h
    · cases h
    · rename_i σ2 e2
      simp only [Except.ok.injEq, Prod.mk.injEq] at h
      obtain ⟨h1, h2⟩ := h
      subst h1 h2
      obtain ⟨_, hcut⟩ := splitEndF_inv fuel σ i σ2 hI hNV e2
      exact PV.of_cut hcut

theorem prefixOp_pv {σ σ' : Store α} {i c : Nat} {copy : Bool} (fuel : Nat) (hI : Inv Hc σ)
    (hNV : NoViewUp σ i) (h : prefixOp fuel σ i copy = .ok (σ', c)) : PV σ σ' := by
  unfold prefixOp at h
  split at h
  · cases h
  · rename_i σ1 c1 e1
    obtain ⟨_, hNV1⟩ := splitEnd_inv fuel hI hNV e1
    have hpv1 := splitEnd_pv fuel hI hNV e1
    split at h
    · cases h
    · rename_i rc hrc
      split at h
      · cases h
      · rename_i p hp
        split at h
        · cases h
        · rename_i rp hrp
          split at h
          · cases h
          · rename_i σ2 e2
            simp only [Except.ok.injEq, Prod.mk.injEq] at h
            obtain ⟨h1, h2⟩ := h
            subst h1 h2
            have hvp : rp.view = false := by
              obtain ⟨rp', hrp', hv⟩ := hNV1 p (.step hrc hp (.refl p))
              rw [hrp] at hrp'; cases hrp'; exact hv
            exact hpv1.trans (pv_setChildren fuel hrp hvp e2)

/-! ### the discipline in terms of "is not a view" only -/

/-- The discipline as the harness mirrors it: `Op.ok`, and `deepcopy` (any flags) / `split_end` / `prefix` (any
flag) on a node that is not a view. -/
def Op.okS (σ : Store α) : Op → Prop
  | .deepcopy i _ _ | .splitEnd i _ | .prefix i _ => ∃ r, σ[i]? = some r ∧ r.view = false
  | op => Op.ok σ op

theorem Op.okS.full {σ : Store α} (hP : ParNV σ) {op : Op} (h : Op.okS σ op) : Op.okFull σ op := by
  cases op <;> try exact h
  · obtain ⟨r, hr, hv⟩ := h
    exact ⟨⟨r, hr, hv⟩, fun _ => hP.noViewUp hr hv⟩
  · obtain ⟨r, hr, hv⟩ := h
    exact hP.noViewUp hr hv
  · obtain ⟨r, hr, hv⟩ := h
    exact hP.noViewUp hr hv

/-- **no operation of the discipline makes a parent link point to a view** -/
theorem step_pv [DecidableEq α] {σ : Store α} (fuel : Nat) (hI : Inv Hc σ) (hP : ParNV σ) (op : Op)
    (hok : Op.okS σ op) : PV σ (step Hc fuel σ op).1 := by
  have hfull := hok.full hP
  cases op with
  | mk sym a r kids ro =>
    simp only [step, liftN]
    split
    · exact PV.refl σ
    · rename_i σ' n e
      exact pv_mkNode fuel e
  | addChild p c =>
    obtain ⟨rp, hrp, hvp, _⟩ := hok
    simp only [step, liftS]
    split
    · exact PV.refl σ
    · rename_i σ' e
      exact pv_addChild fuel hrp hvp e
  | setChildren p cs =>
    obtain ⟨rp, hrp, hvp, _⟩ := hok
    simp only [step, liftS]
    split
    · exact PV.refl σ
    · rename_i σ' e
      exact pv_setChildren fuel hrp hvp e
  | setSym i s =>
    simp only [step, liftS]
    split
    · exact PV.refl σ
    · rename_i σ' e
      exact pv_setField (f := fun r => { r with sym := s }) fuel (fun _ => ⟨rfl, rfl⟩) e
  | setSender i s =>
    simp only [step, liftS]
    split
    · exact PV.refl σ
    · rename_i σ' e
      exact pv_setField (f := fun r => { r with sender := s }) fuel (fun _ => ⟨rfl, rfl⟩) e
  | setRecipient i s =>
    simp only [step, liftS]
    split
    · exact PV.refl σ
    · rename_i σ' e
      exact pv_setField (f := fun r => { r with recipient := s }) fuel (fun _ => ⟨rfl, rfl⟩) e
  | hash i =>
    simp only [step]
    split
    · exact PV.refl σ
    · rename_i σ' h e
      exact PV.of_sho (hashNode_sho fuel σ i _ e)
  | eq i j =>
    simp only [step]
    split
    · exact PV.refl σ
    · rename_i σ' b e
      unfold eqNode at e
      split at e
      · cases e
      · rename_i σ1 h1 e1
        split at e
        · cases e
        · rename_i σ2 h2 e2
          cases e
          exact PV.of_sho ((hashNode_sho fuel σ i _ e1).trans (hashNode_sho fuel σ1 j _ e2))
  | getSlice i a b =>
    simp only [step, liftN]
    split
    · exact PV.refl σ
    · rename_i σ' n e
      unfold getSlice at e
      split at e
      · cases e
      · cases fuel with
        | zero => simp [mkSlice, FV.setChildren, invalidate] at e
        | succ m =>
          rw [mkSlice_eq] at e
          cases e
          exact pv_append σ _ rfl
  | getItem i k => simp only [step, liftR_fst]; exact PV.refl σ
  | size i => simp only [step, liftR_fst]; exact PV.refl σ
  | parent i => simp only [step, liftR_fst]; exact PV.refl σ
  | getPath i => simp only [step, liftR_fst]; exact PV.refl σ
  | flatten i => simp only [step, liftR_fst]; exact PV.refl σ
  | findAll i n => simp only [step, liftR_fst]; exact PV.refl σ
  | findDirect i n => simp only [step, liftR_fst]; exact PV.refl σ
  | choicesPath i => simp only [step, liftR_fst]; exact PV.refl σ
  | value i => simp only [step]; exact PV.refl σ
  | deepcopy i cc cp =>
    obtain ⟨⟨r, hr, hv⟩, hNV⟩ := hfull
    simp only [step, liftN]
    split
    · exact PV.refl σ
    · rename_i σ' n e
      exact pv_deepcopy fuel (deepcopy_inv_full fuel hI hr hv hNV e).1 e
  | splitEnd i c =>
    simp only [step, liftN]
    split
    · exact PV.refl σ
    · rename_i σ' n e
      exact splitEnd_pv fuel hI hfull e
  | «prefix» i c =>
    simp only [step, liftN]
    split
    · exact PV.refl σ
    · rename_i σ' n e
      exact prefixOp_pv fuel hI hfull e
  | replace i reps =>
    obtain ⟨⟨r, hr, hv⟩, hreps⟩ := hok
    simp only [step, liftN]
    split
    · exact PV.refl σ
    · rename_i σ' n e
      exact pv_replace fuel (replaceMultiple_inv fuel hI hr hv hreps e) e
  | append i path t =>
    have := appendOp_pv (Hc := Hc) path fuel σ i t hI hok
    simp only [step]
    split <;> (rename_i hs; rw [hs] at this; exact this)

/-- a history all of whose operations respect the discipline `Op.okS` in the state they are applied to -/
def OkHistS [DecidableEq α] (Hc : Sym → Option String → Option String → List α → α) (fuel : Nat) :
    Store α → List Op → Prop
  | _, [] => True
  | σ, op :: ops => Op.okS σ op ∧ OkHistS Hc fuel (step Hc fuel σ op).1 ops

theorem runOps_inv_S [DecidableEq α] (fuel : Nat) : ∀ (ops : List Op) (σ : Store α), Inv Hc σ → ParNV σ →
    OkHistS Hc fuel σ ops → Inv Hc (runOps Hc fuel σ ops) ∧ ParNV (runOps Hc fuel σ ops)
  | [], _, hI, hP, _ => ⟨hI, hP⟩
  | op :: ops, σ, hI, hP, h =>
    runOps_inv_S fuel ops _ (step_inv_full fuel hI op (h.1.full hP)) ((step_pv fuel hI hP op h.1).parNV hP) h.2

end FV
