/-
`replace_multiple` keeps `Inv` (all nodes involved are not views).  Uses the subtree-copy theorem
(`copySpec_all`) and the frame theorem (`replaceF_frame`).
-/
import Proofs.ArenaCopyInv
namespace FV
open Store
variable {α : Type} {Hc : Sym → Option String → Option String → List α → α}

/-- **`deepcopy` of a subtree keeps the invariant**: `copy_parent=False`, or a node without parent
(`copy.deepcopy(root)`); the copy is a new detached root nobody lists -/
theorem deepcopy_inv {σ σ' : Store α} {i c : Nat} {cc cp : Bool} {ri : NodeRec α} (fuel : Nat) (hI : Inv Hc σ)
    (hri : σ[i]? = some ri) (hv : ri.view = false) (hcp : cp = false ∨ ri.parent = none)
    (h : deepcopy fuel σ i cc cp = .ok (σ', c)) :
    Inv Hc σ' ∧ c = σ.length ∧ AgreeBelow σ.length σ σ' ∧ NewKids σ.length σ' ∧ Unlisted σ' c ∧
    ∃ rc, σ'[c]? = some rc ∧ rc.view = false ∧ rc.parent = none := by
  unfold deepcopy at h
  split at h
  · cases h
  · rename_i σ2 m2 c2 e
    cases h
    have hps : ParSpec [] σ ri cp none := by
      rcases hcp with h | h
      · exact .inl ⟨h, rfl⟩
      · cases cp
        · exact .inl ⟨rfl, rfl⟩
        · exact .inr (.inl ⟨rfl, h, rfl⟩)
    have post := copySpec_all hI fuel σ [] i cc cp none ri _ hI (AgreeBelow.refl _ _) hri hv
      (fun y _ => by simp [memoGet]) hps e
    have hc : c = σ.length := post.cnew
    subst hc
    exact ⟨post.inv, rfl, post.agree, post.newkids,
      unlisted_of_new hI post.agree post.newkids (Nat.le_refl _) (fun h => absurd h (Nat.lt_irrefl _)), post.crec⟩

/-- what `set_children` does to child lists, parent links and flags -/
theorem setChildren_shape {σ σ' : Store α} {p : Nat} {ks : List Nat} (fuel : Nat)
    (h : setChildren fuel σ p ks = .ok σ') :
    σ'.length = σ.length ∧ ∀ (a : Nat) (ra : NodeRec α), σ[a]? = some ra → ∃ ra', σ'[a]? = some ra' ∧
      ra'.view = ra.view ∧ ra'.kids = (if a = p then ks else ra.kids) ∧
      ra'.parent = (if a ∈ ks then some p else ra.parent) := by
  unfold setChildren at h
  have s := invalidate_sho fuel _ p σ' h
  have hlen : (attachRaw σ p ks ks).length = σ.length := by unfold attachRaw; rw [reparent_length, upd_length]
  refine ⟨by rw [s.1]; exact hlen, fun a ra hra => ?_⟩
  have h1 : (attachRaw σ p ks ks)[a]? = some (attachRec p ks ks a ra) := by rw [attachRaw_get, hra]; rfl
  obtain ⟨r', hr', hc, hp', hv', _⟩ := s.2 a _ h1
  exact ⟨r', hr', by rw [hv']; simp [attachRec], by rw [← hc.2.2.2]; simp [attachRec],
    by rw [hp']; simp [attachRec]⟩

/-- constructor over attachable children, with any (live) parent argument -/
theorem mkNode_inv_loose {σ σ' : Store α} {sym : Sym} {a r : Option String} {kids : List Nat} {par : Option Nat}
    {ro : Bool} {x : Nat} (fuel : Nat) (hI : Inv Hc σ) (hpar : ∀ p, par = some p → p < σ.length)
    (hk : ∀ c ∈ kids, ∃ rc, σ[c]? = some rc ∧ rc.view = false ∧ Unlisted σ c ∧
      ∀ p, par = some p → ¬ Up σ p c)
    (h : mkNode fuel σ sym a r kids par ro = .ok (σ', x)) : Inv Hc σ' ∧ x = σ.length := by
  simp only [mkNode] at h
  split at h
  · cases h
  · rename_i σ'' hs
    cases h
    refine ⟨?_, rfl⟩
    have hp : Pre Hc (σ ++ [freshRec sym a r par ro false]) σ.length :=
      alloc_pre hI _ rfl (fun p hp => hpar p hp)
    refine setChildren_pre' fuel hp ⟨_, get_append_new σ _, rfl, fun c hc => .inr ?_⟩ hs
    obtain ⟨rc, hrc, hvc, hu, hup⟩ := hk c hc
    have hlt := lt_of_get_some hrc
    refine ⟨rc, by rw [get_append_old _ hlt]; exact hrc, hvc, fun b rb hrb _ hcb => ?_, fun hupc => ?_⟩
    · rcases lt_or_eq_of_get_append hrb with ⟨_, hb⟩ | ⟨_, hb⟩
      · exact absurd hcb (hu b rb hb)
      · subst hb; simp [freshRec] at hcb
    · cases hupc with
      | refl => omega
      | step hr hp' hrest =>
        rw [get_append_new] at hr; cases hr
        simp only [freshRec] at hp'
        have hplt := hpar _ hp'
        refine hup _ hp' (Up.transfer (n := σ.length) ?_ (fun b rb q hrb hq => hI.parIn b rb q hrb hq) hrest hplt)
        intro b rb' hb hrb'
        exact ⟨rb', by rw [get_append_old _ hb] at hrb'; exact hrb', rfl⟩

/-- all replacement nodes in the table are live and not views -/
def TblOk (σ : Store α) (tbl : List (List Nat × Nat)) : Prop :=
  ∀ p v, (p, v) ∈ tbl → ∃ rv, σ[v]? = some rv ∧ rv.view = false

theorem pathLookup_mem : ∀ (tbl : List (List Nat × Nat)) (p : List Nat) (v : Nat), pathLookup tbl p = some v →
    ∃ q, (q, v) ∈ tbl
  | [], _, _, h => by simp [pathLookup] at h
  | (q, w) :: rest, p, v, h => by
    simp only [pathLookup] at h
    split at h
    · rename_i w' hw
      cases h
      obtain ⟨q', hq'⟩ := pathLookup_mem rest p _ hw
      exact ⟨q', List.mem_cons_of_mem _ hq'⟩
    · split at h
      · cases h; exact ⟨q, List.mem_cons_self⟩
      · cases h

theorem TblOk.keeps {σ σ' : Store α} {tbl : List (List Nat × Nat)} (h : TblOk σ tbl) (hk : Keeps σ.length σ σ') :
    TblOk σ' tbl := by
  intro p v hm
  obtain ⟨rv, hrv, hvv⟩ := h p v hm
  obtain ⟨r', hr', _, _, hv', _⟩ := hk.2 v rv (lt_of_get_some hrv) hrv
  exact ⟨r', hr', hv' ▸ hvv⟩

/-- a rebuilt subtree waiting to be listed: not a view, parent field `par`, listed by nobody -/
def ResOk (σ : Store α) (c : Nat) (par : Option Nat) : Prop :=
  ∃ rc, σ[c]? = some rc ∧ rc.view = false ∧ rc.parent = par ∧ Unlisted σ c

theorem ResOk.keep {σ σ' : Store α} {c : Nat} {par : Option Nat} (hI : Inv Hc σ) (h : ResOk σ c par)
    (hk : Keeps σ.length σ σ') (hf : FreshKids σ.length σ') : ResOk σ' c par := by
  obtain ⟨rc, hrc, hvc, hpc, hu⟩ := h
  have hcl := lt_of_get_some hrc
  obtain ⟨r', hr', _, hp', hv', _⟩ := hk.2 c rc hcl hrc
  refine ⟨r', hr', hv' ▸ hvc, hp'.trans hpc, fun a ra hra hz => ?_⟩
  by_cases hal : a < σ.length
  · obtain ⟨r0, hr0⟩ := get_some_of_lt hal
    obtain ⟨r1, hr1, hc1, _⟩ := hk.2 a r0 hal hr0
    rw [hra] at hr1; cases hr1
    exact hu a r0 hr0 (hc1.2.2.2 ▸ hz)
  · have := hf a ra (by omega) hra c hz; omega

theorem ResOk.sho {σ σ' : Store α} {c : Nat} {par : Option Nat} (h : ResOk σ c par) (hs : SizeHashOnly σ σ') :
    ResOk σ' c par := by
  obtain ⟨rc, hrc, hvc, hpc, hu⟩ := h
  obtain ⟨r', hr', _, hp', hv', _⟩ := hs.2 c rc hrc
  refine ⟨r', hr', hv' ▸ hvc, hp'.trans hpc, fun a ra hra hz => ?_⟩
  obtain ⟨r0, hr0, hc0, _⟩ := hs.symm.2 a ra hra
  exact hu a r0 hr0 (hc0.2.2.2 ▸ hz)

/-- parent chains that start in the old part stay in the old part while old parent links are kept -/
theorem up_old {σ σ' : Store α} (hI : Inv Hc σ) (hk : Keeps σ.length σ σ') {p y : Nat} (hp : p < σ.length)
    (h : Up σ' p y) : y < σ.length := by
  have h0 : Up σ p y := by
    refine Up.transfer (n := σ.length) ?_ (fun a r q hr hq => hI.parIn a r q hr hq) h hp
    intro a r' ha hr'
    obtain ⟨r0, hr0⟩ := get_some_of_lt (σ := σ) ha
    obtain ⟨r1, hr1, _, hp1, _⟩ := hk.2 a r0 ha hr0
    rw [hr'] at hr1; cases hr1
    exact ⟨r0, hr0, hp1.symm⟩
  exact h0.lt hI hp

/-- specification of one recursive call of `replace_multiple` (or of the call followed by the `!=` probe) -/
def ReplSpec (Hc : Sym → Option String → Option String → List α → α) (tbl : List (List Nat × Nat))
    (f : Store α → Nat × Nat → Except AErr (Store α × Nat)) : Prop :=
  ∀ (σa : Store α) (x : Nat × Nat) (rx : NodeRec α) (res : Store α × Nat), Inv Hc σa → TblOk σa tbl →
    σa[x.1]? = some rx → rx.view = false → f σa x = .ok res →
    Inv Hc res.1 ∧ ResOk res.1 res.2 rx.parent ∧ Keeps σa.length σa res.1 ∧ FreshKids σa.length res.1 ∧
      σa.length ≤ res.2

theorem repl_list {tbl : List (List Nat × Nat)} {f : Store α → Nat × Nat → Except AErr (Store α × Nat)}
    (hf : ReplSpec Hc tbl f) (P : Nat) :
    ∀ (xs : List (Nat × Nat)) (σa : Store α) (out : Store α × List Nat), Inv Hc σa → TblOk σa tbl →
      (∀ x ∈ xs, ∃ rx, σa[x.1]? = some rx ∧ rx.view = false ∧ rx.parent = some P) →
      listM f σa xs = .ok out →
      Inv Hc out.1 ∧ Keeps σa.length σa out.1 ∧ FreshKids σa.length out.1 ∧
      ∀ k' ∈ out.2, σa.length ≤ k' ∧ ResOk out.1 k' (some P)
  | [], σa, out, hI, _, _, h => by
    simp only [listM] at h
    cases h
    have hfk : FreshKids σa.length σa := fun a r ha hr => absurd (lt_of_get_some hr) (by omega)
    exact ⟨hI, Keeps.refl _ _, hfk, fun k' hk' => by simp at hk'⟩
  | x :: xs, σa, out, hI, htbl, hxs, h => by
    simp only [listM] at h
    split at h
    · cases h
    · rename_i σ1 c1 e1
      split at h
      · cases h
      · rename_i σ2 cs e2
        cases h
        obtain ⟨rx, hrx, hvx, hpx⟩ := hxs x List.mem_cons_self
        obtain ⟨a1, a2, a3, a4, a5⟩ := hf σa x rx _ hI htbl hrx hvx e1
        have hxs1 : ∀ x' ∈ xs, ∃ rx', σ1[x'.1]? = some rx' ∧ rx'.view = false ∧ rx'.parent = some P := by
          intro x' hx'
          obtain ⟨rx', hrx', hvx', hpx'⟩ := hxs x' (List.mem_cons_of_mem _ hx')
          obtain ⟨r', hr', _, hp', hv', _⟩ := a3.2 x'.1 rx' (lt_of_get_some hrx') hrx'
          exact ⟨r', hr', hv' ▸ hvx', hp'.trans hpx'⟩
        obtain ⟨b1, b2, b3, b4⟩ := repl_list hf P xs σ1 _ a1 (htbl.keeps a3) hxs1 e2
        have hle : σa.length ≤ σ1.length := a3.1
        refine ⟨b1, a3.trans ⟨b2.1, fun a r ha hr => b2.2 a r (by omega) hr⟩, ?_, ?_⟩
        · intro a r ha hr z hz
          by_cases hlt : a < σ1.length
          · obtain ⟨r0, hr0⟩ := get_some_of_lt hlt
            obtain ⟨r1, hr1, hc1, _⟩ := b2.2 a r0 hlt hr0
            rw [hr] at hr1; cases hr1
            exact a4 a r0 ha hr0 z (hc1.2.2.2 ▸ hz)
          · have := b3 a r (by omega) hr z hz; omega
        · intro k' hk'
          rcases List.mem_cons.mp hk' with rfl | hk'
          · exact ⟨a5, (hpx ▸ a2).keep a1 b2 b3⟩
          · obtain ⟨h1, h2⟩ := b4 k' hk'
            exact ⟨by omega, h2⟩

theorem Keeps.mono {n m : Nat} {σ σ' : Store α} (h : Keeps n σ σ') (hmn : m ≤ n) : Keeps m σ σ' :=
  ⟨h.1, fun a r ha hr => h.2 a r (by omega) hr⟩

theorem neProbe_inv {σ : Store α} {F a b : Nat} {res : Store α × Nat} (hI : Inv Hc σ)
    (h : neProbe Hc F σ a b = .ok res) : Inv Hc res.1 := by
  unfold neProbe at h
  split at h
  · cases h
  · rename_i σ1 x e1
    split at h
    · cases h
    · rename_i σ2 y e2
      cases h
      exact (hashNode_spec F σ1 b _ _ (hashNode_spec F σ a _ _ hI e1).1 e2).1

theorem enumFrom_mem {A : Type} : ∀ (l : List A) (n : Nat) (x : A × Nat), x ∈ enumFrom n l → x.1 ∈ l
  | [], _, _, h => by simp [enumFrom] at h
  | a :: as, n, x, h => by
    simp only [enumFrom] at h
    rcases List.mem_cons.mp h with rfl | h
    · exact List.mem_cons_self
    · exact List.mem_cons_of_mem _ (enumFrom_mem as (n + 1) x h)

theorem enum_mem {A : Type} {l : List A} {x : A × Nat} (h : x ∈ enum l) : x.1 ∈ l := enumFrom_mem l 0 x h

/-- the shape of the store after the constructor -/
theorem mkNode_shape {σ σ' : Store α} {sym : Sym} {a r : Option String} {ks : List Nat} {par : Option Nat}
    {ro : Bool} {x : Nat} (fuel : Nat) (h : mkNode fuel σ sym a r ks par ro = .ok (σ', x)) :
    x = σ.length ∧ σ'.length = σ.length + 1 ∧
    (∃ rx, σ'[x]? = some rx ∧ rx.view = false ∧ rx.kids = ks ∧ rx.parent = if σ.length ∈ ks then some σ.length else par) ∧
    (∀ (b : Nat) (rb : NodeRec α), σ[b]? = some rb → ∃ rb', σ'[b]? = some rb' ∧ rb'.kids = rb.kids) := by
  simp only [mkNode] at h
  split at h
  · cases h
  · rename_i σ'' hs
    cases h
    obtain ⟨h1, h2⟩ := setChildren_shape fuel hs
    refine ⟨rfl, by rw [h1]; simp, ?_, ?_⟩
    · obtain ⟨rx, hrx, hv, hk, hp⟩ := h2 σ.length _ (get_append_new σ _)
      exact ⟨rx, hrx, hv, by simpa using hk, by simpa [freshRec] using hp⟩
    · intro b rb hrb
      have hbl := lt_of_get_some hrb
      obtain ⟨rb', hrb', _, hk, _⟩ := h2 b rb (by rw [get_append_old _ hbl]; exact hrb)
      exact ⟨rb', hrb', by rw [hk, if_neg (by omega)]⟩

theorem unlisted_upd_parent {σ : Store α} {c b : Nat} {q : Option Nat} (h : Unlisted σ c) :
    Unlisted (upd σ b (fun x => { x with parent := q })) c := by
  intro a ra hra hz
  rw [upd_get] at hra
  by_cases hab : a = b
  · rw [if_pos hab] at hra
    cases hsa : σ[a]? with
    | none => rw [hsa] at hra; simp at hra
    | some r0 =>
      rw [hsa] at hra; simp only [Option.map_some, Option.some.injEq] at hra
      subst hra
      exact h a r0 hsa hz
  · rw [if_neg hab] at hra
    exact h a ra hra hz

/-- **`replace_multiple` keeps the invariant** (recursive core) -/
theorem replaceF_inv (F : Nat) (tbl : List (List Nat × Nat)) : ∀ (fuel : Nat) (σ : Store α) (i : Nat)
    (path : List Nat) (r : NodeRec α) (res : Store α × Nat), Inv Hc σ → TblOk σ tbl → σ[i]? = some r →
    r.view = false → replaceF Hc F fuel σ tbl i path = .ok res → Inv Hc res.1 ∧ ResOk res.1 res.2 r.parent
  | 0, _, _, _, _, _, _, _, _, _, h => by simp [replaceF] at h
  | fuel + 1, σ, i, path, r, res, hI, htbl, hri, hvi, h => by
    have hrec : ∀ path', ReplSpec Hc tbl (fun (st : Store α) (kn : Nat × Nat) =>
        replaceF Hc F fuel st tbl kn.1 (path' ++ [kn.2])) := by
      intro path' σa x rx res' hIa htbla hrx hvx e
      obtain ⟨q1, q2⟩ := replaceF_inv F tbl fuel σa x.1 _ rx res' hIa htbla hrx hvx e
      have hfk : FreshKids σa.length σa := fun a r ha hr => absurd (lt_of_get_some hr) (by omega)
      obtain ⟨f1, f2, f3⟩ := replaceF_frame (n := σa.length) F tbl fuel σa x.1 _ res' hfk (Nat.le_refl _) e
      exact ⟨q1, q2, f1, f2, f3⟩
    have hparlt : ∀ p, r.parent = some p → p < σ.length := fun p hp => hI.parIn i r p hri hp
    simp only [replaceF, hri] at h
    split at h
    · -- replaced
      rename_i rep hhit
      have hrep : ∃ rr, σ[rep]? = some rr ∧ rr.view = false := by
        split at hhit
        · cases hhit
        · rename_i rep' hl
          obtain ⟨q, hq⟩ := pathLookup_mem tbl path rep' hl
          split at hhit
          · cases hhit
          · split at hhit
            · cases hhit; exact htbl q _ hq
            · cases hhit
      obtain ⟨rr, hrr, hvr⟩ := hrep
      split at h
      · cases h
      · rename_i σ1 c e1
        obtain ⟨hI1, hc, hag1, hnk1, hu1, rc1, hrc1, hvc1, _⟩ := deepcopy_inv (fuel + 1) hI hrr hvr (.inl rfl) e1
        subst hc
        have hl1 : σ.length < σ1.length := lt_of_get_some hrc1
        have hI2 : Inv Hc (upd σ1 σ.length (fun x => { x with parent := r.parent })) :=
          inv_set_parent hI1 hu1 (fun q hq => by have := hparlt q hq; omega)
        have hk02 : Keeps σ.length σ (upd σ1 σ.length (fun x => { x with parent := r.parent })) :=
          (Keeps.of_agree hag1 (Nat.le_refl _)).trans (Keeps.of_agree (upd_fresh _ (Nat.le_refl _)) (Nat.le_refl _))
        have hrc2 : (upd σ1 σ.length (fun x => { x with parent := r.parent }))[σ.length]? =
            some { rc1 with parent := r.parent } := by rw [upd_get_self, hrc1]; rfl
        have hres2 : ResOk (upd σ1 σ.length (fun x => { x with parent := r.parent })) σ.length r.parent :=
          ⟨_, hrc2, hvc1, rfl, unlisted_upd_parent hu1⟩
        have hlen2 : (upd σ1 σ.length (fun x => { x with parent := r.parent })).length = σ1.length := upd_length _ _ _
        rw [hrc2] at h
        simp only [] at h
        split at h
        · cases h
        · rename_i σ3 ks e3
          split at h
          · cases h
          · rename_i σ4 e4
            cases h
            obtain ⟨hI3, hk23, hf23, hks⟩ := repl_list (hrec path) σ.length _ _ _ hI2 (htbl.keeps hk02)
              (fun x hx => by
                have hx' : x.1 ∈ rc1.kids := enum_mem hx
                obtain ⟨rx, hrx, hpx, hvx⟩ := hI2.par σ.length _ x.1 hrc2 hvc1 hx'
                exact ⟨rx, hrx, hvx, hpx⟩) e3
            have hI3 : Inv Hc σ3 := hI3
            have hks : ∀ k' ∈ ks, (upd σ1 σ.length (fun x => { x with parent := r.parent })).length ≤ k' ∧
                ResOk σ3 k' (some σ.length) := hks
            have hk23 : Keeps (upd σ1 σ.length (fun x => { x with parent := r.parent })).length
                (upd σ1 σ.length (fun x => { x with parent := r.parent })) σ3 := hk23
            have hf23 : FreshKids (upd σ1 σ.length (fun x => { x with parent := r.parent })).length σ3 := hf23
            rw [hlen2] at hk23 hf23 hks
            have hres3 : ResOk σ3 σ.length r.parent := by
              have := hres2.keep hI2 (by rw [hlen2]; exact hk23) (by rw [hlen2]; exact hf23)
              exact this
            obtain ⟨rc3, hrc3, hvc3, hpc3, hu3⟩ := hres3
            have hk03 : Keeps σ.length σ σ3 := hk02.trans (hk23.mono (by omega))
            have hnotin : σ.length ∉ ks := fun hm => by have := (hks _ hm).1; omega
            have hI4 : Inv Hc σ4 := by
              refine setChildren_pre' (fuel + 1) (hI3.pre _) ⟨rc3, hrc3, hvc3, fun v hv => .inr ?_⟩ e4
              obtain ⟨hvl, rv, hrv, hvv, _, huv⟩ := hks v hv
              refine ⟨rv, hrv, hvv, fun a ra hra _ hc => absurd hc (huv a ra hra), fun hup => ?_⟩
              cases hup with
              | refl => omega
              | step hr hp hrest =>
                rw [hrc3] at hr; cases hr
                have hpl := hparlt _ (hpc3.symm.trans hp)
                have := up_old hI hk03 hpl hrest
                omega
            obtain ⟨s1, s2⟩ := setChildren_shape (fuel + 1) e4
            obtain ⟨rc4, hrc4, hv4, _, hp4⟩ := s2 σ.length rc3 hrc3
            refine ⟨hI4, rc4, hrc4, hv4.trans hvc3, by rw [hp4, if_neg hnotin]; exact hpc3, fun a ra hra hz => ?_⟩
            obtain ⟨ra3, hra3⟩ := get_some_of_lt (σ := σ3) (s1 ▸ lt_of_get_some hra)
            obtain ⟨ra', hra', _, hk', _⟩ := s2 a ra3 hra3
            rw [hra] at hra'; cases hra'
            rw [hk'] at hz
            by_cases hac : a = σ.length
            · rw [if_pos hac] at hz; exact hnotin hz
            · rw [if_neg hac] at hz; exact hu3 a ra3 hra3 hz
    · -- not replaced
      split at h
      · cases h
      · rename_i σ1 ks e1
        have hspec' : ReplSpec Hc tbl (fun (st : Store α) (kn : Nat × Nat) =>
            match replaceF Hc F fuel st tbl kn.1 (path ++ [kn.2]) with
            | .error e => .error e
            | .ok (st1, k') => neProbe Hc F st1 k' kn.1) := by
          intro σa x rx res' hIa htbla hrx hvx e
          dsimp only at e
          split at e
          · cases e
          · rename_i st1 k' ex
            obtain ⟨q1, q2, q3, q4, q5⟩ := hrec path σa x rx _ hIa htbla hrx hvx ex
            obtain ⟨s1, s2⟩ := neProbe_sho e
            exact ⟨neProbe_inv q1 e, s2 ▸ q2.sho s1, q3.trans (Keeps.of_sho s1), q4.of_sho s1, s2 ▸ q5⟩
        obtain ⟨hI1, hk01, hf01, hks⟩ := repl_list hspec' i _ _ _ hI htbl
          (fun x hx => by
            obtain ⟨rx, hrx, hpx, hvx⟩ := hI.par i r x.1 hri hvi (enum_mem hx)
            exact ⟨rx, hrx, hvx, hpx⟩) e1
        have hI1 : Inv Hc σ1 := hI1
        have hk01 : Keeps σ.length σ σ1 := hk01
        have hks : ∀ k' ∈ ks, σ.length ≤ k' ∧ ResOk σ1 k' (some i) := hks
        have hl01 : σ.length ≤ σ1.length := hk01.1
        obtain ⟨hI', hx⟩ := mkNode_inv_loose (fuel + 1) hI1 (fun p hp => by have := hparlt p hp; omega)
          (fun v hv => by
            obtain ⟨hvl, rv, hrv, hvv, _, huv⟩ := hks v hv
            refine ⟨rv, hrv, hvv, huv, fun p hp hup => ?_⟩
            have := up_old hI hk01 (hparlt p hp) hup
            omega) (x := res.2) (σ' := res.1) h
        obtain ⟨m1, m2, ⟨rx, hrx, hvx, hkx, hpx⟩, m4⟩ := mkNode_shape (fuel + 1) (x := res.2) (σ' := res.1) h
        have hnotin : σ1.length ∉ ks := fun hm => by
          obtain ⟨_, rv, hrv, _⟩ := hks _ hm
          exact absurd (lt_of_get_some hrv) (Nat.lt_irrefl _)
        refine ⟨hI', rx, hrx, hvx, by rw [hpx, if_neg hnotin], fun a ra hra hz => ?_⟩
        by_cases hal : a < σ1.length
        · obtain ⟨ra1, hra1⟩ := get_some_of_lt hal
          obtain ⟨ra', hra', hk'⟩ := m4 a ra1 hra1
          rw [hra] at hra'; cases hra'
          rw [hk'] at hz
          have := kid_lt hI1 hra1 hz
          omega
        · have hax : a = res.2 := by
            have := lt_of_get_some hra
            omega
          subst hax
          rw [hrx] at hra; cases hra
          rw [hkx] at hz
          exact hnotin (m1 ▸ hz)

theorem pathTable_mem (fuel : Nat) (σ : Store α) : ∀ (reps : List (Nat × Nat)) (tbl : List (List Nat × Nat)),
    pathTable fuel σ reps = .ok tbl → ∀ p v, (p, v) ∈ tbl → ∃ a, (a, v) ∈ reps
  | [], tbl, h, p, v, hm => by simp only [pathTable] at h; cases h; simp at hm
  | (a, b) :: rest, tbl, h, p, v, hm => by
    simp only [pathTable] at h
    split at h
    · cases h
    · rename_i q eq
      split at h
      · cases h
      · rename_i tbl' et
        cases h
        rcases List.mem_cons.mp hm with hm | hm
        · cases hm; exact ⟨a, List.mem_cons_self⟩
        · obtain ⟨a', ha'⟩ := pathTable_mem fuel σ rest tbl' et p v hm
          exact ⟨a', List.mem_cons_of_mem _ ha'⟩

/-- **`replace` / `replace_multiple` keep the invariant** when the node and the replacements are not views -/
theorem replaceMultiple_inv {σ σ' : Store α} {i c : Nat} {reps : List (Nat × Nat)} {r : NodeRec α} (fuel : Nat)
    (hI : Inv Hc σ) (hri : σ[i]? = some r) (hv : r.view = false)
    (hreps : ∀ a b, (a, b) ∈ reps → ∃ rb, σ[b]? = some rb ∧ rb.view = false)
    (h : replaceMultiple Hc fuel σ i reps = .ok (σ', c)) : Inv Hc σ' := by
  unfold replaceMultiple at h
  cases hT : pathTable fuel σ reps with
  | error e => rw [hT] at h; cases h
  | ok tbl =>
    rw [hT] at h
    simp only at h
    cases hP : choicesPath fuel σ i with
    | error e => rw [hP] at h; cases h
    | ok p =>
      rw [hP] at h
      simp only at h
      have htbl : TblOk σ tbl := fun q v hm => by
        obtain ⟨a, ha⟩ := pathTable_mem fuel σ reps tbl hT q v hm
        exact hreps a v ha
      exact (replaceF_inv fuel tbl fuel σ i p r _ hI htbl hri hv h).1

end FV
