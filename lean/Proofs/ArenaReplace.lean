/-
`replace_multiple` leaves every pre-existing node's symbol, parties, child list, parent link and flags
as they were (only cached sizes / hashes of old nodes may be rewritten: the constructor walks up the old
parent chain, `!=` hashes old children) and returns a tree all of whose nodes are new.  No invariant needed.
-/
import Proofs.ArenaCopy
namespace FV
open Store
variable {α : Type} {Hc : Sym → Option String → Option String → List α → α}

/-- the records below `n` keep their structure (core, parent, flags) -/
def Keeps (n : Nat) (σ σ' : Store α) : Prop :=
  σ.length ≤ σ'.length ∧ ∀ (a : Nat) (r : NodeRec α), a < n → σ[a]? = some r →
    ∃ r', σ'[a]? = some r' ∧ SameCore r r' ∧ r'.parent = r.parent ∧ r'.view = r.view ∧ r'.readOnly = r.readOnly

theorem Keeps.refl (n : Nat) (σ : Store α) : Keeps n σ σ :=
  ⟨Nat.le_refl _, fun _ r _ hr => ⟨r, hr, SameCore.rfl' r, rfl, rfl, rfl⟩⟩

theorem Keeps.trans {n : Nat} {σ σ' σ'' : Store α} (h1 : Keeps n σ σ') (h2 : Keeps n σ' σ'') : Keeps n σ σ'' := by
  refine ⟨Nat.le_trans h1.1 h2.1, fun a r ha hr => ?_⟩
  obtain ⟨r', hr', hc, hp, hv, ho⟩ := h1.2 a r ha hr
  obtain ⟨r'', hr'', hc', hp', hv', ho'⟩ := h2.2 a r' ha hr'
  exact ⟨r'', hr'', ⟨hc.1.trans hc'.1, hc.2.1.trans hc'.2.1, hc.2.2.1.trans hc'.2.2.1, hc.2.2.2.trans hc'.2.2.2⟩,
    hp'.trans hp, hv'.trans hv, ho'.trans ho⟩

theorem Keeps.of_sho {n : Nat} {σ σ' : Store α} (h : SizeHashOnly σ σ') : Keeps n σ σ' :=
  ⟨by rw [h.1]; exact Nat.le_refl _, fun a r _ hr => h.2 a r hr⟩

theorem Keeps.of_agree {n m : Nat} {σ σ' : Store α} (h : AgreeBelow m σ σ') (hnm : n ≤ m) : Keeps n σ σ' :=
  ⟨h.1, fun a r ha hr => ⟨r, by rw [h.2 a (by omega)]; exact hr, SameCore.rfl' r, rfl, rfl, rfl⟩⟩

/-- nodes from `n` on list only nodes from `n` on -/
def FreshKids (n : Nat) (σ : Store α) : Prop :=
  ∀ (a : Nat) (r : NodeRec α), n ≤ a → σ[a]? = some r → ∀ k ∈ r.kids, n ≤ k

theorem FreshKids.of_sho {n : Nat} {σ σ' : Store α} (hf : FreshKids n σ) (h : SizeHashOnly σ σ') : FreshKids n σ' := by
  intro a r' ha hr' k hk
  obtain ⟨r, hr, hc, _⟩ := h.symm.2 a r' hr'
  exact hf a r ha hr k (hc.2.2.2 ▸ hk)

/-! ### `hash()` without any invariant: only cache fields change -/

theorem sho_upd_hash {σ : Store α} (i : Nat) (h : Option α) :
    SizeHashOnly σ (upd σ i (fun x => { x with hashC := h })) := by
  cases hr : σ[i]? with
  | none => unfold upd; rw [hr]; exact SizeHashOnly.refl σ
  | some r => exact (hashOnly_upd hr h).1

theorem listM_sho {β : Type} {f : Store α → Nat → Except AErr (Store α × β)}
    (hf : ∀ σ k res, f σ k = .ok res → SizeHashOnly σ res.1) :
    ∀ (ks : List Nat) (σ : Store α) (res : Store α × List β), listM f σ ks = .ok res → SizeHashOnly σ res.1
  | [], σ, res, h => by simp only [listM] at h; cases h; exact SizeHashOnly.refl σ
  | k :: ks, σ, res, h => by
    simp only [listM] at h
    split at h
    · cases h
    · rename_i σ1 b e1
      split at h
      · cases h
      · rename_i σ2 bs e2
        cases h
        exact (hf σ k _ e1).trans (listM_sho hf ks σ1 (σ2, bs) e2)

theorem hashNode_sho : ∀ (fuel : Nat) (σ : Store α) (i : Nat) (res : Store α × α),
    hashNode Hc fuel σ i = .ok res → SizeHashOnly σ res.1
  | 0, _, _, _, h => by simp [hashNode] at h
  | fuel + 1, σ, i, res, h => by
    simp only [hashNode] at h
    split at h
    · cases h
    · split at h
      · cases h; exact SizeHashOnly.refl σ
      · split at h
        · cases h
        · rename_i σ1 hs e1
          cases h
          exact (listM_sho (hashNode_sho fuel) _ σ _ e1).trans (sho_upd_hash i _)

theorem neProbe_sho {σ : Store α} {F a b : Nat} {res : Store α × Nat} (h : neProbe Hc F σ a b = .ok res) :
    SizeHashOnly σ res.1 ∧ res.2 = a := by
  unfold neProbe at h
  split at h
  · cases h
  · rename_i σ1 x e1
    split at h
    · cases h
    · rename_i σ2 y e2
      cases h
      exact ⟨(hashNode_sho F σ a _ e1).trans (hashNode_sho F σ1 b _ e2), rfl⟩

/-! ### building blocks on fresh nodes -/

theorem invalidate_sho : ∀ (fuel : Nat) (σ : Store α) (j : Nat) (σ' : Store α),
    invalidate fuel σ j = .ok σ' → SizeHashOnly σ σ'
  | 0, _, _, _, h => by simp [invalidate] at h
  | fuel + 1, σ, j, σ', h => by
    simp only [invalidate] at h
    split at h
    · cases h
    · rename_i r hr
      have s1 := sho_set hr (1 + sumSizes σ r.kids) none
      split at h
      · cases h; exact s1
      · exact s1.trans (invalidate_sho fuel _ _ σ' h)

theorem attachRaw_keeps {n : Nat} {σ : Store α} {c : Nat} {ks : List Nat} (hc : n ≤ c) (hks : ∀ k ∈ ks, n ≤ k) :
    Keeps n σ (attachRaw σ c ks ks) :=
  Keeps.of_agree ((upd_fresh _ hc).trans (reparent_fresh c ks _ hks)) (Nat.le_refl n)

theorem attachRaw_freshKids {n : Nat} {σ : Store α} {c : Nat} {ks : List Nat} (hf : FreshKids n σ)
    (hks : ∀ k ∈ ks, n ≤ k) : FreshKids n (attachRaw σ c ks ks) := by
  intro a ra ha hra k hk
  rw [attachRaw_get] at hra
  cases hsa : σ[a]? with
  | none => rw [hsa] at hra; simp at hra
  | some r0 =>
    rw [hsa] at hra
    simp only [Option.map_some, Option.some.injEq] at hra
    subst hra
    by_cases hac : a = c
    · simp [attachRec, hac] at hk; exact hks k hk
    · simp [attachRec, hac] at hk; exact hf a r0 ha hsa k hk

theorem setChildren_keeps {n : Nat} {σ σ' : Store α} {c : Nat} {ks : List Nat} (fuel : Nat)
    (hf : FreshKids n σ) (hc : n ≤ c) (hks : ∀ k ∈ ks, n ≤ k) (h : setChildren fuel σ c ks = .ok σ') :
    Keeps n σ σ' ∧ FreshKids n σ' ∧ σ'.length = σ.length := by
  unfold setChildren at h
  have s := invalidate_sho fuel _ c σ' h
  refine ⟨(attachRaw_keeps hc hks).trans (Keeps.of_sho s), (attachRaw_freshKids hf hks).of_sho s, ?_⟩
  have : (attachRaw σ c ks ks).length = σ.length := by unfold attachRaw; rw [reparent_length, upd_length]
  rw [s.1]; exact this

theorem mkNode_keeps {n : Nat} {σ : Store α} {sym : Sym} {a r : Option String} {ks : List Nat}
    {par : Option Nat} {ro : Bool} {res : Store α × Nat} (fuel : Nat) (hf : FreshKids n σ) (hn : n ≤ σ.length)
    (hks : ∀ k ∈ ks, n ≤ k) (h : mkNode fuel σ sym a r ks par ro = .ok res) :
    Keeps n σ res.1 ∧ FreshKids n res.1 ∧ n ≤ res.2 ∧ σ.length ≤ res.1.length := by
  simp only [mkNode] at h
  split at h
  · cases h
  · rename_i σ'' hs
    cases h
    have hfa : FreshKids n (σ ++ [freshRec sym a r par ro false]) := by
      intro x rx hx hrx k hk
      rcases lt_or_eq_of_get_append hrx with ⟨_, h⟩ | ⟨_, h⟩
      · exact hf x rx hx h k hk
      · subst h; simp [freshRec] at hk
    obtain ⟨h1, h2, h3⟩ := setChildren_keeps fuel hfa hn hks hs
    exact ⟨(Keeps.of_agree (append_agree n σ _ hn) (Nat.le_refl n)).trans h1, h2, hn, by rw [h3]; simp⟩

theorem freshKids_of_copy {n : Nat} {σ σ' : Store α} (hf : FreshKids n σ) (hn : n ≤ σ.length)
    (ha : ∀ a, a < σ.length → σ'[a]? = σ[a]?) (hc : FreshClosed σ.length σ') : FreshKids n σ' := by
  intro a r hna hr k hk
  by_cases hlt : a < σ.length
  · rw [ha a hlt] at hr; exact hf a r hna hr k hk
  · have := (hc a r (by omega) hr).2 k hk; omega

theorem freshKids_upd_parent {n : Nat} {σ : Store α} {c : Nat} {q : Option Nat} (hf : FreshKids n σ) :
    FreshKids n (upd σ c (fun x => { x with parent := q })) := by
  intro a ra ha hra k hk
  rw [upd_get] at hra
  by_cases hac : a = c
  · rw [if_pos hac] at hra
    cases hsa : σ[a]? with
    | none => rw [hsa] at hra; simp at hra
    | some r0 =>
      rw [hsa] at hra
      simp only [Option.map_some, Option.some.injEq] at hra
      subst hra
      exact hf a r0 ha hsa k hk
  · rw [if_neg hac] at hra
    exact hf a ra ha hra k hk

/-- specification of one recursive `replace_multiple` call, as a frame -/
def ReplFrame (n : Nat) (σ : Store α) (res : Store α × Nat) : Prop :=
  Keeps n σ res.1 ∧ FreshKids n res.1 ∧ n ≤ res.2

theorem listM_repl {n : Nat} {A : Type} {f : Store α → A → Except AErr (Store α × Nat)}
    (hf : ∀ σ x res, FreshKids n σ → n ≤ σ.length → f σ x = .ok res → ReplFrame n σ res) :
    ∀ (xs : List A) (σ : Store α) (res : Store α × List Nat), FreshKids n σ → n ≤ σ.length →
      listM f σ xs = .ok res → Keeps n σ res.1 ∧ FreshKids n res.1 ∧ ∀ c ∈ res.2, n ≤ c
  | [], σ, res, h1, _, h => by
    simp only [listM] at h; cases h
    exact ⟨Keeps.refl n σ, h1, fun c hc => by simp at hc⟩
  | x :: xs, σ, res, h1, h2, h => by
    simp only [listM] at h
    split at h
    · cases h
    · rename_i σ1 c1 e1
      split at h
      · cases h
      · rename_i σ2 cs e2
        cases h
        obtain ⟨a1, a2, a3⟩ := hf σ x _ h1 h2 e1
        obtain ⟨b1, b2, b3⟩ := listM_repl hf xs σ1 _ a2 (Nat.le_trans h2 a1.1) e2
        refine ⟨a1.trans b1, b2, fun c hc => ?_⟩
        rcases List.mem_cons.mp hc with rfl | hc
        · exact a3
        · exact b3 c hc

theorem replaceF_frame {n : Nat} (F : Nat) (tbl : List (List Nat × Nat)) : ∀ (fuel : Nat) (σ : Store α) (i : Nat)
    (path : List Nat) (res : Store α × Nat), FreshKids n σ → n ≤ σ.length →
    replaceF Hc F fuel σ tbl i path = .ok res → ReplFrame n σ res
  | 0, _, _, _, _, _, _, h => by simp [replaceF] at h
  | fuel + 1, σ, i, path, res, hfk, hn, h => by
    simp only [replaceF] at h
    split at h
    · cases h
    · rename_i r hr
      split at h
      · -- replaced: deep copy of the replacement, then recursion into the copy's children
        rename_i rep hhit
        split at h
        · cases h
        · rename_i σ1 c e1
          obtain ⟨d0, d1, d2, d3⟩ := deepcopy_frame (fuel + 1) e1
          have hc : n ≤ c := by omega
          have hk1 : Keeps n σ σ1 := Keeps.of_agree ⟨d0, d1⟩ hn
          have hf1 : FreshKids n σ1 := freshKids_of_copy hfk hn d1 d3
          have hf2 := freshKids_upd_parent (c := c) (q := r.parent) hf1
          have hk2 : Keeps n σ1 (upd σ1 c (fun x => { x with parent := r.parent })) :=
            Keeps.of_agree (upd_fresh _ hc) (Nat.le_refl n)
          have hn2 : n ≤ (upd σ1 c (fun x => { x with parent := r.parent })).length := by
            rw [upd_length]; exact Nat.le_trans hn hk1.1
          split at h
          · cases h
          · rename_i rc hrc
            split at h
            · cases h
            · rename_i σ3 ks e3
              split at h
              · cases h
              · rename_i σ4 e4
                cases h
                obtain ⟨b1, b2, b3⟩ := listM_repl (n := n) (fun σa x rr h1 h2 hh =>
                  replaceF_frame F tbl fuel σa x.1 _ rr h1 h2 hh) _ _ _ hf2 hn2 e3
                obtain ⟨g1, g2, _⟩ := setChildren_keeps (fuel + 1) b2 hc b3 e4
                exact ⟨hk1.trans (hk2.trans (b1.trans g1)), g2, hc⟩
      · -- not replaced: rebuild the node over the rebuilt children
        split at h
        · cases h
        · rename_i σ1 ks e1
          obtain ⟨b1, b2, b3⟩ := listM_repl (n := n) (fun σa x rr h1 h2 hh => by
            split at hh
            · cases hh
            · rename_i st1 k' ex
              obtain ⟨q1, q2, q3⟩ := replaceF_frame F tbl fuel σa x.1 _ _ h1 h2 ex
              obtain ⟨s1, s2⟩ := neProbe_sho hh
              exact ⟨q1.trans (Keeps.of_sho s1), q2.of_sho s1, s2 ▸ q3⟩) _ _ _ hfk hn e1
          obtain ⟨g1, g2, g3, _⟩ := mkNode_keeps (fuel + 1) b2 (Nat.le_trans hn b1.1) b3 h
          exact ⟨b1.trans g1, g2, g3⟩

/-- **`replace` / `replace_multiple` return a new tree and leave their inputs alone**: every
pre-existing node keeps symbol, sender, recipient, child list, parent link and flags; the result and
everything below it is new. -/
theorem replaceMultiple_frame {σ σ' : Store α} {i c : Nat} {reps : List (Nat × Nat)} (fuel : Nat)
    (h : replaceMultiple Hc fuel σ i reps = .ok (σ', c)) :
    Keeps σ.length σ σ' ∧ σ.length ≤ c ∧ FreshKids σ.length σ' := by
  unfold replaceMultiple at h
  cases hT : pathTable fuel σ reps with
  | error e => rw [hT] at h; cases h
  | ok tbl =>
    rw [hT] at h
    simp only at h
    cases hP : choicesPath fuel σ i with
    | error e => rw [hP] at h; cases h
    | ok p =>
      rw [hP] at h
      simp only at h
      have hfk : FreshKids σ.length σ := fun a r ha hr => absurd (lt_of_get_some hr) (by omega)
      obtain ⟨h1, h2, h3⟩ := replaceF_frame (n := σ.length) fuel tbl fuel σ i p _ hfk (Nat.le_refl _) h
      exact ⟨h1, h3, h2⟩

end FV
