/-
`deepcopy` (all flags), `split_end`, `prefix`: `Inv` preservation and the frame / aliasing facts.
-/
import Proofs.ArenaCopyUpInv
namespace FV
open Store
variable {α : Type} {Hc : Sym → Option String → Option String → List α → α}

/-! ### `deepcopy`, all flags -/

/-- **every `deepcopy` / `copy.deepcopy` of a node keeps the invariant** — including the upward whole-tree
copy (`copy_parent=True` on a node that has a parent), provided no node on the parent chain is a view -/
theorem deepcopy_inv_full {σ σ' : Store α} {i c : Nat} {cc cp : Bool} {ri : NodeRec α} (fuel : Nat)
    (hI : Inv Hc σ) (hri : σ[i]? = some ri) (hv : ri.view = false) (hNV : cp = true → NoViewUp σ i)
    (h : deepcopy fuel σ i cc cp = .ok (σ', c)) : Inv Hc σ' ∧ c = σ.length := by
  cases cp with
  | false =>
    obtain ⟨h1, h2, _⟩ := deepcopy_inv fuel hI hri hv (.inl rfl) h
    exact ⟨h1, h2⟩
  | true =>
    unfold deepcopy at h
    split at h
    · cases h
    · rename_i σ2 m2 c2 e
      cases h
      have hM : MI σ σ [] i := ⟨fun y hy => absurd (by simp [memoGet]) hy, fun z v hz => by simp [memoGet] at hz⟩
      have post := upSpec_all hI fuel σ [] i cc ri _ hI (AgreeBelow.refl _ _) (aux_init σ) hri (hNV rfl) rfl hM e
      exact ⟨post.inv, post.cnew⟩

/-- the parent chain of a new node consists of new nodes, none of them a view -/
theorem noViewUp_fresh {n : Nat} {σ : Store α} (hf : FreshClosed n σ)
    (hnv : ∀ (a : Nat) (r : NodeRec α), n ≤ a → σ[a]? = some r → r.view = false)
    (hin : ∀ (a : Nat) (r : NodeRec α) (p : Nat), σ[a]? = some r → r.parent = some p → p < σ.length)
    {c : Nat} (hc : n ≤ c) (hcl : c < σ.length) : NoViewUp σ c := by
  intro a ha
  have key : ∀ c a, Up σ c a → n ≤ c → c < σ.length → ∃ ra, σ[a]? = some ra ∧ ra.view = false := by
    intro c a h
    induction h with
    | refl i =>
      intro h1 h2
      obtain ⟨r, hr⟩ := get_some_of_lt h2
      exact ⟨r, hr, hnv i r h1 hr⟩
    | @step i p a r hr hp _ ih =>
      intro h1 _
      exact ih ((hf i r h1 hr).1 p hp) (hin i r p hr hp)
  exact key c a ha hc hcl

/-- after any `deepcopy` the copy hangs below copies only -/
theorem deepcopy_noViewUp {σ σ' : Store α} {i c : Nat} {cc cp : Bool} (fuel : Nat) (hI' : Inv Hc σ')
    (h : deepcopy fuel σ i cc cp = .ok (σ', c)) : NoViewUp σ' c ∧ σ.length ≤ c := by
  obtain ⟨_, _, hc, hfc⟩ := deepcopy_frame fuel h
  unfold deepcopy at h
  split at h
  · cases h
  · rename_i σ2 m2 c2 e
    cases h
    obtain ⟨hA, _, hself⟩ := deepcopyF_aux fuel σ [] i cc cp _ (aux_init σ) e
    have hcl : c < σ'.length := (hA.bound i c hself).2
    exact ⟨noViewUp_fresh hfc hA.nv hI'.parIn hc hcl, hc⟩

/-! ### `_split_end` -/

theorem indexOfRef_mem : ∀ (l : List Nat) (x n : Nat), indexOfRef l x = some n → x ∈ l
  | [], _, _, h => by simp [indexOfRef] at h
  | y :: ys, x, n, h => by
    simp only [indexOfRef] at h
    split at h
    · rename_i hyx; subst hyx; exact List.mem_cons_self
    · cases hi : indexOfRef ys x with
      | none => rw [hi] at h; simp at h
      | some m => exact List.mem_cons_of_mem _ (indexOfRef_mem ys x m hi)

/-- what `set_children` does to every field of every record -/
theorem setChildren_fields {σ σ' : Store α} {p : Nat} {ks : List Nat} (fuel : Nat)
    (h : setChildren fuel σ p ks = .ok σ') :
    σ'.length = σ.length ∧ ∀ (a : Nat) (ra : NodeRec α), σ[a]? = some ra → ∃ ra', σ'[a]? = some ra' ∧
      ra'.sym = ra.sym ∧ ra'.sender = ra.sender ∧ ra'.recipient = ra.recipient ∧ ra'.view = ra.view ∧
      ra'.readOnly = ra.readOnly ∧ ra'.kids = (if a = p then ks else ra.kids) ∧
      ra'.parent = (if a ∈ ks then some p else ra.parent) := by
  unfold setChildren at h
  have s := invalidate_sho fuel _ p σ' h
  have hlen : (attachRaw σ p ks ks).length = σ.length := by unfold attachRaw; rw [reparent_length, upd_length]
  refine ⟨by rw [s.1]; exact hlen, fun a ra hra => ?_⟩
  have h1 : (attachRaw σ p ks ks)[a]? = some (attachRec p ks ks a ra) := by rw [attachRaw_get, hra]; rfl
  obtain ⟨r', hr', hc, hp', hv', ho'⟩ := s.2 a _ h1
  refine ⟨r', hr', ?_, ?_, ?_, ?_, ?_, ?_, ?_⟩
  · rw [← hc.1]; rfl
  · rw [← hc.2.1]; rfl
  · rw [← hc.2.2.1]; rfl
  · rw [hv']; rfl
  · rw [ho']; rfl
  · rw [← hc.2.2.2]; simp [attachRec]
  · rw [hp']; simp [attachRec]

/-- `_split_end` relates the stores: nothing but cached sizes / hashes changes, except that the child lists of
the strict ancestors of `i` are cut to a prefix -/
def CutAbove (σ σ' : Store α) (i : Nat) : Prop :=
  σ'.length = σ.length ∧ ∀ (a : Nat) (r : NodeRec α), σ[a]? = some r → ∃ r', σ'[a]? = some r' ∧
    r'.sym = r.sym ∧ r'.sender = r.sender ∧ r'.recipient = r.recipient ∧ r'.parent = r.parent ∧
    r'.view = r.view ∧ r'.readOnly = r.readOnly ∧
    (r'.kids = r.kids ∨ (a ≠ i ∧ Reach σ a i ∧ ∃ n, r'.kids = r.kids.take n))

theorem CutAbove.refl (σ : Store α) (i : Nat) : CutAbove σ σ i :=
  ⟨rfl, fun _ r hr => ⟨r, hr, rfl, rfl, rfl, rfl, rfl, rfl, .inl rfl⟩⟩

/-- parent chains and view flags are the same after `_split_end` -/
theorem CutAbove.noViewUp {σ σ' : Store α} {i c : Nat} (h : CutAbove σ σ' i) (hn : NoViewUp σ c) :
    NoViewUp σ' c := by
  have back : ∀ (a : Nat) (r' : NodeRec α), σ'[a]? = some r' →
      ∃ r, σ[a]? = some r ∧ r.parent = r'.parent ∧ r.view = r'.view := by
    intro a r' hr'
    obtain ⟨r, hr⟩ := get_some_of_lt (σ := σ) (h.1 ▸ lt_of_get_some hr')
    obtain ⟨r'', hr'', _, _, _, hp, hv, _⟩ := h.2 a r hr
    rw [hr'] at hr''; cases hr''
    exact ⟨r, hr, hp.symm, hv.symm⟩
  have up : ∀ c a, Up σ' c a → Up σ c a := by
    intro c a hu
    induction hu with
    | refl => exact .refl _
    | step hr hp _ ih =>
      obtain ⟨r, hr0, hp0, _⟩ := back _ _ hr
      exact .step hr0 (hp0.trans hp) ih
  intro a ha
  obtain ⟨ra, hra, hva⟩ := hn a (up c a ha)
  obtain ⟨ra', hra', _, _, _, _, hv, _⟩ := h.2 a ra hra
  exact ⟨ra', hra', hv.trans hva⟩

/-- **`_split_end` keeps the invariant** and only cuts child lists of strict ancestors -/
theorem splitEndF_inv : ∀ (fuel : Nat) (σ : Store α) (i : Nat) (σ' : Store α), Inv Hc σ → NoViewUp σ i →
    splitEndF fuel σ i = .ok σ' → Inv Hc σ' ∧ CutAbove σ σ' i
  | 0, _, _, _, _, _, h => by simp [splitEndF] at h
  | fuel + 1, σ, i, σ', hI, hNV, h => by
    simp only [splitEndF] at h
    split at h
    · cases h
    · rename_i r hr
      split at h
      · cases h; exact ⟨hI, CutAbove.refl σ i⟩
      · rename_i p hp
        split at h
        · cases h
        · rename_i rp hrp
          split at h
          · cases h
          · rename_i me hme
            split at h
            · cases h
            · rename_i σ1 e1
              have hmem : i ∈ rp.kids := indexOfRef_mem _ _ _ hme
              have hvp : rp.view = false := by
                obtain ⟨rp', hrp', hv⟩ := hNV p (.step hr hp (.refl p))
                rw [hrp] at hrp'; cases hrp'; exact hv
              obtain ⟨tp, htp⟩ := hI.wf p (lt_of_get_some hrp)
              obtain ⟨ti, hti⟩ := hI.wf i (lt_of_get_some hr)
              have hpi : p ≠ i := fun hpi => by
                subst hpi
                rw [hr] at hrp; cases hrp
                exact not_reach_of_kid hr hmem hti (.refl _)
              obtain ⟨hI1, hcut1⟩ := splitEndF_inv fuel σ p σ1 hI (hNV.parent hr hp) e1
              obtain ⟨rp1, hrp1, _, _, _, _, hvp1, _, hkp1⟩ := hcut1.2 p rp hrp
              have hkp1' : rp1.kids = rp.kids := by
                rcases hkp1 with h1 | ⟨h1, _⟩
                · exact h1
                · exact absurd rfl h1
              have hI' : Inv Hc σ' := setChildren_inv (fuel + 1) hI1
                ⟨rp1, hrp1, hvp1.trans hvp, fun c hc => .inl (hkp1' ▸ List.mem_of_mem_take hc)⟩ h
              refine ⟨hI', ?_⟩
              obtain ⟨hlen, hsh⟩ := setChildren_fields (fuel + 1) h
              refine ⟨hlen.trans hcut1.1, fun a ra hra => ?_⟩
              obtain ⟨r1, hr1, a1, a2, a3, a4, a5, a6, a7⟩ := hcut1.2 a ra hra
              obtain ⟨r2, hr2, b1, b2, b3, b5, b6, b7, b4⟩ := hsh a r1 hr1
              refine ⟨r2, hr2, b1.trans a1, b2.trans a2, b3.trans a3, ?_, b5.trans a5, b6.trans a6, ?_⟩
              · rw [b4]
                split
                · rename_i hak
                  have hak' : a ∈ rp.kids := List.mem_of_mem_take hak
                  obtain ⟨ra', hra', hpa, _⟩ := hI.par p rp a hrp hvp hak'
                  rw [hra] at hra'; cases hra'
                  exact hpa.symm
                · exact a4
              · rw [b7]
                by_cases hap : a = p
                · subst hap
                  rw [hrp] at hra; cases hra
                  rw [if_pos rfl]
                  exact .inr ⟨hpi, .step hrp hmem (.refl i), me + 1, rfl⟩
                · rw [if_neg hap]
                  rcases a7 with h7 | ⟨_, h7, n, hn⟩
                  · exact .inl h7
                  · refine .inr ⟨fun hai => ?_, h7.snoc hrp hmem, n, hn⟩
                    subst hai
                    exact not_reach_of_kid hrp hmem htp h7

/-- `_split_end` on a new node touches new nodes only (no invariant needed) -/
theorem splitEndF_fresh {n : Nat} : ∀ (fuel : Nat) (σ : Store α) (i : Nat) (σ' : Store α), FreshClosed n σ →
    n ≤ i → splitEndF fuel σ i = .ok σ' → AgreeBelow n σ σ' ∧ FreshClosed n σ' ∧ σ'.length = σ.length
  | 0, _, _, _, _, _, h => by simp [splitEndF] at h
  | fuel + 1, σ, i, σ', hf, hi, h => by
    simp only [splitEndF] at h
    split at h
    · cases h
    · rename_i r hr
      split at h
      · cases h; exact ⟨AgreeBelow.refl n σ, hf, rfl⟩
      · rename_i p hp
        split at h
        · cases h
        · rename_i rp hrp
          split at h
          · cases h
          · rename_i me hme
            split at h
            · cases h
            · rename_i σ1 e1
              have hpn : n ≤ p := (hf i r hi hr).1 p hp
              obtain ⟨h1, h2, h3⟩ := splitEndF_fresh fuel σ p σ1 hf hpn e1
              obtain ⟨g1, g2, g3⟩ := setChildren_fresh (fuel + 1) h2 hpn
                (fun k hk => (hf p rp hpn hrp).2 k (List.mem_of_mem_take hk)) h
              exact ⟨h1.trans g1, g2, g3.trans h3⟩

/-! ### `split_end(copy_tree)`, `prefix(copy_tree)` -/

/-- **`split_end` keeps the invariant** (both `copy_tree` flags); the result hangs below plain nodes only -/
theorem splitEnd_inv {σ σ' : Store α} {i c : Nat} {copy : Bool} (fuel : Nat) (hI : Inv Hc σ)
    (hNV : NoViewUp σ i) (h : splitEnd fuel σ i copy = .ok (σ', c)) : Inv Hc σ' ∧ NoViewUp σ' c := by
  obtain ⟨ri, hri, hvi⟩ := hNV i (.refl i)
  unfold splitEnd at h
  split at h
  · split at h
    · cases h
    · rename_i σ1 c1 e1
      split at h
      · cases h
      · rename_i σ2 e2
        simp only [Except.ok.injEq, Prod.mk.injEq] at h
        obtain ⟨h1, h2⟩ := h
        subst h1 h2
        obtain ⟨hI1, _⟩ := deepcopy_inv_full fuel hI hri hvi (fun _ => hNV) e1
        obtain ⟨hNV1, _⟩ := deepcopy_noViewUp fuel hI1 e1
        obtain ⟨hI2, hcut⟩ := splitEndF_inv fuel σ1 c1 σ2 hI1 hNV1 e2
        exact ⟨hI2, hcut.noViewUp hNV1⟩
  · split at h
    · cases h
    · rename_i σ2 e2
      simp only [Except.ok.injEq, Prod.mk.injEq] at h
      obtain ⟨h1, h2⟩ := h
      subst h1 h2
      obtain ⟨hI2, hcut⟩ := splitEndF_inv fuel σ i σ2 hI hNV e2
      exact ⟨hI2, hcut.noViewUp hNV⟩

/-- **`prefix` keeps the invariant** (both `copy_tree` flags) -/
theorem prefixOp_inv {σ σ' : Store α} {i c : Nat} {copy : Bool} (fuel : Nat) (hI : Inv Hc σ)
    (hNV : NoViewUp σ i) (h : prefixOp fuel σ i copy = .ok (σ', c)) : Inv Hc σ' := by
  unfold prefixOp at h
  split at h
  · cases h
  · rename_i σ1 c1 e1
    obtain ⟨hI1, hNV1⟩ := splitEnd_inv fuel hI hNV e1
    split at h
    · cases h
    · rename_i rc hrc
      split at h
      · cases h
      · rename_i p hp
        split at h
        · cases h
        · rename_i rp hrp
          split at h
          · cases h
          · rename_i σ2 e2
            simp only [Except.ok.injEq, Prod.mk.injEq] at h
            obtain ⟨h1, h2⟩ := h
            subst h1 h2
            have hvp : rp.view = false := by
              obtain ⟨rp', hrp', hv⟩ := hNV1 p (.step hrc hp (.refl p))
              rw [hrp] at hrp'; cases hrp'; exact hv
            exact setChildren_inv fuel hI1 ⟨rp, hrp, hvp, fun x hx => .inl (List.dropLast_subset _ hx)⟩ e2

/-! ### aliasing: with `copy_tree=True` the input is not touched -/

/-- `split_end(copy_tree=True)`: every record that existed before is identical afterwards; the result and
everything above / below it is new (no invariant needed) -/
theorem splitEnd_copy_frame {σ σ' : Store α} {i c : Nat} (fuel : Nat) (h : splitEnd fuel σ i true = .ok (σ', c)) :
    σ.length ≤ σ'.length ∧ (∀ a, a < σ.length → σ'[a]? = σ[a]?) ∧ σ.length ≤ c ∧ FreshClosed σ.length σ' := by
  unfold splitEnd at h
  simp only [if_true] at h
  split at h
  · cases h
  · rename_i σ1 c1 e1
    split at h
    · cases h
    · rename_i σ2 e2
      simp only [Except.ok.injEq, Prod.mk.injEq] at h
      obtain ⟨h1, h2⟩ := h
      subst h1 h2
      obtain ⟨a1, a2, a3, a4⟩ := deepcopy_frame fuel e1
      obtain ⟨b1, b2, b3⟩ := splitEndF_fresh fuel σ1 c1 σ2 a4 a3 e2
      exact ⟨by rw [b3]; exact a1, fun a ha => (b1.2 a ha).trans (a2 a ha), a3, b2⟩

/-- `prefix(copy_tree=True)`: the same -/
theorem prefix_copy_frame {σ σ' : Store α} {i c : Nat} (fuel : Nat) (h : prefixOp fuel σ i true = .ok (σ', c)) :
    σ.length ≤ σ'.length ∧ (∀ a, a < σ.length → σ'[a]? = σ[a]?) ∧ σ.length ≤ c ∧ FreshClosed σ.length σ' := by
  unfold prefixOp at h
  split at h
  · cases h
  · rename_i σ1 c1 e1
    obtain ⟨a1, a2, a3, a4⟩ := splitEnd_copy_frame fuel e1
    split at h
    · cases h
    · rename_i rc hrc
      split at h
      · cases h
      · rename_i p hp
        split at h
        · cases h
        · rename_i rp hrp
          split at h
          · cases h
          · rename_i σ2 e2
            simp only [Except.ok.injEq, Prod.mk.injEq] at h
            obtain ⟨h1, h2⟩ := h
            subst h1 h2
            have hpn : σ.length ≤ p := (a4 c1 rc a3 hrc).1 p hp
            obtain ⟨g1, g2, g3⟩ := setChildren_fresh fuel a4 hpn
              (fun k hk => (a4 p rp hpn hrp).2 k (List.dropLast_subset _ hk)) e2
            exact ⟨by rw [g3]; exact a1, fun a ha => (g1.2 a ha).trans (a2 a ha), hpn, g2⟩

/-! ### in place (`copy_tree=False`): what is edited -/

/-- `split_end(copy_tree=False)` returns the node itself; only child lists of its strict ancestors are cut -/
theorem splitEnd_inplace_frame {σ σ' : Store α} {i c : Nat} (fuel : Nat) (hI : Inv Hc σ) (hNV : NoViewUp σ i)
    (h : splitEnd fuel σ i false = .ok (σ', c)) : c = i ∧ CutAbove σ σ' i := by
  unfold splitEnd at h
  simp only [Bool.false_eq_true, if_false] at h
  split at h
  · cases h
  · rename_i σ2 e2
    simp only [Except.ok.injEq, Prod.mk.injEq] at h
    obtain ⟨h1, h2⟩ := h
    subst h1 h2
    exact ⟨rfl, (splitEndF_inv fuel σ i σ2 hI hNV e2).2⟩

/-- `prefix(copy_tree=False)` returns the parent of the node; only child lists of the node's strict
ancestors are cut (the parent's list now ends before the node) -/
theorem prefix_inplace_frame {σ σ' : Store α} {i c : Nat} (fuel : Nat) (hI : Inv Hc σ) (hNV : NoViewUp σ i)
    (h : prefixOp fuel σ i false = .ok (σ', c)) :
    (∃ ri, σ[i]? = some ri ∧ ri.parent = some c) ∧ CutAbove σ σ' i := by
  unfold prefixOp at h
  split at h
  · cases h
  · rename_i σ1 c1 e1
    obtain ⟨hI1, hNV1⟩ := splitEnd_inv fuel hI hNV e1
    obtain ⟨hc1, hcut⟩ := splitEnd_inplace_frame fuel hI hNV e1
    subst hc1
    split at h
    · cases h
    · rename_i rc hrc
      split at h
      · cases h
      · rename_i p hp
        split at h
        · cases h
        · rename_i rp1 hrp1
          split at h
          · cases h
          · rename_i σ2 e2
            simp only [Except.ok.injEq, Prod.mk.injEq] at h
            obtain ⟨h1, h2⟩ := h
            subst h1 h2
            obtain ⟨ri, hri, _⟩ := hNV c1 (.refl c1)
            obtain ⟨rc', hrc', _, _, _, hpc, _⟩ := hcut.2 c1 ri hri
            rw [hrc] at hrc'; cases hrc'
            have hpi : ri.parent = some p := hpc.symm.trans hp
            obtain ⟨rp, hrp, hvp⟩ := hNV p (.step hri hpi (.refl p))
            -- the parent lists the node (`_split_end` found it)
            have hmem : c1 ∈ rp.kids := by
              unfold splitEnd at e1
              simp only [Bool.false_eq_true, if_false] at e1
              split at e1
              · cases e1
              · rename_i σx ex
                cases fuel with
                | zero => simp [splitEndF] at ex
                | succ f =>
                  simp only [splitEndF, hri, hpi, hrp] at ex
                  split at ex
                  · cases ex
                  · rename_i me hme
                    exact indexOfRef_mem _ _ _ hme
            obtain ⟨tp, htp⟩ := hI.wf p (lt_of_get_some hrp)
            obtain ⟨ti, hti⟩ := hI.wf c1 (lt_of_get_some hri)
            have hpne : p ≠ c1 := fun hpe => by
              subst hpe
              rw [hri] at hrp; cases hrp
              exact not_reach_of_kid hri hmem hti (.refl _)
            obtain ⟨rp1', hrp1', _, _, _, _, hvp1, _, hkp1⟩ := hcut.2 p rp hrp
            rw [hrp1] at hrp1'; cases hrp1'
            have hvp1' : rp1.view = false := hvp1.trans hvp
            have hkp : ∃ n, rp1.kids.dropLast = rp.kids.take n := by
              rcases hkp1 with h1 | ⟨_, _, n, hn⟩
              · rw [h1, List.dropLast_eq_take]; exact ⟨_, rfl⟩
              · rw [hn, List.dropLast_eq_take, List.take_take]; exact ⟨_, rfl⟩
            refine ⟨⟨ri, hri, hpi⟩, ?_⟩
            obtain ⟨hlen, hsh⟩ := setChildren_fields fuel e2
            refine ⟨hlen.trans hcut.1, fun a ra hra => ?_⟩
            obtain ⟨r1, hr1, a1, a2, a3, a4, a5, a6, a7⟩ := hcut.2 a ra hra
            obtain ⟨r2, hr2, b1, b2, b3, b5, b6, b7, b4⟩ := hsh a r1 hr1
            refine ⟨r2, hr2, b1.trans a1, b2.trans a2, b3.trans a3, ?_, b5.trans a5, b6.trans a6, ?_⟩
            · rw [b4]
              split
              · rename_i hak
                have hak' : a ∈ rp1.kids := List.dropLast_subset _ hak
                obtain ⟨ra', hra', hpa, _⟩ := hI1.par p rp1 a hrp1 hvp1' hak'
                rw [hr1] at hra'; cases hra'
                exact hpa.symm.trans a4
              · exact a4
            · rw [b7]
              by_cases hap : a = p
              · subst hap
                rw [hrp] at hra; cases hra
                rw [if_pos rfl]
                obtain ⟨n, hn⟩ := hkp
                exact .inr ⟨hpne, .step hrp hmem (.refl c1), n, hn⟩
              · rw [if_neg hap]; exact a7

end FV
