/-
Discipline (`Op.ok`), `step` preserves `Inv` (core operations), soundness of the executable abstraction.
-/
import Proofs.ArenaHash
namespace FV
open Store
variable {α : Type} {Hc : Sym → Option String → Option String → List α → α}

/-! ### the executable abstraction is sound for the relation -/

theorem listO_abs {σ : Store α} {f : Nat → Option Tree} (hf : ∀ k t, f k = some t → Abs σ k t) :
    ∀ (ks : List Nat) (ts : List Tree), listO f ks = some ts → AbsL σ ks ts
  | [], ts, h => by simp only [listO] at h; cases h; simp [AbsL]
  | k :: ks, ts, h => by
    simp only [listO] at h
    split at h
    · cases h
    · rename_i t e1
      split at h
      · cases h
      · rename_i ts' e2
        cases h
        simp only [AbsL]
        exact ⟨hf k t e1, listO_abs hf ks ts' e2⟩

theorem absF_sound : ∀ (fuel : Nat) (σ : Store α) (i : Nat) (t : Tree), absF fuel σ i = some t → Abs σ i t
  | 0, _, _, _, h => by simp [absF] at h
  | fuel + 1, σ, i, t, h => by
    simp only [absF] at h
    split at h
    · cases h
    · rename_i r hr
      split at h
      · cases h
      · rename_i ts e
        cases h
        simp only [Abs]
        exact ⟨r, hr, rfl, rfl, rfl, listO_abs (absF_sound fuel σ) r.kids ts e⟩

/-! ### ownership discipline -/

/-- The histories the property quantifies over: every child handed to a node is a detached root (no
parent, not a view, not the root of the receiving node's own tree) or — for `set_children` — one of the
node's current children; views (`SliceTree`s) are not edited structurally.  Everything else is free.
(Copy / split / replace / append are covered by their own theorems in `Props/C10.lean`.) -/
def Op.ok (σ : Store α) : Op → Prop
  | .mk _ _ _ kids _ => ∀ c ∈ kids, DetachedRoot σ c
  | .addChild p c => ∃ rp, σ[p]? = some rp ∧ rp.view = false ∧ Detached σ p c
  | .setChildren p cs => OwnOrDetached σ p cs
  | .setSym .. | .setSender .. | .setRecipient .. | .hash .. | .eq .. => True
  | .getItem .. | .getSlice .. | .size .. | .parent .. | .getPath .. | .flatten .. | .findAll ..
  | .findDirect .. | .choicesPath .. | .value .. => True
  | .deepcopy .. | .splitEnd .. | .prefix .. | .replace .. | .append .. => False

theorem inv_nil : Inv Hc ([] : Store α) :=
  ⟨fun i hi => by simp at hi, fun i r p h => by simp at h, fun i r t h => by simp at h,
   fun i r t x h => by simp at h, fun i r c h => by simp at h⟩

theorem pySlice_mem {β : Type} (l : List β) (a b : Option Int) : ∀ x ∈ pySlice l a b, x ∈ l := by
  intro x hx
  unfold pySlice at hx
  exact List.mem_of_mem_drop (List.mem_of_mem_take hx)

theorem getSlice_inv {σ σ' : Store α} {i n : Nat} {a b : Option Int} (fuel : Nat) (hI : Inv Hc σ)
    (h : getSlice fuel σ i a b = .ok (σ', n)) :
    Inv Hc σ' ∧ n = σ.length ∧ ∃ x : NodeRec α, σ' = σ ++ [x] ∧ x.view = true := by
  unfold getSlice at h
  split at h
  · cases h
  · rename_i r hr
    cases fuel with
    | zero => simp [mkSlice, setChildren, invalidate] at h
    | succ m =>
      rw [mkSlice_eq] at h
      cases h
      refine ⟨inv_append_view hI _ rfl (fun k hk => ?_) rfl, rfl, _, rfl, rfl⟩
      have hk' : k ∈ r.kids := pySlice_mem _ _ _ k hk
      obtain ⟨t, ht⟩ := hI.wf i (lt_of_get_some hr)
      cases t with
      | mk s x y ts =>
        simp only [Abs] at ht
        obtain ⟨rec, h1, _, _, _, h5⟩ := ht
        rw [hr] at h1; cases h1
        obtain ⟨tk, _, hak⟩ := AbsL.mem _ _ h5 k hk'
        cases tk with
        | mk _ _ _ _ =>
          simp only [Abs] at hak
          obtain ⟨rk, hrk, _⟩ := hak
          exact lt_of_get_some hrk

theorem liftR_fst {β : Type} (σ : Store α) (f : β → Res α) (r : Except AErr β) : (liftR σ f r).1 = σ := by
  unfold liftR; split <;> rfl

/-- one disciplined core operation keeps the invariant -/
theorem step_inv [DecidableEq α] {σ : Store α} (fuel : Nat) (hI : Inv Hc σ) (op : Op) (hok : Op.ok σ op) :
    Inv Hc (step Hc fuel σ op).1 := by
  cases op with
  | mk sym a r kids ro =>
    simp only [step, liftN]
    split
    · exact hI
    · rename_i σ' n e
      exact (mkNode_inv fuel hI hok e).1
  | addChild p c =>
    obtain ⟨rp, hrp, hvp, hd⟩ := hok
    simp only [step, liftS]
    split
    · exact hI
    · rename_i σ' e
      exact addChild_inv fuel hI hrp hvp hd e
  | setChildren p cs =>
    simp only [step, liftS]
    split
    · exact hI
    · rename_i σ' e
      exact setChildren_inv fuel hI hok e
  | setSym i s =>
    simp only [step, liftS]
    split
    · exact hI
    · rename_i σ' e; exact setSym_inv fuel hI e
  | setSender i s =>
    simp only [step, liftS]
    split
    · exact hI
    · rename_i σ' e; exact setSender_inv fuel hI e
  | setRecipient i s =>
    simp only [step, liftS]
    split
    · exact hI
    · rename_i σ' e; exact setRecipient_inv fuel hI e
  | hash i =>
    simp only [step]
    split
    · exact hI
    · rename_i σ' h e; exact (hashNode_spec fuel σ i σ' h hI e).1
  | eq i j =>
    simp only [step]
    split
    · exact hI
    · rename_i σ' b e; exact (eqNode_spec fuel hI e).1
  | getSlice i a b =>
    simp only [step, liftN]
    split
    · exact hI
    · rename_i σ' n e; exact (getSlice_inv fuel hI e).1
  | getItem i k => simp only [step, liftR_fst]; exact hI
  | size i => simp only [step, liftR_fst]; exact hI
  | parent i => simp only [step, liftR_fst]; exact hI
  | getPath i => simp only [step, liftR_fst]; exact hI
  | flatten i => simp only [step, liftR_fst]; exact hI
  | findAll i n => simp only [step, liftR_fst]; exact hI
  | findDirect i n => simp only [step, liftR_fst]; exact hI
  | choicesPath i => simp only [step, liftR_fst]; exact hI
  | value i => simp only [step]; exact hI
  | deepcopy i cc cp => exact absurd hok id
  | splitEnd i c => exact absurd hok id
  | «prefix» i c => exact absurd hok id
  | replace i reps => exact absurd hok id
  | append i path t => exact absurd hok id

/-- a history all of whose operations respect the discipline in the state they are applied to -/
def OkHist [DecidableEq α] (Hc : Sym → Option String → Option String → List α → α) (fuel : Nat) :
    Store α → List Op → Prop
  | _, [] => True
  | σ, op :: ops => Op.ok σ op ∧ OkHist Hc fuel (step Hc fuel σ op).1 ops

theorem runOps_inv [DecidableEq α] (fuel : Nat) : ∀ (ops : List Op) (σ : Store α), Inv Hc σ →
    OkHist Hc fuel σ ops → Inv Hc (runOps Hc fuel σ ops)
  | [], _, hI, _ => hI
  | op :: ops, σ, hI, h => runOps_inv fuel ops _ (step_inv fuel hI op h.1) h.2

end FV
