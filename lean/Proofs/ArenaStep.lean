/-
Soundness of the executable abstraction, slices, small facts about `step`.
-/
import Proofs.ArenaHash
namespace FV
open Store
variable {α : Type} {Hc : Sym → Option String → Option String → List α → α}

/-! ### the executable abstraction is sound for the relation -/

theorem listO_abs {σ : Store α} {f : Nat → Option Tree} (hf : ∀ k t, f k = some t → Abs σ k t) :
    ∀ (ks : List Nat) (ts : List Tree), listO f ks = some ts → AbsL σ ks ts
  | [], ts, h => by simp only [listO] at h; cases h; simp [AbsL]
  | k :: ks, ts, h => by
    simp only [listO] at h
    split at h
    · cases h
    · rename_i t e1
      split at h
      · cases h
      · rename_i ts' e2
        cases h
        simp only [AbsL]
        exact ⟨hf k t e1, listO_abs hf ks ts' e2⟩

theorem absF_sound : ∀ (fuel : Nat) (σ : Store α) (i : Nat) (t : Tree), absF fuel σ i = some t → Abs σ i t
  | 0, _, _, _, h => by simp [absF] at h
  | fuel + 1, σ, i, t, h => by
    simp only [absF] at h
    split at h
    · cases h
    · rename_i r hr
      split at h
      · cases h
      · rename_i ts e
        cases h
        simp only [Abs]
        exact ⟨r, hr, rfl, rfl, rfl, listO_abs (absF_sound fuel σ) r.kids ts e⟩

theorem inv_nil : Inv Hc ([] : Store α) :=
  ⟨fun i hi => by simp at hi, fun i r p h => by simp at h, fun i r t h => by simp at h,
   fun i r t x h => by simp at h, fun i r c h => by simp at h⟩

theorem pySlice_mem {β : Type} (l : List β) (a b : Option Int) : ∀ x ∈ pySlice l a b, x ∈ l := by
  intro x hx
  unfold pySlice at hx
  exact List.mem_of_mem_drop (List.mem_of_mem_take hx)

theorem getSlice_inv {σ σ' : Store α} {i n : Nat} {a b : Option Int} (fuel : Nat) (hI : Inv Hc σ)
    (h : getSlice fuel σ i a b = .ok (σ', n)) :
    Inv Hc σ' ∧ n = σ.length ∧ ∃ x : NodeRec α, σ' = σ ++ [x] ∧ x.view = true := by
  unfold getSlice at h
  split at h
  · cases h
  · rename_i r hr
    cases fuel with
    | zero => simp [mkSlice, setChildren, invalidate] at h
    | succ m =>
      rw [mkSlice_eq] at h
      cases h
      refine ⟨inv_append_view hI _ rfl (fun k hk => ?_) rfl, rfl, _, rfl, rfl⟩
      have hk' : k ∈ r.kids := pySlice_mem _ _ _ k hk
      obtain ⟨t, ht⟩ := hI.wf i (lt_of_get_some hr)
      cases t with
      | mk s x y ts =>
        simp only [Abs] at ht
        obtain ⟨rec, h1, _, _, _, h5⟩ := ht
        rw [hr] at h1; cases h1
        obtain ⟨tk, _, hak⟩ := AbsL.mem _ _ h5 k hk'
        cases tk with
        | mk _ _ _ _ =>
          simp only [Abs] at hak
          obtain ⟨rk, hrk, _⟩ := hak
          exact lt_of_get_some hrk

theorem liftR_fst {β : Type} (σ : Store α) (f : β → Res α) (r : Except AErr β) : (liftR σ f r).1 = σ := by
  unfold liftR; split <;> rfl

end FV
