/-
Tree-shape facts that follow from `Inv` (single ownership): non-view nodes only have non-view
descendants, distinct children have disjoint subtrees, child indices are live; changing the parent link
of an unlisted node keeps `Inv`.
-/
import Proofs.ArenaAppend
namespace FV
open Store
variable {α : Type} {Hc : Sym → Option String → Option String → List α → α}

/-- reachability with the last step exposed -/
inductive ReachR (σ : Store α) : Nat → Nat → Prop
  | refl (i : Nat) : ReachR σ i i
  | snoc {i m j : Nat} {r : NodeRec α} : ReachR σ i m → σ[m]? = some r → j ∈ r.kids → ReachR σ i j

theorem ReachR.cons {σ : Store α} {i k j : Nat} {r : NodeRec α} (hr : σ[i]? = some r) (hk : k ∈ r.kids)
    (h : ReachR σ k j) : ReachR σ i j := by
  induction h with
  | refl => exact .snoc (.refl i) hr hk
  | snoc _ hm hj ih => exact .snoc ih hm hj

theorem Reach.toR {σ : Store α} {i j : Nat} (h : Reach σ i j) : ReachR σ i j := by
  induction h with
  | refl => exact .refl _
  | step hr hk _ ih => exact ih.cons hr hk

theorem ReachR.toReach {σ : Store α} {i j : Nat} (h : ReachR σ i j) : Reach σ i j := by
  induction h with
  | refl => exact .refl _
  | snoc _ hm hj ih => exact ih.snoc hm hj

theorem Reach.nonview {σ : Store α} (hI : Inv Hc σ) {i j : Nat} (h : Reach σ i j) :
    ∀ ri, σ[i]? = some ri → ri.view = false → ∃ rj, σ[j]? = some rj ∧ rj.view = false := by
  induction h with
  | refl => exact fun ri h1 h2 => ⟨ri, h1, h2⟩
  | @step i k j r hr hk _ ih =>
    intro ri hri hv
    rw [hr] at hri; cases hri
    obtain ⟨rk, hrk, _, hvk⟩ := hI.par i r k hr hv hk
    exact ih rk hrk hvk

theorem kid_lt {σ : Store α} (hI : Inv Hc σ) {a z : Nat} {ra : NodeRec α} (hra : σ[a]? = some ra)
    (hz : z ∈ ra.kids) : z < σ.length := by
  obtain ⟨t, ht⟩ := hI.wf a (lt_of_get_some hra)
  cases t with
  | mk s x y ts =>
    simp only [Abs] at ht
    obtain ⟨rec, h1, _, _, _, h5⟩ := ht
    rw [hra] at h1; cases h1
    obtain ⟨tk, _, hak⟩ := AbsL.mem _ _ h5 z hz
    cases tk with
    | mk _ _ _ _ =>
      simp only [Abs] at hak
      obtain ⟨rk, hrk, _⟩ := hak
      exact lt_of_get_some hrk

theorem reach_lt {σ : Store α} (hI : Inv Hc σ) {i j : Nat} (h : Reach σ i j) : i < σ.length → j < σ.length := by
  induction h with
  | refl => exact id
  | step hr hk _ ih => exact fun _ => ih (kid_lt hI hr hk)

/-- distinct children of a (non-view) node have disjoint subtrees -/
theorem kids_disjoint {σ : Store α} (hI : Inv Hc σ) {k ki kj : Nat} {rk : NodeRec α} (hrk : σ[k]? = some rk)
    (hv : rk.view = false) (hi : ki ∈ rk.kids) (hj : kj ∈ rk.kids) (hne : ki ≠ kj) {y : Nat}
    (h1 : Reach σ ki y) (h2 : Reach σ kj y) : False := by
  obtain ⟨tk, htk⟩ := hI.wf k (lt_of_get_some hrk)
  obtain ⟨ri, hri, hpi, hvi⟩ := hI.par k rk ki hrk hv hi
  obtain ⟨rj, hrj, hpj, hvj⟩ := hI.par k rk kj hrk hv hj
  have key : ∀ y, ReachR σ ki y → Reach σ kj y → False := by
    intro y hy
    induction hy with
    | refl =>
      intro h2
      obtain ⟨m, rm, hm1, hm2, hm3, hm4⟩ := h2.last_lister hI.par (Ne.symm hne) rj hrj hvj
      obtain ⟨rc, hrc, hpc, _⟩ := hI.par m rm ki hm2 hm3 hm4
      rw [hri] at hrc; cases hrc
      rw [hpi] at hpc; cases hpc
      exact not_reach_of_kid hrk hj htk hm1
    | @snoc m y r hm hr hy ih =>
      intro h2
      obtain ⟨rm, hrm, hvm⟩ := hm.toReach.nonview hI ri hri hvi
      rw [hr] at hrm; cases hrm
      obtain ⟨ry, hry, hpy, _⟩ := hI.par m r y hr hvm hy
      by_cases hyj : kj = y
      · subst hyj
        rw [hrj] at hry; cases hry
        rw [hpj] at hpy; cases hpy
        exact not_reach_of_kid hrk hi htk hm.toReach
      · obtain ⟨m', rm', hm1, hm2, hm3, hm4⟩ := h2.last_lister hI.par hyj rj hrj hvj
        obtain ⟨rc, hrc, hpc, _⟩ := hI.par m' rm' y hm2 hm3 hm4
        rw [hry] at hrc; cases hrc
        rw [hpy] at hpc; cases hpc
        exact ih hm1
  exact key y h1.toR h2

/-- nobody lists `c` -/
def Unlisted (σ : Store α) (c : Nat) : Prop := ∀ (a : Nat) (ra : NodeRec α), σ[a]? = some ra → c ∉ ra.kids

/-- changing the parent link of an unlisted node keeps `Inv` -/
theorem inv_set_parent {σ : Store α} {c : Nat} {par : Option Nat} (hI : Inv Hc σ) (hu : Unlisted σ c)
    (hp : ∀ q, par = some q → q < σ.length) : Inv Hc (upd σ c (fun x => { x with parent := par })) := by
  have hget : ∀ a, (upd σ c (fun x => { x with parent := par }))[a]? =
      (σ[a]?).map (fun r => if a = c then { r with parent := par } else r) := by
    intro a; rw [upd_get]; by_cases h : a = c <;> cases σ[a]? <;> simp [h]
  have hcore : ∀ (j : Nat) (r : NodeRec α), σ[j]? = some r →
      ∃ r', (upd σ c (fun x => { x with parent := par }))[j]? = some r' ∧ SameCore r r' := by
    intro j r hr
    refine ⟨if j = c then { r with parent := par } else r, by rw [hget, hr]; rfl, ?_⟩
    by_cases h : j = c <;> simp [h, SameCore]
  have hback : ∀ (j : Nat) (r' : NodeRec α), (upd σ c (fun x => { x with parent := par }))[j]? = some r' →
      ∃ r, σ[j]? = some r ∧ SameCore r' r ∧ r.view = r'.view ∧ r.sizeC = r'.sizeC ∧ r.hashC = r'.hashC ∧
        (j ≠ c → r.parent = r'.parent) ∧ (j = c → r'.parent = par) := by
    intro j r' hr'
    rw [hget] at hr'
    cases hsj : σ[j]? with
    | none => rw [hsj] at hr'; simp at hr'
    | some r =>
      rw [hsj] at hr'; simp only [Option.map_some, Option.some.injEq] at hr'
      subst hr'
      refine ⟨r, rfl, ?_, ?_, ?_, ?_, ?_, ?_⟩ <;> by_cases h : j = c <;> simp [h, SameCore]
  have habs : ∀ {i t}, Abs (upd σ c (fun x => { x with parent := par })) i t → Abs σ i t :=
    fun h => Abs.congr (fun j r' hr' => let ⟨r, h1, h2, _⟩ := hback j r' hr'; ⟨r, h1, h2⟩) h
  refine ⟨?_, ?_, ?_, ?_, ?_⟩
  · intro i hi
    rw [upd_length] at hi
    obtain ⟨t, ht⟩ := hI.wf i hi
    exact ⟨t, Abs.congr hcore ht⟩
  · intro i r' p hr' hpp
    rw [upd_length]
    obtain ⟨r, hr, _, _, _, _, h6, h7⟩ := hback i r' hr'
    by_cases hic : i = c
    · exact hp p ((h7 hic).symm.trans hpp)
    · exact hI.parIn i r p hr ((h6 hic).trans hpp)
  · intro i r' t hr' hv ha
    obtain ⟨r, hr, _, h3, h4, _⟩ := hback i r' hr'
    rw [← h4]; exact hI.size i r t hr (h3.trans hv) (habs ha)
  · intro i r' t x hr' hv ha hx
    obtain ⟨r, hr, _, h3, _, h5, _⟩ := hback i r' hr'
    exact hI.hash i r t x hr (h3.trans hv) (habs ha) (h5.trans hx)
  · intro i r' z hr' hv hz
    obtain ⟨r, hr, h2, h3, _⟩ := hback i r' hr'
    have hz' : z ∈ r.kids := h2.2.2.2 ▸ hz
    obtain ⟨rz, hrz, hpz, hvz⟩ := hI.par i r z hr (h3.trans hv) hz'
    have hzc : z ≠ c := fun h => hu i r hr (h ▸ hz')
    exact ⟨rz, by rw [upd_get_ne _ _ hzc]; exact hrz, hpz, hvz⟩

end FV
