/-
C04 / chart soundness of the Earley model: every tree the machine yields is a derivation of the start
symbol over all columns (for every policy, prediction order, scanner and fuel).
-/
import Proofs.C04Defs
import Proofs.EarleyCols
namespace FV.Earley

/-- a yielded parser tree: the node of the requested start symbol over one of its rules, spanning all columns -/
def TopOk (c : Cfg) (pt : PT) : Prop :=
  ∃ kids rhs, pt = PT.node (.user c.start) none none kids ∧ (NT.user c.start, rhs) ∈ c.rules ∧
    DerL c.rules' c.scan rhs kids 0 (c.ncols - 1)

/-- the chart invariant of the whole machine -/
structure Inv (c : Cfg) (m : M) : Prop where
  states : ∀ j s, s ∈ (colAt m.cols j).states → Good c s j
  dots : ∀ j s, s ∈ (colAt m.cols j).dots → Good c s j
  frame : ∀ t i, m.frame = some (t, i) → Good c t m.k ∧ t.item.finished = true
  pend : ∀ t, t ∈ m.pending → Good c t m.k ∧ t.item.finished = true
  out : ∀ pt, pt ∈ m.out → TopOk c pt

/-- all states of all columns are good -/
def GoodCols (c : Cfg) (cols : List Col) : Prop :=
  (∀ j s, s ∈ (colAt cols j).states → Good c s j) ∧ (∀ j s, s ∈ (colAt cols j).dots → Good c s j)

/-! ### helpers -/

theorem drop_of_sym {it : Item} {y : ESym} (h : it.sym? = some y) :
    it.rhs.drop it.dot = y :: it.rhs.drop (it.dot + 1) := by
  unfold Item.sym? at h
  obtain ⟨hlt, he⟩ := List.getElem?_eq_some_iff.1 h
  rw [List.drop_eq_getElem_cons hlt, he]

theorem dotNT?_n {it : Item} {x : NT} (h : it.dotNT? = some x) : ∃ a r, it.sym? = some (.n x a r) := by
  unfold Item.dotNT? at h
  split at h
  · rename_i y a r hy
    cases h
    exact ⟨a, r, hy⟩
  · cases h

theorem findDot_dotNT? {col : Col} {x : NT} {s : St} (h : s ∈ col.findDot x) : s.item.dotNT? = some x := by
  unfold Col.findDot at h
  have := (List.mem_filter.1 h).2
  simpa using this

theorem good_congr {c : Cfg} {s s' : St} {k : Nat} (hi : s'.item = s.item) (hk : s'.kids = s.kids)
    (hg : Good c s k) : Good c s' k := by
  unfold Good at hg ⊢
  rw [hi, hk]; exact hg

theorem goodCols_addAt {c : Cfg} {cols : List Col} (p : Policy) (e : Nat) (s : St)
    (hg : GoodCols c cols) (hs : Good c s e) : GoodCols c (addAt p cols e s) := by
  constructor
  · intro j x hx
    rw [colAt_addAt] at hx
    split at hx
    · rename_i hje
      rcases Col.add_states_mem hx with h | h
      · rw [hje.1]; exact hg.1 _ _ h
      · rw [h, hje.1]; exact hs
    · exact hg.1 _ _ hx
  · intro j x hx
    rw [colAt_addAt] at hx
    split at hx
    · rename_i hje
      rcases Col.add_dots_mem hx with h | h
      · rw [hje.1]; exact hg.2 _ _ h
      · rw [h, hje.1]; exact hs
    · exact hg.2 _ _ hx

/-- the state behind the dot: what completes the rest after the dot symbol, prefixed by a derivation
    of the dot symbol, completes the whole rule -/
theorem good_next {c : Cfg} {s : St} {k e : Nat} {y : ESym} {X : List PT} {cov : Option (Nat × List NT)}
    (hg : Good c s k) (hy : s.item.sym? = some y)
    (hstep : ∀ j ks, DerL c.rules' c.scan (s.item.rhs.drop (s.item.dot + 1)) ks e j →
      DerL c.rules' c.scan (y :: s.item.rhs.drop (s.item.dot + 1)) (X ++ ks) k j) :
    Good c { item := s.item.next, kids := s.kids ++ X, cover := cov } e := by
  refine ⟨hg.1, hg.2.1, ?_⟩
  intro j ks hd
  have h1 := hg.2.2 j (X ++ ks) (by rw [drop_of_sym hy]; exact hstep j ks hd)
  simp only [Item.next, List.append_assoc]
  exact h1

theorem good_sym_ne_start {c : Cfg} (hs : SaneS c) {s : St} {k : Nat} {x : NT} {a r : Option String}
    (hg : Good c s k) (hy : s.item.sym? = some (.n x a r)) : x ≠ .start := by
  intro hx
  subst hx
  unfold Item.sym? at hy
  have hmem : ESym.n .start a r ∈ s.item.rhs := List.mem_of_getElem? hy
  have h1 := hg.1
  unfold Cfg.rules' at h1
  rcases List.mem_cons.1 h1 with h | h
  · have h2 : s.item.rhs = [ESym.plain (.user c.start)] := (Prod.mk.inj h).2
    rw [h2] at hmem
    simp [ESym.plain] at hmem
  · exact hs.start_fresh _ _ a r h hmem

/-! ### initial chart -/

theorem goodCols_replicate (c : Cfg) (n : Nat) : GoodCols c (List.replicate n {}) := by
  constructor <;> intro j s h <;> rw [colAt_replicate] at h <;> cases h

theorem good_start (c : Cfg) : Good c { item := startItem c.start, kids := [] } 0 := by
  refine ⟨?_, fun _ => rfl, ?_⟩
  · unfold Cfg.rules' startItem; simp
  · intro j ks hd
    simpa [startItem] using hd

theorem inv_init (c : Cfg) (_hs : SaneS c) : Inv c (M.init c) := by
  have hg : GoodCols c (M.init c).cols :=
    goodCols_addAt c.policy 0 _ (goodCols_replicate c c.ncols) (good_start c)
  exact ⟨hg.1, hg.2, (by intro t i h; cases h), (by intro t h; cases h), (by intro pt h; cases h)⟩

/-! ### predict -/

theorem goodCols_pred {c : Cfg} {k : Nat} {x : NT} (hx : x ≠ .start) (alts : List (List ESym))
    (hal : ∀ rhs, rhs ∈ alts → (x, rhs) ∈ c.rules) :
    ∀ cols : List Col, GoodCols c cols →
      GoodCols c (alts.foldl (fun cs rhs => addAt c.policy cs k
        { item := { lhs := x, rhs := rhs, dot := 0, origin := k }, kids := [] }) cols) := by
  induction alts with
  | nil => intro cols hg; exact hg
  | cons rhs rest ih =>
    intro cols hg
    simp only [List.foldl_cons]
    apply ih (fun r hr => hal r (by simp [hr]))
    apply goodCols_addAt _ _ _ hg
    refine ⟨rules_sub (hal rhs (by simp)), fun h => absurd h hx, ?_⟩
    intro j ks hd
    simpa using hd

/-! ### complete -/

theorem good_finished_der {c : Cfg} {t : St} {k : Nat} (ht : Good c t k) (hfin : t.item.finished = true) :
    DerL c.rules' c.scan t.item.rhs t.kids t.item.origin k := by
  have hle : t.item.rhs.length ≤ t.item.dot := by
    unfold Item.finished at hfin; exact of_decide_eq_true hfin
  have h1 := ht.2.2 k [] (by rw [List.drop_eq_nil_of_le hle]; exact DerL.nil k)
  simpa using h1

theorem ite_none_some {α : Type} {c : Prop} [Decidable c] {a b : α}
    (h : (if c then none else some a) = some b) : a = b := by
  split at h
  · cases h
  · exact Option.some.inj h

theorem advance_shape {p : Policy} {k : Nat} {t s s' : St} {x : NT} {a r : Option String}
    (hy : s.item.sym? = some (.n x a r)) (h : advance p k t s = some s') :
    s'.item = s.item.next ∧
    s'.kids = s.kids ++ (if t.item.lhs.explicit then [PT.node t.item.lhs a r t.kids] else t.kids) := by
  unfold advance at h
  simp only [hy] at h
  cases p with
  | core =>
    simp only [Option.some.injEq] at h
    subst h
    refine ⟨rfl, ?_⟩
    simp only
    split <;> rfl
  | impl =>
    simp only [Option.some.injEq] at h
    subst h
    refine ⟨rfl, ?_⟩
    simp only
    split <;> rfl
  | acyclic =>
    simp only at h
    -- robust to the branch returning `if … then none else some s'` or plainly `some s'`
    first
    | (have h' := ite_none_some h
       subst h'
       refine ⟨rfl, ?_⟩
       simp only
       split <;> rfl)
    | (have h' := Option.some.inj h
       subst h'
       refine ⟨rfl, ?_⟩
       simp only
       split <;> rfl)

theorem advance_good {c : Cfg} {p : Policy} {k : Nat} {t s s' : St}
    (ht : Good c t k) (hfin : t.item.finished = true) (hsg : Good c s t.item.origin)
    (hdot : s.item.dotNT? = some t.item.lhs) (h : advance p k t s = some s') : Good c s' k := by
  obtain ⟨a, r, hy⟩ := dotNT?_n hdot
  obtain ⟨h1, h2⟩ := advance_shape hy h
  have hD := good_finished_der ht hfin
  have hX : ∀ j ks, DerL c.rules' c.scan (s.item.rhs.drop (s.item.dot + 1)) ks k j →
      DerL c.rules' c.scan (.n t.item.lhs a r :: s.item.rhs.drop (s.item.dot + 1))
        ((if t.item.lhs.explicit then [PT.node t.item.lhs a r t.kids] else t.kids) ++ ks) t.item.origin j := by
    intro j ks hd
    cases hx : t.item.lhs.explicit with
    | true =>
      simp only [if_true]
      exact DerL.expl hx ht.1 hD hd
    | false =>
      simp only [Bool.false_eq_true, if_false]
      exact DerL.impl hx ht.1 hD hd
  exact good_congr h1 h2 (good_next (cov := none) hsg hy hX)

/-! ### the yielded trees -/

theorem derL_nil_inv {rules : List CRule} {scan : Scan} {ks : List PT} {i j : Nat}
    (h : DerL rules scan [] ks i j) : ks = [] ∧ i = j := by
  cases h
  exact ⟨rfl, rfl⟩

theorem derL_single_expl {rules : List CRule} {scan : Scan} {x : NT} {a r : Option String}
    {ks : List PT} {i j : Nat} (hx : x.explicit = true) (h : DerL rules scan [.n x a r] ks i j) :
    ∃ kids rhs, ks = [PT.node x a r kids] ∧ (x, rhs) ∈ rules ∧ DerL rules scan rhs kids i j := by
  cases h with
  | expl h1 h2 h3 h4 =>
    obtain ⟨e1, e2⟩ := derL_nil_inv h4
    subst e1 e2
    exact ⟨_, _, rfl, h2, h3⟩
  | impl h1 h2 h3 h4 =>
    rw [hx] at h1; cases h1

theorem top_of_good {c : Cfg} (hs : SaneS c) {s : St} {k : Nat} (hg : Good c s k)
    (hfin : s.item.finished = true) (hst : s.item.lhs = .start) (hk : k + 1 = c.ncols) :
    ∀ pt, pt ∈ s.kids → TopOk c pt := by
  have hD := good_finished_der hg hfin
  have ho := hg.2.1 hst
  have hrhs : s.item.rhs = [ESym.plain (.user c.start)] := by
    have h1 := hg.1
    unfold Cfg.rules' at h1
    rcases List.mem_cons.1 h1 with h | h
    · exact (Prod.mk.inj h).2
    · rw [hst] at h; exact absurd h (hs.start_no_rule _)
  rw [hrhs, ho] at hD
  obtain ⟨kids, rhs, hk1, hk2, hk3⟩ := derL_single_expl (x := .user c.start) (a := none) (r := none) rfl hD
  intro pt hpt
  rw [hk1] at hpt
  simp only [List.mem_singleton] at hpt
  refine ⟨kids, rhs, hpt, ?_, ?_⟩
  · unfold Cfg.rules' at hk2
    rcases List.mem_cons.1 hk2 with h | h
    · cases h
    · exact h
  · have : c.ncols - 1 = k := by omega
    rw [this]; exact hk3

/-! ### `place_repetition_shortcut` -/

theorem loop_ne_start {c : Cfg} (hs : SaneS c) {x : NT} (hx : LoopNT c.rules x) : x ≠ .start := by
  intro he
  subst he
  obtain ⟨y, rhs, a, r, hm, _, hh⟩ := hx
  cases rhs with
  | nil => simp at hh
  | cons z zs =>
    simp only [List.head?_cons, Option.some.injEq] at hh
    subst hh
    exact hs.start_fresh _ _ a r hm (by simp)

/-- a rule of the extended table whose left-hand side is not `<*start*>` is a rule of the table -/
theorem rules_of_ne_start {c : Cfg} {y : NT} {rhs : List ESym} (h : (y, rhs) ∈ c.rules') (hy : y ≠ .start) :
    (y, rhs) ∈ c.rules := by
  unfold Cfg.rules' at h
  rcases List.mem_cons.1 h with h | h
  · exact absurd (Prod.mk.inj h).1 hy
  · exact h

theorem walk_good {c : Cfg} (hs : SaneS c) {cols : List Col} (hg : GoodCols c cols) {x : NT}
    (hx : LoopNT c.rules x) {k : Nat} :
    ∀ (fuel : Nat) (new o res : St), Good c new k → new.item.lhs = x → new.item.dotNT? = some x →
      Good c o new.item.origin → o.item.dotNT? = some x →
      shortcutWalk cols x fuel new o = some res → Good c res k := by
  intro fuel
  induction fuel with
  | zero => intro new o res _ _ _ _ _ h; simp [shortcutWalk] at h
  | succ f ih =>
    intro new o res hnew hnl hnd ho hod h
    unfold shortcutWalk at h
    split at h
    · cases h; exact hnew
    · rename_i hnb
      have hxs := loop_ne_start hs hx
      obtain ⟨hximp, hshape⟩ := hs.loop_shape x hx
      obtain ⟨a, r, hoy⟩ := dotNT?_n hod
      obtain ⟨a2, r2, hny⟩ := dotNT?_n hnd
      -- the rule of `o` is a rule of the table
      have hol : o.item.lhs ≠ .start := by
        intro he
        have h1 := ho.1
        unfold Cfg.rules' at h1
        rcases List.mem_cons.1 h1 with h2 | h2
        · have h3 : o.item.rhs = [ESym.plain (.user c.start)] := (Prod.mk.inj h2).2
          have hmem : ESym.n x a r ∈ o.item.rhs := by
            unfold Item.sym? at hoy; exact List.mem_of_getElem? hoy
          rw [h3] at hmem
          simp only [ESym.plain, List.mem_singleton, ESym.n.injEq] at hmem
          rw [hmem.1] at hximp
          simp [NT.explicit] at hximp
        · rw [he] at h2; exact hs.start_no_rule _ h2
      have hor := rules_of_ne_start ho.1 hol
      have hoy' : o.item.rhs[o.item.dot]? = some (ESym.n x a r) := hoy
      rcases hshape o.item.lhs o.item.rhs o.item.dot a r hor hoy' with hb | ⟨hlx, hlen, huniq⟩
      · exact absurd hb hnb
      · have hnr : (x, new.item.rhs) ∈ c.rules := by
          have := hnew.1
          rw [hnl] at this
          exact rules_of_ne_start this hxs
        have hny' : new.item.rhs[new.item.dot]? = some (ESym.n x a2 r2) := hny
        have hrhs : new.item.rhs = o.item.rhs := huniq _ _ _ _ hnr hny'
        have hodrop : o.item.rhs.drop o.item.dot = [ESym.n x a r] := by
          rw [drop_of_sym hoy, List.drop_eq_nil_of_le (by omega)]
        have hnew' : Good c ({ item := { new.item with origin := o.item.origin },
                               kids := o.kids ++ new.kids } : St) k := by
          refine ⟨hnew.1, fun he => absurd (hnl.symm.trans he) hxs, ?_⟩
          intro j ks hd
          have D1 := hnew.2.2 j ks hd
          have hnr' : (x, new.item.rhs) ∈ c.rules' := rules_sub hnr
          have D2 : DerL c.rules' c.scan [ESym.n x a r] ((new.kids ++ ks) ++ []) new.item.origin j :=
            DerL.impl hximp hnr' D1 (DerL.nil j)
          rw [← hodrop] at D2
          have D3 := ho.2.2 j _ D2
          simp only [List.append_nil] at D3
          simp only [List.append_assoc]
          rw [hrhs]
          exact D3
        simp only at h
        split at h
        · rename_i o' heq
          have hmem : o' ∈ (colAt cols o.item.origin).findDot x := by rw [heq]; simp
          have ho' : Good c o' o.item.origin := hg.2 _ _ (mem_findDot hmem)
          exact ih _ o' res hnew' hnl hnd ho' (findDot_dotNT? hmem) h
        · cases h

theorem goodCols_set_replace {c : Cfg} {cols : List Col} {k : Nat} (cur new : St)
    (hg : GoodCols c cols) (hn : Good c new k) :
    GoodCols c (cols.set k ((colAt cols k).replace cur new)) := by
  constructor
  · intro j s h
    rw [colAt_set] at h
    split at h
    · rename_i hjk
      rcases Col.replace_states_mem h with h | h
      · rw [hjk.1]; exact hg.1 _ _ h
      · rw [h, hjk.1]; exact hn
    · exact hg.1 _ _ h
  · intro j s h
    rw [colAt_set] at h
    split at h
    · rename_i hjk
      rcases Col.replace_dots_mem h with h | h
      · rw [hjk.1]; exact hg.2 _ _ h
      · rw [h, hjk.1]; exact hn
    · exact hg.2 _ _ h

theorem goodCols_shortcutOne {c : Cfg} (hs : SaneS c) {cols : List Col} (hg : GoodCols c cols) {x : NT}
    (hx : LoopNT c.rules x) (k : Nat) : GoodCols c (shortcutOne cols k x) := by
  unfold shortcutOne
  simp only
  split
  · exact hg
  · rename_i cur hfind
    have hcm : cur ∈ (colAt cols k).states := List.mem_of_find?_eq_some hfind
    have hcp := List.find?_some hfind
    simp only [Bool.and_eq_true, decide_eq_true_eq, beq_iff_eq] at hcp
    obtain ⟨⟨⟨hcl, _⟩, _⟩, hcd⟩ := hcp
    have hcg := hg.1 _ _ hcm
    split
    · rename_i o heq
      have hmem : o ∈ (colAt cols cur.item.origin).findDot x := by rw [heq]; simp
      have ho : Good c o cur.item.origin := hg.2 _ _ (mem_findDot hmem)
      split
      · rename_i new hw
        have hn := walk_good hs hg hx _ cur o new hcg hcl hcd ho (findDot_dotNT? hmem) hw
        exact goodCols_set_replace cur new hg hn
      · exact hg
    · exact hg

theorem goodCols_shortcut_fold {c : Cfg} (hs : SaneS c) {k : Nat} (l : List NT)
    (hl : ∀ x, x ∈ l → LoopNT c.rules x) :
    ∀ cols : List Col, GoodCols c cols → GoodCols c (l.foldl (fun cs x => shortcutOne cs k x) cols) := by
  induction l with
  | nil => intro cols hg; exact hg
  | cons x xs ih =>
    intro cols hg
    simp only [List.foldl_cons]
    exact ih (fun y hy => hl y (by simp [hy])) _ (goodCols_shortcutOne hs hg (hl x (by simp)) k)

theorem mem_dedupNT {x : NT} {l : List NT} (h : x ∈ dedupNT l) : x ∈ l := by
  induction l with
  | nil => simp [dedupNT] at h
  | cons y ys ih =>
    unfold dedupNT at h
    rcases List.mem_cons.1 h with h | h
    · simp [h]
    · exact List.mem_cons_of_mem _ (ih (List.mem_filter.1 h).1)

theorem loop_of_beginner {c : Cfg} {col : Col} {k : Nat} (hg : ∀ s, s ∈ col.states → Good c s k) {x : NT}
    (h : x ∈ beginnersOf col) : LoopNT c.rules x := by
  unfold beginnersOf at h
  have h1 := mem_dedupNT h
  obtain ⟨s, hsm, hsx⟩ := List.mem_filterMap.1 h1
  split at hsx
  · rename_i hb
    have hgs := hg s hsm
    have hne : s.item.lhs ≠ .start := by
      intro he; rw [he] at hb; simp [NT.beginner] at hb
    have hr := rules_of_ne_start hgs.1 hne
    cases hrhs : s.item.rhs with
    | nil => rw [hrhs] at hsx; simp at hsx
    | cons y ys =>
      rw [hrhs] at hsx
      simp only [List.head?_cons, Option.bind_some] at hsx
      cases y with
      | t tm => simp [ESym.nt?] at hsx
      | n z a r =>
        simp only [ESym.nt?, Option.some.injEq] at hsx
        subst hsx
        exact ⟨s.item.lhs, s.item.rhs, a, r, hr, hb, by rw [hrhs]; rfl⟩
  · cases hsx

theorem goodCols_shortcut {c : Cfg} (hs : SaneS c) {cols : List Col} (hg : GoodCols c cols) (k : Nat) :
    GoodCols c (shortcut cols k) := by
  unfold shortcut
  exact goodCols_shortcut_fold hs _ (fun x hx => loop_of_beginner (hg.1 k) hx) cols hg

/-! ### one step, all steps -/

/-- the machine a result carries -/
def Res.mach : Res → M
  | .next m => m
  | .done m => m
  | .raised m => m

theorem mem_doneOf' {col : Col} {k : Nat} {x : NT} {s : St} (h : s ∈ doneOf col k x) :
    s ∈ col.states ∧ s.item.finished = true := by
  unfold doneOf at h
  obtain ⟨h1, h2⟩ := List.mem_filter.1 h
  simp only [Bool.and_eq_true] at h2
  exact ⟨h1, h2.2⟩

theorem inv_step_mach (c : Cfg) (hs : SaneS c) (m : M) (hi : Inv c m) : Inv c (step c m).mach := by
  have hg : GoodCols c m.cols := ⟨hi.states, hi.dots⟩
  unfold step
  split
  · exact hi
  · split
    · -- an active `complete`
      rename_i t j hfr
      obtain ⟨htg, htf⟩ := hi.frame t j hfr
      split
      · exact ⟨hi.states, hi.dots, (by intro t' i' h; cases h), hi.pend, hi.out⟩
      · rename_i s hsome
        have hsmem : s ∈ (colAt m.cols t.item.origin).findDot t.item.lhs := List.mem_of_getElem? hsome
        have hsg : Good c s t.item.origin := hi.dots _ _ (mem_findDot hsmem)
        have hdot := findDot_dotNT? hsmem
        split
        · rename_i s' hadv
          have hs'g := advance_good htg htf hsg hdot hadv
          have hg' := goodCols_addAt c.policy m.k s' hg hs'g
          refine ⟨hg'.1, hg'.2, ?_, hi.pend, hi.out⟩
          intro t' i' h
          simp only [Res.mach, Option.some.injEq, Prod.mk.injEq] at h
          rw [← h.1]; exact ⟨htg, htf⟩
        · refine ⟨hi.states, hi.dots, ?_, hi.pend, hi.out⟩
          intro t' i' h
          simp only [Res.mach, Option.some.injEq, Prod.mk.injEq] at h
          rw [← h.1]; exact ⟨htg, htf⟩
    · rename_i hfr
      split
      · -- the next pending `complete` of `predict`
        rename_i t rest hpend
        have hpt := hi.pend t (by rw [hpend]; exact List.mem_cons_self)
        refine ⟨hi.states, hi.dots, ?_, ?_, hi.out⟩
        · intro t' i' h
          simp only [Res.mach] at h
          split at h
          · cases h
          · have h2 : t = t' := (Prod.mk.inj (Option.some.inj h)).1
            rw [← h2]; exact hpt
        · intro t' ht'
          simp only [Res.mach] at ht'
          exact hi.pend t' (by rw [hpend]; exact List.mem_cons_of_mem _ ht')
      · rename_i hpend
        have hnp : ∀ t, t ∈ m.pending → Good c t m.k ∧ t.item.finished = true := hi.pend
        split
        · -- end of the column
          have hg' := goodCols_shortcut hs hg m.k
          refine ⟨hg'.1, hg'.2, ?_, ?_, hi.out⟩
          · intro t' i' h
            simp only [Res.mach] at h
            rw [hfr] at h; cases h
          · intro t' ht'
            simp only [Res.mach] at ht'
            rw [hpend] at ht'; cases ht'
        · rename_i s hsome
          have hsmem : s ∈ (colAt m.cols m.k).states := List.mem_of_getElem? hsome
          have hsg := hi.states _ _ hsmem
          split
          · -- finished: open the frame, maybe yield
            rename_i hfin
            refine ⟨hi.states, hi.dots, ?_, hi.pend, ?_⟩
            · intro t' i' h
              simp only [Res.mach] at h
              have h2 : s = t' := by
                split at h
                · cases h
                · exact (Prod.mk.inj (Option.some.inj h)).1
              rw [← h2]; exact ⟨hsg, hfin⟩
            · intro pt hpt
              simp only [Res.mach] at hpt
              split at hpt
              · rename_i hcond
                rcases List.mem_append.1 hpt with h | h
                · exact hi.out _ h
                · exact top_of_good hs hsg hfin hcond.1 hcond.2 pt h
              · exact hi.out _ hpt
          · split
            · exact ⟨hi.states, hi.dots, (by intro t' i' h; simp only [Res.mach] at h; rw [hfr] at h; cases h), hi.pend, hi.out⟩
            · -- predict
              rename_i x a r hsym
              have hx := good_sym_ne_start hs hsg hsym
              have hg' := goodCols_pred (c := c) (k := m.k) hx (c.pred m.k x)
                (fun rhs hr => hs.pred_sub _ _ _ hr) m.cols hg
              refine ⟨hg'.1, hg'.2, (by intro t' i' h; simp only [Res.mach] at h; rw [hfr] at h; cases h), ?_, hi.out⟩
              intro t' ht'
              simp only [Res.mach] at ht'
              split at ht'
              · obtain ⟨h1, h2⟩ := mem_doneOf' ht'
                exact ⟨hg'.1 _ _ h1, h2⟩
              · cases ht'
            · -- scan
              rename_i term hsym
              split
              · exact ⟨hi.states, hi.dots, (by intro t' i' h; simp only [Res.mach] at h; rw [hfr] at h; cases h), hi.pend, hi.out⟩
              · rename_i e l hscan
                split
                · exact hi
                · have hn : Good c { item := s.item.next, kids := s.kids ++ [PT.leaf l], cover := s.cover } e := by
                    apply good_next hsg hsym
                    intro j ks hd
                    exact DerL.term hscan hd
                  have hg' := goodCols_addAt c.policy e _ hg hn
                  exact ⟨hg'.1, hg'.2, (by intro t' i' h; simp only [Res.mach] at h; rw [hfr] at h; cases h), hi.pend, hi.out⟩

theorem inv_step (c : Cfg) (hs : SaneS c) (m : M) (hi : Inv c m) :
    (∀ m', step c m = .next m' → Inv c m') ∧ (∀ m', step c m = .done m' → Inv c m') ∧
    (∀ m', step c m = .raised m' → Inv c m') := by
  have h := inv_step_mach c hs m hi
  refine ⟨?_, ?_, ?_⟩ <;> intro m' he <;> rw [he] at h <;> exact h

theorem inv_run_mach (c : Cfg) (hs : SaneS c) (fuel : Nat) : ∀ m : M, Inv c m → Inv c (run c fuel m).mach := by
  induction fuel with
  | zero => intro m hi; exact hi
  | succ f ih =>
    intro m hi
    have h := inv_step_mach c hs m hi
    unfold run
    cases hst : step c m with
    | next m' => rw [hst] at h; exact ih m' h
    | done m' => rw [hst] at h; exact h
    | raised m' => rw [hst] at h; exact h

theorem inv_run (c : Cfg) (hs : SaneS c) (fuel : Nat) (m : M) (hi : Inv c m) :
    (∀ m', run c fuel m = .next m' → Inv c m') ∧ (∀ m', run c fuel m = .done m' → Inv c m') ∧
    (∀ m', run c fuel m = .raised m' → Inv c m') := by
  have h := inv_run_mach c hs fuel m hi
  refine ⟨?_, ?_, ?_⟩ <;> intro m' he <;> rw [he] at h <;> exact h

/-- **chart soundness**: for every policy, prediction order, scanner and fuel, every tree the machine has yielded is a derivation of the start symbol over all columns -/
theorem chart_sound (c : Cfg) (hs : SaneS c) (fuel : Nat) (m : M)
    (h : run c fuel (M.init c) = .done m ∨ run c fuel (M.init c) = .raised m ∨ run c fuel (M.init c) = .next m) :
    ∀ pt, pt ∈ m.out → TopOk c pt := by
  obtain ⟨h1, h2, h3⟩ := inv_run c hs fuel (M.init c) (inv_init c hs)
  rcases h with h | h | h
  · exact (h2 m h).out
  · exact (h3 m h).out
  · exact (h1 m h).out

end FV.Earley
