/-
C04 / helper collapsing preserves derivations: what the chart derives over the helper rules of the
compiled table (`DerL`) collapses to valid derivation trees of the IR grammar.
-/
import Proofs.C04Defs
namespace FV.Earley

def tableOf (G : Grammar) (cap : Option Nat) (start : String) : List CRule :=
  (NT.start, [ESym.plain (.user start)]) :: compile G cap

/-- the scanner only returns leaves the terminal accepts — required only of terminals that occur in
    the table -/
def ScanOk (G : Grammar) (cap : Option Nat) (R : RegexOracle) (scan : Scan) : Prop :=
  ∀ x rhs t, (x, rhs) ∈ compile G cap → ESym.t t ∈ rhs →
    ∀ i m l, scan t i = some (m, l) → termOk R t (.leaf l) = true

/-! ### token semantics of the compiled symbols -/

/-- number of body iterations the `j`-th implicit nonterminal of a repetition node may derive -/
def implCount (cap : Option Nat) (n : Node) (j k : Nat) : Prop :=
  match n with
  | .rep _ .star _ _ _ => j = 0
  | .rep _ .plus _ _ _ => j = 0 ∧ 1 ≤ k
  | .rep _ .braces _ mn mx =>
    if openTail cap mx = true then (j = 0 ∧ k = 1) ∨ j = 1 ∨ (j = 2 ∧ mn ≤ k)
    else (j = 0 ∧ k = 1) ∨ (1 ≤ j ∧ j ≤ hiOf cap mx - mn ∧ 1 ≤ k ∧ k ≤ j) ∨
      (j = hiOf cap mx - mn + 1 ∧ mn ≤ k ∧ k ≤ mn + (hiOf cap mx - mn))
  | _ => False

def bodyOf : Node → Node
  | .rep _ _ b _ _ => b
  | n => n

def SemSym (R : RegexOracle) (cap : Option Nat) (start : String) : ESym → List Tok → Prop
  | .t t, w => ∃ tok, w = [tok] ∧ termOk R t tok = true
  | .n .start _ _, w => w = [.ntk start]
  | .n (.user s) _ _, w => w = [.ntk s]
  | .n (.ctl n) _ _, w => Matches R n w
  | .n (.impl n j) _ _, w =>
    ∃ k, implCount cap n j k ∧ RepOf (fun v => Matches R (bodyOf n) v) k w

def SemL (R : RegexOracle) (cap : Option Nat) (start : String) : List ESym → List Tok → Prop
  | [], w => w = []
  | s :: ss, w => ∃ w1 w2, w = w1 ++ w2 ∧ SemSym R cap start s w1 ∧ SemL R cap start ss w2

/-! ### list lemmas -/

theorem collapseL_append (a b : List PT) : collapseL (a ++ b) = collapseL a ++ collapseL b := by
  induction a with
  | nil => simp [collapseL]
  | cons x xs ih => simp [collapseL, ih]

theorem validL_append {G : Grammar} {R : RegexOracle} {a b : List Tree}
    (ha : ValidL G R a) (hb : ValidL G R b) : ValidL G R (a ++ b) := by
  induction a with
  | nil => simpa using hb
  | cons x xs ih =>
    simp only [ValidL] at ha
    simp only [List.cons_append, ValidL]
    exact ⟨ha.1, ih ha.2⟩

theorem toksOf_append {a b : List Tree} {t1 t2 : List Tok}
    (ha : toksOf a = some t1) (hb : toksOf b = some t2) : toksOf (a ++ b) = some (t1 ++ t2) := by
  induction a generalizing t1 with
  | nil => simp [toksOf] at ha; subst ha; simpa using hb
  | cons x xs ih =>
    simp only [toksOf] at ha
    cases hx : tokOf x with
    | none => simp [hx] at ha
    | some tx =>
      cases hxs : toksOf xs with
      | none => simp [hx, hxs] at ha
      | some txs =>
        simp [hx, hxs] at ha
        subst ha
        simp [toksOf, hx, ih hxs]

theorem repOf_add {P : List Tok → Prop} {a b : Nat} {u v : List Tok}
    (hu : RepOf P a u) (hv : RepOf P b v) : RepOf P (a + b) (u ++ v) := by
  induction a generalizing u with
  | zero => simp only [RepOf] at hu; subst hu; simpa using hv
  | succ a ih =>
    simp only [RepOf] at hu
    obtain ⟨w1, w2, rfl, h1, h2⟩ := hu
    rw [Nat.succ_add]
    simp only [RepOf]
    exact ⟨w1, w2 ++ v, by simp, h1, ih h2⟩

theorem repOf_one {P : List Tok → Prop} {u : List Tok} : RepOf P 1 u ↔ P u := by
  simp only [RepOf]
  constructor
  · rintro ⟨w1, w2, rfl, h, rfl⟩; simpa using h
  · intro h; exact ⟨u, [], by simp, h, rfl⟩

theorem semL_single {R : RegexOracle} {cap : Option Nat} {start : String} {s : ESym} {w : List Tok} :
    SemL R cap start [s] w ↔ SemSym R cap start s w := by
  simp only [SemL]
  constructor
  · rintro ⟨w1, w2, rfl, h, rfl⟩; simpa using h
  · intro h; exact ⟨w, [], by simp, h, rfl⟩

theorem semSym_symOf {R : RegexOracle} {cap : Option Nat} {start : String} {n : Node} {w : List Tok} :
    SemSym R cap start (symOf n) w ↔ Matches R n w := by
  cases n with
  | term t => simp only [symOf, SemSym, Matches]
  | nt name s r => simp only [symOf, SemSym, Matches]
  | alt i ns => simp only [symOf, ESym.plain, SemSym]
  | cat i ns => simp only [symOf, ESym.plain, SemSym]
  | rep i k b mn mx => simp only [symOf, ESym.plain, SemSym]

theorem matchesAny_of_mem {R : RegexOracle} {ns : List Node} {n : Node} {w : List Tok}
    (hm : n ∈ ns) (h : Matches R n w) : MatchesAny R ns w := by
  induction ns with
  | nil => cases hm
  | cons x xs ih =>
    simp only [MatchesAny]
    rcases List.mem_cons.mp hm with rfl | hm
    · exact Or.inl h
    · exact Or.inr (ih hm)

theorem matchesCat_of_semL {R : RegexOracle} {cap : Option Nat} {start : String} {ns : List Node}
    {w : List Tok} (h : SemL R cap start (ns.map symOf) w) : MatchesCat R ns w := by
  induction ns generalizing w with
  | nil => simpa [SemL, MatchesCat] using h
  | cons x xs ih =>
    simp only [List.map_cons, SemL] at h
    obtain ⟨w1, w2, rfl, h1, h2⟩ := h
    simp only [MatchesCat]
    exact ⟨w1, w2, rfl, semSym_symOf.mp h1, ih h2⟩

/-- the rules of a control-flow nonterminal spell out expansions of its node -/
theorem ctl_sem {R : RegexOracle} {cap : Option Nat} {start : String} {n : Node} {rhs : List ESym}
    {w : List Tok} (hwf : nodeWf n = true) (hr : rhs ∈ ctlRules cap n)
    (h : SemL R cap start rhs w) : Matches R n w := by
  cases n with
  | term t => simp [ctlRules] at hr
  | nt name s r => simp [ctlRules] at hr
  | alt i ns =>
    simp only [ctlRules, List.mem_map] at hr
    obtain ⟨m, hm, rfl⟩ := hr
    simp only [Matches]
    exact matchesAny_of_mem hm (semSym_symOf.mp (semL_single.mp h))
  | cat i ns =>
    simp only [ctlRules, List.mem_singleton] at hr
    subst hr
    simp only [Matches]
    exact matchesCat_of_semL h
  | rep i k b mn mx =>
    simp only [nodeWf, Bool.and_eq_true] at hwf
    obtain ⟨hb, _⟩ := hwf
    simp only [Matches]
    cases k with
    | star =>
      simp only [ctlRules, List.mem_singleton] at hr
      subst hr
      simp only [repWf, Bool.and_eq_true, beq_iff_eq] at hb
      obtain ⟨rfl, rfl⟩ := hb
      obtain ⟨k, _, hk⟩ := semL_single.mp h
      exact ⟨k, ⟨Nat.zero_le _, by intro _ hc; cases hc⟩, hk⟩
    | plus =>
      simp only [ctlRules, List.mem_singleton] at hr
      subst hr
      simp only [repWf, Bool.and_eq_true, beq_iff_eq] at hb
      obtain ⟨rfl, rfl⟩ := hb
      obtain ⟨k, hc, hk⟩ := semL_single.mp h
      simp only [implCount] at hc
      exact ⟨k, ⟨hc.2, by intro _ hc; cases hc⟩, hk⟩
    | opt =>
      simp only [repWf, Bool.and_eq_true, beq_iff_eq] at hb
      obtain ⟨rfl, rfl⟩ := hb
      simp only [ctlRules, List.mem_cons, List.not_mem_nil, or_false] at hr
      rcases hr with rfl | rfl
      · simp only [SemL] at h
        subst h
        exact ⟨0, ⟨Nat.le_refl _, by intro _ hc; cases hc; omega⟩, by simp only [RepOf]⟩
      · have hm := semSym_symOf.mp (semL_single.mp h)
        exact ⟨1, ⟨by omega, by intro _ hc; cases hc; omega⟩, repOf_one.mpr hm⟩
    | braces =>
      simp only [ctlRules] at hr
      split at hr
      · -- open-ended: no upper bound to meet
        rename_i hot
        simp only [List.mem_singleton] at hr
        subst hr
        obtain ⟨k, hc, hk⟩ := semL_single.mp h
        simp only [implCount] at hc
        rw [if_pos hot] at hc
        refine ⟨k, ⟨by omega, ?_⟩, hk⟩
        intro M hM
        subst hM
        simp [openTail] at hot
      · rename_i hot
        simp only [List.mem_singleton] at hr
        subst hr
        obtain ⟨k, hc, hk⟩ := semL_single.mp h
        simp only [implCount] at hc
        rw [if_neg hot] at hc
        refine ⟨k, ⟨by omega, ?_⟩, hk⟩
        intro M hM
        subst hM
        simp only [repWf, boundsOk, decide_eq_true_eq] at hb
        simp only [hiOf, Option.getD_some] at hc
        omega

theorem semL_replicate {R : RegexOracle} {cap : Option Nat} {start : String} {P : List Tok → Prop}
    {w0 : ESym} (hw0 : ∀ v, SemSym R cap start w0 v → P v) (m : Nat) {rest : List ESym}
    {u : List Tok} (h : SemL R cap start (List.replicate m w0 ++ rest) u) :
    ∃ u1 u2, u = u1 ++ u2 ∧ RepOf P m u1 ∧ SemL R cap start rest u2 := by
  induction m generalizing u with
  | zero => exact ⟨[], u, by simp, by simp only [RepOf], by simpa using h⟩
  | succ m ih =>
    simp only [List.replicate_succ, List.cons_append, SemL] at h
    obtain ⟨w1, w2, rfl, h1, h2⟩ := h
    obtain ⟨u1, u2, rfl, h3, h4⟩ := ih h2
    refine ⟨w1 ++ u1, u2, by simp, ?_, h4⟩
    simp only [RepOf]
    exact ⟨w1, u1, rfl, hw0 _ h1, h3⟩

/-- the rules of an implicit nonterminal derive the iteration counts `implCount` allows -/
theorem impl_sem {R : RegexOracle} {cap : Option Nat} {start : String} {n : Node} {j : Nat}
    {rhs : List ESym} {w : List Tok} (hr : rhs ∈ implRules cap n j)
    (h : SemL R cap start rhs w) :
    ∃ k, implCount cap n j k ∧ RepOf (fun v => Matches R (bodyOf n) v) k w := by
  cases n with
  | term t => simp [implRules] at hr
  | nt name s r => simp [implRules] at hr
  | alt i ns => simp [implRules] at hr
  | cat i ns => simp [implRules] at hr
  | rep i kind b mn mx =>
    cases kind with
    | opt => simp [implRules] at hr
    | star =>
      cases j with
      | succ j => simp [implRules] at hr
      | zero =>
        simp only [implRules, List.mem_cons, List.not_mem_nil, or_false] at hr
        rcases hr with rfl | rfl
        · simp only [SemL] at h
          subst h
          exact ⟨0, by simp only [implCount], by simp only [RepOf]⟩
        · simp only [SemL] at h
          obtain ⟨w1, w2, rfl, h1, w3, w4, rfl, h2, rfl⟩ := h
          obtain ⟨k, _, hk⟩ := h2
          refine ⟨1 + k, by simp only [implCount], ?_⟩
          rw [List.append_nil]
          exact repOf_add (repOf_one.mpr (semSym_symOf.mp h1)) hk
    | plus =>
      cases j with
      | succ j => simp [implRules] at hr
      | zero =>
        simp only [implRules, List.mem_cons, List.not_mem_nil, or_false] at hr
        rcases hr with rfl | rfl
        · have hm := semSym_symOf.mp (semL_single.mp h)
          exact ⟨1, by simp [implCount], repOf_one.mpr hm⟩
        · simp only [SemL] at h
          obtain ⟨w1, w2, rfl, h1, w3, w4, rfl, h2, rfl⟩ := h
          obtain ⟨k, _, hk⟩ := h2
          refine ⟨1 + k, by simp [implCount], ?_⟩
          rw [List.append_nil]
          exact repOf_add (repOf_one.mpr (semSym_symOf.mp h1)) hk
    | braces =>
      -- the body wrapper `<impl 0>` derives exactly one iteration
      have hw0 : ∀ v, SemSym R cap start (.plain (.impl (.rep i .braces b mn mx) 0)) v →
          Matches R b v := by
        intro v hv
        obtain ⟨k, hc, hk⟩ := hv
        simp only [implCount] at hc
        have : k = 1 := by split at hc <;> omega
        subst this
        exact repOf_one.mp hk
      simp only [implCount, bodyOf]
      simp only [implRules] at hr
      split at hr
      · -- open-ended `{n,}`: wrapper (j = 0), right-recursive tail (j = 1), head (j = 2)
        rename_i hot
        simp only [if_pos hot]
        split at hr
        · rename_i hj
          simp only [List.mem_singleton] at hr
          subst hr
          have hm := semSym_symOf.mp (semL_single.mp h)
          exact ⟨1, by omega, repOf_one.mpr hm⟩
        · split at hr
          · rename_i hj1
            simp only [List.mem_cons, List.not_mem_nil, or_false] at hr
            rcases hr with rfl | rfl
            · simp only [SemL] at h
              subst h
              exact ⟨0, by omega, by simp only [RepOf]⟩
            · simp only [SemL] at h
              obtain ⟨w1, w2, rfl, h1, w3, w4, rfl, h2, rfl⟩ := h
              obtain ⟨k, _, hk⟩ := h2
              simp only [bodyOf] at hk
              refine ⟨1 + k, by omega, ?_⟩
              rw [List.append_nil]
              exact repOf_add (repOf_one.mpr (hw0 _ h1)) hk
          · split at hr
            · rename_i hj2
              simp only [List.mem_singleton] at hr
              subst hr
              obtain ⟨u1, u2, rfl, h3, h4⟩ := semL_replicate hw0 mn h
              obtain ⟨k, _, hk⟩ := semL_single.mp h4
              simp only [bodyOf] at hk
              exact ⟨mn + k, by omega, repOf_add h3 hk⟩
            · simp at hr
      · rename_i hot
        simp only [if_neg hot]
        generalize hd : hiOf cap mx - mn = d at hr ⊢
        split at hr
        · -- j = 0
          rename_i hj
          simp only [List.mem_singleton] at hr
          subst hr
          have hm := semSym_symOf.mp (semL_single.mp h)
          exact ⟨1, by omega, repOf_one.mpr hm⟩
        · rename_i hj0
          split at hr
          · -- 1 ≤ j ≤ d
            rename_i hjd
            have h1case : ∀ u, SemL R cap start [.plain (.impl (.rep i .braces b mn mx) 0)] u →
                ∃ k, ((j = 0 ∧ k = 1) ∨ (1 ≤ j ∧ j ≤ d ∧ 1 ≤ k ∧ k ≤ j) ∨ (j = d + 1 ∧ mn ≤ k ∧ k ≤ mn + d)) ∧
                  RepOf (fun v => Matches R b v) k u := by
              intro u hu
              exact ⟨1, by omega, repOf_one.mpr (hw0 _ (semL_single.mp hu))⟩
            split at hr
            · simp only [List.mem_singleton] at hr
              subst hr
              exact h1case _ h
            · rename_i hj1
              simp only [List.mem_cons, List.not_mem_nil, or_false] at hr
              rcases hr with rfl | rfl
              · exact h1case _ h
              · simp only [SemL] at h
                obtain ⟨w1, w2, rfl, h1, w3, w4, rfl, h2, rfl⟩ := h
                obtain ⟨k, hc, hk⟩ := h2
                simp only [implCount, bodyOf] at hc hk
                rw [if_neg hot, hd] at hc
                refine ⟨1 + k, by omega, ?_⟩
                rw [List.append_nil]
                exact repOf_add (repOf_one.mpr (hw0 _ h1)) hk
          · rename_i hjd
            split at hr
            · -- j = d + 1
              rename_i hjd1
              simp only [List.mem_cons] at hr
              rcases hr with rfl | hr
              · rw [← List.append_nil (List.replicate _ _)] at h
                obtain ⟨u1, u2, rfl, h3, h4⟩ := semL_replicate hw0 mn h
                simp only [SemL] at h4
                subst h4
                rw [List.append_nil]
                exact ⟨mn, by omega, h3⟩
              · split at hr
                · simp at hr
                · rename_i hd0
                  simp only [List.mem_singleton] at hr
                  subst hr
                  obtain ⟨u1, u2, rfl, h3, h4⟩ := semL_replicate hw0 mn h
                  obtain ⟨k, hc, hk⟩ := semL_single.mp h4
                  simp only [implCount, bodyOf] at hc hk
                  rw [if_neg hot, hd] at hc
                  exact ⟨mn + k, by omega, repOf_add h3 hk⟩
            · simp at hr

/-! ### well-formedness of the nodes that name helper nonterminals -/

theorem implsOf_no_ctl (cap : Option Nat) (me n : Node) : NT.ctl n ∉ implsOf cap me := by
  cases me with
  | rep i k b mn mx => cases k <;> simp [implsOf]
  | _ => simp [implsOf]

mutual
theorem subNTs_wf (cap : Option Nat) : ∀ (node : Node), nodeWf node = true →
    ∀ n, NT.ctl n ∈ subNTs cap node → nodeWf n = true
  | .term _, _, n, h => by simp [subNTs] at h
  | .nt _ _ _, _, n, h => by simp [subNTs] at h
  | .alt i ns, hw, n, h => by
    simp only [subNTs, List.mem_cons] at h
    rcases h with h | h
    · have := NT.ctl.inj h
      subst this
      exact hw
    · exact subNTsL_wf cap ns (by simpa only [nodeWf] using hw) n h
  | .cat i ns, hw, n, h => by
    simp only [subNTs, List.mem_cons] at h
    rcases h with h | h
    · have := NT.ctl.inj h
      subst this
      exact hw
    · exact subNTsL_wf cap ns (by simpa only [nodeWf] using hw) n h
  | .rep i k b mn mx, hw, n, h => by
    simp only [subNTs, List.mem_cons, List.mem_append] at h
    rcases h with h | h | h
    · have := NT.ctl.inj h
      subst this
      exact hw
    · exact absurd h (implsOf_no_ctl cap _ n)
    · simp only [nodeWf, Bool.and_eq_true] at hw
      exact subNTs_wf cap b hw.2 n h
theorem subNTsL_wf (cap : Option Nat) : ∀ (ns : List Node), nodesWf ns = true →
    ∀ n, NT.ctl n ∈ subNTsL cap ns → nodeWf n = true
  | [], _, n, h => by simp [subNTsL] at h
  | m :: ms, hw, n, h => by
    simp only [subNTsL, List.mem_append] at h
    simp only [nodesWf, Bool.and_eq_true] at hw
    rcases h with h | h
    · exact subNTs_wf cap m hw.1 n h
    · exact subNTsL_wf cap ms hw.2 n h
end

theorem rule_wf {G : Grammar} (hwf : G.wf = true) {s : String} {body : Node}
    (h : G.rule s = some body) : nodeWf body = true := by
  unfold Grammar.rule at h
  split at h
  · rename_i p hp
    cases h
    have hm := List.mem_of_find?_eq_some hp
    unfold Grammar.wf at hwf
    rw [List.all_eq_true] at hwf
    exact hwf p hm
  · cases h

theorem ctl_wf {G : Grammar} {cap : Option Nat} (hwf : G.wf = true) {n : Node} {rhs : List ESym}
    (h : (NT.ctl n, rhs) ∈ compile G cap) : nodeWf n = true := by
  unfold compile at h
  rw [List.mem_flatMap] at h
  obtain ⟨y, hy, hm⟩ := h
  rw [List.mem_map] at hm
  obtain ⟨r, _, he⟩ := hm
  cases he
  unfold allNTs at hy
  rw [List.mem_flatMap] at hy
  obtain ⟨p, hp, hm⟩ := hy
  simp only [List.mem_cons, reduceCtorEq, false_or] at hm
  unfold Grammar.wf at hwf
  rw [List.all_eq_true] at hwf
  exact subNTs_wf cap p.2 (hwf p hp) n hm

/-! ### the main induction -/

/-- `rhs` is a suffix of a right-hand side of the table -/
def InTable (G : Grammar) (cap : Option Nat) (start : String) (rhs : List ESym) : Prop :=
  ∃ x pre, (x, pre ++ rhs) ∈ tableOf G cap start

theorem inTable_rule {G : Grammar} {cap : Option Nat} {start : String} {x : NT} {rhs : List ESym}
    (h : (x, rhs) ∈ tableOf G cap start) : InTable G cap start rhs := ⟨x, [], by simpa using h⟩

theorem inTable_tail {G : Grammar} {cap : Option Nat} {start : String} {s : ESym} {ss : List ESym}
    (h : InTable G cap start (s :: ss)) : InTable G cap start ss := by
  obtain ⟨x, pre, hm⟩ := h
  exact ⟨x, pre ++ [s], by simpa using hm⟩

theorem table_mem_cases {G : Grammar} {cap : Option Nat} {start : String} {x : NT} {rhs : List ESym}
    (h : (x, rhs) ∈ tableOf G cap start) :
    (x = .start ∧ rhs = [ESym.plain (.user start)]) ∨ (x, rhs) ∈ compile G cap := by
  unfold tableOf at h
  rcases List.mem_cons.mp h with h | h
  · cases h; exact Or.inl ⟨rfl, rfl⟩
  · exact Or.inr h

theorem inTable_term {G : Grammar} {cap : Option Nat} {start : String} {t : Term} {ss : List ESym}
    (h : InTable G cap start (.t t :: ss)) : ∃ x full, (x, full) ∈ compile G cap ∧ ESym.t t ∈ full := by
  obtain ⟨x, pre, hm⟩ := h
  rcases table_mem_cases hm with ⟨_, he⟩ | hc
  · have : ESym.t t ∈ pre ++ ESym.t t :: ss := by simp
    rw [he] at this
    simp [ESym.plain] at this
  · exact ⟨x, _, hc, by simp⟩

theorem combine {G : Grammar} {R : RegexOracle} {cap : Option Nat} {start : String} {A B : List Tree}
    {t1 : List Tok} {s : ESym} {ss : List ESym}
    (hA : ValidL G R A) (htA : toksOf A = some t1) (hs : SemSym R cap start s t1)
    (hB : ValidL G R B ∧ ∃ toks, toksOf B = some toks ∧ SemL R cap start ss toks) :
    ValidL G R (A ++ B) ∧ ∃ toks, toksOf (A ++ B) = some toks ∧ SemL R cap start (s :: ss) toks := by
  obtain ⟨hB, t2, htB, hss⟩ := hB
  refine ⟨validL_append hA hB, t1 ++ t2, toksOf_append htA htB, ?_⟩
  simp only [SemL]
  exact ⟨t1, t2, rfl, hs, hss⟩

/-- **helper collapsing preserves derivations**: what the chart derives over the helper rules
    collapses to a list of valid derivation trees of the IR grammar whose top-level tokens spell out
    the symbols -/
theorem collapse_sound (G : Grammar) (cap : Option Nat) (R : RegexOracle) (scan : Scan) (start : String)
    (hwf : G.wf = true) (hscan : ScanOk G cap R scan)
    {rhs : List ESym} {ks : List PT} {i j : Nat}
    (hsub : InTable G cap start rhs)
    (h : DerL (tableOf G cap start) scan rhs ks i j) :
    ValidL G R (collapseL ks) ∧
      ∃ toks, toksOf (collapseL ks) = some toks ∧ SemL R cap start rhs toks := by
  induction h with
  | nil i => exact ⟨by simp only [collapseL, ValidL], [], by simp only [collapseL, toksOf], by simp only [SemL]⟩
  | @term t i m j l ss ks hs hd ih =>
    have hB := ih (inTable_tail hsub)
    obtain ⟨x, full, hc, ht⟩ := inTable_term hsub
    have hok := hscan x full t hc ht i m l hs
    simp only [collapseL, collapse]
    exact combine (A := [Tree.leaf l]) (t1 := [.leaf l])
      (by simp only [ValidL, Tree.leaf, Valid, and_self]) (by simp [toksOf, tokOf, Tree.leaf])
      ⟨.leaf l, rfl, hok⟩ hB
  | @expl x a r rhs' kids ss ks i m j hx hr h1 h2 ih1 ih2 =>
    have hB := ih2 (inTable_tail hsub)
    obtain ⟨hV, toks1, ht1, hS⟩ := ih1 (inTable_rule hr)
    rcases table_mem_cases hr with ⟨rfl, _⟩ | hc
    · simp [NT.explicit] at hx
    · have hro := mem_compile hc
      cases x with
      | start => simp [NT.explicit] at hx
      | impl n q => simp [NT.explicit] at hx
      | user s =>
        simp only [rulesOf] at hro
        cases hb : G.rule s with
        | none => simp [hb] at hro
        | some body =>
          simp only [hb, List.mem_singleton] at hro
          subst hro
          have hm := semSym_symOf.mp (semL_single.mp hS)
          simp only [collapseL, collapse, ntName]
          refine combine (A := [Tree.mk (.nt s) a r (collapseL kids)]) (t1 := [.ntk s]) ?_
            (by simp [toksOf, tokOf]) (by simp only [SemSym]) hB
          simp only [ValidL, Valid, and_true]
          exact ⟨⟨body, toks1, hb, ht1, hm⟩, hV⟩
      | ctl n =>
        simp only [rulesOf] at hro
        have hm := ctl_sem (ctl_wf hwf hc) hro hS
        simp only [collapseL, collapse]
        exact combine hV ht1 (by simpa only [SemSym] using hm) hB
  | @impl x a r rhs' k1 ss k2 i m j hx hr h1 h2 ih1 ih2 =>
    have hB := ih2 (inTable_tail hsub)
    obtain ⟨hV, toks1, ht1, hS⟩ := ih1 (inTable_rule hr)
    rw [collapseL_append]
    refine combine hV ht1 ?_ hB
    rcases table_mem_cases hr with ⟨rfl, rfl⟩ | hc
    · have := semL_single.mp hS
      simpa only [SemSym, ESym.plain] using this
    · have hro := mem_compile hc
      cases x with
      | user s => simp [NT.explicit] at hx
      | ctl n => simp [NT.explicit] at hx
      | start => simp [rulesOf] at hro
      | impl n q =>
        simp only [rulesOf] at hro
        simpa only [SemSym] using impl_sem hro hS

/-- the corollary that is used: a yielded tree is a valid derivation -/
theorem collapse_top_valid (G : Grammar) (cap : Option Nat) (R : RegexOracle) (scan : Scan) (start : String)
    (hwf : G.wf = true) (hscan : ScanOk G cap R scan) {rhs : List ESym} {kids : List PT} {i j : Nat}
    (hr : (NT.user start, rhs) ∈ compile G cap)
    (h : DerL (tableOf G cap start) scan rhs kids i j) :
    Valid G R (Tree.mk (.nt start) none none (collapseL kids)) := by
  have hr' : (NT.user start, rhs) ∈ tableOf G cap start := List.mem_cons_of_mem _ hr
  obtain ⟨hV, toks, ht, hS⟩ := collapse_sound G cap R scan start hwf hscan (inTable_rule hr') h
  have hro := mem_compile hr
  simp only [rulesOf] at hro
  cases hb : G.rule start with
  | none => simp [hb] at hro
  | some body =>
    simp only [hb, List.mem_singleton] at hro
    subst hro
    simp only [Valid]
    exact ⟨⟨body, toks, hb, ht, semSym_symOf.mp (semL_single.mp hS)⟩, hV⟩

/-! ### the leaves of the collapsed trees tile the input -/

theorem leavesL_append (a b : List Tree) :
    Tree.leavesL (a ++ b) = Tree.leavesL a ++ Tree.leavesL b := by
  induction a with
  | nil => simp [Tree.leavesL]
  | cons x xs ih => simp [Tree.leavesL, ih]

theorem leavesL_collapse_node (x : NT) (a r : Option String) (kids : List PT) :
    Tree.leavesL (collapse (.node x a r kids)) = Tree.leavesL (collapseL kids) := by
  cases x <;> simp [collapse, Tree.leavesL, Tree.leaves]

theorem tilesLoose_append {inp : Input} {ls ls' : List Leaf} {i m j : Nat}
    (h1 : TilesLoose inp ls i m) (h2 : TilesLoose inp ls' m j) : TilesLoose inp (ls ++ ls') i j := by
  induction h1 with
  | nil i => simpa using h2
  | cons hl _ ih => exact TilesLoose.cons hl (ih h2)

theorem tiles_append {inp : Input} {ls ls' : List Leaf} {i m j : Nat}
    (h1 : Tiles inp ls i m) (h2 : Tiles inp ls' m j) : Tiles inp (ls ++ ls') i j := by
  induction h1 with
  | nil i => simpa using h2
  | cons hl ha _ ih => exact Tiles.cons hl ha (ih h2)

theorem collapse_tiles_loose (rules : List CRule) (inp : Input) (scan : Scan)
    (hscan : ∀ t i m l, scan t i = some (m, l) → m = i + l.width ∧ LeafAt inp i l)
    {rhs : List ESym} {ks : List PT} {i j : Nat} (h : DerL rules scan rhs ks i j) :
    TilesLoose inp (Tree.leavesL (collapseL ks)) i j := by
  induction h with
  | nil i => simpa only [collapseL, Tree.leavesL] using TilesLoose.nil i
  | @term t i m j l ss ks hs hd ih =>
    obtain ⟨rfl, hl⟩ := hscan t i m l hs
    simp only [collapseL, collapse, Tree.leavesL, Tree.leaf, Tree.leaves, List.singleton_append]
    exact TilesLoose.cons hl ih
  | @expl x a r rhs' kids ss ks i m j hx hr h1 h2 ih1 ih2 =>
    simp only [collapseL, leavesL_append, leavesL_collapse_node]
    exact tilesLoose_append ih1 ih2
  | @impl x a r rhs' k1 ss k2 i m j hx hr h1 h2 ih1 ih2 =>
    rw [collapseL_append, leavesL_append]
    exact tilesLoose_append ih1 ih2

theorem collapse_tiles (rules : List CRule) (inp : Input) (scan : Scan)
    (hscan : ∀ t i m l, scan t i = some (m, l) →
      m = i + l.width ∧ LeafAt inp i l ∧ (l.isBit = false → i % 8 = 0))
    {rhs : List ESym} {ks : List PT} {i j : Nat} (h : DerL rules scan rhs ks i j) :
    Tiles inp (Tree.leavesL (collapseL ks)) i j := by
  induction h with
  | nil i => simpa only [collapseL, Tree.leavesL] using Tiles.nil i
  | @term t i m j l ss ks hs hd ih =>
    obtain ⟨rfl, hl, ha⟩ := hscan t i m l hs
    simp only [collapseL, collapse, Tree.leavesL, Tree.leaf, Tree.leaves, List.singleton_append]
    exact Tiles.cons hl ha ih
  | @expl x a r rhs' kids ss ks i m j hx hr h1 h2 ih1 ih2 =>
    simp only [collapseL, leavesL_append, leavesL_collapse_node]
    exact tiles_append ih1 ih2
  | @impl x a r rhs' k1 ss k2 i m j hx hr h1 h2 ih1 ih2 =>
    rw [collapseL_append, leavesL_append]
    exact tiles_append ih1 ih2


end FV.Earley
