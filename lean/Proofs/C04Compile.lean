import Proofs.C04Defs
namespace FV.Earley

/-! ### (A) the compiled table is sane -/

def isLoop : Node → Bool
  | .rep _ .star _ _ _ => true
  | .rep _ .plus _ _ _ => true
  | _ => false

/-- the recursive rule of the loop nonterminal of a `*` / `+` node -/
def loopRule : Node → List ESym
  | .rep i k b mn mx => [symOf b, .plain (.impl (.rep i k b mn mx) 0)]
  | _ => []

theorem beginner_ctl (n : Node) : NT.beginner (.ctl n) = isLoop n := by
  cases n with
  | rep i k b mn mx => cases k <;> rfl
  | _ => rfl

theorem beginner_eq {y : NT} (h : y.beginner = true) : ∃ n, y = .ctl n ∧ isLoop n = true := by
  cases y with
  | ctl n => exact ⟨n, rfl, by rw [← beginner_ctl]; exact h⟩
  | _ => simp [NT.beginner] at h

theorem symOf_ne_impl (c m : Node) (j : Nat) (a r : Option String) :
    symOf c ≠ ESym.n (.impl m j) a r := by
  cases c <;> simp [symOf, ESym.plain]

theorem symOf_ne_start (c : Node) (a r : Option String) : symOf c ≠ ESym.n .start a r := by
  cases c <;> simp [symOf, ESym.plain]

theorem symOf_eq_t {c : Node} {t : Term} (h : symOf c = ESym.t t) : c = .term t := by
  cases c <;> simp [symOf, ESym.plain] at h
  rw [h]

theorem ctlRules_sym {cap : Option Nat} {n : Node} {rhs : List ESym} {s : ESym}
    (hr : rhs ∈ ctlRules cap n) (hm : s ∈ rhs) :
    (∃ c, s = symOf c) ∨ (∃ j', s = ESym.plain (.impl n j') ∧ (isLoop n = true → j' = 0)) := by
  cases n with
  | term t => simp [ctlRules] at hr
  | nt a b c => simp [ctlRules] at hr
  | alt i ns =>
    simp only [ctlRules, List.mem_map] at hr
    obtain ⟨c, _, rfl⟩ := hr
    simp only [List.mem_singleton] at hm
    exact .inl ⟨c, hm⟩
  | cat i ns =>
    simp only [ctlRules, List.mem_singleton] at hr
    subst hr
    rw [List.mem_map] at hm
    obtain ⟨c, _, rfl⟩ := hm
    exact .inl ⟨c, rfl⟩
  | rep i k b mn mx =>
    cases k with
    | star =>
      simp only [ctlRules, List.mem_singleton] at hr
      subst hr
      simp only [List.mem_singleton] at hm
      exact .inr ⟨0, hm, fun _ => rfl⟩
    | plus =>
      simp only [ctlRules, List.mem_singleton] at hr
      subst hr
      simp only [List.mem_singleton] at hm
      exact .inr ⟨0, hm, fun _ => rfl⟩
    | opt =>
      simp only [ctlRules, List.mem_cons, List.not_mem_nil, or_false] at hr
      rcases hr with rfl | rfl
      · simp at hm
      · simp only [List.mem_singleton] at hm
        exact .inl ⟨b, hm⟩
    | braces =>
      simp only [ctlRules] at hr
      split at hr <;>
      · simp only [List.mem_singleton] at hr
        subst hr
        simp only [List.mem_singleton] at hm
        exact .inr ⟨_, hm, fun h => by simp [isLoop] at h⟩

theorem implRules_braces_sym {cap : Option Nat} {i : String} {b : Node} {mn : Nat} {mx : Option Nat} {j : Nat}
    {rhs : List ESym} {s : ESym}
    (hr : rhs ∈ implRules cap (.rep i .braces b mn mx) j) (hm : s ∈ rhs) :
    s = symOf b ∨ ∃ j', s = ESym.plain (.impl (.rep i .braces b mn mx) j') := by
  simp only [implRules] at hr
  split at hr
  · -- open-ended `{n,}`: wrapper, tail, head
    split at hr
    · simp only [List.mem_singleton] at hr
      subst hr
      simp only [List.mem_singleton] at hm
      exact .inl hm
    · split at hr
      · simp only [List.mem_cons, List.not_mem_nil, or_false] at hr
        rcases hr with rfl | rfl
        · simp at hm
        · simp only [List.mem_cons, List.not_mem_nil, or_false] at hm
          rcases hm with rfl | rfl
          · exact .inr ⟨_, rfl⟩
          · exact .inr ⟨_, rfl⟩
      · split at hr
        · simp only [List.mem_singleton] at hr
          subst hr
          simp only [List.mem_append, List.mem_replicate, List.mem_singleton] at hm
          rcases hm with hm | hm
          · exact .inr ⟨_, hm.2⟩
          · exact .inr ⟨_, hm⟩
        · simp at hr
  · split at hr
    · simp only [List.mem_singleton] at hr
      subst hr
      simp only [List.mem_singleton] at hm
      exact .inl hm
    · split at hr
      · split at hr
        · simp only [List.mem_singleton] at hr
          subst hr
          simp only [List.mem_singleton] at hm
          exact .inr ⟨_, hm⟩
        · simp only [List.mem_cons, List.not_mem_nil, or_false] at hr
          rcases hr with rfl | rfl
          · simp only [List.mem_singleton] at hm
            exact .inr ⟨_, hm⟩
          · simp only [List.mem_cons, List.not_mem_nil, or_false] at hm
            rcases hm with rfl | rfl
            · exact .inr ⟨_, rfl⟩
            · exact .inr ⟨_, rfl⟩
      · split at hr
        · rw [List.mem_cons] at hr
          rcases hr with rfl | hr
          · rw [List.mem_replicate] at hm
            exact .inr ⟨_, hm.2⟩
          · split at hr
            · simp at hr
            · simp only [List.mem_singleton] at hr
              subst hr
              simp only [List.mem_append, List.mem_replicate, List.mem_singleton] at hm
              rcases hm with hm | hm
              · exact .inr ⟨_, hm.2⟩
              · exact .inr ⟨_, hm⟩
        · simp at hr

theorem implRules_sym {cap : Option Nat} {n : Node} {j : Nat} {rhs : List ESym} {p : Nat} {s : ESym}
    (hr : rhs ∈ implRules cap n j) (hp : rhs[p]? = some s) :
    (∃ c, s = symOf c) ∨ (∃ j', s = ESym.plain (.impl n j') ∧
      (isLoop n = true → j' = 0 ∧ j = 0 ∧ p = 1 ∧ rhs = loopRule n)) := by
  cases n with
  | term t => simp [implRules] at hr
  | nt a b c => simp [implRules] at hr
  | alt i ns => simp [implRules] at hr
  | cat i ns => simp [implRules] at hr
  | rep i k b mn mx =>
    cases k with
    | star =>
      cases j with
      | succ j => simp [implRules] at hr
      | zero =>
        simp only [implRules, List.mem_cons, List.not_mem_nil, or_false] at hr
        rcases hr with rfl | rfl
        · simp at hp
        · match p, hp with
          | 0, hp => simp at hp; exact .inl ⟨b, hp.symm⟩
          | 1, hp => simp at hp; exact .inr ⟨0, hp.symm, fun _ => ⟨rfl, rfl, rfl, rfl⟩⟩
          | p + 2, hp => simp at hp
    | plus =>
      cases j with
      | succ j => simp [implRules] at hr
      | zero =>
        simp only [implRules, List.mem_cons, List.not_mem_nil, or_false] at hr
        rcases hr with rfl | rfl
        · have hm := List.mem_of_getElem? hp
          simp only [List.mem_singleton] at hm
          exact .inl ⟨b, hm⟩
        · match p, hp with
          | 0, hp => simp at hp; exact .inl ⟨b, hp.symm⟩
          | 1, hp => simp at hp; exact .inr ⟨0, hp.symm, fun _ => ⟨rfl, rfl, rfl, rfl⟩⟩
          | p + 2, hp => simp at hp
    | opt => simp [implRules] at hr
    | braces =>
      rcases implRules_braces_sym hr (List.mem_of_getElem? hp) with h | ⟨j', h⟩
      · exact .inl ⟨b, h⟩
      · exact .inr ⟨j', h, fun h => by simp [isLoop] at h⟩

/-- classification of the symbols of the compiled rules -/
theorem rulesOf_sym {G : Grammar} {cap : Option Nat} {y : NT} {rhs : List ESym} {p : Nat} {s : ESym}
    (hr : rhs ∈ rulesOf G cap y) (hp : rhs[p]? = some s) :
    (∃ c, s = symOf c) ∨ (∃ n j', s = ESym.plain (.impl n j') ∧
      (isLoop n = true → j' = 0 ∧ (y = .ctl n ∨ (y = .impl n 0 ∧ p = 1 ∧ rhs = loopRule n)))) := by
  cases y with
  | start => simp [rulesOf] at hr
  | user u =>
    simp only [rulesOf] at hr
    split at hr
    · simp only [List.mem_singleton] at hr
      subst hr
      have hm := List.mem_of_getElem? hp
      simp only [List.mem_singleton] at hm
      exact .inl ⟨_, hm⟩
    · simp at hr
  | ctl n =>
    simp only [rulesOf] at hr
    rcases ctlRules_sym hr (List.mem_of_getElem? hp) with h | ⟨j', h, h2⟩
    · exact .inl h
    · exact .inr ⟨n, j', h, fun hl => ⟨h2 hl, .inl rfl⟩⟩
  | impl n j =>
    simp only [rulesOf] at hr
    rcases implRules_sym hr hp with h | ⟨j', h, h2⟩
    · exact .inl h
    · refine .inr ⟨n, j', h, fun hl => ?_⟩
      obtain ⟨h3, h4, h5, h6⟩ := h2 hl
      subst h4
      exact ⟨h3, .inr ⟨rfl, h5, h6⟩⟩

theorem loopNT_eq {G : Grammar} {cap : Option Nat} {x : NT} (h : LoopNT (compile G cap) x) :
    ∃ me, isLoop me = true ∧ x = .impl me 0 := by
  obtain ⟨y, rhs, a, r, hmem, hb, hh⟩ := h
  obtain ⟨n, rfl, hl⟩ := beginner_eq hb
  have hr := mem_compile hmem
  simp only [rulesOf] at hr
  cases n with
  | rep i k b mn mx =>
    cases k with
    | star =>
      simp only [ctlRules, List.mem_singleton] at hr
      subst hr
      simp only [List.head?_cons, Option.some.injEq, ESym.plain, ESym.n.injEq] at hh
      exact ⟨_, hl, hh.1.symm⟩
    | plus =>
      simp only [ctlRules, List.mem_singleton] at hr
      subst hr
      simp only [List.head?_cons, Option.some.injEq, ESym.plain, ESym.n.injEq] at hh
      exact ⟨_, hl, hh.1.symm⟩
    | _ => simp [isLoop] at hl
  | _ => simp [isLoop] at hl

theorem loopRule_length {me : Node} (h : isLoop me = true) : (loopRule me).length = 2 := by
  cases me with
  | rep i k b mn mx => rfl
  | _ => simp [isLoop] at h

/-- the same for any scanner (SaneS does not mention the scanner) -/
theorem saneS_of_rules (c : Cfg) (G : Grammar) (cap : Option Nat) (hr : c.rules = compile G cap)
    (hpred : ∀ k x rhs, rhs ∈ c.pred k x → (x, rhs) ∈ compile G cap) : SaneS c := by
  refine ⟨?_, ?_, ?_, ?_⟩
  · intro k x rhs h
    rw [hr]
    exact hpred k x rhs h
  · intro rhs h
    rw [hr] at h
    have := mem_compile h
    simp [rulesOf] at this
  · intro y rhs a r h hm
    rw [hr] at h
    obtain ⟨p, hp⟩ := List.getElem?_of_mem hm
    rcases rulesOf_sym (mem_compile h) hp with ⟨c, hc⟩ | ⟨n, j', hc, _⟩
    · exact symOf_ne_start c a r hc.symm
    · simp [ESym.plain] at hc
  · intro x hx
    rw [hr] at hx
    obtain ⟨me, hl, rfl⟩ := loopNT_eq hx
    refine ⟨rfl, ?_⟩
    intro y rhs p a r h hp
    rw [hr] at h
    rcases rulesOf_sym (mem_compile h) hp with ⟨c, hc⟩ | ⟨n, j', hc, h2⟩
    · exact absurd hc.symm (symOf_ne_impl c me 0 a r)
    · simp only [ESym.plain, ESym.n.injEq, NT.impl.injEq] at hc
      obtain ⟨⟨rfl, rfl⟩, rfl, rfl⟩ := hc
      rcases (h2 hl).2 with rfl | ⟨rfl, rfl, hrhs⟩
      · left
        rw [beginner_ctl]
        exact hl
      · right
        refine ⟨rfl, ?_, ?_⟩
        · rw [hrhs, loopRule_length hl]
        · intro rhs2 q a2 r2 h' hq
          rw [hr] at h'
          rcases rulesOf_sym (mem_compile h') hq with ⟨c, hc⟩ | ⟨n, j', hc, h3⟩
          · exact absurd hc.symm (symOf_ne_impl c me 0 a2 r2)
          · simp only [ESym.plain, ESym.n.injEq, NT.impl.injEq] at hc
            obtain ⟨⟨rfl, rfl⟩, rfl, rfl⟩ := hc
            rcases (h3 hl).2 with hbad | ⟨_, _, hrhs2⟩
            · cases hbad
            · rw [hrhs2, hrhs]

theorem mem_compile_iff {G : Grammar} {cap : Option Nat} {x : NT} {rhs : List ESym} :
    (x, rhs) ∈ compile G cap ↔ x ∈ allNTs G cap ∧ rhs ∈ rulesOf G cap x := by
  unfold compile
  simp only [List.mem_flatMap, List.mem_map]
  constructor
  · rintro ⟨y, hy, r, hr, he⟩
    cases he
    exact ⟨hy, hr⟩
  · rintro ⟨h1, h2⟩
    exact ⟨x, h1, rhs, h2, rfl⟩

theorem saneS_mkCfg (G : Grammar) (v : Variant) (inp : Input) (start : String)
    (pred : Nat → NT → List (List ESym))
    (hpred : ∀ k x rhs, rhs ∈ pred k x → rhs ∈ rulesOf G v.cap x ∧ x ∈ allNTs G v.cap) :
    SaneS (mkCfg G v inp start pred) :=
  saneS_of_rules _ G v.cap rfl (fun k x rhs h =>
    mem_compile_iff.2 ⟨(hpred k x rhs h).2, (hpred k x rhs h).1⟩)

/-! ### (C) the concrete scanners -/

def CellsOk (inp : Input) : Prop := inp.isBytes = true → ∀ c ∈ inp.cells, c < 256

theorem mkByte_val (x : Byte) : mkByte x.val = x := by
  apply Fin.ext
  simp [mkByte, Fin.ofNat, Nat.mod_eq_of_lt x.isLt]

theorem val_mkByte {c : Nat} (h : c < 256) : (mkByte c).val = c := by
  simp [mkByte, Fin.ofNat, Nat.mod_eq_of_lt h]

theorem map_mkByte_val (bs : List Byte) : (bs.map (·.val)).map mkByte = bs := by
  induction bs with
  | nil => rfl
  | cons a as ih =>
    simp only [List.map_cons, mkByte_val, List.cons.injEq, true_and]
    exact ih

theorem map_val_mkByte (xs : List Nat) (h : ∀ c ∈ xs, c < 256) :
    (xs.map mkByte).map (·.val) = xs := by
  induction xs with
  | nil => rfl
  | cons a as ih =>
    simp only [List.map_cons, List.cons.injEq]
    exact ⟨val_mkByte (h a (by simp)), ih (fun c hc => h c (by simp [hc]))⟩

theorem startsWith_take (xs : List Nat) (l : Nat) : startsWith xs (xs.take l) = true := by
  induction xs generalizing l with
  | nil => simp [startsWith]
  | cons a as ih =>
    cases l with
    | zero => simp [startsWith]
    | succ l => simp [startsWith, ih]

/-- what every variant of the scanner guarantees of a complete match: the leaf is one the terminal accepts, it is
    as wide as the columns it covers and it is what the input holds there; with the alignment guard a payload
    leaf starts on a cell boundary; with the wide-character guard a bit leaf lies over a cell below 256 -/
theorem scanV_ok (v : Variant) (inp : Input) (R : RegexOracle) (ho : OracleOk inp R) (hc : CellsOk inp)
    {t : Term} (ht : termTyped inp.isBytes t = true) {k m : Nat} {l : Leaf}
    (h : scanV v inp t k = some (m, l)) :
    termOk R t (.leaf l) = true ∧ m = k + l.width ∧ LeafAt inp k l ∧
      (v.aligned = true → l.isBit = false → k % 8 = 0) ∧
      (v.wideGuard = true → l.isBit = true → ∃ cell, inp.cells[k / 8]? = some cell ∧ cell ≤ 255) := by
  cases t with
  | lit lf =>
    cases lf with
    | bit b =>
      simp only [scanV] at h
      split at h
      · cases h
      · rename_i cell hcell
        split at h
        · cases h
        · rename_i hwide
          split at h
          · rename_i hcond
            simp only [Option.some.injEq, Prod.mk.injEq] at h
            obtain ⟨rfl, rfl⟩ := h
            refine ⟨by simp [termOk], by simp [Leaf.width], ⟨cell, hcell, by simpa using hcond⟩, ?_, ?_⟩
            · intro _ hb; simp [Leaf.isBit] at hb
            · intro hv _
              refine ⟨cell, hcell, ?_⟩
              simp only [hv, Bool.true_and, decide_eq_true_eq] at hwide
              omega
          · cases h
    | text s =>
      have hb : inp.isBytes = false := by simpa [termTyped] using ht
      simp only [scanV] at h
      split at h
      · cases h
      · rename_i hal
        split at h
        · rename_i hsw
          simp only [Option.some.injEq, Prod.mk.injEq] at h
          obtain ⟨rfl, rfl⟩ := h
          simp only [mkLeaf, hb]
          refine ⟨by simp [termOk], by simp [Leaf.width], ⟨hb, hsw⟩, ?_, ?_⟩
          · intro hv _
            simpa [hv] using hal
          · intro _ hbit; simp [Leaf.isBit] at hbit
        · cases h
    | bytes bs =>
      have hb : inp.isBytes = true := by simpa [termTyped] using ht
      simp only [scanV] at h
      split at h
      · cases h
      · rename_i hal
        split at h
        · rename_i hsw
          simp only [Option.some.injEq, Prod.mk.injEq] at h
          obtain ⟨rfl, rfl⟩ := h
          simp only [mkLeaf, hb, if_true, map_mkByte_val]
          refine ⟨by simp [termOk], by simp [Leaf.width], ⟨hb, hsw⟩, ?_, ?_⟩
          · intro hv _
            simpa [hv] using hal
          · intro _ hbit; simp [Leaf.isBit] at hbit
        · cases h
  | regex id =>
    simp only [scanV] at h
    split at h
    · cases h
    · rename_i hal
      split at h
      · cases h
      · rename_i l' hl
        split at h
        · cases h
        · simp only [Option.some.injEq, Prod.mk.injEq] at h
          obtain ⟨rfl, rfl⟩ := h
          obtain ⟨hle, hR⟩ := ho id (k / 8) l' hl
          have hlen : ((inp.cells.drop (k / 8)).take l').length = l' := by
            rw [List.length_take]; exact Nat.min_eq_left hle
          refine ⟨by simpa [termOk] using hR, ?_, ?_, ?_, ?_⟩
          · cases hb : inp.isBytes
            · simp only [mkLeaf, Leaf.width, hlen, Bool.false_eq_true, if_false]
            · simp only [mkLeaf, Leaf.width, if_true, List.length_map, hlen]
          · cases hb : inp.isBytes
            · simp only [mkLeaf, LeafAt]
              exact ⟨hb, startsWith_take _ _⟩
            · simp only [mkLeaf, LeafAt, if_true]
              refine ⟨hb, ?_⟩
              rw [map_val_mkByte]
              · exact startsWith_take _ _
              · intro c hc'
                exact hc hb c (List.mem_of_mem_drop (List.mem_of_mem_take hc'))
          · intro hv _
            simpa [hv] using hal
          · intro _ hbit
            cases hb : inp.isBytes <;> simp [mkLeaf, hb, Leaf.isBit] at hbit

/-- the scanner of the code as it is now -/
theorem scanImpl_ok (inp : Input) (R : RegexOracle) (ho : OracleOk inp R) (hc : CellsOk inp)
    {t : Term} (ht : termTyped inp.isBytes t = true) {k m : Nat} {l : Leaf}
    (h : scanImpl inp t k = some (m, l)) :
    termOk R t (.leaf l) = true ∧ m = k + l.width ∧ LeafAt inp k l ∧ (l.isBit = false → k % 8 = 0) := by
  obtain ⟨h1, h2, h3, h4, _⟩ := scanV_ok Variant.now inp R ho hc ht h
  exact ⟨h1, h2, h3, h4 rfl⟩

/-! ### (B) the terminals of the compiled table are typed -/

theorem nodesTyped_mem {b : Bool} {ns : List Node} {n : Node} (h : nodesTyped b ns = true)
    (hm : n ∈ ns) : nodeTyped b n = true := by
  induction ns with
  | nil => cases hm
  | cons a as ih =>
    simp only [nodesTyped, Bool.and_eq_true] at h
    rcases List.mem_cons.1 hm with rfl | hm
    · exact h.1
    · exact ih h.2 hm

theorem typed_of_symOf {b : Bool} {c : Node} {t : Term} (hc : nodeTyped b c = true)
    (h : ESym.t t = symOf c) : termTyped b t = true := by
  have := symOf_eq_t h.symm
  subst this
  simpa [nodeTyped] using hc

theorem ctlRules_typed {cap : Option Nat} {b : Bool} {n : Node} {rhs : List ESym} {t : Term}
    (hn : nodeTyped b n = true) (hr : rhs ∈ ctlRules cap n) (hm : ESym.t t ∈ rhs) :
    termTyped b t = true := by
  cases n with
  | term t => simp [ctlRules] at hr
  | nt a b c => simp [ctlRules] at hr
  | alt i ns =>
    simp only [ctlRules, List.mem_map] at hr
    obtain ⟨c, hc, rfl⟩ := hr
    simp only [List.mem_singleton] at hm
    simp only [nodeTyped] at hn
    exact typed_of_symOf (nodesTyped_mem hn hc) hm
  | cat i ns =>
    simp only [ctlRules, List.mem_singleton] at hr
    subst hr
    rw [List.mem_map] at hm
    obtain ⟨c, hc, he⟩ := hm
    simp only [nodeTyped] at hn
    exact typed_of_symOf (nodesTyped_mem hn hc) he.symm
  | rep i k body mn mx =>
    simp only [nodeTyped] at hn
    cases k with
    | star =>
      simp only [ctlRules, List.mem_singleton] at hr
      subst hr
      simp [ESym.plain] at hm
    | plus =>
      simp only [ctlRules, List.mem_singleton] at hr
      subst hr
      simp [ESym.plain] at hm
    | opt =>
      simp only [ctlRules, List.mem_cons, List.not_mem_nil, or_false] at hr
      rcases hr with rfl | rfl
      · simp at hm
      · simp only [List.mem_singleton] at hm
        exact typed_of_symOf hn hm
    | braces =>
      simp only [ctlRules] at hr
      split at hr <;>
      · simp only [List.mem_singleton] at hr
        subst hr
        simp [ESym.plain] at hm

theorem implRules_typed {cap : Option Nat} {b : Bool} {n : Node} {j : Nat} {rhs : List ESym} {t : Term}
    (hn : nodeTyped b n = true) (hr : rhs ∈ implRules cap n j) (hm : ESym.t t ∈ rhs) :
    termTyped b t = true := by
  cases n with
  | term t => simp [implRules] at hr
  | nt a b c => simp [implRules] at hr
  | alt i ns => simp [implRules] at hr
  | cat i ns => simp [implRules] at hr
  | rep i k body mn mx =>
    simp only [nodeTyped] at hn
    cases k with
    | star =>
      cases j with
      | succ j => simp [implRules] at hr
      | zero =>
        simp only [implRules, List.mem_cons, List.not_mem_nil, or_false] at hr
        rcases hr with rfl | rfl
        · simp at hm
        · simp only [List.mem_cons, List.not_mem_nil, or_false] at hm
          rcases hm with hm | hm
          · exact typed_of_symOf hn hm
          · simp [ESym.plain] at hm
    | plus =>
      cases j with
      | succ j => simp [implRules] at hr
      | zero =>
        simp only [implRules, List.mem_cons, List.not_mem_nil, or_false] at hr
        rcases hr with rfl | rfl
        · simp only [List.mem_singleton] at hm
          exact typed_of_symOf hn hm
        · simp only [List.mem_cons, List.not_mem_nil, or_false] at hm
          rcases hm with hm | hm
          · exact typed_of_symOf hn hm
          · simp [ESym.plain] at hm
    | opt => simp [implRules] at hr
    | braces =>
      rcases implRules_braces_sym hr hm with h | ⟨j', h⟩
      · exact typed_of_symOf hn h
      · simp [ESym.plain] at h

theorem mem_implsOf {cap : Option Nat} {n : Node} {y : NT} (h : y ∈ implsOf cap n) : ∃ j, y = .impl n j := by
  cases n with
  | rep i k body mn mx =>
    cases k with
    | star => simp only [implsOf, List.mem_singleton] at h; exact ⟨0, h⟩
    | plus => simp only [implsOf, List.mem_singleton] at h; exact ⟨0, h⟩
    | opt => simp [implsOf] at h
    | braces =>
      simp only [implsOf, List.mem_map] at h
      obtain ⟨j, _, rfl⟩ := h
      exact ⟨j, rfl⟩
  | _ => simp [implsOf] at h

mutual
theorem subNTs_typed {cap : Option Nat} {b : Bool} : ∀ (node : Node) {y : NT},
    nodeTyped b node = true → y ∈ subNTs cap node →
    ∃ n, (y = .ctl n ∨ ∃ j, y = .impl n j) ∧ nodeTyped b n = true
  | .term _, y, _, hy => by simp [subNTs] at hy
  | .nt _ _ _, y, _, hy => by simp [subNTs] at hy
  | .alt i ns, y, hn, hy => by
    simp only [subNTs, List.mem_cons] at hy
    rcases hy with rfl | hy
    · exact ⟨_, .inl rfl, hn⟩
    · exact subNTsL_typed ns (by simpa only [nodeTyped] using hn) hy
  | .cat i ns, y, hn, hy => by
    simp only [subNTs, List.mem_cons] at hy
    rcases hy with rfl | hy
    · exact ⟨_, .inl rfl, hn⟩
    · exact subNTsL_typed ns (by simpa only [nodeTyped] using hn) hy
  | .rep i k body mn mx, y, hn, hy => by
    simp only [subNTs, List.mem_cons, List.mem_append] at hy
    rcases hy with rfl | hy | hy
    · exact ⟨_, .inl rfl, hn⟩
    · obtain ⟨j, rfl⟩ := mem_implsOf hy
      exact ⟨_, .inr ⟨j, rfl⟩, hn⟩
    · exact subNTs_typed body (by simpa only [nodeTyped] using hn) hy
theorem subNTsL_typed {cap : Option Nat} {b : Bool} : ∀ (ns : List Node) {y : NT},
    nodesTyped b ns = true → y ∈ subNTsL cap ns →
    ∃ n, (y = .ctl n ∨ ∃ j, y = .impl n j) ∧ nodeTyped b n = true
  | [], y, _, hy => by simp [subNTsL] at hy
  | n :: ns, y, hn, hy => by
    simp only [subNTsL, List.mem_append] at hy
    simp only [nodesTyped, Bool.and_eq_true] at hn
    rcases hy with hy | hy
    · exact subNTs_typed n hn.1 hy
    · exact subNTsL_typed ns hn.2 hy
end

theorem compile_terms_typed (G : Grammar) (cap : Option Nat) (b : Bool) (ht : Grammar.typed G b = true)
    {x : NT} {rhs : List ESym} {t : Term} (hr : (x, rhs) ∈ compile G cap) (hm : ESym.t t ∈ rhs) :
    termTyped b t = true := by
  obtain ⟨hx, hrhs⟩ := mem_compile_iff.1 hr
  unfold Grammar.typed at ht
  rw [List.all_eq_true] at ht
  unfold allNTs at hx
  rw [List.mem_flatMap] at hx
  obtain ⟨p, hp, hx⟩ := hx
  have htp : nodeTyped b p.2 = true := ht p hp
  rcases List.mem_cons.1 hx with rfl | hx
  · simp only [rulesOf] at hrhs
    split at hrhs
    · rename_i body hbody
      simp only [List.mem_singleton] at hrhs
      subst hrhs
      simp only [List.mem_singleton] at hm
      unfold Grammar.rule at hbody
      split at hbody
      · rename_i q hq
        cases hbody
        exact typed_of_symOf (ht q (List.mem_of_find?_eq_some hq)) hm
      · cases hbody
    · simp at hrhs
  · obtain ⟨n, hy, hn⟩ := subNTs_typed p.2 htp hx
    rcases hy with rfl | ⟨j, rfl⟩
    · exact ctlRules_typed hn hrhs hm
    · exact implRules_typed hn hrhs hm

end FV.Earley
