/-
C04 / shared definitions for the soundness proofs of the Earley model (`Model/Earley.lean`).

* `DerL rules scan rhs ks i j` — "the parser-tree list `ks` is what the parser builds for the symbol
  sequence `rhs` over the columns `i … j`": a terminal contributes the leaf its scan returns, an
  *explicit* nonterminal (`<user>`, `<__ctl>`) one node over a rule of the table, an *implicit* one
  (`<*…*>`) the spliced children of one of its rules.  This is the specification the chart is sound for.
* `Good` — the chart invariant in continuation form (it survives `place_repetition_shortcut`, which
  re-roots a right-recursive state at an earlier origin).
* `Tiles` — the leaves of a tree tile a column range of the input, each leaf matching the input there.
-/
import Model.Earley
import Proofs.Earley
namespace FV.Earley

abbrev Scan := Term → Nat → Option (Nat × Leaf)

inductive DerL (rules : List CRule) (scan : Scan) : List ESym → List PT → Nat → Nat → Prop
  | nil (i : Nat) : DerL rules scan [] [] i i
  | term {t : Term} {i m j : Nat} {l : Leaf} {ss : List ESym} {ks : List PT} :
      scan t i = some (m, l) → DerL rules scan ss ks m j →
      DerL rules scan (.t t :: ss) (.leaf l :: ks) i j
  | expl {x : NT} {a r : Option String} {rhs : List ESym} {kids : List PT} {ss : List ESym}
      {ks : List PT} {i m j : Nat} :
      x.explicit = true → (x, rhs) ∈ rules → DerL rules scan rhs kids i m → DerL rules scan ss ks m j →
      DerL rules scan (.n x a r :: ss) (.node x a r kids :: ks) i j
  | impl {x : NT} {a r : Option String} {rhs : List ESym} {k1 : List PT} {ss : List ESym}
      {k2 : List PT} {i m j : Nat} :
      x.explicit = false → (x, rhs) ∈ rules → DerL rules scan rhs k1 i m → DerL rules scan ss k2 m j →
      DerL rules scan (.n x a r :: ss) (k1 ++ k2) i j

/-- the chart invariant of one state `s` living in column `k`: its item is an item of the table, and
    whatever completes the rest of its right-hand side from column `k` on completes the whole rule
    from the state's origin -/
def Good (c : Cfg) (s : St) (k : Nat) : Prop :=
  (s.item.lhs, s.item.rhs) ∈ c.rules' ∧
  (s.item.lhs = .start → s.item.origin = 0) ∧
  ∀ j ks, DerL c.rules' c.scan (s.item.rhs.drop s.item.dot) ks k j →
    DerL c.rules' c.scan s.item.rhs (s.kids ++ ks) s.item.origin j

/-- `x` is the loop nonterminal of a `*` / `+`: the head of a rule of a "beginner" -/
def LoopNT (rules : List CRule) (x : NT) : Prop :=
  ∃ y rhs a r, (y, rhs) ∈ rules ∧ y.beginner = true ∧ rhs.head? = some (ESym.n x a r)

/-- what the soundness of the chart needs of the rule table and the prediction order -/
structure SaneS (c : Cfg) : Prop where
  /-- `predict` only adds alternatives of the table -/
  pred_sub : ∀ k x rhs, rhs ∈ c.pred k x → (x, rhs) ∈ c.rules
  /-- `<*start*>` has no rule of its own and occurs in no right-hand side -/
  start_no_rule : ∀ rhs, (NT.start, rhs) ∉ c.rules
  start_fresh : ∀ y rhs a r, (y, rhs) ∈ c.rules → ESym.n NT.start a r ∉ rhs
  /-- a loop nonterminal is implicit and occurs only as the head of its beginner and as the last
      symbol of its own (unique) recursive rule — what `place_repetition_shortcut` relies on -/
  loop_shape : ∀ x, LoopNT c.rules x → x.explicit = false ∧
    ∀ (y : NT) (rhs : List ESym) (p : Nat) a r, (y, rhs) ∈ c.rules → rhs[p]? = some (ESym.n x a r) →
      y.beginner = true ∨
      (y = x ∧ rhs.length = p + 1 ∧
        ∀ (rhs2 : List ESym) (q : Nat) a2 r2, (x, rhs2) ∈ c.rules → rhs2[q]? = some (ESym.n x a2 r2) → rhs2 = rhs)

/-! ### the input a tree serialises to -/

def _root_.FV.Leaf.width : Leaf → Nat
  | .bit _ => 1
  | .text s => 8 * s.length
  | .bytes b => 8 * b.length

/-- the leaf is what the input holds at column `k` (8 columns per cell; payload leaves are compared
    with the cells from `k / 8` on, as `scan_bytes` / `scan_regex` do) -/
def LeafAt (inp : Input) (k : Nat) : Leaf → Prop
  | .bit b => ∃ cell, inp.cells[k / 8]? = some cell ∧ (((cell >>> (7 - k % 8)) % 2 == 1) = b)
  | .text s => inp.isBytes = false ∧ startsWith (inp.cells.drop (k / 8)) s = true
  | .bytes b => inp.isBytes = true ∧ startsWith (inp.cells.drop (k / 8)) (b.map (·.val)) = true

def _root_.FV.Leaf.isBit : Leaf → Bool
  | .bit _ => true
  | _ => false

/-- the leaves tile the columns `i … j`: every leaf matches the input at its column, and payload
    (text / bytes) leaves start on a cell boundary -/
inductive Tiles (inp : Input) : List Leaf → Nat → Nat → Prop
  | nil (i : Nat) : Tiles inp [] i i
  | cons {l : Leaf} {ls : List Leaf} {i j : Nat} :
      LeafAt inp i l → (l.isBit = false → i % 8 = 0) → Tiles inp ls (i + l.width) j →
      Tiles inp (l :: ls) i j

/-- the same without the alignment clause (what the scanner of the code as it is guarantees) -/
inductive TilesLoose (inp : Input) : List Leaf → Nat → Nat → Prop
  | nil (i : Nat) : TilesLoose inp [] i i
  | cons {l : Leaf} {ls : List Leaf} {i j : Nat} :
      LeafAt inp i l → TilesLoose inp ls (i + l.width) j → TilesLoose inp (l :: ls) i j

/-- the terminals of the grammar have the type of the input (text literals for `str`, bytes literals
    for `bytes`); bit literals always.  (`Terminal.check` coerces the other combinations through
    Latin-1; the harness normalises the grammar the same way before it asks the checker.) -/
def termTyped (isBytes : Bool) : Term → Bool
  | .lit (.bit _) => true
  | .lit (.text _) => !isBytes
  | .lit (.bytes _) => isBytes
  | .regex _ => true

mutual
def nodeTyped (isBytes : Bool) : Node → Bool
  | .term t => termTyped isBytes t
  | .nt _ _ _ => true
  | .alt _ ns => nodesTyped isBytes ns
  | .cat _ ns => nodesTyped isBytes ns
  | .rep _ _ n _ _ => nodeTyped isBytes n
def nodesTyped (isBytes : Bool) : List Node → Bool
  | [] => true
  | n :: ns => nodeTyped isBytes n && nodesTyped isBytes ns
end

/-- repetition nodes carry the bounds of their class (`*` = {0,}, `+` = {1,}, `?` = {0,1}) and
    `{min,max}` has `min ≤ max` -/
def repWf : RepKind → Nat → Option Nat → Bool
  | .star, mn, mx => mn == 0 && mx == none
  | .plus, mn, mx => mn == 1 && mx == none
  | .opt, mn, mx => mn == 0 && mx == some 1
  | .braces, mn, mx => boundsOk mn mx

mutual
def nodeWf : Node → Bool
  | .term _ => true
  | .nt _ _ _ => true
  | .alt _ ns => nodesWf ns
  | .cat _ ns => nodesWf ns
  | .rep _ k n mn mx => repWf k mn mx && nodeWf n
def nodesWf : List Node → Bool
  | [] => true
  | n :: ns => nodeWf n && nodesWf ns
end

def _root_.FV.Grammar.wf (G : Grammar) : Bool := G.rules.all (fun p => nodeWf p.2)
def _root_.FV.Grammar.typed (G : Grammar) (isBytes : Bool) : Bool := G.rules.all (fun p => nodeTyped isBytes p.2)

/-- the regex oracle of the scanner (greedy length) only returns lengths whose slice the full-match
    oracle accepts, and never more than is left -/
def OracleOk (inp : Input) (R : RegexOracle) : Prop :=
  ∀ id w l, inp.rlen id w = some l →
    l ≤ (inp.cells.drop w).length ∧ R id (mkLeaf inp.isBytes ((inp.cells.drop w).take l)) = true

/-- helper symbols never reach a returned tree: the names of `<__…>` / `<*…*>` nonterminals -/
def isHelperName (s : String) : Bool := s.startsWith "<__" || s.startsWith "<*"

mutual
def noHelper : Tree → Bool
  | .mk (.nt s) _ _ kids => !isHelperName s && noHelperL kids
  | .mk (.term _) _ _ kids => noHelperL kids
  | .mk .slice _ _ kids => noHelperL kids
def noHelperL : List Tree → Bool
  | [] => true
  | t :: ts => noHelper t && noHelperL ts
end

/-- a rule of the compiled table is an alternative of its nonterminal -/
theorem mem_compile {G : Grammar} {cap : Option Nat} {x : NT} {rhs : List ESym}
    (h : (x, rhs) ∈ compile G cap) : rhs ∈ rulesOf G cap x := by
  unfold compile at h
  rw [List.mem_flatMap] at h
  obtain ⟨y, _, hy⟩ := h
  rw [List.mem_map] at hy
  obtain ⟨r, hr, he⟩ := hy
  cases he
  exact hr

end FV.Earley
