/-
C04 / assembling chart soundness (`Proofs/C04Chart`), the shape of the compiled table and the scanner facts
(`Proofs/C04Compile`) and helper collapsing (`Proofs/C04Collapse`) into the soundness of `parseComplete`.
-/
import Proofs.C04Chart
import Proofs.C04Compile
import Proofs.C04Collapse
namespace FV.Earley

/-- a scanner restricted to the terminals `P` accepts -/
def scanOn (P : Term → Bool) (scan : Scan) : Scan := fun t k => if P t then scan t k else none

/-- a derivation from (a suffix of) a rule of the table only scans terminals of the table -/
theorem derL_restrict (G : Grammar) (cap : Option Nat) (start : String) (scan : Scan) (P : Term → Bool)
    (hP : ∀ x rhs t, (x, rhs) ∈ compile G cap → ESym.t t ∈ rhs → P t = true)
    {rhs : List ESym} {ks : List PT} {i j : Nat}
    (h : DerL (tableOf G cap start) scan rhs ks i j) (hsub : InTable G cap start rhs) :
    DerL (tableOf G cap start) (scanOn P scan) rhs ks i j := by
  induction h with
  | nil i => exact DerL.nil i
  | term hs _ ih =>
    obtain ⟨x, full, hm, ht⟩ := inTable_term hsub
    refine DerL.term ?_ (ih (inTable_tail hsub))
    simp [scanOn, hP x full _ hm ht, hs]
  | expl he hr _ _ ih1 ih2 => exact DerL.expl he hr (ih1 (inTable_rule hr)) (ih2 (inTable_tail hsub))
  | impl he hr _ _ ih1 ih2 => exact DerL.impl he hr (ih1 (inTable_rule hr)) (ih2 (inTable_tail hsub))

/-- the configuration with another scanner -/
def withScan (c : Cfg) (scan : Scan) : Cfg := { c with scan := scan }

theorem mem_flatMap_collapse {out : List PT} {t : Tree} (h : t ∈ out.flatMap collapse) :
    ∃ pt, pt ∈ out ∧ t ∈ collapse pt := by
  rw [List.mem_flatMap] at h
  exact h

/-- what both soundness theorems share: a yielded tree is the collapsed start node of a table derivation -/
theorem yielded_shape (c : Cfg) (hs : SaneS c) (fuel : Nat) (ts : List Tree)
    (h : parseComplete c fuel = some (.ok ts)) {t : Tree} (ht : t ∈ ts) :
    ∃ kids rhs, t = Tree.mk (.nt c.start) none none (collapseL kids) ∧ (NT.user c.start, rhs) ∈ c.rules ∧
      DerL c.rules' c.scan rhs kids 0 (c.ncols - 1) := by
  unfold parseComplete at h
  cases hrun : run c fuel (M.init c) with
  | next m => simp [hrun] at h
  | raised m => simp [hrun] at h
  | done m =>
    simp only [hrun, Option.some.injEq, Except.ok.injEq] at h
    subst h
    obtain ⟨pt, hpt, htc⟩ := mem_flatMap_collapse ht
    obtain ⟨kids, rhs, rfl, hr, hd⟩ := chart_sound c hs fuel m (Or.inl hrun) pt hpt
    refine ⟨kids, rhs, ?_, hr, hd⟩
    simpa [collapse, ntName] using htc

/-- **soundness of the model parser for ANY scanner that answers correctly on the grammar's terminals**
    (every variant of the compilation, admission policy, `predict`) -/
theorem parse_sound_of_scan (G : Grammar) (v : Variant) (inp : Input) (start : String)
    (pred : Nat → NT → List (List ESym)) (scan : Scan) (R : RegexOracle)
    (hpred : ∀ k x rhs, rhs ∈ pred k x → (x, rhs) ∈ compile G v.cap)
    (hwf : G.wf = true) (hty : G.typed inp.isBytes = true)
    (hscan : ∀ t, termTyped inp.isBytes t = true → ∀ k m l, scan t k = some (m, l) →
      termOk R t (.leaf l) = true ∧ m = k + l.width ∧ LeafAt inp k l)
    (fuel : Nat) (ts : List Tree)
    (h : parseComplete (withScan (mkCfg G v inp start pred) scan) fuel = some (.ok ts)) :
    ∀ t ∈ ts, Valid G R t ∧ t.sym = .nt start ∧
      TilesLoose inp t.leaves 0 (8 * inp.cells.length) := by
  intro t ht
  let c := withScan (mkCfg G v inp start pred) scan
  have hs : SaneS c := saneS_of_rules c G v.cap rfl hpred
  obtain ⟨kids, rhs, rfl, hr, hd⟩ := yielded_shape c hs fuel ts h ht
  have hd' : DerL (tableOf G v.cap start) scan rhs kids 0 (8 * inp.cells.length) := by
    have : c.ncols - 1 = 8 * inp.cells.length := by
      show (8 * inp.cells.length + 1) - 1 = _
      omega
    rw [← this]; exact hd
  have hr' : (NT.user start, rhs) ∈ compile G v.cap := hr
  have hsok : ScanOk G v.cap R scan := by
    intro x full t hm hmem i m l hsc
    exact (hscan t (compile_terms_typed G v.cap inp.isBytes hty hm hmem) i m l hsc).1
  refine ⟨collapse_top_valid G v.cap R scan start hwf hsok hr' hd', rfl, ?_⟩
  have hres := derL_restrict G v.cap start scan (termTyped inp.isBytes)
    (fun x full t hm hmem => compile_terms_typed G v.cap inp.isBytes hty hm hmem) hd'
    (inTable_rule (List.mem_cons_of_mem _ hr'))
  have := collapse_tiles_loose (tableOf G v.cap start) inp (scanOn (termTyped inp.isBytes) scan)
    (by
      intro t i m l hsc
      unfold scanOn at hsc
      split at hsc
      · rename_i hp
        exact (hscan t hp i m l hsc).2
      · cases hsc) hres
  simpa [Tree.leaves] using this

/-- the same with the alignment clause, for a scanner that has it -/
theorem parse_sound_of_aligned_scan (G : Grammar) (v : Variant) (inp : Input) (start : String)
    (pred : Nat → NT → List (List ESym)) (scan : Scan)
    (hpred : ∀ k x rhs, rhs ∈ pred k x → (x, rhs) ∈ compile G v.cap)
    (hty : G.typed inp.isBytes = true)
    (hscan : ∀ t, termTyped inp.isBytes t = true → ∀ k m l, scan t k = some (m, l) →
      m = k + l.width ∧ LeafAt inp k l ∧ (l.isBit = false → k % 8 = 0))
    (fuel : Nat) (ts : List Tree)
    (h : parseComplete (withScan (mkCfg G v inp start pred) scan) fuel = some (.ok ts)) :
    ∀ t ∈ ts, Tiles inp t.leaves 0 (8 * inp.cells.length) := by
  intro t ht
  let c := withScan (mkCfg G v inp start pred) scan
  have hs : SaneS c := saneS_of_rules c G v.cap rfl hpred
  obtain ⟨kids, rhs, rfl, hr, hd⟩ := yielded_shape c hs fuel ts h ht
  have hd' : DerL (tableOf G v.cap start) scan rhs kids 0 (8 * inp.cells.length) := by
    have : c.ncols - 1 = 8 * inp.cells.length := by
      show (8 * inp.cells.length + 1) - 1 = _
      omega
    rw [← this]; exact hd
  have hr' : (NT.user start, rhs) ∈ compile G v.cap := hr
  have hres := derL_restrict G v.cap start scan (termTyped inp.isBytes)
    (fun x full t hm hmem => compile_terms_typed G v.cap inp.isBytes hty hm hmem) hd'
    (inTable_rule (List.mem_cons_of_mem _ hr'))
  have := collapse_tiles (tableOf G v.cap start) inp (scanOn (termTyped inp.isBytes) scan)
    (by
      intro t i m l hsc
      unfold scanOn at hsc
      split at hsc
      · rename_i hp
        exact hscan t hp i m l hsc
      · cases hsc) hres
  simpa [Tree.leaves] using this

theorem withScan_self (c : Cfg) : withScan c c.scan = c := rfl

/-! ### payload-only trees: the tiling *is* the equation with the input -/

def Leaf.cellsOf : Leaf → List Nat
  | .bit _ => []
  | .text s => s
  | .bytes b => b.map (·.val)

theorem startsWith_append_drop : ∀ (xs s : List Nat), startsWith xs s = true → xs = s ++ xs.drop s.length
  | _, [], _ => by simp
  | [], _ :: _, h => by simp [startsWith] at h
  | a :: as, b :: bs, h => by
    simp only [startsWith, Bool.and_eq_true, beq_iff_eq] at h
    obtain ⟨rfl, h2⟩ := h
    have := startsWith_append_drop as bs h2
    simp only [List.length_cons, List.drop_succ_cons, List.cons_append, List.cons.injEq, true_and]
    exact this

/-- aligned payload leaves that tile the columns `8·w … 8·n` spell out the cells `w … n` -/
theorem tiles_payload_cells_aux (inp : Input) {ls : List Leaf} {i j : Nat} (h : Tiles inp ls i j) :
    ∀ w, i = 8 * w → j = 8 * inp.cells.length → (∀ l ∈ ls, l.isBit = false) →
    ls.flatMap Leaf.cellsOf = inp.cells.drop w := by
  induction h with
  | nil i =>
    intro w hi hj _
    have : w = inp.cells.length := by omega
    simp [this]
  | @cons l ls i j hl ha ht ih =>
    intro w hi hj hb
    subst hi
    have hlb := hb l List.mem_cons_self
    have hrest := fun l' hl' => hb l' (List.mem_cons_of_mem _ hl')
    have hdiv : 8 * w / 8 = w := by omega
    cases l with
    | bit b => simp [Leaf.isBit] at hlb
    | text s =>
      simp only [LeafAt, hdiv] at hl
      have hw : 8 * w + Leaf.width (.text s) = 8 * (w + s.length) := by simp [Leaf.width]; omega
      have ih' := ih (w + s.length) hw hj hrest
      have := startsWith_append_drop _ _ hl.2
      simp only [List.flatMap_cons, Leaf.cellsOf, ih']
      rw [this]
      simp [List.drop_drop, Nat.add_comm]
    | bytes b =>
      simp only [LeafAt, hdiv] at hl
      have hw : 8 * w + Leaf.width (.bytes b) = 8 * (w + (b.map (·.val)).length) := by
        simp [Leaf.width]; omega
      have ih' := ih (w + (b.map (·.val)).length) hw hj hrest
      have := startsWith_append_drop _ _ hl.2
      simp only [List.flatMap_cons, Leaf.cellsOf, ih']
      rw [this]
      simp [List.drop_drop, Nat.add_comm]

theorem tiles_payload_cells (inp : Input) (ls : List Leaf) (hb : ∀ l ∈ ls, l.isBit = false)
    (h : Tiles inp ls 0 (8 * inp.cells.length)) : ls.flatMap Leaf.cellsOf = inp.cells := by
  simpa using tiles_payload_cells_aux inp h 0 (by omega) rfl hb

end FV.Earley
