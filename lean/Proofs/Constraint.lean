/-
Helper lemmas about the constraint model (`Model/Constraint.lean`), used by `Props/C07.lean`,
`Props/C02.lean`.
-/
import Model.Constraint
namespace FV

/-! ### dictionaries -/

theorem dictSet_dictSet (k : String) (v w : Tree) (d : List (String × Tree)) :
    dictSet k v (dictSet k w d) = dictSet k v d := by
  simp [dictSet, List.filter_filter]

theorem bindσ_bindσ (b : Bound) (v w : Tree) (σ : Scope) : bindσ b v (bindσ b w σ) = bindσ b v σ := by
  cases b <;> simp [bindσ, dictSet_dictSet]

theorem bindρ_bindρ (b : Bound) (v w : Tree) (ρ : Locals) : bindρ b v (bindρ b w ρ) = bindρ b v ρ := by
  cases b <;> simp [bindρ, dictSet_dictSet]

/-! ### success of the atomic and aggregated fitness values -/

theorem exprFit_success (rs : List (Except EvErr Bool)) : (exprFit rs).success = rs.all isOkTrue := by
  unfold exprFit
  cases rs with
  | nil => simp
  | cons r rs =>
    simp only [List.isEmpty_cons, Bool.false_eq_true, if_false]
    rw [Bool.eq_iff_iff]
    simp only [beq_iff_eq, List.all_eq_true]
    exact List.countP_eq_length

theorem cmpFit_success (rs : List (Except EvErr Bool)) : (cmpFit false rs).success = rs.all isOkTrue := by
  unfold cmpFit cmpValues
  cases rs with
  | nil => simp
  | cons r rs => simp [List.all_map]

theorem conjFit_success (n : Nat) (fs : List Fit) : (conjFit n fs).success = fs.all (·.success) := by
  unfold conjFit; split <;> rfl

theorem disjFit_success (n : Nat) (fs : List Fit) : (disjFit n fs).success = fs.any (·.success) := by
  unfold disjFit; split <;> rfl

theorem allFit_success (fs : List Fit) : (allFit fs).success = fs.all (·.success) := rfl
theorem anyFit_success (fs : List Fit) : (anyFit fs).success = fs.any (·.success) := rfl
theorem implFit_success (f : Fit) : (implFit f).success = f.success := rfl

/-! ### the quantifier loop -/

/-- the dictionaries a quantifier's loop is running on agree with the ones it was called with, as
    far as the next binding is concerned -/
def LoopInv (b : Bound) (σ : Scope) (ρ : Locals) (σc : Scope) (ρc : Locals) : Prop :=
  (∀ v, bindσ b v σc = bindσ b v σ) ∧ (∀ v, bindρ b v ρc = bindρ b v ρ)

theorem LoopInv.refl (b : Bound) (σ : Scope) (ρ : Locals) : LoopInv b σ ρ σ ρ := ⟨fun _ => rfl, fun _ => rfl⟩

theorem runQ_sound (g : Tree → Scope → Locals → Except SErr St) (den : Tree → Bool)
    (Inv : Scope → Locals → Prop)
    (hg : ∀ v σc ρc f σ1 ρ1, Inv σc ρc → g v σc ρc = .ok (f, σ1, ρ1) → Inv σ1 ρ1 ∧ f.success = den v)
    (stop : Option Bool) :
    ∀ (vs : List Tree) (σc : Scope) (ρc : Locals) (fs : List Fit) (σ' : Scope) (ρ' : Locals),
      Inv σc ρc → runQ g stop vs σc ρc = .ok (fs, σ', ρ') →
      (stop ≠ some true → fs.all (·.success) = vs.all den) ∧
      (stop ≠ some false → fs.any (·.success) = vs.any den) := by
  intro vs
  induction vs with
  | nil =>
    intro σc ρc fs σ' ρ' _ h
    simp only [runQ] at h
    cases h
    simp
  | cons v vs ih =>
    intro σc ρc fs σ' ρ' hinv h
    simp only [runQ] at h
    cases hgv : g v σc ρc with
    | error e => simp [hgv] at h
    | ok r =>
      obtain ⟨f, σ1, ρ1⟩ := r
      simp only [hgv] at h
      have ⟨hinv1, hf⟩ := hg v σc ρc f σ1 ρ1 hinv hgv
      by_cases hs : stop = some f.success
      · simp only [hs, if_true] at h
        cases h
        constructor
        · intro hne
          have : f.success = false := by
            cases hfs : f.success with
            | false => rfl
            | true => rw [hfs] at hs; exact absurd hs hne
          simp [← hf, this]
        · intro hne
          have : f.success = true := by
            cases hfs : f.success with
            | true => rfl
            | false => rw [hfs] at hs; exact absurd hs hne
          simp [← hf, this]
      · simp only [hs, if_false] at h
        cases hr : runQ g stop vs σ1 ρ1 with
        | error e => simp [hr] at h
        | ok r2 =>
          obtain ⟨fs2, σ2, ρ2⟩ := r2
          simp only [hr] at h
          cases h
          have ⟨h1, h2⟩ := ih σ1 ρ1 fs2 σ' ρ' hinv1 hr
          constructor
          · intro hne; simp [hf, h1 hne]
          · intro hne; simp [hf, h2 hne]

theorem stopOf_ne_true_false (lz : Bool) : stopOf lz false ≠ some true := by
  cases lz <;> simp [stopOf]

theorem stopOf_ne_false_true (lz : Bool) : stopOf lz true ≠ some false := by
  cases lz <;> simp [stopOf]

/-! ### the operational model (after the fixes) agrees with the documented meaning -/

mutual
theorem opFit_sound : ∀ (c : Cons) (t : Tree) (σ : Scope) (ρ : Locals) (f : Fit) (σ' : Scope) (ρ' : Locals),
    opFit OpCfg.fixed c t σ ρ = .ok (f, σ', ρ') → σ' = σ ∧ ρ' = ρ ∧ f.success = denote c t σ ρ
  | .expr e ss, t, σ, ρ, f, σ', ρ', h => by
    simp only [opFit] at h
    simp only [denote]
    cases hc : combinations ss t σ with
    | error x => simp [hc] at h
    | ok cbs =>
      simp only [hc] at h
      cases h
      refine ⟨rfl, rfl, ?_⟩
      rw [exprFit_success, List.all_map]
      rfl
  | .cmp c ss, t, σ, ρ, f, σ', ρ', h => by
    simp only [opFit] at h
    simp only [denote]
    cases hc : combinations ss t σ with
    | error x => simp [hc] at h
    | ok cbs =>
      simp only [hc] at h
      cases h
      refine ⟨rfl, rfl, ?_⟩
      show (cmpFit false _).success = _
      rw [cmpFit_success, List.all_map]
      rfl
  | .conj lz cs, t, σ, ρ, f, σ', ρ', h => by
    simp only [opFit] at h
    simp only [denote]
    cases hr : runL OpCfg.fixed (stopOf lz false) cs t σ ρ with
    | error x => simp [hr] at h
    | ok r =>
      obtain ⟨fs, σ1, ρ1⟩ := r
      simp only [hr] at h
      cases h
      have ⟨h1, h2, h3, _⟩ := runL_sound cs (stopOf lz false) t σ ρ fs σ' ρ' hr
      exact ⟨h1, h2, by rw [conjFit_success]; exact h3 (stopOf_ne_true_false lz)⟩
  | .disj lz cs, t, σ, ρ, f, σ', ρ', h => by
    simp only [opFit] at h
    simp only [denote]
    cases hr : runL OpCfg.fixed (stopOf lz true) cs t σ ρ with
    | error x => simp [hr] at h
    | ok r =>
      obtain ⟨fs, σ1, ρ1⟩ := r
      simp only [hr] at h
      cases h
      have ⟨h1, h2, _, h4⟩ := runL_sound cs (stopOf lz true) t σ ρ fs σ' ρ' hr
      exact ⟨h1, h2, by rw [disjFit_success]; exact h4 (stopOf_ne_false_true lz)⟩
  | .impl a c, t, σ, ρ, f, σ', ρ', h => by
    simp only [opFit] at h
    simp only [denote]
    cases ha : opFit OpCfg.fixed a t σ ρ with
    | error x => simp [ha] at h
    | ok r =>
      obtain ⟨fa, σ1, ρ1⟩ := r
      simp only [ha] at h
      have ⟨ha1, ha2, ha3⟩ := opFit_sound a t σ ρ fa σ1 ρ1 ha
      subst ha1; subst ha2
      by_cases hs : fa.success = true
      · simp only [hs, if_true] at h
        cases hc : opFit OpCfg.fixed c t σ1 ρ1 with
        | error x => simp [hc] at h
        | ok r2 =>
          obtain ⟨fc, σ2, ρ2⟩ := r2
          simp only [hc] at h
          cases h
          have ⟨hc1, hc2, hc3⟩ := opFit_sound c t σ1 ρ1 fc σ' ρ' hc
          refine ⟨hc1, hc2, ?_⟩
          rw [implFit_success, hc3, ← ha3, hs]; simp
      · simp only [hs] at h
        cases h
        refine ⟨rfl, rfl, ?_⟩
        have : fa.success = false := by simpa using hs
        rw [← ha3, this]; rfl
  | .all lz b s body, t, σ, ρ, f, σ', ρ', h => by
    simp only [opFit] at h
    simp only [denote]
    cases hq : s.quantify t σ with
    | error x => simp [hq] at h
    | ok vs =>
      simp only [hq] at h
      cases hr : runQ (fun v σc ρc => opFit OpCfg.fixed body t (bindσ b v σc) (bindρ b v ρc)) (stopOf lz false) vs σ ρ with
      | error x => simp [hr] at h
      | ok r =>
        obtain ⟨fs, σ1, ρ1⟩ := r
        simp only [hr] at h
        cases h
        have hg : ∀ v σc ρc f σ1 ρ1, LoopInv b σ ρ σc ρc →
            (fun v σc ρc => opFit OpCfg.fixed body t (bindσ b v σc) (bindρ b v ρc)) v σc ρc = .ok (f, σ1, ρ1) →
            LoopInv b σ ρ σ1 ρ1 ∧ f.success = (fun v => denote body t (bindσ b v σ) (bindρ b v ρ)) v := by
          intro v σc ρc f σ1 ρ1 hinv hgv
          have ⟨e1, e2, e3⟩ := opFit_sound body t (bindσ b v σc) (bindρ b v ρc) f σ1 ρ1 hgv
          subst e1; subst e2
          refine ⟨⟨fun w => ?_, fun w => ?_⟩, ?_⟩
          · rw [bindσ_bindσ, hinv.1]
          · rw [bindρ_bindρ, hinv.2]
          · rw [e3, hinv.1, hinv.2]
        have ⟨h1, _⟩ := runQ_sound _ _ _ hg (stopOf lz false) vs σ ρ fs σ1 ρ1 (LoopInv.refl b σ ρ) hr
        exact ⟨rfl, rfl, by rw [allFit_success]; exact h1 (stopOf_ne_true_false lz)⟩
  | .any lz b s body, t, σ, ρ, f, σ', ρ', h => by
    simp only [opFit] at h
    simp only [denote]
    cases hq : s.quantify t σ with
    | error x => simp [hq] at h
    | ok vs =>
      simp only [hq] at h
      cases hr : runQ (fun v σc ρc => opFit OpCfg.fixed body t (bindσ b v σc) (bindρ b v ρc)) (stopOf lz true) vs σ ρ with
      | error x => simp [hr] at h
      | ok r =>
        obtain ⟨fs, σ1, ρ1⟩ := r
        simp only [hr] at h
        cases h
        have hg : ∀ v σc ρc f σ1 ρ1, LoopInv b σ ρ σc ρc →
            (fun v σc ρc => opFit OpCfg.fixed body t (bindσ b v σc) (bindρ b v ρc)) v σc ρc = .ok (f, σ1, ρ1) →
            LoopInv b σ ρ σ1 ρ1 ∧ f.success = (fun v => denote body t (bindσ b v σ) (bindρ b v ρ)) v := by
          intro v σc ρc f σ1 ρ1 hinv hgv
          have ⟨e1, e2, e3⟩ := opFit_sound body t (bindσ b v σc) (bindρ b v ρc) f σ1 ρ1 hgv
          subst e1; subst e2
          refine ⟨⟨fun w => ?_, fun w => ?_⟩, ?_⟩
          · rw [bindσ_bindσ, hinv.1]
          · rw [bindρ_bindρ, hinv.2]
          · rw [e3, hinv.1, hinv.2]
        have ⟨_, h2⟩ := runQ_sound _ _ _ hg (stopOf lz true) vs σ ρ fs σ1 ρ1 (LoopInv.refl b σ ρ) hr
        exact ⟨rfl, rfl, by rw [anyFit_success]; exact h2 (stopOf_ne_false_true lz)⟩
theorem runL_sound : ∀ (cs : ConsL) (stop : Option Bool) (t : Tree) (σ : Scope) (ρ : Locals)
    (fs : List Fit) (σ' : Scope) (ρ' : Locals),
    runL OpCfg.fixed stop cs t σ ρ = .ok (fs, σ', ρ') →
    σ' = σ ∧ ρ' = ρ ∧
    (stop ≠ some true → fs.all (·.success) = denoteAll cs t σ ρ) ∧
    (stop ≠ some false → fs.any (·.success) = denoteAny cs t σ ρ)
  | .nil, stop, t, σ, ρ, fs, σ', ρ', h => by
    simp only [runL] at h
    cases h
    simp [denoteAll, denoteAny]
  | .cons c cs, stop, t, σ, ρ, fs, σ', ρ', h => by
    simp only [runL] at h
    simp only [denoteAll, denoteAny]
    cases hc : opFit OpCfg.fixed c t σ ρ with
    | error x => simp [hc] at h
    | ok r =>
      obtain ⟨f, σ1, ρ1⟩ := r
      simp only [hc] at h
      have ⟨e1, e2, e3⟩ := opFit_sound c t σ ρ f σ1 ρ1 hc
      subst e1; subst e2
      by_cases hs : stop = some f.success
      · simp only [hs, if_true] at h
        cases h
        refine ⟨rfl, rfl, ?_, ?_⟩
        · intro hne
          have : f.success = false := by
            cases hfs : f.success with
            | false => rfl
            | true => rw [hfs] at hs; exact absurd hs hne
          simp [← e3, this]
        · intro hne
          have : f.success = true := by
            cases hfs : f.success with
            | true => rfl
            | false => rw [hfs] at hs; exact absurd hs hne
          simp [← e3, this]
      · simp only [hs, if_false] at h
        cases hr : runL OpCfg.fixed stop cs t σ1 ρ1 with
        | error x => simp [hr] at h
        | ok r2 =>
          obtain ⟨fs2, σ2, ρ2⟩ := r2
          simp only [hr] at h
          cases h
          have ⟨g1, g2, g3, g4⟩ := runL_sound cs stop t σ1 ρ1 fs2 σ' ρ' hr
          refine ⟨g1, g2, ?_, ?_⟩
          · intro hne; simp [e3, g3 hne]
          · intro hne; simp [e3, g4 hne]
end

/-! ### the lazy flag -/

mutual
theorem denote_withLazy : ∀ (z : Bool) (c : Cons) (t : Tree) (σ : Scope) (ρ : Locals),
    denote (c.withLazy z) t σ ρ = denote c t σ ρ
  | z, .expr e ss, t, σ, ρ => by simp [Cons.withLazy]
  | z, .cmp c ss, t, σ, ρ => by simp [Cons.withLazy]
  | z, .conj lz cs, t, σ, ρ => by simp only [Cons.withLazy, denote]; exact denoteAll_withLazy z cs t σ ρ
  | z, .disj lz cs, t, σ, ρ => by simp only [Cons.withLazy, denote]; exact denoteAny_withLazy z cs t σ ρ
  | z, .impl a c, t, σ, ρ => by
    simp only [Cons.withLazy, denote]; rw [denote_withLazy z a, denote_withLazy z c]
  | z, .all lz b s body, t, σ, ρ => by
    simp only [Cons.withLazy, denote]
    cases s.quantify t σ with
    | error x => rfl
    | ok vs => simp only []; congr 1; funext v; exact denote_withLazy z body t _ _
  | z, .any lz b s body, t, σ, ρ => by
    simp only [Cons.withLazy, denote]
    cases s.quantify t σ with
    | error x => rfl
    | ok vs => simp only []; congr 1; funext v; exact denote_withLazy z body t _ _
theorem denoteAll_withLazy : ∀ (z : Bool) (cs : ConsL) (t : Tree) (σ : Scope) (ρ : Locals),
    denoteAll (cs.withLazy z) t σ ρ = denoteAll cs t σ ρ
  | z, .nil, t, σ, ρ => by simp [ConsL.withLazy, denoteAll]
  | z, .cons c cs, t, σ, ρ => by
    simp only [ConsL.withLazy, denoteAll]; rw [denote_withLazy z c, denoteAll_withLazy z cs]
theorem denoteAny_withLazy : ∀ (z : Bool) (cs : ConsL) (t : Tree) (σ : Scope) (ρ : Locals),
    denoteAny (cs.withLazy z) t σ ρ = denoteAny cs t σ ρ
  | z, .nil, t, σ, ρ => by simp [ConsL.withLazy, denoteAny]
  | z, .cons c cs, t, σ, ρ => by
    simp only [ConsL.withLazy, denoteAny]; rw [denote_withLazy z c, denoteAny_withLazy z cs]
end


/-! ### an eager evaluation that raises nothing ⇒ the lazy evaluation raises nothing -/

theorem runQ_ok_lazy (ge gl : Tree → Scope → Locals → Except SErr St)
    (h : ∀ v σc ρc f σ1 ρ1, ge v σc ρc = .ok (f, σ1, ρ1) → ∃ f', gl v σc ρc = .ok (f', σ1, ρ1)) :
    ∀ (vs : List Tree) (σc : Scope) (ρc : Locals) (r : List Fit × Scope × Locals),
      runQ ge none vs σc ρc = .ok r → ∀ stop, ∃ r', runQ gl stop vs σc ρc = .ok r' := by
  intro vs
  induction vs with
  | nil => intro σc ρc r _ stop; exact ⟨_, rfl⟩
  | cons v vs ih =>
    intro σc ρc r hr stop
    simp only [runQ] at hr
    cases hge : ge v σc ρc with
    | error e => simp [hge] at hr
    | ok x =>
      obtain ⟨f, σ1, ρ1⟩ := x
      simp only [hge] at hr
      have hne : (none : Option Bool) ≠ some f.success := by simp
      simp only [hne, if_false] at hr
      cases hrest : runQ ge none vs σ1 ρ1 with
      | error e => simp [hrest] at hr
      | ok r2 =>
        obtain ⟨f', hgl⟩ := h v σc ρc f σ1 ρ1 hge
        simp only [runQ, hgl]
        by_cases hs : stop = some f'.success
        · simp only [hs, if_true]; exact ⟨_, rfl⟩
        · simp only [hs, if_false]
          obtain ⟨r', hr'⟩ := ih σ1 ρ1 r2 hrest stop
          simp only [hr']; exact ⟨_, rfl⟩

theorem stopOf_false (b : Bool) : stopOf false b = none := rfl

mutual
theorem lazy_ok : ∀ (c : Cons) (t : Tree) (σ : Scope) (ρ : Locals) (f : Fit) (σ' : Scope) (ρ' : Locals),
    opFit OpCfg.fixed (c.withLazy false) t σ ρ = .ok (f, σ', ρ') →
    ∃ f', opFit OpCfg.fixed (c.withLazy true) t σ ρ = .ok (f', σ', ρ')
  | .expr e ss, t, σ, ρ, f, σ', ρ', h => ⟨f, by simpa [Cons.withLazy] using h⟩
  | .cmp c ss, t, σ, ρ, f, σ', ρ', h => ⟨f, by simpa [Cons.withLazy] using h⟩
  | .conj lz cs, t, σ, ρ, f, σ', ρ', h => by
    simp only [Cons.withLazy, opFit, stopOf_false] at h
    simp only [Cons.withLazy, opFit]
    cases hr : runL OpCfg.fixed none (cs.withLazy false) t σ ρ with
    | error x => simp [hr] at h
    | ok r =>
      obtain ⟨fs, σ1, ρ1⟩ := r
      simp only [hr] at h
      cases h
      have ⟨e1, e2, _, _⟩ := runL_sound _ _ t σ ρ fs σ' ρ' hr
      subst e1; subst e2
      obtain ⟨fs', h'⟩ := lazy_ok_L cs t σ' ρ' _ hr (stopOf true false)
      simp only [h']; exact ⟨_, rfl⟩
  | .disj lz cs, t, σ, ρ, f, σ', ρ', h => by
    simp only [Cons.withLazy, opFit, stopOf_false] at h
    simp only [Cons.withLazy, opFit]
    cases hr : runL OpCfg.fixed none (cs.withLazy false) t σ ρ with
    | error x => simp [hr] at h
    | ok r =>
      obtain ⟨fs, σ1, ρ1⟩ := r
      simp only [hr] at h
      cases h
      have ⟨e1, e2, _, _⟩ := runL_sound _ _ t σ ρ fs σ' ρ' hr
      subst e1; subst e2
      obtain ⟨fs', h'⟩ := lazy_ok_L cs t σ' ρ' _ hr (stopOf true true)
      simp only [h']; exact ⟨_, rfl⟩
  | .impl a c, t, σ, ρ, f, σ', ρ', h => by
    simp only [Cons.withLazy, opFit] at h
    simp only [Cons.withLazy, opFit]
    cases ha : opFit OpCfg.fixed (a.withLazy false) t σ ρ with
    | error x => simp [ha] at h
    | ok r =>
      obtain ⟨fa, σ1, ρ1⟩ := r
      simp only [ha] at h
      have ⟨a1, a2, a3⟩ := opFit_sound _ t σ ρ fa σ1 ρ1 ha
      subst a1; subst a2
      obtain ⟨fa', ha'⟩ := lazy_ok a t σ1 ρ1 fa σ1 ρ1 ha
      have ⟨_, _, a3'⟩ := opFit_sound _ t σ1 ρ1 fa' σ1 ρ1 ha'
      have hsame : fa'.success = fa.success := by
        rw [a3, a3', denote_withLazy, denote_withLazy]
      simp only [ha', hsame]
      by_cases hs : fa.success = true
      · simp only [hs, if_true] at h ⊢
        cases hc : opFit OpCfg.fixed (c.withLazy false) t σ1 ρ1 with
        | error x => simp [hc] at h
        | ok r2 =>
          obtain ⟨fc, σ2, ρ2⟩ := r2
          simp only [hc] at h
          cases h
          obtain ⟨fc', hc'⟩ := lazy_ok c t σ1 ρ1 fc σ' ρ' hc
          simp only [hc']; exact ⟨_, rfl⟩
      · simp only [hs] at h ⊢
        cases h
        exact ⟨_, rfl⟩
  | .all lz b s body, t, σ, ρ, f, σ', ρ', h => by
    simp only [Cons.withLazy, opFit, stopOf_false] at h
    simp only [Cons.withLazy, opFit]
    cases hq : s.quantify t σ with
    | error x => simp [hq] at h
    | ok vs =>
      simp only [hq] at h ⊢
      cases hr : runQ (fun v σc ρc => opFit OpCfg.fixed (body.withLazy false) t (bindσ b v σc) (bindρ b v ρc)) none vs σ ρ with
      | error x => simp [hr] at h
      | ok r =>
        obtain ⟨fs, σ1, ρ1⟩ := r
        simp only [hr] at h
        cases h
        obtain ⟨r', hr'⟩ := runQ_ok_lazy _
          (fun v σc ρc => opFit OpCfg.fixed (body.withLazy true) t (bindσ b v σc) (bindρ b v ρc))
          (fun v σc ρc f σ1 ρ1 hge => lazy_ok body t _ _ f σ1 ρ1 hge) vs σ ρ _ hr (stopOf true false)
        obtain ⟨fs', σ2, ρ2⟩ := r'
        simp only [hr']; exact ⟨_, rfl⟩
  | .any lz b s body, t, σ, ρ, f, σ', ρ', h => by
    simp only [Cons.withLazy, opFit, stopOf_false] at h
    simp only [Cons.withLazy, opFit]
    cases hq : s.quantify t σ with
    | error x => simp [hq] at h
    | ok vs =>
      simp only [hq] at h ⊢
      cases hr : runQ (fun v σc ρc => opFit OpCfg.fixed (body.withLazy false) t (bindσ b v σc) (bindρ b v ρc)) none vs σ ρ with
      | error x => simp [hr] at h
      | ok r =>
        obtain ⟨fs, σ1, ρ1⟩ := r
        simp only [hr] at h
        cases h
        obtain ⟨r', hr'⟩ := runQ_ok_lazy _
          (fun v σc ρc => opFit OpCfg.fixed (body.withLazy true) t (bindσ b v σc) (bindρ b v ρc))
          (fun v σc ρc f σ1 ρ1 hge => lazy_ok body t _ _ f σ1 ρ1 hge) vs σ ρ _ hr (stopOf true true)
        obtain ⟨fs', σ2, ρ2⟩ := r'
        simp only [hr']; exact ⟨_, rfl⟩
theorem lazy_ok_L : ∀ (cs : ConsL) (t : Tree) (σ : Scope) (ρ : Locals) (r : List Fit × Scope × Locals),
    runL OpCfg.fixed none (cs.withLazy false) t σ ρ = .ok r →
    ∀ stop, ∃ fs', runL OpCfg.fixed stop (cs.withLazy true) t σ ρ = .ok (fs', σ, ρ)
  | .nil, t, σ, ρ, r, h, stop => ⟨[], by simp [ConsL.withLazy, runL]⟩
  | .cons c cs, t, σ, ρ, r, h, stop => by
    simp only [ConsL.withLazy, runL] at h
    simp only [ConsL.withLazy, runL]
    cases hc : opFit OpCfg.fixed (c.withLazy false) t σ ρ with
    | error x => simp [hc] at h
    | ok x =>
      obtain ⟨f, σ1, ρ1⟩ := x
      simp only [hc] at h
      have ⟨e1, e2, _⟩ := opFit_sound _ t σ ρ f σ1 ρ1 hc
      subst e1; subst e2
      have hne : (none : Option Bool) ≠ some f.success := by simp
      simp only [hne, if_false] at h
      obtain ⟨f', hc'⟩ := lazy_ok c t σ1 ρ1 f σ1 ρ1 hc
      simp only [hc']
      by_cases hs : stop = some f'.success
      · simp only [hs, if_true]; exact ⟨_, rfl⟩
      · simp only [hs, if_false]
        cases hrest : runL OpCfg.fixed none (cs.withLazy false) t σ1 ρ1 with
        | error x => simp [hrest] at h
        | ok r2 =>
          obtain ⟨fs', h'⟩ := lazy_ok_L cs t σ1 ρ1 r2 hrest stop
          simp only [h']; exact ⟨_, rfl⟩
end

theorem product_nil_of_mem_nil {α : Type} (ms : List (List α)) (h : [] ∈ ms) : product ms = [] := by
  induction ms with
  | nil => cases h
  | cons m ms ih =>
    cases h with
    | head => simp [product]
    | tail _ h' => simp [product, ih h']

end FV
