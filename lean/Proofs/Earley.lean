/-
Helper lemmas for the Earley model (E3): the finite core item space, well-formedness of the machine,
the termination measure of the core policy.
-/
import Model.Earley
namespace FV.Earley

/-! ### the core item space -/

/-- the compiled rules plus the rule of `<*start*>` -/
def Cfg.rules' (c : Cfg) : List CRule := (NT.start, [ESym.plain (.user c.start)]) :: c.rules

/-- every core item column `j` can hold: per rule every dot position and every origin `≤ j` -/
def itemSpace (c : Cfg) (j : Nat) : List Item :=
  c.rules'.flatMap (fun (r : CRule) =>
    (List.range (r.2.length + 1)).flatMap (fun d =>
      (List.range (j + 1)).map (fun o => ({ lhs := r.1, rhs := r.2, dot := d, origin := o } : Item))))

def Item.ok (c : Cfg) (j : Nat) (it : Item) : Prop :=
  (it.lhs, it.rhs) ∈ c.rules' ∧ it.dot ≤ it.rhs.length ∧ it.origin ≤ j

theorem mem_itemSpace {c : Cfg} {j : Nat} {it : Item} : it ∈ itemSpace c j ↔ Item.ok c j it := by
  unfold itemSpace Item.ok
  simp only [List.mem_flatMap, List.mem_map, List.mem_range]
  constructor
  · rintro ⟨r, hr, d, hd, o, ho, rfl⟩
    exact ⟨hr, by simp only; omega, by simp only; omega⟩
  · rintro ⟨hr, hd, ho⟩
    exact ⟨(it.lhs, it.rhs), hr, it.dot, by simp only; omega, it.origin, by omega, rfl⟩

theorem Item.ok_mono {c : Cfg} {j j' : Nat} {it : Item} (h : Item.ok c j it) (hj : j ≤ j') :
    Item.ok c j' it := ⟨h.1, h.2.1, by have := h.2.2; omega⟩

/-- `Σ (|rhs| + 1)` over the rules -/
def dotSlots (rules : List CRule) : Nat := (rules.map (fun (r : CRule) => r.2.length + 1)).sum

theorem length_flatMap_const {α β : Type} (l : List α) (f : α → List β) (n : Nat)
    (h : ∀ a ∈ l, (f a).length = n) : (l.flatMap f).length = l.length * n := by
  induction l with
  | nil => simp
  | cons a as ih =>
    simp only [List.flatMap_cons, List.length_append, List.length_cons]
    rw [h a (by simp), ih (fun b hb => h b (by simp [hb]))]
    rw [Nat.add_mul]; omega

theorem itemSpace_length (c : Cfg) (j : Nat) :
    (itemSpace c j).length = dotSlots c.rules' * (j + 1) := by
  unfold itemSpace dotSlots
  generalize c.rules' = rules
  induction rules with
  | nil => simp
  | cons r rs ih =>
    simp only [List.flatMap_cons, List.length_append, List.map_cons, List.sum_cons, ih]
    rw [length_flatMap_const _ _ (j + 1) (by intro d _; simp)]
    simp [Nat.add_mul]

/-- longest right-hand side -/
def maxRhs (rules : List CRule) : Nat := (rules.map (fun (r : CRule) => r.2.length)).foldl max 0

theorem le_foldl_max (l : List Nat) (a x : Nat) (h : x ≤ a ∨ x ∈ l) : x ≤ l.foldl max a := by
  induction l generalizing a with
  | nil => rcases h with h | h; exact h; simp at h
  | cons b bs ih =>
    simp only [List.foldl_cons]
    apply ih
    rcases h with h | h
    · left; exact Nat.le_trans h (Nat.le_max_left _ _)
    · simp only [List.mem_cons] at h
      rcases h with h | h
      · left; subst h; exact Nat.le_max_right _ _
      · right; exact h

theorem dotSlots_le (rules : List CRule) : dotSlots rules ≤ rules.length * (maxRhs rules + 1) := by
  unfold dotSlots
  have : ∀ (l : List CRule) (m : Nat), (∀ r ∈ l, r.2.length ≤ m) →
      (l.map (fun (r : CRule) => r.2.length + 1)).sum ≤ l.length * (m + 1) := by
    intro l m h
    induction l with
    | nil => simp
    | cons r rs ih =>
      simp only [List.map_cons, List.sum_cons, List.length_cons]
      have h1 := h r (by simp)
      have h2 := ih (fun x hx => h x (by simp [hx]))
      rw [Nat.add_mul]; omega
  apply this
  intro r hr
  unfold maxRhs
  apply le_foldl_max
  right
  simp only [List.mem_map]
  exact ⟨r, hr, rfl⟩

/-! ### counting the core items a column does not hold yet -/

/-- is the core item in the column? (`Column.add`'s test under `Policy.core`) -/
def present (states : List St) (u : Item) : Bool := states.any (fun x => decide (x.item = u))

/-- number of admissible core items not yet in the column -/
def free (U : List Item) (states : List St) : Nat := (U.filter (fun u => !present states u)).length

theorem present_append (states : List St) (s : St) (u : Item) :
    present (states ++ [s]) u = (present states u || decide (s.item = u)) := by
  simp [present, List.any_append]

theorem filter_length_mono {α : Type} (p q : α → Bool) (U : List α) (h : ∀ u ∈ U, q u = true → p u = true) :
    (U.filter q).length ≤ (U.filter p).length := by
  induction U with
  | nil => simp
  | cons u us ih =>
    have ih' := ih (fun x hx => h x (by simp [hx]))
    have hu := h u (by simp)
    simp only [List.filter_cons]
    cases hq : q u <;> cases hp : p u <;> simp_all <;> omega

theorem filter_length_strict {α : Type} (p q : α → Bool) (U : List α) (h : ∀ u ∈ U, q u = true → p u = true)
    (u0 : α) (h0 : u0 ∈ U) (hp0 : p u0 = true) (hq0 : q u0 = false) :
    (U.filter q).length < (U.filter p).length := by
  induction U with
  | nil => simp at h0
  | cons u us ih =>
    have hmono := filter_length_mono p q us (fun x hx => h x (by simp [hx]))
    have hu := h u (by simp)
    simp only [List.filter_cons]
    simp only [List.mem_cons] at h0
    rcases h0 with h0 | h0
    · subst h0
      simp [hp0, hq0]; omega
    · have ih' := ih (fun x hx => h x (by simp [hx])) h0
      cases hq : q u <;> cases hp : p u <;> simp_all <;> omega

theorem free_append_le (U : List Item) (states : List St) (s : St) :
    free U (states ++ [s]) ≤ free U states := by
  unfold free
  apply filter_length_mono
  intro u _ hq
  rw [present_append] at hq
  cases h : present states u <;> simp_all

theorem free_append_lt (U : List Item) (states : List St) (s : St) (hU : s.item ∈ U)
    (hn : present states s.item = false) : free U (states ++ [s]) < free U states := by
  unfold free
  apply filter_length_strict _ _ U _ s.item hU
  · simp [hn]
  · rw [present_append]; simp
  · intro u _ hq
    rw [present_append] at hq
    cases h : present states u <;> simp_all

theorem free_le_length (U : List Item) (states : List St) : free U states ≤ U.length := by
  unfold free; exact List.length_filter_le _ _

theorem free_nil (U : List Item) : free U [] = U.length := by
  unfold free present; simp

/-! ### `Column.add` under the core policy -/

theorem any_dup_core (states : List St) (s : St) :
    states.any (fun x => St.dup .core x s) = present states s.item := by
  unfold present St.dup; rfl

theorem Col.add_states_core (col : Col) (s : St) :
    (Col.add .core col s).states = if present col.states s.item then col.states else col.states ++ [s] := by
  unfold Col.add
  rw [any_dup_core]
  split <;> simp

theorem Col.add_states_mem {p : Policy} {col : Col} {s x : St} (h : x ∈ (Col.add p col s).states) :
    x ∈ col.states ∨ x = s := by
  unfold Col.add at h
  split at h
  · exact Or.inl h
  · simp only [List.mem_append, List.mem_singleton] at h; exact h

theorem Col.add_dots_mem {p : Policy} {col : Col} {s x : St} (h : x ∈ (Col.add p col s).dots) :
    x ∈ col.dots ∨ x = s := by
  unfold Col.add at h
  split at h
  · exact Or.inl h
  · simp only at h
    split at h
    · simp only [List.mem_append, List.mem_singleton] at h; exact h
    · exact Or.inl h

/-- admission keeps `dots` no longer than `states` -/
theorem Col.add_dots_len {p : Policy} {col : Col} {s : St} (h : col.dots.length ≤ col.states.length) :
    (Col.add p col s).dots.length ≤ (Col.add p col s).states.length := by
  unfold Col.add
  split
  · exact h
  · simp only
    split <;> simp <;> omega

/-! ### columns of the chart -/

theorem colAt_set (cols : List Col) (j i : Nat) (x : Col) :
    colAt (cols.set j x) i = if i = j ∧ j < cols.length then x else colAt cols i := by
  unfold colAt
  simp only [List.getD_eq_getElem?_getD, List.getElem?_set]
  by_cases h : j = i
  · subst h
    by_cases h2 : j < cols.length
    · simp [h2]
    · simp [h2, List.getElem?_eq_none (Nat.le_of_not_lt h2)]
  · have : ¬ (i = j ∧ j < cols.length) := fun hh => h hh.1.symm
    simp [h, this]

theorem colAt_addAt (p : Policy) (cols : List Col) (j i : Nat) (s : St) :
    colAt (addAt p cols j s) i = if i = j ∧ j < cols.length then Col.add p (colAt cols j) s else colAt cols i := by
  unfold addAt; exact colAt_set _ _ _ _

theorem length_addAt (p : Policy) (cols : List Col) (j : Nat) (s : St) :
    (addAt p cols j s).length = cols.length := by
  unfold addAt; simp

theorem colAt_eq_getElem (cols : List Col) (j : Nat) (h : j < cols.length) : colAt cols j = cols[j] := by
  unfold colAt; simp [List.getD_eq_getElem?_getD, h]

theorem colAt_out (cols : List Col) (j : Nat) (h : cols.length ≤ j) : colAt cols j = {} := by
  unfold colAt; simp [List.getD_eq_getElem?_getD, List.getElem?_eq_none h]

theorem sum_map_set (f : Col → Nat) (l : List Col) (i : Nat) (x : Col) (h : i < l.length) :
    ((l.set i x).map f).sum + f (l[i]) = (l.map f).sum + f x := by
  induction l generalizing i with
  | nil => simp at h
  | cons a as ih =>
    cases i with
    | zero => simp; omega
    | succ i =>
      simp only [List.set_cons_succ, List.map_cons, List.sum_cons, List.getElem_cons_succ]
      have := ih i (by simpa using h)
      omega

/-! ### the potential of the columns still to be processed -/

/-- weight of a column that has not been started: every missing item may still be admitted
    (`A + B` each: `A` for processing it, `B` to pay for the loops it lengthens) and every state it holds
    still has to be processed (`A` each) -/
def wcol (U : List Item) (A B : Nat) (col : Col) : Nat :=
  (A + B) * free U col.states + A * col.states.length

/-- weight of the current column: `idx` of its states are done -/
def wcur (U : List Item) (A B idx : Nat) (col : Col) : Nat :=
  (A + B) * free U col.states + A * (col.states.length - idx)

/-- potential of `cols.drop k` -/
def potCols (U : List Item) (A B idx : Nat) : List Col → Nat
  | [] => 0
  | cur :: fut => wcur U A B idx cur + (fut.map (wcol U A B)).sum

theorem wcur_zero (U : List Item) (A B : Nat) (col : Col) : wcur U A B 0 col = wcol U A B col := by
  unfold wcur wcol; simp

theorem potCols_zero (U : List Item) (A B : Nat) (l : List Col) :
    potCols U A B 0 l = (l.map (wcol U A B)).sum := by
  cases l with
  | nil => rfl
  | cons a as => simp [potCols, wcur_zero]

/-- was the state really appended? -/
def admitted (col : Col) (s : St) : Nat := if present col.states s.item then 0 else 1

theorem wcol_add (U : List Item) (A B : Nat) (col : Col) (s : St) (hU : s.item ∈ U) :
    wcol U A B (Col.add .core col s) + B * admitted col s ≤ wcol U A B col := by
  unfold wcol admitted
  rw [Col.add_states_core]
  cases h : present col.states s.item
  · have hlt := free_append_lt U col.states s hU h
    simp only [Bool.false_eq_true, ↓reduceIte, List.length_append, List.length_singleton]
    have : (A + B) * free U (col.states ++ [s]) + (A + B) ≤ (A + B) * free U col.states := by
      have : free U (col.states ++ [s]) + 1 ≤ free U col.states := hlt
      calc (A + B) * free U (col.states ++ [s]) + (A + B)
          = (A + B) * (free U (col.states ++ [s]) + 1) := by rw [Nat.mul_add]; simp
        _ ≤ (A + B) * free U col.states := Nat.mul_le_mul_left _ this
    rw [Nat.mul_add]; omega
  · simp

theorem wcur_add (U : List Item) (A B idx : Nat) (col : Col) (s : St) (hU : s.item ∈ U) :
    wcur U A B idx (Col.add .core col s) + B * admitted col s ≤ wcur U A B idx col := by
  unfold wcur admitted
  rw [Col.add_states_core]
  cases h : present col.states s.item
  · have hlt := free_append_lt U col.states s hU h
    simp only [Bool.false_eq_true, ↓reduceIte, List.length_append, List.length_singleton]
    have h1 : (A + B) * free U (col.states ++ [s]) + (A + B) ≤ (A + B) * free U col.states := by
      have : free U (col.states ++ [s]) + 1 ≤ free U col.states := hlt
      calc (A + B) * free U (col.states ++ [s]) + (A + B)
          = (A + B) * (free U (col.states ++ [s]) + 1) := by rw [Nat.mul_add]; simp
        _ ≤ (A + B) * free U col.states := Nat.mul_le_mul_left _ this
    have h2 : A * (col.states.length + 1 - idx) ≤ A * (col.states.length - idx) + A := by
      have : col.states.length + 1 - idx ≤ (col.states.length - idx) + 1 := by omega
      calc A * (col.states.length + 1 - idx) ≤ A * ((col.states.length - idx) + 1) := Nat.mul_le_mul_left _ this
        _ = A * (col.states.length - idx) + A := by rw [Nat.mul_add]; simp
    omega
  · simp

/-- the potential of the columns from `k` on -/
def phi (U : List Item) (A B : Nat) (cols : List Col) (k idx : Nat) : Nat := potCols U A B idx (cols.drop k)

/-- credit of an admission attempt into column `e` -/
def credit (cols : List Col) (e : Nat) (s : St) : Nat :=
  if e < cols.length then admitted (colAt cols e) s else 0

theorem phi_addAt (U : List Item) (A B : Nat) (cols : List Col) (k idx e : Nat) (s : St)
    (hke : k ≤ e) (hU : s.item ∈ U) :
    phi U A B (addAt .core cols e s) k idx + B * credit cols e s ≤ phi U A B cols k idx := by
  unfold phi credit addAt
  by_cases he : e < cols.length
  · simp only [he, ↓reduceIte]
    rw [List.drop_set]
    have hnot : ¬ e < k := by omega
    simp only [hnot, ↓reduceIte]
    have hk : k < cols.length := by omega
    rw [List.drop_eq_getElem_cons hk]
    rw [colAt_eq_getElem cols e he]
    by_cases hek : e = k
    · subst hek
      simp only [Nat.sub_self, List.set_cons_zero, potCols]
      have := wcur_add U A B idx cols[e] s hU
      omega
    · obtain ⟨i, hi⟩ : ∃ i, e - k = i + 1 := ⟨e - k - 1, by omega⟩
      rw [hi]
      simp only [List.set_cons_succ, potCols]
      have hil : i < (cols.drop (k + 1)).length := by simp; omega
      have hsum := sum_map_set (wcol U A B) (cols.drop (k + 1)) i (Col.add .core cols[e] s) hil
      have hget : (cols.drop (k + 1))[i] = cols[e] := by
        simp only [List.getElem_drop]
        congr 1; omega
      rw [hget] at hsum
      have := wcol_add U A B cols[e] s hU
      omega
  · simp only [he, ↓reduceIte]
    rw [List.set_eq_of_length_le (Nat.le_of_not_lt he)]
    simp

/-! ### well-formed machine states -/

/-- what the theorems need of the parameters: `predict` only adds alternatives of the rule table,
    a scan never goes backwards -/
structure Sane (c : Cfg) : Prop where
  pred : ∀ k x rhs, rhs ∈ c.pred k x → (x, rhs) ∈ c.rules
  scan : ∀ t k e l, c.scan t k = some (e, l) → k ≤ e

def Cfg.U (c : Cfg) : List Item := itemSpace c c.ncols
/-- what an admission pays on top of the processing of the new state: one step for the active `complete`
    loop and one for each of the (at most `|U|`) pending ones — all of them run over the same live list -/
def Cfg.B (c : Cfg) : Nat := c.U.length + 1
/-- what processing one state may cost: opening a `complete` loop (`≤ 2|U| + 2`), or — `predict` — leaving at
    most `|U|` pending loops of `≤ 2|U| + 2` steps each -/
def Cfg.A (c : Cfg) : Nat := (c.U.length + 1) * (2 * c.U.length + 3)

theorem ok_mem_U {c : Cfg} {j : Nat} {it : Item} (h : Item.ok c j it) (hj : j ≤ c.ncols) : it ∈ c.U :=
  mem_itemSpace.2 (Item.ok_mono h hj)

structure WfC (c : Cfg) (cols : List Col) (k : Nat) : Prop where
  len : cols.length = c.ncols
  okS : ∀ j s, s ∈ (colAt cols j).states → Item.ok c j s.item
  okD : ∀ j s, s ∈ (colAt cols j).dots → Item.ok c j s.item
  cap : ∀ j, k ≤ j → (colAt cols j).states.length + free c.U (colAt cols j).states ≤ c.U.length
  capOld : ∀ j, j < k → (colAt cols j).states.length ≤ c.U.length
  dotsNew : ∀ j, k ≤ j → (colAt cols j).dots.length ≤ (colAt cols j).states.length
  dotsOld : ∀ j, j < k → (colAt cols j).dots.length ≤ 2 * (colAt cols j).states.length

theorem WfC.states_le {c : Cfg} {cols : List Col} {k : Nat} (hw : WfC c cols k) (j : Nat) :
    (colAt cols j).states.length ≤ c.U.length := by
  by_cases h : j < k
  · exact hw.capOld j h
  · have := hw.cap j (by omega); omega

theorem WfC.dots_le {c : Cfg} {cols : List Col} {k : Nat} (hw : WfC c cols k) (j : Nat) :
    (colAt cols j).dots.length ≤ 2 * c.U.length := by
  have hs := hw.states_le j
  by_cases h : j < k
  · have := hw.dotsOld j h; omega
  · have := hw.dotsNew j (by omega); omega

theorem wfc_addAt {c : Cfg} {cols : List Col} {k e : Nat} {s : St} (hw : WfC c cols k) (hke : k ≤ e)
    (hok : Item.ok c e s.item) : WfC c (addAt .core cols e s) k := by
  by_cases he : e < cols.length
  · have hU : s.item ∈ c.U := ok_mem_U hok (by have := hw.len; omega)
    refine ⟨by rw [length_addAt]; exact hw.len, ?_, ?_, ?_, ?_, ?_, ?_⟩
    · intro j x hx
      rw [colAt_addAt] at hx
      split at hx
      · rename_i hj
        rcases Col.add_states_mem hx with h | h
        · rw [hj.1]; exact hw.okS e x h
        · rw [hj.1, h]; exact hok
      · exact hw.okS j x hx
    · intro j x hx
      rw [colAt_addAt] at hx
      split at hx
      · rename_i hj
        rcases Col.add_dots_mem hx with h | h
        · rw [hj.1]; exact hw.okD e x h
        · rw [hj.1, h]; exact hok
      · exact hw.okD j x hx
    · intro j hj
      rw [colAt_addAt]
      split
      · rw [Col.add_states_core]
        have hc := hw.cap e hke
        cases hp : present (colAt cols e).states s.item
        · have := free_append_lt c.U (colAt cols e).states s hU hp
          simp only [Bool.false_eq_true, ↓reduceIte, List.length_append, List.length_singleton]
          omega
        · simpa using hc
      · exact hw.cap j hj
    · intro j hj
      rw [colAt_addAt]
      split
      · rename_i h; omega
      · exact hw.capOld j hj
    · intro j hj
      rw [colAt_addAt]
      split
      · exact Col.add_dots_len (hw.dotsNew e hke)
      · exact hw.dotsNew j hj
    · intro j hj
      rw [colAt_addAt]
      split
      · rename_i h; omega
      · exact hw.dotsOld j hj
  · have : addAt .core cols e s = cols := by
      unfold addAt; exact List.set_eq_of_length_le (Nat.le_of_not_lt he)
    rw [this]; exact hw

/-! ### the frame of an active `complete` call -/

def frameLen (cols : List Col) (t : St) : Nat := ((colAt cols t.item.origin).findDot t.item.lhs).length

def frameRem (cols : List Col) (frame : Option (St × Nat)) : Nat :=
  match frame with
  | none => 0
  | some (t, j) => 1 + (frameLen cols t - j)

theorem findDot_add_core (col : Col) (s : St) (x : NT) :
    ((Col.add .core col s).findDot x).length ≤ (col.findDot x).length + admitted col s := by
  unfold Col.findDot Col.add admitted
  rw [any_dup_core]
  cases h : present col.states s.item
  · simp only [Bool.false_eq_true, ↓reduceIte]
    split
    · rw [List.filter_append]
      simp only [List.length_append]
      have := List.length_filter_le (fun s => s.item.dotNT? == some x) [s]
      simp only [List.length_singleton] at this
      omega
    · omega
  · simp

theorem frameLen_addAt (cols : List Col) (e : Nat) (s t : St) :
    frameLen (addAt .core cols e s) t ≤ frameLen cols t + credit cols e s := by
  unfold frameLen credit
  rw [colAt_addAt]
  split
  · rename_i h
    rw [h.1]
    simp only [h.2, ↓reduceIte]
    exact findDot_add_core _ _ _
  · omega

/-! ### `place_repetition_shortcut` keeps the chart well-formed -/

theorem length_replaceItem (it : Item) (new : St) (l : List St) : (replaceItem it new l).length = l.length := by
  induction l with
  | nil => rfl
  | cons x xs ih => unfold replaceItem; split <;> simp [ih]

theorem mem_replaceItem {it : Item} {new y : St} {l : List St} (h : y ∈ replaceItem it new l) : y ∈ l ∨ y = new := by
  induction l with
  | nil => simp [replaceItem] at h
  | cons x xs ih =>
    unfold replaceItem at h
    split at h
    · simp only [List.mem_cons] at h
      rcases h with h | h
      · exact Or.inr h
      · exact Or.inl (by simp [h])
    · simp only [List.mem_cons] at h
      rcases h with h | h
      · exact Or.inl (by simp [h])
      · rcases ih h with h | h
        · exact Or.inl (by simp [h])
        · exact Or.inr h

theorem length_eraseItem_le (it : Item) (l : List St) : (eraseItem it l).length ≤ l.length := by
  induction l with
  | nil => simp [eraseItem]
  | cons x xs ih => unfold eraseItem; split <;> simp <;> omega

theorem mem_eraseItem {it : Item} {y : St} {l : List St} (h : y ∈ eraseItem it l) : y ∈ l := by
  induction l with
  | nil => simp [eraseItem] at h
  | cons x xs ih =>
    unfold eraseItem at h
    split at h
    · simp [h]
    · simp only [List.mem_cons] at h
      rcases h with h | h
      · simp [h]
      · simp [ih h]

theorem Col.replace_states_len (col : Col) (old new : St) : (col.replace old new).states.length = col.states.length := by
  unfold Col.replace; simp [length_replaceItem]

theorem Col.replace_dots_len (col : Col) (old new : St) : (col.replace old new).dots.length ≤ col.dots.length + 1 := by
  unfold Col.replace
  simp only [List.length_append]
  have h1 := length_eraseItem_le old.item col.dots
  split <;> split <;> simp <;> omega

theorem Col.replace_states_mem {col : Col} {old new y : St} (h : y ∈ (col.replace old new).states) :
    y ∈ col.states ∨ y = new := by
  unfold Col.replace at h; exact mem_replaceItem h

theorem Col.replace_dots_mem {col : Col} {old new y : St} (h : y ∈ (col.replace old new).dots) :
    y ∈ col.dots ∨ y = new := by
  unfold Col.replace at h
  simp only [List.mem_append] at h
  rcases h with h | h
  · left
    split at h
    · exact mem_eraseItem h
    · exact h
  · split at h
    · simp at h; exact Or.inr h
    · simp at h

theorem mem_findDot {col : Col} {x : NT} {s : St} (h : s ∈ col.findDot x) : s ∈ col.dots := by
  unfold Col.findDot at h; exact (List.mem_filter.1 h).1

theorem shortcutWalk_ok {c : Cfg} {cols : List Col} {x : NT} {k : Nat}
    (hD : ∀ j s, s ∈ (colAt cols j).dots → Item.ok c j s.item) :
    ∀ (fuel : Nat) (new o r : St), Item.ok c k new.item → o ∈ (colAt cols new.item.origin).dots →
      shortcutWalk cols x fuel new o = some r → Item.ok c k r.item := by
  intro fuel
  induction fuel with
  | zero => intro new o r _ _ h; simp [shortcutWalk] at h
  | succ f ih =>
    intro new o r hnew ho h
    unfold shortcutWalk at h
    split at h
    · cases h; exact hnew
    · have hoo := hD _ _ ho
      have hnew' : Item.ok c k ({ new.item with origin := o.item.origin } : Item) :=
        ⟨hnew.1, hnew.2.1, by have := hoo.2.2; have := hnew.2.2; simp only; omega⟩
      simp only at h
      split at h
      · rename_i o' heq
        have ho' : o' ∈ (colAt cols o.item.origin).dots := by
          apply mem_findDot (x := x)
          rw [heq]; simp
        exact ih ({ item := { new.item with origin := o.item.origin }, kids := o.kids ++ new.kids } : St) o' r hnew' ho' h
      · cases h

/-- invariant of the fold over the beginners -/
structure ShInv (c : Cfg) (cols0 cols : List Col) (k r : Nat) : Prop where
  len : cols.length = cols0.length
  other : ∀ j, j ≠ k → colAt cols j = colAt cols0 j
  dropEq : cols.drop (k + 1) = cols0.drop (k + 1)
  slen : (colAt cols k).states.length = (colAt cols0 k).states.length
  dlen : (colAt cols k).dots.length ≤ (colAt cols0 k).dots.length + r
  okS : ∀ s, s ∈ (colAt cols k).states → Item.ok c k s.item
  okD : ∀ j s, s ∈ (colAt cols j).dots → Item.ok c j s.item

theorem shInv_set {c : Cfg} {cols0 cols : List Col} {k r : Nat} (hi : ShInv c cols0 cols k r) (col' : Col)
    (h1 : col'.states.length = (colAt cols k).states.length)
    (h2 : col'.dots.length ≤ (colAt cols k).dots.length + 1)
    (h3 : ∀ s, s ∈ col'.states → Item.ok c k s.item) (h4 : ∀ s, s ∈ col'.dots → Item.ok c k s.item) :
    ShInv c cols0 (cols.set k col') k (r + 1) := by
  refine ⟨by simp [hi.len], ?_, ?_, ?_, ?_, ?_, ?_⟩
  · intro j hj
    rw [colAt_set]
    have : ¬ (j = k ∧ k < cols.length) := fun h => hj h.1
    simp only [this, ↓reduceIte]
    exact hi.other j hj
  · rw [List.drop_set]; simp [hi.dropEq]
  · rw [colAt_set]
    split
    · rw [h1, hi.slen]
    · exact hi.slen
  · rw [colAt_set]
    split
    · have := hi.dlen; omega
    · have := hi.dlen; omega
  · intro s hs
    rw [colAt_set] at hs
    split at hs
    · exact h3 s hs
    · exact hi.okS s hs
  · intro j s hs
    rw [colAt_set] at hs
    split at hs
    · rename_i h; rw [h.1]; exact h4 s hs
    · exact hi.okD j s hs

theorem shInv_weaken {c : Cfg} {cols0 cols : List Col} {k r : Nat} (hi : ShInv c cols0 cols k r) :
    ShInv c cols0 cols k (r + 1) :=
  ⟨hi.len, hi.other, hi.dropEq, hi.slen, by have := hi.dlen; omega, hi.okS, hi.okD⟩

theorem shInv_one {c : Cfg} {cols0 cols : List Col} {k r : Nat} (x : NT) (hi : ShInv c cols0 cols k r) :
    ShInv c cols0 (shortcutOne cols k x) k (r + 1) := by
  unfold shortcutOne
  simp only
  split
  · exact shInv_weaken hi
  · rename_i cur hcur
    have hcurmem : cur ∈ (colAt cols k).states := List.mem_of_find?_eq_some hcur
    have hcurok := hi.okS cur hcurmem
    split
    · rename_i o ho
      have homem : o ∈ (colAt cols cur.item.origin).dots := by
        apply mem_findDot (x := x); rw [ho]; simp
      split
      · rename_i new hnew
        have hnewok := shortcutWalk_ok (k := k) hi.okD _ cur o new hcurok homem hnew
        apply shInv_set hi
        · exact Col.replace_states_len _ _ _
        · exact Col.replace_dots_len _ _ _
        · intro s hs
          rcases Col.replace_states_mem hs with h | h
          · exact hi.okS s h
          · rw [h]; exact hnewok
        · intro s hs
          rcases Col.replace_dots_mem hs with h | h
          · exact hi.okD k s h
          · rw [h]; exact hnewok
      · exact shInv_weaken hi
    · exact shInv_weaken hi

theorem shInv_fold {c : Cfg} {cols0 : List Col} {k : Nat} (l : List NT) :
    ∀ (cols : List Col) (r : Nat), ShInv c cols0 cols k r →
      ShInv c cols0 (l.foldl (fun cs x => shortcutOne cs k x) cols) k (r + l.length) := by
  induction l with
  | nil => intro cols r h; simpa using h
  | cons x xs ih =>
    intro cols r h
    simp only [List.foldl_cons, List.length_cons]
    have := ih _ _ (shInv_one x h)
    have e : r + 1 + xs.length = r + (xs.length + 1) := by omega
    rw [e] at this; exact this

theorem length_dedupNT_le (l : List NT) : (dedupNT l).length ≤ l.length := by
  induction l with
  | nil => simp [dedupNT]
  | cons x xs ih =>
    simp only [dedupNT, List.length_cons]
    have := List.length_filter_le (fun y => !decide (y = x)) (dedupNT xs)
    omega

theorem length_beginnersOf_le (col : Col) : (beginnersOf col).length ≤ col.states.length := by
  unfold beginnersOf
  exact Nat.le_trans (length_dedupNT_le _) (List.length_filterMap_le _ _)

theorem shInv_shortcut {c : Cfg} {cols : List Col} {k : Nat} (hw : WfC c cols k) :
    ShInv c cols (shortcut cols k) k (colAt cols k).states.length := by
  have h0 : ShInv c cols cols k 0 :=
    ⟨rfl, fun _ _ => rfl, rfl, rfl, by omega, fun s hs => hw.okS k s hs, hw.okD⟩
  have := shInv_fold (c := c) (beginnersOf (colAt cols k)) cols 0 h0
  unfold shortcut
  refine ⟨this.len, this.other, this.dropEq, this.slen, ?_, this.okS, this.okD⟩
  have hb := length_beginnersOf_le (colAt cols k)
  have := this.dlen
  omega

theorem wfc_shortcut {c : Cfg} {cols : List Col} {k : Nat} (hw : WfC c cols k) :
    WfC c (shortcut cols k) (k + 1) := by
  have hi := shInv_shortcut hw
  refine ⟨by rw [hi.len]; exact hw.len, ?_, hi.okD, ?_, ?_, ?_, ?_⟩
  · intro j s hs
    by_cases hj : j = k
    · subst hj; exact hi.okS s hs
    · rw [hi.other j hj] at hs; exact hw.okS j s hs
  · intro j hj
    rw [hi.other j (by omega)]; exact hw.cap j (by omega)
  · intro j hj
    by_cases hjk : j = k
    · subst hjk; rw [hi.slen]; exact hw.states_le j
    · rw [hi.other j hjk]; exact hw.capOld j (by omega)
  · intro j hj
    rw [hi.other j (by omega)]; exact hw.dotsNew j (by omega)
  · intro j hj
    by_cases hjk : j = k
    · subst hjk
      have h1 := hi.dlen
      have h2 := hw.dotsNew j (Nat.le_refl _)
      rw [hi.slen]; omega
    · rw [hi.other j hjk]; exact hw.dotsOld j (by omega)

/-! ### one step of the machine under the core policy -/

/-- what is left of the `complete` calls the running `predict` still has to make: one step to start each,
    then its loop -/
def pendRem (cols : List Col) : List St → Nat
  | [] => 0
  | t :: ts => 2 + frameLen cols t + pendRem cols ts

theorem pendRem_addAt (cols : List Col) (e : Nat) (s : St) (l : List St) :
    pendRem (addAt .core cols e s) l ≤ pendRem cols l + l.length * credit cols e s := by
  induction l with
  | nil => simp [pendRem]
  | cons t ts ih =>
    simp only [pendRem, List.length_cons]
    have := frameLen_addAt cols e s t
    rw [Nat.add_mul]
    omega

theorem pendRem_le (cols : List Col) (L : Nat) (l : List St) (h : ∀ t ∈ l, frameLen cols t ≤ L) :
    pendRem cols l ≤ l.length * (2 + L) := by
  induction l with
  | nil => simp [pendRem]
  | cons t ts ih =>
    simp only [pendRem, List.length_cons]
    have h1 := h t (by simp)
    have h2 := ih (fun x hx => h x (by simp [hx]))
    rw [Nat.add_mul]
    omega

structure Wf (c : Cfg) (m : M) : Prop where
  cols : WfC c m.cols m.k
  frameOk : ∀ t i, m.frame = some (t, i) → Item.ok c m.k t.item
  pendOk : ∀ t, t ∈ m.pending → Item.ok c m.k t.item
  pendLen : m.pending.length ≤ c.U.length

/-- the termination measure: admissible items not yet admitted (weight `A+B`), states not yet
    processed (weight `A`), what is left of the active `complete` loop and of the pending ones, columns left -/
def mu (c : Cfg) (m : M) : Nat :=
  phi c.U c.A c.B m.cols m.k m.idx + frameRem m.cols m.frame + pendRem m.cols m.pending + (c.ncols - m.k)

theorem sym?_lt {it : Item} {y : ESym} (h : it.sym? = some y) : it.dot < it.rhs.length := by
  unfold Item.sym? at h
  exact (List.getElem?_eq_some_iff.1 h).1

theorem dotNT?_sym? {it : Item} {x : NT} (h : it.dotNT? = some x) : ∃ y, it.sym? = some y := by
  unfold Item.dotNT? at h
  cases hs : it.sym? with
  | none => simp [hs] at h
  | some y => exact ⟨y, rfl⟩

theorem ok_next {c : Cfg} {j j' : Nat} {it : Item} {y : ESym} (h : Item.ok c j it) (hy : it.sym? = some y)
    (hj : j ≤ j') : Item.ok c j' it.next := by
  have := sym?_lt hy
  exact ⟨h.1, by simp only [Item.next]; omega, by simp only [Item.next]; have := h.2.2; omega⟩

theorem rules_sub {c : Cfg} {r : CRule} (h : r ∈ c.rules) : r ∈ c.rules' := by
  unfold Cfg.rules'; simp [h]

theorem phi_idx_succ (U : List Item) (A B : Nat) (cols : List Col) (k idx : Nat) (hk : k < cols.length)
    (hidx : idx < (colAt cols k).states.length) :
    phi U A B cols k (idx + 1) + A ≤ phi U A B cols k idx := by
  unfold phi
  rw [List.drop_eq_getElem_cons hk]
  rw [colAt_eq_getElem cols k hk] at hidx
  simp only [potCols, wcur]
  have : cols[k].states.length - idx = (cols[k].states.length - (idx + 1)) + 1 := by omega
  rw [this, Nat.mul_add]; omega

theorem fold_pred {c : Cfg} {k : Nat} (x : NT) (idx : Nat) (alts : List (List ESym))
    (hal : ∀ rhs, rhs ∈ alts → (x, rhs) ∈ c.rules) :
    ∀ cols : List Col, WfC c cols k →
      WfC c (alts.foldl (fun cs rhs => addAt .core cs k
              { item := { lhs := x, rhs := rhs, dot := 0, origin := k }, kids := [] }) cols) k
      ∧ phi c.U c.A c.B (alts.foldl (fun cs rhs => addAt .core cs k
              { item := { lhs := x, rhs := rhs, dot := 0, origin := k }, kids := [] }) cols) k idx
          ≤ phi c.U c.A c.B cols k idx := by
  induction alts with
  | nil => intro cols hw; exact ⟨hw, Nat.le_refl _⟩
  | cons rhs rest ih =>
    intro cols hw
    simp only [List.foldl_cons]
    have hok : Item.ok c k ({ lhs := x, rhs := rhs, dot := 0, origin := k } : Item) :=
      ⟨rules_sub (hal rhs (by simp)), Nat.zero_le _, Nat.le_refl _⟩
    have hw' := wfc_addAt (s := { item := { lhs := x, rhs := rhs, dot := 0, origin := k }, kids := [] })
      hw (Nat.le_refl k) hok
    by_cases hkn : k ≤ c.ncols
    · have hU := ok_mem_U hok hkn
      have hphi := phi_addAt c.U c.A c.B cols k idx k
        { item := { lhs := x, rhs := rhs, dot := 0, origin := k }, kids := [] } (Nat.le_refl k) hU
      obtain ⟨h1, h2⟩ := ih (fun r hr => hal r (by simp [hr])) _ hw'
      exact ⟨h1, by omega⟩
    · -- column beyond the table: `addAt` does nothing
      have hno : addAt .core cols k
          { item := { lhs := x, rhs := rhs, dot := 0, origin := k }, kids := [] } = cols := by
        unfold addAt
        exact List.set_eq_of_length_le (by have := hw.len; omega)
      rw [hno]
      exact ih (fun r hr => hal r (by simp [hr])) _ hw

theorem advance_core (k : Nat) (t s : St) :
    ∃ s', advance .core k t s = some s' ∧ s'.item = s.item.next := by
  unfold advance
  exact ⟨_, rfl, rfl⟩

theorem frameLen_le {c : Cfg} {cols : List Col} {k : Nat} (hw : WfC c cols k) (t : St) :
    frameLen cols t ≤ 2 * c.U.length := by
  unfold frameLen Col.findDot
  exact Nat.le_trans (List.length_filter_le _ _) (hw.dots_le _)

theorem doneOf_length_le (col : Col) (k : Nat) (x : NT) : (doneOf col k x).length ≤ col.states.length := by
  unfold doneOf; exact List.length_filter_le _ _

theorem mem_doneOf {col : Col} {k : Nat} {x : NT} {s : St} (h : s ∈ doneOf col k x) :
    s ∈ col.states ∧ s.item.finished = true := by
  unfold doneOf at h
  obtain ⟨h1, h2⟩ := List.mem_filter.1 h
  simp only [Bool.and_eq_true] at h2
  exact ⟨h1, h2.2⟩

theorem step_core {c : Cfg} (hs : Sane c) (hp : c.policy = .core) {m m' : M} (hw : Wf c m)
    (h : step c m = .next m') : Wf c m' ∧ mu c m' < mu c m := by
  have hlen := hw.cols.len
  have hA : c.A = (c.U.length + 1) * (2 * c.U.length + 3) := rfl
  have hB : c.B = c.U.length + 1 := rfl
  unfold step at h
  split at h
  · cases h
  · rename_i hk
    have hk : m.k < c.ncols := by omega
    have hkl : m.k < m.cols.length := by omega
    split at h
    · -- an active `complete`
      rename_i t j hfr
      have htok := hw.frameOk t j hfr
      split at h
      · -- the loop is over
        rename_i hnone
        cases h
        refine ⟨⟨hw.cols, (by intro t i hh; cases hh), hw.pendOk, hw.pendLen⟩, ?_⟩
        unfold mu
        simp only [hfr, frameRem]
        omega
      · rename_i s hsome
        have hsmem : s ∈ (colAt m.cols t.item.origin).findDot t.item.lhs := List.mem_of_getElem? hsome
        have hjlt : j < frameLen m.cols t := by
          unfold frameLen
          exact (List.getElem?_eq_some_iff.1 hsome).1
        have hsok := hw.cols.okD _ _ (mem_findDot hsmem)
        have hdot : s.item.dotNT? = some t.item.lhs := by
          unfold Col.findDot at hsmem
          have := (List.mem_filter.1 hsmem).2
          simpa using this
        obtain ⟨y, hy⟩ := dotNT?_sym? hdot
        have hs'ok : Item.ok c m.k s.item.next := ok_next hsok hy htok.2.2
        rw [hp] at h
        obtain ⟨s', hadv, hitem⟩ := advance_core m.k t s
        rw [hadv] at h
        simp only at h
        cases h
        have hs'ok' : Item.ok c m.k s'.item := by rw [hitem]; exact hs'ok
        refine ⟨⟨wfc_addAt hw.cols (Nat.le_refl _) hs'ok', ?_, hw.pendOk, hw.pendLen⟩, ?_⟩
        · intro t' i hh
          simp only [Option.some.injEq, Prod.mk.injEq] at hh
          rw [← hh.1]; exact htok
        · unfold mu
          simp only [hfr, frameRem]
          have h1 := phi_addAt c.U c.A c.B m.cols m.k m.idx m.k s' (Nat.le_refl _) (ok_mem_U hs'ok' (by omega))
          have h2 := frameLen_addAt m.cols m.k s' t
          have h3 := pendRem_addAt m.cols m.k s' m.pending
          have h4 : m.pending.length * credit m.cols m.k s' ≤ c.U.length * credit m.cols m.k s' :=
            Nat.mul_le_mul_right _ hw.pendLen
          have h5 : c.B * credit m.cols m.k s' = c.U.length * credit m.cols m.k s' + credit m.cols m.k s' := by
            rw [hB, Nat.add_mul]; simp
          omega
    · rename_i hfr
      split at h
      · -- the next pending `complete` of `predict`
        rename_i t rest hpend
        cases h
        have hcy : cyclicAt c.policy m.k t = false := by rw [hp]; rfl
        simp only [hcy, Bool.false_eq_true, if_false]
        have hpl := hw.pendLen
        rw [hpend] at hpl
        simp only [List.length_cons] at hpl
        have hpo := hw.pendOk
        rw [hpend] at hpo
        refine ⟨⟨hw.cols, ?_, (fun t' ht' => hpo t' (List.mem_cons_of_mem _ ht')), (by simp only; omega)⟩, ?_⟩
        · intro t' i hh
          simp only [Option.some.injEq, Prod.mk.injEq] at hh
          rw [← hh.1]; exact hpo t List.mem_cons_self
        · unfold mu
          simp only [hfr, hpend, frameRem, pendRem]
          omega
      · rename_i hpend
        split at h
        · -- end of the column
          cases h
          refine ⟨⟨wfc_shortcut hw.cols, (by intro t i hh; simp [hfr] at hh), (by intro t hh; simp [hpend] at hh), (by simp [hpend])⟩, ?_⟩
          unfold mu
          simp only [hfr, hpend, frameRem, pendRem]
          have hi := shInv_shortcut hw.cols
          have e1 : phi c.U c.A c.B (shortcut m.cols m.k) (m.k + 1) 0
              = ((m.cols.drop (m.k + 1)).map (wcol c.U c.A c.B)).sum := by
            unfold phi; rw [hi.dropEq, potCols_zero]
          have e2 : phi c.U c.A c.B m.cols m.k m.idx
              = wcur c.U c.A c.B m.idx m.cols[m.k] + ((m.cols.drop (m.k + 1)).map (wcol c.U c.A c.B)).sum := by
            unfold phi; rw [List.drop_eq_getElem_cons hkl]; rfl
          rw [e1, e2]; omega
        · rename_i s hsome
          have hsmem : s ∈ (colAt m.cols m.k).states := List.mem_of_getElem? hsome
          have hidx : m.idx < (colAt m.cols m.k).states.length := (List.getElem?_eq_some_iff.1 hsome).1
          have hsok := hw.cols.okS _ _ hsmem
          have hstep := phi_idx_succ c.U c.A c.B m.cols m.k m.idx hkl hidx
          have hAge : 2 * c.U.length + 3 ≤ c.A := by
            rw [hA]; exact Nat.le_mul_of_pos_left _ (by omega)
          split at h
          · -- finished: open the frame
            cases h
            have hcy : cyclicAt c.policy m.k s = false := by rw [hp]; rfl
            simp only [hcy, Bool.false_eq_true, if_false]
            refine ⟨⟨hw.cols, ?_, (by intro t hh; simp [hpend] at hh), (by simp [hpend])⟩, ?_⟩
            · intro t i hh
              simp only [Option.some.injEq, Prod.mk.injEq] at hh
              rw [← hh.1]; exact hsok
            · unfold mu
              simp only [hfr, hpend, frameRem, pendRem]
              have hL := frameLen_le hw.cols s
              omega
          · split at h
            · cases h
              refine ⟨⟨hw.cols, (by intro t i hh; simp [hfr] at hh), (by intro t hh; simp [hpend] at hh), (by simp [hpend])⟩, ?_⟩
              unfold mu; simp only [hfr, hpend, frameRem, pendRem]; omega
            · -- predict
              rename_i x a r hsym
              cases h
              have hal : ∀ rhs, rhs ∈ c.pred m.k x → (x, rhs) ∈ c.rules := fun rhs hr => hs.pred _ _ _ hr
              rw [hp]
              obtain ⟨h1, h2⟩ := fold_pred (c := c) (k := m.k) x (m.idx + 1) (c.pred m.k x) hal m.cols hw.cols
              generalize hcols : (c.pred m.k x).foldl (fun cs rhs => addAt .core cs m.k
                  { item := { lhs := x, rhs := rhs, dot := 0, origin := m.k }, kids := [] }) m.cols = cols' at h1 h2 ⊢
              have hdl : (doneOf (colAt cols' m.k) m.k x).length ≤ c.U.length :=
                Nat.le_trans (doneOf_length_le _ _ _) (h1.states_le _)
              have hpo' : ∀ t, t ∈ (if c.predDone then doneOf (colAt cols' m.k) m.k x else []) → Item.ok c m.k t.item := by
                intro t ht
                split at ht
                · exact h1.okS _ _ (mem_doneOf ht).1
                · cases ht
              have hpl : (if c.predDone then doneOf (colAt cols' m.k) m.k x else []).length ≤ c.U.length := by
                split
                · exact hdl
                · simp
              refine ⟨⟨h1, (by intro t i hh; simp [hfr] at hh), hpo', hpl⟩, ?_⟩
              unfold mu; simp only [hfr, frameRem]
              have hpr := pendRem_le cols' (2 * c.U.length)
                (if c.predDone then doneOf (colAt cols' m.k) m.k x else []) (fun t _ => frameLen_le h1 t)
              have hmul : (if c.predDone then doneOf (colAt cols' m.k) m.k x else []).length * (2 + 2 * c.U.length)
                  ≤ c.U.length * (2 + 2 * c.U.length) := Nat.mul_le_mul_right _ hpl
              have hA2 : c.U.length * (2 + 2 * c.U.length) + 1 ≤ c.A := by
                rw [hA, Nat.add_mul]
                have : c.U.length * (2 + 2 * c.U.length) ≤ c.U.length * (2 * c.U.length + 3) :=
                  Nat.mul_le_mul_left _ (by omega)
                omega
              simp only [hpend, pendRem] at *
              omega
            · -- scan
              rename_i term hsym
              split at h
              · cases h
                refine ⟨⟨hw.cols, (by intro t i hh; simp [hfr] at hh), (by intro t hh; simp [hpend] at hh), (by simp [hpend])⟩, ?_⟩
                unfold mu; simp only [hfr, hpend, frameRem, pendRem]; omega
              · rename_i e l hscan
                split at h
                · cases h
                · rename_i he
                  cases h
                  have hke := hs.scan _ _ _ _ hscan
                  have hok' : Item.ok c e s.item.next := ok_next hsok hsym hke
                  rw [hp]
                  refine ⟨⟨wfc_addAt hw.cols hke hok', (by intro t i hh; simp [hfr] at hh), (by intro t hh; simp [hpend] at hh), (by simp [hpend])⟩, ?_⟩
                  unfold mu; simp only [hfr, hpend, frameRem, pendRem]
                  have := phi_addAt c.U c.A c.B m.cols m.k (m.idx + 1) e
                    { item := s.item.next, kids := s.kids ++ [PT.leaf l], cover := s.cover } hke
                    (ok_mem_U hok' (by omega))
                  omega

end FV.Earley
