/-
Helper lemmas for the Earley model (E3): the finite core item space, well-formedness of the machine,
the termination measure of the core policy.
-/
import Model.Earley
namespace FV.Earley

/-! ### the core item space -/

/-- every core item column `j` can hold: the two `<*start*>` items and, per compiled rule, every dot
    position and every origin `≤ j` -/
def itemSpace (c : Cfg) (j : Nat) : List Item :=
  startItem c.start :: (startItem c.start).next ::
    c.rules.flatMap (fun (r : CRule) =>
      (List.range (r.2.length + 1)).flatMap (fun d =>
        (List.range (j + 1)).map (fun o => ({ lhs := r.1, rhs := r.2, dot := d, origin := o } : Item))))

def Item.ok (c : Cfg) (j : Nat) (it : Item) : Prop :=
  (it = startItem c.start ∨ it = (startItem c.start).next) ∨
    ((it.lhs, it.rhs) ∈ c.rules ∧ it.dot ≤ it.rhs.length ∧ it.origin ≤ j)

theorem mem_itemSpace {c : Cfg} {j : Nat} {it : Item} : it ∈ itemSpace c j ↔ Item.ok c j it := by
  unfold itemSpace Item.ok
  simp only [List.mem_cons, List.mem_flatMap, List.mem_map, List.mem_range]
  constructor
  · rintro (h | h | ⟨r, hr, d, hd, o, ho, rfl⟩)
    · exact Or.inl (Or.inl h)
    · exact Or.inl (Or.inr h)
    · exact Or.inr ⟨hr, by simp; omega, by simp; omega⟩
  · rintro ((h | h) | ⟨hr, hd, ho⟩)
    · exact Or.inl h
    · exact Or.inr (Or.inl h)
    · exact Or.inr (Or.inr ⟨(it.lhs, it.rhs), hr, it.dot, by simp only; omega, it.origin, by omega, rfl⟩)

theorem Item.ok_mono {c : Cfg} {j j' : Nat} {it : Item} (h : Item.ok c j it) (hj : j ≤ j') :
    Item.ok c j' it := by
  rcases h with h | ⟨h1, h2, h3⟩
  · exact Or.inl h
  · exact Or.inr ⟨h1, h2, by omega⟩

/-- `Σ (|rhs| + 1)` over the rules -/
def dotSlots (rules : List CRule) : Nat := (rules.map (fun (r : CRule) => r.2.length + 1)).sum

theorem length_flatMap_const {α β : Type} (l : List α) (f : α → List β) (n : Nat)
    (h : ∀ a ∈ l, (f a).length = n) : (l.flatMap f).length = l.length * n := by
  induction l with
  | nil => simp
  | cons a as ih =>
    simp only [List.flatMap_cons, List.length_append, List.length_cons]
    rw [h a (by simp), ih (fun b hb => h b (by simp [hb]))]
    rw [Nat.add_mul]; omega

theorem itemSpace_length (c : Cfg) (j : Nat) :
    (itemSpace c j).length = 2 + dotSlots c.rules * (j + 1) := by
  unfold itemSpace dotSlots
  simp only [List.length_cons]
  have : ∀ rules : List CRule,
      (rules.flatMap (fun (r : CRule) =>
        (List.range (r.2.length + 1)).flatMap (fun d =>
          (List.range (j + 1)).map (fun o => ({ lhs := r.1, rhs := r.2, dot := d, origin := o } : Item))))).length
        = (rules.map (fun (r : CRule) => r.2.length + 1)).sum * (j + 1) := by
    intro rules
    induction rules with
    | nil => simp
    | cons r rs ih =>
      simp only [List.flatMap_cons, List.length_append, List.map_cons, List.sum_cons, ih]
      rw [length_flatMap_const _ _ (j + 1) (by intro d _; simp)]
      simp [Nat.add_mul]
  rw [this]; omega

/-- longest right-hand side -/
def maxRhs (rules : List CRule) : Nat := (rules.map (fun (r : CRule) => r.2.length)).foldl max 0

theorem le_foldl_max (l : List Nat) (a x : Nat) (h : x ≤ a ∨ x ∈ l) : x ≤ l.foldl max a := by
  induction l generalizing a with
  | nil => rcases h with h | h; exact h; simp at h
  | cons b bs ih =>
    simp only [List.foldl_cons]
    apply ih
    rcases h with h | h
    · left; exact Nat.le_trans h (Nat.le_max_left _ _)
    · simp only [List.mem_cons] at h
      rcases h with h | h
      · left; subst h; exact Nat.le_max_right _ _
      · right; exact h

theorem dotSlots_le (rules : List CRule) : dotSlots rules ≤ rules.length * (maxRhs rules + 1) := by
  unfold dotSlots
  have : ∀ (l : List CRule) (m : Nat), (∀ r ∈ l, r.2.length ≤ m) →
      (l.map (fun (r : CRule) => r.2.length + 1)).sum ≤ l.length * (m + 1) := by
    intro l m h
    induction l with
    | nil => simp
    | cons r rs ih =>
      simp only [List.map_cons, List.sum_cons, List.length_cons]
      have h1 := h r (by simp)
      have h2 := ih (fun x hx => h x (by simp [hx]))
      rw [Nat.add_mul]; omega
  apply this
  intro r hr
  unfold maxRhs
  apply le_foldl_max
  right
  simp only [List.mem_map]
  exact ⟨r, hr, rfl⟩

/-! ### counting the core items a column does not hold yet -/

/-- is the core item in the column? (`Column.add`'s test under `Policy.core`) -/
def present (states : List St) (u : Item) : Bool := states.any (fun x => decide (x.item = u))

/-- number of admissible core items not yet in the column -/
def free (U : List Item) (states : List St) : Nat := (U.filter (fun u => !present states u)).length

theorem present_append (states : List St) (s : St) (u : Item) :
    present (states ++ [s]) u = (present states u || decide (s.item = u)) := by
  simp [present, List.any_append]

theorem filter_length_mono {α : Type} (p q : α → Bool) (U : List α) (h : ∀ u ∈ U, q u = true → p u = true) :
    (U.filter q).length ≤ (U.filter p).length := by
  induction U with
  | nil => simp
  | cons u us ih =>
    have ih' := ih (fun x hx => h x (by simp [hx]))
    have hu := h u (by simp)
    simp only [List.filter_cons]
    cases hq : q u <;> cases hp : p u <;> simp_all <;> omega

theorem filter_length_strict {α : Type} (p q : α → Bool) (U : List α) (h : ∀ u ∈ U, q u = true → p u = true)
    (u0 : α) (h0 : u0 ∈ U) (hp0 : p u0 = true) (hq0 : q u0 = false) :
    (U.filter q).length < (U.filter p).length := by
  induction U with
  | nil => simp at h0
  | cons u us ih =>
    have hmono := filter_length_mono p q us (fun x hx => h x (by simp [hx]))
    have hu := h u (by simp)
    simp only [List.filter_cons]
    simp only [List.mem_cons] at h0
    rcases h0 with h0 | h0
    · subst h0
      simp [hp0, hq0]; omega
    · have ih' := ih (fun x hx => h x (by simp [hx])) h0
      cases hq : q u <;> cases hp : p u <;> simp_all <;> omega

theorem free_append_le (U : List Item) (states : List St) (s : St) :
    free U (states ++ [s]) ≤ free U states := by
  unfold free
  apply filter_length_mono
  intro u _ hq
  rw [present_append] at hq
  cases h : present states u <;> simp_all

theorem free_append_lt (U : List Item) (states : List St) (s : St) (hU : s.item ∈ U)
    (hn : present states s.item = false) : free U (states ++ [s]) < free U states := by
  unfold free
  apply filter_length_strict _ _ U _ s.item hU
  · simp [hn]
  · rw [present_append]; simp
  · intro u _ hq
    rw [present_append] at hq
    cases h : present states u <;> simp_all

theorem free_le_length (U : List Item) (states : List St) : free U states ≤ U.length := by
  unfold free; exact List.length_filter_le _ _

theorem free_nil (U : List Item) : free U [] = U.length := by
  unfold free present; simp

/-! ### `Column.add` under the core policy -/

theorem any_dup_core (states : List St) (s : St) :
    states.any (fun x => St.dup .core x s) = present states s.item := by
  unfold present St.dup; rfl

theorem Col.add_states_core (col : Col) (s : St) :
    (Col.add .core col s).states = if present col.states s.item then col.states else col.states ++ [s] := by
  unfold Col.add
  rw [any_dup_core]
  split <;> simp

theorem Col.add_states_mem {p : Policy} {col : Col} {s x : St} (h : x ∈ (Col.add p col s).states) :
    x ∈ col.states ∨ x = s := by
  unfold Col.add at h
  split at h
  · exact Or.inl h
  · simp only [List.mem_append, List.mem_singleton] at h; exact h

theorem Col.add_dots_mem {p : Policy} {col : Col} {s x : St} (h : x ∈ (Col.add p col s).dots) :
    x ∈ col.dots ∨ x = s := by
  unfold Col.add at h
  split at h
  · exact Or.inl h
  · simp only at h
    split at h
    · simp only [List.mem_append, List.mem_singleton] at h; exact h
    · exact Or.inl h

/-- admission keeps `dots` no longer than `states` -/
theorem Col.add_dots_len {p : Policy} {col : Col} {s : St} (h : col.dots.length ≤ col.states.length) :
    (Col.add p col s).dots.length ≤ (Col.add p col s).states.length := by
  unfold Col.add
  split
  · exact h
  · simp only
    split <;> simp <;> omega

/-! ### columns of the chart -/

theorem colAt_set (cols : List Col) (j i : Nat) (x : Col) :
    colAt (cols.set j x) i = if i = j ∧ j < cols.length then x else colAt cols i := by
  unfold colAt
  simp only [List.getD_eq_getElem?_getD, List.getElem?_set]
  by_cases h : j = i
  · subst h
    by_cases h2 : j < cols.length
    · simp [h2]
    · simp [h2, List.getElem?_eq_none (Nat.le_of_not_lt h2)]
  · have : ¬ (i = j ∧ j < cols.length) := fun hh => h hh.1.symm
    simp [h, this]

theorem colAt_addAt (p : Policy) (cols : List Col) (j i : Nat) (s : St) :
    colAt (addAt p cols j s) i = if i = j ∧ j < cols.length then Col.add p (colAt cols j) s else colAt cols i := by
  unfold addAt; exact colAt_set _ _ _ _

theorem length_addAt (p : Policy) (cols : List Col) (j : Nat) (s : St) :
    (addAt p cols j s).length = cols.length := by
  unfold addAt; simp

theorem colAt_eq_getElem (cols : List Col) (j : Nat) (h : j < cols.length) : colAt cols j = cols[j] := by
  unfold colAt; simp [List.getD_eq_getElem?_getD, h]

theorem colAt_out (cols : List Col) (j : Nat) (h : cols.length ≤ j) : colAt cols j = {} := by
  unfold colAt; simp [List.getD_eq_getElem?_getD, List.getElem?_eq_none h]

theorem sum_map_set (f : Col → Nat) (l : List Col) (i : Nat) (x : Col) (h : i < l.length) :
    ((l.set i x).map f).sum + f (l[i]) = (l.map f).sum + f x := by
  induction l generalizing i with
  | nil => simp at h
  | cons a as ih =>
    cases i with
    | zero => simp; omega
    | succ i =>
      simp only [List.set_cons_succ, List.map_cons, List.sum_cons, List.getElem_cons_succ]
      have := ih i (by simpa using h)
      omega

/-! ### the potential of the columns still to be processed -/

/-- weight of a column that has not been started: every missing item may still be admitted
    (`A + 1` each) and every state it holds still has to be processed (`A` each) -/
def wcol (U : List Item) (A : Nat) (col : Col) : Nat :=
  (A + 1) * free U col.states + A * col.states.length

/-- weight of the current column: `idx` of its states are done -/
def wcur (U : List Item) (A idx : Nat) (col : Col) : Nat :=
  (A + 1) * free U col.states + A * (col.states.length - idx)

/-- potential of `cols.drop k` -/
def potCols (U : List Item) (A idx : Nat) : List Col → Nat
  | [] => 0
  | cur :: fut => wcur U A idx cur + (fut.map (wcol U A)).sum

theorem wcur_zero (U : List Item) (A : Nat) (col : Col) : wcur U A 0 col = wcol U A col := by
  unfold wcur wcol; simp

theorem potCols_zero (U : List Item) (A : Nat) (l : List Col) :
    potCols U A 0 l = (l.map (wcol U A)).sum := by
  cases l with
  | nil => rfl
  | cons a as => simp [potCols, wcur_zero]

/-- was the state really appended? -/
def admitted (col : Col) (s : St) : Nat := if present col.states s.item then 0 else 1

theorem wcol_add (U : List Item) (A : Nat) (col : Col) (s : St) (hU : s.item ∈ U) :
    wcol U A (Col.add .core col s) + admitted col s ≤ wcol U A col := by
  unfold wcol admitted
  rw [Col.add_states_core]
  cases h : present col.states s.item
  · have hlt := free_append_lt U col.states s hU h
    simp only [Bool.false_eq_true, ↓reduceIte, List.length_append, List.length_singleton]
    have : (A + 1) * free U (col.states ++ [s]) + (A + 1) ≤ (A + 1) * free U col.states := by
      have : free U (col.states ++ [s]) + 1 ≤ free U col.states := hlt
      calc (A + 1) * free U (col.states ++ [s]) + (A + 1)
          = (A + 1) * (free U (col.states ++ [s]) + 1) := by rw [Nat.mul_add]; simp
        _ ≤ (A + 1) * free U col.states := Nat.mul_le_mul_left _ this
    rw [Nat.mul_add]; omega
  · simp

theorem wcur_add (U : List Item) (A idx : Nat) (col : Col) (s : St) (hU : s.item ∈ U) :
    wcur U A idx (Col.add .core col s) + admitted col s ≤ wcur U A idx col := by
  unfold wcur admitted
  rw [Col.add_states_core]
  cases h : present col.states s.item
  · have hlt := free_append_lt U col.states s hU h
    simp only [Bool.false_eq_true, ↓reduceIte, List.length_append, List.length_singleton]
    have h1 : (A + 1) * free U (col.states ++ [s]) + (A + 1) ≤ (A + 1) * free U col.states := by
      have : free U (col.states ++ [s]) + 1 ≤ free U col.states := hlt
      calc (A + 1) * free U (col.states ++ [s]) + (A + 1)
          = (A + 1) * (free U (col.states ++ [s]) + 1) := by rw [Nat.mul_add]; simp
        _ ≤ (A + 1) * free U col.states := Nat.mul_le_mul_left _ this
    have h2 : A * (col.states.length + 1 - idx) ≤ A * (col.states.length - idx) + A := by
      have : col.states.length + 1 - idx ≤ (col.states.length - idx) + 1 := by omega
      calc A * (col.states.length + 1 - idx) ≤ A * ((col.states.length - idx) + 1) := Nat.mul_le_mul_left _ this
        _ = A * (col.states.length - idx) + A := by rw [Nat.mul_add]; simp
    omega
  · simp

/-- the potential of the columns from `k` on -/
def phi (U : List Item) (A : Nat) (cols : List Col) (k idx : Nat) : Nat := potCols U A idx (cols.drop k)

/-- credit of an admission attempt into column `e` -/
def credit (cols : List Col) (e : Nat) (s : St) : Nat :=
  if e < cols.length then admitted (colAt cols e) s else 0

theorem phi_addAt (U : List Item) (A : Nat) (cols : List Col) (k idx e : Nat) (s : St)
    (hke : k ≤ e) (hU : s.item ∈ U) :
    phi U A (addAt .core cols e s) k idx + credit cols e s ≤ phi U A cols k idx := by
  unfold phi credit addAt
  by_cases he : e < cols.length
  · simp only [he, ↓reduceIte]
    rw [List.drop_set]
    have hnot : ¬ e < k := by omega
    simp only [hnot, ↓reduceIte]
    have hk : k < cols.length := by omega
    rw [List.drop_eq_getElem_cons hk]
    rw [colAt_eq_getElem cols e he]
    by_cases hek : e = k
    · subst hek
      simp only [Nat.sub_self, List.set_cons_zero, potCols]
      have := wcur_add U A idx cols[e] s hU
      omega
    · obtain ⟨i, hi⟩ : ∃ i, e - k = i + 1 := ⟨e - k - 1, by omega⟩
      rw [hi]
      simp only [List.set_cons_succ, potCols]
      have hil : i < (cols.drop (k + 1)).length := by simp; omega
      have hsum := sum_map_set (wcol U A) (cols.drop (k + 1)) i (Col.add .core cols[e] s) hil
      have hget : (cols.drop (k + 1))[i] = cols[e] := by
        simp only [List.getElem_drop]
        congr 1; omega
      rw [hget] at hsum
      have := wcol_add U A cols[e] s hU
      omega
  · simp only [he, ↓reduceIte]
    rw [List.set_eq_of_length_le (Nat.le_of_not_lt he)]
    omega

end FV.Earley
