/-
C06, the covering cut bounds the chart — part 2: the invariant of the machine under the admission rule of the code
(`Policy.acyclic`: duplicate ⇔ same item and same children, `complete` cut by the covering sets).

`TInv c m`: every state of column `j` has an item of the core item space and its children in the level
`K c (lvl c m.k j s)` (`Proofs/EarleyBoundK.lean`) — `base c j + lr c j s` for the columns still being built,
`base c m.k` for the finished ones —, the states of a column being built are pairwise different under the admission
test, the finished columns are no longer than `chartBound c`; the completed state of an active `complete` call is
not cut (its nonterminal is not in its covering set).  `step_inv`: every step keeps it (scan, predict, complete —
also the completions that end `predict` — and the repetition shortcut).  `tinv_bounded`: it bounds every column by
`chartBound c`.  `run_acyclic_finishes`: hence the run stops within `stepBoundN c (chartBound c) + 1` steps.
-/
import Proofs.EarleyBoundK
import Proofs.EarleyTerm
namespace FV.Earley

/-- level of the children of state `s` of column `j` while column `k` is being built -/
def lvl (c : Cfg) (k j : Nat) (s : St) : Nat := if j < k then base c k else base c j + lr c j s

structure PS (c : Cfg) (k j : Nat) (s : St) : Prop where
  ok : Item.ok c j s.item
  kid : s.kids ∈ K c (lvl c k j s)

structure ChartInv (c : Cfg) (cols : List Col) (k : Nat) : Prop where
  len : cols.length = c.ncols
  stS : ∀ j s, s ∈ (colAt cols j).states → PS c k j s
  stD : ∀ j s, s ∈ (colAt cols j).dots → PS c k j s
  nd : ∀ j, k ≤ j → (colAt cols j).states.Pairwise (fun a b => St.dup .acyclic a b = false)
  capOld : ∀ j, j < k → (colAt cols j).states.length ≤ chartBound c

theorem lvl_active {c : Cfg} {k j : Nat} (s : St) (h : k ≤ j) : lvl c k j s = base c j + lr c j s := by
  unfold lvl
  have : ¬ j < k := by omega
  simp [this]

theorem lvl_old {c : Cfg} {k j : Nat} (s : St) (h : j < k) : lvl c k j s = base c k := by
  unfold lvl; simp [h]

/-- the children of a state of a column being built lie below the level the next column starts at -/
theorem ps_top {c : Cfg} {k j : Nat} {s : St} (h : PS c k j s) (hkj : k ≤ j) (hj : j < c.ncols) :
    s.kids ∈ K c (base c j + RR c) := by
  have := h.kid
  rw [lvl_active s hkj] at this
  exact K_mono this (by have := lr_lt h.ok hj; omega)

theorem ps_step {c : Cfg} {k j : Nat} {s : St} (h : PS c k j s) (hj : j ≠ k) : PS c (k + 1) j s := by
  refine ⟨h.ok, ?_⟩
  have := h.kid
  by_cases hjk : j < k
  · rw [lvl_old s hjk] at this
    rw [lvl_old s (by omega)]
    exact K_mono this (base_mono c (by omega))
  · rw [lvl_active s (by omega)] at this
    rw [lvl_active s (by omega)]
    exact this

/-! ### admission -/

theorem Col.add_nd (col : Col) (s : St) (h : col.states.Pairwise (fun a b => St.dup .acyclic a b = false)) :
    (Col.add .acyclic col s).states.Pairwise (fun a b => St.dup .acyclic a b = false) := by
  unfold Col.add
  split
  · exact h
  · rename_i hany
    simp only
    rw [List.pairwise_append]
    refine ⟨h, by simp, ?_⟩
    intro a ha b hb
    simp only [List.mem_singleton] at hb
    subst hb
    cases hd : St.dup .acyclic a b with
    | false => rfl
    | true => exact absurd (List.any_eq_true.2 ⟨a, ha, hd⟩) hany

theorem chartInv_addAt {c : Cfg} {cols : List Col} {k e : Nat} {s : St} (hw : ChartInv c cols k) (hke : k ≤ e)
    (hps : PS c k e s) : ChartInv c (addAt .acyclic cols e s) k := by
  by_cases he : e < cols.length
  · refine ⟨by rw [length_addAt]; exact hw.len, ?_, ?_, ?_, ?_⟩
    · intro j x hx
      rw [colAt_addAt] at hx
      split at hx
      · rename_i hj
        rcases Col.add_states_mem hx with h | h
        · rw [hj.1]; exact hw.stS e x h
        · rw [hj.1, h]; exact hps
      · exact hw.stS j x hx
    · intro j x hx
      rw [colAt_addAt] at hx
      split at hx
      · rename_i hj
        rcases Col.add_dots_mem hx with h | h
        · rw [hj.1]; exact hw.stD e x h
        · rw [hj.1, h]; exact hps
      · exact hw.stD j x hx
    · intro j hj
      rw [colAt_addAt]
      split
      · exact Col.add_nd _ _ (hw.nd e hke)
      · exact hw.nd j hj
    · intro j hj
      rw [colAt_addAt]
      split
      · rename_i h; omega
      · exact hw.capOld j hj
  · have : addAt .acyclic cols e s = cols := by
      unfold addAt; exact List.set_eq_of_length_le (Nat.le_of_not_lt he)
    rw [this]; exact hw

theorem mem_states_lt {cols : List Col} {j : Nat} {s : St} (h : s ∈ (colAt cols j).states) : j < cols.length := by
  apply Classical.byContradiction
  intro hn
  rw [colAt_out cols j (by omega)] at h
  cases h

/-- a column being built is no longer than the capacity of the level below the next column -/
theorem col_len_active {c : Cfg} {cols : List Col} {k j : Nat} (hw : ChartInv c cols k) (hkj : k ≤ j) :
    (colAt cols j).states.length ≤ colCap c (base c j + RR c) := by
  by_cases hj : j < cols.length
  · have hjn : j < c.ncols := by have := hw.len; omega
    apply length_le_colCap _ (hw.nd j hkj)
    intro s hs
    have hps := hw.stS j s hs
    exact ⟨ok_mem_U hps.ok (by omega), ps_top hps hkj hjn⟩
  · rw [colAt_out cols j (by omega)]; simp

/-- **the chart is bounded** -/
theorem chartInv_bounded {c : Cfg} {cols : List Col} {k : Nat} (hw : ChartInv c cols k) (j : Nat) :
    (colAt cols j).states.length ≤ chartBound c := by
  by_cases hjk : j < k
  · exact hw.capOld j hjk
  · by_cases hj : j < cols.length
    · have hjn : j < c.ncols := by have := hw.len; omega
      apply Nat.le_trans (col_len_active hw (by omega))
      unfold chartBound
      apply colCap_mono
      exact Nat.le_trans (base_succ_ge c j) (base_mono c (by omega))
    · rw [colAt_out cols j (by omega)]; simp

/-! ### complete -/

theorem dotNT?_sym?' {it : Item} {x : NT} (h : it.dotNT? = some x) : ∃ a r, it.sym? = some (.n x a r) := by
  unfold Item.dotNT? at h
  cases hs : it.sym? with
  | none => simp [hs] at h
  | some y =>
    cases y with
    | t _ => simp [hs] at h
    | n y a r =>
      simp only [hs, Option.some.injEq] at h
      subst h
      exact ⟨a, r, rfl⟩

theorem mem_paramList' {c : Cfg} {j : Nat} {it : Item} {x : NT} {a r : Option String} (h : Item.ok c j it)
    (hs : it.sym? = some (.n x a r)) : (a, r) ∈ paramList c := by
  have := mem_paramList h
  rw [hs] at this
  exact this

/-- the two states a completion combines rank below the new state: the completed one because its nonterminal is
    not in its own covering set (it was not cut) but is in the new one's, or because it starts later; the advanced
    one because its dot is smaller and its covering set no larger -/
theorem rank_advance {c : Cfg} {k : Nat} {t s s' : St} (htok : Item.ok c k t.item)
    (hsok : Item.ok c t.item.origin s.item) (hcy : t.item.lhs ∉ ecover t k)
    (ho : s'.item.origin = s.item.origin) (hd : s'.item.dot = s.item.dot + 1)
    (hcov : s'.cover = if s.item.origin = t.item.origin then
        some (k, t.item.lhs :: (ecover t k ++ (if t.item.origin = k then ecover s k else []))) else s.cover) :
    lr c k t < lr c k s' ∧ (t.item.origin = k → lr c k s < lr c k s') := by
  have hec : ecover s' k = if s.item.origin = t.item.origin then
      t.item.lhs :: (ecover t k ++ (if t.item.origin = k then ecover s k else [])) else ecover s k := by
    by_cases hA : s.item.origin = t.item.origin
    · rw [if_pos hA] at hcov ⊢
      unfold ecover coverAt at hcov ⊢
      rw [hcov]
      simp
    · rw [if_neg hA] at hcov ⊢
      unfold ecover coverAt
      rw [hcov]
  have hdt : t.item.dot < DD c + 1 := by have := ok_dot_le htok; omega
  have htk : t.item.origin ≤ k := htok.2.2
  have hso : s.item.origin ≤ t.item.origin := hsok.2.2
  unfold lr
  rw [ho, hd, hec]
  by_cases hA : s.item.origin = t.item.origin
  · simp only [hA, ↓reduceIte]
    constructor
    · apply enc_lt_of_snd _ _ _ _ _ _ _ hdt
      apply covL_strict c _ t.item.lhs (mem_ntList htok) hcy (by simp)
      intro x hx
      simp [hx]
    · intro hp
      simp only [hp, ↓reduceIte]
      have := enc_le_snd (k - k) (NN c + 1) (DD c + 1) (covL c (ecover s k))
        (covL c (t.item.lhs :: (ecover t k ++ ecover s k))) (covL_mono c (by intro x hx; simp [hx]))
      omega
  · simp only [hA, ↓reduceIte]
    constructor
    · apply enc_lt_of_fst _ _ _ _ _ _ _ _ _ hdt
      all_goals (have := covL_le c (ecover t k); omega)
    · intro _; omega

theorem advance_ps {c : Cfg} {k : Nat} {t s s' : St} (ht : PS c k k t) (hcy : cyclicAt .acyclic k t = false)
    (hs : PS c k t.item.origin s) (hdot : s.item.dotNT? = some t.item.lhs)
    (h : advance .acyclic k t s = some s') : PS c k k s' := by
  have htok := ht.ok
  have hsok := hs.ok
  obtain ⟨a, r, hsym⟩ := dotNT?_sym?' hdot
  have hcy' : t.item.lhs ∉ ecover t k := by
    unfold cyclicAt at hcy
    unfold ecover
    simpa using hcy
  unfold advance at h
  simp only [hsym, Option.some.injEq] at h
  have hrank := rank_advance (c := c) (k := k) (t := t) (s := s) (s' := s') htok hsok hcy'
    (by rw [← h]; rfl) (by rw [← h]; rfl) (by rw [← h]; rfl)
  obtain ⟨hrt, hrs⟩ := hrank
  obtain ⟨n, hn⟩ : ∃ n, base c k + lr c k s' = n + 1 := ⟨base c k + lr c k s' - 1, by omega⟩
  have hT : t.kids ∈ K c n := K_mono ht.kid (by rw [lvl_active t (Nat.le_refl k)]; omega)
  have hS : s.kids ∈ K c n := by
    apply K_mono hs.kid
    by_cases hp : t.item.origin < k
    · rw [lvl_old s hp]; omega
    · have hpk : t.item.origin = k := by have := htok.2.2; omega
      rw [hpk, lvl_active s (Nat.le_refl k)]
      have := hrs hpk
      omega
  refine ⟨?_, ?_⟩
  · rw [← h]; exact ok_next hsok hsym htok.2.2
  · rw [lvl_active s' (Nat.le_refl k), hn, ← h]
    simp only
    split
    · exact K_node (p := (a, r)) hS hT (mem_ntList htok) (mem_paramList' hsok hsym)
    · exact K_app hS hT

/-! ### scan, predict -/

theorem scan_ps {c : Cfg} {k e : Nat} {s : St} {term : Term} {l : Leaf} (hke : k ≤ e) (hk : k < c.ncols)
    (hs : PS c k k s) (hsym : s.item.sym? = some (.t term)) (hscan : c.scan term k = some (e, l)) :
    PS c k e { item := s.item.next, kids := s.kids ++ [PT.leaf l], cover := s.cover } := by
  refine ⟨ok_next hs.ok hsym hke, ?_⟩
  have h1 : s.kids ++ [PT.leaf l] ∈ K c (base c k + lr c k s + 1) := by
    apply K_leaf _ (mem_leafList hs.ok hsym hk hscan)
    have := hs.kid
    rw [lvl_active s (Nat.le_refl k)] at this
    exact this
  apply K_mono h1
  rw [lvl_active _ hke]
  by_cases hek : e = k
  · subst hek
    have : lr c e { item := s.item.next, kids := s.kids ++ [PT.leaf l], cover := s.cover } = lr c e s + 1 := by
      simp only [lr, ecover, coverAt, Item.next]
      omega
    omega
  · have h2 := lr_lt hs.ok hk
    have h3 := base_succ_ge c k
    have h4 := base_mono c (j := k + 1) (k := e) (by omega)
    omega

theorem pred_ps {c : Cfg} (hs : Sane c) {k : Nat} {x : NT} {rhs : List ESym} (h : rhs ∈ c.pred k x) :
    PS c k k { item := { lhs := x, rhs := rhs, dot := 0, origin := k }, kids := [] } :=
  ⟨⟨rules_sub (hs.pred _ _ _ h), Nat.zero_le _, Nat.le_refl _⟩, K_nil c _⟩

theorem chartInv_fold_pred {c : Cfg} {k : Nat} (x : NT) (alts : List (List ESym))
    (hal : ∀ rhs, rhs ∈ alts → PS c k k { item := { lhs := x, rhs := rhs, dot := 0, origin := k }, kids := [] }) :
    ∀ cols : List Col, ChartInv c cols k →
      ChartInv c (alts.foldl (fun cs rhs => addAt .acyclic cs k
              { item := { lhs := x, rhs := rhs, dot := 0, origin := k }, kids := [] }) cols) k := by
  induction alts with
  | nil => intro cols hw; exact hw
  | cons rhs rest ih =>
    intro cols hw
    simp only [List.foldl_cons]
    exact ih (fun r hr => hal r (by simp [hr])) _ (chartInv_addAt hw (Nat.le_refl k) (hal rhs (by simp)))

/-! ### the repetition shortcut -/

theorem shortcutWalk_K {c : Cfg} {cols : List Col} {x : NT} {k n : Nat}
    (hD : ∀ j s, j ≤ k → s ∈ (colAt cols j).dots → Item.ok c j s.item ∧ s.kids ∈ K c n) :
    ∀ (fuel i : Nat) (new o r : St), Item.ok c k new.item → new.kids ∈ K c (n + i) →
      o ∈ (colAt cols new.item.origin).dots →
      shortcutWalk cols x fuel new o = some r → Item.ok c k r.item ∧ r.kids ∈ K c (n + i + fuel) := by
  intro fuel
  induction fuel with
  | zero => intro i new o r _ _ _ h; simp [shortcutWalk] at h
  | succ f ih =>
    intro i new o r hnew hkid ho h
    unfold shortcutWalk at h
    split at h
    · cases h; exact ⟨hnew, K_mono hkid (Nat.le_add_right _ _)⟩
    · have hoo := hD _ _ hnew.2.2 ho
      have hnew' : Item.ok c k ({ new.item with origin := o.item.origin } : Item) :=
        ⟨hnew.1, hnew.2.1, by have := hoo.1.2.2; have := hnew.2.2; simp only; omega⟩
      have hkid' : o.kids ++ new.kids ∈ K c (n + i + 1) :=
        K_app (K_mono hoo.2 (Nat.le_add_right _ _)) hkid
      simp only at h
      split at h
      · rename_i o' heq
        have ho' : o' ∈ (colAt cols o.item.origin).dots := by
          apply mem_findDot (x := x)
          rw [heq]; simp
        have := ih (i + 1) ({ item := { new.item with origin := o.item.origin }, kids := o.kids ++ new.kids } : St)
          o' r hnew' (by rw [← Nat.add_assoc]; exact hkid') ho' h
        have e : n + (i + 1) + f = n + i + (f + 1) := by omega
        rw [e] at this
        exact this
      · cases h

/-- invariant of the fold over the beginners: only column `k` changes, its states keep their number, items in the
    item space, children in level `n` -/
structure FoldInv (c : Cfg) (cols0 cols : List Col) (k n : Nat) : Prop where
  len : cols.length = cols0.length
  other : ∀ j, j ≠ k → colAt cols j = colAt cols0 j
  slen : (colAt cols k).states.length = (colAt cols0 k).states.length
  kS : ∀ s, s ∈ (colAt cols k).states → Item.ok c k s.item ∧ s.kids ∈ K c n
  kD : ∀ s, s ∈ (colAt cols k).dots → Item.ok c k s.item ∧ s.kids ∈ K c n

theorem foldInv_weaken {c : Cfg} {cols0 cols : List Col} {k n n' : Nat} (hi : FoldInv c cols0 cols k n)
    (h : n ≤ n') : FoldInv c cols0 cols k n' :=
  ⟨hi.len, hi.other, hi.slen, fun s hs => ⟨(hi.kS s hs).1, K_mono (hi.kS s hs).2 h⟩,
   fun s hs => ⟨(hi.kD s hs).1, K_mono (hi.kD s hs).2 h⟩⟩

theorem foldInv_one {c : Cfg} {cols0 cols : List Col} {k n0 n : Nat} (x : NT) (hk : k < c.ncols)
    (hOld : ∀ j s, j < k → s ∈ (colAt cols0 j).dots → Item.ok c j s.item ∧ s.kids ∈ K c n0) (hn : n0 ≤ n)
    (hi : FoldInv c cols0 cols k n) : FoldInv c cols0 (shortcutOne cols k x) k (n + (c.ncols + 2)) := by
  have hD : ∀ j s, j ≤ k → s ∈ (colAt cols j).dots → Item.ok c j s.item ∧ s.kids ∈ K c n := by
    intro j s hj hs
    by_cases hjk : j = k
    · subst hjk; exact hi.kD s hs
    · rw [hi.other j hjk] at hs
      have := hOld j s (by omega) hs
      exact ⟨this.1, K_mono this.2 hn⟩
  unfold shortcutOne
  simp only
  split
  · exact foldInv_weaken hi (by omega)
  · rename_i cur hcur
    have hcurmem : cur ∈ (colAt cols k).states := List.mem_of_find?_eq_some hcur
    have hcurok := hi.kS cur hcurmem
    split
    · rename_i o ho
      have homem : o ∈ (colAt cols cur.item.origin).dots := by
        apply mem_findDot (x := x); rw [ho]; simp
      split
      · rename_i new hnew
        have hnewK := shortcutWalk_K (k := k) hD _ 0 cur o new hcurok.1 (by simpa using hcurok.2) homem hnew
        have hnewK' : Item.ok c k new.item ∧ new.kids ∈ K c (n + (c.ncols + 2)) :=
          ⟨hnewK.1, K_mono hnewK.2 (by have := hcurok.1.2.2; omega)⟩
        refine ⟨by simp [hi.len], ?_, ?_, ?_, ?_⟩
        · intro j hj
          rw [colAt_set]
          have : ¬ (j = k ∧ k < cols.length) := fun h => hj h.1
          simp only [this, ↓reduceIte]
          exact hi.other j hj
        · rw [colAt_set]
          split
          · rw [Col.replace_states_len, hi.slen]
          · exact hi.slen
        · intro s hs
          rw [colAt_set] at hs
          split at hs
          · rcases Col.replace_states_mem hs with h | h
            · exact ⟨(hi.kS s h).1, K_mono (hi.kS s h).2 (by omega)⟩
            · rw [h]; exact hnewK'
          · exact ⟨(hi.kS s hs).1, K_mono (hi.kS s hs).2 (by omega)⟩
        · intro s hs
          rw [colAt_set] at hs
          split at hs
          · rcases Col.replace_dots_mem hs with h | h
            · exact ⟨(hi.kD s h).1, K_mono (hi.kD s h).2 (by omega)⟩
            · rw [h]; exact hnewK'
          · exact ⟨(hi.kD s hs).1, K_mono (hi.kD s hs).2 (by omega)⟩
      · exact foldInv_weaken hi (by omega)
    · exact foldInv_weaken hi (by omega)

theorem foldInv_fold {c : Cfg} {cols0 : List Col} {k n0 : Nat} (hk : k < c.ncols)
    (hOld : ∀ j s, j < k → s ∈ (colAt cols0 j).dots → Item.ok c j s.item ∧ s.kids ∈ K c n0) (l : List NT) :
    ∀ (cols : List Col) (n : Nat), n0 ≤ n → FoldInv c cols0 cols k n →
      FoldInv c cols0 (l.foldl (fun cs x => shortcutOne cs k x) cols) k (n + l.length * (c.ncols + 2)) := by
  induction l with
  | nil => intro cols n _ h; simpa using h
  | cons x xs ih =>
    intro cols n hn h
    simp only [List.foldl_cons, List.length_cons]
    have := ih _ _ (by omega) (foldInv_one x hk hOld hn h)
    have e : n + (c.ncols + 2) + xs.length * (c.ncols + 2) = n + (xs.length + 1) * (c.ncols + 2) := by
      rw [Nat.add_mul]; omega
    rw [e] at this
    exact this

theorem chartInv_shortcut {c : Cfg} {cols : List Col} {k : Nat} (hw : ChartInv c cols k) (hk : k < c.ncols) :
    ChartInv c (shortcut cols k) (k + 1) := by
  have h0 : FoldInv c cols cols k (base c k + RR c) :=
    ⟨rfl, fun _ _ => rfl, rfl,
     fun s hs => ⟨(hw.stS k s hs).ok, ps_top (hw.stS k s hs) (Nat.le_refl k) hk⟩,
     fun s hs => ⟨(hw.stD k s hs).ok, ps_top (hw.stD k s hs) (Nat.le_refl k) hk⟩⟩
  have hOld : ∀ j s, j < k → s ∈ (colAt cols j).dots → Item.ok c j s.item ∧ s.kids ∈ K c (base c k + RR c) := by
    intro j s hj hs
    have := hw.stD j s hs
    refine ⟨this.ok, ?_⟩
    have hk' := this.kid
    rw [lvl_old s hj] at hk'
    exact K_mono hk' (by omega)
  have hi := foldInv_fold hk hOld (beginnersOf (colAt cols k)) cols _ (Nat.le_refl _) h0
  have hlen : (beginnersOf (colAt cols k)).length ≤ colCap c (base c k + RR c) :=
    Nat.le_trans (length_beginnersOf_le _) (col_len_active hw (Nat.le_refl k))
  have hlevel : base c k + RR c + (beginnersOf (colAt cols k)).length * (c.ncols + 2) ≤ base c (k + 1) := by
    have := Nat.mul_le_mul_right (c.ncols + 2) hlen
    simp only [base]
    omega
  have hi' := foldInv_weaken hi hlevel
  have hsc : shortcut cols k = (beginnersOf (colAt cols k)).foldl (fun cs x => shortcutOne cs k x) cols := rfl
  rw [hsc]
  refine ⟨by rw [hi'.len]; exact hw.len, ?_, ?_, ?_, ?_⟩
  · intro j s hs
    by_cases hj : j = k
    · subst hj
      have := hi'.kS s hs
      exact ⟨this.1, by rw [lvl_old s (Nat.lt_succ_self j)]; exact this.2⟩
    · rw [hi'.other j hj] at hs
      exact ps_step (hw.stS j s hs) hj
  · intro j s hs
    by_cases hj : j = k
    · subst hj
      have := hi'.kD s hs
      exact ⟨this.1, by rw [lvl_old s (Nat.lt_succ_self j)]; exact this.2⟩
    · rw [hi'.other j hj] at hs
      exact ps_step (hw.stD j s hs) hj
  · intro j hj
    rw [hi'.other j (by omega)]
    exact hw.nd j (by omega)
  · intro j hj
    by_cases hjk : j = k
    · subst hjk
      rw [hi'.slen]
      exact chartInv_bounded hw j
    · rw [hi'.other j hjk]
      exact hw.capOld j (by omega)

/-! ### the machine -/

structure TInv (c : Cfg) (m : M) : Prop where
  ch : ChartInv c m.cols m.k
  fr : ∀ t i, m.frame = some (t, i) → PS c m.k m.k t ∧ cyclicAt .acyclic m.k t = false
  pd : ∀ t, t ∈ m.pending → PS c m.k m.k t

theorem chartInv_replicate (c : Cfg) : ChartInv c (List.replicate c.ncols {}) 0 where
  len := by simp
  stS := by intro j s h; rw [colAt_replicate] at h; cases h
  stD := by intro j s h; rw [colAt_replicate] at h; cases h
  nd := by intro j _; rw [colAt_replicate]; simp
  capOld := by intro j h; omega

theorem tinv_init {c : Cfg} (hp : c.policy = .acyclic) : TInv c (M.init c) where
  ch := by
    unfold M.init
    rw [hp]
    exact chartInv_addAt (s := { item := startItem c.start, kids := [] }) (chartInv_replicate c) (Nat.le_refl 0)
      ⟨start_ok c, K_nil c _⟩
  fr := by intro t i h; unfold M.init at h; cases h
  pd := by intro t h; unfold M.init at h; cases h

theorem tinv_bounded {c : Cfg} {m : M} (h : TInv c m) : LenOK (chartBound c) m.cols :=
  fun j => chartInv_bounded h.ch j

/-- **one step under the admission rule of the code keeps the invariant** -/
theorem step_inv {c : Cfg} (hs : Sane c) (hp : c.policy = .acyclic) {m m' : M} (hw : TInv c m)
    (h : step c m = .next m') : TInv c m' := by
  have hlen := hw.ch.len
  unfold step at h
  split at h
  · cases h
  · rename_i hk
    have hk : m.k < c.ncols := by omega
    split at h
    · -- an active `complete`
      rename_i t j hfr
      obtain ⟨htps, htcy⟩ := hw.fr t j hfr
      split at h
      · cases h
        exact ⟨hw.ch, (by intro t i hh; cases hh), hw.pd⟩
      · rename_i s hsome
        have hsmem : s ∈ (colAt m.cols t.item.origin).findDot t.item.lhs := List.mem_of_getElem? hsome
        have hsps := hw.ch.stD _ _ (mem_findDot hsmem)
        have hdot : s.item.dotNT? = some t.item.lhs := by
          unfold Col.findDot at hsmem
          have := (List.mem_filter.1 hsmem).2
          simpa using this
        rw [hp] at h
        split at h
        · rename_i s' hadv
          cases h
          have hs'ps := advance_ps htps htcy hsps hdot hadv
          refine ⟨chartInv_addAt hw.ch (Nat.le_refl _) hs'ps, ?_, hw.pd⟩
          intro t' i hh
          simp only [Option.some.injEq, Prod.mk.injEq] at hh
          rw [← hh.1]; exact ⟨htps, htcy⟩
        · cases h
          refine ⟨hw.ch, ?_, hw.pd⟩
          intro t' i hh
          simp only [Option.some.injEq, Prod.mk.injEq] at hh
          rw [← hh.1]; exact ⟨htps, htcy⟩
    · rename_i hfr
      split at h
      · -- the next pending `complete` of `predict`
        rename_i t rest hpend
        cases h
        have hpo := hw.pd
        rw [hpend] at hpo
        refine ⟨hw.ch, ?_, fun t' ht' => hpo t' (List.mem_cons_of_mem _ ht')⟩
        intro t' i hh
        simp only at hh
        split at hh
        · cases hh
        · rename_i hcy
          simp only [Option.some.injEq, Prod.mk.injEq] at hh
          rw [← hh.1]
          refine ⟨hpo t List.mem_cons_self, ?_⟩
          rw [hp] at hcy
          simpa using hcy
      · rename_i hpend
        split at h
        · -- end of the column
          cases h
          exact ⟨chartInv_shortcut hw.ch hk, (by intro t i hh; simp [hfr] at hh), (by intro t hh; simp [hpend] at hh)⟩
        · rename_i s hsome
          have hsmem : s ∈ (colAt m.cols m.k).states := List.mem_of_getElem? hsome
          have hsps := hw.ch.stS _ _ hsmem
          split at h
          · -- finished: open the frame
            cases h
            refine ⟨hw.ch, ?_, (by intro t hh; simp [hpend] at hh)⟩
            intro t' i hh
            simp only at hh
            split at hh
            · cases hh
            · rename_i hcy
              simp only [Option.some.injEq, Prod.mk.injEq] at hh
              rw [← hh.1]
              refine ⟨hsps, ?_⟩
              rw [hp] at hcy
              simpa using hcy
          · split at h
            · cases h
              exact ⟨hw.ch, (by intro t i hh; simp [hfr] at hh), (by intro t hh; simp [hpend] at hh)⟩
            · -- predict
              rename_i x a r hsym
              cases h
              rw [hp]
              have h1 := chartInv_fold_pred (c := c) (k := m.k) x (c.pred m.k x)
                (fun rhs hr => pred_ps hs hr) m.cols hw.ch
              generalize hcols : (c.pred m.k x).foldl (fun cs rhs => addAt .acyclic cs m.k
                  { item := { lhs := x, rhs := rhs, dot := 0, origin := m.k }, kids := [] }) m.cols = cols' at h1 ⊢
              refine ⟨h1, (by intro t i hh; simp [hfr] at hh), ?_⟩
              intro t ht
              simp only at ht
              split at ht
              · exact h1.stS _ _ (mem_doneOf ht).1
              · cases ht
            · -- scan
              rename_i term hsym
              split at h
              · cases h
                exact ⟨hw.ch, (by intro t i hh; simp [hfr] at hh), (by intro t hh; simp [hpend] at hh)⟩
              · rename_i e l hscan
                split at h
                · cases h
                · rename_i he
                  cases h
                  have hke := hs.scan _ _ _ _ hscan
                  rw [hp]
                  exact ⟨chartInv_addAt hw.ch hke (scan_ps hke hk hsps hsym hscan),
                    (by intro t i hh; simp [hfr] at hh), (by intro t hh; simp [hpend] at hh)⟩

theorem run_inv {c : Cfg} (hs : Sane c) (hp : c.policy = .acyclic) :
    ∀ (n : Nat) (m0 m : M), TInv c m0 → run c n m0 = .next m → TInv c m := by
  intro n
  induction n with
  | zero => intro m0 m hw h; unfold run at h; cases h; exact hw
  | succ n ih =>
    intro m0 m hw h
    obtain ⟨m1, h1, h2⟩ := run_next_succ h
    exact ih m1 m (step_inv hs hp hw h1) h2

/-- every chart the machine of the code builds is bounded by `chartBound c` -/
theorem run_chart_bounded {c : Cfg} (hs : Sane c) (hp : c.policy = .acyclic) (n : Nat) (m : M)
    (h : run c n (M.init c) = .next m) (j : Nat) : (colAt m.cols j).states.length ≤ chartBound c :=
  tinv_bounded (run_inv hs hp n _ m (tinv_init hp) h) j

/-- **the machine of the code stops**: within `stepBoundN c (chartBound c) + 1` steps -/
theorem run_acyclic_finishes {c : Cfg} (hs : Sane c) (hp : c.policy = .acyclic) :
    ∃ m', run c (stepBoundN c (chartBound c) + 1) (M.init c) = .done m'
        ∨ run c (stepBoundN c (chartBound c) + 1) (M.init c) = .raised m' := by
  cases hr : run c (stepBoundN c (chartBound c) + 1) (M.init c) with
  | done m' => exact ⟨m', Or.inl rfl⟩
  | raised m' => exact ⟨m', Or.inr rfl⟩
  | next m =>
    have hN := run_chart_bounded hs hp _ m hr
    have := run_any_bounded (fun t k e l h => hs.scan t k e l h) (chartBound c) _ (M.init c) m (wfN_init c) hr hN
    unfold stepBoundN at this
    omega

end FV.Earley
