/-
C06, the covering cut bounds the chart — part 1: the finite space of children lists.

`K c n` is a finite list of children lists, closed level by level under the three ways the machine builds the
children of a new state from children it already has: `a ++ b` (an implicit nonterminal is spliced; the repetition
shortcut), `a ++ [node x p b]` (a completed explicit nonterminal), `a ++ [leaf l]` (a scan).  `lr c j s` is the
*rank* of a state `s` of column `j`: (distance of its origin from `j`, how many nonterminals of the rule table its
covering set holds, dot), lexicographically, as a number `< RR c`.  Part 2 (`Proofs/EarleyBound.lean`) shows that
every state the machine admits under the covering cut has its children in `K c (base c j + lr c j s)`: the two
states a completion combines both have a strictly smaller rank — for the completed state because its nonterminal
is *not* in its own covering set (the cut) but is in that of the new state.

Also here: the pigeonhole principle for lists and reflexivity of `PT.beqL`.
-/
import Proofs.EarleyGrow
namespace FV.Earley

/-! ### pigeonhole -/

theorem length_le_of_pairwise_ne {α : Type} : ∀ (l l' : List α), l.Pairwise (· ≠ ·) → (∀ a ∈ l, a ∈ l') →
    l.length ≤ l'.length := by
  intro l
  induction l with
  | nil => intro l' _ _; simp
  | cons a l ih =>
    intro l' hp hs
    rw [List.pairwise_cons] at hp
    obtain ⟨l1, l2, rfl⟩ := List.append_of_mem (hs a (by simp))
    have hsub : ∀ b ∈ l, b ∈ l1 ++ l2 := by
      intro b hb
      have h1 := hs b (by simp [hb])
      have h2 : a ≠ b := hp.1 b hb
      simp only [List.mem_append, List.mem_cons] at h1 ⊢
      rcases h1 with h1 | h1 | h1
      · exact Or.inl h1
      · exact absurd h1.symm h2
      · exact Or.inr h1
    have := ih (l1 ++ l2) hp.2 hsub
    simp only [List.length_append, List.length_cons] at this ⊢
    omega

/-! ### `PT.beqL` is reflexive -/

mutual
theorem PT.beq_refl : ∀ t : PT, PT.beq t t = true
  | .leaf l => by simp [PT.beq]
  | .node x s r ks => by simp [PT.beq, PT.beqL_refl ks]
theorem PT.beqL_refl : ∀ ts : List PT, PT.beqL ts ts = true
  | [] => by simp [PT.beqL]
  | t :: ts => by simp [PT.beqL, PT.beq_refl t, PT.beqL_refl ts]
end

/-- what the admission test of the code compares -/
def stKey (s : St) : Item × List PT := (s.item, s.kids)

theorem stKey_ne_of_not_dup {a b : St} (h : St.dup .acyclic a b = false) : stKey a ≠ stKey b := by
  intro he
  unfold stKey at he
  simp only [Prod.mk.injEq] at he
  unfold St.dup at h
  simp only [he.1, decide_true, Bool.true_and] at h
  rw [he.2, PT.beqL_refl] at h
  cases h

/-! ### the alphabet of the trees -/

/-- left-hand sides of the rule table -/
def ntList (c : Cfg) : List NT := c.rules'.map (·.1)

/-- the `(sender, recipient)` pairs of the symbols of the rule table, and the pair of a state without a dot -/
def paramList (c : Cfg) : List (Option String × Option String) :=
  (none, none) :: c.rules'.flatMap (fun (r : CRule) => r.2.filterMap (fun y =>
    match y with
    | .n _ a b => some (a, b)
    | .t _ => none))

def termList (c : Cfg) : List Term :=
  c.rules'.flatMap (fun (r : CRule) => r.2.filterMap (fun y =>
    match y with
    | .t t => some t
    | .n _ _ _ => none))

/-- every leaf a scan inside the table can build -/
def leafList (c : Cfg) : List Leaf :=
  (termList c).flatMap (fun t => (List.range c.ncols).filterMap (fun k => (c.scan t k).map (·.2)))

theorem mem_ntList {c : Cfg} {j : Nat} {it : Item} (h : Item.ok c j it) : it.lhs ∈ ntList c := by
  unfold ntList
  exact List.mem_map.2 ⟨(it.lhs, it.rhs), h.1, rfl⟩

theorem sym?_mem {it : Item} {y : ESym} (h : it.sym? = some y) : y ∈ it.rhs := by
  unfold Item.sym? at h
  exact List.mem_of_getElem? h

theorem mem_paramList {c : Cfg} {j : Nat} {it : Item} (h : Item.ok c j it) :
    (match it.sym? with
      | some (.n _ a r) => (a, r)
      | _ => ((none, none) : Option String × Option String)) ∈ paramList c := by
  unfold paramList
  cases hs : it.sym? with
  | none => simp
  | some y =>
    cases y with
    | t _ => simp
    | n x a r =>
      simp only [List.mem_cons, List.mem_flatMap, List.mem_filterMap]
      right
      exact ⟨(it.lhs, it.rhs), h.1, .n x a r, sym?_mem hs, rfl⟩

theorem mem_leafList {c : Cfg} {j k e : Nat} {it : Item} {term : Term} {l : Leaf} (h : Item.ok c j it)
    (hs : it.sym? = some (.t term)) (hk : k < c.ncols) (hscan : c.scan term k = some (e, l)) : l ∈ leafList c := by
  unfold leafList termList
  simp only [List.mem_flatMap, List.mem_filterMap, List.mem_range]
  refine ⟨term, ⟨(it.lhs, it.rhs), h.1, .t term, sym?_mem hs, rfl⟩, k, hk, ?_⟩
  rw [hscan]; rfl

/-! ### the levels -/

/-- one more round of building: splice, node, leaf -/
def ops (c : Cfg) (L : List (List PT)) : List (List PT) :=
  L.flatMap (fun a => L.flatMap (fun b =>
    (a ++ b) :: (ntList c).flatMap (fun x => (paramList c).map (fun p => a ++ [PT.node x p.1 p.2 b]))))
  ++ L.flatMap (fun a => (leafList c).map (fun l => a ++ [PT.leaf l]))

def K (c : Cfg) : Nat → List (List PT)
  | 0 => [[]]
  | n + 1 => K c n ++ ops c (K c n)

theorem K_succ_of_mem {c : Cfg} {n : Nat} {a : List PT} (h : a ∈ K c n) : a ∈ K c (n + 1) := by
  simp only [K, List.mem_append]; exact Or.inl h

theorem K_mono {c : Cfg} {n m : Nat} {a : List PT} (h : a ∈ K c n) (hnm : n ≤ m) : a ∈ K c m := by
  induction m with
  | zero => have : n = 0 := by omega
            subst this; exact h
  | succ m ih =>
    by_cases hn : n = m + 1
    · subst hn; exact h
    · exact K_succ_of_mem (ih (by omega))

theorem K_length_mono (c : Cfg) {n m : Nat} (hnm : n ≤ m) : (K c n).length ≤ (K c m).length := by
  induction m with
  | zero => have : n = 0 := by omega
            subst this; exact Nat.le_refl _
  | succ m ih =>
    by_cases hn : n = m + 1
    · subst hn; exact Nat.le_refl _
    · have := ih (by omega)
      simp only [K, List.length_append]
      omega

theorem K_nil (c : Cfg) (n : Nat) : [] ∈ K c n := K_mono (n := 0) (by simp [K]) (Nat.zero_le _)

theorem K_app {c : Cfg} {n : Nat} {a b : List PT} (ha : a ∈ K c n) (hb : b ∈ K c n) : a ++ b ∈ K c (n + 1) := by
  simp only [K, ops, List.mem_append, List.mem_flatMap, List.mem_cons]
  exact Or.inr (Or.inl ⟨a, ha, b, hb, Or.inl rfl⟩)

theorem K_node {c : Cfg} {n : Nat} {a b : List PT} {x : NT} {p : Option String × Option String}
    (ha : a ∈ K c n) (hb : b ∈ K c n) (hx : x ∈ ntList c) (hp : p ∈ paramList c) :
    a ++ [PT.node x p.1 p.2 b] ∈ K c (n + 1) := by
  simp only [K, ops, List.mem_append, List.mem_flatMap, List.mem_cons, List.mem_map]
  exact Or.inr (Or.inl ⟨a, ha, b, hb, Or.inr ⟨x, hx, p, hp, rfl⟩⟩)

theorem K_leaf {c : Cfg} {n : Nat} {a : List PT} {l : Leaf} (ha : a ∈ K c n) (hl : l ∈ leafList c) :
    a ++ [PT.leaf l] ∈ K c (n + 1) := by
  simp only [K, ops, List.mem_append, List.mem_flatMap, List.mem_map]
  exact Or.inr (Or.inr ⟨a, ha, l, hl, rfl⟩)

/-! ### the rank of a state -/

/-- the covering set of `s` as `complete` reads it in column `k` -/
def ecover (s : St) (k : Nat) : List NT := (coverAt s k).getD []

/-- how many nonterminals of the rule table a covering set holds -/
def covL (c : Cfg) (l : List NT) : Nat := ((ntList c).filter (fun x => l.contains x)).length

def NN (c : Cfg) : Nat := (ntList c).length
def DD (c : Cfg) : Nat := maxRhs c.rules'

theorem covL_le (c : Cfg) (l : List NT) : covL c l ≤ NN c := List.length_filter_le _ _

theorem covL_mono (c : Cfg) {l1 l2 : List NT} (h : ∀ x, x ∈ l1 → x ∈ l2) : covL c l1 ≤ covL c l2 := by
  unfold covL
  apply filter_length_mono
  intro u _ hu
  simp only [List.contains_eq_mem, decide_eq_true_eq] at hu ⊢
  exact h u hu

theorem covL_strict (c : Cfg) {l1 l2 : List NT} (h : ∀ x, x ∈ l1 → x ∈ l2) (x0 : NT) (h0 : x0 ∈ ntList c)
    (h1 : x0 ∉ l1) (h2 : x0 ∈ l2) : covL c l1 < covL c l2 := by
  unfold covL
  apply filter_length_strict _ _ _ _ x0 h0
  · simpa using h2
  · simpa using h1
  · intro u _ hu
    simp only [List.contains_eq_mem, decide_eq_true_eq] at hu ⊢
    exact h u hu

/-- rank of a state of column `j` -/
def lr (c : Cfg) (j : Nat) (s : St) : Nat :=
  ((j - s.item.origin) * (NN c + 1) + covL c (ecover s j)) * (DD c + 1) + s.item.dot

/-- number of ranks -/
def RR (c : Cfg) : Nat := c.ncols * (NN c + 1) * (DD c + 1)

theorem enc_lt (A B C b d n : Nat) (hb : b < B) (hd : d < C) (hA : A < n) : (A * B + b) * C + d < n * B * C := by
  have h1 : A * B + b + 1 ≤ n * B := by
    have : (A + 1) * B ≤ n * B := Nat.mul_le_mul_right _ hA
    rw [Nat.add_mul] at this
    omega
  have h2 : (A * B + b + 1) * C ≤ n * B * C := Nat.mul_le_mul_right _ h1
  rw [Nat.add_mul] at h2
  omega

theorem enc_lt_of_snd (A B C b b' d d' : Nat) (hd : d < C) (h : b < b') :
    (A * B + b) * C + d < (A * B + b') * C + d' := by
  have h2 : (A * B + b + 1) * C ≤ (A * B + b') * C := Nat.mul_le_mul_right _ (by omega)
  rw [Nat.add_mul] at h2
  omega

theorem enc_lt_of_fst (A A' B C b b' d d' : Nat) (hb : b < B) (hd : d < C) (h : A < A') :
    (A * B + b) * C + d < (A' * B + b') * C + d' := by
  have h1 : A * B + b + 1 ≤ A' * B + b' := by
    have : (A + 1) * B ≤ A' * B := Nat.mul_le_mul_right _ h
    rw [Nat.add_mul] at this
    omega
  have h2 : (A * B + b + 1) * C ≤ (A' * B + b') * C := Nat.mul_le_mul_right _ h1
  rw [Nat.add_mul] at h2
  omega

theorem enc_le_snd (A B C b b' : Nat) (h : b ≤ b') : (A * B + b) * C ≤ (A * B + b') * C :=
  Nat.mul_le_mul_right _ (by omega)

theorem ok_dot_le {c : Cfg} {j : Nat} {it : Item} (h : Item.ok c j it) : it.dot ≤ DD c := by
  apply Nat.le_trans h.2.1
  unfold DD maxRhs
  apply le_foldl_max
  right
  exact List.mem_map.2 ⟨(it.lhs, it.rhs), h.1, rfl⟩

theorem lr_lt {c : Cfg} {j : Nat} {s : St} (h : Item.ok c j s.item) (hj : j < c.ncols) : lr c j s < RR c := by
  unfold lr RR
  apply enc_lt
  · have := covL_le c (ecover s j); omega
  · have := ok_dot_le h; omega
  · omega

/-! ### the level of a column -/

/-- capacity of a column whose children lists come from level `n` -/
def colCap (c : Cfg) (n : Nat) : Nat := c.U.length * (K c n).length

/-- level at which column `k` starts: everything the columns before it hold (the states the repetition
    shortcut puts in place of others included) lies below it -/
def base (c : Cfg) : Nat → Nat
  | 0 => 0
  | k + 1 => base c k + RR c + colCap c (base c k + RR c) * (c.ncols + 2) + 1

theorem base_mono (c : Cfg) {j k : Nat} (h : j ≤ k) : base c j ≤ base c k := by
  induction k with
  | zero => have : j = 0 := by omega
            subst this; exact Nat.le_refl _
  | succ k ih =>
    by_cases hj : j = k + 1
    · subst hj; exact Nat.le_refl _
    · have := ih (by omega)
      simp only [base]; omega

theorem base_succ_ge (c : Cfg) (k : Nat) : base c k + RR c ≤ base c (k + 1) := by
  simp only [base]; omega

/-- **the bound on every column of the chart** -/
def chartBound (c : Cfg) : Nat := colCap c (base c c.ncols)

theorem colCap_mono (c : Cfg) {n m : Nat} (h : n ≤ m) : colCap c n ≤ colCap c m :=
  Nat.mul_le_mul_left _ (K_length_mono c h)

/-- the product space a column with children from level `n` lives in -/
def keySpace (c : Cfg) (n : Nat) : List (Item × List PT) :=
  c.U.flatMap (fun it => (K c n).map (fun ks => (it, ks)))

theorem keySpace_length (c : Cfg) (n : Nat) : (keySpace c n).length = colCap c n := by
  unfold keySpace colCap
  exact length_flatMap_const _ _ _ (by intro a _; simp)

theorem mem_keySpace {c : Cfg} {n : Nat} {it : Item} {ks : List PT} (h1 : it ∈ c.U) (h2 : ks ∈ K c n) :
    (it, ks) ∈ keySpace c n := by
  unfold keySpace
  simp only [List.mem_flatMap, List.mem_map]
  exact ⟨it, h1, ks, h2, rfl⟩

/-- a list of pairwise different (under the admission test) states whose keys lie in `keySpace c n` -/
theorem length_le_colCap {c : Cfg} {n : Nat} (l : List St)
    (hp : l.Pairwise (fun a b => St.dup .acyclic a b = false))
    (hk : ∀ s ∈ l, s.item ∈ c.U ∧ s.kids ∈ K c n) : l.length ≤ colCap c n := by
  rw [← keySpace_length]
  have h1 : (l.map stKey).Pairwise (· ≠ ·) := by
    rw [List.pairwise_map]
    exact hp.imp (fun h => stKey_ne_of_not_dup h)
  have h2 : ∀ a ∈ l.map stKey, a ∈ keySpace c n := by
    intro a ha
    obtain ⟨s, hs, rfl⟩ := List.mem_map.1 ha
    exact mem_keySpace (hk s hs).1 (hk s hs).2
  have := length_le_of_pairwise_ne _ _ h1 h2
  simpa using this

end FV.Earley
