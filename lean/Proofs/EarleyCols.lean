/-
Shared by the soundness (C04), completeness (C05) and termination (C06) proofs about `Model/Earley.lean`: facts about
the initial chart that every family needs.  Kept in ONE place so that a file can import all three families
(`Proofs/EarleyTotal.lean`); before, `Proofs/C04Chart.lean` and `Proofs/EarleyTerm.lean` each had their own copy.
-/
import Proofs.Earley
namespace FV.Earley

/-- every column of the empty table is the empty column -/
theorem colAt_replicate (n j : Nat) : colAt (List.replicate n ({} : Col)) j = {} := by
  unfold colAt
  rw [List.getD_eq_getElem?_getD, List.getElem?_replicate]
  split <;> rfl

end FV.Earley
