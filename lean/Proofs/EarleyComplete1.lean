/-
C05 / completeness of the Earley model, STAGE 1: the compiled helper-rule table derives everything the grammar IR
expands to.

* `Drv rules scan rhs i j` — "the symbol sequence `rhs` derives the columns `i … j` over the helper rules, every
  terminal read by the scanner" (`DerL` of `Proofs/C04Defs.lean` without the trees: `drv_iff_derL`).
* `compile_complete` — for every well-formed grammar: an expansion `ExpNT G c d s w` of the IR (any nesting depth,
  any repetition counts) that the scanners of `Model/Scan.lean` read from column `p` to column `q` has a derivation
  of `<s>` from `p` to `q` over `compile G none` (the table of the code as it is: `{n,}` = n iterations + tail), for
  every scanner of the machine that reads at least what `Scan.scanT` reads.

The converse (every derivation over the helper rules collapses to a derivation of the IR) is C04's
`collapse_sound`.
-/
import Proofs.C04Defs
import Proofs.C04Compile
import Proofs.C04Collapse
import Proofs.Scan
namespace FV.Earley
open FV.Scan (scanT scanAll ExpWith ExpAny ExpCat ExpNT PowE scanAll_append)

/-- derivations over the helper rules, spans only -/
inductive Drv (rules : List CRule) (scan : Scan) : List ESym → Nat → Nat → Prop
  | nil (i : Nat) : Drv rules scan [] i i
  | term {t : Term} {i m j : Nat} {l : Leaf} {ss : List ESym} :
      scan t i = some (m, l) → Drv rules scan ss m j → Drv rules scan (.t t :: ss) i j
  | nt {x : NT} {a r : Option String} {rhs ss : List ESym} {i m j : Nat} :
      (x, rhs) ∈ rules → Drv rules scan rhs i m → Drv rules scan ss m j → Drv rules scan (.n x a r :: ss) i j

theorem drv_of_derL {rules : List CRule} {scan : Scan} {rhs : List ESym} {ks : List PT} {i j : Nat}
    (h : DerL rules scan rhs ks i j) : Drv rules scan rhs i j := by
  induction h with
  | nil i => exact Drv.nil i
  | term hs _ ih => exact Drv.term hs ih
  | expl _ hr _ _ ih1 ih2 => exact Drv.nt hr ih1 ih2
  | impl _ hr _ _ ih1 ih2 => exact Drv.nt hr ih1 ih2

theorem derL_of_drv {rules : List CRule} {scan : Scan} {rhs : List ESym} {i j : Nat}
    (h : Drv rules scan rhs i j) : ∃ ks, DerL rules scan rhs ks i j := by
  induction h with
  | nil i => exact ⟨[], DerL.nil i⟩
  | term hs _ ih =>
    obtain ⟨ks, hk⟩ := ih
    exact ⟨_, DerL.term hs hk⟩
  | @nt x a r rhs ss i m j hr _ _ ih1 ih2 =>
    obtain ⟨k1, h1⟩ := ih1
    obtain ⟨k2, h2⟩ := ih2
    cases hx : x.explicit with
    | true => exact ⟨_, DerL.expl hx hr h1 h2⟩
    | false => exact ⟨_, DerL.impl hx hr h1 h2⟩

theorem drv_iff_derL {rules : List CRule} {scan : Scan} {rhs : List ESym} {i j : Nat} :
    Drv rules scan rhs i j ↔ ∃ ks, DerL rules scan rhs ks i j :=
  ⟨derL_of_drv, fun ⟨_, h⟩ => drv_of_derL h⟩

theorem drv_append {rules : List CRule} {scan : Scan} {a b : List ESym} {i m j : Nat}
    (h1 : Drv rules scan a i m) (h2 : Drv rules scan b m j) : Drv rules scan (a ++ b) i j := by
  induction h1 with
  | nil i => simpa using h2
  | term hs _ ih => exact Drv.term hs (ih h2)
  | nt hr h1' _ _ ih2 => exact Drv.nt hr h1' (ih2 h2)

theorem drv_cons {rules : List CRule} {scan : Scan} {s : ESym} {ss : List ESym} {i m j : Nat}
    (h1 : Drv rules scan [s] i m) (h2 : Drv rules scan ss m j) : Drv rules scan (s :: ss) i j :=
  drv_append h1 h2

theorem drv_rule {rules : List CRule} {scan : Scan} {x : NT} {rhs : List ESym} {i j : Nat} (a r : Option String)
    (hr : (x, rhs) ∈ rules) (h : Drv rules scan rhs i j) : Drv rules scan [.n x a r] i j :=
  Drv.nt hr h (Drv.nil j)

theorem drv_nil_inv {rules : List CRule} {scan : Scan} {i j : Nat} (h : Drv rules scan [] i j) : i = j := by
  cases h; rfl

/-- the scanner of the machine reads (at least) what the scanner-level model reads -/
def ScanAgree (inp : Scan.Inp) (scan : Scan) : Prop :=
  ∀ t p q, scanT inp t p = some q → ∃ l, scan t p = some (q, l)

/-- every helper nonterminal below the node is a nonterminal of the table -/
def SubOK (G : Grammar) (n : Node) : Prop := ∀ y, y ∈ subNTs none n → y ∈ allNTs G none
def SubOKL (G : Grammar) (ns : List Node) : Prop := ∀ y, y ∈ subNTsL none ns → y ∈ allNTs G none

theorem subOKL_of_alt {G : Grammar} {i : String} {ns : List Node} (h : SubOK G (.alt i ns)) : SubOKL G ns :=
  fun y hy => h y (by simp [subNTs, hy])
theorem subOKL_of_cat {G : Grammar} {i : String} {ns : List Node} (h : SubOK G (.cat i ns)) : SubOKL G ns :=
  fun y hy => h y (by simp [subNTs, hy])
theorem subOK_head {G : Grammar} {n : Node} {ns : List Node} (h : SubOKL G (n :: ns)) : SubOK G n :=
  fun y hy => h y (by simp [subNTsL, hy])
theorem subOKL_tail {G : Grammar} {n : Node} {ns : List Node} (h : SubOKL G (n :: ns)) : SubOKL G ns :=
  fun y hy => h y (by simp [subNTsL, hy])
theorem subOK_body {G : Grammar} {i : String} {k : RepKind} {b : Node} {mn : Nat} {mx : Option Nat}
    (h : SubOK G (.rep i k b mn mx)) : SubOK G b :=
  fun y hy => h y (by simp [subNTs, hy])

theorem ctl_rule {G : Grammar} {n : Node} {rhs : List ESym} (hn : NT.ctl n ∈ allNTs G none)
    (hr : rhs ∈ ctlRules none n) : (NT.ctl n, rhs) ∈ compile G none :=
  mem_compile_iff.2 ⟨hn, hr⟩

theorem impl_rule {G : Grammar} {n : Node} {j : Nat} {rhs : List ESym} (hn : NT.impl n j ∈ allNTs G none)
    (hr : rhs ∈ implRules none n j) : (NT.impl n j, rhs) ∈ compile G none :=
  mem_compile_iff.2 ⟨hn, hr⟩

theorem powE_split {P : List Term → Prop} : ∀ (a b : Nat) (w : List Term), PowE P (a + b) w →
    ∃ u v, w = u ++ v ∧ PowE P a u ∧ PowE P b v
  | 0, b, w, h => ⟨[], w, rfl, rfl, by simpa using h⟩
  | a + 1, b, w, h => by
    rw [Nat.succ_add] at h
    simp only [PowE] at h
    obtain ⟨x, y, hx, hy, rfl⟩ := h
    obtain ⟨u, v, rfl, hu, hv⟩ := powE_split a b y hy
    exact ⟨x ++ u, v, by simp, ⟨x, u, hx, hu, rfl⟩, hv⟩

section rep
variable {G : Grammar} {scan : Scan} {inp : Scan.Inp} {P : List Term → Prop} {sb : ESym}

/-- `k` iterations of the body, each derived by `sb`, are derived by `k` copies of a symbol `w0` with the rule `w0 → sb` -/
theorem iter_replicate {w0 : NT} (hw : (w0, [sb]) ∈ compile G none)
    (hb : ∀ v p m, P v → scanAll inp v p = some m → Drv (compile G none) scan [sb] p m) :
    ∀ (k : Nat) (w : List Term) (p q : Nat), PowE P k w → scanAll inp w p = some q →
      Drv (compile G none) scan (List.replicate k (ESym.plain w0)) p q
  | 0, w, p, q, hw', hs => by
    simp only [PowE] at hw'
    subst hw'
    simp only [scanAll, Option.some.injEq] at hs
    subst hs
    exact Drv.nil p
  | k + 1, w, p, q, hw', hs => by
    simp only [PowE] at hw'
    obtain ⟨a, b, ha, hb', rfl⟩ := hw'
    obtain ⟨m, h1, h2⟩ := (scanAll_append inp a b p q).mp hs
    rw [List.replicate_succ]
    exact drv_cons (drv_rule none none hw (hb a p m ha h1)) (iter_replicate hw hb k b m q hb' h2)

/-- a right-recursive loop nonterminal `x → [] | s x` derives any number of iterations -/
theorem iter_tail {x : NT} {s : ESym} (h0 : (x, []) ∈ compile G none) (h1 : (x, [s, ESym.plain x]) ∈ compile G none)
    (hb : ∀ v p m, P v → scanAll inp v p = some m → Drv (compile G none) scan [s] p m) :
    ∀ (k : Nat) (w : List Term) (p q : Nat), PowE P k w → scanAll inp w p = some q →
      Drv (compile G none) scan [ESym.plain x] p q
  | 0, w, p, q, hw', hs => by
    simp only [PowE] at hw'
    subst hw'
    simp only [scanAll, Option.some.injEq] at hs
    subst hs
    exact drv_rule none none h0 (Drv.nil p)
  | k + 1, w, p, q, hw', hs => by
    simp only [PowE] at hw'
    obtain ⟨a, b, ha, hb', rfl⟩ := hw'
    obtain ⟨m, h1', h2⟩ := (scanAll_append inp a b p q).mp hs
    exact drv_rule none none h1 (drv_cons (hb a p m ha h1') (iter_tail h0 h1 hb k b m q hb' h2))

/-- a right-recursive loop nonterminal `x → s | s x` derives any positive number of iterations -/
theorem iter_tail1 {x : NT} {s : ESym} (h0 : (x, [s]) ∈ compile G none) (h1 : (x, [s, ESym.plain x]) ∈ compile G none)
    (hb : ∀ v p m, P v → scanAll inp v p = some m → Drv (compile G none) scan [s] p m) :
    ∀ (k : Nat) (w : List Term) (p q : Nat), PowE P (k + 1) w → scanAll inp w p = some q →
      Drv (compile G none) scan [ESym.plain x] p q
  | 0, w, p, q, hw', hs => by
    simp only [PowE] at hw'
    obtain ⟨a, b, ha, rfl, rfl⟩ := hw'
    rw [List.append_nil] at hs
    exact drv_rule none none h0 (hb a p q ha hs)
  | k + 1, w, p, q, hw', hs => by
    simp only [PowE] at hw'
    obtain ⟨a, b, ha, hb', rfl⟩ := hw'
    obtain ⟨m, h1', h2⟩ := (scanAll_append inp a b p q).mp hs
    exact drv_rule none none h1 (drv_cons (hb a p m ha h1') (iter_tail1 h0 h1 hb k b m q (by simpa [PowE] using hb') h2))

end rep


/-! ### the bounded chain of `{mn,mx}` -/

section chain
variable {G : Grammar} {scan : Scan} {inp : Scan.Inp} {P : List Term → Prop}

/-- the nested chain `c_j → w | w c_{j-1}` derives `1 … j` iterations -/
theorem iter_chain {me : Node} {w0 : ESym} (d : Nat)
    (hr1 : ∀ j, 1 ≤ j → j ≤ d → (NT.impl me j, [w0]) ∈ compile G none)
    (hr2 : ∀ j, 2 ≤ j → j ≤ d → (NT.impl me j, [w0, ESym.plain (.impl me (j - 1))]) ∈ compile G none)
    (hb : ∀ v p m, P v → scanAll inp v p = some m → Drv (compile G none) scan [w0] p m) :
    ∀ (j : Nat), 1 ≤ j → j ≤ d → ∀ (r : Nat) (w : List Term) (p q : Nat), 1 ≤ r → r ≤ j → PowE P r w →
      scanAll inp w p = some q → Drv (compile G none) scan [ESym.plain (.impl me j)] p q
  | 0, h, _, _, _, _, _, _, _, _, _ => by omega
  | j + 1, _, hjd, r, w, p, q, hr, hrj, hw, hs => by
    cases r with
    | zero => omega
    | succ r' =>
      simp only [PowE] at hw
      obtain ⟨a, b, ha, hb', rfl⟩ := hw
      obtain ⟨m, h1, h2⟩ := (scanAll_append inp a b p q).mp hs
      by_cases hr0 : r' = 0
      · subst hr0
        simp only [PowE] at hb'
        subst hb'
        simp only [scanAll, Option.some.injEq] at h2
        subst h2
        exact drv_rule none none (hr1 (j + 1) (by omega) hjd) (hb a p m ha h1)
      · have hj1 : 1 ≤ j := by omega
        have ih := iter_chain d hr1 hr2 hb j hj1 (by omega) r' b m q (by omega) (by omega) hb' h2
        have hrule := hr2 (j + 1) (by omega) hjd
        simp only [Nat.add_sub_cancel] at hrule
        exact drv_rule none none hrule (drv_cons (hb a p m ha h1) ih)

end chain

theorem implRules_closed_mid (i : String) (b : Node) (mn M j : Nat) (h1 : 1 ≤ j) (h2 : j ≤ M - mn) :
    implRules none (.rep i .braces b mn (some M)) j =
      if j = 1 then [[ESym.plain (.impl (.rep i .braces b mn (some M)) 0)]]
      else [[ESym.plain (.impl (.rep i .braces b mn (some M)) 0)],
            [ESym.plain (.impl (.rep i .braces b mn (some M)) 0), ESym.plain (.impl (.rep i .braces b mn (some M)) (j - 1))]] := by
  have h0 : j ≠ 0 := by omega
  simp [implRules, openTail, hiOf, h0, h2]

theorem implRules_closed_head (i : String) (b : Node) (mn M : Nat) :
    implRules none (.rep i .braces b mn (some M)) (M - mn + 1) =
      List.replicate mn (ESym.plain (.impl (.rep i .braces b mn (some M)) 0)) ::
        (if M - mn = 0 then [] else
          [List.replicate mn (ESym.plain (.impl (.rep i .braces b mn (some M)) 0)) ++
            [ESym.plain (.impl (.rep i .braces b mn (some M)) (M - mn))]]) := by
  have h : ¬ (M - mn + 1 ≤ M - mn) := by omega
  by_cases h0 : M - mn = 0 <;> simp [implRules, openTail, hiOf, h, h0]

theorem impl_mem_braces {G : Grammar} {i : String} {b : Node} {mn : Nat} {mx : Option Nat}
    (hsub : SubOK G (.rep i .braces b mn mx)) (j : Nat)
    (hj : j < (if openTail none mx then 3 else hiOf none mx - mn + 2)) :
    NT.impl (.rep i .braces b mn mx) j ∈ allNTs G none := by
  apply hsub
  simp only [subNTs, List.mem_cons, List.mem_append]
  right; left
  simp only [implsOf, List.mem_map, List.mem_range]
  exact ⟨j, hj, rfl⟩

/-! ### the nodes of the IR -/

section nodes
variable {G : Grammar} {scan : Scan} {inp : Scan.Inp} {c : Nat} {ntP : String → List Term → Prop}

mutual
theorem expWith_drv (hag : ScanAgree inp scan)
    (hnt : ∀ s a r w p q, ntP s w → scanAll inp w p = some q →
      Drv (compile G none) scan [ESym.n (.user s) a r] p q) :
    ∀ (n : Node) (w : List Term) (p q : Nat), nodeWf n = true → SubOK G n → ExpWith c ntP n w →
      scanAll inp w p = some q → Drv (compile G none) scan [symOf n] p q
  | .term t, w, p, q, _, _, hw, hs => by
    simp only [ExpWith] at hw
    subst hw
    simp only [scanAll] at hs
    cases h : scanT inp t p with
    | none => simp [h] at hs
    | some m =>
      simp only [h, Option.some.injEq] at hs
      subst hs
      obtain ⟨l, hl⟩ := hag t p m h
      exact Drv.term hl (Drv.nil m)
  | .nt name a r, w, p, q, _, _, hw, hs => by
    simp only [ExpWith] at hw
    exact hnt name a r w p q hw hs
  | .alt i ns, w, p, q, hwf, hsub, hw, hs => by
    simp only [ExpWith] at hw
    simp only [nodeWf] at hwf
    obtain ⟨m, hm, hd⟩ := expAny_drv hag hnt ns w p q hwf (subOKL_of_alt hsub) hw hs
    have hr : (NT.ctl (.alt i ns), [symOf m]) ∈ compile G none :=
      ctl_rule (hsub _ (by simp [subNTs])) (by simp only [ctlRules, List.mem_map]; exact ⟨m, hm, rfl⟩)
    exact drv_rule none none hr hd
  | .cat i ns, w, p, q, hwf, hsub, hw, hs => by
    simp only [ExpWith] at hw
    simp only [nodeWf] at hwf
    have hd := expCat_drv hag hnt ns w p q hwf (subOKL_of_cat hsub) hw hs
    have hr : (NT.ctl (.cat i ns), ns.map symOf) ∈ compile G none :=
      ctl_rule (hsub _ (by simp [subNTs])) (by simp [ctlRules])
    exact drv_rule none none hr hd
  | .rep i .star b mn mx, w, p, q, hwf, hsub, hw, hs => by
    simp only [ExpWith] at hw
    obtain ⟨k, _, _, hp⟩ := hw
    simp only [nodeWf, Bool.and_eq_true] at hwf
    have hx : NT.impl (.rep i .star b mn mx) 0 ∈ allNTs G none := hsub _ (by simp [subNTs, implsOf])
    have h0 : (NT.impl (.rep i .star b mn mx) 0, []) ∈ compile G none := impl_rule hx (by simp [implRules])
    have h1 : (NT.impl (.rep i .star b mn mx) 0, [symOf b, ESym.plain (.impl (.rep i .star b mn mx) 0)])
        ∈ compile G none := impl_rule hx (by simp [implRules])
    have hd := iter_tail (P := fun v => ExpWith c ntP b v) h0 h1
      (fun v p' m hv hs' => expWith_drv hag hnt b v p' m hwf.2 (subOK_body hsub) hv hs') k w p q hp hs
    have hr : (NT.ctl (.rep i .star b mn mx), [ESym.plain (.impl (.rep i .star b mn mx) 0)]) ∈ compile G none :=
      ctl_rule (hsub _ (by simp [subNTs])) (by simp [ctlRules])
    exact drv_rule none none hr hd
  | .rep i .plus b mn mx, w, p, q, hwf, hsub, hw, hs => by
    simp only [ExpWith] at hw
    obtain ⟨k, _, hb, hp⟩ := hw
    simp only [nodeWf, Bool.and_eq_true, repWf, beq_iff_eq] at hwf
    obtain ⟨⟨rfl, rfl⟩, hwfb⟩ := hwf
    have hk : 1 ≤ k := hb.1
    obtain ⟨k', rfl⟩ : ∃ k', k = k' + 1 := ⟨k - 1, by omega⟩
    have hx : NT.impl (.rep i .plus b 1 none) 0 ∈ allNTs G none := hsub _ (by simp [subNTs, implsOf])
    have h0 : (NT.impl (.rep i .plus b 1 none) 0, [symOf b]) ∈ compile G none := impl_rule hx (by simp [implRules])
    have h1 : (NT.impl (.rep i .plus b 1 none) 0, [symOf b, ESym.plain (.impl (.rep i .plus b 1 none) 0)])
        ∈ compile G none := impl_rule hx (by simp [implRules])
    have hd := iter_tail1 (P := fun v => ExpWith c ntP b v) h0 h1
      (fun v p' m hv hs' => expWith_drv hag hnt b v p' m hwfb (subOK_body hsub) hv hs') k' w p q hp hs
    have hr : (NT.ctl (.rep i .plus b 1 none), [ESym.plain (.impl (.rep i .plus b 1 none) 0)]) ∈ compile G none :=
      ctl_rule (hsub _ (by simp [subNTs])) (by simp [ctlRules])
    exact drv_rule none none hr hd
  | .rep i .opt b mn mx, w, p, q, hwf, hsub, hw, hs => by
    simp only [ExpWith] at hw
    obtain ⟨k, _, hb, hp⟩ := hw
    simp only [nodeWf, Bool.and_eq_true, repWf, beq_iff_eq] at hwf
    obtain ⟨⟨rfl, rfl⟩, hwfb⟩ := hwf
    have hk : k ≤ 1 := hb.2 1 rfl
    have hctl : NT.ctl (.rep i .opt b 0 (some 1)) ∈ allNTs G none := hsub _ (by simp [subNTs])
    match k, hk, hp with
    | 0, _, hp =>
      simp only [PowE] at hp
      subst hp
      simp only [scanAll, Option.some.injEq] at hs
      subst hs
      exact drv_rule none none (ctl_rule hctl (by simp [ctlRules])) (Drv.nil p)
    | 1, _, hp =>
      simp only [PowE] at hp
      obtain ⟨a, b', ha, rfl, rfl⟩ := hp
      rw [List.append_nil] at hs
      exact drv_rule none none (ctl_rule hctl (by simp [ctlRules]))
        (expWith_drv hag hnt b a p q hwfb (subOK_body hsub) ha hs)
  | .rep i .braces b mn mx, w, p, q, hwf, hsub, hw, hs => by
    simp only [ExpWith] at hw
    obtain ⟨k, _, hb, hp⟩ := hw
    simp only [nodeWf, Bool.and_eq_true, repWf] at hwf
    obtain ⟨hbo, hwfb⟩ := hwf
    have hbody : ∀ v p' m, ExpWith c ntP b v → scanAll inp v p' = some m →
        Drv (compile G none) scan [symOf b] p' m :=
      fun v p' m hv hs' => expWith_drv hag hnt b v p' m hwfb (subOK_body hsub) hv hs'
    have hctl : NT.ctl (.rep i .braces b mn mx) ∈ allNTs G none := hsub _ (by simp [subNTs])
    have hw0 : (NT.impl (.rep i .braces b mn mx) 0, [symOf b]) ∈ compile G none :=
      impl_rule (impl_mem_braces hsub 0 (by split <;> omega)) (by simp [implRules])
    obtain ⟨r, rfl⟩ : ∃ r, k = mn + r := ⟨k - mn, by have := hb.1; omega⟩
    obtain ⟨u, v, rfl, hu, hv⟩ := powE_split mn r w hp
    obtain ⟨m, hs1, hs2⟩ := (scanAll_append inp u v p q).mp hs
    have hrep := iter_replicate (P := fun v => ExpWith c ntP b v) hw0 hbody mn u p m hu hs1
    cases mx with
    | none =>
      have ht0 : (NT.impl (.rep i .braces b mn none) 1, []) ∈ compile G none :=
        impl_rule (impl_mem_braces hsub 1 (by simp [openTail])) (by simp [implRules, openTail])
      have ht1 : (NT.impl (.rep i .braces b mn none) 1,
          [ESym.plain (.impl (.rep i .braces b mn none) 0), ESym.plain (.impl (.rep i .braces b mn none) 1)])
          ∈ compile G none :=
        impl_rule (impl_mem_braces hsub 1 (by simp [openTail])) (by simp [implRules, openTail])
      have htail := iter_tail (P := fun v => ExpWith c ntP b v) ht0 ht1
        (fun v p' m' hv hs' => drv_rule none none hw0 (hbody v p' m' hv hs')) r v m q hv hs2
      have hh : (NT.impl (.rep i .braces b mn none) 2,
          List.replicate mn (ESym.plain (.impl (.rep i .braces b mn none) 0)) ++
            [ESym.plain (.impl (.rep i .braces b mn none) 1)]) ∈ compile G none :=
        impl_rule (impl_mem_braces hsub 2 (by simp [openTail])) (by simp [implRules, openTail])
      have hc : (NT.ctl (.rep i .braces b mn none), [ESym.plain (.impl (.rep i .braces b mn none) 2)])
          ∈ compile G none := ctl_rule hctl (by simp [ctlRules, openTail])
      exact drv_rule none none hc (drv_rule none none hh (drv_append hrep htail))
    | some M =>
      have hM : mn ≤ M := by simpa [boundsOk] using hbo
      have hkM : mn + r ≤ M := hb.2 M rfl
      have hd : hiOf none (some M) - mn = M - mn := by simp [hiOf]
      have hc : (NT.ctl (.rep i .braces b mn (some M)), [ESym.plain (.impl (.rep i .braces b mn (some M)) (M - mn + 1))])
          ∈ compile G none := ctl_rule hctl (by simp [ctlRules, openTail, hiOf])
      by_cases hr0 : r = 0
      · subst hr0
        simp only [PowE] at hv
        subst hv
        simp only [scanAll, Option.some.injEq] at hs2
        subst hs2
        have hh : (NT.impl (.rep i .braces b mn (some M)) (M - mn + 1),
            List.replicate mn (ESym.plain (.impl (.rep i .braces b mn (some M)) 0))) ∈ compile G none :=
          impl_rule (impl_mem_braces hsub _ (by simp [openTail, hiOf]))
            (by rw [implRules_closed_head]; simp)
        exact drv_rule none none hc (drv_rule none none hh hrep)
      · have hdpos : M - mn ≠ 0 := by omega
        have hmem : ∀ j, j ≤ M - mn + 1 → NT.impl (.rep i .braces b mn (some M)) j ∈ allNTs G none :=
          fun j hj => impl_mem_braces hsub j (by simp [openTail, hiOf]; omega)
        have hr1 : ∀ j, 1 ≤ j → j ≤ M - mn →
            (NT.impl (.rep i .braces b mn (some M)) j, [ESym.plain (.impl (.rep i .braces b mn (some M)) 0)])
              ∈ compile G none := by
          intro j h1 h2
          apply impl_rule (hmem j (by omega))
          rw [implRules_closed_mid i b mn M j h1 h2]
          split <;> simp
        have hr2 : ∀ j, 2 ≤ j → j ≤ M - mn →
            (NT.impl (.rep i .braces b mn (some M)) j,
              [ESym.plain (.impl (.rep i .braces b mn (some M)) 0),
               ESym.plain (.impl (.rep i .braces b mn (some M)) (j - 1))]) ∈ compile G none := by
          intro j h1 h2
          apply impl_rule (hmem j (by omega))
          rw [implRules_closed_mid i b mn M j (by omega) h2, if_neg (by omega)]
          simp
        have hch := iter_chain (P := fun v => ExpWith c ntP b v) (M - mn) hr1 hr2
          (fun v p' m' hv hs' => drv_rule none none hw0 (hbody v p' m' hv hs'))
          (M - mn) (by omega) (Nat.le_refl _) r v m q (by omega) (by omega) hv hs2
        have hh : (NT.impl (.rep i .braces b mn (some M)) (M - mn + 1),
            List.replicate mn (ESym.plain (.impl (.rep i .braces b mn (some M)) 0)) ++
              [ESym.plain (.impl (.rep i .braces b mn (some M)) (M - mn))]) ∈ compile G none :=
          impl_rule (hmem _ (Nat.le_refl _)) (by rw [implRules_closed_head, if_neg hdpos]; simp)
        exact drv_rule none none hc (drv_rule none none hh (drv_append hrep hch))
theorem expAny_drv (hag : ScanAgree inp scan)
    (hnt : ∀ s a r w p q, ntP s w → scanAll inp w p = some q →
      Drv (compile G none) scan [ESym.n (.user s) a r] p q) :
    ∀ (ns : List Node) (w : List Term) (p q : Nat), nodesWf ns = true → SubOKL G ns → ExpAny c ntP ns w →
      scanAll inp w p = some q → ∃ m, m ∈ ns ∧ Drv (compile G none) scan [symOf m] p q
  | [], w, p, q, _, _, hw, _ => by simp [ExpAny] at hw
  | n :: ns, w, p, q, hwf, hsub, hw, hs => by
    simp only [ExpAny] at hw
    simp only [nodesWf, Bool.and_eq_true] at hwf
    rcases hw with hw | hw
    · exact ⟨n, by simp, expWith_drv hag hnt n w p q hwf.1 (subOK_head hsub) hw hs⟩
    · obtain ⟨m, hm, hd⟩ := expAny_drv hag hnt ns w p q hwf.2 (subOKL_tail hsub) hw hs
      exact ⟨m, by simp [hm], hd⟩
theorem expCat_drv (hag : ScanAgree inp scan)
    (hnt : ∀ s a r w p q, ntP s w → scanAll inp w p = some q →
      Drv (compile G none) scan [ESym.n (.user s) a r] p q) :
    ∀ (ns : List Node) (w : List Term) (p q : Nat), nodesWf ns = true → SubOKL G ns → ExpCat c ntP ns w →
      scanAll inp w p = some q → Drv (compile G none) scan (ns.map symOf) p q
  | [], w, p, q, _, _, hw, hs => by
    simp only [ExpCat] at hw
    subst hw
    simp only [scanAll, Option.some.injEq] at hs
    subst hs
    exact Drv.nil p
  | n :: ns, w, p, q, hwf, hsub, hw, hs => by
    simp only [ExpCat] at hw
    obtain ⟨a, b, ha, hb, rfl⟩ := hw
    simp only [nodesWf, Bool.and_eq_true] at hwf
    obtain ⟨m, h1, h2⟩ := (scanAll_append inp a b p q).mp hs
    exact drv_cons (expWith_drv hag hnt n a p m hwf.1 (subOK_head hsub) ha h1)
      (expCat_drv hag hnt ns b m q hwf.2 (subOKL_tail hsub) hb h2)
end

end nodes


/-! ### nonterminals: the whole grammar -/

theorem rule_mem {G : Grammar} {s : String} {body : Node} (h : G.rule s = some body) : (s, body) ∈ G.rules := by
  unfold Grammar.rule at h
  split at h
  · rename_i q hq
    cases h
    have hm := List.mem_of_find?_eq_some hq
    have he := List.find?_some hq
    have : q.1 = s := by simpa using he
    rw [← this]
    exact hm
  · cases h

theorem user_rule {G : Grammar} {s : String} {body : Node} (h : G.rule s = some body) :
    (NT.user s, [symOf body]) ∈ compile G none ∧ SubOK G body := by
  have hm := rule_mem h
  constructor
  · apply mem_compile_iff.2
    constructor
    · unfold allNTs
      rw [List.mem_flatMap]
      exact ⟨(s, body), hm, by simp⟩
    · simp [rulesOf, h]
  · intro y hy
    unfold allNTs
    rw [List.mem_flatMap]
    exact ⟨(s, body), hm, by simp [hy]⟩

/-- **STAGE 1 — the compiled table derives the language of the IR**: every expansion of `<s>` (nesting depth `≤ d`,
    repetition counts `≤ c`, any `d`, `c`) that the scanners read from column `p` to column `q` is derived by the
    helper rules of `compile G none` from `p` to `q`, with any scanner that reads what `Scan.scanT` reads. -/
theorem compile_complete (G : Grammar) (hwf : G.wf = true) (scan : Scan) (inp : Scan.Inp)
    (hag : ScanAgree inp scan) (c : Nat) :
    ∀ (d : Nat) (s : String) (a r : Option String) (w : List Term) (p q : Nat),
      ExpNT G c d s w → scanAll inp w p = some q →
      Drv (compile G none) scan [ESym.n (.user s) a r] p q
  | 0, s, a, r, w, p, q, h, _ => by simp [ExpNT] at h
  | d + 1, s, a, r, w, p, q, h, hs => by
    simp only [ExpNT] at h
    obtain ⟨body, hr, hw⟩ := h
    obtain ⟨hrule, hsub⟩ := user_rule hr
    have hd := expWith_drv (G := G) (c := c) (ntP := ExpNT G c d) hag
      (fun s' a' r' w' p' q' h' hs' => compile_complete G hwf scan inp hag c d s' a' r' w' p' q' h' hs')
      body w p q (rule_wf hwf hr) hsub hw hs
    exact drv_rule a r hrule hd

/-! ### the input of the machine as the scanner-level model sees it (used by STAGE 4 and by the converse,
`Proofs/EarleyTotalLang.lean`) -/

/-- the input as the scanner-level model sees it -/
def Input.toInp (inp : Input) : Scan.Inp := ⟨inp.cells, inp.rlen⟩

theorem startsWith_eq : ∀ (xs s : List Nat), Scan.startsWith xs s = startsWith xs s
  | _, [] => by simp [Scan.startsWith, startsWith]
  | [], _ :: _ => by simp [Scan.startsWith, startsWith]
  | a :: as, b :: bs => by simp [Scan.startsWith, startsWith, startsWith_eq as bs]

end FV.Earley
