/-
C05 / completeness of the Earley model, STAGE 2 (static half): a chart history that is closed under predict, scan and
complete — in the form the machine of `Model/Earley.lean` establishes, i.e. WITH the repetition shortcut — holds the
completed item for every derivation over the helper rules.

The shortcut (`place_repetition_shortcut`) replaces, at the end of a column, the waiting state `x → b • x` of a `*` / `+`
loop by a copy rooted at the origin of the loop's beginner.  The chart is therefore described by its *history*:

  `P j`     column `j` as it was when its processing ended (before its shortcut),
  `post j`  the `dot_map` of column `j` after its shortcut (what later columns look up),

and the classical statement "item `A → α•β` in column `k`, `β ⇒* [k, j)` ⟹ `A → αβ•` in column `j`" is proved for every
state except across the recursive occurrence of a loop nonterminal in its own rule; loops are handled at the level of
their beginner: `Leads D x k tgt` — "a state waiting for the loop nonterminal `x` in column `k` passes a completion of
`x` on to the state `tgt` (outside the loop)" — is what the shortcut preserves (`Closed.leads`).

`static_complete` is the result; `Proofs/EarleyComplete3.lean` shows that the machine builds a `Closed` history.
-/
import Proofs.EarleyComplete1
import Proofs.C04Chart
import Proofs.C04Compile
namespace FV.Earley

/-! ### sized derivations -/

inductive DrvN (rules : List CRule) (scan : Scan) : Nat → List ESym → Nat → Nat → Prop
  | nil (i : Nat) : DrvN rules scan 0 [] i i
  | term {n : Nat} {t : Term} {i m j : Nat} {l : Leaf} {ss : List ESym} :
      scan t i = some (m, l) → DrvN rules scan n ss m j → DrvN rules scan (n + 1) (.t t :: ss) i j
  | nt {a b : Nat} {x : NT} {a' r' : Option String} {rhs ss : List ESym} {i m j : Nat} :
      (x, rhs) ∈ rules → DrvN rules scan a rhs i m → DrvN rules scan b ss m j →
      DrvN rules scan (a + b + 1) (.n x a' r' :: ss) i j

theorem drvN_of_drv {rules : List CRule} {scan : Scan} {rhs : List ESym} {i j : Nat}
    (h : Drv rules scan rhs i j) : ∃ n, DrvN rules scan n rhs i j := by
  induction h with
  | nil i => exact ⟨0, DrvN.nil i⟩
  | term hs _ ih =>
    obtain ⟨n, hn⟩ := ih
    exact ⟨n + 1, DrvN.term hs hn⟩
  | nt hr _ _ ih1 ih2 =>
    obtain ⟨a, ha⟩ := ih1
    obtain ⟨b, hb⟩ := ih2
    exact ⟨a + b + 1, DrvN.nt hr ha hb⟩

theorem drvN_mono {rules : List CRule} {scan : Scan} (hm : ∀ t k e l, scan t k = some (e, l) → k ≤ e)
    {n : Nat} {rhs : List ESym} {i j : Nat} (h : DrvN rules scan n rhs i j) : i ≤ j := by
  induction h with
  | nil i => exact Nat.le_refl i
  | term hs _ ih => exact Nat.le_trans (hm _ _ _ _ hs) ih
  | nt _ _ _ ih1 ih2 => exact Nat.le_trans ih1 ih2

theorem drvN_split {rules : List CRule} {scan : Scan} : ∀ (a b : List ESym) (n i j : Nat),
    DrvN rules scan n (a ++ b) i j → ∃ n1 n2 m, n = n1 + n2 ∧ DrvN rules scan n1 a i m ∧ DrvN rules scan n2 b m j
  | [], b, n, i, j, h => ⟨0, n, i, by simp, DrvN.nil i, by simpa using h⟩
  | .t t :: a, b, n, i, j, h => by
    simp only [List.cons_append] at h
    cases h with
    | term hs hd =>
      obtain ⟨n1, n2, m, rfl, h1, h2⟩ := drvN_split a b _ _ _ hd
      exact ⟨n1 + 1, n2, m, by omega, DrvN.term hs h1, h2⟩
  | .n x a' r' :: a, b, n, i, j, h => by
    simp only [List.cons_append] at h
    cases h with
    | nt hr hd1 hd2 =>
      obtain ⟨n1, n2, m, rfl, h1, h2⟩ := drvN_split a b _ _ _ hd2
      exact ⟨_ + n1 + 1, n2, m, by omega, DrvN.nt hr hd1 h1, h2⟩

/-! ### items of a column -/

/-- the column holds a state with this core item -/
def HasIt (col : Col) (it : Item) : Prop := ∃ s, s ∈ col.states ∧ s.item = it

/-- the item with the dot moved over `n` symbols -/
def Item.adv (it : Item) (n : Nat) : Item := { it with dot := it.dot + n }

theorem Item.adv_zero (it : Item) : it.adv 0 = it := rfl
theorem Item.adv_next (it : Item) (n : Nat) : it.next.adv n = it.adv (n + 1) := by
  simp only [Item.adv, Item.next]
  congr 1
  omega

theorem drop_of_dotNT {it : Item} {x : NT} (h : it.dotNT? = some x) :
    ∃ a r, it.rhs.drop it.dot = ESym.n x a r :: it.rhs.drop (it.dot + 1) := by
  obtain ⟨a, r, hy⟩ := dotNT?_n h
  exact ⟨a, r, drop_of_sym hy⟩

theorem sym_of_drop {it : Item} {y : ESym} {rest : List ESym} (h : it.rhs.drop it.dot = y :: rest) :
    it.sym? = some y ∧ it.rhs.drop (it.dot + 1) = rest := by
  have hlt : it.dot < it.rhs.length := by
    apply Classical.byContradiction
    intro hn
    rw [List.drop_eq_nil_of_le (by omega)] at h
    cases h
  rw [List.drop_eq_getElem_cons hlt] at h
  simp only [List.cons.injEq] at h
  refine ⟨?_, h.2⟩
  unfold Item.sym?
  rw [List.getElem?_eq_getElem hlt, h.1]

theorem dotNT_of_sym {it : Item} {x : NT} {a r : Option String} (h : it.sym? = some (.n x a r)) :
    it.dotNT? = some x := by
  unfold Item.dotNT?
  rw [h]

/-! ### loops -/

/-- a state of `D k` waiting for the loop nonterminal `x` passes a completion of `x` from column `k` on to `tgt`:
    either it is `tgt` (a state outside the loop — the beginner), or it is the recursive state `x → b • x` and the
    states waiting for `x` in the column where IT started pass it on -/
inductive Leads (D : Nat → List St) (x : NT) : Nat → Item → Prop
  | base {k : Nat} {s : St} : s ∈ D k → s.item.dotNT? = some x → s.item.lhs ≠ x → Leads D x k s.item
  | step {k : Nat} {s : St} {tgt : Item} : s ∈ D k → s.item.dotNT? = some x → s.item.lhs = x →
      Leads D x s.item.origin tgt → Leads D x k tgt

theorem leads_waiter {D : Nat → List St} {x : NT} {k : Nat} {tgt : Item} (h : Leads D x k tgt) :
    ∃ w, w ∈ D k ∧ w.item.dotNT? = some x := by
  cases h with
  | base h1 h2 _ => exact ⟨_, h1, h2⟩
  | step h1 h2 _ _ => exact ⟨_, h1, h2⟩

theorem leads_congr {D D' : Nat → List St} {x : NT} (horg : ∀ o s, s ∈ D o → s.item.origin ≤ o)
    {k : Nat} {tgt : Item} (h : Leads D x k tgt) : (∀ o, o ≤ k → D o = D' o) → Leads D' x k tgt := by
  induction h with
  | base h1 h2 h3 =>
    intro he
    exact Leads.base (by rw [← he _ (Nat.le_refl _)]; exact h1) h2 h3
  | @step k s tgt h1 h2 h3 _ ih =>
    intro he
    have ho := horg _ _ h1
    exact Leads.step (by rw [← he _ (Nat.le_refl _)]; exact h1) h2 h3
      (ih (fun o hle => he o (Nat.le_trans hle ho)))

/-! ### closed chart histories -/

/-- the `dot_map` a completion in column `j` looks up for the origin column `o` -/
def Dof (P : Nat → Col) (post : Nat → List St) (j : Nat) : Nat → List St :=
  fun o => if o < j then post o else (P o).dots

structure Closed (c : Cfg) (P : Nat → Col) (post : Nat → List St) : Prop where
  /-- predict: every alternative of the dot symbol is in the column -/
  pred : ∀ j s y a r, s ∈ (P j).states → s.item.sym? = some (.n y a r) →
    ∀ rhs, (y, rhs) ∈ c.rules → HasIt (P j) { lhs := y, rhs := rhs, dot := 0, origin := j }
  /-- scan -/
  scan : ∀ j s t e l, s ∈ (P j).states → s.item.sym? = some (.t t) → c.scan t j = some (e, l) →
    HasIt (P e) s.item.next
  /-- complete (at the level of core items: the covering cut is accounted for by an uncut state with the same
      nonterminal and origin) -/
  comp : ∀ j t s, t ∈ (P j).states → t.item.finished = true → s ∈ Dof P post j t.item.origin →
    s.item.dotNT? = some t.item.lhs → HasIt (P j) s.item.next
  dots : ∀ j s, s ∈ (P j).states → s.item.sym?.isSome = true → ∃ s', s' ∈ (P j).dots ∧ s'.item = s.item
  dotsSt : ∀ j s, s ∈ (P j).dots → s ∈ (P j).states
  org : ∀ j s, s ∈ (P j).states → s.item.origin ≤ j
  orgPost : ∀ j s, s ∈ post j → s.item.origin ≤ j
  rule : ∀ j s, s ∈ (P j).states → (s.item.lhs, s.item.rhs) ∈ c.rules'
  rulePost : ∀ j s, s ∈ post j → (s.item.lhs, s.item.rhs) ∈ c.rules'
  /-- the shortcut only replaces states that wait for their own (loop) nonterminal -/
  keep : ∀ j s, s ∈ (P j).dots → (s.item.dotNT? = some s.item.lhs ∧ LoopNT c.rules s.item.lhs) ∨ s ∈ post j
  /-- … and the replacement passes completions on to the same states -/
  leads : ∀ j x tgt, LoopNT c.rules x → Leads (Dof P post j) x j tgt → Leads (Dof P post (j + 1)) x j tgt

section static
variable {c : Cfg} {P : Nat → Col} {post : Nat → List St}

theorem dof_org (hc : Closed c P post) (j o : Nat) (s : St) (h : s ∈ Dof P post j o) : s.item.origin ≤ o := by
  unfold Dof at h
  split at h
  · exact hc.orgPost o s h
  · exact hc.org o s (hc.dotsSt o s h)

theorem dof_rule (hc : Closed c P post) (j o : Nat) (s : St) (h : s ∈ Dof P post j o) :
    (s.item.lhs, s.item.rhs) ∈ c.rules' := by
  unfold Dof at h
  split at h
  · exact hc.rulePost o s h
  · exact hc.rule o s (hc.dotsSt o s h)

/-- a later column looks up the same `dot_map`s, and what the shortcut of column `k` left passes completions on to
    the same states -/
theorem leads_transfer (hc : Closed c P post) {x : NT} (hx : LoopNT c.rules x) {k j : Nat} (hkj : k ≤ j)
    {tgt : Item} (h : Leads (Dof P post k) x k tgt) : Leads (Dof P post j) x k tgt := by
  by_cases he : j = k
  · subst he; exact h
  · have h1 := hc.leads k x tgt hx h
    apply leads_congr (dof_org hc (k + 1)) h1
    intro o ho
    unfold Dof
    have h2 : o < k + 1 := by omega
    have h3 : o < j := by omega
    simp [h2, h3]

/-- the recursive rule of a loop nonterminal ends in the loop nonterminal -/
theorem loop_last (hs : SaneS c) {x : NT} (hx : LoopNT c.rules x) {rhs : List ESym} {p : Nat}
    {a r : Option String} (hr : (x, rhs) ∈ c.rules) (hp : rhs[p]? = some (ESym.n x a r)) : rhs.length = p + 1 := by
  obtain ⟨himp, hshape⟩ := hs.loop_shape x hx
  rcases hshape x rhs p a r hr hp with hb | ⟨_, hlen, _⟩
  · obtain ⟨n, rfl, _⟩ := beginner_eq hb
    simp [NT.explicit] at himp
  · exact hlen

theorem rules_of_loop (hs : SaneS c) {x : NT} (hx : LoopNT c.rules x) {rhs : List ESym}
    (h : (x, rhs) ∈ c.rules') : (x, rhs) ∈ c.rules :=
  rules_of_ne_start h (loop_ne_start hs hx)

/-- a completion of the loop nonterminal `x` from column `k`, present in column `j`, reaches every state the
    waiting states of column `k` lead to -/
theorem claimA (hc : Closed c P post) (hs : SaneS c) {x : NT} (hx : LoopNT c.rules x) (j : Nat) :
    ∀ (k : Nat) (tgt : Item), Leads (Dof P post j) x k tgt →
      ∀ t, t ∈ (P j).states → t.item.finished = true → t.item.lhs = x → t.item.origin = k →
        HasIt (P j) tgt.next := by
  intro k tgt h
  induction h with
  | @base k s h1 h2 _ =>
    intro t ht hfin hl ho
    exact hc.comp j t s ht hfin (by rw [ho]; exact h1) (by rw [hl]; exact h2)
  | @step k s tgt h1 h2 h3 _ ih =>
    intro t ht hfin hl ho
    obtain ⟨t', ht', hit'⟩ := hc.comp j t s ht hfin (by rw [ho]; exact h1) (by rw [hl]; exact h2)
    obtain ⟨a, r, hy⟩ := dotNT?_n h2
    have hr : (x, s.item.rhs) ∈ c.rules := by
      have := dof_rule hc j k s h1
      rw [h3] at this
      exact rules_of_loop hs hx this
    have hlen := loop_last hs hx hr (p := s.item.dot) (by simpa [Item.sym?] using hy)
    apply ih t' ht'
    · rw [hit']
      unfold Item.finished Item.next
      exact decide_eq_true (by simp only; omega)
    · rw [hit']; exact h3
    · rw [hit']; rfl

/-- the statement proved by induction on the size of the derivation: a state of column `k` whose right-hand side
    continues with `γ`, and `γ ⇒ [k, j)` — then column `j` holds the state with the dot behind `γ`; `γ` must not
    cross the recursive occurrence of a loop nonterminal in its own rule -/
def GenStmt (c : Cfg) (P : Nat → Col) (n : Nat) : Prop :=
  ∀ (k j : Nat) (s : St) (γ δ : List ESym), s ∈ (P k).states → s.item.rhs.drop s.item.dot = γ ++ δ →
    DrvN c.rules c.scan n γ k j → (LoopNT c.rules s.item.lhs → ∀ a r, ESym.n s.item.lhs a r ∉ γ) →
    HasIt (P j) (s.item.adv γ.length)

theorem chain (hc : Closed c P post) (hs : SaneS c) (hm : ∀ t k e l, c.scan t k = some (e, l) → k ≤ e)
    {x : NT} (hx : LoopNT c.rules x) :
    ∀ (n : Nat), (∀ m, m < n → GenStmt c P m) → ∀ (k j : Nat) (tgt : Item) (a r : Option String),
      Leads (Dof P post k) x k tgt → DrvN c.rules c.scan n [ESym.n x a r] k j → HasIt (P j) tgt.next := by
  intro n
  induction n using Nat.strongRecOn with
  | _ n ih =>
    intro hgen k j tgt a r hl hd
    cases hd with
    | @nt a1 b1 _ _ _ rhs _ _ m _ hr hd1 hd2 =>
      cases hd2
      -- the alternatives of `x` are in column `k`
      obtain ⟨w, hw, hwd⟩ := leads_waiter hl
      have hwk : w ∈ (P k).dots := by simpa [Dof] using hw
      obtain ⟨wa, wr, hwy⟩ := dotNT?_n hwd
      obtain ⟨s0, hs0, his0⟩ := hc.pred k w x wa wr (hc.dotsSt k w hwk) hwy rhs hr
      have hkj : k ≤ j := drvN_mono hm hd1
      by_cases hocc : ∃ (p : Nat) (a2 r2 : Option String), rhs[p]? = some (ESym.n x a2 r2)
      · -- the recursive rule `x → pre x`
        obtain ⟨p, a2, r2, hp⟩ := hocc
        have hlen := loop_last hs hx hr hp
        have hplt : p < rhs.length := by omega
        have hsplit : rhs = rhs.take p ++ [ESym.n x a2 r2] := by
          have h1 : rhs.drop p = [ESym.n x a2 r2] := by
            rw [List.drop_eq_getElem_cons hplt, List.drop_eq_nil_of_le (by omega)]
            have := (List.getElem?_eq_some_iff.1 hp).2
            rw [this]
          rw [← h1, List.take_append_drop]
        have hpre : ∀ a3 r3, ESym.n x a3 r3 ∉ rhs.take p := by
          intro a3 r3 hmem
          obtain ⟨q, hq⟩ := List.getElem?_of_mem hmem
          have hqlt : q < (rhs.take p).length := (List.getElem?_eq_some_iff.1 hq).1
          have hq' : rhs[q]? = some (ESym.n x a3 r3) := by
            rw [List.getElem?_take] at hq
            split at hq
            · exact hq
            · cases hq
          have := loop_last hs hx hr hq'
          simp only [List.length_take] at hqlt
          omega
        rw [hsplit] at hd1
        obtain ⟨n1, n2, k', hsum, h1, h2⟩ := drvN_split _ _ _ _ _ hd1
        have hg := hgen n1 (by omega) k k' s0 (rhs.take p) [ESym.n x a2 r2] hs0
          (by rw [his0]; simpa using hsplit) h1 (by intro _ a3 r3; rw [his0]; exact hpre a3 r3)
        obtain ⟨s1, hs1, his1⟩ := hg
        have hs1sym : s1.item.sym? = some (ESym.n x a2 r2) := by
          rw [his1, his0]
          simp only [Item.adv, Item.sym?, Nat.zero_add, List.length_take, Nat.min_eq_left (Nat.le_of_lt hplt)]
          exact hp
        obtain ⟨s1', hs1', his1'⟩ := hc.dots k' s1 hs1 (by rw [hs1sym]; rfl)
        have hkk' : k ≤ k' := drvN_mono hm h1
        have hl' : Leads (Dof P post k') x k' tgt := by
          apply Leads.step (s := s1') (by simpa [Dof] using hs1')
          · rw [his1']; exact dotNT_of_sym hs1sym
          · rw [his1', his1, his0]; rfl
          · have : s1'.item.origin = k := by rw [his1', his1, his0]; rfl
            rw [this]
            exact leads_transfer hc hx hkk' hl
        exact ih n2 (by omega) (fun m hm' => hgen m (by omega)) k' j tgt a2 r2 hl' h2
      · -- a rule of `x` without `x`
        have hno : ∀ a3 r3, ESym.n x a3 r3 ∉ rhs := by
          intro a3 r3 hmem
          obtain ⟨q, hq⟩ := List.getElem?_of_mem hmem
          exact hocc ⟨q, a3, r3, hq⟩
        have hg := hgen a1 (by omega) k j s0 rhs [] hs0 (by rw [his0]; simp) hd1
          (by intro _ a3 r3; rw [his0]; exact hno a3 r3)
        obtain ⟨t, ht, hit⟩ := hg
        apply claimA hc hs hx j k tgt (leads_transfer hc hx hkj hl) t ht
        · rw [hit, his0]; simp [Item.adv, Item.finished]
        · rw [hit, his0]; rfl
        · rw [hit, his0]; rfl

theorem gen (hc : Closed c P post) (hs : SaneS c) (hm : ∀ t k e l, c.scan t k = some (e, l) → k ≤ e) :
    ∀ n, GenStmt c P n := by
  intro n
  induction n using Nat.strongRecOn with
  | _ n ih =>
    intro k j s γ δ hsk hdrop hd hside
    cases γ with
    | nil =>
      cases hd
      exact ⟨s, hsk, rfl⟩
    | cons y γ' =>
      simp only [List.cons_append] at hdrop
      obtain ⟨hsym, hrest⟩ := sym_of_drop hdrop
      -- after the first symbol: continue with the rest
      have cont : ∀ (m b : Nat), b < n → HasIt (P m) s.item.next → DrvN c.rules c.scan b γ' m j →
          HasIt (P j) (s.item.adv (y :: γ').length) := by
        intro m b hb ⟨s1, hs1, his1⟩ hd'
        have := ih b hb m j s1 γ' δ hs1 (by rw [his1]; exact hrest) hd'
          (by
            intro hl a r hmem
            rw [his1] at hl hmem
            exact hside hl a r (List.mem_cons_of_mem _ hmem))
        rw [his1, Item.adv_next] at this
        exact this
      cases hd with
      | @term n' t _ m _ l _ hscan hd' =>
        exact cont m n' (by omega) (hc.scan k s t m l hsk hsym hscan) hd'
      | @nt a b x a' r' rhs _ _ m _ hr hd1 hd2 =>
        apply cont m b (by omega) ?_ hd2
        have hkm : k ≤ m := drvN_mono hm hd1
        obtain ⟨s', hs', his'⟩ := hc.dots k s hsk (by rw [hsym]; rfl)
        have hs'd : s'.item.dotNT? = some x := by rw [his']; exact dotNT_of_sym hsym
        by_cases hx : LoopNT c.rules x
        · -- a loop nonterminal: through the chain
          have hne : s.item.lhs ≠ x := by
            intro he
            exact hside (by rw [he]; exact hx) a' r' (by rw [he]; simp)
          have hl : Leads (Dof P post k) x k s'.item :=
            Leads.base (by simpa [Dof] using hs') hs'd (by rw [his']; exact hne)
          have := chain hc hs hm hx (a + 0 + 1) (fun m' hm' => ih m' (by omega)) k m s'.item a' r' hl
            (DrvN.nt hr hd1 (DrvN.nil m))
          rw [his'] at this
          exact this
        · obtain ⟨s0, hs0, his0⟩ := hc.pred k s x a' r' hsk hsym rhs hr
          obtain ⟨t, ht, hit⟩ := ih a (by omega) k m s0 rhs [] hs0 (by rw [his0]; simp) hd1
            (by intro hl; rw [his0] at hl; exact absurd hl hx)
          have hfin : t.item.finished = true := by rw [hit, his0]; simp [Item.adv, Item.finished]
          have hto : t.item.origin = k := by rw [hit, his0]; rfl
          have htl : t.item.lhs = x := by rw [hit, his0]; rfl
          have hin : s' ∈ Dof P post m t.item.origin := by
            rw [hto]
            unfold Dof
            split
            · rcases hc.keep k s' hs' with ⟨h1, h2⟩ | h
              · rw [hs'd] at h1
                have : s'.item.lhs = x := (Option.some.inj h1).symm
                rw [this] at h2
                exact absurd h2 hx
              · exact h
            · have : m = k := by omega
              exact hs'
          have := hc.comp m t s' ht hfin hin (by rw [htl]; exact hs'd)
          rw [his'] at this
          exact this

/-- **STAGE 2 (static half)**: in a closed chart history that holds the start state, every derivation of the start
    symbol over the columns `0 … j` puts the finished start item into column `j` -/
theorem static_complete (hc : Closed c P post) (hs : SaneS c)
    (hm : ∀ t k e l, c.scan t k = some (e, l) → k ≤ e)
    (h0 : HasIt (P 0) (startItem c.start)) {n j : Nat}
    (hd : DrvN c.rules c.scan n [ESym.plain (.user c.start)] 0 j) :
    HasIt (P j) (startItem c.start).next := by
  obtain ⟨s, hs0, his⟩ := h0
  have := gen hc hs hm n 0 j s [ESym.plain (.user c.start)] [] hs0 (by rw [his]; rfl) hd
    (by
      intro hl
      rw [his] at hl
      exact absurd rfl (loop_ne_start hs hl))
  rw [his] at this
  exact this

end static

end FV.Earley
