/-
C05 / completeness of the Earley model, STAGE 2–3 (dynamic half, part A): the invariant of the CURRENT column of the
machine of `Model/Earley.lean`, for every admission policy (duplicate ⇔ same item / same item and children, with or
without the covering cut), and how it evolves under the primitive moves of `step`:

* admitting a state into a column (`ci_add`),
* moving on to the next state of the column, opening / advancing / closing a `complete` loop, taking the next of the
  `complete` calls that end `predict`.

`CI.compC` is the heart: for a finished, uncut state `t` of the current column and a state `s` of `t`'s origin column
waiting for `t`'s nonterminal, the advanced state is in the column — or one of four excuses holds (`t` not yet
processed; the running `complete(t)` loop has not reached `s` yet; `complete(t)` is still pending at the end of
`predict`; `s` is a state of the current column that has not been processed yet — its `predict` will complete it,
/repo 1d73281f).  At the end of the column all excuses are gone.

`CI.covC` is what makes the covering cut (/repo 73e5ffe3) harmless at the level of core items: every nonterminal in
the covering set of a state is the nonterminal of an EARLIER finished state of the same column with the same origin.
-/
import Proofs.EarleyComplete2
import Proofs.EarleyGrow
namespace FV.Earley

/-! ### `Column.add` -/

theorem dup_item {p : Policy} {a b : St} (h : St.dup p a b = true) : a.item = b.item := by
  cases p <;> simp [St.dup] at h
  · exact h
  · exact h.1
  · exact h.1

theorem Col.add_spec (p : Policy) (col : Col) (s : St) :
    (Col.add p col s = col ∧ ∃ x, x ∈ col.states ∧ x.item = s.item) ∨
    ((Col.add p col s).states = col.states ++ [s] ∧
      (Col.add p col s).dots = if s.item.sym?.isSome then col.dots ++ [s] else col.dots) := by
  unfold Col.add
  split
  · rename_i h
    left
    refine ⟨rfl, ?_⟩
    obtain ⟨x, hx, hd⟩ := List.any_eq_true.1 h
    exact ⟨x, hx, dup_item hd⟩
  · right; exact ⟨rfl, rfl⟩

theorem hasIt_add (p : Policy) (col : Col) (s : St) : HasIt (Col.add p col s) s.item := by
  rcases Col.add_spec p col s with ⟨h, x, hx, hi⟩ | ⟨h, _⟩
  · rw [h]; exact ⟨x, hx, hi⟩
  · exact ⟨s, by rw [h]; simp, rfl⟩

theorem hasIt_add_mono (p : Policy) (col : Col) (s : St) {it : Item} (h : HasIt col it) :
    HasIt (Col.add p col s) it := by
  obtain ⟨x, hx, hi⟩ := h
  rcases Col.add_spec p col s with ⟨h, _⟩ | ⟨h, _⟩
  · rw [h]; exact ⟨x, hx, hi⟩
  · exact ⟨x, by rw [h]; simp [hx], hi⟩

/-! ### admitting into a chart -/

section addAt
variable (p : Policy) (cols : List Col) (e : Nat) (s : St)

theorem colAt_addAt_ne {j : Nat} (h : j ≠ e) : colAt (addAt p cols e s) j = colAt cols j := by
  rw [colAt_addAt]
  have : ¬ (j = e ∧ e < cols.length) := fun hh => h hh.1
  simp [this]

theorem colAt_addAt_self (he : e < cols.length) : colAt (addAt p cols e s) e = Col.add p (colAt cols e) s := by
  rw [colAt_addAt]; simp [he]

theorem colAt_addAt_out (he : cols.length ≤ e) : addAt p cols e s = cols := by
  unfold addAt; exact List.set_eq_of_length_le he

theorem hasIt_addAt_mono {j : Nat} {it : Item} (h : HasIt (colAt cols j) it) : HasIt (colAt (addAt p cols e s) j) it := by
  rw [colAt_addAt]
  split
  · rename_i hj
    rw [hj.1] at h
    exact hasIt_add_mono p _ s h
  · exact h

theorem hasIt_addAt (he : e < cols.length) : HasIt (colAt (addAt p cols e s) e) s.item := by
  rw [colAt_addAt_self p cols e s he]; exact hasIt_add p _ s

theorem states_addAt_cases {j : Nat} :
    (colAt (addAt p cols e s) j).states = (colAt cols j).states ∨
    (j = e ∧ (colAt (addAt p cols e s) j).states = (colAt cols j).states ++ [s]) := by
  rw [colAt_addAt]
  split
  · rename_i hj
    rcases Col.add_spec p (colAt cols e) s with ⟨h, _⟩ | ⟨h, _⟩
    · left; rw [h, hj.1]
    · right; exact ⟨hj.1, by rw [h, hj.1]⟩
  · left; rfl

theorem dots_addAt_cases {j : Nat} :
    (colAt (addAt p cols e s) j).dots = (colAt cols j).dots ∨
    (j = e ∧ s.item.sym?.isSome = true ∧ (colAt (addAt p cols e s) j).states = (colAt cols j).states ++ [s] ∧
      (colAt (addAt p cols e s) j).dots = (colAt cols j).dots ++ [s]) := by
  rw [colAt_addAt]
  split
  · rename_i hj
    rcases Col.add_spec p (colAt cols e) s with ⟨h, _⟩ | ⟨h1, h2⟩
    · left; rw [h, hj.1]
    · by_cases hsym : s.item.sym?.isSome = true
      · right
        refine ⟨hj.1, hsym, by rw [h1, hj.1], ?_⟩
        rw [h2, hj.1]; simp [hsym]
      · left
        rw [h2, hj.1]; simp [hsym]
  · left; rfl

theorem mem_states_addAt {j : Nat} {x : St} (h : x ∈ (colAt (addAt p cols e s) j).states) :
    x ∈ (colAt cols j).states ∨ (j = e ∧ x = s) := by
  rcases states_addAt_cases p cols e s (j := j) with h1 | ⟨h1, h2⟩
  · left; rw [← h1]; exact h
  · rw [h2] at h
    simp only [List.mem_append, List.mem_singleton] at h
    rcases h with h | h
    · exact Or.inl h
    · exact Or.inr ⟨h1, h⟩

theorem states_addAt_sub {j : Nat} {x : St} (h : x ∈ (colAt cols j).states) :
    x ∈ (colAt (addAt p cols e s) j).states := by
  rcases states_addAt_cases p cols e s (j := j) with h1 | ⟨_, h2⟩
  · rw [h1]; exact h
  · rw [h2]; simp [h]

theorem mem_dots_addAt {j : Nat} {x : St} (h : x ∈ (colAt (addAt p cols e s) j).dots) :
    x ∈ (colAt cols j).dots ∨ (j = e ∧ x = s ∧ s.item.sym?.isSome = true ∧
      (colAt (addAt p cols e s) j).states = (colAt cols j).states ++ [s]) := by
  rcases dots_addAt_cases p cols e s (j := j) with h1 | ⟨h1, h2, h3, h4⟩
  · left; rw [← h1]; exact h
  · rw [h4] at h
    simp only [List.mem_append, List.mem_singleton] at h
    rcases h with h | h
    · exact Or.inl h
    · exact Or.inr ⟨h1, h, h2, h3⟩

theorem dots_addAt_sub {j : Nat} {x : St} (h : x ∈ (colAt cols j).dots) :
    x ∈ (colAt (addAt p cols e s) j).dots := by
  rcases dots_addAt_cases p cols e s (j := j) with h1 | ⟨_, _, _, h2⟩
  · rw [h1]; exact h
  · rw [h2]; simp [h]

theorem getElem?_states_addAt {j n : Nat} {t : St} (h : (colAt cols j).states[n]? = some t) :
    (colAt (addAt p cols e s) j).states[n]? = some t := by
  rcases states_addAt_cases p cols e s (j := j) with h1 | ⟨_, h2⟩
  · rw [h1]; exact h
  · rw [h2, List.getElem?_append_left (List.getElem?_eq_some_iff.1 h).1]; exact h

theorem getElem?_states_addAt_inv {j n : Nat} {t : St} (h : (colAt (addAt p cols e s) j).states[n]? = some t) :
    (colAt cols j).states[n]? = some t ∨ (j = e ∧ n = (colAt cols j).states.length ∧ t = s) := by
  rcases states_addAt_cases p cols e s (j := j) with h1 | ⟨h1, h2⟩
  · left; rw [← h1]; exact h
  · rw [h2] at h
    by_cases hn : n < (colAt cols j).states.length
    · left; rw [List.getElem?_append_left hn] at h; exact h
    · right
      rw [List.getElem?_append_right (by omega)] at h
      have hlt := (List.getElem?_eq_some_iff.1 h).1
      simp only [List.length_singleton] at hlt
      have hz : n - (colAt cols j).states.length = 0 := by omega
      rw [hz] at h
      simp only [List.getElem?_cons_zero, Option.some.injEq] at h
      exact ⟨h1, by omega, h.symm⟩

theorem length_states_addAt_le {j : Nat} :
    (colAt cols j).states.length ≤ (colAt (addAt p cols e s) j).states.length := by
  rcases states_addAt_cases p cols e s (j := j) with h1 | ⟨_, h2⟩
  · rw [h1]; exact Nat.le_refl _
  · rw [h2]; simp

theorem findDot_addAt_prefix {j i : Nat} {x : NT} {s0 : St}
    (h : ((colAt cols j).findDot x)[i]? = some s0) : ((colAt (addAt p cols e s) j).findDot x)[i]? = some s0 := by
  unfold Col.findDot at h ⊢
  rcases dots_addAt_cases p cols e s (j := j) with h1 | ⟨_, _, _, h2⟩
  · rw [h1]; exact h
  · rw [h2, List.filter_append, List.getElem?_append_left (List.getElem?_eq_some_iff.1 h).1]; exact h

end addAt

/-! ### the invariant of the current column -/

/-- where the `complete(t)` call stands with respect to a waiting state `s` -/
def Excuse (m : M) (n : Nat) (t s : St) : Prop :=
  m.idx ≤ n ∨
  (∃ i i' : Nat, m.frame = some (t, i) ∧ i ≤ i' ∧ ((colAt m.cols t.item.origin).findDot t.item.lhs)[i']? = some s) ∨
  t ∈ m.pending ∨
  (t.item.origin = m.k ∧ ∃ ns : Nat, m.idx ≤ ns ∧ (colAt m.cols m.k).states[ns]? = some s)

structure CI (c : Cfg) (m : M) : Prop where
  len : m.cols.length = c.ncols
  idxLe : m.idx ≤ (colAt m.cols m.k).states.length
  dotsIn : ∀ j, m.k ≤ j → ∀ s, s ∈ (colAt m.cols j).states → s.item.sym?.isSome = true → s ∈ (colAt m.cols j).dots
  dotsSt : ∀ j, m.k ≤ j → ∀ s, s ∈ (colAt m.cols j).dots → s ∈ (colAt m.cols j).states
  org : ∀ j, m.k ≤ j → ∀ s, s ∈ (colAt m.cols j).states → s.item.origin ≤ j
  covCol : ∀ j, m.k ≤ j → ∀ s cc l, s ∈ (colAt m.cols j).states → s.cover = some (cc, l) →
    cc ≤ j ∧ (m.k < j → cc < j)
  covOld : ∀ j, j < m.k → ∀ s cc l, s ∈ (colAt m.cols j).dots → s.cover = some (cc, l) → cc ≤ j
  orgOld : ∀ j, j < m.k → ∀ s, s ∈ (colAt m.cols j).dots → s.item.origin ≤ j
  /-- predict is done for the processed states -/
  predC : ∀ n s, (colAt m.cols m.k).states[n]? = some s → n < m.idx → ∀ y a r, s.item.sym? = some (.n y a r) →
    ∀ rhs, (y, rhs) ∈ c.rules → HasIt (colAt m.cols m.k) { lhs := y, rhs := rhs, dot := 0, origin := m.k }
  /-- scan is done for the processed states -/
  scanC : ∀ n s, (colAt m.cols m.k).states[n]? = some s → n < m.idx → ∀ t e l, s.item.sym? = some (.t t) →
    c.scan t m.k = some (e, l) → HasIt (colAt m.cols e) s.item.next
  /-- complete -/
  compC : ∀ n t s, (colAt m.cols m.k).states[n]? = some t → t.item.finished = true →
    cyclicAt c.policy m.k t = false → s ∈ (colAt m.cols t.item.origin).dots → s.item.dotNT? = some t.item.lhs →
    HasIt (colAt m.cols m.k) s.item.next ∨ Excuse m n t s
  /-- the covering set of a state names earlier finished states of the column with the same origin -/
  covC : ∀ n t, (colAt m.cols m.k).states[n]? = some t → ∀ y, y ∈ (coverAt t m.k).getD [] →
    ∃ (n' : Nat) (t' : St), n' < n ∧ (colAt m.cols m.k).states[n']? = some t' ∧ t'.item.finished = true ∧ t'.item.lhs = y ∧
      t'.item.origin = t.item.origin
  frameIn : ∀ t i, m.frame = some (t, i) → (∃ n : Nat, (colAt m.cols m.k).states[n]? = some t) ∧ t.item.finished = true
  pendIn : ∀ t, t ∈ m.pending → (∃ n : Nat, (colAt m.cols m.k).states[n]? = some t) ∧ t.item.finished = true
  /-- the children of a processed finished `<*start*>` state of the last column have been yielded -/
  outC : ∀ n s, (colAt m.cols m.k).states[n]? = some s → n < m.idx → s.item.finished = true → s.item.lhs = .start →
    m.k + 1 = c.ncols → ∀ pt, pt ∈ s.kids → pt ∈ m.out

/-- admitting a state into column `e ≥ k` keeps the invariant -/
theorem ci_add {c : Cfg} {m : M} (h : CI c m) (e : Nat) (s' : St) (hke : m.k ≤ e)
    (horg : s'.item.origin ≤ e)
    (hcov1 : ∀ cc l, s'.cover = some (cc, l) → cc ≤ e ∧ (m.k < e → cc < e))
    (hcov2 : e = m.k → ∀ y, y ∈ (coverAt s' m.k).getD [] → ∃ (n' : Nat) (t' : St), (colAt m.cols m.k).states[n']? = some t' ∧
      t'.item.finished = true ∧ t'.item.lhs = y ∧ t'.item.origin = s'.item.origin) :
    CI c { m with cols := addAt c.policy m.cols e s' } := by
  refine ⟨by simp only [length_addAt]; exact h.len, ?_, ?_, ?_, ?_, ?_, ?_, ?_, ?_, ?_, ?_, ?_, ?_, ?_, ?_⟩
  · exact Nat.le_trans h.idxLe (length_states_addAt_le _ _ _ _)
  · -- dotsIn
    intro j hj x hx hsym
    rcases dots_addAt_cases c.policy m.cols e s' (j := j) with hd | ⟨hje, hs, hst, hd⟩
    · rcases mem_states_addAt _ _ _ _ hx with hx' | ⟨hje, hxs⟩
      · simp only at hd ⊢
        rw [hd]; exact h.dotsIn j hj x hx' hsym
      · -- the state was appended but the dots did not change: impossible when it has a dot symbol
        rcases Col.add_spec c.policy (colAt m.cols e) s' with ⟨hsame, _⟩ | ⟨h1, h2⟩
        · -- not admitted: the states did not change
          have : (colAt (addAt c.policy m.cols e s') j).states = (colAt m.cols j).states := by
            rw [colAt_addAt]; split
            · rename_i hh; rw [hsame, hh.1]
            · rfl
          try dsimp only at hx hd ⊢
          rw [this] at hx
          rw [hd]; exact h.dotsIn j hj x hx hsym
        · try dsimp only at hd ⊢
          subst hxs
          by_cases hel : e < m.cols.length
          · have : (colAt (addAt c.policy m.cols e x) j).dots = (colAt m.cols e).dots ++ [x] := by
              rw [hje, colAt_addAt_self _ _ _ _ hel, h2]; simp [hsym]
            rw [this]; simp
          · have := colAt_addAt_out c.policy m.cols e x (Nat.le_of_not_lt hel)
            rw [this] at hx ⊢
            exact h.dotsIn j hj x hx hsym
    · try dsimp only at hd hx ⊢
      rw [hd]
      rcases mem_states_addAt _ _ _ _ hx with hx' | ⟨_, hxs⟩
      · simp [h.dotsIn j hj x hx' hsym]
      · simp [hxs]
  · -- dotsSt
    intro j hj x hx
    rcases mem_dots_addAt _ _ _ _ hx with hx' | ⟨_, hxs, _, hst⟩
    · exact states_addAt_sub _ _ _ _ (h.dotsSt j hj x hx')
    · try dsimp only at hst ⊢
      rw [hst, hxs]; simp
  · -- org
    intro j hj x hx
    rcases mem_states_addAt _ _ _ _ hx with hx' | ⟨hje, hxs⟩
    · exact h.org j hj x hx'
    · rw [hxs, hje]; exact horg
  · -- covCol
    intro j hj x cc l hx hc
    rcases mem_states_addAt _ _ _ _ hx with hx' | ⟨hje, hxs⟩
    · exact h.covCol j hj x cc l hx' hc
    · rw [hxs] at hc; rw [hje]; exact hcov1 cc l hc
  · -- covOld
    intro j hj x cc l hx hc
    try dsimp only at hj hx
    rw [colAt_addAt_ne _ _ _ _ (by omega)] at hx
    exact h.covOld j hj x cc l hx hc
  · -- orgOld
    intro j hj x hx
    try dsimp only at hj hx
    rw [colAt_addAt_ne _ _ _ _ (by omega)] at hx
    exact h.orgOld j hj x hx
  · -- predC
    intro n x hn hlt y a r hsym rhs hr
    try dsimp only at hn hlt ⊢
    rcases getElem?_states_addAt_inv _ _ _ _ hn with hn' | ⟨_, hnl, _⟩
    · exact hasIt_addAt_mono _ _ _ _ (h.predC n x hn' hlt y a r hsym rhs hr)
    · have := h.idxLe; omega
  · -- scanC
    intro n x hn hlt t e' l hsym hsc
    try dsimp only at hn hlt ⊢
    rcases getElem?_states_addAt_inv _ _ _ _ hn with hn' | ⟨_, hnl, _⟩
    · exact hasIt_addAt_mono _ _ _ _ (h.scanC n x hn' hlt t e' l hsym hsc)
    · have := h.idxLe; omega
  · -- compC
    intro n t s hn hfin hcy hs hd
    try dsimp only at hn hs ⊢
    rcases getElem?_states_addAt_inv _ _ _ _ hn with hn' | ⟨_, hnl, _⟩
    · rcases mem_dots_addAt _ _ _ _ hs with hs' | ⟨hoe, hss, _, hst⟩
      · rcases h.compC n t s hn' hfin hcy hs' hd with hdone | hex
        · exact Or.inl (hasIt_addAt_mono _ _ _ _ hdone)
        · right
          rcases hex with h1 | ⟨i, i', h1, h2, h3⟩ | h1 | ⟨h1, ns, h2, h3⟩
          · exact Or.inl h1
          · exact Or.inr (Or.inl ⟨i, i', h1, h2, findDot_addAt_prefix _ _ _ _ h3⟩)
          · exact Or.inr (Or.inr (Or.inl h1))
          · exact Or.inr (Or.inr (Or.inr ⟨h1, ns, h2, getElem?_states_addAt _ _ _ _ h3⟩))
      · -- `s` is the new state, appended to the current column
        right; right; right; right
        have hto : t.item.origin = m.k := by
          have := h.org m.k (Nat.le_refl _) t (List.mem_of_getElem? hn')
          omega
        refine ⟨hto, (colAt m.cols t.item.origin).states.length, ?_, ?_⟩
        · rw [hto]; exact h.idxLe
        · try dsimp only at hst
          rw [hto] at hst ⊢
          rw [hst, hss]; simp
    · right; left
      have := h.idxLe
      try dsimp only
      omega
  · -- covC
    intro n t hn y hy
    try dsimp only at hn hy ⊢
    rcases getElem?_states_addAt_inv _ _ _ _ hn with hn' | ⟨hke', hnl, hts⟩
    · obtain ⟨n', t', h1, h2, h3⟩ := h.covC n t hn' y hy
      exact ⟨n', t', h1, getElem?_states_addAt _ _ _ _ h2, h3⟩
    · rw [hts] at hy ⊢
      obtain ⟨n', t', h2, h3⟩ := hcov2 hke'.symm y hy
      exact ⟨n', t', by rw [hnl]; exact (List.getElem?_eq_some_iff.1 h2).1, getElem?_states_addAt _ _ _ _ h2, h3⟩
  · -- frameIn
    intro t i hf
    obtain ⟨⟨n, hn⟩, h2⟩ := h.frameIn t i hf
    exact ⟨⟨n, getElem?_states_addAt _ _ _ _ hn⟩, h2⟩
  · -- pendIn
    intro t ht
    obtain ⟨⟨n, hn⟩, h2⟩ := h.pendIn t ht
    exact ⟨⟨n, getElem?_states_addAt _ _ _ _ hn⟩, h2⟩
  · -- outC
    intro n x hn hlt hfin hl hk pt hpt
    try dsimp only at hn hlt ⊢
    rcases getElem?_states_addAt_inv _ _ _ _ hn with hn' | ⟨_, hnl, _⟩
    · exact h.outC n x hn' hlt hfin hl hk pt hpt
    · have := h.idxLe; omega


/-! ### bookkeeping moves (the chart does not change) -/

theorem not_dotNT_of_finished {it : Item} (h : it.finished = true) : it.dotNT? = none := by
  unfold Item.finished at h
  have hle : it.rhs.length ≤ it.dot := of_decide_eq_true h
  unfold Item.dotNT? Item.sym?
  rw [List.getElem?_eq_none hle]

theorem mem_findDot_iff {col : Col} {x : NT} {s : St} : s ∈ col.findDot x ↔ s ∈ col.dots ∧ s.item.dotNT? = some x := by
  unfold Col.findDot
  rw [List.mem_filter]
  simp

/-- the next state of the column is finished: `complete` is called on it (unless the covering cut applies) -/
theorem ci_open {c : Cfg} {m : M} (h : CI c m) (hf : m.frame = none) (hp : m.pending = []) {u : St}
    (hu : (colAt m.cols m.k).states[m.idx]? = some u) (hfin : u.item.finished = true) (out' : List PT)
    (ho1 : ∀ pt, pt ∈ m.out → pt ∈ out')
    (ho2 : u.item.lhs = .start → m.k + 1 = c.ncols → ∀ pt, pt ∈ u.kids → pt ∈ out') :
    CI c { m with idx := m.idx + 1, frame := if cyclicAt c.policy m.k u then none else some (u, 0), out := out' } := by
  have hlt : m.idx < (colAt m.cols m.k).states.length := (List.getElem?_eq_some_iff.1 hu).1
  refine ⟨h.len, hlt, h.dotsIn, h.dotsSt, h.org, h.covCol, h.covOld, h.orgOld, ?_, ?_, ?_, h.covC, ?_, ?_, ?_⟩
  · intro n s hn hlt' y a r hsym rhs hr
    by_cases hni : n = m.idx
    · subst hni
      rw [hu] at hn; cases hn
      have := not_dotNT_of_finished hfin
      rw [dotNT_of_sym hsym] at this; cases this
    · exact h.predC n s hn (by simp only at hlt'; omega) y a r hsym rhs hr
  · intro n s hn hlt' t e l hsym hsc
    by_cases hni : n = m.idx
    · subst hni
      rw [hu] at hn; cases hn
      have := not_dotNT_of_finished hfin
      unfold Item.finished at hfin
      have hle := of_decide_eq_true hfin
      unfold Item.sym? at hsym
      rw [List.getElem?_eq_none hle] at hsym; cases hsym
    · exact h.scanC n s hn (by simp only at hlt'; omega) t e l hsym hsc
  · intro n t s hn hfin' hcy hs hd
    rcases h.compC n t s hn hfin' hcy hs hd with hdone | hex
    · exact Or.inl hdone
    · right
      rcases hex with h1 | ⟨i, i', h1, _⟩ | h1 | ⟨h1, ns, h2, h3⟩
      · by_cases hni : n = m.idx
        · subst hni
          rw [hu] at hn; cases hn
          right; left
          obtain ⟨i', hi'⟩ := List.getElem?_of_mem (mem_findDot_iff.2 ⟨hs, hd⟩)
          exact ⟨0, i', by simp [hcy], Nat.zero_le _, hi'⟩
        · left; simp only; omega
      · rw [hf] at h1; cases h1
      · rw [hp] at h1; cases h1
      · by_cases hni : ns = m.idx
        · subst hni
          rw [hu] at h3; cases h3
          rw [not_dotNT_of_finished hfin] at hd; cases hd
        · right; right; right
          exact ⟨h1, ns, by simp only; omega, h3⟩
  · intro t i hfr
    simp only at hfr
    split at hfr
    · cases hfr
    · cases hfr
      exact ⟨⟨m.idx, hu⟩, hfin⟩
  · intro t ht
    simp only at ht
    rw [hp] at ht; cases ht
  · intro n s hn hlt' hfin' hl hk pt hpt
    by_cases hni : n = m.idx
    · subst hni
      rw [hu] at hn; cases hn
      exact ho2 hl hk pt hpt
    · exact ho1 pt (h.outC n s hn (by simp only at hlt'; omega) hfin' hl hk pt hpt)

/-- the next state of the column has a terminal (or nothing) behind the dot, and its scan is in the chart -/
theorem ci_skip {c : Cfg} {m : M} (h : CI c m) (hf : m.frame = none) (hp : m.pending = []) {u : St}
    (hu : (colAt m.cols m.k).states[m.idx]? = some u) (hnf : u.item.finished = false)
    (hnt : u.item.dotNT? = none)
    (hsc : ∀ t e l, u.item.sym? = some (.t t) → c.scan t m.k = some (e, l) → HasIt (colAt m.cols e) u.item.next) :
    CI c { m with idx := m.idx + 1 } := by
  have hlt : m.idx < (colAt m.cols m.k).states.length := (List.getElem?_eq_some_iff.1 hu).1
  refine ⟨h.len, hlt, h.dotsIn, h.dotsSt, h.org, h.covCol, h.covOld, h.orgOld, ?_, ?_, ?_, h.covC, ?_, ?_, ?_⟩
  · intro n s hn hlt' y a r hsym rhs hr
    by_cases hni : n = m.idx
    · subst hni
      rw [hu] at hn; cases hn
      rw [dotNT_of_sym hsym] at hnt; cases hnt
    · exact h.predC n s hn (by simp only at hlt'; omega) y a r hsym rhs hr
  · intro n s hn hlt' t e l hsym hsc'
    by_cases hni : n = m.idx
    · subst hni
      rw [hu] at hn; cases hn
      exact hsc t e l hsym hsc'
    · exact h.scanC n s hn (by simp only at hlt'; omega) t e l hsym hsc'
  · intro n t s hn hfin' hcy hs hd
    rcases h.compC n t s hn hfin' hcy hs hd with hdone | hex
    · exact Or.inl hdone
    · right
      rcases hex with h1 | ⟨i, i', h1, _⟩ | h1 | ⟨h1, ns, h2, h3⟩
      · by_cases hni : n = m.idx
        · subst hni
          rw [hu] at hn; cases hn
          rw [hnf] at hfin'; cases hfin'
        · left; simp only; omega
      · rw [hf] at h1; cases h1
      · rw [hp] at h1; cases h1
      · by_cases hni : ns = m.idx
        · subst hni
          rw [hu] at h3; cases h3
          rw [hnt] at hd; cases hd
        · right; right; right
          exact ⟨h1, ns, by simp only; omega, h3⟩
  · intro t i hfr
    simp only at hfr
    rw [hf] at hfr; cases hfr
  · intro t ht
    simp only at ht
    rw [hp] at ht; cases ht
  · intro n s hn hlt' hfin' hl hk pt hpt
    by_cases hni : n = m.idx
    · subst hni
      rw [hu] at hn; cases hn
      rw [hnf] at hfin'; cases hfin'
    · exact h.outC n s hn (by simp only at hlt'; omega) hfin' hl hk pt hpt

theorem mem_doneOf_iff {col : Col} {k : Nat} {x : NT} {s : St} :
    s ∈ doneOf col k x ↔ s ∈ col.states ∧ s.item.origin = k ∧ s.item.lhs = x ∧ s.item.finished = true := by
  unfold doneOf
  rw [List.mem_filter]
  simp [and_assoc]

/-- the next state of the column has the nonterminal `y` behind the dot, its alternatives are in the column, and the
    finished empty derivations of `y` are queued (`predict` of /repo 1d73281f) -/
theorem ci_pred {c : Cfg} {m : M} (h : CI c m) (hf : m.frame = none) (hp : m.pending = []) {u : St}
    (hu : (colAt m.cols m.k).states[m.idx]? = some u) {y : NT} {a r : Option String}
    (hsym : u.item.sym? = some (.n y a r))
    (hpred : ∀ rhs, (y, rhs) ∈ c.rules → HasIt (colAt m.cols m.k) { lhs := y, rhs := rhs, dot := 0, origin := m.k }) :
    CI c { m with idx := m.idx + 1, pending := doneOf (colAt m.cols m.k) m.k y } := by
  have hlt : m.idx < (colAt m.cols m.k).states.length := (List.getElem?_eq_some_iff.1 hu).1
  have hnf : u.item.finished = false := by
    cases hfin : u.item.finished with
    | false => rfl
    | true =>
      have := not_dotNT_of_finished hfin
      rw [dotNT_of_sym hsym] at this; cases this
  refine ⟨h.len, hlt, h.dotsIn, h.dotsSt, h.org, h.covCol, h.covOld, h.orgOld, ?_, ?_, ?_, h.covC, ?_, ?_, ?_⟩
  · intro n s hn hlt' y' a' r' hsym' rhs hr
    by_cases hni : n = m.idx
    · subst hni
      rw [hu] at hn; cases hn
      rw [hsym] at hsym'; cases hsym'
      exact hpred rhs hr
    · exact h.predC n s hn (by simp only at hlt'; omega) y' a' r' hsym' rhs hr
  · intro n s hn hlt' t e l hsym' hsc'
    by_cases hni : n = m.idx
    · subst hni
      rw [hu] at hn; cases hn
      rw [hsym] at hsym'; cases hsym'
    · exact h.scanC n s hn (by simp only at hlt'; omega) t e l hsym' hsc'
  · intro n t s hn hfin' hcy hs hd
    rcases h.compC n t s hn hfin' hcy hs hd with hdone | hex
    · exact Or.inl hdone
    · right
      rcases hex with h1 | ⟨i, i', h1, _⟩ | h1 | ⟨h1, ns, h2, h3⟩
      · by_cases hni : n = m.idx
        · subst hni
          rw [hu] at hn; cases hn
          rw [hnf] at hfin'; cases hfin'
        · left; simp only; omega
      · rw [hf] at h1; cases h1
      · rw [hp] at h1; cases h1
      · by_cases hni : ns = m.idx
        · subst hni
          rw [hu] at h3; cases h3
          -- `s` is the state whose `predict` queues `complete(t)`
          right; right; left
          simp only
          rw [dotNT_of_sym hsym] at hd
          exact mem_doneOf_iff.2 ⟨List.mem_of_getElem? hn, h1, (Option.some.inj hd).symm, hfin'⟩
        · right; right; right
          exact ⟨h1, ns, by simp only; omega, h3⟩
  · intro t i hfr
    simp only at hfr
    rw [hf] at hfr; cases hfr
  · intro t ht
    simp only at ht
    obtain ⟨h1, _, _, h4⟩ := mem_doneOf_iff.1 ht
    obtain ⟨n, hn⟩ := List.getElem?_of_mem h1
    exact ⟨⟨n, hn⟩, h4⟩
  · intro n s hn hlt' hfin' hl hk pt hpt
    by_cases hni : n = m.idx
    · subst hni
      rw [hu] at hn; cases hn
      rw [hnf] at hfin'; cases hfin'
    · exact h.outC n s hn (by simp only at hlt'; omega) hfin' hl hk pt hpt

/-- the same without the queue (a `predict` that does not complete, before /repo 1d73281f) is NOT an invariant move;
    the running `complete(t0)` loop has handled the `i`-th waiting state -/
theorem ci_frame_next {c : Cfg} {m : M} (h : CI c m) {t0 : St} {i : Nat} (hf : m.frame = some (t0, i)) {s0 : St}
    (hs0 : ((colAt m.cols t0.item.origin).findDot t0.item.lhs)[i]? = some s0)
    (hdone : HasIt (colAt m.cols m.k) s0.item.next) :
    CI c { m with frame := some (t0, i + 1) } := by
  refine ⟨h.len, h.idxLe, h.dotsIn, h.dotsSt, h.org, h.covCol, h.covOld, h.orgOld, h.predC, h.scanC, ?_, h.covC, ?_,
    h.pendIn, h.outC⟩
  · intro n t s hn hfin' hcy hs hd
    rcases h.compC n t s hn hfin' hcy hs hd with hdone' | hex
    · exact Or.inl hdone'
    · rcases hex with h1 | ⟨i1, i', h1, h2, h3⟩ | h1 | h1
      · exact Or.inr (Or.inl h1)
      · rw [hf] at h1
        simp only [Option.some.injEq, Prod.mk.injEq] at h1
        obtain ⟨rfl, rfl⟩ := h1
        by_cases hi : i' = i
        · subst hi
          rw [hs0] at h3; cases h3
          exact Or.inl hdone
        · exact Or.inr (Or.inr (Or.inl ⟨i + 1, i', rfl, by omega, h3⟩))
      · exact Or.inr (Or.inr (Or.inr (Or.inl h1)))
      · exact Or.inr (Or.inr (Or.inr (Or.inr h1)))
  · intro t i' hfr
    simp only [Option.some.injEq, Prod.mk.injEq] at hfr
    obtain ⟨rfl, _⟩ := hfr
    exact h.frameIn t0 i hf

/-- the running `complete(t0)` loop has reached the end of the (live) list -/
theorem ci_frame_end {c : Cfg} {m : M} (h : CI c m) {t0 : St} {i : Nat} (hf : m.frame = some (t0, i))
    (hnone : ((colAt m.cols t0.item.origin).findDot t0.item.lhs)[i]? = none) :
    CI c { m with frame := none } := by
  refine ⟨h.len, h.idxLe, h.dotsIn, h.dotsSt, h.org, h.covCol, h.covOld, h.orgOld, h.predC, h.scanC, ?_, h.covC, ?_,
    h.pendIn, h.outC⟩
  · intro n t s hn hfin' hcy hs hd
    rcases h.compC n t s hn hfin' hcy hs hd with hdone' | hex
    · exact Or.inl hdone'
    · rcases hex with h1 | ⟨i1, i', h1, h2, h3⟩ | h1 | h1
      · exact Or.inr (Or.inl h1)
      · rw [hf] at h1
        simp only [Option.some.injEq, Prod.mk.injEq] at h1
        obtain ⟨rfl, rfl⟩ := h1
        have hlen := List.getElem?_eq_none_iff.1 hnone
        have hlt := (List.getElem?_eq_some_iff.1 h3).1
        omega
      · exact Or.inr (Or.inr (Or.inr (Or.inl h1)))
      · exact Or.inr (Or.inr (Or.inr (Or.inr h1)))
  · intro t i' hfr
    cases hfr

/-- the next of the `complete` calls that end `predict` -/
theorem ci_pend_pop {c : Cfg} {m : M} (h : CI c m) (hf : m.frame = none) {t0 : St} {rest : List St}
    (hp : m.pending = t0 :: rest) :
    CI c { m with pending := rest, frame := if cyclicAt c.policy m.k t0 then none else some (t0, 0) } := by
  refine ⟨h.len, h.idxLe, h.dotsIn, h.dotsSt, h.org, h.covCol, h.covOld, h.orgOld, h.predC, h.scanC, ?_, h.covC, ?_,
    ?_, h.outC⟩
  · intro n t s hn hfin' hcy hs hd
    rcases h.compC n t s hn hfin' hcy hs hd with hdone' | hex
    · exact Or.inl hdone'
    · rcases hex with h1 | ⟨i1, i', h1, _⟩ | h1 | h1
      · exact Or.inr (Or.inl h1)
      · rw [hf] at h1; cases h1
      · rw [hp] at h1
        rcases List.mem_cons.1 h1 with h1 | h1
        · subst h1
          right; right; left
          obtain ⟨i', hi'⟩ := List.getElem?_of_mem (mem_findDot_iff.2 ⟨hs, hd⟩)
          exact ⟨0, i', by simp [hcy], Nat.zero_le _, hi'⟩
        · exact Or.inr (Or.inr (Or.inr (Or.inl h1)))
      · exact Or.inr (Or.inr (Or.inr (Or.inr h1)))
  · intro t i hfr
    simp only at hfr
    split at hfr
    · cases hfr
    · cases hfr
      exact h.pendIn t0 (by rw [hp]; simp)
  · intro t ht
    exact h.pendIn t (by rw [hp]; simp [ht])

end FV.Earley
