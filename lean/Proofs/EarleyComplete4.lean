/-
C05 / completeness of the Earley model, STAGE 2–3 (dynamic half, part B): one step of `_consume` that stays in the
current column keeps the invariant `CI` of `Proofs/EarleyComplete3.lean` — for every admission policy, with the
covering cut, with the `complete` calls that end `predict`.
-/
import Proofs.EarleyComplete3
namespace FV.Earley

/-- what the completeness proof needs of the configuration -/
structure Full (c : Cfg) : Prop where
  /-- `predict` offers every alternative of the table -/
  pred : ∀ k y rhs, (y, rhs) ∈ c.rules → rhs ∈ c.pred k y
  /-- `predict` ends by completing the finished empty derivations (/repo 1d73281f) -/
  predDone : c.predDone = true
  /-- a scan moves forward … -/
  scanMono : ∀ t k e l, c.scan t k = some (e, l) → k ≤ e
  /-- … and stays inside the table (no `IndexError`) -/
  scanIn : ∀ t k e l, c.scan t k = some (e, l) → k < c.ncols → e < c.ncols

/-- the chart grew (or stayed), the current column is the same -/
structure Grow (m m' : M) : Prop where
  k : m'.k = m.k
  old : ∀ j, j < m.k → colAt m'.cols j = colAt m.cols j
  has : ∀ j it, HasIt (colAt m.cols j) it → HasIt (colAt m'.cols j) it
  out : ∀ pt, pt ∈ m.out → pt ∈ m'.out

/-! ### the cover of an advanced state -/

theorem advance_cov {p : Policy} {k : Nat} {t s s' : St} (h : advance p k t s = some s') :
    s'.cover = none ∨
    (s.item.origin = t.item.origin ∧
      s'.cover = some (k, t.item.lhs :: ((coverAt t k).getD [] ++
        (if t.item.origin = k then (coverAt s k).getD [] else [])))) ∨
    (s.item.origin ≠ t.item.origin ∧ s'.cover = s.cover) := by
  unfold advance at h
  cases p with
  | core => simp only [Option.some.injEq] at h; subst h; exact Or.inl rfl
  | impl => simp only [Option.some.injEq] at h; subst h; exact Or.inl rfl
  | acyclic =>
    simp only [Option.some.injEq] at h
    subst h
    by_cases ho : s.item.origin = t.item.origin
    · right; left
      refine ⟨ho, ?_⟩
      simp only [ho, if_true]
    · right; right
      refine ⟨ho, ?_⟩
      simp only [ho, if_false]

theorem coverAt_mem {s : St} {k : Nat} {y : NT} (h : y ∈ (coverAt s k).getD []) :
    ∃ l, s.cover = some (k, l) ∧ y ∈ l := by
  unfold coverAt at h
  split at h
  · rename_i cc l hc
    split at h
    · rename_i hck
      subst hck
      exact ⟨l, hc, by simpa using h⟩
    · simp at h
  · simp at h

theorem coverAt_of {s : St} {k : Nat} {l : List NT} (h : s.cover = some (k, l)) : (coverAt s k).getD [] = l := by
  unfold coverAt
  rw [h]
  simp

/-- the facts `ci_add` needs of the state `complete` builds -/
theorem advance_facts {c : Cfg} {m : M} (h : CI c m) {t0 : St} {i : Nat} (hf : m.frame = some (t0, i)) {s0 s' : St}
    (hs0 : s0 ∈ (colAt m.cols t0.item.origin).findDot t0.item.lhs)
    (hadv : advance c.policy m.k t0 s0 = some s') :
    s'.item = s0.item.next ∧ s'.item.origin ≤ m.k ∧
    (∀ cc l, s'.cover = some (cc, l) → cc ≤ m.k ∧ (m.k < m.k → cc < m.k)) ∧
    (∀ y, y ∈ (coverAt s' m.k).getD [] → ∃ (n' : Nat) (t' : St), (colAt m.cols m.k).states[n']? = some t' ∧
      t'.item.finished = true ∧ t'.item.lhs = y ∧ t'.item.origin = s'.item.origin) := by
  obtain ⟨⟨n0, hn0⟩, hfin0⟩ := h.frameIn t0 i hf
  have ht0mem : t0 ∈ (colAt m.cols m.k).states := List.mem_of_getElem? hn0
  have ht0org : t0.item.origin ≤ m.k := h.org m.k (Nat.le_refl _) t0 ht0mem
  obtain ⟨hs0d, hs0nt⟩ := mem_findDot_iff.1 hs0
  obtain ⟨a, r, hy⟩ := dotNT?_n hs0nt
  obtain ⟨hitem, _⟩ := advance_shape hy hadv
  -- where `s0` lives
  have hs0org : s0.item.origin ≤ t0.item.origin := by
    by_cases ho : t0.item.origin < m.k
    · exact h.orgOld _ ho s0 hs0d
    · have he : t0.item.origin = m.k := by omega
      rw [he] at hs0d ⊢
      exact h.org m.k (Nat.le_refl _) s0 (h.dotsSt m.k (Nat.le_refl _) s0 hs0d)
  have hs0cov : ∀ cc l, s0.cover = some (cc, l) → cc ≤ t0.item.origin := by
    intro cc l hc
    by_cases ho : t0.item.origin < m.k
    · exact h.covOld _ ho s0 cc l hs0d hc
    · have he : t0.item.origin = m.k := by omega
      rw [he] at hs0d ⊢
      exact (h.covCol m.k (Nat.le_refl _) s0 cc l (h.dotsSt m.k (Nat.le_refl _) s0 hs0d) hc).1
  have horg' : s'.item.origin = s0.item.origin := by rw [hitem]; rfl
  refine ⟨hitem, by rw [horg']; omega, ?_, ?_⟩
  · intro cc l hc
    refine ⟨?_, fun hlt => absurd hlt (Nat.lt_irrefl _)⟩
    rcases advance_cov hadv with h1 | ⟨_, h1⟩ | ⟨_, h1⟩
    · rw [h1] at hc; cases hc
    · rw [h1] at hc
      simp only [Option.some.injEq, Prod.mk.injEq] at hc
      omega
    · rw [h1] at hc
      have := hs0cov cc l hc
      omega
  · intro y hy'
    obtain ⟨l, hl, hyl⟩ := coverAt_mem hy'
    rcases advance_cov hadv with h1 | ⟨hoo, h1⟩ | ⟨hoo, h1⟩
    · rw [h1] at hl; cases hl
    · rw [h1] at hl
      simp only [Option.some.injEq, Prod.mk.injEq, true_and] at hl
      subst hl
      rcases List.mem_cons.1 hyl with rfl | hyl
      · exact ⟨n0, t0, hn0, hfin0, rfl, by rw [horg', hoo]⟩
      · rcases List.mem_append.1 hyl with hyl | hyl
        · obtain ⟨n', t', _, h2, h3, h4, h5⟩ := h.covC n0 t0 hn0 y hyl
          exact ⟨n', t', h2, h3, h4, by rw [h5, horg', hoo]⟩
        · split at hyl
          · rename_i hk
            rw [hk] at hs0d
            have hs0st := h.dotsSt m.k (Nat.le_refl _) s0 hs0d
            obtain ⟨ns, hns⟩ := List.getElem?_of_mem hs0st
            obtain ⟨n', t', _, h2, h3, h4, h5⟩ := h.covC ns s0 hns y hyl
            exact ⟨n', t', h2, h3, h4, by rw [h5, horg']⟩
          · cases hyl
    · rw [h1] at hl
      have hcc := hs0cov m.k l hl
      have he : t0.item.origin = m.k := by omega
      rw [he] at hs0d
      have hs0st := h.dotsSt m.k (Nat.le_refl _) s0 hs0d
      obtain ⟨ns, hns⟩ := List.getElem?_of_mem hs0st
      have hyc : y ∈ (coverAt s0 m.k).getD [] := by rw [coverAt_of hl]; exact hyl
      obtain ⟨n', t', _, h2, h3, h4, h5⟩ := h.covC ns s0 hns y hyc
      exact ⟨n', t', h2, h3, h4, by rw [h5, horg']⟩

/-! ### the loop that adds the alternatives in `predict` -/

theorem ci_fold_pred {c : Cfg} (m : M) (hk : m.k < c.ncols) (y : NT) (alts : List (List ESym)) :
    ∀ cols : List Col, CI c { m with cols := cols } →
      CI c { m with cols := alts.foldl (fun cs rhs => addAt c.policy cs m.k
        { item := { lhs := y, rhs := rhs, dot := 0, origin := m.k }, kids := [] }) cols } ∧
      (∀ j it, HasIt (colAt cols j) it → HasIt (colAt (alts.foldl (fun cs rhs => addAt c.policy cs m.k
        { item := { lhs := y, rhs := rhs, dot := 0, origin := m.k }, kids := [] }) cols) j) it) ∧
      (∀ j, j < m.k → colAt (alts.foldl (fun cs rhs => addAt c.policy cs m.k
        { item := { lhs := y, rhs := rhs, dot := 0, origin := m.k }, kids := [] }) cols) j = colAt cols j) ∧
      (∀ rhs, rhs ∈ alts → HasIt (colAt (alts.foldl (fun cs rhs => addAt c.policy cs m.k
        { item := { lhs := y, rhs := rhs, dot := 0, origin := m.k }, kids := [] }) cols) m.k)
          { lhs := y, rhs := rhs, dot := 0, origin := m.k }) := by
  induction alts with
  | nil => intro cols h; exact ⟨h, fun _ _ hh => hh, fun _ _ => rfl, fun _ hr => by cases hr⟩
  | cons rhs rest ih =>
    intro cols h
    simp only [List.foldl_cons]
    have hlen : m.k < cols.length := by have := h.len; simp only at this; omega
    have h1 := ci_add h m.k { item := { lhs := y, rhs := rhs, dot := 0, origin := m.k }, kids := [] }
      (Nat.le_refl _) (Nat.le_refl _) (by intro cc l hc; cases hc)
      (by intro _ y' hy'; simp [coverAt] at hy')
    obtain ⟨g1, g2, g3, g4⟩ := ih _ h1
    refine ⟨g1, ?_, ?_, ?_⟩
    · intro j it hh
      exact g2 j it (hasIt_addAt_mono _ _ _ _ hh)
    · intro j hj
      rw [g3 j hj, colAt_addAt_ne _ _ _ _ (by omega)]
    · intro rhs' hr
      rcases List.mem_cons.1 hr with rfl | hr
      · exact g2 _ _ (hasIt_addAt c.policy cols m.k _ hlen)
      · exact g4 rhs' hr

/-! ### one step inside a column -/

/-- a step that does not end the column keeps `CI` and only lets the chart grow; the only other step is the end of
    the column -/
theorem ci_step {c : Cfg} (hfull : Full c) {m m' : M} (h : CI c m) (hst : step c m = .next m') :
    (CI c m' ∧ Grow m m') ∨
    (m.frame = none ∧ m.pending = [] ∧ (colAt m.cols m.k).states[m.idx]? = none ∧ m.k < c.ncols ∧
      m' = { m with cols := shortcut m.cols m.k, k := m.k + 1, idx := 0 }) := by
  have hgrefl : ∀ (m1 : M), m1.cols = m.cols → m1.k = m.k → (∀ pt, pt ∈ m.out → pt ∈ m1.out) → Grow m m1 :=
    fun m1 h1 h2 h3 => ⟨h2, fun j _ => by rw [h1], fun j it hh => by rw [h1]; exact hh, h3⟩
  unfold step at hst
  split at hst
  · cases hst
  · rename_i hk
    have hk : m.k < c.ncols := by omega
    have hkl : m.k < m.cols.length := by rw [h.len]; exact hk
    split at hst
    · -- an active `complete`
      rename_i t0 i hf
      split at hst
      · rename_i hnone
        cases hst
        exact Or.inl ⟨ci_frame_end h hf hnone, hgrefl _ rfl rfl (fun _ hp => hp)⟩
      · rename_i s0 hs0
        have hs0mem : s0 ∈ (colAt m.cols t0.item.origin).findDot t0.item.lhs := List.mem_of_getElem? hs0
        split at hst
        · rename_i s' hadv
          cases hst
          obtain ⟨hitem, horg, hc1, hc2⟩ := advance_facts h hf hs0mem hadv
          have h1 := ci_add h m.k s' (Nat.le_refl _) horg hc1 (fun _ => hc2)
          have h2 := ci_frame_next (m := { m with cols := addAt c.policy m.cols m.k s' }) h1 hf
            (findDot_addAt_prefix _ _ _ _ hs0)
            (by rw [← hitem]; exact hasIt_addAt c.policy m.cols m.k s' hkl)
          refine Or.inl ⟨h2, ⟨rfl, ?_, ?_, fun _ hp => hp⟩⟩
          · intro j hj
            exact colAt_addAt_ne _ _ _ _ (by omega)
          · intro j it hh
            exact hasIt_addAt_mono _ _ _ _ hh
        · -- `advance` never refuses in the model
          rename_i hadv
          exfalso
          unfold advance at hadv
          cases hp : c.policy <;> simp [hp] at hadv
    · rename_i hf
      split at hst
      · rename_i t0 rest hp
        cases hst
        exact Or.inl ⟨ci_pend_pop h hf hp, hgrefl _ rfl rfl (fun _ hp => hp)⟩
      · rename_i hp
        split at hst
        · rename_i hnone
          cases hst
          exact Or.inr ⟨hf, hp, hnone, hk, rfl⟩
        · rename_i u hu
          have humem : u ∈ (colAt m.cols m.k).states := List.mem_of_getElem? hu
          split at hst
          · -- finished
            rename_i hfin
            cases hst
            refine Or.inl ⟨ci_open h hf hp hu hfin _ ?_ ?_, hgrefl _ rfl rfl ?_⟩
            · intro pt hpt
              split
              · exact List.mem_append_left _ hpt
              · exact hpt
            · intro hl hk' pt hpt
              rw [if_pos ⟨hl, hk'⟩]
              exact List.mem_append_right _ hpt
            · intro pt hpt
              simp only
              split
              · exact List.mem_append_left _ hpt
              · exact hpt
          · rename_i hnf
            have hnf' : u.item.finished = false := by
              cases hh : u.item.finished with
              | false => rfl
              | true => exact absurd hh hnf
            split at hst
            · -- nothing behind the dot (impossible for an unfinished state, but a branch of the model)
              rename_i hsym
              cases hst
              refine Or.inl ⟨ci_skip h hf hp hu hnf' (by unfold Item.dotNT?; rw [hsym]) ?_, hgrefl _ rfl rfl (fun _ hp => hp)⟩
              intro t e l hs; rw [hsym] at hs; cases hs
            · -- predict
              rename_i y a r hsym
              cases hst
              obtain ⟨g1, g2, g3, g4⟩ := ci_fold_pred (c := c) m hk y (c.pred m.k y) m.cols h
              have h2 := ci_pred (m := { m with cols := (c.pred m.k y).foldl (fun cs rhs => addAt c.policy cs m.k
                  { item := { lhs := y, rhs := rhs, dot := 0, origin := m.k }, kids := [] }) m.cols }) g1 hf hp
                (u := u) (by
                  obtain ⟨it, hit⟩ : ∃ it, it = u.item := ⟨_, rfl⟩
                  have hlt := (List.getElem?_eq_some_iff.1 hu).1
                  -- the states of the column are a prefix of the new ones
                  have : ∀ (alts : List (List ESym)) (cols : List Col), (colAt cols m.k).states[m.idx]? = some u →
                      (colAt (alts.foldl (fun cs rhs => addAt c.policy cs m.k
                        { item := { lhs := y, rhs := rhs, dot := 0, origin := m.k }, kids := [] }) cols) m.k).states[m.idx]?
                        = some u := by
                    intro alts
                    induction alts with
                    | nil => intro cols hh; exact hh
                    | cons rhs rest ih =>
                      intro cols hh
                      simp only [List.foldl_cons]
                      exact ih _ (getElem?_states_addAt _ _ _ _ hh)
                  exact this _ _ hu) hsym
                (fun rhs hr => g4 rhs (hfull.pred m.k y rhs hr))
              rw [hfull.predDone]
              refine Or.inl ⟨h2, ⟨rfl, g3, g2, fun _ hp => hp⟩⟩
            · -- scan
              rename_i term hsym
              split at hst
              · rename_i hsc
                cases hst
                refine Or.inl ⟨ci_skip h hf hp hu hnf' (by unfold Item.dotNT?; rw [hsym]) ?_, hgrefl _ rfl rfl (fun _ hp => hp)⟩
                intro t e l hs hsc'
                rw [hsym] at hs
                cases hs
                rw [hsc] at hsc'; cases hsc'
              · rename_i e l hsc
                have hke := hfull.scanMono term m.k e l hsc
                have hen := hfull.scanIn term m.k e l hsc hk
                split at hst
                · rename_i hbad; omega
                · cases hst
                  have hel : e < m.cols.length := by rw [h.len]; exact hen
                  have huorg := h.org m.k (Nat.le_refl _) u humem
                  have h1 := ci_add h e { item := u.item.next, kids := u.kids ++ [PT.leaf l], cover := u.cover } hke
                    (by simp only [Item.next]; omega)
                    (by
                      intro cc l' hc
                      have := (h.covCol m.k (Nat.le_refl _) u cc l' humem hc).1
                      exact ⟨by omega, fun _ => by omega⟩)
                    (by
                      intro _ y hy
                      have hy' : y ∈ (coverAt u m.k).getD [] := hy
                      obtain ⟨n', t', _, h2, h3, h4, h5⟩ := h.covC m.idx u hu y hy'
                      exact ⟨n', t', h2, h3, h4, h5⟩)
                  have h2 := ci_skip (m := { m with cols := (addAt c.policy m.cols e
                      ({ item := u.item.next, kids := u.kids ++ [PT.leaf l], cover := u.cover } : St)) }) h1 hf hp
                    (u := u) (getElem?_states_addAt _ _ _ _ hu) hnf' (by unfold Item.dotNT?; rw [hsym])
                    (by
                      intro t e' l' hs hsc'
                      rw [hsym] at hs
                      cases hs
                      rw [hsc] at hsc'
                      cases hsc'
                      exact hasIt_addAt c.policy m.cols e
                        { item := u.item.next, kids := u.kids ++ [PT.leaf l], cover := u.cover } hel)
                  refine Or.inl ⟨h2, ⟨rfl, ?_, ?_, fun _ hp => hp⟩⟩
                  · intro j hj
                    exact colAt_addAt_ne _ _ _ _ (by omega)
                  · intro j it hh
                    exact hasIt_addAt_mono _ _ _ _ hh

end FV.Earley
