/-
C05 / completeness of the Earley model, STAGE 3 (the repetition shortcut loses nothing): what
`place_repetition_shortcut` does to the `dot_map` of a column, in the terms of `Proofs/EarleyComplete2.lean`:

* `K1`  only states waiting for their own loop nonterminal are taken out,
* `K2`  what is put in is rooted no later than the column and carries no covering set,
* `K3`  `Leads`: the replacement passes a completion of the loop nonterminal on to the same outside states.
-/
import Proofs.EarleyComplete4
namespace FV.Earley

/-! ### list surgery -/

theorem mem_eraseItem_of_ne {it : Item} {y : St} {l : List St} (hy : y ∈ l) (hne : y.item ≠ it) :
    y ∈ eraseItem it l := by
  induction l with
  | nil => cases hy
  | cons a as ih =>
    unfold eraseItem
    split
    · rename_i ha
      rcases List.mem_cons.1 hy with rfl | hy
      · exact absurd ha hne
      · exact hy
    · rcases List.mem_cons.1 hy with rfl | hy
      · simp
      · simp [ih hy]

theorem mem_replaceItem_of_ne {it : Item} {new y : St} {l : List St} (hy : y ∈ l) (hne : y.item ≠ it) :
    y ∈ replaceItem it new l := by
  induction l with
  | nil => cases hy
  | cons a as ih =>
    unfold replaceItem
    split
    · rename_i ha
      rcases List.mem_cons.1 hy with rfl | hy
      · exact absurd ha hne
      · simp [hy]
    · rcases List.mem_cons.1 hy with rfl | hy
      · simp
      · simp [ih hy]

/-- the `dot_map`s of a chart -/
def dotsOf (cs : List Col) : Nat → List St := fun o => (colAt cs o).dots

theorem loop_not_beginner {c : Cfg} (hs : SaneS c) {x : NT} (hx : LoopNT c.rules x) : x.beginner = false := by
  cases hb : x.beginner with
  | false => rfl
  | true =>
    obtain ⟨n, rfl, _⟩ := beginner_eq hb
    have := (hs.loop_shape _ hx).1
    simp [NT.explicit] at this

/-- a state of a good chart that waits for the loop nonterminal `x` is the beginner or a state of `x` itself -/
theorem waiter_shape {c : Cfg} (hs : SaneS c) {x : NT} (hx : LoopNT c.rules x) {o : St} {j : Nat}
    (hg : Good c o j) (hd : o.item.dotNT? = some x) : o.item.lhs.beginner = true ∨ o.item.lhs = x := by
  obtain ⟨himp, hshape⟩ := hs.loop_shape x hx
  obtain ⟨a, r, hoy⟩ := dotNT?_n hd
  have hol : o.item.lhs ≠ .start := by
    intro he
    have h1 := hg.1
    unfold Cfg.rules' at h1
    rcases List.mem_cons.1 h1 with h2 | h2
    · have h3 : o.item.rhs = [ESym.plain (.user c.start)] := (Prod.mk.inj h2).2
      have hmem : ESym.n x a r ∈ o.item.rhs := by
        unfold Item.sym? at hoy; exact List.mem_of_getElem? hoy
      rw [h3] at hmem
      simp only [ESym.plain, List.mem_singleton, ESym.n.injEq] at hmem
      rw [hmem.1] at himp
      simp [NT.explicit] at himp
    · rw [he] at h2; exact hs.start_no_rule _ h2
  have hor := rules_of_ne_start hg.1 hol
  rcases hshape o.item.lhs o.item.rhs o.item.dot a r hor hoy with hb | ⟨hlx, _, _⟩
  · exact Or.inl hb
  · exact Or.inr hlx

/-! ### the walk -/

theorem walk_spec {c : Cfg} (hs : SaneS c) {cs : List Col} {k : Nat} (hg : GoodCols c cs)
    (horg : ∀ j, j < k → ∀ s, s ∈ (colAt cs j).dots → s.item.origin ≤ j) {x : NT} (hx : LoopNT c.rules x)
    (D : Nat → List St) (hD : ∀ o, o < k → D o = (colAt cs o).dots) :
    ∀ (fuel : Nat) (new0 o0 res : St), new0.item.origin < k → (colAt cs new0.item.origin).findDot x = [o0] →
      shortcutWalk cs x fuel new0 o0 = some res →
      res.item.lhs = new0.item.lhs ∧ res.item.rhs = new0.item.rhs ∧ res.item.dot = new0.item.dot ∧
      res.item.origin ≤ new0.item.origin ∧ (res = new0 ∨ res.cover = none) ∧
      ∀ tgt, Leads D x new0.item.origin tgt → Leads D x res.item.origin tgt := by
  intro fuel
  induction fuel with
  | zero => intro new0 o0 res _ _ h; simp [shortcutWalk] at h
  | succ f ih =>
    intro new0 o0 res hlt hfd h
    unfold shortcutWalk at h
    split at h
    · cases h
      exact ⟨rfl, rfl, rfl, Nat.le_refl _, Or.inl rfl, fun _ hl => hl⟩
    · rename_i hnb
      have ho0mem : o0 ∈ (colAt cs new0.item.origin).findDot x := by rw [hfd]; simp
      obtain ⟨ho0d, ho0nt⟩ := mem_findDot_iff.1 ho0mem
      have ho0org := horg _ hlt o0 ho0d
      have ho0g : Good c o0 new0.item.origin := hg.2 _ _ ho0d
      have ho0x : o0.item.lhs = x := by
        rcases waiter_shape hs hx ho0g ho0nt with hb | hl
        · exact absurd hb hnb
        · exact hl
      simp only at h
      split at h
      · rename_i o' heq
        obtain ⟨h1, h2, h3, h4, h5, h6⟩ := ih
          ({ item := { new0.item with origin := o0.item.origin }, kids := o0.kids ++ new0.kids } : St) o' res
          (by simp only; omega) heq h
        refine ⟨h1, h2, h3, by simp only at h4; omega, ?_, ?_⟩
        · right
          rcases h5 with h5 | h5
          · rw [h5]
          · exact h5
        · intro tgt hl
          apply h6
          simp only
          -- the only state waiting for `x` in that column is `o0`
          cases hl with
          | @base _ s hs1 hs2 hs3 =>
            rw [hD _ hlt] at hs1
            have : s ∈ (colAt cs new0.item.origin).findDot x := mem_findDot_iff.2 ⟨hs1, hs2⟩
            rw [hfd] at this
            simp only [List.mem_singleton] at this
            subst this
            exact absurd ho0x hs3
          | @step _ s _ hs1 hs2 hs3 hrest =>
            rw [hD _ hlt] at hs1
            have : s ∈ (colAt cs new0.item.origin).findDot x := mem_findDot_iff.2 ⟨hs1, hs2⟩
            rw [hfd] at this
            simp only [List.mem_singleton] at this
            subst this
            exact hrest
      · cases h

/-- a walk that starts in the column it reads from never ends -/
theorem walk_stuck {c : Cfg} (hs : SaneS c) {cs : List Col} {x : NT} (hx : LoopNT c.rules x) {cur : St}
    (hcl : cur.item.lhs = x) (hfd : (colAt cs cur.item.origin).findDot x = [cur]) :
    ∀ (fuel : Nat) (new0 : St), new0.item.origin = cur.item.origin → shortcutWalk cs x fuel new0 cur = none := by
  intro fuel
  induction fuel with
  | zero => intro new0 _; simp [shortcutWalk]
  | succ f ih =>
    intro new0 ho
    unfold shortcutWalk
    have hnb : cur.item.lhs.beginner = false := by rw [hcl]; exact loop_not_beginner hs hx
    simp only [hnb, Bool.false_eq_true, if_false, hfd]
    exact ih _ rfl

/-! ### one beginner -/

theorem mem_states_lt' {cols : List Col} {j : Nat} {s : St} (h : s ∈ (colAt cols j).states) : j < cols.length := by
  apply Classical.byContradiction
  intro hn
  rw [colAt_out _ _ (Nat.le_of_not_lt hn)] at h
  cases h

/-- every state of `<x>` in the column that has a symbol behind the dot is in the `dot_map` -/
def DIx (cs : List Col) (k : Nat) (x : NT) : Prop :=
  ∀ s, s ∈ (colAt cs k).states → s.item.lhs = x → s.item.sym?.isSome = true → s ∈ (colAt cs k).dots

structure OneStep (c : Cfg) (cs cs' : List Col) (k : Nat) (x : NT) : Prop where
  len : cs'.length = cs.length
  other : ∀ j, j ≠ k → colAt cs' j = colAt cs j
  k1 : ∀ s, s ∈ (colAt cs k).dots →
    (s.item.dotNT? = some s.item.lhs ∧ s.item.lhs = x) ∨ s ∈ (colAt cs' k).dots
  k2 : ∀ s, s ∈ (colAt cs' k).dots → s ∈ (colAt cs k).dots ∨ (s.cover = none ∧ s.item.origin ≤ k)
  k3 : ∀ x' tgt, Leads (dotsOf cs) x' k tgt → Leads (dotsOf cs') x' k tgt
  di : ∀ x', x' ≠ x → DIx cs k x' → DIx cs' k x'

theorem oneStep_refl (c : Cfg) (cs : List Col) (k : Nat) (x : NT) : OneStep c cs cs k x :=
  ⟨rfl, fun _ _ => rfl, fun _ h => Or.inr h, fun _ h => Or.inl h, fun _ _ h => h, fun _ _ h => h⟩

theorem shortcutOne_spec {c : Cfg} (hs : SaneS c) {cs : List Col} {k : Nat} (hg : GoodCols c cs)
    (horg : ∀ j, j ≤ k → ∀ s, s ∈ (colAt cs j).dots → s.item.origin ≤ j)
    {x : NT} (hx : LoopNT c.rules x) (hdi : DIx cs k x) : OneStep c cs (shortcutOne cs k x) k x := by
  unfold shortcutOne
  simp only
  split
  · exact oneStep_refl c cs k x
  · rename_i cur hfind
    have hcm : cur ∈ (colAt cs k).states := List.mem_of_find?_eq_some hfind
    have hcp := List.find?_some hfind
    simp only [Bool.and_eq_true, decide_eq_true_eq, beq_iff_eq] at hcp
    obtain ⟨⟨⟨hcl, _⟩, _⟩, hcd⟩ := hcp
    have hkl : k < cs.length := mem_states_lt' hcm
    obtain ⟨ca, cr, hcy⟩ := dotNT?_n hcd
    have hcsym : cur.item.sym?.isSome = true := by rw [hcy]; rfl
    have hcdots : cur ∈ (colAt cs k).dots := hdi cur hcm hcl hcsym
    have hcorg : cur.item.origin ≤ k := horg k (Nat.le_refl _) cur hcdots
    split
    · rename_i o heq
      split
      · rename_i new hw
        -- the walk started below the column
        have hlt : cur.item.origin < k := by
          apply Classical.byContradiction
          intro hn
          have he : cur.item.origin = k := by omega
          have hin : cur ∈ (colAt cs cur.item.origin).findDot x := by
            rw [he]; exact mem_findDot_iff.2 ⟨hcdots, hcd⟩
          rw [heq] at hin
          simp only [List.mem_singleton] at hin
          subst hin
          have := walk_stuck hs hx hcl heq (cur.item.origin + 2) cur rfl
          rw [this] at hw
          cases hw
        have hspec := fun D hD => walk_spec hs hg (fun j hj => horg j (Nat.le_of_lt hj)) hx D hD
          (cur.item.origin + 2) cur o new hlt heq hw
        obtain ⟨hn1, hn2, hn3, hn4, hn5, _⟩ := hspec (dotsOf cs) (fun _ _ => rfl)
        have hnsym : new.item.sym? = cur.item.sym? := by unfold Item.sym?; rw [hn2, hn3]
        have hnd : new.item.dotNT? = some x := by unfold Item.dotNT?; rw [hnsym]; exact hcd
        -- the new column
        have hcol : colAt (cs.set k ((colAt cs k).replace cur new)) k = (colAt cs k).replace cur new := by
          rw [colAt_set]; simp [hkl]
        have hdots' : ((colAt cs k).replace cur new).dots = eraseItem cur.item (colAt cs k).dots ++ [new] := by
          unfold Col.replace
          simp only [hcsym, hnsym, if_true]
        have hstates' : ((colAt cs k).replace cur new).states = replaceItem cur.item new (colAt cs k).states := rfl
        have hother : ∀ j, j ≠ k → colAt (cs.set k ((colAt cs k).replace cur new)) j = colAt cs j := by
          intro j hj
          rw [colAt_set]
          have : ¬ (j = k ∧ k < cs.length) := fun h => hj h.1
          simp [this]
        refine ⟨by simp, hother, ?_, ?_, ?_, ?_⟩
        · intro s hsd
          by_cases hsi : s.item = cur.item
          · left
            rw [hsi]
            exact ⟨by rw [hcl]; exact hcd, hcl⟩
          · right
            rw [hcol, hdots']
            exact List.mem_append_left _ (mem_eraseItem_of_ne hsd hsi)
        · intro s hsd
          rw [hcol, hdots'] at hsd
          rcases List.mem_append.1 hsd with hsd | hsd
          · exact Or.inl (mem_eraseItem hsd)
          · simp only [List.mem_singleton] at hsd
            subst hsd
            rcases hn5 with h5 | h5
            · left; rw [h5]; exact hcdots
            · exact Or.inr ⟨h5, by omega⟩
        · intro x' tgt hl
          have key : ∀ j tgt, Leads (dotsOf cs) x' j tgt → j ≤ k →
              Leads (dotsOf (cs.set k ((colAt cs k).replace cur new))) x' j tgt := by
            intro j tgt hl
            induction hl with
            | @base j s' h1 h2 h3 =>
              intro hjk
              apply Leads.base _ h2 h3
              unfold dotsOf at h1 ⊢
              by_cases hj : j = k
              · subst hj
                rw [hcol, hdots']
                apply List.mem_append_left
                apply mem_eraseItem_of_ne h1
                intro hsi
                apply h3
                have e1 : s'.item.lhs = x := by rw [hsi]; exact hcl
                have e2 : s'.item.dotNT? = some x := by rw [hsi]; exact hcd
                rw [e2] at h2
                rw [e1]; exact Option.some.inj h2
              · rw [hother j hj]; exact h1
            | @step j s' tgt h1 h2 h3 _ ih =>
              intro hjk
              have hso : s'.item.origin ≤ j := horg j hjk s' h1
              have ih' := ih (by omega)
              unfold dotsOf at h1
              by_cases hj : j = k
              · subst hj
                by_cases hsi : s'.item = cur.item
                · -- the replaced state: go through the new one
                  have e1 : s'.item.lhs = x := by rw [hsi]; exact hcl
                  have hxx : x' = x := by rw [← h3, e1]
                  subst hxx
                  have e3 : s'.item.origin = cur.item.origin := by rw [hsi]
                  rw [e3] at ih'
                  have hsp := (hspec (dotsOf (cs.set j ((colAt cs j).replace cur new)))
                    (fun o ho => by unfold dotsOf; rw [hother o (by omega)])).2.2.2.2.2 tgt ih'
                  apply Leads.step (s := new) _ hnd (by rw [hn1]; exact hcl) hsp
                  unfold dotsOf
                  rw [hcol, hdots']
                  simp
                · apply Leads.step (s := s') _ h2 h3 ih'
                  unfold dotsOf
                  rw [hcol, hdots']
                  exact List.mem_append_left _ (mem_eraseItem_of_ne h1 hsi)
              · apply Leads.step (s := s') _ h2 h3 ih'
                unfold dotsOf
                rw [hother j hj]; exact h1
          exact key k tgt hl (Nat.le_refl _)
        · intro x' hxx hd s' hs' hl' hsym'
          rw [hcol] at hs' ⊢
          rw [hstates'] at hs'
          rw [hdots']
          rcases mem_replaceItem hs' with hs' | hs'
          · apply List.mem_append_left
            apply mem_eraseItem_of_ne (hd s' hs' hl' hsym')
            intro hsi
            apply hxx
            rw [← hl', hsi]; exact hcl
          · exfalso
            apply hxx
            rw [← hl', hs', hn1]; exact hcl
      · exact oneStep_refl c cs k x
    · exact oneStep_refl c cs k x

end FV.Earley
