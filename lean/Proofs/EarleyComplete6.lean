/-
C05 / completeness of the Earley model, STAGE 3 (continued): `place_repetition_shortcut` as a whole (the fold over the
beginners of a column), in the terms of `Proofs/EarleyComplete2.lean`.
-/
import Proofs.EarleyComplete5
namespace FV.Earley

theorem dedupNT_pairwise : ∀ l : List NT, (dedupNT l).Pairwise (· ≠ ·)
  | [] => by simp [dedupNT]
  | x :: xs => by
    simp only [dedupNT]
    rw [List.pairwise_cons]
    refine ⟨?_, (dedupNT_pairwise xs).filter _⟩
    intro y hy
    have := (List.mem_filter.1 hy).2
    simp only [Bool.not_eq_eq_eq_not, Bool.not_true, decide_eq_false_iff_not] at this
    exact fun h => this h.symm

/-- what `place_repetition_shortcut` did to column `k` -/
structure ShSpec (c : Cfg) (cols cs : List Col) (k : Nat) : Prop where
  len : cs.length = cols.length
  other : ∀ j, j ≠ k → colAt cs j = colAt cols j
  k1 : ∀ s, s ∈ (colAt cols k).dots →
    (s.item.dotNT? = some s.item.lhs ∧ LoopNT c.rules s.item.lhs) ∨ s ∈ (colAt cs k).dots
  k2 : ∀ s, s ∈ (colAt cs k).dots → s ∈ (colAt cols k).dots ∨ (s.cover = none ∧ s.item.origin ≤ k)
  k3 : ∀ x' tgt, Leads (dotsOf cols) x' k tgt → Leads (dotsOf cs) x' k tgt
  good : GoodCols c cs

theorem shSpec_fold {c : Cfg} (hs : SaneS c) {cols : List Col} {k : Nat}
    (horg0 : ∀ j, j ≤ k → ∀ s, s ∈ (colAt cols j).dots → s.item.origin ≤ j) :
    ∀ (l : List NT), l.Pairwise (· ≠ ·) → (∀ x, x ∈ l → LoopNT c.rules x) → ∀ cs : List Col,
      ShSpec c cols cs k → (∀ x, x ∈ l → DIx cs k x) →
      ShSpec c cols (l.foldl (fun cs x => shortcutOne cs k x) cs) k := by
  intro l
  induction l with
  | nil => intro _ _ cs h _; exact h
  | cons x xs ih =>
    intro hpw hl cs h hdi
    simp only [List.foldl_cons]
    rw [List.pairwise_cons] at hpw
    have hx := hl x (by simp)
    have horg : ∀ j, j ≤ k → ∀ s, s ∈ (colAt cs j).dots → s.item.origin ≤ j := by
      intro j hj s hsd
      by_cases hjk : j = k
      · subst hjk
        rcases h.k2 s hsd with h1 | ⟨_, h1⟩
        · exact horg0 j hj s h1
        · exact h1
      · rw [h.other j hjk] at hsd
        exact horg0 j hj s hsd
    have h1 := shortcutOne_spec hs h.good horg hx (hdi x (by simp))
    apply ih hpw.2 (fun y hy => hl y (by simp [hy]))
    · refine ⟨by rw [h1.len, h.len], ?_, ?_, ?_, ?_, goodCols_shortcutOne hs h.good hx k⟩
      · intro j hj; rw [h1.other j hj, h.other j hj]
      · intro s hsd
        rcases h.k1 s hsd with h2 | h2
        · exact Or.inl h2
        · rcases h1.k1 s h2 with ⟨h3, h4⟩ | h3
          · exact Or.inl ⟨h3, by rw [h4]; exact hx⟩
          · exact Or.inr h3
      · intro s hsd
        rcases h1.k2 s hsd with h2 | h2
        · exact h.k2 s h2
        · exact Or.inr h2
      · intro x' tgt hl'
        exact h1.k3 x' tgt (h.k3 x' tgt hl')
    · intro y hy
      exact h1.di y (fun he => hpw.1 y hy he.symm) (hdi y (by simp [hy]))

/-- **the repetition shortcut loses nothing** -/
theorem shortcut_spec {c : Cfg} (hs : SaneS c) {cols : List Col} {k : Nat} (hg : GoodCols c cols)
    (horg0 : ∀ j, j ≤ k → ∀ s, s ∈ (colAt cols j).dots → s.item.origin ≤ j)
    (hdots : ∀ s, s ∈ (colAt cols k).states → s.item.sym?.isSome = true → s ∈ (colAt cols k).dots) :
    ShSpec c cols (shortcut cols k) k := by
  unfold shortcut
  apply shSpec_fold hs horg0 _ (dedupNT_pairwise _) (fun x hx => loop_of_beginner (hg.1 k) hx) cols
  · exact ⟨rfl, fun _ _ => rfl, fun _ h => Or.inr h, fun _ h => Or.inl h, fun _ _ h => h, hg⟩
  · intro x _ s hs' _ hsym
    exact hdots s hs' hsym

end FV.Earley
