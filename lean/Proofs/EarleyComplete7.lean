/-
C05 / completeness of the Earley model, STAGE 4 (assembly of the chart part): the machine of `Model/Earley.lean` builds
a chart history that is `Closed` in the sense of `Proofs/EarleyComplete2.lean`; hence (`static_complete`) a derivation of
the start symbol over all columns puts a finished `<*start*>` state into the last column, and its children are
yielded.  Every admission policy (`core`, `impl`, `acyclic` — the code), every prediction order that offers all
alternatives, `predict` completing the finished empty derivations.
-/
import Proofs.EarleyComplete6
namespace FV.Earley

/-- column `j` of the history: as it was when its processing ended (`hist`, a ghost), or as it is -/
def Pof (m : M) (hist : Nat → Col) : Nat → Col := fun j => if j < m.k then hist j else colAt m.cols j

def DpreC (P : Nat → Col) (post : Nat → List St) (j : Nat) : Nat → List St :=
  fun o => if o < j then post o else (P j).dots
def DpostC (post : Nat → List St) (j : Nat) : Nat → List St := fun o => if o ≤ j then post o else []

/-- the closure facts of one finished column -/
structure Slice (c : Cfg) (P : Nat → Col) (post : Nat → List St) (j : Nat) (out : List PT) : Prop where
  pred : ∀ s y a r, s ∈ (P j).states → s.item.sym? = some (.n y a r) →
    ∀ rhs, (y, rhs) ∈ c.rules → HasIt (P j) { lhs := y, rhs := rhs, dot := 0, origin := j }
  scan : ∀ s t e l, s ∈ (P j).states → s.item.sym? = some (.t t) → c.scan t j = some (e, l) →
    HasIt (P e) s.item.next
  comp : ∀ t s, t ∈ (P j).states → t.item.finished = true → s ∈ DpreC P post j t.item.origin →
    s.item.dotNT? = some t.item.lhs → HasIt (P j) s.item.next
  dots : ∀ s, s ∈ (P j).states → s.item.sym?.isSome = true → s ∈ (P j).dots
  dotsSt : ∀ s, s ∈ (P j).dots → s ∈ (P j).states
  org : ∀ s, s ∈ (P j).states → s.item.origin ≤ j
  orgPost : ∀ s, s ∈ post j → s.item.origin ≤ j
  good : ∀ s, s ∈ (P j).states → Good c s j
  rulePost : ∀ s, s ∈ post j → (s.item.lhs, s.item.rhs) ∈ c.rules'
  keep : ∀ s, s ∈ (P j).dots → (s.item.dotNT? = some s.item.lhs ∧ LoopNT c.rules s.item.lhs) ∨ s ∈ post j
  leads : ∀ x tgt, LoopNT c.rules x → Leads (DpreC P post j) x j tgt → Leads (DpostC post j) x j tgt
  out : j + 1 = c.ncols → ∀ s, s ∈ (P j).states → s.item.finished = true → s.item.lhs = .start →
    ∀ pt, pt ∈ s.kids → pt ∈ out

theorem slice_mono {c : Cfg} {P P' : Nat → Col} {post post' : Nat → List St} {j : Nat} {out out' : List PT}
    (h : Slice c P post j out) (hP : P' j = P j) (hpost : ∀ o, o ≤ j → post' o = post o)
    (hhas : ∀ e it, HasIt (P e) it → HasIt (P' e) it) (hout : ∀ pt, pt ∈ out → pt ∈ out') :
    Slice c P' post' j out' := by
  have hpre : DpreC P' post' j = DpreC P post j := by
    funext o
    unfold DpreC
    split
    · rename_i ho; exact hpost o (by omega)
    · rw [hP]
  have hpo : DpostC post' j = DpostC post j := by
    funext o
    unfold DpostC
    split
    · rename_i ho; exact hpost o ho
    · rfl
  have hpj := hpost j (Nat.le_refl _)
  refine ⟨?_, ?_, ?_, ?_, ?_, ?_, ?_, ?_, ?_, ?_, ?_, ?_⟩
  · intro s y a r hs hsym rhs hr
    rw [hP] at hs
    exact hhas _ _ (h.pred s y a r hs hsym rhs hr)
  · intro s t e l hs hsym hsc
    rw [hP] at hs
    exact hhas _ _ (h.scan s t e l hs hsym hsc)
  · intro t s ht hfin hs hd
    rw [hP] at ht
    rw [hpre] at hs
    exact hhas _ _ (h.comp t s ht hfin hs hd)
  · intro s hs hsym; rw [hP] at hs ⊢; exact h.dots s hs hsym
  · intro s hs; rw [hP] at hs ⊢; exact h.dotsSt s hs
  · intro s hs; rw [hP] at hs; exact h.org s hs
  · intro s hs; rw [hpj] at hs; exact h.orgPost s hs
  · intro s hs; rw [hP] at hs; exact h.good s hs
  · intro s hs; rw [hpj] at hs; exact h.rulePost s hs
  · intro s hs
    rw [hP] at hs
    rw [hpj]
    exact h.keep s hs
  · intro x tgt hx hl
    rw [hpre] at hl
    rw [hpo]
    exact h.leads x tgt hx hl
  · intro hj s hs hfin hl pt hpt
    rw [hP] at hs
    exact hout pt (h.out hj s hs hfin hl pt hpt)

/-- the invariant of the whole machine, with the ghosts `hist` (columns before their shortcut) and `post` (their
    `dot_map` after it) -/
structure MI (c : Cfg) (m : M) (hist : Nat → Col) (post : Nat → List St) : Prop where
  ci : CI c m
  cb : ∀ j, j < m.k → Slice c (Pof m hist) post j m.out
  postEq : ∀ j, j < m.k → post j = (colAt m.cols j).dots
  postOut : ∀ j, c.ncols ≤ j → post j = []
  inv : Inv c m
  kLe : m.k ≤ c.ncols
  startIn : HasIt (Pof m hist 0) (startItem c.start)

/-! ### the end of a column -/

theorem cyclicAt_mem {p : Policy} {k : Nat} {t : St} (h : cyclicAt p k t = true) :
    t.item.lhs ∈ (coverAt t k).getD [] := by
  unfold cyclicAt at h
  cases p <;> simp at h
  exact h

/-- every finished state of the column has an uncut finished state with the same nonterminal and origin -/
theorem uncut_rep {c : Cfg} {m : M} (h : CI c m) : ∀ (n : Nat) (t : St), (colAt m.cols m.k).states[n]? = some t →
    t.item.finished = true → ∃ (n' : Nat) (t' : St), (colAt m.cols m.k).states[n']? = some t' ∧
      t'.item.finished = true ∧ t'.item.lhs = t.item.lhs ∧ t'.item.origin = t.item.origin ∧
      cyclicAt c.policy m.k t' = false := by
  intro n
  induction n using Nat.strongRecOn with
  | _ n ih =>
    intro t hn hfin
    cases hcy : cyclicAt c.policy m.k t with
    | false => exact ⟨n, t, hn, hfin, rfl, rfl, hcy⟩
    | true =>
      obtain ⟨n', t', hlt, h1, h2, h3, h4⟩ := h.covC n t hn _ (cyclicAt_mem hcy)
      obtain ⟨n'', t'', g1, g2, g3, g4, g5⟩ := ih n' hlt t' h1 h2
      exact ⟨n'', t'', g1, g2, by rw [g3, h3], by rw [g4, h4], g5⟩

theorem pof_close (m : M) (hist : Nat → Col) (cs : List Col) (hother : ∀ j, j ≠ m.k → colAt cs j = colAt m.cols j) :
    Pof { m with cols := cs, k := m.k + 1, idx := 0 } (fun j => if j = m.k then colAt m.cols m.k else hist j)
      = Pof m hist := by
  funext j
  unfold Pof
  simp only
  by_cases h1 : j < m.k
  · have : j < m.k + 1 := by omega
    have h2 : j ≠ m.k := by omega
    simp [h1, this, h2]
  · by_cases h2 : j = m.k
    · subst h2
      simp
    · have : ¬ j < m.k + 1 := by omega
      simp [h1, this, hother j h2]

theorem mi_close {c : Cfg} (hs : SaneS c) (hfull : Full c) {m : M} {hist : Nat → Col} {post : Nat → List St}
    (h : MI c m hist post) (hf : m.frame = none) (hp : m.pending = [])
    (hnone : (colAt m.cols m.k).states[m.idx]? = none) (hk : m.k < c.ncols)
    (hinv : Inv c { m with cols := shortcut m.cols m.k, k := m.k + 1, idx := 0 }) :
    MI c { m with cols := shortcut m.cols m.k, k := m.k + 1, idx := 0 }
      (fun j => if j = m.k then colAt m.cols m.k else hist j)
      (fun j => if j = m.k then (colAt (shortcut m.cols m.k) m.k).dots else post j) := by
  have hci := h.ci
  have hidx : m.idx = (colAt m.cols m.k).states.length := by
    have h1 := List.getElem?_eq_none_iff.1 hnone
    have h2 := hci.idxLe
    omega
  have horg0 : ∀ j, j ≤ m.k → ∀ s, s ∈ (colAt m.cols j).dots → s.item.origin ≤ j := by
    intro j hj s hsd
    by_cases hjk : j < m.k
    · exact hci.orgOld j hjk s hsd
    · have : j = m.k := by omega
      subst this
      exact hci.org _ (Nat.le_refl _) s (hci.dotsSt _ (Nat.le_refl _) s hsd)
  have sp := shortcut_spec hs ⟨h.inv.states, h.inv.dots⟩ horg0 (hci.dotsIn m.k (Nat.le_refl _))
  have hP := pof_close m hist (shortcut m.cols m.k) sp.other
  have hPk : Pof m hist m.k = colAt m.cols m.k := by unfold Pof; simp
  have hPge : ∀ e, m.k ≤ e → Pof m hist e = colAt m.cols e := by
    intro e he; unfold Pof; have : ¬ e < m.k := by omega
    simp [this]
  -- every state of the column has been processed
  have hproc : ∀ s, s ∈ (colAt m.cols m.k).states → ∃ n, (colAt m.cols m.k).states[n]? = some s ∧ n < m.idx := by
    intro s hs'
    obtain ⟨n, hn⟩ := List.getElem?_of_mem hs'
    exact ⟨n, hn, by rw [hidx]; exact (List.getElem?_eq_some_iff.1 hn).1⟩
  refine ⟨?_, ?_, ?_, ?_, hinv, hk, ?_⟩
  · -- CI of the next column
    refine ⟨by simp only; rw [sp.len]; exact hci.len, Nat.zero_le _, ?_, ?_, ?_, ?_, ?_, ?_, ?_, ?_, ?_, ?_, ?_, ?_, ?_⟩
    · intro j hj s hs' hsym
      simp only at hj hs' ⊢
      rw [sp.other j (by omega)] at hs' ⊢
      exact hci.dotsIn j (by omega) s hs' hsym
    · intro j hj s hs'
      simp only at hj hs' ⊢
      rw [sp.other j (by omega)] at hs' ⊢
      exact hci.dotsSt j (by omega) s hs'
    · intro j hj s hs'
      simp only at hj hs'
      rw [sp.other j (by omega)] at hs'
      exact hci.org j (by omega) s hs'
    · intro j hj s cc l hs' hc
      simp only at hj hs' ⊢
      rw [sp.other j (by omega)] at hs'
      have := hci.covCol j (by omega) s cc l hs' hc
      exact ⟨this.1, fun _ => this.2 (by omega)⟩
    · intro j hj s cc l hs' hc
      simp only at hj hs'
      by_cases hjk : j = m.k
      · subst hjk
        rcases sp.k2 s hs' with h1 | ⟨h1, _⟩
        · exact (hci.covCol _ (Nat.le_refl _) s cc l (hci.dotsSt _ (Nat.le_refl _) s h1) hc).1
        · rw [h1] at hc; cases hc
      · rw [sp.other j hjk] at hs'
        exact hci.covOld j (by omega) s cc l hs' hc
    · intro j hj s hs'
      simp only at hj hs'
      by_cases hjk : j = m.k
      · subst hjk
        rcases sp.k2 s hs' with h1 | ⟨_, h1⟩
        · exact horg0 _ (Nat.le_refl _) s h1
        · exact h1
      · rw [sp.other j hjk] at hs'
        exact hci.orgOld j (by omega) s hs'
    · intro n s _ hlt; simp only at hlt; omega
    · intro n s _ hlt; simp only at hlt; omega
    · intro n t s _ _ _ _ _
      right; left
      exact Nat.zero_le _
    · intro n t hn y hy
      simp only at hn hy
      rw [sp.other _ (by omega)] at hn
      obtain ⟨l, hl, _⟩ := coverAt_mem hy
      have := (hci.covCol (m.k + 1) (by omega) t (m.k + 1) l (List.mem_of_getElem? hn) hl).2 (by omega)
      omega
    · intro t i hfr; simp only at hfr; rw [hf] at hfr; cases hfr
    · intro t ht; simp only at ht; rw [hp] at ht; cases ht
    · intro n s _ hlt; simp only at hlt; omega
  · -- the slices
    intro j hj
    simp only at hj
    rw [hP]
    by_cases hjk : j < m.k
    · apply slice_mono (h.cb j hjk) rfl ?_ (fun _ _ hh => hh) (fun _ hh => hh)
      intro o ho
      have : o ≠ m.k := by omega
      simp [this]
    · have hjk : j = m.k := by omega
      subst hjk
      refine ⟨?_, ?_, ?_, ?_, ?_, ?_, ?_, ?_, ?_, ?_, ?_, ?_⟩
      · intro s y a r hs' hsym rhs hr
        rw [hPk] at hs' ⊢
        obtain ⟨n, hn, hlt⟩ := hproc s hs'
        exact hci.predC n s hn hlt y a r hsym rhs hr
      · intro s t e l hs' hsym hsc
        rw [hPk] at hs'
        obtain ⟨n, hn, hlt⟩ := hproc s hs'
        rw [hPge e (hfull.scanMono t _ e l hsc)]
        exact hci.scanC n s hn hlt t e l hsym hsc
      · intro t s ht hfin hs' hd
        rw [hPk] at ht ⊢
        obtain ⟨n, hn, _⟩ := hproc t ht
        have hto := hci.org _ (Nat.le_refl _) t ht
        have hs'' : s ∈ (colAt m.cols t.item.origin).dots := by
          unfold DpreC at hs'
          split at hs'
          · rename_i ho
            simp only at hs'
            have hne : t.item.origin ≠ m.k := by omega
            simp only [hne, if_false] at hs'
            rw [h.postEq _ ho] at hs'
            exact hs'
          · have : t.item.origin = m.k := by omega
            rw [this, ← hPk]; exact hs'
        obtain ⟨n', t', g1, g2, g3, g4, g5⟩ := uncut_rep hci n t hn hfin
        rcases hci.compC n' t' s g1 g2 g5 (by rw [g4]; exact hs'') (by rw [g3]; exact hd) with hdone | hex
        · exact hdone
        · exfalso
          rcases hex with h1 | ⟨i, i', h1, _⟩ | h1 | ⟨_, ns, h2, h3⟩
          · have := (List.getElem?_eq_some_iff.1 g1).1; omega
          · rw [hf] at h1; cases h1
          · rw [hp] at h1; cases h1
          · have := (List.getElem?_eq_some_iff.1 h3).1; omega
      · intro s hs' hsym; rw [hPk] at hs' ⊢; exact hci.dotsIn _ (Nat.le_refl _) s hs' hsym
      · intro s hs'; rw [hPk] at hs' ⊢; exact hci.dotsSt _ (Nat.le_refl _) s hs'
      · intro s hs'; rw [hPk] at hs'; exact hci.org _ (Nat.le_refl _) s hs'
      · intro s hs'
        simp only [if_true] at hs'
        rcases sp.k2 s hs' with h1 | ⟨_, h1⟩
        · exact horg0 _ (Nat.le_refl _) s h1
        · exact h1
      · intro s hs'; rw [hPk] at hs'; exact h.inv.states _ s hs'
      · intro s hs'
        simp only [if_true] at hs'
        exact (sp.good.2 _ s hs').1
      · intro s hs'
        rw [hPk] at hs'
        simp only [if_true]
        exact sp.k1 s hs'
      · intro x tgt _ hl
        -- to the `dot_map`s of the chart before / after the shortcut, and back
        have h1 : Leads (dotsOf m.cols) x m.k tgt := by
          apply leads_congr _ hl
          · intro o ho
            unfold DpreC dotsOf
            split
            · rename_i ho'
              have hne : o ≠ m.k := by omega
              simp only [hne, if_false]
              exact h.postEq o ho'
            · have : o = m.k := by omega
              rw [this, hPk]
          · intro o s hs'
            unfold DpreC at hs'
            split at hs'
            · rename_i ho'
              have hne : o ≠ m.k := by omega
              simp only [hne, if_false] at hs'
              rw [h.postEq o ho'] at hs'
              exact hci.orgOld o ho' s hs'
            · rw [hPk] at hs'
              have := horg0 _ (Nat.le_refl _) s hs'
              omega
        have h2 := sp.k3 x tgt h1
        apply leads_congr _ h2
        · intro o ho
          unfold DpostC dotsOf
          simp only [ho, if_true]
          by_cases hok : o = m.k
          · simp [hok]
          · simp only [hok, if_false]
            rw [sp.other o hok]
            exact (h.postEq o (by omega)).symm
        · intro o s hs'
          unfold dotsOf at hs'
          by_cases hok : o = m.k
          · subst hok
            rcases sp.k2 s hs' with g | ⟨_, g⟩
            · exact horg0 _ (Nat.le_refl _) s g
            · exact g
          · rw [sp.other o hok] at hs'
            by_cases ho' : o < m.k
            · exact hci.orgOld o ho' s hs'
            · exact hci.org o (by omega) s (hci.dotsSt o (by omega) s hs')
      · intro hj s hs' hfin hl pt hpt
        rw [hPk] at hs'
        obtain ⟨n, hn, hlt⟩ := hproc s hs'
        exact hci.outC n s hn hlt hfin hl hj pt hpt
  · intro j hj
    simp only at hj ⊢
    by_cases hjk : j = m.k
    · simp [hjk]
    · simp only [hjk, if_false]
      rw [sp.other j hjk]
      exact h.postEq j (by omega)
  · intro j hj
    have : j ≠ m.k := by omega
    simp only [this, if_false]
    exact h.postOut j hj
  · rw [hP]; exact h.startIn

end FV.Earley
