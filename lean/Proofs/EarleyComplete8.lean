/-
C05 / completeness of the Earley model, STAGE 4: the invariant `MI` along a run, and the result —

  `machine_complete`: if the start symbol derives the columns `0 … ncols-1` over the rule table (every terminal read
  by the scanner of the machine), then a run of the machine never raises, and when it is done it HAS YIELDED a tree.

For every admission policy, in particular the one of the code (children in the identity of a state + covering cut),
every prediction order that offers all alternatives of the table, `predict` completing finished empty derivations.
-/
import Proofs.EarleyComplete7
namespace FV.Earley

theorem step_done {c : Cfg} {m m' : M} (h : step c m = .done m') : m' = m ∧ c.ncols ≤ m.k := by
  unfold step at h
  split at h
  · rename_i hk; cases h; exact ⟨rfl, hk⟩
  · exfalso
    split at h
    · split at h
      · cases h
      · split at h <;> cases h
    · split at h
      · cases h
      · split at h
        · cases h
        · split at h
          · cases h
          · split at h
            · cases h
            · cases h
            · split at h
              · cases h
              · split at h <;> cases h

theorem step_not_raised {c : Cfg} (hfull : Full c) {m m' : M} (h : step c m = .raised m') : False := by
  unfold step at h
  split at h
  · cases h
  · rename_i hk
    split at h
    · split at h
      · cases h
      · split at h <;> cases h
    · split at h
      · cases h
      · split at h
        · cases h
        · split at h
          · cases h
          · split at h
            · cases h
            · cases h
            · split at h
              · cases h
              · rename_i e l hsc
                split at h
                · rename_i hbad
                  have := hfull.scanIn _ _ _ _ hsc (by omega)
                  omega
                · cases h

theorem mi_step {c : Cfg} (hs : SaneS c) (hfull : Full c) {m m' : M} {hist : Nat → Col} {post : Nat → List St}
    (h : MI c m hist post) (hst : step c m = .next m') : ∃ hist' post', MI c m' hist' post' := by
  have hinv' : Inv c m' := (inv_step c hs m h.inv).1 m' hst
  rcases ci_step hfull h.ci hst with ⟨hci', hg⟩ | ⟨hf, hp, hnone, hk, rfl⟩
  · have hhas : ∀ e it, HasIt (Pof m hist e) it → HasIt (Pof m' hist e) it := by
      intro e it hh
      unfold Pof at hh ⊢
      rw [hg.k]
      split
      · rename_i he; simp only [he, if_true] at hh; exact hh
      · rename_i he; simp only [he, if_false] at hh; exact hg.has e it hh
    refine ⟨hist, post, hci', ?_, ?_, h.postOut, hinv', by rw [hg.k]; exact h.kLe, hhas _ _ h.startIn⟩
    · intro j hj
      rw [hg.k] at hj
      apply slice_mono (h.cb j hj) ?_ (fun _ _ => rfl) hhas hg.out
      unfold Pof
      rw [hg.k]
      simp [hj]
    · intro j hj
      rw [hg.k] at hj
      rw [hg.old j hj]
      exact h.postEq j hj
  · exact ⟨_, _, mi_close hs hfull h hf hp hnone hk hinv'⟩

/-! ### the start -/

theorem ci_empty (c : Cfg) : CI c { cols := List.replicate c.ncols {} } := by
  have h0 : ∀ j, colAt (List.replicate c.ncols ({} : Col)) j = {} := colAt_replicate c.ncols
  refine ⟨by simp, by simp only; rw [h0]; simp, ?_, ?_, ?_, ?_, ?_, ?_, ?_, ?_, ?_, ?_, ?_, ?_, ?_⟩
  · intro j _ s hs'; simp only at hs'; rw [h0] at hs'; cases hs'
  · intro j _ s hs'; simp only at hs'; rw [h0] at hs'; cases hs'
  · intro j _ s hs'; simp only at hs'; rw [h0] at hs'; cases hs'
  · intro j _ s cc l hs'; simp only at hs'; rw [h0] at hs'; cases hs'
  · intro j hj; simp only at hj; omega
  · intro j hj; simp only at hj; omega
  · intro n s hn; simp only at hn; rw [h0] at hn; simp at hn
  · intro n s hn; simp only at hn; rw [h0] at hn; simp at hn
  · intro n t s hn; simp only at hn; rw [h0] at hn; simp at hn
  · intro n t hn; simp only at hn; rw [h0] at hn; simp at hn
  · intro t i hf; cases hf
  · intro t ht; cases ht
  · intro n s hn; simp only at hn; rw [h0] at hn; simp at hn

theorem mi_init {c : Cfg} (hs : SaneS c) (hn : 0 < c.ncols) : MI c (M.init c) (fun _ => {}) (fun _ => []) := by
  have hci : CI c (M.init c) := by
    have := ci_add (ci_empty c) 0 { item := startItem c.start, kids := [] } (Nat.le_refl _)
      (by simp [startItem]) (by intro cc l hc; cases hc) (by intro _ y hy; simp [coverAt] at hy)
    exact this
  refine ⟨hci, ?_, ?_, fun _ _ => rfl, inv_init c hs, Nat.zero_le _, ?_⟩
  · intro j hj; exact absurd hj (Nat.not_lt_zero _)
  · intro j hj; exact absurd hj (Nat.not_lt_zero _)
  · unfold Pof M.init
    simp only [Nat.not_lt_zero, if_false]
    have := hasIt_addAt c.policy (List.replicate c.ncols ({} : Col)) 0
      { item := startItem c.start, kids := [] } (by simpa using hn)
    exact this

/-! ### a run -/

theorem mi_run {c : Cfg} (hs : SaneS c) (hfull : Full c) : ∀ (fuel : Nat) (m : M) (hist : Nat → Col)
    (post : Nat → List St), MI c m hist post →
      (∀ m', run c fuel m = .done m' → ∃ hist' post', MI c m' hist' post' ∧ c.ncols ≤ m'.k) ∧
      (∀ m', run c fuel m ≠ .raised m') := by
  intro fuel
  induction fuel with
  | zero =>
    intro m hist post _
    exact ⟨fun m' h => by simp [run] at h, fun m' h => by simp [run] at h⟩
  | succ f ih =>
    intro m hist post h
    unfold run
    cases hst : step c m with
    | next m1 =>
      obtain ⟨hist', post', h1⟩ := mi_step hs hfull h hst
      exact ih m1 hist' post' h1
    | done m1 =>
      obtain ⟨rfl, hk⟩ := step_done hst
      exact ⟨fun m' he => by cases he; exact ⟨hist, post, h, hk⟩, fun m' he => by cases he⟩
    | raised m1 => exact absurd hst (fun hh => step_not_raised hfull hh)

/-! ### the finished machine holds a closed history -/

theorem closed_of_mi {c : Cfg} {m : M} {hist : Nat → Col} {post : Nat → List St} (h : MI c m hist post)
    (hk : c.ncols ≤ m.k) : Closed c (Pof m hist) post := by
  have hkk : m.k = c.ncols := Nat.le_antisymm h.kLe hk
  have hout : ∀ j, c.ncols ≤ j → Pof m hist j = {} := by
    intro j hj
    unfold Pof
    have : ¬ j < m.k := by omega
    simp only [this, if_false]
    exact colAt_out _ _ (by rw [h.ci.len]; exact hj)
  have hsl : ∀ j, j < c.ncols → Slice c (Pof m hist) post j m.out := fun j hj => h.cb j (by omega)
  have hpostorg : ∀ o s, s ∈ post o → s.item.origin ≤ o := by
    intro o s hs'
    by_cases ho : o < c.ncols
    · exact (hsl o ho).orgPost s hs'
    · rw [h.postOut o (by omega)] at hs'; cases hs'
  have hdotsorg : ∀ o s, s ∈ (Pof m hist o).dots → s.item.origin ≤ o := by
    intro o s hs'
    by_cases ho : o < c.ncols
    · exact (hsl o ho).org s ((hsl o ho).dotsSt s hs')
    · rw [hout o (by omega)] at hs'; cases hs'
  refine ⟨?_, ?_, ?_, ?_, ?_, ?_, hpostorg, ?_, ?_, ?_, ?_⟩
  · intro j s y a r hs' hsym rhs hr
    by_cases hj : j < c.ncols
    · exact (hsl j hj).pred s y a r hs' hsym rhs hr
    · rw [hout j (by omega)] at hs'; cases hs'
  · intro j s t e l hs' hsym hsc
    by_cases hj : j < c.ncols
    · exact (hsl j hj).scan s t e l hs' hsym hsc
    · rw [hout j (by omega)] at hs'; cases hs'
  · intro j t s ht hfin hs' hd
    by_cases hj : j < c.ncols
    · apply (hsl j hj).comp t s ht hfin ?_ hd
      have hto := (hsl j hj).org t ht
      unfold Dof at hs'
      unfold DpreC
      split at hs'
      · rename_i ho; simp only [ho, if_true]; exact hs'
      · rename_i ho
        simp only [ho, if_false]
        have : t.item.origin = j := by omega
        rw [this] at hs'; exact hs'
    · rw [hout j (by omega)] at ht; cases ht
  · intro j s hs' hsym
    by_cases hj : j < c.ncols
    · exact ⟨s, (hsl j hj).dots s hs' hsym, rfl⟩
    · rw [hout j (by omega)] at hs'; cases hs'
  · intro j s hs'
    by_cases hj : j < c.ncols
    · exact (hsl j hj).dotsSt s hs'
    · rw [hout j (by omega)] at hs'; cases hs'
  · intro j s hs'
    by_cases hj : j < c.ncols
    · exact (hsl j hj).org s hs'
    · rw [hout j (by omega)] at hs'; cases hs'
  · intro j s hs'
    by_cases hj : j < c.ncols
    · exact ((hsl j hj).good s hs').1
    · rw [hout j (by omega)] at hs'; cases hs'
  · intro j s hs'
    by_cases hj : j < c.ncols
    · exact (hsl j hj).rulePost s hs'
    · rw [h.postOut j (by omega)] at hs'; cases hs'
  · intro j s hs'
    by_cases hj : j < c.ncols
    · exact (hsl j hj).keep s hs'
    · rw [hout j (by omega)] at hs'; cases hs'
  · intro j x tgt hx hl
    by_cases hj : j < c.ncols
    · have h1 : Leads (DpreC (Pof m hist) post j) x j tgt := by
        apply leads_congr _ hl
        · intro o ho
          unfold Dof DpreC
          split
          · rfl
          · have : o = j := by omega
            rw [this]
        · intro o s hs'
          unfold Dof at hs'
          split at hs'
          · exact hpostorg o s hs'
          · exact hdotsorg o s hs'
      have h2 := (hsl j hj).leads x tgt hx h1
      apply leads_congr _ h2
      · intro o ho
        unfold DpostC Dof
        have : o < j + 1 := by omega
        simp [ho, this]
      · intro o s hs'
        unfold DpostC at hs'
        split at hs'
        · exact hpostorg o s hs'
        · cases hs'
    · exfalso
      obtain ⟨w, hw, _⟩ := leads_waiter hl
      unfold Dof at hw
      simp only [Nat.lt_irrefl, if_false] at hw
      rw [hout j (by omega)] at hw; cases hw

/-- **STAGE 4 — completeness of the chart machine**: if the start symbol derives all columns over the rule table
    (terminals read by the machine's scanner), a run of the machine never raises, and a finished run has yielded a
    parser tree.  All admission policies (`c.policy`), all prediction orders that offer every alternative. -/
theorem machine_complete {c : Cfg} (hs : SaneS c) (hfull : Full c) (hn : 0 < c.ncols) {n : Nat}
    (hd : DrvN c.rules c.scan n [ESym.plain (.user c.start)] 0 (c.ncols - 1)) (fuel : Nat) :
    (∀ m, run c fuel (M.init c) = .done m → m.out ≠ []) ∧ (∀ m, run c fuel (M.init c) ≠ .raised m) := by
  obtain ⟨h1, h2⟩ := mi_run hs hfull fuel (M.init c) _ _ (mi_init hs hn)
  refine ⟨?_, h2⟩
  intro m hrun
  obtain ⟨hist, post, hmi, hk⟩ := h1 m hrun
  have hcl := closed_of_mi hmi hk
  have hkk : m.k = c.ncols := Nat.le_antisymm hmi.kLe hk
  obtain ⟨s, hs', hit⟩ := static_complete hcl hs hfull.scanMono hmi.startIn hd
  have hlast : c.ncols - 1 < m.k := by omega
  have hsl := hmi.cb (c.ncols - 1) hlast
  have hfin : s.item.finished = true := by rw [hit]; simp [startItem, Item.next, Item.finished]
  have hlhs : s.item.lhs = .start := by rw [hit]; rfl
  have hsub := hsl.out (by omega) s hs' hfin hlhs
  -- the children of a finished start state are one node
  have hg := hsl.good s hs'
  have hD := good_finished_der hg hfin
  rw [hit] at hD
  simp only [startItem, Item.next] at hD
  obtain ⟨kids, rhs, hk1, _, _⟩ := derL_single_expl (x := .user c.start) (a := none) (r := none) rfl hD
  intro hempty
  have : PT.node (.user c.start) none none kids ∈ m.out := hsub _ (by rw [hk1]; simp)
  rw [hempty] at this
  cases this

end FV.Earley
