/-
C05 / completeness of the Earley model, STAGE 4 (the concrete machine): the scanner of the code as it is
(`scanV Variant.now`) reads what the scanner-level model `Scan.scanT` reads, moves forward and stays inside the table;
hence `machine_complete` applies to `mkCfg G Variant.now inp start pred`, and a word of the parser's language
(`Scan.accepts`) is parsed: `accepts_parsed`.
-/
import Proofs.EarleyComplete8
import Proofs.C04Sound
namespace FV.Earley
open FV.Scan (scanT scanAll accepts accepts_iff)

theorem startsWith_length : ∀ (xs s : List Nat), startsWith xs s = true → s.length ≤ xs.length
  | _, [], _ => by simp
  | [], _ :: _, h => by simp [startsWith] at h
  | a :: as, b :: bs, h => by
    simp only [startsWith, Bool.and_eq_true] at h
    have := startsWith_length as bs h.2
    simp only [List.length_cons]
    omega

theorem length_takeWhile_le' {α : Type} (p : α → Bool) : ∀ l : List α, (l.takeWhile p).length ≤ l.length
  | [] => by simp
  | a :: as => by
    simp only [List.takeWhile_cons]
    split
    · simp only [List.length_cons]; have := length_takeWhile_le' p as; omega
    · simp

/-- the regex oracle never reports a match longer than what is left of the word -/
def RlenOk (inp : Input) : Prop := ∀ id w l, inp.rlen id w = some l → l ≤ (inp.cells.drop w).length

/-- the scanner of the code reads what the scanner-level model reads -/
theorem scanAgree_now (inp : Input) : ScanAgree inp.toInp (scanV Variant.now inp) := by
  intro t p q h
  cases t with
  | lit lf =>
    cases lf with
    | bit b =>
      simp only [scanT, Input.toInp] at h
      simp only [scanV, Variant.now]
      cases hc : inp.cells[p / 8]? with
      | none => simp [hc] at h
      | some cell =>
        simp only [hc] at h ⊢
        by_cases hcond : (decide (cell ≤ 255) && (((cell >>> (7 - p % 8)) % 2 == 1) == b)) = true
        · simp only [hcond, if_true, Option.some.injEq] at h
          subst h
          simp only [Bool.and_eq_true, decide_eq_true_eq] at hcond
          have h1 : ¬ (255 < cell) := by omega
          simp [h1, hcond.2]
        · simp [hcond] at h
    | text s =>
      simp only [scanT, Input.toInp] at h
      simp only [scanV, Variant.now]
      by_cases hcond : (p % 8 == 0 && Scan.startsWith (inp.cells.drop (p / 8)) s) = true
      · simp only [hcond, if_true, Option.some.injEq] at h
        subst h
        simp only [Bool.and_eq_true, beq_iff_eq] at hcond
        rw [startsWith_eq] at hcond
        simp [hcond.1, hcond.2]
      · simp [hcond] at h
    | bytes bs =>
      simp only [scanT, Input.toInp] at h
      simp only [scanV, Variant.now]
      by_cases hcond : (p % 8 == 0 && Scan.startsWith (inp.cells.drop (p / 8)) (bs.map (·.val))) = true
      · simp only [hcond, if_true, Option.some.injEq] at h
        subst h
        simp only [Bool.and_eq_true, beq_iff_eq] at hcond
        rw [startsWith_eq] at hcond
        simp [hcond.1, hcond.2]
      · simp [hcond] at h
  | regex id =>
    simp only [scanT, Input.toInp] at h
    simp only [scanV, Variant.now]
    by_cases hal : p % 8 = 0
    · cases hr : inp.rlen id (p / 8) with
      | none => simp [hr, hal] at h
      | some l =>
        simp only [hr, hal, beq_self_eq_true, if_true, Option.some.injEq] at h
        subst h
        simp [hal]
    · simp [hal] at h

/-- … moves forward and stays inside the table -/
theorem scanNow_bounds (inp : Input) (ho : RlenOk inp) {t : Term} {k e : Nat} {l : Leaf}
    (h : scanV Variant.now inp t k = some (e, l)) : k ≤ e ∧ (k < inp.ncols → e < inp.ncols) := by
  unfold Input.ncols
  cases t with
  | lit lf =>
    cases lf with
    | bit b =>
      simp only [scanV, Variant.now] at h
      cases hc : inp.cells[k / 8]? with
      | none => simp [hc] at h
      | some cell =>
        have hlt : k / 8 < inp.cells.length := (List.getElem?_eq_some_iff.1 hc).1
        simp only [hc] at h
        by_cases h1 : 255 < cell
        · simp [h1] at h
        · by_cases h2 : (((cell >>> (7 - k % 8)) % 2 == 1) == b) = true
          · simp only [h1, h2, decide_false, Bool.and_false, Bool.false_eq_true, if_false, if_true,
              Option.some.injEq, Prod.mk.injEq] at h
            omega
          · simp [h1, h2] at h
    | text s =>
      simp only [scanV, Variant.now] at h
      by_cases hal : k % 8 = 0
      · by_cases hsw : startsWith (inp.cells.drop (k / 8)) s = true
        · simp only [hal, hsw, decide_true, Bool.not_true, Bool.and_false, Bool.false_eq_true, if_false, if_true,
            Option.some.injEq, Prod.mk.injEq] at h
          have := startsWith_length _ _ hsw
          simp only [List.length_drop] at this
          omega
        · simp [hal, hsw] at h
      · simp [hal] at h
    | bytes bs =>
      simp only [scanV, Variant.now] at h
      by_cases hal : k % 8 = 0
      · by_cases hsw : startsWith (inp.cells.drop (k / 8)) (bs.map (·.val)) = true
        · simp only [hal, hsw, decide_true, Bool.not_true, Bool.and_false, Bool.false_eq_true, if_false, if_true,
            Option.some.injEq, Prod.mk.injEq, List.length_map] at h
          have := startsWith_length _ _ hsw
          simp only [List.length_drop, List.length_map] at this
          omega
        · simp [hal, hsw] at h
      · simp [hal] at h
  | regex id =>
    simp only [scanV, Variant.now] at h
    by_cases hal : k % 8 = 0
    · cases hr : inp.rlen id (k / 8) with
      | none => simp [hr, hal] at h
      | some l' =>
        simp only [hr, hal, decide_true, Bool.not_true, Bool.and_false, Bool.false_eq_true, if_false,
          Bool.false_and, Option.some.injEq, Prod.mk.injEq] at h
        have := ho id (k / 8) l' hr
        simp only [List.length_drop] at this
        omega
    · simp [hal] at h

/-- a prediction order that offers exactly the alternatives of the table -/
def PredExact (G : Grammar) (pred : Nat → NT → List (List ESym)) : Prop :=
  ∀ k x rhs, rhs ∈ pred k x ↔ (x, rhs) ∈ compile G none

/-- `predict` reading the alternatives off the compiled table (any order satisfying `PredExact` will do) -/
def predTable (G : Grammar) : Nat → NT → List (List ESym) :=
  fun _ x => ((compile G none).filter (fun (r : CRule) => decide (r.1 = x))).map (·.2)

theorem predTable_exact (G : Grammar) : PredExact G (predTable G) := by
  intro k x rhs
  unfold predTable
  simp only [List.mem_map, List.mem_filter, decide_eq_true_eq]
  constructor
  · rintro ⟨r, ⟨hr, hx⟩, he⟩
    have : r = (x, rhs) := by
      cases r with
      | mk a b => simp only at hx he; rw [hx, he]
    rw [← this]; exact hr
  · intro h
    exact ⟨(x, rhs), ⟨h, rfl⟩, rfl⟩

theorem full_now (G : Grammar) (inp : Input) (ho : RlenOk inp) (start : String)
    (pred : Nat → NT → List (List ESym)) (hp : PredExact G pred) : Full (mkCfg G Variant.now inp start pred) :=
  ⟨fun k y rhs h => (hp k y rhs).2 h, rfl, fun _ _ _ _ h => (scanNow_bounds inp ho h).1,
   fun _ _ _ _ h hk => (scanNow_bounds inp ho h).2 hk⟩

theorem collapse_user_ne_nil (s : String) (a r : Option String) (kids : List PT) :
    collapse (.node (.user s) a r kids) ≠ [] := by
  simp [collapse]

/-- **a word of the parser's language is parsed by the machine** (the code as it is: `Variant.now`): the parse never
    raises, and a finished parse returns at least one tree -/
theorem accepts_parsed (G : Grammar) (hwf : G.wf = true) (inp : Input) (ho : RlenOk inp) (start : String)
    (pred : Nat → NT → List (List ESym)) (hp : PredExact G pred) (c d : Nat)
    (hacc : accepts G inp.toInp c d start = true) (fuel : Nat) :
    parseComplete (mkCfg G Variant.now inp start pred) fuel ≠ some (.error ()) ∧
    ∀ ts, parseComplete (mkCfg G Variant.now inp start pred) fuel = some (.ok ts) → ts ≠ [] := by
  obtain ⟨w, hw, hsc⟩ := (accepts_iff G inp.toInp c d start).1 hacc
  have hdrv := compile_complete G hwf (scanV Variant.now inp) inp.toInp (scanAgree_now inp) c d start none none w 0
    inp.toInp.ncols hw hsc
  obtain ⟨n, hn⟩ := drvN_of_drv hdrv
  let cfg := mkCfg G Variant.now inp start pred
  have hs : SaneS cfg := saneS_of_rules cfg G none rfl (fun k x rhs h => (hp k x rhs).1 h)
  have hfull := full_now G inp ho start pred hp
  have hnc : 0 < cfg.ncols := by show 0 < 8 * inp.cells.length + 1; omega
  have hlast : cfg.ncols - 1 = inp.toInp.ncols := by
    show 8 * inp.cells.length + 1 - 1 = 8 * inp.cells.length
    omega
  have hd : DrvN cfg.rules cfg.scan n [ESym.plain (.user cfg.start)] 0 (cfg.ncols - 1) := by
    rw [hlast]; exact hn
  obtain ⟨h1, h2⟩ := machine_complete hs hfull hnc hd fuel
  unfold parseComplete
  cases hrun : run cfg fuel (M.init cfg) with
  | next m => simp
  | raised m => exact absurd hrun (h2 m)
  | done m =>
    refine ⟨by simp, ?_⟩
    intro ts hts
    simp only [Option.some.injEq, Except.ok.injEq] at hts
    subst hts
    have hne := h1 m hrun
    cases hout : m.out with
    | nil => exact absurd hout hne
    | cons pt rest =>
      have htop := chart_sound cfg hs fuel m (Or.inl hrun) pt (by rw [hout]; simp)
      obtain ⟨kids, rhs, rfl, _, _⟩ := htop
      intro hnil
      rw [List.flatMap_cons] at hnil
      have := List.append_eq_nil_iff.1 hnil
      exact collapse_user_ne_nil _ _ _ _ this.1

end FV.Earley
