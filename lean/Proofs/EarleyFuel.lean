/-
C06 / the answer of the parser model does not depend on the fuel.

`run` / `parseComplete` of `Model/Earley.lean` take a step budget (`none` = "not finished yet").  Here:
* `run_stable`, `parseComplete_stable`, `parseComplete_agree` — a finished run stays finished with any larger budget,
  with the same result; two finished runs of the same configuration agree;
* `totalFuel c := stepBoundN c (chartBound c) + 1` — the explicit bound of `run_acyclic_finishes`, a function of the
  configuration alone;
* `parse_total` — under the admission rule of the code (`Policy.acyclic`) the parse has finished at `totalFuel c`, and
  that answer is THE answer: every larger budget returns it, every budget that returns anything returns it;
* `step_never_raises` / `parse_total_ok` — with a scanner that stays inside the table no run raises (`IndexError`), so
  the answer is `ok ts`.
-/
import Proofs.EarleyBound
namespace FV.Earley

/-- a run that has stopped (`done` / `raised`) within `n` steps is the same with `n + k` steps -/
theorem run_stable {c : Cfg} : ∀ (n k : Nat) (m : M) (r : Res), run c n m = r → (∀ m', r ≠ .next m') →
    run c (n + k) m = r
  | 0, _, m, r, h, hn => by
    unfold run at h
    exact absurd h.symm (hn m)
  | n + 1, k, m, r, h, hn => by
    rw [Nat.add_right_comm]
    unfold run at h ⊢
    cases hst : step c m with
    | next m1 =>
      rw [hst] at h
      exact run_stable n k m1 r h hn
    | done m1 => rw [hst] at h; exact h
    | raised m1 => rw [hst] at h; exact h

theorem parseComplete_stable {c : Cfg} {n : Nat} {r : Except Unit (List Tree)} (h : parseComplete c n = some r)
    (k : Nat) : parseComplete c (n + k) = some r := by
  unfold parseComplete at h ⊢
  cases hr : run c n (M.init c) with
  | next m => rw [hr] at h; cases h
  | done m =>
    rw [run_stable n k _ _ hr (by intro m' hh; cases hh)]
    rw [hr] at h; exact h
  | raised m =>
    rw [run_stable n k _ _ hr (by intro m' hh; cases hh)]
    rw [hr] at h; exact h

/-- two budgets that both suffice give the same answer -/
theorem parseComplete_agree {c : Cfg} {n n' : Nat} {r r' : Except Unit (List Tree)}
    (h : parseComplete c n = some r) (h' : parseComplete c n' = some r') : r = r' := by
  by_cases hle : n ≤ n'
  · have := parseComplete_stable h (n' - n)
    rw [show n + (n' - n) = n' by omega, h'] at this
    exact (Option.some.inj this).symm
  · have := parseComplete_stable h' (n - n')
    rw [show n' + (n - n') = n by omega, h] at this
    exact Option.some.inj this

/-- **the step budget that always suffices** for the machine of the code: a function of the configuration alone -/
def totalFuel (c : Cfg) : Nat := stepBoundN c (chartBound c) + 1

/-- **the parser model is a total function**: under the admission rule of the code the parse has finished after
    `totalFuel c` steps; its answer there is the answer for every larger budget, and the only answer any budget gives -/
theorem parse_total {c : Cfg} (hs : Sane c) (hp : c.policy = .acyclic) :
    ∃ r, parseComplete c (totalFuel c) = some r ∧
      (∀ fuel, totalFuel c ≤ fuel → parseComplete c fuel = some r) ∧
      (∀ fuel r', parseComplete c fuel = some r' → r' = r) := by
  have hfin : ∃ r, parseComplete c (totalFuel c) = some r := by
    obtain ⟨m', h | h⟩ := run_acyclic_finishes hs hp
    · exact ⟨_, by unfold parseComplete totalFuel; rw [h]⟩
    · exact ⟨_, by unfold parseComplete totalFuel; rw [h]⟩
  obtain ⟨r, hr⟩ := hfin
  refine ⟨r, hr, ?_, ?_⟩
  · intro fuel hle
    have := parseComplete_stable hr (fuel - totalFuel c)
    rwa [show totalFuel c + (fuel - totalFuel c) = fuel by omega] at this
  · intro fuel r' h'
    exact parseComplete_agree h' hr

/-- a scanner that stays inside the table never makes a step raise -/
theorem step_never_raises {c : Cfg} (hin : ∀ t k e l, c.scan t k = some (e, l) → k < c.ncols → e < c.ncols)
    (m m' : M) : step c m ≠ .raised m' := by
  intro h
  unfold step at h
  split at h
  · cases h
  · rename_i hk
    split at h
    · split at h
      · cases h
      · split at h <;> cases h
    · split at h
      · cases h
      · split at h
        · cases h
        · split at h
          · cases h
          · split at h
            · cases h
            · cases h
            · split at h
              · cases h
              · rename_i e l hscan
                split at h
                · rename_i he
                  have := hin _ _ _ _ hscan (by omega)
                  omega
                · cases h

theorem run_never_raises {c : Cfg} (hin : ∀ t k e l, c.scan t k = some (e, l) → k < c.ncols → e < c.ncols) :
    ∀ (n : Nat) (m m' : M), run c n m ≠ .raised m'
  | 0, m, m', h => by unfold run at h; cases h
  | n + 1, m, m', h => by
    unfold run at h
    cases hst : step c m with
    | next m1 => rw [hst] at h; exact run_never_raises hin n m1 m' h
    | done m1 => rw [hst] at h; cases h
    | raised m1 => exact step_never_raises hin m m1 hst

/-- … so the answer of the total parser is a list of trees -/
theorem parse_total_ok {c : Cfg} (hs : Sane c) (hp : c.policy = .acyclic)
    (hin : ∀ t k e l, c.scan t k = some (e, l) → k < c.ncols → e < c.ncols) :
    ∃ ts, parseComplete c (totalFuel c) = some (.ok ts) ∧
      (∀ fuel, totalFuel c ≤ fuel → parseComplete c fuel = some (.ok ts)) ∧
      (∀ fuel r', parseComplete c fuel = some r' → r' = .ok ts) := by
  obtain ⟨r, h1, h2, h3⟩ := parse_total hs hp
  cases r with
  | ok ts => exact ⟨ts, h1, h2, h3⟩
  | error e =>
    exfalso
    unfold parseComplete at h1
    cases hr : run c (totalFuel c) (M.init c) with
    | next m => rw [hr] at h1; cases h1
    | done m => rw [hr] at h1; cases h1
    | raised m => exact run_never_raises hin _ _ _ hr

end FV.Earley
