/-
C06 helper lemmas for EVERY admission policy (in particular the one the code has: duplicate ⇔ same item and same
children, with the covering cut): the chart machine stops within a bound that only depends on the largest column it
builds.  Contrapositive: a parse that does not terminate admits ever more states into some column — there is no
other way for the machine to run forever (no loop outside the admissions).

`muN c N m` is the measure of `Proofs/Earley.lean` with the number of admissible items not yet admitted
replaced by `N - |column|`.
-/
import Proofs.Earley
namespace FV.Earley

/-! ### columns only grow -/

theorem Col.add_cases (p : Policy) (col : Col) (s : St) :
    Col.add p col s = col ∨
    ((Col.add p col s).states = col.states ++ [s] ∧
      ((Col.add p col s).dots = col.dots ++ [s] ∨ (Col.add p col s).dots = col.dots)) := by
  unfold Col.add
  split
  · exact Or.inl rfl
  · right
    refine ⟨rfl, ?_⟩
    split
    · exact Or.inl rfl
    · exact Or.inr rfl

/-- `cols'` holds at least the states of `cols`, column by column, and no column's `dot_map` grew by more than its
    states did -/
structure Ext (cols cols' : List Col) : Prop where
  len : cols'.length = cols.length
  st : ∀ j, (colAt cols j).states.length ≤ (colAt cols' j).states.length
  dt : ∀ j, (colAt cols' j).dots.length + (colAt cols j).states.length
        ≤ (colAt cols j).dots.length + (colAt cols' j).states.length

theorem Ext.refl (cols : List Col) : Ext cols cols := ⟨rfl, fun _ => Nat.le_refl _, fun _ => Nat.le_refl _⟩

theorem Ext.trans {a b c : List Col} (h1 : Ext a b) (h2 : Ext b c) : Ext a c :=
  ⟨h2.len.trans h1.len, fun j => Nat.le_trans (h1.st j) (h2.st j),
   fun j => by have := h1.dt j; have := h2.dt j; have := h1.st j; have := h2.st j; omega⟩

theorem ext_addAt (p : Policy) (cols : List Col) (e : Nat) (s : St) : Ext cols (addAt p cols e s) := by
  refine ⟨length_addAt p cols e s, ?_, ?_⟩
  · intro j
    rw [colAt_addAt]
    split
    · rename_i h
      rw [h.1]
      rcases Col.add_cases p (colAt cols e) s with h1 | ⟨h1, _⟩
      · rw [h1]; exact Nat.le_refl _
      · rw [h1]; simp
    · exact Nat.le_refl _
  · intro j
    rw [colAt_addAt]
    split
    · rename_i h
      rw [h.1]
      rcases Col.add_cases p (colAt cols e) s with h1 | ⟨h1, h2 | h2⟩
      · rw [h1]; exact Nat.le_refl _
      · rw [h1, h2]; simp; omega
      · rw [h1, h2]; simp
    · exact Nat.le_refl _

theorem ext_fold_pred (p : Policy) (k : Nat) (x : NT) (alts : List (List ESym)) :
    ∀ cols : List Col, Ext cols (alts.foldl (fun cs rhs => addAt p cs k
        { item := { lhs := x, rhs := rhs, dot := 0, origin := k }, kids := [] }) cols) := by
  induction alts with
  | nil => intro cols; exact Ext.refl cols
  | cons rhs rest ih =>
    intro cols
    simp only [List.foldl_cons]
    exact Ext.trans (ext_addAt p cols k _) (ih _)

/-! ### the potential with a column capacity `N` -/

def wcolN (N A B : Nat) (col : Col) : Nat := (A + B) * (N - col.states.length) + A * col.states.length
def wcurN (N A B idx : Nat) (col : Col) : Nat := (A + B) * (N - col.states.length) + A * (col.states.length - idx)

def potColsN (N A B idx : Nat) : List Col → Nat
  | [] => 0
  | cur :: fut => wcurN N A B idx cur + (fut.map (wcolN N A B)).sum

def phiN (N A B : Nat) (cols : List Col) (k idx : Nat) : Nat := potColsN N A B idx (cols.drop k)

theorem wcurN_zero (N A B : Nat) (col : Col) : wcurN N A B 0 col = wcolN N A B col := by
  unfold wcurN wcolN; simp

theorem potColsN_zero (N A B : Nat) (l : List Col) : potColsN N A B 0 l = (l.map (wcolN N A B)).sum := by
  cases l with
  | nil => rfl
  | cons a as => simp [potColsN, wcurN_zero]

/-- a column that grew by `d` states (still within the capacity) lost `B * d` of potential -/
theorem wcolN_grow (N A B : Nat) (col col' : Col) (h1 : col.states.length ≤ col'.states.length)
    (h2 : col'.states.length ≤ N) :
    wcolN N A B col' + B * (col'.states.length - col.states.length) ≤ wcolN N A B col := by
  unfold wcolN
  obtain ⟨d, hd⟩ : ∃ d, col'.states.length = col.states.length + d := ⟨_, (Nat.add_sub_cancel' h1).symm⟩
  obtain ⟨x, hx⟩ : ∃ x, N = col'.states.length + x := ⟨_, (Nat.add_sub_cancel' h2).symm⟩
  have e1 : N - col'.states.length = x := by omega
  have e2 : N - col.states.length = x + d := by omega
  have e3 : col'.states.length - col.states.length = d := by omega
  rw [e1, e2, e3, hd, Nat.mul_add (A + B) x d, Nat.add_mul A B d, Nat.mul_add A _ d]
  omega

theorem wcurN_grow (N A B idx : Nat) (col col' : Col) (h1 : col.states.length ≤ col'.states.length)
    (h2 : col'.states.length ≤ N) :
    wcurN N A B idx col' + B * (col'.states.length - col.states.length) ≤ wcurN N A B idx col := by
  unfold wcurN
  obtain ⟨d, hd⟩ : ∃ d, col'.states.length = col.states.length + d := ⟨_, (Nat.add_sub_cancel' h1).symm⟩
  obtain ⟨x, hx⟩ : ∃ x, N = col'.states.length + x := ⟨_, (Nat.add_sub_cancel' h2).symm⟩
  have e1 : N - col'.states.length = x := by omega
  have e2 : N - col.states.length = x + d := by omega
  have e3 : col'.states.length - col.states.length = d := by omega
  have e4 : A * (col.states.length + d - idx) ≤ A * (col.states.length - idx) + A * d := by
    rw [← Nat.mul_add]; exact Nat.mul_le_mul_left _ (by omega)
  rw [e1, e2, e3, hd, Nat.mul_add (A + B) x d, Nat.add_mul A B d]
  omega

theorem sum_map_le {f g : Col → Nat} : ∀ (l l' : List Col), l'.length = l.length →
    (∀ i, f (l'.getD i {}) ≤ g (l.getD i {})) → (l'.map f).sum ≤ (l.map g).sum
  | [], [], _, _ => by simp
  | [], _ :: _, h, _ => by simp at h
  | _ :: _, [], h, _ => by simp at h
  | a :: as, b :: bs, h, hf => by
    simp only [List.map_cons, List.sum_cons]
    have h0 := hf 0
    simp only [List.getD_cons_zero] at h0
    have := sum_map_le as bs (by simpa using h) (fun i => by have := hf (i + 1); simpa using this)
    omega

/-- the columns growing (within the capacity) never raises the potential -/
theorem phiN_ext (N A B : Nat) {cols cols' : List Col} (k idx : Nat) (he : Ext cols cols')
    (hN : ∀ j, (colAt cols' j).states.length ≤ N) :
    phiN N A B cols' k idx ≤ phiN N A B cols k idx := by
  unfold phiN
  have hdl : (cols'.drop k).length = (cols.drop k).length := by simp [he.len]
  have hget : ∀ i, (cols'.drop k).getD i {} = colAt cols' (k + i) ∧ (cols.drop k).getD i {} = colAt cols (k + i) := by
    intro i
    unfold colAt
    simp [List.getD_eq_getElem?_getD, List.getElem?_drop]
  cases h1 : cols.drop k with
  | nil =>
    have : cols'.drop k = [] := by
      apply List.eq_nil_of_length_eq_zero; rw [hdl, h1]; rfl
    rw [this]; exact Nat.le_refl _
  | cons a as =>
    cases h2 : cols'.drop k with
    | nil => rw [h1, h2] at hdl; simp at hdl
    | cons b bs =>
      simp only [potColsN]
      have g0 := hget 0
      rw [h1, h2] at g0
      simp only [List.getD_cons_zero, Nat.add_zero] at g0
      have hcur : wcurN N A B idx b ≤ wcurN N A B idx a := by
        have := wcurN_grow N A B idx a b (by rw [g0.1, g0.2]; exact he.st k) (by rw [g0.1]; exact hN k)
        omega
      have hrest : (bs.map (wcolN N A B)).sum ≤ (as.map (wcolN N A B)).sum := by
        apply sum_map_le as bs (by rw [h1, h2] at hdl; simpa using hdl)
        intro i
        have gi := hget (i + 1)
        rw [h1, h2] at gi
        simp only [List.getD_cons_succ] at gi
        rw [gi.1, gi.2]
        have := wcolN_grow N A B (colAt cols (k + (i + 1))) (colAt cols' (k + (i + 1))) (he.st _) (hN _)
        omega
      omega

/-- one more state in column `e ≥ k` (still within the capacity): the potential drops by `B` -/
theorem phiN_addAt (N A B : Nat) (p : Policy) (cols : List Col) (k idx e : Nat) (s : St) (hke : k ≤ e)
    (hN : ∀ j, (colAt (addAt p cols e s) j).states.length ≤ N) :
    phiN N A B (addAt p cols e s) k idx
      + B * ((colAt (addAt p cols e s) e).states.length - (colAt cols e).states.length)
      ≤ phiN N A B cols k idx := by
  by_cases hgrow : (colAt (addAt p cols e s) e).states.length = (colAt cols e).states.length
  · rw [hgrow]
    have := phiN_ext N A B k idx (ext_addAt p cols e s) hN
    simpa using this
  · -- the column grew: `e` is inside the table
    have he : e < cols.length := by
      apply Classical.byContradiction
      intro hn
      apply hgrow
      have : addAt p cols e s = cols := by
        unfold addAt; exact List.set_eq_of_length_le (Nat.le_of_not_lt hn)
      rw [this]
    unfold phiN addAt
    rw [List.drop_set]
    have hnot : ¬ e < k := by omega
    simp only [hnot, ↓reduceIte]
    have hk : k < cols.length := by omega
    rw [List.drop_eq_getElem_cons hk]
    have hcol : colAt (addAt p cols e s) e = Col.add p (colAt cols e) s := by
      rw [colAt_addAt]; simp [he]
    have hN' := hN e
    rw [hcol] at hN'
    have hle : (colAt cols e).states.length ≤ (Col.add p (colAt cols e) s).states.length := by
      have := (ext_addAt p cols e s).st e
      rw [hcol] at this; exact this
    have hcol2 : colAt (cols.set e (Col.add p (colAt cols e) s)) e = Col.add p (colAt cols e) s := by
      have := hcol; unfold addAt at this; exact this
    rw [hcol2]
    rw [colAt_eq_getElem cols e he] at hN' hle ⊢
    by_cases hek : e = k
    · subst hek
      simp only [Nat.sub_self, List.set_cons_zero, potColsN]
      have := wcurN_grow N A B idx cols[e] (Col.add p cols[e] s) hle hN'
      omega
    · obtain ⟨i, hi⟩ : ∃ i, e - k = i + 1 := ⟨e - k - 1, by omega⟩
      rw [hi]
      simp only [List.set_cons_succ, potColsN]
      have hil : i < (cols.drop (k + 1)).length := by simp; omega
      have hsum := sum_map_set (wcolN N A B) (cols.drop (k + 1)) i (Col.add p cols[e] s) hil
      have hget : (cols.drop (k + 1))[i] = cols[e] := by
        simp only [List.getElem_drop]
        congr 1; omega
      rw [hget] at hsum
      have := wcolN_grow N A B cols[e] (Col.add p cols[e] s) hle hN'
      omega

/-! ### frames under any policy -/

theorem findDot_add_any (p : Policy) (col : Col) (s : St) (x : NT) :
    ((Col.add p col s).findDot x).length + col.states.length
      ≤ (col.findDot x).length + (Col.add p col s).states.length := by
  rcases Col.add_cases p col s with h | ⟨h1, h2 | h2⟩
  · rw [h]; exact Nat.le_refl _
  · unfold Col.findDot
    rw [h1, h2, List.filter_append]
    have := List.length_filter_le (fun s => s.item.dotNT? == some x) [s]
    simp only [List.length_append, List.length_singleton] at this ⊢
    omega
  · unfold Col.findDot
    rw [h1, h2]
    simp

theorem frameLen_addAt_any (p : Policy) (cols : List Col) (e : Nat) (s t : St) :
    frameLen (addAt p cols e s) t + (colAt cols e).states.length
      ≤ frameLen cols t + (colAt (addAt p cols e s) e).states.length := by
  unfold frameLen
  by_cases he : e < cols.length
  · have hcol : colAt (addAt p cols e s) e = Col.add p (colAt cols e) s := by
      rw [colAt_addAt]; simp [he]
    rw [hcol]
    by_cases ho : t.item.origin = e
    · rw [colAt_addAt]
      simp only [ho, he, and_self, ↓reduceIte]
      exact findDot_add_any p _ s _
    · rw [colAt_addAt]
      have : ¬ (t.item.origin = e ∧ e < cols.length) := fun h => ho h.1
      simp only [this, ↓reduceIte]
      have := (ext_addAt p cols e s).st e
      rw [hcol] at this
      omega
  · have : addAt p cols e s = cols := by
      unfold addAt; exact List.set_eq_of_length_le (Nat.le_of_not_lt he)
    rw [this]
    exact Nat.le_refl _

theorem pendRem_addAt_any (p : Policy) (cols : List Col) (e : Nat) (s : St) (l : List St) :
    pendRem (addAt p cols e s) l + l.length * (colAt cols e).states.length
      ≤ pendRem cols l + l.length * (colAt (addAt p cols e s) e).states.length := by
  induction l with
  | nil => simp [pendRem]
  | cons t ts ih =>
    simp only [pendRem, List.length_cons]
    have := frameLen_addAt_any p cols e s t
    rw [Nat.add_mul, Nat.add_mul]
    omega

/-! ### the machine -/

structure WfN (c : Cfg) (m : M) : Prop where
  len : m.cols.length = c.ncols
  dotsNew : ∀ j, m.k ≤ j → (colAt m.cols j).dots.length ≤ (colAt m.cols j).states.length
  dotsOld : ∀ j, j < m.k → (colAt m.cols j).dots.length ≤ 2 * (colAt m.cols j).states.length
  pendLen : m.pending.length ≤ (colAt m.cols m.k).states.length

theorem WfN.dots_le {c : Cfg} {m : M} (hw : WfN c m) (j : Nat) :
    (colAt m.cols j).dots.length ≤ 2 * (colAt m.cols j).states.length := by
  by_cases h : j < m.k
  · exact hw.dotsOld j h
  · have := hw.dotsNew j (by omega); omega

def capA (N : Nat) : Nat := (N + 1) * (2 * N + 3)
def capB (N : Nat) : Nat := N + 1

/-- the termination measure relative to a column capacity `N` -/
def muN (c : Cfg) (N : Nat) (m : M) : Nat :=
  phiN N (capA N) (capB N) m.cols m.k m.idx + frameRem m.cols m.frame + pendRem m.cols m.pending + (c.ncols - m.k)

def LenOK (N : Nat) (cols : List Col) : Prop := ∀ j, (colAt cols j).states.length ≤ N

theorem frameLen_le_any {cols : List Col} {N : Nat}
    (hd : ∀ j, (colAt cols j).dots.length ≤ 2 * (colAt cols j).states.length) (hN : LenOK N cols) (t : St) :
    frameLen cols t ≤ 2 * N := by
  unfold frameLen Col.findDot
  have h1 := List.length_filter_le (fun s => s.item.dotNT? == some t.item.lhs) (colAt cols t.item.origin).dots
  have h2 := hd t.item.origin
  have h3 := hN t.item.origin
  omega

theorem ext_shortcut (cols : List Col) (k : Nat) :
    (shortcut cols k).length = cols.length ∧
    (∀ j, (colAt (shortcut cols k) j).states.length = (colAt cols j).states.length) ∧
    (∀ j, j ≠ k → colAt (shortcut cols k) j = colAt cols j) ∧
    (shortcut cols k).drop (k + 1) = cols.drop (k + 1) ∧
    (colAt (shortcut cols k) k).dots.length ≤ (colAt cols k).dots.length + (colAt cols k).states.length := by
  -- `ShInv` of Proofs/Earley.lean with the trivial item predicate: re-proved here without `Item.ok`
  have key : ∀ (l : List NT) (cs : List Col) (r : Nat),
      cs.length = cols.length → (∀ j, (colAt cs j).states.length = (colAt cols j).states.length) →
      (∀ j, j ≠ k → colAt cs j = colAt cols j) → cs.drop (k + 1) = cols.drop (k + 1) →
      (colAt cs k).dots.length ≤ (colAt cols k).dots.length + r →
      let cs' := l.foldl (fun cs x => shortcutOne cs k x) cs
      cs'.length = cols.length ∧ (∀ j, (colAt cs' j).states.length = (colAt cols j).states.length) ∧
      (∀ j, j ≠ k → colAt cs' j = colAt cols j) ∧ cs'.drop (k + 1) = cols.drop (k + 1) ∧
      (colAt cs' k).dots.length ≤ (colAt cols k).dots.length + (r + l.length) := by
    intro l
    induction l with
    | nil => intro cs r h1 h2 h3 h4 h5; exact ⟨h1, h2, h3, h4, by simpa using h5⟩
    | cons x xs ih =>
      intro cs r h1 h2 h3 h4 h5
      simp only [List.foldl_cons, List.length_cons]
      have hone : (shortcutOne cs k x).length = cols.length ∧
          (∀ j, (colAt (shortcutOne cs k x) j).states.length = (colAt cols j).states.length) ∧
          (∀ j, j ≠ k → colAt (shortcutOne cs k x) j = colAt cols j) ∧
          (shortcutOne cs k x).drop (k + 1) = cols.drop (k + 1) ∧
          (colAt (shortcutOne cs k x) k).dots.length ≤ (colAt cols k).dots.length + (r + 1) := by
        unfold shortcutOne
        simp only
        split
        · exact ⟨h1, h2, h3, h4, by omega⟩
        · split
          · split
            · refine ⟨by simp [h1], ?_, ?_, ?_, ?_⟩
              · intro j
                rw [colAt_set]
                split
                · rename_i hj
                  rw [Col.replace_states_len, hj.1]; exact h2 k
                · exact h2 j
              · intro j hj
                rw [colAt_set]
                have : ¬ (j = k ∧ k < cs.length) := fun h => hj h.1
                simp only [this, ↓reduceIte]
                exact h3 j hj
              · rw [List.drop_set]; simp [h4]
              · rw [colAt_set]
                split
                · exact Nat.le_trans (Col.replace_dots_len _ _ _) (by omega)
                · omega
            · exact ⟨h1, h2, h3, h4, by omega⟩
          · exact ⟨h1, h2, h3, h4, by omega⟩
      obtain ⟨g1, g2, g3, g4, g5⟩ := hone
      have := ih (shortcutOne cs k x) (r + 1) g1 g2 g3 g4 g5
      have e : r + 1 + xs.length = r + (xs.length + 1) := by omega
      rw [e] at this
      exact this
  have := key (beginnersOf (colAt cols k)) cols 0 rfl (fun _ => rfl) (fun _ _ => rfl) rfl (by omega)
  unfold shortcut
  obtain ⟨g1, g2, g3, g4, g5⟩ := this
  refine ⟨g1, g2, g3, g4, ?_⟩
  have hb := length_beginnersOf_le (colAt cols k)
  omega

/-- `Sane` without the clause about `predict` (any prediction order, any alternatives) -/
def ScanMono (c : Cfg) : Prop := ∀ t k e l, c.scan t k = some (e, l) → k ≤ e

/-- the chart after a step holds at least what it held before (columns only grow; `place_repetition_shortcut`
    replaces states in place) -/
theorem step_grows {c : Cfg} {m m' : M} (h : step c m = .next m') :
    m'.cols.length = m.cols.length ∧ ∀ j, (colAt m.cols j).states.length ≤ (colAt m'.cols j).states.length := by
  unfold step at h
  split at h
  · cases h
  · split at h
    · split at h
      · cases h; exact ⟨rfl, fun _ => Nat.le_refl _⟩
      · split at h
        · cases h; exact ⟨length_addAt _ _ _ _, (ext_addAt _ _ _ _).st⟩
        · cases h; exact ⟨rfl, fun _ => Nat.le_refl _⟩
    · split at h
      · cases h; exact ⟨rfl, fun _ => Nat.le_refl _⟩
      · split at h
        · cases h
          obtain ⟨g1, g2, _⟩ := ext_shortcut m.cols m.k
          exact ⟨g1, fun j => by rw [g2 j]; exact Nat.le_refl _⟩
        · split at h
          · cases h; exact ⟨rfl, fun _ => Nat.le_refl _⟩
          · split at h
            · cases h; exact ⟨rfl, fun _ => Nat.le_refl _⟩
            · rename_i x a r hsym
              cases h
              have := ext_fold_pred c.policy m.k x (c.pred m.k x) m.cols
              exact ⟨this.len, this.st⟩
            · split at h
              · cases h; exact ⟨rfl, fun _ => Nat.le_refl _⟩
              · split at h
                · cases h
                · cases h; exact ⟨length_addAt _ _ _ _, (ext_addAt _ _ _ _).st⟩

theorem wfN_ext {c : Cfg} {cols cols' : List Col} {k : Nat} (he : Ext cols cols')
    (hlen : cols.length = c.ncols)
    (hn : ∀ j, k ≤ j → (colAt cols j).dots.length ≤ (colAt cols j).states.length)
    (ho : ∀ j, j < k → (colAt cols j).dots.length ≤ 2 * (colAt cols j).states.length) :
    cols'.length = c.ncols ∧
    (∀ j, k ≤ j → (colAt cols' j).dots.length ≤ (colAt cols' j).states.length) ∧
    (∀ j, j < k → (colAt cols' j).dots.length ≤ 2 * (colAt cols' j).states.length) := by
  refine ⟨by rw [he.len]; exact hlen, ?_, ?_⟩
  · intro j hj; have := hn j hj; have := he.dt j; have := he.st j; omega
  · intro j hj; have := ho j hj; have := he.dt j; have := he.st j; omega

theorem capA_ge (N : Nat) : 2 * N + 3 ≤ capA N := by
  unfold capA; exact Nat.le_mul_of_pos_left _ (by omega)

theorem capA_ge2 (N : Nat) : N * (2 + 2 * N) + 1 ≤ capA N := by
  unfold capA
  rw [Nat.add_mul]
  have : N * (2 + 2 * N) ≤ N * (2 * N + 3) := Nat.mul_le_mul_left _ (by omega)
  omega

/-- **one step, any admission policy**: as long as the chart after the step still fits the capacity `N`, the
    measure drops -/
theorem step_any {c : Cfg} (hs : ScanMono c) {N : Nat} {m m' : M} (hw : WfN c m)
    (h : step c m = .next m') (hN' : LenOK N m'.cols) : WfN c m' ∧ muN c N m' < muN c N m := by
  have hlen := hw.len
  have hgrow := step_grows h
  have hN : LenOK N m.cols := fun j => Nat.le_trans (hgrow.2 j) (hN' j)
  have hB : capB N = N + 1 := rfl
  unfold step at h
  split at h
  · cases h
  · rename_i hk
    have hk : m.k < c.ncols := by omega
    have hkl : m.k < m.cols.length := by omega
    split at h
    · -- an active `complete`
      rename_i t j hfr
      split at h
      · cases h
        refine ⟨⟨hw.len, hw.dotsNew, hw.dotsOld, hw.pendLen⟩, ?_⟩
        unfold muN
        simp only [hfr, frameRem]
        omega
      · rename_i s hsome
        have hjlt : j < frameLen m.cols t := by
          unfold frameLen
          exact (List.getElem?_eq_some_iff.1 hsome).1
        split at h
        · rename_i s' hadv
          cases h
          have he := ext_addAt c.policy m.cols m.k s'
          obtain ⟨g1, g2, g3⟩ := wfN_ext (k := m.k) he hw.len hw.dotsNew hw.dotsOld
          refine ⟨⟨g1, g2, g3, Nat.le_trans hw.pendLen (he.st m.k)⟩, ?_⟩
          unfold muN
          simp only [hfr, frameRem]
          have h1 := phiN_addAt N (capA N) (capB N) c.policy m.cols m.k m.idx m.k s' (Nat.le_refl _) hN'
          have h2 := frameLen_addAt_any c.policy m.cols m.k s' t
          have h3 := pendRem_addAt_any c.policy m.cols m.k s' m.pending
          have hst := he.st m.k
          have hpl : m.pending.length ≤ N := Nat.le_trans hw.pendLen (hN m.k)
          generalize hd : (colAt (addAt c.policy m.cols m.k s') m.k).states.length - (colAt m.cols m.k).states.length = d
            at h1
          have e1 : (colAt (addAt c.policy m.cols m.k s') m.k).states.length
              = (colAt m.cols m.k).states.length + d := by omega
          rw [e1] at h2 h3
          rw [Nat.mul_add] at h3
          have h4 : m.pending.length * d ≤ N * d := Nat.mul_le_mul_right _ hpl
          have h5 : capB N * d = N * d + d := by rw [hB, Nat.add_mul]; simp
          omega
        · cases h
          refine ⟨⟨hw.len, hw.dotsNew, hw.dotsOld, hw.pendLen⟩, ?_⟩
          unfold muN
          simp only [hfr, frameRem]
          omega
    · rename_i hfr
      split at h
      · -- the next pending `complete` of `predict`
        rename_i t rest hpend
        cases h
        have hpl := hw.pendLen
        rw [hpend] at hpl
        simp only [List.length_cons] at hpl
        refine ⟨⟨hw.len, hw.dotsNew, hw.dotsOld, by simp only; omega⟩, ?_⟩
        unfold muN
        simp only [hfr, hpend, pendRem]
        split
        · simp only [frameRem]; omega
        · simp only [frameRem]; omega
      · rename_i hpend
        split at h
        · -- end of the column
          cases h
          obtain ⟨g1, g2, g3, g4, g5⟩ := ext_shortcut m.cols m.k
          refine ⟨⟨by rw [g1]; exact hw.len, ?_, ?_, by simp [hpend]⟩, ?_⟩
          · intro j hj
            simp only at hj ⊢
            rw [g3 j (by omega)]; exact hw.dotsNew j (by omega)
          · intro j hj
            simp only at hj ⊢
            by_cases hjk : j = m.k
            · rw [hjk]
              have := hw.dotsNew m.k (Nat.le_refl _)
              rw [g2 m.k]; omega
            · rw [g3 j hjk]; exact hw.dotsOld j (by omega)
          · unfold muN
            simp only [hfr, hpend, frameRem, pendRem]
            have e1 : phiN N (capA N) (capB N) (shortcut m.cols m.k) (m.k + 1) 0
                = ((m.cols.drop (m.k + 1)).map (wcolN N (capA N) (capB N))).sum := by
              unfold phiN; rw [g4, potColsN_zero]
            have e2 : phiN N (capA N) (capB N) m.cols m.k m.idx
                = wcurN N (capA N) (capB N) m.idx m.cols[m.k]
                  + ((m.cols.drop (m.k + 1)).map (wcolN N (capA N) (capB N))).sum := by
              unfold phiN; rw [List.drop_eq_getElem_cons hkl]; rfl
            rw [e1, e2]; omega
        · rename_i s hsome
          have hidx : m.idx < (colAt m.cols m.k).states.length := (List.getElem?_eq_some_iff.1 hsome).1
          have hstep : phiN N (capA N) (capB N) m.cols m.k (m.idx + 1) + capA N
              ≤ phiN N (capA N) (capB N) m.cols m.k m.idx := by
            unfold phiN
            rw [List.drop_eq_getElem_cons hkl]
            rw [colAt_eq_getElem m.cols m.k hkl] at hidx
            simp only [potColsN, wcurN]
            have : m.cols[m.k].states.length - m.idx = (m.cols[m.k].states.length - (m.idx + 1)) + 1 := by omega
            rw [this, Nat.mul_add]; omega
          have hAge := capA_ge N
          split at h
          · -- finished: open the frame
            cases h
            refine ⟨⟨hw.len, hw.dotsNew, hw.dotsOld, by simp [hpend]⟩, ?_⟩
            unfold muN
            simp only [hpend, pendRem]
            have hL := frameLen_le_any hw.dots_le hN s
            split
            · simp only [hfr, frameRem]; omega
            · simp only [hfr, frameRem]; omega
          · split at h
            · cases h
              refine ⟨⟨hw.len, hw.dotsNew, hw.dotsOld, by simp [hpend]⟩, ?_⟩
              unfold muN; simp only [hfr, hpend, frameRem, pendRem]; omega
            · -- predict
              rename_i x a r hsym
              cases h
              have he := ext_fold_pred c.policy m.k x (c.pred m.k x) m.cols
              generalize hcols : (c.pred m.k x).foldl (fun cs rhs => addAt c.policy cs m.k
                  { item := { lhs := x, rhs := rhs, dot := 0, origin := m.k }, kids := [] }) m.cols = cols' at he hN' ⊢
              obtain ⟨g1, g2, g3⟩ := wfN_ext (k := m.k) he hw.len hw.dotsNew hw.dotsOld
              have hdl : (doneOf (colAt cols' m.k) m.k x).length ≤ (colAt cols' m.k).states.length :=
                doneOf_length_le _ _ _
              have hpl : (if c.predDone then doneOf (colAt cols' m.k) m.k x else []).length
                  ≤ (colAt cols' m.k).states.length := by
                split
                · exact hdl
                · simp
              have hd' : ∀ j, (colAt cols' j).dots.length ≤ 2 * (colAt cols' j).states.length := by
                intro j
                by_cases hj : j < m.k
                · exact g3 j hj
                · have := g2 j (by omega); omega
              refine ⟨⟨g1, g2, g3, hpl⟩, ?_⟩
              unfold muN; simp only [hfr, frameRem]
              have hphi := phiN_ext N (capA N) (capB N) m.k (m.idx + 1) he hN'
              have hpr := pendRem_le cols' (2 * N)
                (if c.predDone then doneOf (colAt cols' m.k) m.k x else [])
                (fun t _ => frameLen_le_any hd' hN' t)
              have hplN : (if c.predDone then doneOf (colAt cols' m.k) m.k x else []).length ≤ N :=
                Nat.le_trans hpl (hN' m.k)
              have hmul : (if c.predDone then doneOf (colAt cols' m.k) m.k x else []).length * (2 + 2 * N)
                  ≤ N * (2 + 2 * N) := Nat.mul_le_mul_right _ hplN
              have hA2 := capA_ge2 N
              simp only [hpend, pendRem] at *
              omega
            · -- scan
              rename_i term hsym
              split at h
              · cases h
                refine ⟨⟨hw.len, hw.dotsNew, hw.dotsOld, by simp [hpend]⟩, ?_⟩
                unfold muN; simp only [hfr, hpend, frameRem, pendRem]; omega
              · rename_i e l hscan
                split at h
                · cases h
                · cases h
                  have hke := hs _ _ _ _ hscan
                  have he := ext_addAt c.policy m.cols e
                    { item := s.item.next, kids := s.kids ++ [PT.leaf l], cover := s.cover }
                  obtain ⟨g1, g2, g3⟩ := wfN_ext (k := m.k) he hw.len hw.dotsNew hw.dotsOld
                  refine ⟨⟨g1, g2, g3, by simp [hpend]⟩, ?_⟩
                  unfold muN; simp only [hfr, hpend, frameRem, pendRem]
                  have := phiN_ext N (capA N) (capB N) m.k (m.idx + 1) he hN'
                  omega

theorem run_next_succ {c : Cfg} {n : Nat} {m0 m : M} (h : run c (n + 1) m0 = .next m) :
    ∃ m1, step c m0 = .next m1 ∧ run c n m1 = .next m := by
  unfold run at h
  cases hst : step c m0 with
  | next m1 => rw [hst] at h; exact ⟨m1, rfl, h⟩
  | done m1 => rw [hst] at h; cases h
  | raised m1 => rw [hst] at h; cases h

theorem run_grows {c : Cfg} : ∀ (n : Nat) (m0 m : M), run c n m0 = .next m →
    ∀ j, (colAt m0.cols j).states.length ≤ (colAt m.cols j).states.length := by
  intro n
  induction n with
  | zero => intro m0 m h j; unfold run at h; cases h; exact Nat.le_refl _
  | succ n ih =>
    intro m0 m h j
    obtain ⟨m1, h1, h2⟩ := run_next_succ h
    exact Nat.le_trans ((step_grows h1).2 j) (ih m1 m h2 j)

/-- a run of `n` steps that is still going and whose chart fits the capacity `N` has `n ≤ muN` of where it started -/
theorem run_any_bounded {c : Cfg} (hs : ScanMono c) (N : Nat) : ∀ (n : Nat) (m0 m : M), WfN c m0 →
    run c n m0 = .next m → LenOK N m.cols → n ≤ muN c N m0 := by
  intro n
  induction n with
  | zero => intro m0 m _ _ _; exact Nat.zero_le _
  | succ n ih =>
    intro m0 m hw h hN
    obtain ⟨m1, h1, h2⟩ := run_next_succ h
    have hN1 : LenOK N m1.cols := fun j => Nat.le_trans (run_grows n m1 m h2 j) (hN j)
    obtain ⟨hw1, hlt⟩ := step_any hs hw h1 hN1
    have := ih m1 m hw1 h2 hN
    omega

theorem wfN_init (c : Cfg) : WfN c (M.init c) := by
  have he := ext_addAt c.policy (List.replicate c.ncols ({} : Col)) 0 { item := startItem c.start, kids := [] }
  have h0 : ∀ j, colAt (List.replicate c.ncols ({} : Col)) j = {} := by
    intro j
    unfold colAt
    rw [List.getD_eq_getElem?_getD, List.getElem?_replicate]
    split <;> rfl
  obtain ⟨g1, g2, g3⟩ := wfN_ext (c := c) (k := 0) he (by simp)
    (fun j _ => by rw [h0]; simp) (fun j hj => by omega)
  exact ⟨g1, g2, g3, by unfold M.init; simp⟩

/-- the step bound for a column capacity `N`: a function of the configuration and `N` alone -/
def stepBoundN (c : Cfg) (N : Nat) : Nat := muN c N (M.init c)

end FV.Earley
